/-
  C03 — frame, the METHOD clause: "removing routes never changes the handling of a request that was
  previously dispatched to a different route OR METHOD".

  The frame theorems of `Mux/Properties/C03frame.lean` all require that the answering node has a pattern
  different from the removed one.  Here the removed pattern `p` may be the very pattern that answers:
  `Remove(p, methods…)` with a non-empty method list that leaves `p` at least one hand-registered method
  does not change the answer to ANY request whose method is not in the list (HEAD counts as listed when
  GET is, because the HEAD entry is derived from GET's) — same handler, same `ok`, same parameters, a
  node with the same pattern; 404s stay 404s.

  Helper lemmas: `Mux/Proofs/FrameMethod.lean` (namespace `Mux.P26`).
-/
import Mux.Proofs.FrameMethod
import Mux.Proofs.WitnessExact
import Mux.Properties.C03witness
import Mux.Properties.C01d
import Mux.Properties.C01router
import Mux.Proofs.FrameExamples
import Mux.Properties.C03frame
namespace Mux.C03
open Mux Mux.P11 Mux.P14 Mux.P17 Mux.P26

/-- `SameServed f f'` (`Mux/Proofs/FrameMethod.lean`): the two answers of `Tree.handler` have the same handler, the
same `ok` flag, the same parameters; if the first reports a node, the second reports a node with the same pattern;
if the first is a 404 (no node), so is the second. -/
abbrev SameServed := Mux.P26.SameServed

/-- The node-level hypothesis of `keep_remove` from the table-level one: in a tree satisfying the invariants, a
live pair `(p, k)` of the table read off the tree is an entry `k` of THE node with pattern `p`. -/
theorem live_pair_node {t : Tree} (hinv : AllInv t) {p k : Bytes} (h : (tableOf t).has p k)
    {x : Node} (hx : x ∈ nodesL t.root.children) (hxp : x.pattern = p) : k ∈ regKeys x.handlers := by
  obtain ⟨e, he, hep, hk⟩ := (has_tableOf t p k).1 h
  obtain ⟨y, hy, _, rfl⟩ := mem_liveL.1 he
  have : y = x := node_unique hinv.ti.sh hy hx (by rw [hxp]; exact hep)
  subst this
  exact hk

/-- **`C03_frame`, method clause, for `Remove`.**  On the tree of any well-formed history: let the method list
of `Remove(p, methods…)` be non-empty, and let `p` keep a hand-registered method afterwards (`k` is a live method
of `p` in the route table and is not in the list).  Then EVERY request whose method is not in the list — and is
not HEAD while GET is in the list — is answered after the `Remove` exactly as before: same handler, same `ok`
flag (so a 405/OPTIONS answer stays what it was), same parameters, a node with the same pattern, and a 404 stays
a 404.  In particular a request that was answered by `p` itself with another method. -/
theorem C03_frame_remove_method (t t' : Tree) (hr : ReachAll t) (p : Bytes) (methods : List Bytes)
    (he : t.remove p methods = .ok t') (hne : methods ≠ [])
    (k : Bytes) (hk : (tableOf t).has p k) (hkm : k ∉ methods)
    (env : Env) (path method : Bytes) (hm : method ∉ methods) (hhead : method = mHEAD → mGET ∉ methods)
    (f : Found) (hres : t.handler env path [] method = .res f) :
    ∃ f', t'.handler env path [] method = .res f' ∧ SameServed f f' :=
  keep_remove hr.inv he hne (fun _ hx hxp => ⟨k, live_pair_node hr.inv hk hx hxp, hkm⟩) hm hhead hres

/-- The same as one step of a history (`Remove` cannot fail on such a tree, so the step IS the operation). -/
theorem C03_frame_remove_method_step (t : Tree) (hr : ReachAll t) (p : Bytes) (methods : List Bytes)
    (hne : methods ≠ []) (k : Bytes) (hk : (tableOf t).has p k) (hkm : k ∉ methods)
    (env : Env) (path method : Bytes) (hm : method ∉ methods) (hhead : method = mHEAD → mGET ∉ methods)
    (f : Found) (hres : t.handler env path [] method = .res f) :
    ∃ f', (t.step (.remove p methods)).handler env path [] method = .res f' ∧ SameServed f f' := by
  cases he : t.remove p methods with
  | error e => exact absurd he (remove_no_error hr.inv.ti p methods e)
  | ok t' =>
    simp only [Tree.step, he]
    exact C03_frame_remove_method t t' hr p methods he hne k hk hkm env path method hm hhead f hres

/-- **The clause as worded**: a request that WAS DISPATCHED to pattern `p` with method `method` (`ok = true`:
a registered handler answered, not the 405; `method` is not OPTIONS, whose handler is automatic) keeps its
handler, parameters and pattern when other methods of `p` are removed.  No hypothesis on the table is needed:
the method that served the request (GET for a HEAD request) is itself the method `p` keeps. -/
theorem C03_frame_remove_method_served (t t' : Tree) (hr : ReachAll t) (p : Bytes) (methods : List Bytes)
    (he : t.remove p methods = .ok t') (hne : methods ≠ [])
    (env : Env) (path method : Bytes) (hm : method ∉ methods) (hhead : method = mHEAD → mGET ∉ methods)
    (hopt : method ≠ mOPTIONS)
    (f : Found) (q : Node) (hres : t.handler env path [] method = .res f) (hq : f.node = some q)
    (hroot : q ≠ t.root) (hqp : q.pattern = p) (hok : f.ok = true) :
    ∃ f' q', t'.handler env path [] method = .res f' ∧ f'.node = some q' ∧ q'.pattern = p ∧
      f'.handler = f.handler ∧ f'.ok = true ∧ f'.params = f.params := by
  obtain ⟨tb, hsim⟩ := hr.sim
  have hlive := (served_live hsim hres hok hq hroot).2 hopt
  rw [hqp] at hlive
  have hlive' := (hsim.has _ _).2 hlive
  have hkm : (if method = mHEAD then mGET else method) ∉ methods := by
    by_cases hh : method = mHEAD
    · simp only [hh, if_true]; exact hhead hh
    · simp only [hh, if_false]; exact hm
  obtain ⟨f', h1, h2, h3, h4, h5, _⟩ :=
    C03_frame_remove_method t t' hr p methods he hne _ hlive' hkm env path method hm hhead f hres
  obtain ⟨q', hq', hp'⟩ := h5 q hq
  exact ⟨f', q', h1, hq', hp'.trans hqp, h2, h3.trans hok, h4⟩

/-- History form: from a fresh tree, for every history of well-formed registrations, with the live pair taken
from the ABSTRACT table of the history (`C03_table`). -/
theorem C03_frame_remove_method_history (name : Bytes) (ic : Interceptors) (nf : Handler) (tr : Option Handler)
    (ob nb : Base) (ops : List TOp) (hw : WfOps ops) (p : Bytes) (methods : List Bytes) (hne : methods ≠ [])
    (k : Bytes) (env : Env) (path method : Bytes) (f : Found) :
    let t := (Tree.new name ic nf tr ob nb).run ops
    let tb := specRun (Tree.new name ic nf tr ob nb) ops
    tb.has p k → k ∉ methods → method ∉ methods → (method = mHEAD → mGET ∉ methods) →
    t.handler env path [] method = .res f →
    ∃ f', (t.run [.remove p methods]).handler env path [] method = .res f' ∧ SameServed f f' := by
  intro t tb hk hkm hm hhead hres
  have hr := C03_reachAll_history name ic nf tr ob nb ops hw
  have hsim := sim_history name ic nf tr ob nb ops hw
  exact C03_frame_remove_method_step t hr p methods hne k ((hsim.has p k).2 hk) hkm env path method hm hhead f hres

/-- **Router form, whole histories.**  `NewRouter(cfg)`; any history `ops` of `Handle/Remove/Clean/Use` with
well-formed registered patterns; then `Remove(p, methods…)` with a non-empty list that leaves `p` a method `k` of the
route table of the history (`C01.routerTable`).  Every request whose method is not in the list (nor HEAD while GET
is) is handed to `CallFunc` after the `Remove` with the same handler, the same `ok`, the same parameters and a node
with the same pattern (a 404 stays a 404).  (The `Allow` / CORS headers of `p` legitimately change: they list `p`'s
methods.) -/
theorem C03_frame_remove_method_router {cfg : RouterCfg} {r0 : Router} (hnew : Router.new cfg = some r0)
    (ops : List ROp) (hops : ∀ op ∈ ops, C01.ROp.wf op = true) (p : Bytes) (methods : List Bytes)
    (hne : methods ≠ []) (k : Bytes) (hk : (C01.routerTable r0 ops).has p k) (hkm : k ∉ methods)
    (env : Env) (req : Req) (hm : req.method ∉ methods) (hhead : req.method = mHEAD → mGET ∉ methods)
    (c : Call) (hc : (r0.run ops).serveContext env req [] = .call c) :
    ∃ c', (r0.run (ops ++ [.remove p methods])).serveContext env req [] = .call c' ∧
      c'.handler = c.handler ∧ c'.ok = c.ok ∧ c'.params = c.params ∧
      (∀ n, c.node = some n → ∃ n', c'.node = some n' ∧ n'.pattern = n.pattern) ∧
      (c.node = none → c'.node = none) := by
  obtain ⟨_, hhas, _, _⟩ := C01.C01_router_table hnew ops hops
  obtain ⟨hf, _⟩ := P18.serveContext_call_found env (r0.run ops) req [] c hc
  obtain ⟨f', hf', h1, h2, h3, h4, h5⟩ := C03_frame_remove_method_step (r0.run ops).tree
    (C01.C01_router_reach hnew hops).1 p methods hne k ((hhas p k).2 hk) hkm env req.path req.method hm hhead _ hf
  have hrun : r0.run (ops ++ [.remove p methods]) = (r0.run ops).step (.remove p methods) := by
    unfold Router.run
    rw [List.foldl_append, List.foldl_cons, List.foldl_nil]
  have htree : ((r0.run ops).step (.remove p methods)).tree = (r0.run ops).tree.step (.remove p methods) :=
    P18.step_tree_eq _ _
  rw [hrun]
  unfold Router.serveContext
  rw [htree, hf']
  exact ⟨_, rfl, h1, h2, h3, h4, h5⟩

/-! ### Non-vacuity -/

/-- `/u` -/
def exMP : Bytes := [47, 117]
/-- The history `Handle("/u", h1, GET, POST)`. -/
def exMOps : List TOp := [.add exMP { base := .user 1 } [] [mGET, mPOST]]
def exMT : Tree := exT0.run exMOps

theorem exMOps_wf : WfOps exMOps := by unfold WfOps; decide
theorem exMT_reach : ReachAll exMT := ⟨_, _, _, _, _, _, exMOps, exMOps_wf, rfl⟩

/-- `(/u, GET)` is a live pair of the table of the reached tree `exMT`, and `GET /u` and `HEAD /u` are dispatched to
`/u` with GET's handler (`ok = true`). -/
example : (tableOf exMT).has exMP mGET := ⟨[mGET, mPOST], by mux_eval [exMT, exMOps, exT0], by decide⟩
theorem exMT_answer (m : Bytes) (hm : m = mGET ∨ m = mHEAD) :
    ∃ f q, exMT.handler exEnv exMP [] m = .res f ∧ f.node = some q ∧ q.pattern = exMP ∧
    f.handler = { base := .user 1, wraps := [] } ∧ f.ok = true ∧ f.params = [] := by
  rcases hm with rfl | rfl <;>
  exact views_spec (by mux_eval [exMT, exMOps, exT0]) (by mux_eval [exMT, exMOps, exT0])
    (by mux_eval [exMT, exMOps, exT0]) (by mux_eval [exMT, exMOps, exT0])

/-- `Remove("/u", POST)` succeeds, and — by the theorem — `GET /u` and `HEAD /u` are answered by `/u` with the same
handler afterwards; the hypotheses of `C03_frame_remove_method_served` are all met. -/
example (m : Bytes) (hm : m = mGET ∨ m = mHEAD) :
    ∃ t', exMT.remove exMP [mPOST] = .ok t' ∧ ∃ f' q', t'.handler exEnv exMP [] m = .res f' ∧
      f'.node = some q' ∧ q'.pattern = exMP ∧ f'.handler = { base := .user 1, wraps := [] } ∧ f'.ok = true := by
  obtain ⟨f, q, hres, hq, hqp, hh, hok, _⟩ := exMT_answer m hm
  cases he : exMT.remove exMP [mPOST] with
  | error e => exact absurd he (remove_no_error exMT_reach.inv.ti _ _ e)
  | ok t' =>
    have hroot : q ≠ exMT.root := by
      intro e
      rw [e, exMT_reach.inv.rootPat] at hqp
      cases hqp
    obtain ⟨f', q', h1, h2, h3, h4, h5, _⟩ := C03_frame_remove_method_served exMT t' exMT_reach exMP [mPOST] he
      (by simp) exEnv exMP m (by rcases hm with rfl | rfl <;> decide) (fun _ => by decide)
      (by rcases hm with rfl | rfl <;> decide) f q hres hq hroot hqp hok
    exact ⟨t', rfl, f', q', h1, h2, h3, h4.trans hh, h5⟩

/-- The hypothesis "`p` keeps a method" cannot be dropped: after `Remove("/u", GET, POST)`… the pattern is gone
and an OPTIONS request, which was answered by `/u`'s automatic handler, is a 404 (no node). -/
example : patOf (exMT.handler exEnv exMP [] mOPTIONS) = some exMP ∧
    patOf ((exMT.step (.remove exMP [mGET, mPOST])).handler exEnv exMP [] mOPTIONS) = none := by
  constructor <;> mux_eval [exMT, exMOps, exT0]

/-! ## `C03_witness`, exact form: WHAT the route's own node answers

The witness theorems of `Mux/Properties/C03frame.lean` / `C03witness.lean` conclude "some node with handlers answers,
and it `Diverges` from the route's node".  Here: when the answering node IS the route's own node `x`, the reported
parameters are exactly the witness values and the handler is `x`'s entry for the method. -/

/-- **`C03_witness_exact`.**  On the tree of a well-formed history let `x` be the node reached from the root by
`chain.map (·.1)`, and let every segment of the chain consume exactly its own text on the witness path
(`MatchChain`, the weakest hypothesis of the witness theorems; implied by simple / good values, see the corollaries).
If the witness request `instChain chain` (an ordinary request: not `""`, `*`, nor TRACE on a tracing tree) is
answered by `x` itself, then the reported parameters are exactly the capturing parameters of the chain with the
WITNESS VALUES, in order, and the handler is the entry of `x` for the method (its 405 entry when it has none). -/
theorem C03_witness_exact (t : Tree) (hr : ReachAll t) (env : Env) (chain : List (Seg × Bytes)) (x : Node)
    (hch : Chain t.root (chain.map (·.1)) x) (hm : MatchChain env t.ic chain)
    (method : Bytes) (f : Found) (hp : instChain chain ≠ []) (hstar : instChain chain ≠ [42])
    (htr : t.trace = none ∨ method ≠ mTRACE)
    (hres : t.handler env (instChain chain) [] method = .res f) (hq : f.node = some x) :
    f.params = captures chain ∧ HandlerAgrees x method f := by
  refine ⟨witness_exact_tree hr.inv (P13.reach_uniqHyp hr.reachWf) env chain x hch hm method f hp hstar htr hres hq, ?_⟩
  obtain ⟨_, _, _, _, _, _, _, h7, _⟩ :=
    C01.C01_dispatch_sound env t hr.reachWf (instChain chain) method f x hp hstar htr hres hq
  exact h7

/-- Spelled out for a method the node has an entry for: the answer is that entry, with `ok = true`. -/
theorem C03_witness_exact_entry (t : Tree) (hr : ReachAll t) (env : Env) (chain : List (Seg × Bytes)) (x : Node)
    (hch : Chain t.root (chain.map (·.1)) x) (hm : MatchChain env t.ic chain)
    (method : Bytes) (h : Handler) (hne : method ≠ mNotAllowed) (hent : x.handlers.get? method = some h)
    (f : Found) (hp : instChain chain ≠ []) (hstar : instChain chain ≠ [42])
    (htr : t.trace = none ∨ method ≠ mTRACE)
    (hres : t.handler env (instChain chain) [] method = .res f) (hq : f.node = some x) :
    f.params = captures chain ∧ f.ok = true ∧ f.handler = h := by
  obtain ⟨h1, h2⟩ := C03_witness_exact t hr env chain x hch hm method f hp hstar htr hres hq
  refine ⟨h1, ?_⟩
  cases hok : f.ok with
  | true =>
    have := (h2.1 hok).2
    rw [hent] at this
    exact ⟨rfl, (Option.some.inj this).symm⟩
  | false =>
    rcases (h2.2 hok).1 with e | e
    · exact absurd e hne
    · rw [hent] at e; cases e

/-- With the hypothesis on the values alone (`GoodVal`: simple values, and for a regexp parameter a value in the
language of the rule whose rule cannot consume the first byte of the following literal — the hypothesis of
`C03_witness_rx`). -/
theorem C03_witness_exact_rx (t : Tree) (hr : ReachAll t) (env : Env) (chain : List (Seg × Bytes)) (x : Node)
    (hch : Chain t.root (chain.map (·.1)) x) (hg : ∀ sv ∈ chain, GoodVal env t.ic sv.1 sv.2)
    (hasc : isAscii (instChain chain) = true ∨ ∀ sv ∈ chain, sv.1.kind = .rx → sv.1.re.wide = false)
    (method : Bytes) (f : Found) (hp : instChain chain ≠ []) (hstar : instChain chain ≠ [42])
    (htr : t.trace = none ∨ method ≠ mTRACE)
    (hres : t.handler env (instChain chain) [] method = .res f) (hq : f.node = some x) :
    f.params = captures chain ∧ HandlerAgrees x method f :=
  C03_witness_exact t hr env chain x hch
    (C03_matchChain_of_good t hr env chain x hch (C03_goodChain_of_vals t hr env chain x hch hg hasc))
    method f hp hstar htr hres hq

/-- With simple values (chains without regexp segments, the hypothesis of `C03_witness_partial`). -/
theorem C03_witness_exact_simple (t : Tree) (hr : ReachAll t) (env : Env) (chain : List (Seg × Bytes)) (x : Node)
    (hch : Chain t.root (chain.map (·.1)) x) (hsimple : ∀ sv ∈ chain, SimpleVal env t.ic sv.1 sv.2)
    (method : Bytes) (f : Found) (hp : instChain chain ≠ []) (hstar : instChain chain ≠ [42])
    (htr : t.trace = none ∨ method ≠ mTRACE)
    (hres : t.handler env (instChain chain) [] method = .res f) (hq : f.node = some x) :
    f.params = captures chain ∧ HandlerAgrees x method f :=
  C03_witness_exact_rx t hr env chain x hch (fun sv hsv => .inl (hsimple sv hsv))
    (.inr (fun sv hsv hk => absurd hk (hsimple sv hsv).1)) method f hp hstar htr hres hq

/-- **Table form.**  For every live pair `(p, m)` of the table read off the tree there are THE node `x` of `p` and
its chain `segs` such that for all good values `vs`: if the witness request with method `m` is answered by `x`
itself, it is answered by `x`'s entry for `m` (`ok = true`: served, not a 405) and reports exactly the values `vs`
of the capturing parameters. -/
theorem C03_witness_exact_table (t : Tree) (hr : ReachAll t) (env : Env) (p m : Bytes) (h : (tableOf t).has p m) :
    ∃ (x : Node) (segs : List Seg), Chain t.root segs x ∧ segs ≠ [] ∧ x.pattern = p ∧
      p = (segs.map (·.value)).flatten ∧ (∃ h0, x.handlers.get? m = some h0) ∧
      ∀ vs : List Bytes, vs.length = segs.length → (∀ sv ∈ segs.zip vs, GoodVal env t.ic sv.1 sv.2) →
        (isAscii (instChain (segs.zip vs)) = true ∨ ∀ s ∈ segs, s.kind = .rx → s.re.wide = false) →
        instChain (segs.zip vs) ≠ [] → instChain (segs.zip vs) ≠ [42] → (t.trace = none ∨ m ≠ mTRACE) →
        ∀ f, t.handler env (instChain (segs.zip vs)) [] m = .res f → f.node = some x →
          f.params = captures (segs.zip vs) ∧ f.ok = true ∧ x.handlers.get? m = some f.handler := by
  obtain ⟨x, segs, hch, hne, hp, hflat, hm⟩ := C03_live_chain t hr p m h
  have hsome : (x.handlers.get? m).isSome = true :=
    (AMap.get?_isSome_iff _ _).2 ((AMap.contains_iff _ _).1 hm)
  obtain ⟨h0, hh0⟩ := Option.isSome_iff_exists.1 hsome
  have hmne : m ≠ mNotAllowed := by
    obtain ⟨e, he, _, hk⟩ := (has_tableOf t p m).1 h
    exact (mem_regKeys.1 hk).2.2.2
  refine ⟨x, segs, hch, hne, hp, hflat, ⟨h0, hh0⟩, fun vs hlen hgood hasc hp1 hp2 htr f hres hq => ?_⟩
  have hmap : (segs.zip vs).map (·.1) = segs := by rw [List.map_fst_zip]; omega
  have hch' : Chain t.root ((segs.zip vs).map (·.1)) x := by rw [hmap]; exact hch
  have hasc' : isAscii (instChain (segs.zip vs)) = true ∨
      ∀ sv ∈ segs.zip vs, sv.1.kind = .rx → sv.1.re.wide = false := by
    rcases hasc with h' | h'
    · exact .inl h'
    · exact .inr (fun sv hsv => h' sv.1 (List.of_mem_zip hsv).1)
  have hmc := C03_matchChain_of_good t hr env _ x hch' (C03_goodChain_of_vals t hr env _ x hch' hgood hasc')
  obtain ⟨h1, h2, h3⟩ := C03_witness_exact_entry t hr env _ x hch' hmc m h0 hmne hh0 f hp1 hp2 htr hres hq
  exact ⟨h1, h2, by rw [h3]; exact hh0⟩

/-! ### Non-vacuity of the exact witness theorems -/

/-- In the reached tree `exR` (`Handle("/u/", h2, GET); Handle("/u/{id:\d+}/x", h1, GET)`) the witness request
`GET /u/42/x` of the chain `"/u/"`, `{id:\d+}/x ↦ 42` IS answered by the chain's own node, so the theorem applies and
gives `id = 42` and the node's GET entry. -/
example : ∃ f x, Chain exR.root (exRChain.map (·.1)) x ∧ MatchChain P14.exEnv exR.ic exRChain ∧
    exR.handler P14.exEnv (instChain exRChain) [] mGET = .res f ∧ f.node = some x ∧
    f.params = [([105, 100], [52, 50])] ∧ captures exRChain = [([105, 100], [52, 50])] ∧
    HandlerAgrees x mGET f := by
  obtain ⟨x, hch, hlive⟩ := exR_chain
  obtain ⟨f, q, hres, hq, hp, _, _, hps⟩ := exR_answer
  rw [← exRChain_inst] at hres
  -- the answering node has the pattern of `x`, hence is `x`
  have hxq : q = x := by
    have hreach := exR_reach
    have hxmem : x ∈ nodesL exR.root.children := P13.chain_mem_below' hch (by decide)
    obtain ⟨chain', c1, c2, _⟩ := C01.C01_dispatch_sound P14.exEnv exR hreach.reachWf _ mGET f q (by decide) (by decide)
      (.inr (by decide)) hres hq
    have hqmem : q ∈ nodesL exR.root.children := P13.chain_mem_below' c2 (by simpa using c1)
    refine node_unique hreach.inv.ti.sh hqmem hxmem ?_
    rw [hp, P13.reach_chain_pattern hreach.reachWf hch]
    decide
  subst hxq
  obtain ⟨h1, h2⟩ := C03_witness_exact exR exR_reach P14.exEnv exRChain q hch exRChain_match mGET f (by decide)
    (by decide) (.inr (by decide)) hres hq
  exact ⟨f, q, hch, exRChain_match, hres, hq, hps, by decide, h2⟩

/-- The router form: the router history `NewRouter("r"); Handle("/u", h1, GET, POST)` has the table
`[("/u", [GET, POST])]`; `GET /u` is handed to `/u`; `Remove("/u", POST)` keeps GET: the hypotheses of
`C03_frame_remove_method_router` are met. -/
def exMROps : List ROp := [.handle exMP 1 [] [mGET, mPOST]]
example : Router.new C01.exCfg = some C01.exR0 ∧ (∀ op ∈ exMROps, C01.ROp.wf op = true) ∧
    (C01.routerTable C01.exR0 exMROps).has exMP mGET ∧ mGET ∉ [mPOST] ∧
    C01.callView ((C01.exR0.run exMROps).serveContext exEnv { method := mGET, path := exMP } []) =
      some (some exMP, true, []) := by
  refine ⟨rfl, ?_, ⟨[mGET, mPOST], ?_, by decide⟩, by decide, ?_⟩
  · intro op hop
    simp only [exMROps, List.mem_singleton] at hop
    subst hop
    decide +kernel
  · have : C01.routerTable C01.exR0 exMROps = [(exMP, [mGET, mPOST])] := by
      unfold C01.routerTable
      simp only [exMROps, C01.routerTableFrom, Spec.stepWith, P18.topOf]
      mux_eval [C01.exR0]
    rw [this]
    exact List.mem_singleton.2 rfl
  · mux_eval [exMROps, C01.exR0]

/-- The HEAD proviso of `C03_frame_remove_method` cannot be dropped: `HEAD /u` is served through GET's registration, so
after `Remove("/u", GET)` — HEAD itself is not in the list, and `/u` keeps POST — it is a 405 (`ok = false`). -/
example : okOf (exMT.handler exEnv exMP [] mHEAD) = some true ∧
    okOf ((exMT.step (.remove exMP [mGET])).handler exEnv exMP [] mHEAD) = some false ∧
    patOf ((exMT.step (.remove exMP [mGET])).handler exEnv exMP [] mHEAD) = some exMP := by
  refine ⟨?_, ?_, ?_⟩ <;> mux_eval [exMT, exMOps, exT0]

end Mux.C03
