/-
  C01 — dispatch soundness as ONE Router-level statement over whole histories.

  `C01_router_history`: `NewRouter(cfg)`, then ANY history of `Handle/Remove/Clean/Use` whose registered patterns
  are well-formed (the property's own hypothesis), then any request.  Whatever `Router.serveContext` hands to
  `CallFunc` (a route handler, the 405 handler or the automatic OPTIONS answer of a matched route, or the 404):

   (a) the reported pattern is a live pattern of the route table of the history (`routerTable`, the abstract
       table replayed over the same `Handle/Remove/Clean` calls) — and the pair (pattern, method) is live, GET's
       for HEAD, when a registered handler answers;
   (b) the handler is the entry stored for (pattern, method) — the 405 entry for a 405 —, and that entry is the
       handler of the `Handle` call that registered it (the handler registered with GET for a HEAD request), for
       every way of splitting the history into `pre ++ Handle(p, h, m, methods…) :: post` with `post` leaving that
       entry alone;
   (c) the path is the pattern instantiated with the reported values, byte for byte (chain form, as in
       `C01_dispatch_sound`; in the text form `ic.url pattern params = path` when no parameter is ignored), and
       every value satisfies its constraint;
   (d) the reported parameters are exactly the capturing parameters of the chain, in order;
   (e) a 404 reports no parameters.

  It is a composition of `C01_dispatch_sound`, `C01_dispatch_404` (Mux/Properties/C01d.lean), the table refinement
  `Sim` behind `C03_table`/`C03_removed` (Mux/Proofs/Table.lean), `C09_own_persists`, `C09_has_dispatch`
  (Mux/Properties/C09facade.lean) and `C10_inverse_icUrl` (Mux/Properties/C10strict.lean); the only new ingredient
  is the route table of a ROUTER history and its refinement (`C01_router_table`).
-/
import Mux.Properties.C01group
import Mux.Properties.C03
import Mux.Properties.C09facade
import Mux.Properties.C10strict
namespace Mux.C01
open Mux Mux.P18 Mux.P11 Mux.P10

/-! ## The route table of a router history -/

/-- Replay a router history on the abstract table of `Mux/Spec/Table.lean`: an accepted `Handle(p, …, methods…)`
adds the methods (the default set when none is given) to `p`'s entry, `Remove` erases methods or the pattern,
`Clean` deletes the patterns with the prefix, `Use` changes nothing.  (Whether a `Handle` is accepted is read off
the router — that is C17's subject.) -/
def routerTableFrom : Router → Spec.Table → List ROp → Spec.Table
  | _, tb, [] => tb
  | r, tb, op :: ops => routerTableFrom (r.step op) (Spec.stepWith r.tree tb (topOf r op)) ops

/-- The route table of the history `ops` on the new router `r0`. -/
def routerTable (r0 : Router) (ops : List ROp) : Spec.Table := routerTableFrom r0 [] ops

theorem sim_routerFrom {r : Router} {tb : Spec.Table} (h : Sim r.tree tb) (ops : List ROp)
    (hw : ∀ op ∈ ops, ROp.wf op = true) : Sim (r.run ops).tree (routerTableFrom r tb ops) := by
  unfold Router.run
  induction ops generalizing r tb with
  | nil => exact h
  | cons op ops ih =>
    simp only [List.foldl_cons, routerTableFrom]
    refine ih ?_ (fun o ho => hw o (by simp [ho]))
    rw [step_tree_eq]
    exact h.step (topOf r op) (by rw [topOf_wf]; exact hw op (by simp))

/-- **The table refinement for router histories** (`C03_table` at Router level): the tree of the router and
`routerTable` have the same live pairs, and `Routes()` lists exactly the table. -/
theorem C01_router_table {cfg : RouterCfg} {r0 : Router} (hnew : Router.new cfg = some r0) (ops : List ROp)
    (hops : ∀ op ∈ ops, ROp.wf op = true) :
    Sim (r0.run ops).tree (routerTable r0 ops) ∧
    (∀ p m, (tableOf (r0.run ops).tree).has p m ↔ (routerTable r0 ops).has p m) ∧
    (∀ p, p ∈ (tableOf (r0.run ops).tree).patterns ↔ p ∈ (routerTable r0 ops).patterns) ∧
    (∀ x, x ∈ (r0.run ops).routes ↔ x ∈ Spec.routes (r0.run ops).tree.hasTrace (routerTable r0 ops)) := by
  have h0 : Sim r0.tree [] := by
    unfold Router.new at hnew
    split at hnew
    · cases hnew
    · cases hnew; exact Sim.new _ _ _ _
  have h := sim_routerFrom h0 ops hops
  exact ⟨h, h.has, (tables_agree (tableOf_ok h.inv).1 h.ok h.has).1, fun x => routes_iff h x⟩

/-- The configuration of the router's tree is the one given to `NewRouter`. -/
theorem router_cfg {cfg : RouterCfg} {r0 : Router} (hnew : Router.new cfg = some r0) (ops : List ROp) :
    (r0.run ops).tree.ic = cfg.ic ∧ (r0.run ops).tree.name = cfg.name ∧
      (cfg.trace = false → (r0.run ops).tree.trace = none) := by
  obtain ⟨tops, _, hrun⟩ := Router.run_tree r0 ops
  have hcfg := sameCfg_run r0.tree tops
  rw [← hrun] at hcfg
  have h0 : r0.tree.ic = cfg.ic ∧ r0.tree.name = cfg.name ∧ (cfg.trace = false → r0.tree.hasTrace = false) := by
    unfold Router.new at hnew
    split at hnew
    · cases hnew
    · cases hnew
      exact ⟨rfl, rfl, fun htr => by simp [Tree.new, Tree.hasTrace, htr]⟩
  refine ⟨hcfg.2.2.1.trans h0.1, hcfg.2.1.trans h0.2.1, fun htr => ?_⟩
  have h1 := hcfg.1.trans (h0.2.2 htr)
  unfold Tree.hasTrace at h1
  cases ht : (r0.run ops).tree.trace with
  | none => rfl
  | some _ => rw [ht] at h1; cases h1

/-! ## The statement -/

/-- **`C01_router_history`.**  `NewRouter(cfg)`; any history `ops` of `Handle/Remove/Clean/Use` whose registered
patterns are well-formed; any request `req`; `c` what `Router.serveContext` hands to `CallFunc`.

* If `c` reports a node `n` — a route handler, or the 405 / automatic OPTIONS answer of a matched route — for an
  ordinary request (path neither `""` nor `*`, not the TRACE short-circuit), then
  (a) `n.pattern` is a live pattern of the route table of the history, and when a registered handler answers
      (`ok`, method not OPTIONS) the pair (pattern, method) is live — (pattern, GET) for a HEAD request;
  (b) the handler is the entry stored under the live pattern `n.pattern` for the request method (`ok`) resp. for the
      405 key (`¬ ok`); and for every split of the history `ops = pre ++ Handle(p, h, m, methods…) :: post` with an
      accepted `Handle` of this pattern whose entry for the request method `post` leaves alone (`Untouched`), the
      handler is the registered `h` — for a HEAD request the `h` registered with GET — under the middleware stack
      `mkWraps (m ++ all Use middlewares) method p name`;
  (c) there is a chain of tree segments from the root to `n` whose texts spell `n.pattern`, whose instantiation with
      the chain's values spells `req.path` byte for byte, and every value satisfies its constraint (interceptor
      function / denotation of the regexp rule); when no parameter of the chain is of the ignored form `{-…}`,
      substituting the reported parameters into the pattern TEXT gives the path: `ic.url pattern params = path`;
  (d) the reported parameters are exactly the captures of that chain (the non-ignored parameters, in order).
* (e) If `c` reports no node it is the 404: the router's not-found handler, `ok = false`, NO parameters. -/
theorem C01_router_history (env : Env) {cfg : RouterCfg} {r0 : Router} (hnew : Router.new cfg = some r0)
    (ops : List ROp) (hops : ∀ op ∈ ops, ROp.wf op = true) (req : Req) (c : Call)
    (h : (r0.run ops).serveContext env req [] = .call c) :
    (∀ n, c.node = some n → req.path ≠ [] → req.path ≠ [42] → (cfg.trace = false ∨ req.method ≠ mTRACE) →
      -- (a)
      (n.pattern ∈ (routerTable r0 ops).patterns ∧
       (c.ok = true → req.method ≠ mOPTIONS →
          (routerTable r0 ops).has n.pattern (if req.method = mHEAD then mGET else req.method))) ∧
      -- (b)
      (C09.Has (r0.run ops).tree n.pattern (callKey req c) c.handler ∧
       (∀ (pre post : List ROp) (h0 : Nat) (m : List Nat) (methods : List Bytes),
          ops = pre ++ .handle n.pattern h0 m methods :: post →
          (∃ r', (r0.run pre).handle n.pattern h0 m methods = .ok r') →
          (∀ op ∈ post, C09.Untouched n.pattern req.method op) →
          (req.method ∈ effMethods methods ∨ (req.method = mHEAD ∧ mGET ∈ effMethods methods)) → c.ok = true →
          c.handler = { base := .user h0,
                        wraps := mkWraps (m ++ (ops.filterMap useArg).flatten) req.method n.pattern cfg.name })) ∧
      -- (c), (d)
      (∃ chain : List (Seg × Bytes), chain ≠ [] ∧ Chain (r0.run ops).tree.root (chain.map (·.1)) n ∧
        n.pattern = (chain.map (·.1.value)).flatten ∧
        req.path = instChain chain ∧ (∀ sv ∈ chain, sv.1.Satisfies env cfg.ic sv.2) ∧
        c.params = captures chain ∧
        ((∀ sv ∈ chain, sv.1.kind ≠ .str → sv.1.ignoreName = false) →
          cfg.ic.url n.pattern c.params = .ok req.path))) ∧
    -- (e)
    (c.node = none → c.params = [] ∧ c.handler = (r0.run ops).tree.notFound ∧ c.ok = false) := by
  obtain ⟨hreachAll, hreach⟩ := C01_router_reach hnew hops
  obtain ⟨hsim, _, hpat, _⟩ := C01_router_table hnew ops hops
  obtain ⟨hic, _, htrace⟩ := router_cfg hnew ops
  obtain ⟨hf, _⟩ := serveContext_call_found env (r0.run ops) req [] c h
  refine ⟨fun n hn hp hs htr => ?_, fun hnone => ?_⟩
  · have htr' : (r0.run ops).tree.trace = none ∨ req.method ≠ mTRACE := htr.imp htrace id
    obtain ⟨chain, c1, c2, c3, c4, c5, c6, c7, c8⟩ :=
      C01_dispatch_sound env _ hreach req.path req.method (Call.found c) n hp hs htr' hf hn
    have hsegs : chain.map (·.1) ≠ [] := by simpa using c1
    have hmem : n ∈ nodesL (r0.run ops).tree.root.children := P13.chain_mem_below' c2 hsegs
    have hroot : n ≠ (r0.run ops).tree.root := by
      intro e
      obtain ⟨r, hr, hxr⟩ := below_pattern _ _ hsim.inv.sh n hmem
      rw [e] at hxr
      have := congrArg List.length hxr
      simp at this
      exact hr this
    refine ⟨⟨?_, ?_⟩, ⟨?_, ?_⟩, chain, c1, c2, c8, c3, ?_, c5, ?_⟩
    · refine (hpat _).1 ?_
      rw [tableOf_patterns]
      exact List.mem_map.2 ⟨(n.pattern, n.handlers), P11.mem_liveL.2 ⟨n, hmem, c6, rfl⟩, rfl⟩
    · intro hok hopt
      exact (served_live hsim hf hok hn hroot).2 hopt
    · -- the stored entry
      refine ⟨n.handlers, P11.mem_liveL.2 ⟨n, hmem, c6, rfl⟩, ?_⟩
      unfold callKey
      cases hok : c.ok with
      | true =>
        simp only [if_true]
        exact (c7.1 hok).2
      | false =>
        simp only [Bool.false_eq_true, if_false]
        have hkeys := (hsim.inv.inv2.toTreeInv.has_entries
          (by rw [Node.nodes_eq]; exact List.mem_cons_of_mem _ hmem) c6).1
        have hsome := (AMap.get?_isSome_iff _ _).2 hkeys
        have h2 := (c7.2 hok).2
        cases hg : n.handlers.get? mNotAllowed with
        | none => rw [hg] at hsome; cases hsome
        | some hd =>
          rw [hg] at h2
          exact congrArg some h2.symm
    · -- the registered handler
      intro pre post h0 m methods hsplit hacc hpost hk hok
      subst hsplit
      have hhas := C09.C09_own_persists hnew pre post n.pattern h0 m methods req.method hops hacc hpost hk
      exact C09.C09_has_dispatch hreachAll hhas env req [] h hn rfl (by
        unfold callKey; simp [hok])
    · intro sv hsv
      rw [← hic]; exact c4 sv hsv
    · intro hign
      rw [← hic]
      refine C10.C10_inverse_icUrl env _ hreach req.path req.method (Call.found c) n hp hs htr' hf hn
        (chain.map (·.1)) c2 ?_
      intro s hs' hk
      obtain ⟨sv, hsv, rfl⟩ := List.mem_map.1 hs'
      exact hign sv hsv hk
  · exact C01_dispatch_404 env _ hreach req.path req.method (Call.found c) hf hnone

/-- `Router.ServeHTTP` hands `CallFunc` exactly the call of `serveContext` (then runs it under the deferred
`recover`): `C01_router_history` speaks about every call `ServeHTTP` makes. -/
theorem C01_serveHTTP_call (env : Env) (pc : PanicCfg) (scripts : Scripts) (r : Router) (req : Req) (ps : Params)
    (c : Call) (h : (r.serveHTTP env pc scripts req ps).1 = some c) : r.serveContext env req ps = .call c := by
  unfold Router.serveHTTP at h
  cases hs : r.serveContext env req ps with
  | unsupported => rw [hs] at h; cases h
  | fault s rc => rw [hs] at h; cases h
  | call c' =>
    rw [hs] at h
    simp only [ServeRes.finish, Option.some.injEq] at h
    rw [h]

/-- `C01_router_history` for `Router.ServeHTTP`. -/
theorem C01_router_history_serveHTTP (env : Env) (pc : PanicCfg) (scripts : Scripts) {cfg : RouterCfg} {r0 : Router}
    (hnew : Router.new cfg = some r0) (ops : List ROp) (hops : ∀ op ∈ ops, ROp.wf op = true) (req : Req) (c : Call)
    (h : ((r0.run ops).serveHTTP env pc scripts req []).1 = some c) :
    (∀ n, c.node = some n → req.path ≠ [] → req.path ≠ [42] → (cfg.trace = false ∨ req.method ≠ mTRACE) →
      n.pattern ∈ (routerTable r0 ops).patterns ∧
      C09.Has (r0.run ops).tree n.pattern (callKey req c) c.handler ∧
      ∃ chain : List (Seg × Bytes), chain ≠ [] ∧ Chain (r0.run ops).tree.root (chain.map (·.1)) n ∧
        n.pattern = (chain.map (·.1.value)).flatten ∧ req.path = instChain chain ∧
        (∀ sv ∈ chain, sv.1.Satisfies env cfg.ic sv.2) ∧ c.params = captures chain) ∧
    (c.node = none → c.params = [] ∧ c.handler = (r0.run ops).tree.notFound ∧ c.ok = false) := by
  obtain ⟨h1, h2⟩ := C01_router_history env hnew ops hops req c (C01_serveHTTP_call env pc scripts _ req [] c h)
  refine ⟨fun n hn hp hs htr => ?_, h2⟩
  obtain ⟨⟨a, _⟩, ⟨b, _⟩, chain, c1, c2, c3, c4, c5, c6, _⟩ := h1 n hn hp hs htr
  exact ⟨a, b, chain, c1, c2, c3, c4, c5, c6⟩

/-! ## Non-vacuity -/

/-- `GET /u/5` -/
def exReqU : Req := { method := mGET, path := [47, 117, 47, 53] }
/-- `HEAD /u/5` -/
def exReqH : Req := { method := mHEAD, path := [47, 117, 47, 53] }
/-- `GET /x` -/
def exReqX : Req := { method := mGET, path := [47, 120] }

/-- What a call reports (decidable views). -/
def callView : ServeRes → Option (Option Bytes × Bool × Params)
  | .call c => some (c.node.map (·.pattern), c.ok, c.params)
  | _ => none
def callHandler : ServeRes → Option Handler
  | .call c => some c.handler
  | _ => none

theorem exOps_wf : ∀ op ∈ exOps, ROp.wf op = true := by
  intro op hop
  simp only [exOps, List.mem_singleton] at hop
  subst hop
  decide +kernel

/-- The history `NewRouter("r"); Handle("/u/{id}", h7, GET)`: its route table is `[("/u/{id}", [GET])]`. -/
example : Router.new exCfg = some exR0 ∧ routerTable exR0 exOps = [(bytesOfString "/u/{id}", [mGET])] := by
  refine ⟨rfl, ?_⟩
  unfold routerTable
  simp only [exOps, routerTableFrom, Spec.stepWith, topOf]
  mux_eval [exR0]

/-- `GET /u/5` and `HEAD /u/5` are handed to the node of `/u/{id}` with `ok`, the parameter `id = 5` and the
handler `h7`; `GET /x` is the 404 without parameters: the hypotheses of both halves of `C01_router_history` (a
reported node for an ordinary request; no node) are met, with the split `ops = [] ++ Handle(…) :: []`. -/
example : callView (exR.serveContext exEnvG exReqU []) =
      some (some (bytesOfString "/u/{id}"), true, [(bytesOfString "id", [53])]) ∧
    callHandler (exR.serveContext exEnvG exReqU []) =
      some { base := .user 7, wraps := mkWraps [] mGET (bytesOfString "/u/{id}") [114] } ∧
    callView (exR.serveContext exEnvG exReqH []) =
      some (some (bytesOfString "/u/{id}"), true, [(bytesOfString "id", [53])]) ∧
    callHandler (exR.serveContext exEnvG exReqH []) =
      some { base := .user 7, wraps := mkWraps [] mHEAD (bytesOfString "/u/{id}") [114] } ∧
    callView (exR.serveContext exEnvG exReqX []) = some (none, false, []) ∧
    callHandler (exR.serveContext exEnvG exReqX []) = some { base := .notFound } := by
  unfold exR
  refine ⟨?_, ?_, ?_, ?_, ?_, ?_⟩ <;> mux_eval [exOps, exR0]

example : exOps = [] ++ .handle (bytesOfString "/u/{id}") 7 [] [mGET] :: [] ∧
    (∃ r', (exR0.run []).handle (bytesOfString "/u/{id}") 7 [] [mGET] = .ok r') ∧
    (∀ op ∈ ([] : List ROp), C09.Untouched (bytesOfString "/u/{id}") mHEAD op) ∧
    (mHEAD = mHEAD ∧ mGET ∈ effMethods [mGET]) := by
  refine ⟨rfl, ?_, by simp, rfl, by decide⟩
  cases h : (exR0.run []).handle (bytesOfString "/u/{id}") 7 [] [mGET] with
  | ok r' => exact ⟨r', rfl⟩
  | error e =>
    exfalso
    have : (match (exR0.run []).handle (bytesOfString "/u/{id}") 7 [] [mGET] with
      | .ok _ => true | .error _ => false) = true := by mux_eval [exR0]
    rw [h] at this
    cases this

end Mux.C01
