/-
  C08 (closed-model part) — HEAD through `headResponse`.

  A handler is a write script `List Act`; `runGet` runs it against the recorder, `runHead` runs it
  through `headResponse{size := 0, wrote := false}`.  `Rec.status r = r.code.getD 200` (an unset
  status is the implicit 200), `written acts` is the number of body bytes the script writes,
  `Act.key` the header key an action touches.  (Definitions in `Mux.Proofs.Head`.)
-/
import Mux.Proofs.Head
namespace Mux.C08
open Mux

/-- No body byte reaches the client. -/
theorem C08_head_body (acts : List Act) (r0 : Rec) (_hc : r0.code = none) (hb : r0.body = 0) :
    (runHead acts 0 false r0).body = 0 := by
  rw [runHead_body, hb]

/-- Stronger form, for every start state of `headResponse` and every recorder. -/
theorem C08_head_body_gen (acts : List Act) (sz : Nat) (wr : Bool) (r : Rec) :
    (runHead acts sz wr r).body = r.body := runHead_body acts sz wr r

/-- HEAD and GET answer with the same status (no hypothesis on the recorder is needed). -/
theorem C08_head_status (acts : List Act) (r0 : Rec) :
    (runHead acts 0 false r0).status = (runGet acts r0).status := runHead_status acts r0

/-- The live header maps agree, Content-Length aside. -/
theorem C08_head_headers (acts : List Act) (r0 : Rec) :
    (runHead acts 0 false r0).hdr.del hContentLength = (runGet acts r0).hdr.del hContentLength :=
  runHead_headers acts r0

/-- If the handler writes at least once and never touches Content-Length itself, the live header
map ends with Content-Length = number of bytes written.  (The hypothesis "no explicit
`WriteHeader`" of the property text is not needed for the live map; it is what makes the live map
the one that is sent, see `C08_head_length_sent`.) -/
theorem C08_head_length (acts : List Act) (r0 : Rec)
    (hclean : ∀ a ∈ acts, a.key ≠ some hContentLength)
    (hw : ∃ n, Act.write n ∈ acts) :
    (runHead acts 0 false r0).hdr.get hContentLength = natToBytes (written acts) := by
  have := runHead_length_gen acts 0 false r0 hclean
    (.inl (let ⟨_, hn⟩ := hw; ⟨_, hn, rfl⟩))
  simpa using this

/-- The induction-strength version: any start size, any `wrote` flag. -/
theorem C08_head_length_gen (acts : List Act) (sz : Nat) (wr : Bool) (r : Rec)
    (hclean : ∀ a ∈ acts, a.key ≠ some hContentLength)
    (hw : ∃ n, Act.write n ∈ acts) :
    (runHead acts sz wr r).hdr.get hContentLength = natToBytes (sz + written acts) :=
  runHead_length_gen acts sz wr r hclean (.inl (let ⟨_, hn⟩ := hw; ⟨_, hn, rfl⟩))

/-- Without an explicit `WriteHeader` the handler returns with nothing sent yet (status unset, no
header snapshot), so the live map — with the Content-Length of `C08_head_length` — is what goes
out with the implicit 200. -/
theorem C08_head_length_sent (acts : List Act) (r0 : Rec)
    (hc : r0.code = none) (hs : r0.snap = none)
    (hnw : ∀ c, Act.writeHeader c ∉ acts) :
    (runHead acts 0 false r0).code = none ∧ (runHead acts 0 false r0).snap = none := by
  have h := runHead_unsent acts 0 false r0 (by
    intro a ha; cases a <;> first | rfl | exact absurd ha (hnw _))
  rw [h.1, h.2]; exact ⟨hc, hs⟩

/-- `runCall` with `headWrap = true` runs the very script a GET runs — the script of `c.handler`,
after the same middleware/handler panic checks — only through `runHead … 0 false` instead of
`runGet`.  `callScript` does not depend on `headWrap`. -/
theorem C08_head_runs_get (pc : PanicCfg) (scripts : Scripts) (c : Call) :
    runCall pc scripts { c with headWrap := true }
        = (callScript pc scripts c).map (fun acts => runHead acts 0 false c.rec0) ∧
    runCall pc scripts { c with headWrap := false }
        = (callScript pc scripts c).map (fun acts => runGet acts c.rec0) ∧
    (∀ acts, callScript pc scripts c = .ok acts → c.handler.script scripts c.allow = some acts) := by
  refine ⟨?_, ?_, callScript_ok pc scripts c⟩
  · rw [runCall_eq_callScript]; rfl
  · rw [runCall_eq_callScript]; rfl

/-- Consequence at the level of calls: whenever the GET call returns a recorder, so does the HEAD
call, with no body, the same status and the same headers up to Content-Length; and the HEAD call
panics exactly when (and with what) the GET call panics. -/
theorem C08_head_call (pc : PanicCfg) (scripts : Scripts) (c : Call) :
    (∀ rg, runCall pc scripts { c with headWrap := false } = .ok rg →
      ∃ rh, runCall pc scripts { c with headWrap := true } = .ok rh ∧ rh.body = 0 ∧
        rh.status = rg.status ∧ rh.hdr.del hContentLength = rg.hdr.del hContentLength) ∧
    (∀ v, runCall pc scripts { c with headWrap := false } = .error v ↔
      runCall pc scripts { c with headWrap := true } = .error v) := by
  obtain ⟨h1, h2, _⟩ := C08_head_runs_get pc scripts c
  rw [h1, h2]
  cases callScript pc scripts c with
  | error e => exact ⟨fun rg h => (by cases h), fun v => Iff.rfl⟩
  | ok acts =>
    refine ⟨fun rg h => ?_, fun v => ⟨fun h => (by cases h), fun h => (by cases h)⟩⟩
    cases h
    exact ⟨_, rfl, runHead_body .., runHead_status .., runHead_headers ..⟩

/-! ## Non-vacuity -/

/-- a script with three writes (one of length 0) and header mutations between them -/
def demo : List Act :=
  [.setHeader hContentType [1], .write 3, .addHeader hVary [2], .write 0, .write 4, .delHeader hVary]

example : (∀ a ∈ demo, a.key ≠ some hContentLength) ∧ (∃ n, Act.write n ∈ demo) ∧
    (∀ c, Act.writeHeader c ∉ demo) := by
  refine ⟨?_, ⟨3, by simp [demo]⟩, by simp [demo]⟩
  intro a ha
  simp only [demo, List.mem_cons, List.not_mem_nil, or_false] at ha
  rcases ha with rfl | rfl | rfl | rfl | rfl | rfl <;> simp [Act.key] <;> decide +kernel

example : written demo = 7 := rfl
/-- a script where HEAD's recorder really differs from GET's (status set late, body, Content-Length) -/
def demo2 : List Act := [.write 5, .writeHeader 404, .setHeader hContentLength [57]]
example : (runGet demo2 {}).body = 5 ∧ (runHead demo2 0 false {}).body = 0 ∧
    (runGet demo2 {}).status = 200 ∧ (runHead demo2 0 false {}).code = none := by decide +kernel
example : (({} : Rec).code = none) ∧ (({} : Rec).body = 0) ∧ (({} : Rec).snap = none) := ⟨rfl, rfl, rfl⟩

end Mux.C08
