/-
  C08 (closed-model part) — HEAD through `headResponse`.

  A handler is a write script `List Act`; `runGet` runs it against the recorder, `runHead` runs it
  through `headResponse{size := 0, wrote := false}`.  `Rec.status r = r.code.getD 200` (an unset
  status is the implicit 200), `written acts` is the number of body bytes the script writes,
  `Act.key` the header key an action touches.  (Definitions in `Mux.Proofs.Head`.)

  An informational status (`informational c`: 1xx except 101) passed to `WriteHeader` is not final, neither for the
  recorder nor for `headResponse.wrote`; every theorem below holds for ALL scripts, those with informational
  `WriteHeader`s included (`C08_informational_not_final`, `C08_head_status_informational`).
-/
import Mux.Proofs.Head
namespace Mux.C08
open Mux

/-- No body byte reaches the client. -/
theorem C08_head_body (acts : List Act) (r0 : Rec) (_hc : r0.code = none) (hb : r0.body = 0) :
    (runHead acts 0 false r0).body = 0 := by
  rw [runHead_body, hb]

/-- Stronger form, for every start state of `headResponse` and every recorder. -/
theorem C08_head_body_gen (acts : List Act) (sz : Nat) (wr : Bool) (r : Rec) :
    (runHead acts sz wr r).body = r.body := runHead_body acts sz wr r

/-- HEAD and GET answer with the same status (no hypothesis on the recorder is needed). -/
theorem C08_head_status (acts : List Act) (r0 : Rec) :
    (runHead acts 0 false r0).status = (runGet acts r0).status := runHead_status acts r0

/-- The live header maps agree, Content-Length aside. -/
theorem C08_head_headers (acts : List Act) (r0 : Rec) :
    (runHead acts 0 false r0).hdr.del hContentLength = (runGet acts r0).hdr.del hContentLength :=
  runHead_headers acts r0

/-- If the handler writes at least once and never touches Content-Length itself, the live header
map ends with Content-Length = number of bytes written.  (The hypothesis "no explicit
`WriteHeader`" of the property text is not needed for the live map; it is what makes the live map
the one that is sent, see `C08_head_length_sent`.) -/
theorem C08_head_length (acts : List Act) (r0 : Rec)
    (hclean : ∀ a ∈ acts, a.key ≠ some hContentLength)
    (hw : ∃ n, Act.write n ∈ acts) :
    (runHead acts 0 false r0).hdr.get hContentLength = natToBytes (written acts) := by
  have := runHead_length_gen acts 0 false r0 hclean
    (.inl (let ⟨_, hn⟩ := hw; ⟨_, hn, rfl⟩))
  simpa using this

/-- The induction-strength version: any start size, any `wrote` flag. -/
theorem C08_head_length_gen (acts : List Act) (sz : Nat) (wr : Bool) (r : Rec)
    (hclean : ∀ a ∈ acts, a.key ≠ some hContentLength)
    (hw : ∃ n, Act.write n ∈ acts) :
    (runHead acts sz wr r).hdr.get hContentLength = natToBytes (sz + written acts) :=
  runHead_length_gen acts sz wr r hclean (.inl (let ⟨_, hn⟩ := hw; ⟨_, hn, rfl⟩))

/-- Without an explicit `WriteHeader` the handler returns with nothing sent yet (status unset, no
header snapshot), so the live map — with the Content-Length of `C08_head_length` — is what goes
out with the implicit 200. -/
theorem C08_head_length_sent (acts : List Act) (r0 : Rec)
    (hc : r0.code = none) (hs : r0.snap = none)
    (hnw : ∀ c, Act.writeHeader c ∉ acts) :
    (runHead acts 0 false r0).code = none ∧ (runHead acts 0 false r0).snap = none := by
  have h := runHead_unsent acts 0 false r0 (by
    intro a ha; cases a <;> first | rfl | exact absurd ha (hnw _))
  rw [h.1, h.2]; exact ⟨hc, hs⟩

/-- The same when the handler only sends informational statuses (`WriteHeader(103)` …): they are not final, so still
nothing has been sent when it returns and the live map with the Content-Length of `C08_head_length` goes out with the
implicit 200. -/
theorem C08_head_length_sent_informational (acts : List Act) (r0 : Rec)
    (hc : r0.code = none) (hs : r0.snap = none)
    (hnw : ∀ c, Act.writeHeader c ∈ acts → informational c = true) :
    (runHead acts 0 false r0).code = none ∧ (runHead acts 0 false r0).snap = none := by
  have h := runHead_unsent_final acts 0 false r0 (by
    intro a ha
    cases a with
    | writeHeader c => simp [Act.isFinalHeader, hnw c ha]
    | _ => rfl)
  rw [h.1, h.2]; exact ⟨hc, hs⟩

/-- The header snapshot: if the HEAD recorder took one (the handler sent a final status itself before writing), the
GET recorder took one too and they agree, Content-Length aside. -/
theorem C08_head_snapshot (acts : List Act) (r0 : Rec) (h0 : r0.snap = none) (s : Hdr)
    (hs : (runHead acts 0 false r0).snap = some s) :
    ∃ s', (runGet acts r0).snap = some s' ∧ s.del hContentLength = s'.del hContentLength :=
  runHead_snap acts r0 h0 s hs

/-- An informational status is not final: `WriteHeader(c)` with such a `c` leaves the recorder as it was — for GET the
rest of the script runs as if the call were not there, and for HEAD likewise, `headResponse.wrote` staying `false`
(no hypothesis on the recorder is needed; in particular it holds when no status has been sent yet). -/
theorem C08_informational_not_final (c : Nat) (hi : informational c = true) (as : List Act) :
    (∀ r : Rec, r.code = none → runGet (.writeHeader c :: as) r = runGet as r) ∧
    (∀ (sz : Nat) (r : Rec), r.code = none →
      runHead (.writeHeader c :: as) sz false r = runHead as sz false r) := by
  refine ⟨fun r _ => ?_, fun sz r _ => ?_⟩
  · simp only [runGet, Rec.writeHeader_info r c hi]
  · simp only [runHead, Bool.false_eq_true, if_false, Rec.writeHeader_info r c hi, hi, Bool.not_true]

/-- `informational c` is the negation of the flag the Go wrapper stores, `status < 100 || status > 199 || status == 101`. -/
theorem C08_informational_spec (c : Nat) :
    (informational c = true ↔ 100 ≤ c ∧ c ≤ 199 ∧ c ≠ 101) ∧
    ((!informational c) = true ↔ c < 100 ∨ c > 199 ∨ c = 101) :=
  ⟨informational_iff c, not_informational_iff c⟩

/-- A final status (also 101) sent first is the status of GET and of HEAD, whatever follows. -/
theorem C08_final_first (c : Nat) (hf : informational c = false) (as : List Act) (r : Rec) (hc : r.code = none) :
    (runGet (.writeHeader c :: as) r).status = c ∧ (runHead (.writeHeader c :: as) 0 false r).status = c := by
  have hg : ∀ (as : List Act) (r : Rec) (x : Nat), r.code = some x → (runGet as r).code = some x := by
    intro as
    induction as with
    | nil => intro r x h; exact h
    | cons a as ih =>
      intro r x h
      cases a with
      | writeHeader c' => simp only [runGet]; exact ih _ _ (by rw [Rec.writeHeader_some _ _ _ h]; exact h)
      | write n =>
        simp only [runGet]
        exact ih _ _ (by rw [Rec.write_code, Rec.writeHeader_some _ _ _ h]; exact h)
      | _ => simp only [runGet]; exact ih _ _ h
  have h1 : (runGet (.writeHeader c :: as) r).status = c := by
    simp only [runGet, Rec.status, hg as _ c (Rec.writeHeader_none r c hf hc)]; rfl
  exact ⟨h1, (runHead_status _ r).trans h1⟩

/-- `runCall` with `headWrap = true` runs the very script a GET runs — the script of `c.handler`,
after the same middleware/handler panic checks — only through `runHead … 0 false` instead of
`runGet`.  `callScript` does not depend on `headWrap`. -/
theorem C08_head_runs_get (pc : PanicCfg) (scripts : Scripts) (c : Call) :
    runCall pc scripts { c with headWrap := true }
        = (callScript pc scripts c).map (fun acts => runHead acts 0 false c.rec0) ∧
    runCall pc scripts { c with headWrap := false }
        = (callScript pc scripts c).map (fun acts => runGet acts c.rec0) ∧
    (∀ acts, callScript pc scripts c = .ok acts → c.handler.script scripts c.allow = some acts) := by
  refine ⟨?_, ?_, callScript_ok pc scripts c⟩
  · rw [runCall_eq_callScript]; rfl
  · rw [runCall_eq_callScript]; rfl

/-- Consequence at the level of calls: whenever the GET call returns a recorder, so does the HEAD
call, with no body, the same status and the same headers up to Content-Length; and the HEAD call
panics exactly when (and with what) the GET call panics. -/
theorem C08_head_call (pc : PanicCfg) (scripts : Scripts) (c : Call) :
    (∀ rg, runCall pc scripts { c with headWrap := false } = .ok rg →
      ∃ rh, runCall pc scripts { c with headWrap := true } = .ok rh ∧ rh.body = 0 ∧
        rh.status = rg.status ∧ rh.hdr.del hContentLength = rg.hdr.del hContentLength) ∧
    (∀ v, runCall pc scripts { c with headWrap := false } = .error v ↔
      runCall pc scripts { c with headWrap := true } = .error v) := by
  obtain ⟨h1, h2, _⟩ := C08_head_runs_get pc scripts c
  rw [h1, h2]
  cases callScript pc scripts c with
  | error e => exact ⟨fun rg h => (by cases h), fun v => Iff.rfl⟩
  | ok acts =>
    refine ⟨fun rg h => ?_, fun v => ⟨fun h => (by cases h), fun h => (by cases h)⟩⟩
    cases h
    exact ⟨_, rfl, runHead_body .., runHead_status .., runHead_headers ..⟩

/-! ## Non-vacuity -/

/-- a script with three writes (one of length 0) and header mutations between them -/
def demo : List Act :=
  [.setHeader hContentType [1], .write 3, .addHeader hVary [2], .write 0, .write 4, .delHeader hVary]

example : (∀ a ∈ demo, a.key ≠ some hContentLength) ∧ (∃ n, Act.write n ∈ demo) ∧
    (∀ c, Act.writeHeader c ∉ demo) := by
  refine ⟨?_, ⟨3, by simp [demo]⟩, by simp [demo]⟩
  intro a ha
  simp only [demo, List.mem_cons, List.not_mem_nil, or_false] at ha
  rcases ha with rfl | rfl | rfl | rfl | rfl | rfl <;> simp [Act.key] <;> decide +kernel

example : written demo = 7 := rfl
/-- a script where HEAD's recorder really differs from GET's (status set late, body, Content-Length) -/
def demo2 : List Act := [.write 5, .writeHeader 404, .setHeader hContentLength [57]]
example : (runGet demo2 {}).body = 5 ∧ (runHead demo2 0 false {}).body = 0 ∧
    (runGet demo2 {}).status = 200 ∧ (runHead demo2 0 false {}).code = none := by decide +kernel
example : (({} : Rec).code = none) ∧ (({} : Rec).body = 0) ∧ (({} : Rec).snap = none) := ⟨rfl, rfl, rfl⟩

/-- Informational statuses, concretely: `[WriteHeader(103), WriteHeader(404)]` answers 404 for GET and for HEAD, and
`[WriteHeader(103), Write(5 bytes)]` answers the implicit 200 for both, HEAD with Content-Length 5 and no body, nothing
sent by the wrapper itself; 101 is final. -/
theorem C08_head_status_informational :
    (runGet [.writeHeader 103, .writeHeader 404] {}).status = 404 ∧
    (runHead [.writeHeader 103, .writeHeader 404] 0 false {}).status = 404 ∧
    (runGet [.writeHeader 103, .write 5] {}).status = 200 ∧
    (runHead [.writeHeader 103, .write 5] 0 false {}).status = 200 ∧
    (runHead [.writeHeader 103, .write 5] 0 false {}).hdr.get hContentLength = natToBytes 5 ∧
    (runHead [.writeHeader 103, .write 5] 0 false {}).body = 0 ∧
    (runHead [.writeHeader 103, .write 5] 0 false {}).code = none ∧
    (runGet [.writeHeader 103, .write 5] {}).body = 5 ∧
    (runGet [.writeHeader 101, .writeHeader 404] {}).status = 101 ∧
    (runHead [.writeHeader 101, .writeHeader 404] 0 false {}).status = 101 := by decide +kernel

example : informational 103 = true ∧ informational 100 = true ∧ informational 199 = true ∧
    informational 101 = false ∧ informational 99 = false ∧ informational 200 = false := by decide
/-- the hypotheses of `C08_head_length_sent_informational` are satisfiable by a script that does send a 1xx -/
example : (∀ c, Act.writeHeader c ∈ [Act.writeHeader 103, .write 5] → informational c = true) := by
  intro c hc; simp at hc; subst hc; decide

end Mux.C08
