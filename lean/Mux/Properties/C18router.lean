/-
  C18 (router level, over histories) — TRACE follows the `WithTrace` option:
    * `C18_trace_router`    — with the option, a TRACE request to ANY path is answered by the configured handler wrapped
                              in exactly the `Use` middlewares (the COMPLETE handler: base and wraps), for every history;
    * `C18_trace_response`  — and the response record of that call through `Router.serveHTTP`;
    * `C18_without_served`  — without the option TRACE is an ordinary method: a TRACE request is answered by a TRACE entry
                              registered by hand on the matched node, or by the router's 404, or by the node's 405;
    * `C18_registrable`     — without the option a `Handle(p, h, TRACE)` whose pattern is acceptable succeeds and TRACE is
                              then registered on `p`.
-/
import Mux.Proofs.AutoServe
import Mux.Proofs.GroupLiftReach
import Mux.Proofs.GetNodeFuel
import Mux.Properties.C09
import Mux.Properties.C17
import Mux.Properties.C18
namespace Mux.C18
open Mux Mux.P10 Mux.P18

/-! ## With the option -/

/-- The tree's TRACE handler after a history from `NewRouter` with the option: base `trace`, wrapped in the `Use`
middlewares only. -/
theorem trace_stored {cfg : RouterCfg} {r0 : Router} (hnew : Router.new cfg = some r0) (htr : cfg.trace = true)
    (ops : List ROp) :
    (r0.run ops).tree.trace =
      some { base := .trace, wraps := mkWraps (ops.filterMap useArg).flatten mTRACE [] cfg.name } := by
  obtain ⟨tops, _, hrun⟩ := Router.run_tree r0 ops
  have h0 : r0.tree.trace = some { base := .trace } := by
    unfold Router.new at hnew
    split at hnew
    · simp at hnew
    simp only [Option.some.injEq] at hnew
    subst hnew
    simp [Tree.new]
  have h1 := (run_trace r0.tree tops).1
  rw [← hrun, h0] at h1
  simp only [Option.map_some] at h1
  have h2 := (C09.C09_stored hnew ops).2.1 _ h1
  have hb : (wrapWith { base := Base.trace } mTRACE [] r0.tree.name (useMs tops)).base = .trace := rfl
  rw [h1]
  generalize wrapWith { base := Base.trace } mTRACE [] r0.tree.name (useMs tops) = h at h2 hb ⊢
  obtain ⟨b, w⟩ := h
  simp only at h2 hb
  rw [h2, hb]

/-- `C18_trace_router` (clauses "any path" and "wrapped only in the Use middlewares", router level, every history): on a
router made by `NewRouter` WITH the option and after ANY history `ops`, a TRACE request — whatever its path (registered
or not, `*`, empty) and whatever parameters a matcher left in the context — makes `Router.ServeHTTP` call exactly the
handler `{ base := trace, wraps := mkWraps useMs TRACE "" name }`: the configured handler, wrapped by the middlewares
passed to `Use` so far (in order, innermost first, each applied with method TRACE, pattern `""` and the router's name)
and by nothing else — no route or prefix middleware.  The call is `ok`, attached to the root node, keeps the
parameters, is not HEAD-wrapped and sees the request path. -/
theorem C18_trace_router {cfg : RouterCfg} {r0 : Router} (hnew : Router.new cfg = some r0) (htr : cfg.trace = true)
    (ops : List ROp) (env : Env) (req : Req) (hm : req.method = mTRACE) (ps : Params) :
    ∃ c, (r0.run ops).serveContext env req ps = .call c ∧
      c.handler = { base := .trace, wraps := mkWraps (ops.filterMap useArg).flatten mTRACE [] cfg.name } ∧
      c.ok = true ∧ c.node = some (r0.run ops).tree.root ∧ c.params = ps ∧ c.headWrap = false ∧
      c.path = req.path := by
  obtain ⟨c, h1, h2, h3⟩ := C18_any_path_router env (r0.run ops) _ (trace_stored hnew htr ops) req hm ps
  exact ⟨c, h1, h2, h3⟩

/-- The response of that call through `Router.ServeHTTP`: unless one of the `Use` middlewares or the configured
handler itself panics, the call returns normally and the response is what the configured handler writes (in the model
the harness's TRACE handler: `X-Trace: 1` then status 200, so the header is in the snapshot AS SENT; no body), written on
the plain writer (no HEAD wrapper). -/
theorem C18_trace_response {cfg : RouterCfg} {r0 : Router} (hnew : Router.new cfg = some r0) (htr : cfg.trace = true)
    (ops : List ROp) (env : Env) (pc : PanicCfg) (scripts : Scripts) (req : Req) (hm : req.method = mTRACE)
    (ps : Params) :
    ∃ c out, (r0.run ops).serveHTTP env pc scripts req ps = (some c, out) ∧
      c.handler = { base := .trace, wraps := mkWraps (ops.filterMap useArg).flatten mTRACE [] cfg.name } ∧
      (mwPanic pc c.handler = none → lookupNat pc.bases Base.trace.code = none →
        ∃ rec, out = .normal rec ∧ rec.code = some 200 ∧ rec.body = 0 ∧
          rec.snap.map (·.get hXTrace) = some [49]) := by
  obtain ⟨c, h1, h2, _, _, _, h6, _⟩ := C18_trace_router hnew htr ops env req hm ps
  refine ⟨c, _, serveHTTP_of_call h1, h2, ?_⟩
  intro hmw hb
  have hrun : runCall pc scripts c =
      .ok (runGet [.setHeader hXTrace [49], .writeHeader 200] c.rec0) := by
    rw [runCall_eq, hmw]
    have : basePanic pc c.handler.base = none := by rw [h2]; exact hb
    rw [this]
    simp [Handler.script, h2, h6]
  refine ⟨_, by rw [withRecover_normal]; exact hrun, rfl, rfl, ?_⟩
  simp [runGet, Rec.writeHeader, informational, Call.rec0, Hdr.get_set_self]

/-! ## Without the option -/

theorem step_notFound_base (t : Tree) (op : TOp) : (t.step op).notFound.base = t.notFound.base := by
  cases op with
  | add p h ms methods =>
    simp only [Tree.step]
    split
    · rename_i t' he
      obtain ⟨_, _, _, _, _, _, _, _, _, rfl⟩ := Tree.add_ok he
      rfl
    · rfl
  | remove p methods =>
    simp only [Tree.step]
    split
    · rename_i t' he
      rcases Tree.remove_ok he with rfl | ⟨_, _, _, _, rfl⟩ <;> rfl
    · rfl
  | clean pre =>
    simp only [Tree.step]
    split
    · rename_i t' he
      obtain ⟨_, _, rfl⟩ := Tree.clean_ok he
      rfl
    · rfl
  | use ms => rfl

theorem run_notFound_base {cfg : RouterCfg} {r0 : Router} (hnew : Router.new cfg = some r0) (ops : List ROp) :
    (r0.run ops).tree.notFound.base = cfg.notFoundBase := by
  obtain ⟨tops, _, hrun⟩ := Router.run_tree r0 ops
  rw [hrun]
  have : ∀ (t : Tree) (tops : List TOp), (t.run tops).notFound.base = t.notFound.base := by
    intro t tops
    unfold Tree.run
    induction tops generalizing t with
    | nil => rfl
    | cons op tops ih => rw [List.foldl_cons, ih, step_notFound_base]
  rw [this]
  unfold Router.new at hnew
  split at hnew
  · simp at hnew
  simp only [Option.some.injEq] at hnew
  subst hnew
  rfl

/-- `C18_without_served` (router level, every history, no hypothesis on patterns): on a router made WITHOUT the option
TRACE is an ordinary method.  For a TRACE request, the call `Router.ServeHTTP` makes is one of:
* `ok`: a node `n` below the root matched the path and TRACE was registered BY HAND on it
  (`TRACE ∈ n.registered`); the handler called is `n`'s TRACE entry;
* 404: no node with handlers matched; the handler is the router's not-found handler (base = the `notFound` argument
  of `NewRouter`);
* 405: a node with handlers matched but has no TRACE entry; the handler is that node's `""` entry, which is the
  automatic 405 handler.
In particular an unregistered TRACE is answered 404 or 405 — never by a TRACE short-circuit. -/
theorem C18_without_served {cfg : RouterCfg} {r0 : Router} (hnew : Router.new cfg = some r0) (htr : cfg.trace = false)
    (ops : List ROp) (env : Env) (req : Req) (hm : req.method = mTRACE) (ps : Params) {c : Call}
    (hc : (r0.run ops).serveContext env req ps = .call c) :
    (c.ok = true ∧ ∃ n ∈ nodesL (r0.run ops).tree.root.children, c.node = some n ∧
        n.handlers.get? mTRACE = some c.handler ∧ mTRACE ∈ n.registered) ∨
    (c.ok = false ∧ c.node = none ∧ c.handler = (r0.run ops).tree.notFound ∧
        c.handler.base = cfg.notFoundBase) ∨
    (c.ok = false ∧ ∃ n ∈ (r0.run ops).tree.root.nodes, c.node = some n ∧ n.handlers.get? mTRACE = none ∧
        n.handlers.get? mNotAllowed = some c.handler ∧ c.handler.base = .notAllowed) := by
  obtain ⟨c1, c2, c3, c4, c5, c6, c7, c8, c9, c10⟩ := method_consts_ne
  have hreach := (run_reach hnew ops).tree
  have hinv := hreach.inv
  obtain ⟨_, hht, _⟩ := run_cfg hnew ops
  rw [htr] at hht
  obtain ⟨b1, b2⟩ := run_bases hnew ops
  unfold Router.serveContext at hc
  rcases handler_spec hinv env req.path ps req.method with ⟨f, hf, hspec⟩ | hf
  · rw [hf] at hc
    simp only [ServeRes.call.injEq] at hc
    subst hc
    simp only
    cases hspec with
    | notFound h1 h2 h3 =>
      right; left
      exact ⟨h3, h1, h2, by rw [h2]; exact run_notFound_base hnew ops⟩
    | trace h ht _ _ _ _ =>
      simp [Tree.hasTrace, ht] at hht
    | found n hnode hn hne hmeth hg hok =>
      left
      rw [hm] at hg
      have hkey : mTRACE ∈ n.handlers.keys := by
        rw [← AMap.get?_isSome_iff, hg]; rfl
      rw [Node.nodes_eq] at hn
      rcases List.mem_cons.1 hn with rfl | hbelow
      · rw [hinv.rootKeys] at hkey
        simp only [List.mem_cons, List.not_mem_nil, or_false] at hkey
        rcases hkey with hk | hk
        · exact absurd hk.symm c9
        · exact absurd hk c10
      · refine ⟨hok, n, hbelow, hnode, hg, ?_⟩
        unfold Node.registered
        rw [List.mem_filter]
        refine ⟨hkey, ?_⟩
        have h7 : ¬ mTRACE = mHEAD := fun e => c7 e.symm
        have h9 : ¬ mTRACE = mOPTIONS := fun e => c9 e.symm
        simp [h7, h9, c10]
    | notAllowed n hnode hn hne hmeth hg hok =>
      right; right
      refine ⟨hok, n, hn, hnode, ?_, hg, ?_⟩
      · rcases hmeth with hmeth | hmeth
        · rw [hm] at hmeth; exact absurd hmeth c10
        · rw [hm] at hmeth; exact hmeth
      · rw [← b2]; exact (hreach.auto.get hn).notAllowed _ hg
  · rw [hf] at hc; cases hc

/-- The same at response level: without the option, a TRACE request that is not served by a hand-registered TRACE
entry (`ok = false`) gets status 404 (router made with the default not-found handler) or status 405 with the matched
node's `Allow` header as sent — provided nothing around the automatic handler is configured to panic. -/
theorem C18_without_response {cfg : RouterCfg} {r0 : Router} (hnew : Router.new cfg = some r0)
    (htr : cfg.trace = false) (hnf : cfg.notFoundBase = .notFound)
    (ops : List ROp) (env : Env) (pc : PanicCfg) (scripts : Scripts) (req : Req) (hm : req.method = mTRACE)
    (ps : Params) {c : Call} {out : Outcome}
    (hs : (r0.run ops).serveHTTP env pc scripts req ps = (some c, out)) (hok : c.ok = false) :
    ∀ rec, out = .normal rec →
      (c.node = none ∧ rec.code = some 404 ∧ rec.body = 0) ∨
      (∃ n, c.node = some n ∧ rec.code = some 405 ∧ rec.snap.map (·.get hAllow) = some n.allow ∧ rec.body = 0) := by
  obtain ⟨hc, hout⟩ := serveHTTP_call hs
  intro rec hrec
  rw [hout, withRecover_normal] at hrec
  have hw : c.headWrap = false := by
    unfold Router.serveContext at hc
    split at hc <;> try cases hc
    simp only at hok ⊢
    simp [hok]
  have hresp : c.respHeaders = [] := by
    unfold Router.serveContext at hc
    split at hc <;> try cases hc
    simp only at hok ⊢
    simp [hok]
  rcases C18_without_served hnew htr ops env req hm ps hc with ⟨h1, _⟩ | ⟨_, h2, _, h4⟩ | ⟨_, n, _, h3, _, _, h6⟩
  · rw [hok] at h1; cases h1
  · left
    rw [hnf] at h4
    rw [runCall_eq] at hrec
    cases hp1 : mwPanic pc c.handler with
    | some v => rw [hp1] at hrec; cases hrec
    | none =>
      rw [hp1] at hrec
      cases hp2 : basePanic pc c.handler.base with
      | some v => rw [hp2] at hrec; cases hrec
      | none =>
        rw [hp2] at hrec
        simp only [Handler.script, h4, hw, Bool.false_eq_true, if_false, Except.ok.injEq] at hrec
        rw [← hrec]
        exact ⟨h2, rfl, rfl⟩
  · right
    have hallow : c.allow = n.allow := by simp [Call.allow, h3]
    rw [runCall_notAllowed h6 hw hrec, hallow]
    exact ⟨n, h3, rfl, by simp [Hdr.get_set_self], rfl⟩

/-- `C18_registrable` (router level): on a router made WITHOUT the option, after any history whose registered patterns
are well-formed (`hwf`, the domain restriction of DESIGN §0.4b), TRACE can be registered like any other method:
`Handle(p, h, TRACE)` SUCCEEDS whenever the pattern itself is acceptable (well-formed braces, the ambiguity check does
not object, `Split` accepts it) and TRACE is not registered on `p` already; afterwards TRACE is a hand-registered method
of the live pattern `p` (an entry of the route table read off the new tree).  With the option the same call is always
refused (`C18_reserved`). -/
theorem C18_registrable {cfg : RouterCfg} {r0 : Router} (hnew : Router.new cfg = some r0) (htr : cfg.trace = false)
    (ops : List ROp) (hwf : ∀ op ∈ ops, ROp.wf op = true) (p : Bytes) (hp : WfPattern p = true) (h : Nat)
    (m : List Nat) {a : Option Bool}
    (hamb : (r0.run ops).tree.root.checkAmb (r0.run ops).tree.ic p false = .ok a) (ha : a ≠ some true)
    {segs : List Seg} (hs : split (r0.run ops).tree.ic p = .ok segs)
    (hfree : (r0.run ops).tree.hasMethodAt p mTRACE = false) :
    ∃ r', (r0.run ops).handle p h m [mTRACE] = .ok r' ∧ (tableOf r'.tree).has p mTRACE ∧
      ∃ n ∈ nodesL r'.tree.root.children, n.handlers ≠ [] ∧ n.pattern = p ∧ mTRACE ∈ n.registered := by
  have hall := reachAll_run hnew hwf
  obtain ⟨_, hht, _⟩ := run_cfg hnew ops
  rw [htr] at hht
  have hcm : (r0.run ops).tree.checkMethods p (effMethods [mTRACE]) [] = .ok () := by
    have he : effMethods [mTRACE] = [mTRACE] := rfl
    have h7 : ¬ mTRACE = mHEAD := by decide +kernel
    have h9 : ¬ mTRACE = mOPTIONS := by decide +kernel
    have hk : isKnownMethod mTRACE = true := by decide +kernel
    rw [he, checkMethods_cons]
    simp [hht, h7, h9, hk, hfree, Tree.checkMethods]
  obtain ⟨t', ht', _⟩ := C17.C17_validated_ok (r0.run ops).tree p { base := .user h } (m ++ (r0.run ops).ms) [mTRACE]
    hall.inv.wf ((P14.wfPattern_iff_P9 p).1 hp) hamb ha hs hcm
  refine ⟨{ r0.run ops with tree := t' }, ?_, ?_⟩
  · simp [Router.handle, ht', bind, Except.bind, pure, Except.pure]
  · have hhas : (tableOf t').has p mTRACE :=
      (P11.tree_has_add hall.inv.ti hp ht' p mTRACE).2 (.inr ⟨rfl, by simp [effMethods]⟩)
    refine ⟨hhas, ?_⟩
    obtain ⟨e, he, hep, hem⟩ := (P11.has_tableOf t' p mTRACE).1 hhas
    obtain ⟨n, hn, hne, rfl⟩ := P11.mem_liveL.1 he
    exact ⟨n, hn, hne, hep, hem⟩

/-! ## Non-vacuity -/

def exEnv : Env := ⟨fun _ _ => true⟩
def exCfgT : RouterCfg := { name := [114], trace := true }   -- "r", WithTrace
def exCfgN : RouterCfg := { name := [114] }                  -- "r", no option
def exRT : Router := (Router.new exCfgT).getD default
def exRN : Router := (Router.new exCfgN).getD default
theorem exNewT : Router.new exCfgT = some exRT := rfl
theorem exNewN : Router.new exCfgN = some exRN := rfl
/-- `Use(1)`, `GET /a` with route middleware 2, `Use(3)`, and (accepted only without the option) `TRACE /a/t`. -/
def exOps : List ROp :=
  [.use [1], .handle (bytesOfString "/a") 7 [2] [mGET], .use [3], .handle (bytesOfString "/a/t") 8 [] [mTRACE]]
theorem exOps_wf : ∀ op ∈ exOps, ROp.wf op = true := by decide +kernel

/-- `(ok, node present, handler)` of the call made for a request. -/
def callIs (r : Router) (req : Req) (ok node : Bool) (h : Handler) : Bool :=
  match r.serveContext exEnv req [] with
  | .call c => c.ok == ok && c.node.isSome == node && c.handler == h
  | _ => false

theorem callIs_true {r : Router} {req : Req} {ok node : Bool} {h : Handler} (hh : callIs r req ok node h = true) :
    ∃ c, r.serveContext exEnv req [] = .call c ∧ c.ok = ok := by
  unfold callIs at hh
  split at hh
  · rename_i c hc
    simp only [Bool.and_eq_true, beq_iff_eq] at hh
    exact ⟨c, hc, hh.1.1⟩
  · cases hh

/-- with the option: `TRACE /a` (a live route with its own middleware 2) and `TRACE /zzz` (no route) are both answered by
the configured handler wrapped in `Use` middlewares 1 and 3 only -/
example : callIs (exRT.run exOps) { method := mTRACE, path := bytesOfString "/a" } true true
    { base := .trace, wraps := mkWraps [1, 3] mTRACE [] [114] } = true := by mux_eval [exOps]
example : callIs (exRT.run exOps) { method := mTRACE, path := bytesOfString "/zzz" } true true
    { base := .trace, wraps := mkWraps [1, 3] mTRACE [] [114] } = true := by mux_eval [exOps]
example : (exOps.filterMap useArg).flatten = [1, 3] := by decide
/-- without the option, same history: `TRACE /a/t` is served by the hand-registered handler 8 (wrapped by the `Use`
middlewares 1 and 3 like every route), `TRACE /a` is a 405, `TRACE /zzz` a 404 -/
theorem exServed : callIs (exRN.run exOps) { method := mTRACE, path := bytesOfString "/a/t" } true true
    { base := .user 8, wraps := mkWraps [1, 3] mTRACE (bytesOfString "/a/t") [114] } = true := by mux_eval [exOps]
theorem ex405 : callIs (exRN.run exOps) { method := mTRACE, path := bytesOfString "/a" } false true
    { base := .notAllowed, wraps := mkWraps [2, 1, 3] [] (bytesOfString "/a") [114] } = true := by mux_eval [exOps]
theorem ex404 : callIs (exRN.run exOps) { method := mTRACE, path := bytesOfString "/zzz" } false false
    { base := .notFound, wraps := mkWraps [1, 3] [] [] [114] } = true := by mux_eval [exOps]
/-- hence the hypothesis `hc` of `C18_without_served` is satisfiable in each of the three cases -/
example : (∃ c, (exRN.run exOps).serveContext exEnv { method := mTRACE, path := bytesOfString "/a/t" } [] = .call c ∧
      c.ok = true) ∧
    (∃ c, (exRN.run exOps).serveContext exEnv { method := mTRACE, path := bytesOfString "/a" } [] = .call c ∧
      c.ok = false) ∧
    (∃ c, (exRN.run exOps).serveContext exEnv { method := mTRACE, path := bytesOfString "/zzz" } [] = .call c ∧
      c.ok = false) :=
  ⟨callIs_true exServed, callIs_true ex405, callIs_true ex404⟩
/-- the hypotheses of `C18_registrable` after `Use(1)`, `GET /a`: pattern `/a/t` is acceptable and has no TRACE yet -/
def exOps2 : List ROp := [.use [1], .handle (bytesOfString "/a") 7 [2] [mGET]]
example : (∀ op ∈ exOps2, ROp.wf op = true) ∧ WfPattern (bytesOfString "/a/t") = true := by decide +kernel
example : ∃ a segs,
    (exRN.run exOps2).tree.root.checkAmb (exRN.run exOps2).tree.ic (bytesOfString "/a/t") false = .ok a ∧ a ≠ some true ∧
    split (exRN.run exOps2).tree.ic (bytesOfString "/a/t") = .ok segs ∧
    (exRN.run exOps2).tree.hasMethodAt (bytesOfString "/a/t") mTRACE = false := by
  have h1 : (match (exRN.run exOps2).tree.root.checkAmb (exRN.run exOps2).tree.ic (bytesOfString "/a/t") false with
      | .ok none => true | _ => false) = true := by mux_eval [exOps2]
  have h2 : (match split (exRN.run exOps2).tree.ic (bytesOfString "/a/t") with | .ok _ => true | _ => false) = true := by
    mux_eval [exOps2]
  have h3 : (exRN.run exOps2).tree.hasMethodAt (bytesOfString "/a/t") mTRACE = false := by mux_eval [exOps2]
  split at h1
  · rename_i e1
    split at h2
    · rename_i segs e2
      exact ⟨none, segs, e1, by simp, e2, h3⟩
    · simp at h2
  · simp at h1

end Mux.C18
