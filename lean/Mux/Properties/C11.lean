/-
  C11 — CORS never grants more than was configured.
  Model: `Cors.sanitize`, `Cors.handle`, `Cors.headerIsAllowed` (Mux/Model/Http.lean),
  `Router.serveContext` (Mux/Model/Router.lean).  Helper lemmas: Mux/Proofs/Cors*.lean.

  Conventions: `c` is ANY configuration produced by `Cors.sanitize origins allowHeaders exposed maxAge cred`
  (all arguments symbolic); `h` is the response header map after `cors.handle` started from the empty
  map (that is what `Router.serveContext` passes, see `C11_not_ok` / `C12_served`);
  `Cors.isPreflight method path reqHeaders` is *by definition*
  `method = "OPTIONS" ∧ reqHeaders.get "Access-Control-Request-Method" ≠ "" ∧ path ≠ "*"` (`C11_preflight_def`).
  `[42]` is the byte string `"*"`.
-/
import Mux.Proofs.CorsConfig
import Mux.Proofs.CorsRouter
import Mux.Proofs.CorsExamples
namespace Mux.C11
open Mux

variable {origins allowHeaders exposed : List Bytes} {maxAge : Int} {cred : Bool} {c : Cors}

theorem C11_preflight_def (method path : Bytes) (reqHeaders : Hdr) :
    Cors.isPreflight method path reqHeaders ↔
      method = mOPTIONS ∧ reqHeaders.get hACRM ≠ [] ∧ path ≠ [42] := Iff.rfl

/-- `Access-Control-Allow-Origin` is absent, or `*` (only if `*` was configured), or the request's
own `Origin` (only if exactly that origin is listed and `*` is not). -/
theorem C11_acao_values (hs : Cors.sanitize origins allowHeaders exposed maxAge cred = some c)
    (nodeMethods : List Bytes) (nodeAllow method path : Bytes) (reqHeaders : Hdr) :
    let h := c.handle nodeMethods nodeAllow [] method path reqHeaders
    let origin := reqHeaders.get hOrigin
    h.values hACAO = [] ∨ (h.values hACAO = [[42]] ∧ [42] ∈ origins) ∨
      (h.values hACAO = [origin] ∧ origin ∈ origins ∧ [42] ∉ origins) := by
  obtain ⟨_, _, _, ha, _⟩ := Cors.sanitize_eq_some hs
  by_cases hg : c.granted nodeMethods method path reqHeaders
  · have h3 := ((Cors.granted_iff hs ..).mp hg).2.2
    by_cases h1 : [42] ∈ origins <;> simp_all [Cors.values_handle_ACAO]
  · simp [Cors.values_handle_ACAO, hg]

/-! Non-vacuity: both `sanitize` hypotheses are satisfiable, and each of the three outcomes occurs
(listed origin echoed / `*` / nothing for a foreign origin). -/
example : Cors.sanitize [CorsEx.origin] [hContentType, CorsEx.xId] [CorsEx.xId] 3600 true = some CorsEx.cfg := by
  decide +kernel
example : Cors.sanitize [[42]] [[42]] [] (-1) false = some CorsEx.cfgStar := by decide +kernel
example : Cors.sanitize [] [] [] 0 false = some CorsEx.cfgDeny := by decide +kernel
example : (CorsEx.cfg.handle CorsEx.nodeMethods CorsEx.nodeAllow [] mOPTIONS CorsEx.path CorsEx.preflight).values hACAO
    = [CorsEx.preflight.get hOrigin] ∧ CorsEx.preflight.get hOrigin ∈ [CorsEx.origin] ∧ [42] ∉ [CorsEx.origin] := by
  decide +kernel
example : (CorsEx.cfgStar.handle CorsEx.nodeMethods CorsEx.nodeAllow [] mGET CorsEx.path CorsEx.simpleEvil).values hACAO
    = [[42]] ∧ [42] ∈ [([42] : Bytes)] := by decide +kernel
example : (CorsEx.cfg.handle CorsEx.nodeMethods CorsEx.nodeAllow [] mGET CorsEx.path CorsEx.simpleEvil).values hACAO
    = [] := by decide +kernel

/-- `Access-Control-Allow-Credentials: true` only ever accompanies an echoed, listed origin. -/
theorem C11_credentials (hs : Cors.sanitize origins allowHeaders exposed maxAge cred = some c)
    (nodeMethods : List Bytes) (nodeAllow method path : Bytes) (reqHeaders : Hdr) :
    let h := c.handle nodeMethods nodeAllow [] method path reqHeaders
    let origin := reqHeaders.get hOrigin
    h.get hACAC = bytesOfString "true" →
      h.values hACAO = [origin] ∧ origin ∈ origins ∧ [42] ∉ origins := by
  obtain ⟨_, hx, _, ha, _, _, _, _, _, _, hc⟩ := Cors.sanitize_eq_some hs
  simp only [Hdr.get_eq_headD (c.handle nodeMethods nodeAllow [] method path reqHeaders), Cors.values_handle_ACAC, Cors.values_handle_ACAO, Cors.granted_iff hs, ha, hc]
  intro h
  split at h
  · rename_i hg
    have h42 : [42] ∉ origins := fun h => hx ⟨h, hg.2⟩
    simp only [h42, false_or] at hg
    simp [hg.1.1, hg.1.2.2, h42]
    exact hg.1.2.1
  · exact absurd h.symm (by decide +kernel)

/-! Non-vacuity: the premise `Allow-Credentials = "true"` does occur. -/
example : (CorsEx.cfg.handle CorsEx.nodeMethods CorsEx.nodeAllow [] mGET CorsEx.path CorsEx.simple).get hACAC
    = bytesOfString "true" := by decide +kernel

/-- No `Access-Control-Allow-Origin` at all: without configured origins; on a preflight for a method
the route does not serve; on a preflight asking for a header outside the allowed list; for an origin
that is not allowed. -/
theorem C11_never (hs : Cors.sanitize origins allowHeaders exposed maxAge cred = some c)
    (nodeMethods : List Bytes) (nodeAllow method path : Bytes) (reqHeaders : Hdr)
    (hyp : origins = [] ∨
      (Cors.isPreflight method path reqHeaders ∧ reqHeaders.get hACRM ∉ nodeMethods) ∨
      (Cors.isPreflight method path reqHeaders ∧ ¬ c.headerIsAllowed reqHeaders = true) ∨
      (¬ c.anyOrigins = true ∧ reqHeaders.get hOrigin ∉ origins)) :
    (c.handle nodeMethods nodeAllow [] method path reqHeaders).has hACAO = false := by
  obtain ⟨_, _, _, ha, _⟩ := Cors.sanitize_eq_some hs
  rw [Cors.has_handle_ACAO, decide_eq_false_iff_not, Cors.granted_iff hs]
  rintro ⟨h1, h2, h3⟩
  rcases hyp with h | ⟨hp, h⟩ | ⟨hp, h⟩ | ⟨h, h'⟩
  · exact h1 h
  · exact h (h2 hp).1
  · exact h (h2 hp).2
  · simp [ha] at h; simp [h, h'] at h3

/-! Non-vacuity: each of the four disjuncts is satisfiable (with a sanitized configuration). -/
example : ([] : List Bytes) = [] ∧ Cors.sanitize [] [] [] 0 false = some CorsEx.cfgDeny := by decide +kernel
example : Cors.isPreflight mOPTIONS CorsEx.path CorsEx.preflightDelete ∧
    CorsEx.preflightDelete.get hACRM ∉ CorsEx.nodeMethods := by decide +kernel
example : Cors.isPreflight mOPTIONS CorsEx.path CorsEx.preflightEvilHeader ∧
    CorsEx.preflightEvilHeader.get hACRM ∈ CorsEx.nodeMethods ∧
    ¬ CorsEx.cfg.headerIsAllowed CorsEx.preflightEvilHeader = true := by decide +kernel
example : ¬ CorsEx.cfg.anyOrigins = true ∧ CorsEx.simpleEvil.get hOrigin ∉ [CorsEx.origin] := by decide +kernel

/-- … and `has hACAO = false` really means the header is absent: no values, `Get` is empty. -/
theorem C11_never_absent (nodeMethods : List Bytes) (nodeAllow method path : Bytes) (reqHeaders : Hdr)
    (hn : (c.handle nodeMethods nodeAllow [] method path reqHeaders).has hACAO = false) :
    (c.handle nodeMethods nodeAllow [] method path reqHeaders).values hACAO = [] ∧
    (c.handle nodeMethods nodeAllow [] method path reqHeaders).get hACAO = [] := by
  simp [Hdr.get_eq_headD, Hdr.values_eq_nil_of_has_false hn]

/-- Exact decision (both directions): when is `Access-Control-Allow-Origin` present. -/
theorem C11_acao_iff (hs : Cors.sanitize origins allowHeaders exposed maxAge cred = some c)
    (nodeMethods : List Bytes) (nodeAllow method path : Bytes) (reqHeaders : Hdr) :
    (c.handle nodeMethods nodeAllow [] method path reqHeaders).has hACAO = true ↔
      origins ≠ [] ∧
      (Cors.isPreflight method path reqHeaders →
        reqHeaders.get hACRM ∈ nodeMethods ∧ c.headerIsAllowed reqHeaders = true) ∧
      ([42] ∈ origins ∨ reqHeaders.get hOrigin ∈ origins) := by
  rw [Cors.has_handle_ACAO, decide_eq_true_iff, Cors.granted_iff hs]

/-! Non-vacuity: the right-hand side holds for the browser-style preflight. -/
example : [CorsEx.origin] ≠ [] ∧
    (Cors.isPreflight mOPTIONS CorsEx.path CorsEx.preflight →
      CorsEx.preflight.get hACRM ∈ CorsEx.nodeMethods ∧ CorsEx.cfg.headerIsAllowed CorsEx.preflight = true) ∧
    ([42] ∈ [CorsEx.origin] ∨ CorsEx.preflight.get hOrigin ∈ [CorsEx.origin]) := by decide +kernel

/-- 404 / 405 (`ok = false`): the response header map handed on is empty — no CORS header at all. -/
theorem C11_not_ok {env : Env} {r : Router} {req : Req} {ps : Params} {call : Call}
    (h : r.serveContext env req ps = .call call) (hok : call.ok = false) : call.respHeaders = [] :=
  Router.serveContext_not_ok h hok

/-! Non-vacuity: a 405 (POST to a GET route) and a 404 on a router with a live route and CORS. -/
example : CorsEx.servedNotOK CorsEx.router { method := mPOST, path := CorsEx.path, headers := CorsEx.preflight } = true := by
  decide +kernel
example : CorsEx.servedNotOK CorsEx.router
    { method := mGET, path := bytesOfString "/nope", headers := CorsEx.simple } = true := by decide +kernel

/-- The two grant invariants for the router as a whole: whatever `serveContext` hands to the handler
(served, 404 or 405) satisfies `C11_acao_values` and `C11_credentials`. -/
theorem C11_router (hs : Cors.sanitize origins allowHeaders exposed maxAge cred = some c)
    {env : Env} {r : Router} {req : Req} {ps : Params} {call : Call} (hc : r.cors = c)
    (h : r.serveContext env req ps = .call call) :
    let origin := req.headers.get hOrigin
    (call.respHeaders.values hACAO = [] ∨ (call.respHeaders.values hACAO = [[42]] ∧ [42] ∈ origins) ∨
      (call.respHeaders.values hACAO = [origin] ∧ origin ∈ origins ∧ [42] ∉ origins)) ∧
    (call.respHeaders.get hACAC = bytesOfString "true" →
      call.respHeaders.values hACAO = [origin] ∧ origin ∈ origins ∧ [42] ∉ origins) := by
  cases hok : call.ok with
  | false =>
    rw [Router.serveContext_not_ok h hok]
    exact ⟨Or.inl rfl, fun h => absurd h.symm (by decide +kernel)⟩
  | true =>
    obtain ⟨n, hn⟩ := Router.serveContext_ok_node h hok
    rw [Router.serveContext_ok h hok hn, hc]
    exact ⟨C11_acao_values hs .., C11_credentials hs n.methods n.allow req.method req.path req.headers⟩

example : CorsEx.router.cors = CorsEx.cfg := rfl

/-- `*` together with credentials, and `maxAge < -1`, are constructor errors. -/
theorem C11_sanitize (origins allowHeaders exposed : List Bytes) (maxAge : Int) (cred : Bool) :
    ([42] ∈ origins ∧ cred = true → Cors.sanitize origins allowHeaders exposed maxAge cred = none) ∧
    (maxAge < -1 → Cors.sanitize origins allowHeaders exposed maxAge cred = none) :=
  ⟨fun h => (Cors.sanitize_eq_none_iff ..).mpr (Or.inr h), fun h => (Cors.sanitize_eq_none_iff ..).mpr (Or.inl h)⟩

/-! Non-vacuity of the two premises. -/
example : [42] ∈ [CorsEx.origin, [42]] ∧ true = true := by decide +kernel
example : (-2 : Int) < -1 := by decide

/-- These are the only constructor errors. -/
theorem C11_sanitize_iff (origins allowHeaders exposed : List Bytes) (maxAge : Int) (cred : Bool) :
    Cors.sanitize origins allowHeaders exposed maxAge cred = none ↔
      maxAge < -1 ∨ ([42] ∈ origins ∧ cred = true) :=
  Cors.sanitize_eq_none_iff ..

/-- The requested-header check: `*` configured, or nothing requested, or every requested item
(split at commas, white space trimmed) equals a configured name up to ASCII case. -/
theorem C11_allowed_iff (hs : Cors.sanitize origins allowHeaders exposed maxAge cred = some c) (reqHeaders : Hdr) :
    c.headerIsAllowed reqHeaders = true ↔
      [42] ∈ allowHeaders ∨ trimSpace (reqHeaders.get hACRH) = [] ∨
      ∀ item ∈ splitComma (trimSpace (reqHeaders.get hACRH)),
        ∃ a ∈ allowHeaders, toLower a = toLower (trimSpace item) := by
  obtain ⟨_, _, _, _, _, hh, hany, _⟩ := Cors.sanitize_eq_some hs
  rw [Cors.headerIsAllowed_iff, hh, hany, decide_eq_true_iff]

/-! Non-vacuity: the interesting (third) disjunct holds for lower-case, oddly spaced names, and fails
for a name outside the list. -/
example : ¬ [42] ∈ [hContentType, CorsEx.xId] ∧ trimSpace (CorsEx.preflight.get hACRH) ≠ [] ∧
    CorsEx.cfg.headerIsAllowed CorsEx.preflight = true ∧
    CorsEx.cfg.headerIsAllowed CorsEx.preflightEvilHeader = false := by decide +kernel

/-- `splitComma` is `strings.Split(·, ",")`: the comma-free pieces whose `Join` is the input. -/
theorem C11_splitComma_spec (s : Bytes) :
    joinWith [44] (splitComma s) = s ∧ splitComma s ≠ [] ∧ ∀ x ∈ splitComma s, (44 : UInt8) ∉ x :=
  ⟨joinWith_splitComma s, splitComma_ne_nil s, splitComma_no_comma s⟩

/-- `trimSpace` is `strings.TrimSpace` (ASCII): it strips a white-space prefix and suffix and the
result neither starts nor ends with white space. -/
theorem C11_trimSpace_spec (s : Bytes) :
    ∃ a b, s = a ++ trimSpace s ++ b ∧ a.all isSpaceByte = true ∧ b.all isSpaceByte = true ∧
      (∀ x, (trimSpace s).head? = some x → isSpaceByte x = false) ∧
      (∀ x, (trimSpace s).getLast? = some x → isSpaceByte x = false) :=
  trimSpace_spec s

end Mux.C11
