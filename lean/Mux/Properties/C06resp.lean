/-
  C06 (responses) — what a caller of a `WithLock(true)` router can observe, for ANY number of
  goroutines and ANY schedule (the RW-lock system `Conc.treeSys` of `Mux/Properties/C06.lean`).

  * `C06_resp_no_fault` — clause "without runtime faults": no completed `Handler` call (the tree
    walk of `ServeHTTP`) and no completed strict `URL` call answers with a fault; and no completed
    `Handle`/`Remove`/`Clean` call faults when the patterns the programs REGISTER are well-formed.
    It composes `C06_no_fault` (every response is the sequential answer in a sequentially reachable
    tree) with the sequential theorems of C05.

  * `C06_untouched_partial` — clause "routes that are never touched keep being served with their own
    handler and parameters": a request answered by the node of pattern `q` before the concurrent
    phase gets the SAME answer (`C03.SameAnswer`: handler, `ok`, parameters, node pattern, handler
    map) from every completed `Handler` call, whatever the schedule, provided no thread's program
    touches `q`.  PARTIAL: `Op.touches` counts EVERY `Handle` as touching (see there).

  Helper lemmas: `Mux/Proofs/ConcProg.lean` (everything executed comes from a program).
-/
import Mux.Properties.C06
import Mux.Properties.C05handle
import Mux.Properties.C05serve
import Mux.Properties.C03frame
import Mux.Proofs.UrlTree
import Mux.Proofs.ConcProg
namespace Mux.C06
open Mux Mux.RWLock Mux.Conc Mux.P14

/-! ## No completed call answers with a fault -/

/-- The patterns the programs register pass the executable brace check `WfPattern` (balanced,
non-nested `{…}`); the arguments of `Remove`, `Clean`, `Handler`, `URL` are arbitrary. -/
def ProgsWf (progs : Nat → List Op) : Prop :=
  ∀ i, ∀ op ∈ progs i, ∀ t, op.toTOp? = some t → t.wf = true

/-- Every state of the linearization order is the tree of a history whose registered patterns are
well-formed, when the initial tree is one and the programs register well-formed patterns only. -/
theorem reachAll_prefix (env : Env) (t0 : Tree) (h0 : ReachAll t0) (progs : Nat → List Op) (hw : ProgsWf progs)
    (c : Config (treeSys env)) (h : Reachable (S := treeSys env) t0 progs c) (k : Nat) :
    ReachAll (t0.run ((c.wlog.take k).filterMap Op.toTOp?)) := by
  refine h0.run fun w hwm => ?_
  obtain ⟨op, hop, hw'⟩ := List.mem_filterMap.1 hwm
  obtain ⟨j, hj⟩ := wlog_subset h op (List.mem_of_mem_take hop)
  exact hw j op hj w hw'

/-- Core form, for any initial tree: readers need `TreeInv t0` only, writers `ReachAll t0` and
well-formed registered patterns. -/
theorem resp_no_fault (env : Env) (t0 : Tree) (progs : Nat → List Op) (c : Config (treeSys env))
    (h : Reachable (S := treeSys env) t0 progs c) (r : RWLock.Rec (treeSys env)) (hr : r ∈ c.done) :
    (TreeInv t0 → ∀ s, r.resp ≠ Resp.handler (.fault s)) ∧
    (∀ k, r.resp ≠ Resp.url (.error (.fault k))) ∧
    (ReachAll t0 → ProgsWf progs → ∀ k, r.resp ≠ Resp.wrote (some (.fault k))) := by
  have hR := (C06_no_fault env t0 progs c h).2.2 r hr
  refine ⟨fun hinv s hs => ?_, fun k hs => ?_, fun h0 hw k hs => ?_⟩
  · rw [hR] at hs
    cases hop : r.call.op <;> rw [hop] at hs <;> simp only [sem, reduceCtorEq] at hs
    rename_i path ps method
    injection hs with hs
    exact C05.C05_serve_inv (C05.C05_inv_run hinv _) env path ps method s hs
  · rw [hR] at hs
    cases hop : r.call.op <;> rw [hop] at hs <;> simp only [sem, reduceCtorEq] at hs
    rename_i pattern ps
    injection hs with hs
    have := P13.Tree.url_errors env _ pattern ps _ hs
    simp at this
  · have hreach := (reachAll_prefix env t0 h0 progs hw c h r.lin).reachWf
    rw [hR] at hs
    cases hop : r.call.op <;> rw [hop] at hs <;> simp only [sem, reduceCtorEq] at hs
    · rename_i p hd ms methods
      injection hs with hs
      cases he : (t0.run ((c.wlog.take r.lin).filterMap Op.toTOp?)).add p hd ms methods with
      | ok t' => rw [he] at hs; simp [errOf] at hs
      | error e =>
        rw [he] at hs; simp only [errOf, Option.some.injEq] at hs; subst hs
        exact C05.C05_handle_no_fault _ hreach p hd ms methods k he
    · rename_i p methods
      injection hs with hs
      cases he : (t0.run ((c.wlog.take r.lin).filterMap Op.toTOp?)).remove p methods with
      | ok t' => rw [he] at hs; simp [errOf] at hs
      | error e =>
        rw [he] at hs; simp only [errOf, Option.some.injEq] at hs; subst hs
        exact C05.C05_remove_reach _ hreach p methods k he
    · rename_i pre
      injection hs with hs
      cases he : (t0.run ((c.wlog.take r.lin).filterMap Op.toTOp?)).clean pre with
      | ok t' => rw [he] at hs; simp [errOf] at hs
      | error e =>
        rw [he] at hs; simp only [errOf, Option.some.injEq] at hs; subst hs
        exact C05.C05_clean_reach _ hreach pre k he

/-- **C06, clause "without runtime faults".**  On a tree made by `tree.New` and used under
`WithLock(true)` by any number of goroutines running any programs of Add/Remove/Clean/Handler/Routes/URL
calls, under any schedule, for every COMPLETED call `r`:

1. its response is not a faulting `Handler` answer (no hypothesis at all);
2. its response is not a faulting strict-`URL` answer (no hypothesis at all);
3. if the patterns REGISTERED by the programs are well-formed (`ProgsWf`; patterns given to
   Remove/Clean and all request paths are arbitrary), its response is not a faulting writer answer:
   `Handle` registers or answers an error value, `Remove` and `Clean` succeed.

(`Routes` has no fault site.)  Hypothesis 3 is the hypothesis of the sequential theorems
`C05_handle_no_fault`/`C05_remove_reach`/`C05_clean_reach` (`ReachWf`), here discharged for every
state of the linearization order from a condition on the PROGRAMS (`reachAll_prefix`). -/
theorem C06_resp_no_fault (env : Env) (name : Bytes) (ic : Interceptors) (nf : Handler) (tr : Option Handler)
    (progs : Nat → List Op) (c : Config (treeSys env))
    (h : Reachable (S := treeSys env) (Tree.new name ic nf tr) progs c)
    (r : RWLock.Rec (treeSys env)) (hr : r ∈ c.done) :
    (∀ s, r.resp ≠ Resp.handler (.fault s)) ∧
    (∀ k, r.resp ≠ Resp.url (.error (.fault k))) ∧
    ((∀ i, ∀ op ∈ progs i, ∀ t, op.toTOp? = some t → t.wf = true) → ∀ k, r.resp ≠ Resp.wrote (some (.fault k))) := by
  have := resp_no_fault env _ progs c h r hr
  exact ⟨this.1 (C05.C05_inv_new name ic nf tr), this.2.1, this.2.2 (ReachAll.new name ic nf tr _ _)⟩

/-- The same after a sequential set-up phase `pre` (well-formed registered patterns). -/
theorem C06_resp_no_fault_pre (env : Env) (name : Bytes) (ic : Interceptors) (nf : Handler) (tr : Option Handler)
    (pre : List TOp) (hpre : ∀ op ∈ pre, op.wf = true)
    (progs : Nat → List Op) (c : Config (treeSys env))
    (h : Reachable (S := treeSys env) ((Tree.new name ic nf tr).run pre) progs c)
    (r : RWLock.Rec (treeSys env)) (hr : r ∈ c.done) :
    (∀ s, r.resp ≠ Resp.handler (.fault s)) ∧
    (∀ k, r.resp ≠ Resp.url (.error (.fault k))) ∧
    (ProgsWf progs → ∀ k, r.resp ≠ Resp.wrote (some (.fault k))) := by
  have := resp_no_fault env _ progs c h r hr
  have h0 : ReachAll ((Tree.new name ic nf tr).run pre) := (ReachAll.new name ic nf tr _ _).run hpre
  exact ⟨this.1 h0.inv.treeInv, this.2.1, this.2.2 h0⟩

/-! ### Non-vacuity of `C06_resp_no_fault` -/

/-- Thread 0 registers `GET /u/{id}` (well-formed), thread 1 serves `GET /u/5`. -/
def exProgs : Nat → List Op := fun i =>
  if i = 0 then [Op.add exUid { base := .user 2 } [] [mGET]] else if i = 1 then [Op.handler exReq [] mGET] else []

example : ProgsWf exProgs := by
  intro i op hop t ht
  unfold exProgs at hop
  split at hop
  · simp only [List.mem_singleton] at hop; subst hop; simp only [Op.toTOp?, Option.some.injEq] at ht; subst ht; decide
  · split at hop
    · simp only [List.mem_singleton] at hop; subst hop; simp [Op.toTOp?] at ht
    · simp at hop

/-- A schedule in which both calls complete (the writer first): two records in `done`, one a writer
answer, one a `Handler` answer — the theorem speaks about both. -/
example (env : Env) : ∃ (c : Config (treeSys env)) (a b : RWLock.Rec (treeSys env)),
    Reachable (S := treeSys env) exT0 exProgs c ∧ c.done = [a, b] ∧
    a.call.op = Op.add exUid { base := .user 2 } [] [mGET] ∧ b.call.op = Op.handler exReq [] mGET ∧
    b.lin = 1 ∧ c.wlog.length = 1 := by
  have h0 : Reachable (S := treeSys env) exT0 exProgs (Config.init exT0 exProgs) := .init
  obtain ⟨c1, a, h1, _, l1, t1, w1, d1, _, a2, _, _, _⟩ := solo h0 (i := 0) (op := Op.add exUid { base := .user 2 } [] [mGET])
    (rest := []) rfl rfl
  obtain ⟨c2, b, h2, _, l2, t2, w2, d2, _, b2, _, _, b5⟩ := solo h1 (i := 1) (op := Op.handler exReq [] mGET)
    (rest := []) (by rw [t1 1]; rfl) l1
  refine ⟨c2, a, b, h2, by rw [d2, d1]; rfl, a2, b2, by rw [b5, w1]; rfl, by rw [w2, w1]; rfl⟩

/-! ## Untouched routes keep their answer -/

/-- Which calls count as touching the route with pattern `q`: removing `q`, cleaning a prefix of
`q`, and — because no sequential frame theorem for `Handle` exists yet (`C03_frame_remove_step` and
`C03_frame_clean_step` are the only ones) — EVERY `Handle`.  The statement the property intends has
`p = q` (or: "`p` does not overlap `q`") in the first line; what is missing for it is a sequential
`C03_frame_add`: registering `p` splits and re-merges nodes on the path of `q`, and a new route may
take precedence over `q` for some paths, so that theorem needs a non-overlap hypothesis and an
induction over `getNode`. -/
def Op.touches (q : Bytes) : Op → Prop
  | .add _ _ _ _ => True
  | .remove p _ => p = q
  | .clean pre => pre <+: q
  | _ => False

theorem sameAnswer_refl (f : Found) : C03.SameAnswer f f :=
  ⟨rfl, rfl, rfl, fun q hq => ⟨q, hq, rfl, rfl⟩⟩

theorem sameAnswer_trans {f g k : Found} (h1 : C03.SameAnswer f g) (h2 : C03.SameAnswer g k) : C03.SameAnswer f k := by
  obtain ⟨a1, a2, a3, a4⟩ := h1
  obtain ⟨b1, b2, b3, b4⟩ := h2
  refine ⟨b1.trans a1, b2.trans a2, b3.trans a3, fun q hq => ?_⟩
  obtain ⟨q', hq', e1, e2⟩ := a4 q hq
  obtain ⟨q'', hq'', e3, e4⟩ := b4 q' hq'
  exact ⟨q'', hq'', e3.trans e1, e4.trans e2⟩

/-- Sequential core: a history of `Remove`s of other patterns and `Clean`s of non-prefixes leaves
the answer of a request dispatched to `q` as it was. -/
theorem frame_run (env : Env) (path method : Bytes) (pat : Bytes) (ws : List TOp)
    (hws : ∀ w ∈ ws, (∃ p ms, w = .remove p ms ∧ p ≠ pat) ∨ (∃ pre, w = .clean pre ∧ ¬ pre <+: pat))
    (t : Tree) (hr : ReachAll t) (f : Found) (q : Node)
    (hres : t.handler env path [] method = .res f) (hq : f.node = some q) (hpat : q.pattern = pat) :
    ∃ f', (t.run ws).handler env path [] method = .res f' ∧ C03.SameAnswer f f' := by
  induction ws generalizing t f q with
  | nil => exact ⟨f, hres, sameAnswer_refl f⟩
  | cons w ws ih =>
    have hrest : ∀ w' ∈ ws, (∃ p ms, w' = .remove p ms ∧ p ≠ pat) ∨ (∃ pre, w' = .clean pre ∧ ¬ pre <+: pat) :=
      fun w' hw' => hws w' (List.mem_cons_of_mem _ hw')
    have hstep : (t.run (w :: ws)) = (t.step w).run ws := rfl
    rw [hstep]
    rcases hws w (by simp) with ⟨p, ms, rfl, hne⟩ | ⟨pre, rfl, hne⟩
    · obtain ⟨f1, h1, s1⟩ := C03.C03_frame_remove_step t hr p ms env path method f q hres hq (by rw [hpat]; exact Ne.symm hne)
      obtain ⟨q1, hq1, e1, _⟩ := s1.2.2.2 q hq
      obtain ⟨f2, h2, s2⟩ := ih hrest (t.step (.remove p ms)) (hr.step rfl) f1 q1 h1 hq1 (e1.trans hpat)
      exact ⟨f2, h2, sameAnswer_trans s1 s2⟩
    · obtain ⟨f1, h1, s1⟩ := C03.C03_frame_clean_step t hr pre env path method f q hres hq (by rw [hpat]; exact hne)
      obtain ⟨q1, hq1, e1, _⟩ := s1.2.2.2 q hq
      obtain ⟨f2, h2, s2⟩ := ih hrest (t.step (.clean pre)) (hr.step rfl) f1 q1 h1 hq1 (e1.trans hpat)
      exact ⟨f2, h2, sameAnswer_trans s1 s2⟩

/-- **C06, clause "routes that are never touched keep being served with their own handler and
parameters" — PARTIAL (every `Handle` counts as touching, see `Op.touches`).**

Let the router be set up sequentially by a history `pre` with well-formed registered patterns, and let
the request `(path, method)` be answered there with the node `q` (a registered handler of `q`, or its
405 / automatic OPTIONS answer).  Then let any number of goroutines run any programs under
`WithLock(true)` and any schedule, such that NO call of any program touches `q.pattern`: no `Handle`
at all, no `Remove(q.pattern, …)`, no `Clean` of a prefix of `q.pattern` — arbitrary other `Remove`s and
`Clean`s, `Routes`, `URL` and requests are allowed.  Then EVERY completed `Handler(path, method)` call
answered with the same handler, the same `ok` flag, the same parameters and a node with the same
pattern and the same handler map — in particular never with a nil or foreign handler, never 404.

Hypotheses: `hpre` is the hypothesis of the sequential frame theorems (`ReachAll`); `hunt` is the
property's "never touched", strengthened as said.  Discharged internally: every state of the
linearization order is `ReachAll` (the writer order consists of operations of the programs:
`RWLock.wlog_subset`). -/
theorem C06_untouched_partial (env : Env) (name : Bytes) (ic : Interceptors) (nf : Handler) (tr : Option Handler)
    (pre : List TOp) (hpre : ∀ op ∈ pre, op.wf = true)
    (progs : Nat → List Op) (c : Config (treeSys env))
    (h : Reachable (S := treeSys env) ((Tree.new name ic nf tr).run pre) progs c)
    (path method : Bytes) (f : Found) (q : Node)
    (h0 : ((Tree.new name ic nf tr).run pre).handler env path [] method = .res f) (hq : f.node = some q)
    (hunt : ∀ i, ∀ op ∈ progs i, ¬ Op.touches q.pattern op)
    (r : RWLock.Rec (treeSys env)) (hr : r ∈ c.done) (hop : r.call.op = Op.handler path [] method) :
    ∃ f', r.resp = Resp.handler (.res f') ∧ C03.SameAnswer f f' := by
  have hF := (C06_untouched_frame env _ progs c h r hr).2.2.2.1 path [] method hop
  have hreach : ReachAll ((Tree.new name ic nf tr).run pre) := (ReachAll.new name ic nf tr _ _).run hpre
  obtain ⟨f', h1, h2⟩ := frame_run env path method q.pattern ((c.wlog.take r.lin).filterMap Op.toTOp?) (by
      intro w hw
      obtain ⟨op, hop', hw'⟩ := List.mem_filterMap.1 hw
      obtain ⟨j, hj⟩ := wlog_subset h op (List.mem_of_mem_take hop')
      have hnt := hunt j op hj
      cases op with
      | add p hd ms methods => exact absurd trivial hnt
      | remove p ms =>
        simp only [Op.toTOp?, Option.some.injEq] at hw'; subst hw'
        exact .inl ⟨p, ms, rfl, hnt⟩
      | clean pr =>
        simp only [Op.toTOp?, Option.some.injEq] at hw'; subst hw'
        exact .inr ⟨pr, rfl, hnt⟩
      | handler _ _ _ => simp [Op.toTOp?] at hw'
      | routes => simp [Op.toTOp?] at hw'
      | url _ _ => simp [Op.toTOp?] at hw')
    _ hreach f q h0 hq rfl
  exact ⟨f', by rw [hF, h1], h2⟩

/-! ### Non-vacuity of `C06_untouched_partial` -/

/-- Set-up: `GET /u/` and `GET /u/{id}` (`P14.exOps`, well-formed). Thread 0 removes `/u/` (the interior
route ABOVE the observed one — its node is merged away), thread 1 cleans `/x`, thread 2 serves `GET /u/5`
twice.  Nothing touches `/u/{id}`. -/
def exProgs2 : Nat → List Op := fun i =>
  if i = 0 then [Op.remove exU []] else if i = 1 then [Op.clean [47, 120]]
  else if i = 2 then [Op.handler exReq [] mGET, Op.handler exReq [] mGET] else []

theorem exProgs2_untouched : ∀ i, ∀ op ∈ exProgs2 i, ¬ Op.touches exUid op := by
  intro i op hop
  unfold exProgs2 at hop
  split at hop
  · simp only [List.mem_singleton] at hop; subst hop; simp only [Op.touches]; decide
  · split at hop
    · simp only [List.mem_singleton] at hop; subst hop
      simp only [Op.touches]; rw [← List.isPrefixOf_iff_prefix]; decide
    · split at hop
      · simp only [List.mem_cons, List.not_mem_nil, or_false, or_self] at hop; subst hop; simp [Op.touches]
      · simp at hop

/-- The hypotheses are satisfiable and the theorem applies to a completed request that was linearized
AFTER the removal (`lin = 1`): it got the answer of `/u/{id}` with `id = 5`. -/
example : ∃ (c : Config (treeSys exEnv)) (r : RWLock.Rec (treeSys exEnv)) (f f' : Found) (q : Node),
    Reachable (S := treeSys exEnv) (exT0.run exOps) exProgs2 c ∧ r ∈ c.done ∧ r.lin = 1 ∧
    (exT0.run exOps).handler exEnv exReq [] mGET = .res f ∧ f.node = some q ∧ q.pattern = exUid ∧
    r.resp = Resp.handler (.res f') ∧ C03.SameAnswer f f' ∧ f'.params = [([105, 100], [53])] := by
  obtain ⟨f, q, hres, hq, hp, _, _, hps⟩ := exT_answer
  have h0 : Reachable (S := treeSys exEnv) (exT0.run exOps) exProgs2 (Config.init _ exProgs2) := .init
  obtain ⟨c1, a, h1, _, l1, t1, w1, d1, _, _, _, _, _⟩ := solo h0 (i := 0) (op := Op.remove exU []) (rest := []) rfl rfl
  obtain ⟨c2, b, h2, _, l2, t2, w2, d2, _, b2, _, _, b5⟩ := solo h1 (i := 2) (op := Op.handler exReq [] mGET)
    (rest := [Op.handler exReq [] mGET]) (by rw [t1 2]; rfl) l1
  have hb : b ∈ c2.done := by rw [d2]; simp
  obtain ⟨f', e1, e2⟩ := C06_untouched_partial exEnv [114] [] { base := .notFound } none exOps exOps_wf exProgs2 c2 h2
    exReq mGET f q hres hq (by rw [hp]; exact exProgs2_untouched) b hb b2
  exact ⟨c2, b, f, f', q, h2, hb, by rw [b5, w1]; rfl, hres, hq, hp, e1, e2, by rw [e2.2.2.1, hps]⟩

end Mux.C06
