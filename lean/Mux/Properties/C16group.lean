/-
  C16 (groups, whole histories) — the hypotheses of `C16_group_contained` (the group has recovery configured, and so
  has every member router found in the table) hold in EVERY state of a group history (`Group.Add/Use/Remove` and
  `Handle/Remove/Clean/Use` on the routers through their own handles), because no operation of the model changes a
  `recover` flag.  So "nothing escapes `Group.ServeHTTP`" holds along whole histories without a hypothesis on the
  state.  (That the routers of the table have the option at all is what `Group.New` arranges by forwarding the
  group's options — `Group.New` itself is not modelled; the hypothesis `h0` stands for it.)
  Helper: `Mux/Proofs/GroupHistory.lean` (namespace `Mux.P25`).
-/
import Mux.Proofs.GroupHistory
import Mux.Properties.C16stable
namespace Mux.C16
open Mux Mux.P10

/-- **C16_group_history**: along any group history that starts from a group without members (`NewGroup`), the group's
own recover flag and recovery script are unchanged, and if every router of the table had recovery configured, every
router of the table still has (also non-members and members added later). -/
theorem C16_group_history (g0 : Group) (hg0 : g0.routers = []) (rt0 : RTab) (prog : List GOp)
    (h0 : ∀ e ∈ rt0, e.2.recover = true) :
    (grun (g0, rt0) prog).1.recover = g0.recover ∧ (grun (g0, rt0) prog).1.recActs = g0.recActs ∧
    (∀ rid r, (grun (g0, rt0) prog).2.get? rid = some r → r.recover = true) := by
  have hinv : P25.GInv (fun _ => True) (fun r => r.recover = true) (grun (g0, rt0) prog) :=
    P25.GInv.run (fun r op h => ((C16_recActs_step r op).2).trans h) prog (P25.GInv.init g0 hg0 rt0 h0)
      (fun _ _ _ => trivial)
  exact ⟨(P25.grun_group_fixed prog (g0, rt0)).1, (P25.grun_group_fixed prog (g0, rt0)).2, hinv.table⟩

/-- **C16_group_history_contained** (clause "a panic never escapes `Group.ServeHTTP`", over whole histories).  The
group was made with recovery (`hg`) and without members; every router of the table was made with recovery (`h0`).
Then in EVERY state of EVERY group history and for every request and every set of panicking user functions: no user
panic escapes `Group.ServeHTTP`, and a panic value raised by the selected call — the group's not-found handler or a
route handler / middleware / 404 / 405 / OPTIONS / TRACE handler of the accepted router — is handed to the recovery
function unchanged. -/
theorem C16_group_history_contained (env : Env) (hostsTab : Nat → Option Hosts) (pc : PanicCfg) (scripts : Scripts)
    (g0 : Group) (hg0 : g0.routers = []) (hg : g0.recover = true) (rt0 : RTab) (h0 : ∀ e ∈ rt0, e.2.recover = true)
    (prog : List GOp) (req : Req) :
    let s := grun (g0, rt0) prog
    (∀ v, (s.1.serveHTTP env hostsTab pc scripts s.2 req).2 ≠ .panicked (.user v)) ∧
    (∀ c v, s.1.serve env hostsTab s.2 req = .call c → runCall pc scripts c = .error v →
      s.1.serveHTTP env hostsTab pc scripts s.2 req = (some c, .recovered v (recoveredRec c))) := by
  intro s
  obtain ⟨h1, _, h3⟩ := C16_group_history g0 hg0 rt0 prog h0
  exact C16_group_contained env hostsTab pc scripts s.2 s.1 req (h1.trans hg) (fun e _ r hr => h3 e.1 r hr)

/-! ## Non-vacuity -/

def exRt : RTab := [(7, demoRouter true), (8, { demoRouter true with tree := { (demoRouter true).tree with name := [2] } })]
def exGProg : List GOp := [.add .any 7, .use [1], .add .any 8, .router 7 (.use [5]), .remove [2]]

example : ∀ e ∈ exRt, e.2.recover = true := by decide
example : ({ recover := true } : Group).routers = [] ∧ ({ recover := true } : Group).recover = true := ⟨rfl, rfl⟩
-- both routers become members, then the second is removed: the history really changes the group
example : (grun (({ recover := true } : Group), exRt) (exGProg.take 3)).1.routers.map (·.1) = [7, 8] ∧
    (grun (({ recover := true } : Group), exRt) exGProg).1.routers.map (·.1) = [7] := by decide +kernel

end Mux.C16
