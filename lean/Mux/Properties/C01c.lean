/-
  C01 (closing the name hypothesis) — `C01_found`, `C01_404`, `C01_params_exact` for REACHABLE trees,
  without the hypothesis `NamesOkL [] t.root.children`: it is discharged by I-seg (names), proved in
  `Mux/Proofs/Names.lean` for every tree reachable by a history whose registered patterns are
  well-formed (`ReachWf`: balanced, non-nested `{…}` tokens; literal text without braces — the
  property's own quantifier).

  The second tree hypothesis, `Node.All IdxLit t.root` (the index fast path only selects literal
  children), is discharged by another agent (I-sort/I-index) and is kept as a hypothesis here.
-/
import Mux.Proofs.Names
import Mux.Proofs.P9Examples
import Mux.Properties.C01
namespace Mux.C01
open Mux Mux.P9

/-- Parameter names are pairwise distinct along every root-to-node chain of a reachable tree
(literal segments contribute no name; `-` parameters are included). -/
theorem C01_names_distinct (t : Tree) (hr : ReachWf t) (m : Node) (segs : List Seg) (hc : Chain t.root segs m) :
    (chainNames segs).Nodup := reach_chainNames hr hc

/-- The parameter names of a pattern that `Split` accepts are pairwise distinct. -/
theorem C01_pattern_names_distinct (ic : Interceptors) (p : Bytes) (segs : List Seg) (h : split ic p = .ok segs) :
    (chainNames segs).Nodup := split_names_nodup h

/-- The matcher's name hypothesis holds on every reachable tree. -/
theorem C01_namesOk (t : Tree) (hr : ReachWf t) : NamesOkL [] t.root.children := reach_namesOk hr

/-- `C01_found` on reachable trees. -/
theorem C01_found_reachWf (env : Env) (t : Tree) (hr : ReachWf t) (path method : Bytes) (f : Found) (n : Node)
    (hI : Node.All IdxLit t.root)
    (hp : path ≠ []) (hs : path ≠ [42]) (htr : t.trace = none ∨ method ≠ mTRACE)
    (h : t.handler env path [] method = .res f) (hf : f.node = some n) :
    ∃ chain : List (Seg × Bytes),
      chain ≠ [] ∧ Chain t.root (chain.map (·.1)) n ∧ path = instChain chain ∧
      (∀ sv ∈ chain, sv.1.Satisfies env t.ic sv.2) ∧
      f.params = captures chain ∧ n.handlers ≠ [] ∧ HandlerAgrees n method f :=
  C01_found env t path method f n (reach_namesOk hr) hI hp hs htr h hf

/-- `C01_404` on reachable trees: a 404 reports no route parameters at all. -/
theorem C01_404_reachWf (env : Env) (t : Tree) (hr : ReachWf t) (path method : Bytes) (f : Found)
    (hI : Node.All IdxLit t.root)
    (h : t.handler env path [] method = .res f) (hf : f.node = none) :
    f.params = [] ∧ f.handler = t.notFound ∧ f.ok = false :=
  C01_404 env t path method f (reach_namesOk hr) hI h hf

/-- `C01_params_exact` on reachable trees: the reported parameters are exactly the capturing
parameters of the chain, without repetition, each with its value. -/
theorem C01_params_exact_reachWf (env : Env) (t : Tree) (hr : ReachWf t) (path method : Bytes) (f : Found) (n : Node)
    (hI : Node.All IdxLit t.root)
    (hp : path ≠ []) (hs : path ≠ [42]) (htr : t.trace = none ∨ method ≠ mTRACE)
    (h : t.handler env path [] method = .res f) (hf : f.node = some n) :
    ∃ chain : List (Seg × Bytes),
      Chain t.root (chain.map (·.1)) n ∧ path = instChain chain ∧
      f.params.keys = (chain.filter (fun sv => decide (sv.1.kind ≠ .str ∧ ¬ sv.1.ignoreName))).map (·.1.name) ∧
      f.params.keys.Nodup ∧
      (∀ sv ∈ chain, sv.1.kind ≠ .str ∧ ¬ sv.1.ignoreName → f.params.get? sv.1.name = some sv.2) :=
  C01_params_exact env t path method f n (reach_namesOk hr) hI hp hs htr h hf

/-- Every segment stored below the root of a reachable tree is what `NewSegment` makes of its own
text (I-seg): so the kind, name, rule, suffix that the matcher uses are those of the pattern text. -/
theorem C01_segs_reparse (t : Tree) (hr : ReachWf t) :
    AllL (fun c => newSegment t.ic c.seg.value = .ok c.seg) t.root.children :=
  (AllL_mono (fun n (hn : SegOk t.ic n.seg) => hn.seg)).2 _ (reach_segOk hr)

/-! ## Non-vacuity -/

/-- `/u/{id}` then `/u/{id}/x` registered on a fresh tree, then `Remove` and `Clean`: a `ReachWf` tree. -/
example : ReachWf (exT0.run exOps) := reachWf_ex
example : NamesOkL [] (exT0.run exOps).root.children := C01_namesOk _ reachWf_ex

end Mux.C01
