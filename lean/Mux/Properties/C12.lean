/-
  C12 — CORS grants exactly what was configured to allowed origins.
  Same model and conventions as C11 (see Mux/Properties/C11.lean): `c` is any configuration produced
  by `Cors.sanitize origins allowHeaders exposed maxAge cred`, `h` the header map after `cors.handle`
  from the empty map, `Cors.isPreflight` is OPTIONS ∧ ACR-Method ≠ "" ∧ path ≠ "*".
-/
import Mux.Proofs.CorsConfig
import Mux.Proofs.CorsRouter
import Mux.Proofs.CorsExamples
namespace Mux.C12
open Mux

variable {origins allowHeaders exposed : List Bytes} {maxAge : Int} {cred : Bool} {c : Cors}

/-- `c.allowHeadersString` in terms of the `sanitize` arguments. -/
theorem C12_allowHeadersString (hs : Cors.sanitize origins allowHeaders exposed maxAge cred = some c) :
    c.allowHeadersString =
      (if [42] ∈ allowHeaders then bytesOfString "*,Authorization" else joinWith [44] allowHeaders) ∧
    c.anyOrigins = decide ([42] ∈ origins) :=
  ⟨(Cors.sanitize_eq_some hs).2.2.2.2.2.2.2.1, (Cors.sanitize_eq_some hs).2.2.2.1⟩

/-! Non-vacuity: two sanitized configurations (listed origin with credentials; `*` without). -/
example : Cors.sanitize [CorsEx.origin] [hContentType, CorsEx.xId] [CorsEx.xId] 3600 true = some CorsEx.cfg := by
  decide +kernel
example : Cors.sanitize [[42]] [[42]] [] (-1) false = some CorsEx.cfgStar := by decide +kernel

/-- Allowed origin, not a preflight: ACAO / ACAC / ACEH exactly as configured and none of the
preflight-only headers. -/
theorem C12_simple (hs : Cors.sanitize origins allowHeaders exposed maxAge cred = some c)
    (nodeMethods : List Bytes) (nodeAllow method path : Bytes) (reqHeaders : Hdr)
    (hne : origins ≠ []) (hor : c.anyOrigins = true ∨ reqHeaders.get hOrigin ∈ origins)
    (hnp : ¬ Cors.isPreflight method path reqHeaders) :
    let h := c.handle nodeMethods nodeAllow [] method path reqHeaders
    h.values hACAO = [if c.anyOrigins = true then [42] else reqHeaders.get hOrigin] ∧
    h.values hACAC = (if cred = true then [bytesOfString "true"] else []) ∧
    h.values hACEH = (if exposed ≠ [] ∧ exposed ≠ [[]] then [joinWith [44] exposed] else []) ∧
    h.has hACAM = false ∧ h.has hACAH = false ∧ h.has hACMA = false := by
  obtain ⟨_, _, _, ha, _, _, _, _, he, _, hc⟩ := Cors.sanitize_eq_some hs
  have hg : c.granted nodeMethods method path reqHeaders :=
    (Cors.granted_iff hs ..).mpr ⟨hne, fun h => absurd h hnp, by simpa [ha] using hor⟩
  have hp : ¬ c.preOK nodeMethods method path reqHeaders := fun h => hnp h.2.1
  simp [Cors.values_handle_ACAO, Cors.values_handle_ACAC, Cors.values_handle_ACEH,
    Cors.has_handle_ACAM, Cors.has_handle_ACAH, Cors.has_handle_ACMA, hg, hp, ha, he, hc,
    joinWith_eq_nil_iff]

/-! Non-vacuity: a GET from the listed origin; a GET from anywhere under `*`; an OPTIONS without
`Access-Control-Request-Method` and an `OPTIONS *` are not preflights either. -/
example : [CorsEx.origin] ≠ [] ∧ (CorsEx.cfg.anyOrigins = true ∨ CorsEx.simple.get hOrigin ∈ [CorsEx.origin]) ∧
    ¬ Cors.isPreflight mGET CorsEx.path CorsEx.simple ∧
    ¬ Cors.isPreflight mOPTIONS CorsEx.path CorsEx.simple ∧
    ¬ Cors.isPreflight mOPTIONS [42] CorsEx.preflight := by decide +kernel
example : [([42] : Bytes)] ≠ [] ∧ (CorsEx.cfgStar.anyOrigins = true ∨ CorsEx.simpleEvil.get hOrigin ∈ [[42]]) ∧
    ¬ Cors.isPreflight mGET CorsEx.path CorsEx.simpleEvil := by decide +kernel
/-- The whole header map in the first case. -/
example : CorsEx.cfg.handle CorsEx.nodeMethods CorsEx.nodeAllow [] mGET CorsEx.path CorsEx.simple =
    [(hACAO, [CorsEx.origin]), (hVary, [hOrigin]), (hACAC, [bytesOfString "true"]), (hACEH, [CorsEx.xId])] := by
  decide +kernel
/-- Why the Expose-Headers condition reads `exposed ≠ [] ∧ exposed ≠ [""]`: `ExposedHeaders = [""]`
joins to the empty string and (as in Go, `options.go`: `if c.exposedHeadersString != ""`) nothing is sent. -/
example : ∃ c, Cors.sanitize [CorsEx.origin] [] [[]] 0 false = some c ∧
    (c.handle CorsEx.nodeMethods CorsEx.nodeAllow [] mGET CorsEx.path CorsEx.simple).values hACEH = [] :=
  ⟨{ origins := [CorsEx.origin], deny := false }, by decide +kernel, by decide +kernel⟩

/-- Allowed origin, preflight for a served method with allowed headers: the above and
Allow-Methods = the node's Allow set, the configured Allow-Headers and Max-Age. -/
theorem C12_preflight (hs : Cors.sanitize origins allowHeaders exposed maxAge cred = some c)
    (nodeMethods : List Bytes) (nodeAllow method path : Bytes) (reqHeaders : Hdr)
    (hne : origins ≠ []) (hor : c.anyOrigins = true ∨ reqHeaders.get hOrigin ∈ origins)
    (hp : Cors.isPreflight method path reqHeaders) (hm : reqHeaders.get hACRM ∈ nodeMethods)
    (hh : c.headerIsAllowed reqHeaders = true) :
    let h := c.handle nodeMethods nodeAllow [] method path reqHeaders
    h.values hACAO = [if c.anyOrigins = true then [42] else reqHeaders.get hOrigin] ∧
    h.values hACAC = (if cred = true then [bytesOfString "true"] else []) ∧
    h.values hACEH = (if exposed ≠ [] ∧ exposed ≠ [[]] then [joinWith [44] exposed] else []) ∧
    h.values hACAM = [nodeAllow] ∧
    h.values hACAH = (if c.allowHeadersString ≠ [] then [c.allowHeadersString] else []) ∧
    h.values hACMA = (if maxAge ≠ 0 then [intToBytes maxAge] else []) := by
  obtain ⟨_, _, _, ha, _, _, _, _, he, hma, hc⟩ := Cors.sanitize_eq_some hs
  have hg : c.granted nodeMethods method path reqHeaders :=
    (Cors.granted_iff hs ..).mpr ⟨hne, fun _ => ⟨hm, hh⟩, by simpa [ha] using hor⟩
  have hp : c.preOK nodeMethods method path reqHeaders := (Cors.preOK_iff hs ..).mpr ⟨hne, hp, hm⟩
  by_cases h0 : maxAge = 0 <;>
  simp [Cors.values_handle_ACAO, Cors.values_handle_ACAC, Cors.values_handle_ACEH,
    Cors.values_handle_ACAM, Cors.values_handle_ACAH, Cors.values_handle_ACMA, hg, hp, hh, ha, he, hc, hma, h0,
    joinWith_eq_nil_iff, intToBytes_ne_nil]

/-! Non-vacuity: the browser-style preflight (lower-case names, odd spacing) against the listed-origin
configuration — every hypothesis holds — and the resulting header map; then the same under `*`. -/
example : [CorsEx.origin] ≠ [] ∧ (CorsEx.cfg.anyOrigins = true ∨ CorsEx.preflight.get hOrigin ∈ [CorsEx.origin]) ∧
    Cors.isPreflight mOPTIONS CorsEx.path CorsEx.preflight ∧ CorsEx.preflight.get hACRM ∈ CorsEx.nodeMethods ∧
    CorsEx.cfg.headerIsAllowed CorsEx.preflight = true := by decide +kernel
example : CorsEx.cfg.handle CorsEx.nodeMethods CorsEx.nodeAllow [] mOPTIONS CorsEx.path CorsEx.preflight =
    [(hACAM, [CorsEx.nodeAllow]), (hVary, [hACRM, hACRH, hOrigin]),
     (hACAH, [bytesOfString "Content-Type,X-Id"]), (hACMA, [bytesOfString "3600"]),
     (hACAO, [CorsEx.origin]), (hACAC, [bytesOfString "true"]), (hACEH, [CorsEx.xId])] := by decide +kernel
example : [([42] : Bytes)] ≠ [] ∧
    (CorsEx.cfgStar.anyOrigins = true ∨ CorsEx.preflightEvilHeader.get hOrigin ∈ [[42]]) ∧
    Cors.isPreflight mOPTIONS CorsEx.path CorsEx.preflightEvilHeader ∧
    CorsEx.preflightEvilHeader.get hACRM ∈ CorsEx.nodeMethods ∧
    CorsEx.cfgStar.headerIsAllowed CorsEx.preflightEvilHeader = true := by decide +kernel
example : CorsEx.cfgStar.handle CorsEx.nodeMethods CorsEx.nodeAllow [] mOPTIONS CorsEx.path CorsEx.preflightEvilHeader =
    [(hACAM, [CorsEx.nodeAllow]), (hVary, [hACRM, hACRH, hOrigin]),
     (hACAH, [bytesOfString "*,Authorization"]), (hACMA, [bytesOfString "-1"]), (hACAO, [[42]])] := by
  decide +kernel

/-- `Vary` exactly: `Access-Control-Request-Method` iff a preflight passed the method check,
`Access-Control-Request-Headers` iff additionally the header check passed and an allow-list is sent,
`Origin` iff `Access-Control-Allow-Origin` was granted — in this order, and nothing else.
(No hypothesis on the request: this holds for every request.) -/
theorem C12_vary (hs : Cors.sanitize origins allowHeaders exposed maxAge cred = some c)
    (nodeMethods : List Bytes) (nodeAllow method path : Bytes) (reqHeaders : Hdr) :
    let h := c.handle nodeMethods nodeAllow [] method path reqHeaders
    let pre := origins ≠ [] ∧ Cors.isPreflight method path reqHeaders ∧ reqHeaders.get hACRM ∈ nodeMethods
    h.values hVary =
      (if pre then [hACRM] else []) ++
      (if pre ∧ c.headerIsAllowed reqHeaders = true ∧ c.allowHeadersString ≠ [] then [hACRH] else []) ++
      (if h.has hACAO = true then [hOrigin] else []) := by
  simp only [Cors.values_handle_Vary, Cors.has_handle_ACAO, decide_eq_true_iff, Cors.preOK_iff hs]

/-- Membership reading of `C12_vary`. -/
theorem C12_vary_mem (hs : Cors.sanitize origins allowHeaders exposed maxAge cred = some c)
    (nodeMethods : List Bytes) (nodeAllow method path : Bytes) (reqHeaders : Hdr) :
    let h := c.handle nodeMethods nodeAllow [] method path reqHeaders
    let pre := origins ≠ [] ∧ Cors.isPreflight method path reqHeaders ∧ reqHeaders.get hACRM ∈ nodeMethods
    (h.values hVary).Sublist [hACRM, hACRH, hOrigin] ∧
    (hOrigin ∈ h.values hVary ↔ h.has hACAO = true) ∧
    (hACRM ∈ h.values hVary ↔ pre) ∧
    (hACRH ∈ h.values hVary ↔ pre ∧ c.headerIsAllowed reqHeaders = true ∧ c.allowHeadersString ≠ []) := by
  have hv := C12_vary hs nodeMethods nodeAllow method path reqHeaders
  dsimp only at hv ⊢
  rw [hv]
  refine ⟨?_, ?_, ?_, ?_⟩
  · repeat' split
    all_goals simp
  all_goals (repeat' split) <;> simp_all

/-! Non-vacuity: all four shapes of `Vary` occur. -/
example :
    (CorsEx.cfg.handle CorsEx.nodeMethods CorsEx.nodeAllow [] mOPTIONS CorsEx.path CorsEx.preflight).values hVary
      = [hACRM, hACRH, hOrigin] ∧
    (CorsEx.cfg.handle CorsEx.nodeMethods CorsEx.nodeAllow [] mOPTIONS CorsEx.path CorsEx.preflightEvilHeader).values hVary
      = [hACRM] ∧
    (CorsEx.cfg.handle CorsEx.nodeMethods CorsEx.nodeAllow [] mOPTIONS CorsEx.path CorsEx.preflightDelete).values hVary
      = [] ∧
    (CorsEx.cfg.handle CorsEx.nodeMethods CorsEx.nodeAllow [] mGET CorsEx.path CorsEx.simple).values hVary
      = [hOrigin] := by decide +kernel

/-- Requests that are not preflights never carry the preflight-only headers — whatever the origin. -/
theorem C12_not_preflight (nodeMethods : List Bytes) (nodeAllow method path : Bytes) (reqHeaders : Hdr)
    (hnp : ¬ Cors.isPreflight method path reqHeaders) :
    let h := c.handle nodeMethods nodeAllow [] method path reqHeaders
    h.has hACAM = false ∧ h.has hACAH = false ∧ h.has hACMA = false ∧
    hACRM ∉ h.values hVary ∧ hACRH ∉ h.values hVary := by
  have hp : ¬ c.preOK nodeMethods method path reqHeaders := fun h => hnp h.2.1
  simp [Cors.has_handle_ACAM, Cors.has_handle_ACAH, Cors.has_handle_ACMA, Cors.values_handle_Vary, hp]

example : ¬ Cors.isPreflight mOPTIONS [42] CorsEx.preflight ∧ ¬ Cors.isPreflight mGET CorsEx.path CorsEx.preflight := by
  decide +kernel

/-- `cors.handle` writes nothing but the six `Access-Control-*` response headers and `Vary`. -/
theorem C12_only_cors_headers (nodeMethods : List Bytes) (nodeAllow method path : Bytes) (reqHeaders : Hdr)
    (k : Bytes) (hk : k ∉ [hACAO, hACAC, hACEH, hACAM, hACAH, hACMA, hVary]) :
    (c.handle nodeMethods nodeAllow [] method path reqHeaders).has k = false :=
  Cors.has_handle_other c nodeMethods nodeAllow method path reqHeaders k hk

example : hContentType ∉ [hACAO, hACAC, hACEH, hACAM, hACAH, hACMA, hVary] := by decide +kernel

/-- Tie to the router: for a served request (`ok = true`) there is a node and the response header
map handed to the handler is exactly `cors.handle` run on the empty map with that node's method set
and `Allow` value. -/
theorem C12_served {env : Env} {r : Router} {req : Req} {ps : Params} {call : Call}
    (h : r.serveContext env req ps = .call call) (hok : call.ok = true) :
    ∃ n, call.node = some n ∧
      call.respHeaders = r.cors.handle n.methods n.allow [] req.method req.path req.headers := by
  obtain ⟨n, hn⟩ := Router.serveContext_ok_node h hok
  exact ⟨n, hn, Router.serveContext_ok h hok hn⟩

/-! Non-vacuity: the preflight through a router with the live route `/a` (GET) and the configuration above:
`ok = true`, a node, and exactly the header map of `C12_preflight`'s example. -/
example : CorsEx.servedOK CorsEx.router { method := mOPTIONS, path := CorsEx.path, headers := CorsEx.preflight }
    [(hACAM, [CorsEx.nodeAllow]), (hVary, [hACRM, hACRH, hOrigin]),
     (hACAH, [bytesOfString "Content-Type,X-Id"]), (hACMA, [bytesOfString "3600"]),
     (hACAO, [CorsEx.origin]), (hACAC, [bytesOfString "true"]), (hACEH, [CorsEx.xId])] = true := by
  decide +kernel

end Mux.C12
