/-
  C05 (ROUTER level, whole histories) — `Handle`, `Remove`, `Clean` (also through the `Prefix` / `Resource`
  façades) never fault on a router made by `NewRouter` and ANY history whose registered patterns pass the brace
  check; and `Router.ServeHTTP` with quiet user code ends normally on every request.

  These are lifts of the tree-level theorems of `C05handle.lean` / `C05serve.lean` to the level the property
  speaks about.  The hypothesis on histories (`P18.ROp.wf`: the pattern of every `Handle` IN THE HISTORY is
  `WfPattern`) is the one under which the existing no-fault proofs are available; the pattern, handler,
  middleware list and method list of the call UNDER CONSIDERATION are arbitrary.
-/
import Mux.Proofs.GroupLiftReach
import Mux.Properties.C05handle
import Mux.Properties.C05serve
namespace Mux.C05
open Mux

/-! ## Handle / Remove / Clean at router level -/

/-- The tree of a router reached by a history of well-formed registrations is `ReachWf`. -/
theorem router_reachWf {cfg : RouterCfg} {r0 : Router} (hnew : Router.new cfg = some r0) {ops : List ROp}
    (hops : ∀ op ∈ ops, P18.ROp.wf op = true) : P9.ReachWf (r0.run ops).tree :=
  (P18.reachAll_run hnew hops).reachWf

/-- `Router.Handle` on a router whose tree is `ReachWf`: registered, or an error VALUE of a listed class. -/
theorem handle_total_of_reachWf (r : Router) (hr : P9.ReachWf r.tree) (p : Bytes) (h : Nat) (m : List Nat)
    (methods : List Bytes) :
    (∃ r', r.handle p h m methods = .ok r') ∨ ∃ e, r.handle p h m methods = .error e ∧ HandleErr e := by
  unfold Router.handle
  simp only [bind, Except.bind, pure, Except.pure]
  rcases C05_handle r.tree hr p { base := .user h } (m ++ r.ms) methods with ⟨t', ht⟩ | ⟨e, he, hc⟩
  · rw [ht]; exact .inl ⟨_, rfl⟩
  · rw [he]; exact .inr ⟨e, rfl, hc⟩

theorem remove_total_of_reachWf (r : Router) (hr : P9.ReachWf r.tree) (p : Bytes) (methods : List Bytes) :
    ∃ r', r.remove p methods = .ok r' := by
  unfold Router.remove
  simp only [bind, Except.bind, pure, Except.pure]
  obtain ⟨t', ht⟩ := C05_remove r.tree (C05_reach_valsNonEmpty r.tree hr) p methods
  rw [ht]; exact ⟨_, rfl⟩

theorem clean_total_of_reachWf (r : Router) (hr : P9.ReachWf r.tree) (p : Bytes) :
    ∃ r', r.clean p = .ok r' := by
  unfold Router.clean
  simp only [bind, Except.bind, pure, Except.pure]
  obtain ⟨t', ht⟩ := C05_clean r.tree (C05_reach_valsNonEmpty r.tree hr) p
  rw [ht]; exact ⟨_, rfl⟩

/-- **C05_router_total** (clause "`Handle` on any pattern registers it or panics with an error value, never a
runtime fault", at the level of `Router.Handle/Remove/Clean`, over whole histories).  For a router made by
`NewRouter(cfg)` (`hnew`: the name is non-empty) and ANY history `ops` of `Handle/Remove/Clean/Use` in which every
REGISTERED pattern passes the brace check (`hops`; arguments of `Remove/Clean/Use` arbitrary), and for ANY pattern
string, handler id, middleware list and method list:
 * `Handle` either succeeds or answers an error value of one of the classes of `HandleErr` (no `.fault`);
 * `Remove` succeeds; `Clean` succeeds (their only error sites are faults).
Hypotheses: `hnew` and `hops` delimit the histories (see the header; `hops` is discharged for the history by
`P18.reachAll_run`, nothing is assumed of the intermediate states). -/
theorem C05_router_total (cfg : RouterCfg) (r0 : Router) (hnew : Router.new cfg = some r0)
    (ops : List ROp) (hops : ∀ op ∈ ops, P18.ROp.wf op = true)
    (p : Bytes) (h : Nat) (m : List Nat) (methods : List Bytes) :
    ((∃ r', (r0.run ops).handle p h m methods = .ok r') ∨
       ∃ e, (r0.run ops).handle p h m methods = .error e ∧ HandleErr e) ∧
    (∃ r', (r0.run ops).remove p methods = .ok r') ∧ (∃ r', (r0.run ops).clean p = .ok r') :=
  have hr := router_reachWf hnew hops
  ⟨handle_total_of_reachWf _ hr p h m methods, remove_total_of_reachWf _ hr p methods, clean_total_of_reachWf _ hr p⟩

/-- Corollary in the `≠ .fault` form. -/
theorem C05_router_no_fault (cfg : RouterCfg) (r0 : Router) (hnew : Router.new cfg = some r0)
    (ops : List ROp) (hops : ∀ op ∈ ops, P18.ROp.wf op = true)
    (p : Bytes) (h : Nat) (m : List Nat) (methods : List Bytes) (k : Nat) :
    (r0.run ops).handle p h m methods ≠ .error (.fault k) ∧ (r0.run ops).remove p methods ≠ .error (.fault k) ∧
    (r0.run ops).clean p ≠ .error (.fault k) := by
  obtain ⟨h1, ⟨r2, h2⟩, ⟨r3, h3⟩⟩ := C05_router_total cfg r0 hnew ops hops p h m methods
  refine ⟨?_, by rw [h2]; simp, by rw [h3]; simp⟩
  rcases h1 with ⟨r1, h1⟩ | ⟨e, h1, hc⟩
  · rw [h1]; simp
  · rw [h1]
    intro heq
    have : e = .fault k := by simpa using heq
    subst this
    have := handleErr_not_fault hc
    simp [Err.isFault] at this

/-- **C05_router_step_exact**: in such a history no step ever swallows a fault — every `Remove` and `Clean` step IS
the Go operation's result, and a `Handle` step that leaves the router unchanged does so because `Handle` answered an
error VALUE (a Go `panic(error)` raised by validation), never a runtime fault.  (This is what connects
`Router.run`, which maps every error to "unchanged", to the Go state.) -/
theorem C05_router_step_exact (cfg : RouterCfg) (r0 : Router) (hnew : Router.new cfg = some r0)
    (ops : List ROp) (hops : ∀ op ∈ ops, P18.ROp.wf op = true) (op : ROp) :
    match op with
    | .handle p h m methods =>
        (r0.run ops).handle p h m methods = .ok ((r0.run ops).step op) ∨
          ∃ e, (r0.run ops).handle p h m methods = .error e ∧ HandleErr e ∧ (r0.run ops).step op = r0.run ops
    | .remove p methods => (r0.run ops).remove p methods = .ok ((r0.run ops).step op)
    | .clean pre => (r0.run ops).clean pre = .ok ((r0.run ops).step op)
    | .use _ => True := by
  have hr := router_reachWf hnew hops
  cases op with
  | handle p h m methods =>
    simp only [Router.step]
    rcases handle_total_of_reachWf _ hr p h m methods with ⟨r', h1⟩ | ⟨e, h1, hc⟩
    · rw [h1]; exact .inl rfl
    · rw [h1]; exact .inr ⟨e, rfl, hc, rfl⟩
  | remove p methods =>
    simp only [Router.step]
    obtain ⟨r', h1⟩ := remove_total_of_reachWf _ hr p methods
    rw [h1]
  | clean pre =>
    simp only [Router.step]
    obtain ⟨r', h1⟩ := clean_total_of_reachWf _ hr pre
    rw [h1]
  | use m => trivial

/-! ## Façades (`Prefix`, `Resource`) -/

/-- **C05_facade_total**: the same through ANY façade value `fa` (a `Prefix`/`Resource` obtained by any chain of
`Router.Prefix/Resource`, `Prefix.Prefix/Resource`: a pattern prefix and a middleware list — both arbitrary here):
`Prefix.Handle`/`Resource.Handle` succeed or answer a `HandleErr` value; `Prefix.Remove`, `Prefix.Clean`,
`Resource.Clean` succeed.  Same hypotheses as `C05_router_total`. -/
theorem C05_facade_total (cfg : RouterCfg) (r0 : Router) (hnew : Router.new cfg = some r0)
    (ops : List ROp) (hops : ∀ op ∈ ops, P18.ROp.wf op = true) (fa : Facade)
    (p : Bytes) (h : Nat) (m : List Nat) (methods : List Bytes) :
    ((∃ r', fa.handle (r0.run ops) p h m methods = .ok r') ∨
       ∃ e, fa.handle (r0.run ops) p h m methods = .error e ∧ HandleErr e) ∧
    (∃ r', fa.remove (r0.run ops) p methods = .ok r') ∧
    (∃ r', fa.prefixClean (r0.run ops) = .ok r') ∧ (∃ r', fa.resourceClean (r0.run ops) = .ok r') :=
  have hr := router_reachWf hnew hops
  ⟨handle_total_of_reachWf _ hr _ h _ methods, remove_total_of_reachWf _ hr _ methods,
   clean_total_of_reachWf _ hr _, remove_total_of_reachWf _ hr _ []⟩

/-- The `≠ .fault` form of `C05_facade_total` (the statement proposed by the audit). -/
theorem C05_facade_no_fault (cfg : RouterCfg) (r0 : Router) (hnew : Router.new cfg = some r0)
    (ops : List ROp) (hops : ∀ op ∈ ops, P18.ROp.wf op = true) (fa : Facade)
    (p : Bytes) (h : Nat) (m : List Nat) (methods : List Bytes) (k : Nat) :
    fa.handle (r0.run ops) p h m methods ≠ .error (.fault k) ∧ fa.remove (r0.run ops) p methods ≠ .error (.fault k) ∧
    fa.prefixClean (r0.run ops) ≠ .error (.fault k) ∧ fa.resourceClean (r0.run ops) ≠ .error (.fault k) := by
  obtain ⟨h1, ⟨r2, h2⟩, ⟨r3, h3⟩, ⟨r4, h4⟩⟩ := C05_facade_total cfg r0 hnew ops hops fa p h m methods
  refine ⟨?_, by rw [h2]; simp, by rw [h3]; simp, by rw [h4]; simp⟩
  rcases h1 with ⟨r1, h1⟩ | ⟨e, h1, hc⟩
  · rw [h1]; simp
  · rw [h1]
    intro heq
    have : e = .fault k := by simpa using heq
    subst this
    have := handleErr_not_fault hc
    simp [Err.isFault] at this

/-! ### Façade PROGRAMS: histories whose steps go through façades

A façade step is a router step on the concatenated pattern, so a history of façade operations is a router history;
its registered patterns are `fa.pattern ++ p`. -/

/-- One operation issued through a façade (`none` = directly on the router). -/
inductive FOp where
  | direct (op : ROp)
  | handle (fa : Facade) (p : Bytes) (h : Nat) (m : List Nat) (methods : List Bytes)
  | remove (fa : Facade) (p : Bytes) (methods : List Bytes)
  | prefixClean (fa : Facade)
  | resourceClean (fa : Facade)

/-- The router operation a façade operation amounts to. -/
def FOp.toROp : FOp → ROp
  | .direct op => op
  | .handle fa p h m methods => .handle (fa.pattern ++ p) h (m ++ fa.ms) methods
  | .remove fa p methods => .remove (fa.pattern ++ p) methods
  | .prefixClean fa => .clean fa.pattern
  | .resourceClean fa => .remove fa.pattern []

/-- The step of a façade program (a failing operation leaves the router as it was, as in `Router.step`). -/
def FOp.step (r : Router) : FOp → Router
  | .direct op => r.step op
  | .handle fa p h m methods => match fa.handle r p h m methods with
    | .ok r' => r'
    | .error _ => r
  | .remove fa p methods => match fa.remove r p methods with
    | .ok r' => r'
    | .error _ => r
  | .prefixClean fa => match fa.prefixClean r with
    | .ok r' => r'
    | .error _ => r
  | .resourceClean fa => match fa.resourceClean r with
    | .ok r' => r'
    | .error _ => r

theorem FOp.step_eq (r : Router) (op : FOp) : FOp.step r op = r.step op.toROp := by
  cases op <;> rfl

theorem FOp.run_eq (r : Router) (prog : List FOp) : prog.foldl FOp.step r = r.run (prog.map FOp.toROp) := by
  unfold Router.run
  induction prog generalizing r with
  | nil => rfl
  | cons op prog ih => simp only [List.foldl_cons, List.map_cons]; rw [FOp.step_eq]; exact ih _

/-- **C05_facade_program_total**: `C05_router_total`/`C05_facade_total` for routers reached by façade PROGRAMS:
any mixture of direct operations and operations through `Prefix`/`Resource` values, provided each registered FULL
pattern (`fa.pattern ++ p`) passes the brace check. -/
theorem C05_facade_program_total (cfg : RouterCfg) (r0 : Router) (hnew : Router.new cfg = some r0)
    (prog : List FOp) (hprog : ∀ op ∈ prog, P18.ROp.wf op.toROp = true) (fa : Facade)
    (p : Bytes) (h : Nat) (m : List Nat) (methods : List Bytes) :
    let r := prog.foldl FOp.step r0
    ((∃ r', fa.handle r p h m methods = .ok r') ∨ ∃ e, fa.handle r p h m methods = .error e ∧ HandleErr e) ∧
    (∃ r', fa.remove r p methods = .ok r') ∧
    (∃ r', fa.prefixClean r = .ok r') ∧ (∃ r', fa.resourceClean r = .ok r') := by
  intro r
  have : r = r0.run (prog.map FOp.toROp) := FOp.run_eq r0 prog
  rw [this]
  refine C05_facade_total cfg r0 hnew _ ?_ fa p h m methods
  intro op hop
  obtain ⟨fop, hf, rfl⟩ := List.mem_map.1 hop
  exact hprog fop hf

/-! ## `Router.ServeHTTP` with quiet user code -/

/-- A base that can be called (`Handler.script` is defined): neither the nil handler nor the `Hosts` placeholder. -/
def Callable (b : Base) : Prop := b ≠ .nil ∧ b ≠ .hostEmpty

theorem callable_script {h : Handler} (hb : Callable h.base) (scripts : Scripts) (allow : Bytes) :
    ∃ acts, h.script scripts allow = some acts := by
  unfold Handler.script
  obtain ⟨h1, h2⟩ := hb
  cases hbase : h.base <;> simp_all

/-- Every handler stored in the tree of a router made by `NewRouter` with a callable `notFound` is callable, after
ANY history. -/
theorem router_vals {cfg : RouterCfg} {r0 : Router} (hnew : Router.new cfg = some r0)
    (hnf : Callable cfg.notFoundBase) (ops : List ROp) : TreeVals Callable (r0.run ops).tree := by
  have h0 : TreeVals Callable r0.tree := by
    unfold Router.new at hnew
    split at hnew
    · cases hnew
    · cases hnew
      refine vals_new _ _ _ _ _ _ hnf ?_ ⟨by simp, by simp⟩ ⟨by simp, by simp⟩
      intro h hh
      split at hh
      · cases hh; exact ⟨by simp, by simp⟩
      · cases hh
  clear hnew
  unfold Router.run
  induction ops generalizing r0 with
  | nil => exact h0
  | cons op ops ih =>
    refine ih (r0 := r0.step op) ?_
    rw [P18.step_tree_eq]
    refine vals_step h0 _ ?_
    cases op <;> simp [P18.topOf, TOp.BasesOk, Callable]

/-- Calling a callable handler when no user code panics returns normally. -/
theorem runCall_quiet (scripts : Scripts) (c : Call) (hb : Callable c.handler.base) :
    ∃ rec, runCall {} scripts c = .ok rec := by
  have h1 : (c.handler.wraps.reverse.filterMap (fun w => lookupNat ({} : PanicCfg).mws w.mw)) = [] :=
    List.filterMap_eq_nil_iff.2 (fun _ _ => rfl)
  unfold runCall
  rw [h1]
  simp only [List.head?_nil]
  split
  · rename_i v hv
    exfalso
    revert hv
    cases c.handler.base <;> simp [lookupNat]
  · split
    · rename_i hnone
      obtain ⟨acts', hacts'⟩ := callable_script hb scripts _
      rw [hacts'] at hnone
      cases hnone
    · exact ⟨_, rfl⟩

/-- **C05_serveHTTP_quiet** (clause "`Router.ServeHTTP` does not panic when the user's handlers do not", at the
level of the complete `ServeHTTP`).  Router made by `NewRouter(cfg)` with a callable not-found handler (`hnf`: the
`notFound` argument is a real handler — `NewRouter` is always called with one), ANY history `ops` (no condition), ANY
request `req` (method bytes, path bytes — empty, `*`, non-UTF-8 —, host, headers all arbitrary), ANY incoming
parameters, no user code panics (`pc = {}`), any handler scripts.  Then `ServeHTTP`
 * selects a handler `c` that is callable (not nil) and returns NORMALLY with a response record, or
 * the request lies outside the modelled regexp domain (`.unsupported`: a regexp segment with a wide class met a
   non-ASCII path; excluded for ASCII paths by `C05_serveHTTP_quiet_ascii`, `C05ascii.lean`).
In particular the outcome is never a recovered or escaped panic, so no runtime fault occurred.
(`Router.run` maps a failing operation to "router unchanged"; for histories whose registered patterns pass the brace
check `C05_router_step_exact` shows that no step hides a runtime fault, so there `r0.run ops` IS the Go state.) -/
theorem C05_serveHTTP_quiet (cfg : RouterCfg) (r0 : Router) (hnew : Router.new cfg = some r0)
    (hnf : cfg.notFoundBase ≠ .nil ∧ cfg.notFoundBase ≠ .hostEmpty) (ops : List ROp)
    (env : Env) (scripts : Scripts) (req : Req) (ps : Params) :
    (∃ c rec, (r0.run ops).serveHTTP env {} scripts req ps = (some c, .normal rec) ∧
        (r0.run ops).serveContext env req ps = .call c ∧ Callable c.handler.base) ∨
    ((r0.run ops).serveHTTP env {} scripts req ps = (none, .unsupported) ∧
        (r0.run ops).serveContext env req ps = .unsupported) := by
  have hreach : (r0.run ops).Reach := ⟨cfg, r0, ops, hnew, rfl⟩
  have hvals := router_vals hnew hnf ops
  unfold Router.serveHTTP
  rcases C05_serve_answer hreach.tree env req.path ps req.method with ⟨f, hf, hspec⟩ | hu
  · left
    have hb : Callable f.handler.base := hspec.base hvals
    obtain ⟨c, hsc, hch, hcn⟩ : ∃ c, (r0.run ops).serveContext env req ps = .call c ∧ c.handler = f.handler ∧
        c.node = f.node := by
      unfold Router.serveContext; rw [hf]; exact ⟨_, rfl, rfl, rfl⟩
    rw [hsc]
    rw [← hch] at hb
    obtain ⟨rec, hrec⟩ := runCall_quiet scripts c hb
    refine ⟨c, rec, ?_, rfl, hb⟩
    simp only [ServeRes.finish, hrec, withRecover]
  · right
    have hsc : (r0.run ops).serveContext env req ps = .unsupported := by
      unfold Router.serveContext; rw [hu]
    rw [hsc]; exact ⟨rfl, rfl⟩

/-- Corollaries of `C05_serveHTTP_quiet` in the negative form: no fault outcome, no escaping or recovered panic, and
the selected handler is never nil. -/
theorem C05_serveHTTP_no_fault (cfg : RouterCfg) (r0 : Router) (hnew : Router.new cfg = some r0)
    (hnf : cfg.notFoundBase ≠ .nil ∧ cfg.notFoundBase ≠ .hostEmpty) (ops : List ROp)
    (env : Env) (scripts : Scripts) (req : Req) (ps : Params) :
    (∀ v, ((r0.run ops).serveHTTP env {} scripts req ps).2 ≠ .panicked v) ∧
    (∀ v rec, ((r0.run ops).serveHTTP env {} scripts req ps).2 ≠ .recovered v rec) ∧
    (∀ s rc, (r0.run ops).serveContext env req ps ≠ .fault s rc) ∧
    (∀ c, ((r0.run ops).serveHTTP env {} scripts req ps).1 = some c → c.handler.base ≠ .nil ∧ c.handler.base ≠ .hostEmpty) := by
  rcases C05_serveHTTP_quiet cfg r0 hnew hnf ops env scripts req ps with ⟨c, rec, h1, h2, h3⟩ | ⟨h1, h2⟩
  · rw [h1, h2]
    refine ⟨by simp, by simp, by simp, ?_⟩
    intro c' hc'
    cases hc'; exact h3
  · rw [h1, h2]
    exact ⟨by simp, by simp, by simp, by simp⟩

/-! ## Non-vacuity -/

/-- A concrete history: `Handle("/u/{id}", GET)`, `Handle("/u/{id}/x", GET)`, `Use`, `Remove`, `Clean`. -/
def exHist : List ROp :=
  [.handle [47, 117, 47, 123, 105, 100, 125] 1 [] [mGET],
   .handle [47, 117, 47, 123, 105, 100, 125, 47, 120] 2 [7] [mGET],
   .use [3], .remove [47, 117, 47, 123, 105, 100, 125, 47, 120] [], .clean [47, 117]]

/-- A concrete façade program: the `Prefix("/u")` of the router registers `/{id}` (full pattern `/u/{id}`). -/
def exProg : List FOp :=
  [.handle { pattern := [47, 117], ms := [4] } [47, 123, 105, 100, 125] 1 [] [mGET], .prefixClean { pattern := [47, 117], ms := [4] }]

-- the hypotheses of `C05_router_total` / `C05_facade_total` / `C05_facade_program_total` are satisfiable
example : Router.new { name := [114] } = some
    { tree := Tree.new [114] [] { base := .notFound } none } := rfl
example : ∀ op ∈ exHist, P18.ROp.wf op = true := by decide
example : ∀ op ∈ exProg, P18.ROp.wf op.toROp = true := by decide
example : ({ name := [114] } : RouterCfg).notFoundBase ≠ .nil ∧ ({ name := [114] } : RouterCfg).notFoundBase ≠ .hostEmpty := by
  decide
-- and the conclusions are about arbitrary (also ill-formed) arguments: `/{a{}}y` on the router after `exHist`
example (r0 : Router) (hnew : Router.new { name := [114] } = some r0) (k : Nat) :
    (r0.run exHist).handle [47, 123, 97, 123, 125, 125, 121] 1 [] [mGET] ≠ .error (.fault k) :=
  (C05_router_no_fault _ r0 hnew exHist (by decide) _ _ _ _ k).1
-- the first alternative of `C05_serveHTTP_quiet` is what happens on a concrete table (`GET /posts/{id}` ↦ handler 1,
-- script "WriteHeader(201)"): handler 1 is called with `id = 5` and the response has status 201
example : (match ({ tree := exTree } : Router).serveHTTP ⟨fun _ _ => true⟩ {} [(1, [.writeHeader 201])]
      { method := mGET, path := bytesOfString "/posts/5" } [] with
    | (some c, .normal rec) => (c.handler.base, c.params, rec.code)
    | _ => (.nil, [], none)) = (.user 1, [(bytesOfString "id", [53])], some 201) := by decide +kernel

end Mux.C05
