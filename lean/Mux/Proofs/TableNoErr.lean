/-
  Mux.Proofs.TableNoErr — on a tree with the invariant `TInv`, `Tree.remove` and `Tree.clean` never
  fail (no index fault, no out-of-range path).
-/
import Mux.Proofs.TableTree
namespace Mux.P11
open Mux

theorem buildIndexesLoop_ok (cs : List Node) (h : ∀ c ∈ cs, c.seg.value ≠ []) :
    ∀ (i : Nat) (acc : List (UInt8 × Nat)), ∃ idx, buildIndexesLoop cs i acc = .ok idx := by
  induction cs with
  | nil => intro i acc; exact ⟨acc, rfl⟩
  | cons c cs ih =>
    intro i acc
    have ih' := ih (fun d hd => h d (by simp [hd]))
    simp only [buildIndexesLoop]
    split
    · cases hv : c.seg.value with
      | nil => exact absurd hv (h c (by simp))
      | cons b r => exact ih' _ _
    · exact ih' _ _

theorem buildIndexes_ok (cs : List Node) (h : ∀ c ∈ cs, c.seg.value ≠ []) :
    ∃ idx, buildIndexes cs = .ok idx := by
  unfold buildIndexes
  split
  · exact ⟨[], rfl⟩
  · exact buildIndexesLoop_ok cs h 0 []

theorem ShL.values_ne {ic : Interceptors} {pp : Bytes} {cs : List Node} (h : ShL ic pp cs) :
    ∀ c ∈ cs, c.seg.value ≠ [] := fun c hc => (h.1 c hc).1.ne_nil

theorem removeAt_noerr (ic : Interceptors) (f : Node → Node) (hf : KeepsShape f) :
    ∀ (path : List Nat) (n x : Node), Node.All (Sh ic) n → n.getAt path = some x →
      ∃ n', n.removeAt f path = .ok n' := by
  intro path
  induction path with
  | nil => intro n x _ _; cases n; exact ⟨_, rfl⟩
  | cons i path ih =>
    have hL : ∀ (cs : List Node) (k : Nat) (pp : Bytes) (x : Node), ShL ic pp cs → AllL (Sh ic) cs →
        getAtL cs k path = some x → ∃ r, removeAtL f cs k path = .ok r := by
      intro cs
      induction cs with
      | nil => intro k pp x _ _ hx; simp [getAtL] at hx
      | cons c cs ihc =>
        intro k pp x hsh hall hx
        obtain ⟨_, _, hsho⟩ := ShL_cons.1 hsh
        rw [AllL_cons_iff] at hall
        cases k with
        | zero =>
          rw [getAtL_cons_zero] at hx
          obtain ⟨c', hc'⟩ := ih c x hall.1 hx
          simp only [removeAtL, bind, Except.bind, hc', pure, Except.pure]
          split <;> exact ⟨_, rfl⟩
        | succ k =>
          rw [getAtL_cons_succ] at hx
          obtain ⟨r, hr⟩ := ihc k pp x hsho hall.2 hx
          simp only [removeAtL, bind, Except.bind, hr, pure, Except.pure]
          exact ⟨_, rfl⟩
    intro n x hn hx
    cases n with
    | mk s p mi hs idx cs =>
      simp only [Node.getAt] at hx
      obtain ⟨r, hr⟩ := hL cs i p x hn.1 hn.2 hx
      obtain ⟨h1, _⟩ := removeAtL_aux ic f path (removeAt_sh ic f hf path) cs r.1 r.2 i p x hn.1 hn.2 hx hr
      simp only [Node.removeAt, bind, Except.bind, hr, pure, Except.pure]
      split
      · obtain ⟨idx', hidx'⟩ := buildIndexes_ok r.1 h1.values_ne
        rw [hidx']; exact ⟨_, rfl⟩
      · exact ⟨_, rfl⟩

theorem clean_noerr (ic : Interceptors) :
    ∀ (n : Node), Node.All (Sh ic) n → ∀ pre, ∃ n', n.clean pre = .ok n' := by
  intro n
  induction n using Node.rec (motive_2 := fun cs => ∀ pp, ShL ic pp cs → AllL (Sh ic) cs → ∀ pre,
      ∃ cs1, cleanL cs pre = .ok cs1 ∧ ∀ c1 ∈ cs1, c1.seg.value ≠ []) with
  | mk s p mi hs idx cs ih =>
    intro hn pre
    simp only [Node.clean]
    split
    · exact ⟨_, rfl⟩
    · obtain ⟨cs1, hcs1, hne⟩ := ih p hn.1 hn.2 pre
      simp only [bind, Except.bind, hcs1, pure, Except.pure]
      have hsub := foldl_removeNodes_filter (fun v => hasPrefix v pre) cs1
      obtain ⟨idx', hidx'⟩ := buildIndexes_ok
        (((cs1.filter (fun c => hasPrefix c.seg.value pre)).map (·.seg.value)).foldl removeNodes cs1)
        (by rw [hsub]; exact fun c hc => hne c (List.mem_filter.1 hc).1)
      rw [hidx']; exact ⟨_, rfl⟩
  | nil => rename_i pp _ _ pre; exact ⟨[], rfl, by simp⟩
  | cons c cs ih1 ih2 =>
    rename_i pp hsh hall pre
    obtain ⟨hco, _, hsho⟩ := ShL_cons.1 hsh
    rw [AllL_cons_iff] at hall
    obtain ⟨cs2, hcs2, hne2⟩ := ih2 pp hsho hall.2 pre
    simp only [cleanL, bind, Except.bind, pure, Except.pure]
    by_cases hcond : c.seg.value.length < pre.length ∧ hasPrefix pre c.seg.value = true
    · simp only [hcond, and_self, if_true]
      obtain ⟨c', hc'⟩ := ih1 hall.1 (pre.drop c.seg.value.length)
      obtain ⟨top, _⟩ := clean_sh ic c hall.1 _ c' hc'
      simp only [hc', hcs2]
      refine ⟨_, rfl, ?_⟩
      intro c1 hc1
      rcases List.mem_cons.1 hc1 with rfl | hc1
      · rw [top.seg]; exact hco.1.ne_nil
      · exact hne2 c1 hc1
    · simp only [hcond, if_false, hcs2]
      refine ⟨_, rfl, ?_⟩
      intro c1 hc1
      rcases List.mem_cons.1 hc1 with rfl | hc1
      · exact hco.1.ne_nil
      · exact hne2 c1 hc1

theorem remove_no_error {t : Tree} (hinv : TInv t) (p : Bytes) (methods : List Bytes) (e : Err) :
    t.remove p methods ≠ .error e := by
  unfold Tree.remove
  split
  · simp
  · rename_i path hpath
    obtain ⟨x, hx, _, _⟩ := findPath_sound t.ic t.root hinv.sh p path hpath
    obtain ⟨n', hn'⟩ := removeAt_noerr t.ic _ (removeMethods_keeps t.hasTrace methods) path t.root x hinv.sh hx
    simp [bind, Except.bind, hn', pure, Except.pure]

theorem clean_no_error {t : Tree} (hinv : TInv t) (pre : Bytes) (e : Err) : t.clean pre ≠ .error e := by
  unfold Tree.clean
  obtain ⟨n', hn'⟩ := clean_noerr t.ic t.root hinv.sh pre
  simp [bind, Except.bind, hn', pure, Except.pure]

end Mux.P11
