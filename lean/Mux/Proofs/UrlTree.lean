/-
  Mux.Proofs.UrlTree — strict URL building and its inverse on reachable trees (`ReachWf`): `Tree.url`
  succeeds exactly on live routes whose chain parameters all have valid values, every error is
  characterised, and building from the parameters captured along a chain reproduces the path.
-/
import Mux.Proofs.UrlInverse
namespace Mux.P13
open Mux Mux.P9

/-! ## What a reachable tree provides -/

theorem reach_tinv {t : Tree} (hr : ReachWf t) : Mux.P11.TInv t := by
  obtain ⟨tb, hs⟩ := reachWf_sim hr
  exact hs.inv

theorem reach_uniqHyp {t : Tree} (hr : ReachWf t) : UniqHyp t.root := by
  have hinv := reach_tinv hr
  refine ⟨Mux.P11.patternOk_of_sh _ _ hinv.sh, valsNonEmpty_of_wf hr.wf, ?_⟩
  exact List.Pairwise.of_map (·.pattern) (fun a b h e => h (congrArg _ e)) (Mux.P11.patterns_nodup _ _ hinv.sh)

/-- Every segment on a chain of a reachable tree re-parses from its own well-formed text. -/
theorem reach_chain_segOk {t : Tree} (hr : ReachWf t) {n : Node} {segs : List Seg} (hc : Chain t.root segs n) :
    ∀ s ∈ segs, SegOk t.ic s := by
  intro s hs
  obtain ⟨c, hc', rfl⟩ := chain_forall hc (reach_segOk hr) s hs
  exact hc'

/-- The node at the end of a chain from the root has the chain's text as its pattern. -/
theorem reach_chain_pattern {t : Tree} (hr : ReachWf t) {n : Node} {segs : List Seg} (hc : Chain t.root segs n) :
    n.pattern = (segs.map (·.value)).flatten := by
  have hinv := reach_tinv hr
  have := (chain_pattern hc (Mux.P11.patternOk_of_sh _ _ hinv.sh)).1
  rwa [hinv.rootPat, List.nil_append] at this

/-- `find` on a reachable tree: it returns the index path of THE node with that pattern, together with
its (unique) chain. -/
theorem reach_findPath {t : Tree} (hr : ReachWf t) {pattern : Bytes} {p : List Nat}
    (hf : t.root.findPath pattern = some p) :
    ∃ n segs, t.root.getAt p = some n ∧ t.root.segsAt p = some segs ∧ Chain t.root segs n ∧
      n ∈ nodesL t.root.children ∧ n.pattern = pattern := by
  have hinv := reach_tinv hr
  obtain ⟨x, hx, hxp, hne⟩ := Mux.P11.findPath_sound t.ic t.root hinv.sh pattern p hf
  rw [hinv.rootPat, List.nil_append] at hxp
  obtain ⟨segs, h1, h2, _⟩ := getAt_chain p t.root x hx
  cases p with
  | nil => exact absurd rfl hne
  | cons i p => exact ⟨x, segs, hx, h1, h2, Mux.P11.getAt_mem_below hx, hxp⟩

theorem reach_findPath_of_node {t : Tree} (hr : ReachWf t) {n : Node} {segs : List Seg}
    (hn : n ∈ nodesL t.root.children) (hc : Chain t.root segs n) :
    ∃ p, t.root.findPath n.pattern = some p ∧ t.root.getAt p = some n ∧ t.root.segsAt p = some segs := by
  have hinv := reach_tinv hr
  have hsome := Mux.P11.findPath_complete t.ic t.root hinv.sh n.pattern
    ⟨n, hn, by rw [hinv.rootPat]; rfl⟩
  cases hf : t.root.findPath n.pattern with
  | none => rw [hf] at hsome; cases hsome
  | some p =>
    obtain ⟨x, segs', h1, h2, h3, h4, h5⟩ := reach_findPath hr hf
    have hxn : x = n := Mux.P11.node_unique hinv.sh h4 hn h5
    subst hxn
    have := chain_unique h3 hc (reach_uniqHyp hr)
    subst this
    exact ⟨p, rfl, h1, h2⟩

/-- A node below the root with handlers is an entry of the table read off the tree, and conversely. -/
theorem mem_tableOf_patterns {t : Tree} {p : Bytes} :
    p ∈ (tableOf t).patterns ↔ ∃ n ∈ nodesL t.root.children, n.pattern = p ∧ n.handlers ≠ [] := by
  rw [Mux.P11.tableOf_patterns]
  simp only [List.mem_map]
  constructor
  · rintro ⟨e, he, rfl⟩
    obtain ⟨n, hn, hne, rfl⟩ := Mux.P11.mem_liveL.1 he
    exact ⟨n, hn, rfl, hne⟩
  · rintro ⟨n, hn, rfl, hne⟩
    exact ⟨(n.pattern, n.handlers), Mux.P11.mem_liveL.2 ⟨n, hn, hne, rfl⟩, rfl⟩

/-! ## Strict building on a reachable tree -/

/-- **`Tree.URL` succeeds exactly on live routes with valid values.** `pattern` is the pattern of a node
below the root that has handlers; every parameter segment on the node's chain has a value that passes
`Segment.Valid`; and the result is the non-strict loop over the chain. -/
theorem Tree.url_ok_iff_reach {t : Tree} (hr : ReachWf t) (env : Env) (pattern : Bytes) (ps : AMap Bytes) (u : Bytes) :
    t.url env pattern ps = .ok u ↔
      ∃ n segs, n ∈ nodesL t.root.children ∧ n.pattern = pattern ∧ n.handlers ≠ [] ∧ Chain t.root segs n ∧
        AllValid env t.ic ps segs ∧ urlLoop ps segs = .ok u := by
  rw [Tree.url_ok_iff]
  constructor
  · rintro ⟨p, n, segs, h1, h2, h3, h4, h5, h6⟩
    obtain ⟨n', segs', g1, g2, _, g4, g5⟩ := reach_findPath hr h1
    rw [h2] at g1; cases g1
    rw [h3] at g2; cases g2
    obtain ⟨a, b⟩ := (strictUrlLoop_ok_iff _ _ _ _ _).1 h6
    exact ⟨n, segs, g4, g5, h5, h4, a, b⟩
  · rintro ⟨n, segs, h1, rfl, h3, h4, h5, h6⟩
    obtain ⟨p, g1, g2, g3⟩ := reach_findPath_of_node hr h1 h4
    exact ⟨p, n, segs, g1, g2, g3, h4, h3, (strictUrlLoop_ok_iff _ _ _ _ _).2 ⟨h5, h6⟩⟩

/-- `notRoute` iff no node below the root with that pattern has handlers — i.e. iff the pattern is not in
the table read off the tree. -/
theorem Tree.url_notRoute_iff_reach {t : Tree} (hr : ReachWf t) (env : Env) (pattern : Bytes) (ps : AMap Bytes) :
    t.url env pattern ps = .error .notRoute ↔ pattern ∉ (tableOf t).patterns := by
  have hinv := reach_tinv hr
  rw [Tree.url_error_iff, mem_tableOf_patterns]
  constructor
  · rintro (⟨_, hnone | ⟨p, n, h1, h2, h3⟩⟩ | ⟨p, n, segs, _, _, _, _, _, pre, s, post, _, _, _, hbad⟩)
    · rintro ⟨n, hn, hp, _⟩
      have := Mux.P11.findPath_complete t.ic t.root hinv.sh pattern ⟨n, hn, by rw [hinv.rootPat]; exact hp⟩
      rw [hnone] at this; cases this
    · rintro ⟨m, hm, hp, hne⟩
      obtain ⟨n', _, g1, _, _, g4, g5⟩ := reach_findPath hr h1
      rw [h2] at g1; cases g1
      have := Mux.P11.node_unique hinv.sh hm g4 (hp.trans g5.symm)
      subst this
      exact hne h3
    · rcases hbad with ⟨_, h⟩ | ⟨_, _, ⟨_, h⟩ | ⟨_, h⟩⟩ <;> cases h
  · intro hno
    left
    refine ⟨rfl, ?_⟩
    cases hf : t.root.findPath pattern with
    | none => exact .inl rfl
    | some p =>
      right
      obtain ⟨n, _, g1, _, _, g4, g5⟩ := reach_findPath hr hf
      refine ⟨p, n, rfl, g1, ?_⟩
      apply Classical.not_not.1
      intro hne
      exact hno ⟨n, g4, g5, hne⟩

/-- Every other error: the pattern is a live route and the strict loop stopped at the first parameter
segment of the node's chain without a valid value. -/
theorem Tree.url_error_iff_reach {t : Tree} (hr : ReachWf t) (env : Env) (pattern : Bytes) (ps : AMap Bytes) (e : Err)
    (hne : e ≠ .notRoute) :
    t.url env pattern ps = .error e ↔
      ∃ n segs, n ∈ nodesL t.root.children ∧ n.pattern = pattern ∧ n.handlers ≠ [] ∧ Chain t.root segs n ∧
        FirstBad env t.ic ps segs e := by
  rw [Tree.url_error_iff]
  constructor
  · rintro (⟨h, _⟩ | ⟨p, n, segs, h1, h2, h3, h4, h5, h6⟩)
    · exact absurd h hne
    · obtain ⟨n', segs', g1, g2, _, g4, g5⟩ := reach_findPath hr h1
      rw [h2] at g1; cases g1
      exact ⟨n, segs, g4, g5, h5, h4, h6⟩
  · rintro ⟨n, segs, h1, rfl, h3, h4, h5⟩
    obtain ⟨p, g1, g2, g3⟩ := reach_findPath_of_node hr h1 h4
    exact .inr ⟨p, n, segs, g1, g2, g3, h4, h3, h5⟩

/-- The errors of `Tree.URL` are `notRoute`, `missingParam`, `badValue`, `unsupported`; never a fault. -/
theorem Tree.url_errors (env : Env) (t : Tree) (pattern : Bytes) (ps : AMap Bytes) (e : Err)
    (h : t.url env pattern ps = .error e) :
    e = .notRoute ∨ e = .missingParam ∨ e = .badValue ∨ e = .unsupported := by
  rcases (Tree.url_error_iff _ _ _ _ _).1 h with ⟨h, _⟩ | ⟨_, _, _, _, _, _, _, _, _, _, _, _, _, _, hbad⟩
  · exact .inl h
  · rcases hbad with ⟨_, h⟩ | ⟨_, _, ⟨_, h⟩ | ⟨_, h⟩⟩
    · exact .inr (.inl h)
    · exact .inr (.inr (.inl h))
    · exact .inr (.inr (.inr h))

/-! ## `unsupported` on a reachable tree -/

theorem newSegment_rx_ascii {ic : Interceptors} {v : Bytes} {s : Seg} (h : newSegment ic v = .ok s)
    (hk : s.kind = .rx) : isAscii s.suffix = true := by
  have hlen := newSegment_len h
  rw [newSegment_closed, if_neg (by omega)] at h
  have named : ∀ st en hi, (mkNamed v st en hi).kind ≠ .rx := by intro st en hi; simp [mkNamed]
  have ruled : ∀ st en sp, finishRuled ic v st en sp = .ok s → isAscii s.suffix = true := by
    intro st en sp h'
    unfold finishRuled at h'
    simp only [] at h'
    split at h'
    · cases h'; cases hk
    · split at h'
      · cases h'
      · rename_i hasc
        split at h'
        · cases h'
        · cases h'; simpa using hasc
  split at h
  · split at h
    · split at h
      · cases h
      · cases h; exact absurd hk (named _ _ _)
    · split at h
      · cases h
      split at h
      · cases h; exact absurd hk (named _ _ _)
      split at h
      · cases h; exact absurd hk (named _ _ _)
      split at h
      · cases h
      · exact ruled _ _ _ h
  · cases h; cases hk

/-- On a segment that `NewSegment` produced, `Valid` cannot judge exactly: a regexp segment whose rule
has a wide class (`.` or a negated class), given a non-ASCII value. -/
theorem valid_none_iff_segOk {env : Env} {ic : Interceptors} {s : Seg} (hs : SegOk ic s) (v : Bytes) :
    s.valid env ic v = none ↔ s.kind = .rx ∧ s.re.wide = true ∧ isAscii v = false := by
  rw [valid_none_iff]
  constructor
  · rintro ⟨hk, h | h⟩
    · exact ⟨hk, h⟩
    · rw [newSegment_rx_ascii hs.seg hk] at h; cases h
  · rintro ⟨hk, h⟩
    exact ⟨hk, .inl h⟩

/-! ## The inverse on a reachable tree -/

/-- The chain that dispatch reports on a reachable tree satisfies the hypotheses of `urlLoop_captures`,
provided none of its parameters is ignored. -/
theorem reach_chainOk {t : Tree} (hr : ReachWf t) {n : Node} {chain : List (Seg × Bytes)}
    (hc : Chain t.root (chain.map (·.1)) n)
    (hign : ∀ s ∈ chain.map (·.1), s.kind ≠ .str → s.ignoreName = false) : ChainOk t.ic chain := by
  refine ⟨?_, reach_chainNames hr hc, ?_⟩
  · intro sv hsv
    exact reach_chain_segOk hr hc sv.1 (List.mem_map_of_mem (f := (·.1)) hsv)
  · intro sv hsv
    exact hign sv.1 (List.mem_map_of_mem (f := (·.1)) hsv)

/-- Strict building from the captured parameters reproduces the instantiated chain, provided the
regexp captures pass `Valid`. -/
theorem reach_url_captures {t : Tree} (hr : ReachWf t) (env : Env) {n : Node} {chain : List (Seg × Bytes)}
    (hne : chain ≠ []) (hc : Chain t.root (chain.map (·.1)) n) (hh : n.handlers ≠ [])
    (hign : ∀ s ∈ chain.map (·.1), s.kind ≠ .str → s.ignoreName = false)
    (hsat : ∀ sv ∈ chain, sv.1.Satisfies env t.ic sv.2)
    (hrx : ∀ sv ∈ chain, sv.1.kind = .rx → sv.1.valid env t.ic sv.2 = some true) :
    t.url env n.pattern (captures chain) = .ok (instChain chain) := by
  have hok := reach_chainOk hr hc hign
  refine (Tree.url_ok_iff_reach hr env _ _ _).2 ⟨n, chain.map (·.1), ?_, rfl, hh, hc,
    allValid_captures chain hok hsat hrx, urlLoop_captures' chain hok⟩
  exact chain_mem_below' hc (by simpa using hne)

end Mux.P13
