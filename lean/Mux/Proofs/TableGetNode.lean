/-
  Mux.Proofs.TableGetNode — `getNode` (`addSegment`/`splitNode`) on a tree with the invariant `Sh`:
  the invariant survives, the returned path leads to a node whose pattern is the registered text,
  and the multiset of `(pattern, handlers)` entries does not change (`getNode_target`).
-/
import Mux.Proofs.TableShape
namespace Mux.P11
open Mux

/-- What `getNode ic n v rest = .ok r` guarantees (`tgt = n.pattern ++ v ++ rest.flatten`). -/
structure GPost (ic : Interceptors) (n : Node) (tgt : Bytes) (r : Node × List Nat) : Prop where
  all : Node.All (Sh ic) r.1
  seg : r.1.seg = n.seg
  pat : r.1.pattern = n.pattern
  hs : r.1.handlers = n.handlers
  path : r.2 ≠ []
  target : ∃ x, r.1.getAt r.2 = some x ∧ x.pattern = tgt
  live : (liveL r.1.children).Perm (liveL n.children)

theorem GPost.cast {ic : Interceptors} {n : Node} {tgt tgt' : Bytes} {r : Node × List Nat}
    (h : GPost ic n tgt r) (e : tgt = tgt') : GPost ic n tgt' r := e ▸ h

/-- The situation just before `getNode` descends into (or stops at) `parent`, which sits at position
`j` of the restructured node `n1`; `others` are the remaining children. -/
structure SB (ic : Interceptors) (n n1 parent : Node) (j : Nat) (others : List Node) : Prop where
  seg1 : n1.seg = n.seg
  pat1 : n1.pattern = n.pattern
  hs1 : n1.handlers = n.handlers
  hj : n1.children[j]? = some parent
  perm1 : n1.children.Perm (parent :: others)
  shl : ShL ic n.pattern (parent :: others)
  allO : AllL (Sh ic) others
  allP : Node.All (Sh ic) parent
  live : (liveL (parent :: others)).Perm (liveL n.children)

theorem AllL_cons_iff {P : Node → Prop} {c : Node} {cs : List Node} :
    AllL P (c :: cs) ↔ Node.All P c ∧ AllL P cs := by simp [AllL]

theorem SB.leaf {ic n n1 parent j others} (b : SB ic n n1 parent j others) :
    GPost ic n parent.pattern (n1, [j]) := by
  refine ⟨?_, b.seg1, b.pat1, b.hs1, by simp, ⟨parent, ?_, rfl⟩, (liveL_perm b.perm1).trans b.live⟩
  · rw [Node.All_iff]
    refine ⟨?_, (AllL_perm b.perm1).2 (AllL_cons_iff.2 ⟨b.allP, b.allO⟩)⟩
    show ShL ic n1.pattern n1.children
    rw [b.pat1]; exact (ShL_perm b.perm1).2 b.shl
  · simp [Node.getAt_cons, b.hj]

theorem ent_congr {a b : Node} (h1 : a.pattern = b.pattern) (h2 : a.handlers = b.handlers) : ent a = ent b := by
  unfold ent; rw [h1, h2]

theorem SB.descend {ic n n1 parent j others} (b : SB ic n n1 parent j others) {tgt : Bytes}
    {res : Node × List Nat} (hp : GPost ic parent tgt res) (hnc : ¬ Closed parent.seg.value) :
    GPost ic n tgt (n1.setChildren (n1.children.set j res.1) n1.indexes, j :: res.2) := by
  obtain ⟨rest0, p1, p2⟩ := set_perm b.hj
  have hro : rest0.Perm others := (p1.symm.trans b.perm1).cons_inv
  have hperm : (n1.children.set j res.1).Perm (res.1 :: others) := (p2 res.1).trans (List.Perm.cons _ hro)
  obtain ⟨hco, hkeys, hsho⟩ := ShL_cons.1 b.shl
  have hshl : ShL ic n.pattern (res.1 :: others) := by
    refine ShL_cons.2 ⟨?_, ?_, hsho⟩
    · unfold ChildOk at hco ⊢
      rw [hp.seg, hp.pat]
      exact ⟨hco.1, hco.2.1, hco.2.2.1, fun hc => absurd hc hnc⟩
    · intro d hd
      have := hkeys d hd
      unfold ckey at this ⊢
      rw [hp.seg]; exact this
  have hjl : j < n1.children.length := (List.getElem?_eq_some_iff.1 b.hj).1
  refine ⟨?_, by simpa [Node.setChildren] using b.seg1, by simpa [Node.setChildren] using b.pat1,
    by simpa [Node.setChildren] using b.hs1, by simp, ?_, ?_⟩
  · rw [Node.All_iff]
    simp only [Node.setChildren, Node.children_mk]
    refine ⟨?_, (AllL_perm hperm).2 (AllL_cons_iff.2 ⟨hp.all, b.allO⟩)⟩
    show ShL ic _ _
    simp only [Node.pattern_mk, Node.children_mk]
    rw [b.pat1]; exact (ShL_perm hperm).2 hshl
  · obtain ⟨x, hx, hxp⟩ := hp.target
    refine ⟨x, ?_, hxp⟩
    simp only [Node.getAt_cons, Node.setChildren, Node.children_mk]
    simp [hjl, hx]
  · simp only [Node.setChildren, Node.children_mk]
    refine (liveL_perm hperm).trans (List.Perm.trans ?_ b.live)
    rw [liveL_cons, liveL_cons]
    apply List.Perm.append_right
    unfold liveN
    rw [ent_congr hp.pat hp.hs]
    exact List.Perm.append_left _ hp.live

/-- The base situation when the children of `n` are not restructured. -/
theorem SB.same {ic : Interceptors} {n c : Node} {i : Nat} (hn : Node.All (Sh ic) n)
    (hc : n.children[i]? = some c) : ∃ others, SB ic n n c i others := by
  obtain ⟨others, p1, _⟩ := set_perm hc
  have ha := (AllL_perm p1).1 hn.tail
  rw [AllL_cons_iff] at ha
  exact ⟨others, rfl, rfl, rfl, hc, p1, (ShL_perm p1).1 hn.head, ha.2, ha.1, liveL_perm p1.symm⟩

theorem sortChildren_singleton (c : Node) : sortChildren [c] = [c] :=
  List.perm_singleton.1 (sortChildren_perm [c])

theorem liveN_noHandlers {n : Node} (h : n.handlers = []) : liveN n = liveL n.children := by
  unfold liveN ent; simp [h]

theorem splitAt_ok {ic : Interceptors} {s s1 s2 : Seg} {l : Nat} (hl : l ≤ s.value.length)
    (h : s.splitAt ic l = .ok (s1, s2)) :
    newSegment ic (s.value.take l) = .ok s1 ∧ newSegment ic (s.value.drop l) = .ok s2 := by
  unfold Seg.splitAt at h
  have e1 := sliceE_ok 120 s.value 0 l (by omega) hl
  have e2 := sliceE_ok 121 s.value l s.value.length hl (Nat.le_refl _)
  simp only [List.drop_zero, List.take_length] at e1 e2
  simp only [bind, Except.bind, e1, e2, pure, Except.pure] at h
  split at h
  · cases h
  rename_i a ha
  split at h
  · cases h
  rename_i b hb
  simp only [Except.ok.injEq, Prod.mk.injEq] at h
  rw [← h.1, ← h.2]
  exact ⟨ha, hb⟩


/-- The base situation after a new leaf was appended and the children were re-sorted. -/
theorem SB.ofLeaf {ic : Interceptors} {n n1 : Node} {v : Bytes} {seg : Seg} {j : Nat}
    (hn : Node.All (Sh ic) n) (hv : WfVal v) (hseg : newSegment ic v = .ok seg)
    (hscan : ∀ c ∈ n.children, c.seg.similarity seg ≠ -1 ∧ c.seg.similarity seg ≤ 0)
    (hsort : sortNode (n.setChildren (n.children ++ [newLeaf n.pattern seg]) n.indexes) = .ok n1)
    (hj : childPos n1.children v = some j) : SB ic n n1 (newLeaf n.pattern seg) j n.children := by
  have hval := newSegment_value ic v seg hseg
  obtain ⟨idx, _, rfl⟩ := sortNode_ok hsort
  simp only [Node.setChildren, Node.children_mk] at hj ⊢
  have hperm : (sortChildren (n.children ++ [newLeaf n.pattern seg])).Perm (newLeaf n.pattern seg :: n.children) :=
    (sortChildren_perm _).trans List.perm_append_comm
  have hkeys : ∀ d ∈ n.children, ckey d ≠ vkey v := fun d hd =>
    key_ne_of_sim_le (hn.head.1 d hd) hv hseg (hscan d hd).1 (hscan d hd).2
  obtain ⟨x, hx, hxv⟩ := childPos_get hj
  have hxeq : x = newLeaf n.pattern seg := by
    have hm : x ∈ newLeaf n.pattern seg :: n.children := hperm.mem_iff.1 (List.mem_of_getElem? hx)
    rcases List.mem_cons.1 hm with h | h
    · exact h
    · exact absurd (by unfold ckey; rw [hxv]) (hkeys x h)
  subst hxeq
  refine ⟨rfl, rfl, rfl, hx, hperm, ?_, hn.tail, ?_, ?_⟩
  · refine ShL_cons.2 ⟨⟨?_, ?_, ?_, fun _ => rfl⟩, ?_, hn.head⟩
    · simpa [newLeaf, hval] using hv
    · simpa [newLeaf, hval] using hseg
    · simp [newLeaf]
    · intro d hd
      have := hkeys d hd
      simpa [ckey, newLeaf, hval] using this
  · simp only [newLeaf, Node.All, AllL, and_true]
    exact ShL_nil _ _
  · rw [liveL_cons, liveN_noHandlers (by simp [newLeaf])]
    simp [newLeaf, liveL_nil]

/-- The base situation after the similar child `c` was split at `l`. -/
theorem SB.ofSplit {ic : Interceptors} {n n1 c ret : Node} {v : Bytes} {i j l : Nat} {ss : Seg × Seg}
    (hn : Node.All (Sh ic) n) (hc : n.children[i]? = some c) (L : LpPos c.seg.value v l)
    (hlt : ¬ c.seg.value.length ≤ l) (hss : c.seg.splitAt ic l = .ok ss)
    (hret : sortNode (.mk ss.1 (n.pattern ++ ss.1.value) 0 [] [] [c.setSeg ss.2]) = .ok ret)
    (hn1 : sortNode (n.setChildren (removeNodes n.children c.seg.value ++ [ret]) n.indexes) = .ok n1)
    (hj : childPos n1.children ss.1.value = some j) :
    ∃ others, SB ic n n1 ret j others ∧ ret.seg.value = c.seg.value.take l := by
  obtain ⟨others, p1, _⟩ := set_perm hc
  have hshl := (ShL_perm p1).1 hn.head
  obtain ⟨hco, hkeys, hsho⟩ := ShL_cons.1 hshl
  have ha := (AllL_perm p1).1 hn.tail
  rw [AllL_cons_iff] at ha
  obtain ⟨hs1, hs2⟩ := splitAt_ok (Nat.le_of_lt (Nat.lt_of_not_le hlt)) hss
  have hv1 := newSegment_value _ _ _ hs1
  have hv2 := newSegment_value _ _ _ hs2
  obtain ⟨idxr, _, hretdef⟩ := sortNode_ok hret
  simp only [Node.setChildren, Node.children_mk, Node.seg_mk, Node.pattern_mk, Node.methodIndex_mk,
    Node.handlers_mk, sortChildren_singleton] at hretdef
  have hrseg : ret.seg = ss.1 := by rw [hretdef]; rfl
  have hrpat : ret.pattern = n.pattern ++ ss.1.value := by rw [hretdef]; rfl
  have hrhs : ret.handlers = [] := by rw [hretdef]; rfl
  have hrcs : ret.children = [c.setSeg ss.2] := by rw [hretdef]; rfl
  clear hretdef hret
  obtain ⟨idx, _, rfl⟩ := sortNode_ok hn1
  simp only [Node.setChildren, Node.children_mk, Node.seg_mk, Node.pattern_mk, Node.methodIndex_mk,
    Node.handlers_mk] at hj ⊢
  have hretv : ret.seg.value = c.seg.value.take l := by rw [hrseg]; exact hv1
  have hrm : (removeNodes n.children c.seg.value).Perm others := removeNodes_perm_of hn.head p1
  have hperm : (sortChildren (removeNodes n.children c.seg.value ++ [ret])).Perm (ret :: others) :=
    (sortChildren_perm _).trans (List.perm_append_comm.trans (List.Perm.cons _ hrm))
  have hkeyret : ckey ret = ckey c := by unfold ckey; rw [hretv]; exact L.keyTake
  obtain ⟨x, hx, hxv⟩ := childPos_get hj
  have hxeq : x = ret := by
    have hm : x ∈ ret :: others := hperm.mem_iff.1 (List.mem_of_getElem? hx)
    rcases List.mem_cons.1 hm with h | h
    · exact h
    · refine absurd ?_ (hkeys x h)
      rw [← hkeyret]; unfold ckey; rw [hxv, hrseg]
  rw [hxeq] at hx
  have hlower : ChildOk ic ret.pattern (c.setSeg ss.2) := by
    have hne : c.seg.value.drop l ≠ [] := by
      intro e
      have := congrArg List.length e
      simp at this; omega
    refine ⟨?_, ?_, ?_, ?_⟩
    · simp only [Node.setSeg, Node.seg_mk, hv2]
      exact .inl ⟨hne, L.dropA⟩
    · simpa [Node.setSeg, hv2] using hs2
    · rw [hrpat]
      simp only [Node.setSeg, Node.seg_mk, Node.pattern_mk, hv1, hv2, List.append_assoc, List.take_append_drop]
      exact hco.2.2.1
    · intro hcl
      simp only [Node.setSeg, Node.seg_mk, hv2] at hcl
      exact absurd hcl L.dropA.not_closed
  refine ⟨others, ⟨rfl, rfl, rfl, hx, hperm, ?_, ha.2, ?_, ?_⟩, hretv⟩
  · refine ShL_cons.2 ⟨⟨?_, ?_, ?_, fun hcl => ?_⟩, ?_, hsho⟩
    · rw [hretv]; exact L.wfTake
    · rw [hrseg, hv1]; exact hs1
    · rw [hrpat, hrseg]
    · rw [hretv] at hcl; exact absurd hcl L.notClosed
    · intro d hd; rw [hkeyret]; exact hkeys d hd
  · rw [Node.All_iff]
    refine ⟨?_, ?_⟩
    · show ShL ic ret.pattern ret.children
      rw [hrcs]
      exact ShL_cons.2 ⟨hlower, by simp, ShL_nil _ _⟩
    · rw [hrcs, AllL_cons_iff]
      refine ⟨?_, AllL_nil _⟩
      rw [Node.All_iff]
      have := (Node.All_iff _ _).1 ha.1
      exact ⟨by simpa [Sh, Node.setSeg] using this.1, by simpa [Node.setSeg] using this.2⟩
  · refine List.Perm.trans ?_ (liveL_perm p1.symm)
    rw [liveL_cons, liveL_cons]
    apply List.Perm.append_right
    rw [liveN_noHandlers hrhs, hrcs, liveL_singleton]
    unfold liveN
    rw [ent_congr (a := c.setSeg ss.2) (b := c) (by simp [Node.setSeg]) (by simp [Node.setSeg])]
    simp [Node.setSeg]


/-! ## The induction over `getNode` -/

/-- The three ways the "similar child" branch continues, once the base situation is known. -/
theorem SB.tail_leaf {ic n n1 parent j others} (b : SB ic n n1 parent j others) {v : Bytes} {l : Nat}
    (hpv : parent.seg.value = v.take l) (hvl : v.length ≤ l) :
    GPost ic n (n.pattern ++ v ++ ([] : List Bytes).flatten) (n1, [j]) := by
  refine b.leaf.cast ?_
  have := (ShL_cons.1 b.shl).1.2.2.1
  rw [this, hpv, List.take_of_length_le hvl]; simp

theorem SB.tail_next {ic n n1 parent j others} (b : SB ic n n1 parent j others) {v v' : Bytes}
    {rest' : List Bytes} {l : Nat} (hpv : parent.seg.value = v.take l) (hvl : v.length ≤ l)
    (hnc : ¬ Closed parent.seg.value) {res : Node × List Nat}
    (hp : GPost ic parent (parent.pattern ++ v' ++ rest'.flatten) res) :
    GPost ic n (n.pattern ++ v ++ (v' :: rest').flatten)
      (n1.setChildren (n1.children.set j res.1) n1.indexes, j :: res.2) := by
  refine (b.descend hp hnc).cast ?_
  have := (ShL_cons.1 b.shl).1.2.2.1
  rw [this, hpv, List.take_of_length_le hvl]; simp

theorem SB.tail_drop {ic n n1 parent j others} (b : SB ic n n1 parent j others) {v : Bytes}
    {rest : List Bytes} {l : Nat} (hpv : parent.seg.value = v.take l)
    (hnc : ¬ Closed parent.seg.value) {res : Node × List Nat}
    (hp : GPost ic parent (parent.pattern ++ v.drop l ++ rest.flatten) res) :
    GPost ic n (n.pattern ++ v ++ rest.flatten)
      (n1.setChildren (n1.children.set j res.1) n1.indexes, j :: res.2) := by
  refine (b.descend hp hnc).cast ?_
  have := (ShL_cons.1 b.shl).1.2.2.1
  rw [this, hpv]
  simp only [List.append_assoc]
  rw [← List.append_assoc (List.take l v), List.take_append_drop]

theorem PiecesOk.next {v v' : Bytes} {rest' : List Bytes} (h : PiecesOk v (v' :: rest')) :
    ¬ Closed v ∧ PiecesOk v' rest' := ⟨h.2.1, h.2.2⟩

theorem PiecesOk.dropped {v : Bytes} {rest : List Bytes} {l : Nat} (h : PiecesOk v rest)
    (hp : Plain (v.drop l)) (hvl : ¬ v.length ≤ l) : PiecesOk (v.drop l) rest := by
  have hne : v.drop l ≠ [] := by
    intro e
    have := congrArg List.length e
    simp at this; omega
  exact h.replace (.inl ⟨hne, hp⟩) hp.not_closed

set_option hygiene false in
/-- The common tail of the "similar child" branch of `getNode` (used twice). -/
local macro "gn_tail" parent:term : tactic => `(tactic|
  (split at h
   · rename_i hvl0
     split at h
     · simp only [pure, Except.pure, Except.ok.injEq] at h
       subst h; exact b.tail_leaf hpv hvl0
     · have ih := ih1 $parent
       simp only at ih
       split at h
       · simp at h
       rename_i res hres
       simp only [pure, Except.pure, Except.ok.injEq] at h
       subst h
       exact b.tail_next hpv hvl0 hnc (ih res b.allP hpc.next.2 hres)
   · rename_i hvl
     split at h
     · simp at h
     rename_i res hres
     simp only [pure, Except.pure, Except.ok.injEq] at h
     subst h
     exact b.tail_drop hpv hnc (ih3 l hl $parent hvl res b.allP (hpc.dropped L.dropB hvl) hres)))

theorem getNode_shape (ic : Interceptors) (n : Node) (v : Bytes) (rest : List Bytes) :
    ∀ r, Node.All (Sh ic) n → PiecesOk v rest → getNode ic n v rest = .ok r →
      GPost ic n (n.pattern ++ v ++ rest.flatten) r := by
  induction n, v, rest using getNode.induct with
  | _ n v rest ih1 ih2 ih3 =>
    intro r hn hpc h
    rw [getNode] at h
    simp only [bind, Except.bind] at h
    split at h
    · simp at h
    rename_i seg hseg
    have hval := newSegment_value ic v seg hseg
    have hscan := scan_spec seg n.children 0 0 0
    split at h
    · -- an identical child exists
      rename_i i hsc
      rw [hsc] at hscan
      obtain ⟨c0, hc0, _, hsim⟩ := hscan
      split at h
      · simp [throw, throwThe, MonadExceptOf.throw] at h
      rename_i c hc
      simp only [Nat.sub_zero, hc, Option.some.injEq] at hc0
      subst hc0
      have hcv : c.seg.value = v := by rw [← hval]; exact (similarity_neg_one hsim).symm
      obtain ⟨others, b⟩ := SB.same hn hc
      have hpat := (ShL_cons.1 b.shl).1.2.2.1
      split at h
      · simp only [pure, Except.pure, Except.ok.injEq] at h
        subst h
        refine b.leaf.cast ?_
        rw [hpat, hcv]; simp
      · rename_i v' rest'
        have ih := ih1 c
        simp only at ih
        split at h
        · simp at h
        rename_i res hres
        simp only [pure, Except.pure, Except.ok.injEq] at h
        subst h
        refine (b.descend (ih res b.allP hpc.next.2 hres) (by rw [hcv]; exact hpc.next.1)).cast ?_
        rw [hpat, hcv]; simp
    · rename_i l i hsc
      rw [hsc] at hscan
      obtain ⟨hall, hl0, hor⟩ := hscan
      split at h
      · -- a new leaf
        rename_i hl
        split at h
        · simp at h
        rename_i n1 hn1
        split at h
        · simp [throw, throwThe, MonadExceptOf.throw] at h
        rename_i j hj
        have b : SB ic n n1 (newLeaf n.pattern seg) j n.children :=
          SB.ofLeaf hn hpc.wf hseg (fun c hc => ⟨(hall c hc).1, Int.le_trans (hall c hc).2 hl⟩) hn1 hj
        have hpat : (newLeaf n.pattern seg).pattern = n.pattern ++ v := by simp [newLeaf, hval]
        split at h
        · simp only [pure, Except.pure, Except.ok.injEq] at h
          subst h
          refine b.leaf.cast ?_
          rw [hpat]; simp
        · rename_i v' rest'
          have ih := ih2 seg
          simp only at ih
          split at h
          · simp at h
          rename_i res hres
          simp only [pure, Except.pure, Except.ok.injEq] at h
          subst h
          refine (b.descend (ih res b.allP hpc.next.2 hres) ?_).cast ?_
          · simpa [newLeaf, hval] using hpc.next.1
          · rw [hpat]; simp
      · -- a similar child: split it if necessary, then descend
        rename_i hl
        have hlpos : 0 < l := by omega
        split at h
        · simp [throw, throwThe, MonadExceptOf.throw] at h
        rename_i c hc
        have hsim : c.seg.similarity seg = l := by
          rcases hor with ⟨e, _⟩ | ⟨c0, hc0, _, hs⟩
          · omega
          · simp only [Nat.sub_zero, hc, Option.some.injEq] at hc0
            subst hc0; exact hs
        have hcok : ChildOk ic n.pattern c := hn.head.1 c (List.mem_of_getElem? hc)
        have L : LpPos c.seg.value v l.toNat := lpPos_of_sim hcok hpc.wf hseg hsim hlpos
        split at h
        · -- no split needed
          rename_i hcl
          simp only [pure, Except.pure] at h
          obtain ⟨others, b⟩ := SB.same hn hc
          have hpv : c.seg.value = v.take l.toNat := by
            rw [← L.takeEq, List.take_of_length_le hcl]
          have hnc : ¬ Closed c.seg.value := by
            have := L.notClosed
            rwa [List.take_of_length_le hcl] at this
          gn_tail c
        · rename_i hcl
          split at h
          · simp at h
          rename_i ss hss
          split at h
          · simp at h
          rename_i ret hret
          split at h
          · simp at h
          rename_i n1 hn1
          split at h
          · simp [throw, throwThe, MonadExceptOf.throw] at h
          rename_i j hj
          simp only [pure, Except.pure] at h
          obtain ⟨others, b, hretv⟩ := SB.ofSplit hn hc L hcl hss hret hn1 hj
          have hpv : ret.seg.value = v.take l.toNat := by rw [hretv, L.takeEq]
          have hnc : ¬ Closed ret.seg.value := by rw [hretv]; exact L.notClosed
          gn_tail ret

end Mux.P11
