/-
  Mux.Proofs.TreeCounts — `checkMethods` (what a successful validation guarantees), the shape of the
  tree-wide counters, and the rendering of the root's method index.
-/
import Mux.Proofs.TreeMethods
namespace Mux

/-! ## checkMethods -/

/-- A method that `Handle` refuses: reserved or unknown. -/
def BadMethod (ht : Bool) (m : Bytes) : Prop :=
  m = mOPTIONS ∨ m = mHEAD ∨ (ht = true ∧ m = mTRACE) ∨ m ∉ methodsTable

/-- The pattern already has method `m`. -/
def Tree.hasMethodAt (t : Tree) (pattern m : Bytes) : Bool :=
  match t.root.findPath pattern with
  | some p =>
    match t.root.getAt p with
    | some n => n.handlers.contains m
    | none => false
  | none => false

theorem checkMethods_cons (t : Tree) (pattern m : Bytes) (rest seen : List Bytes) :
    t.checkMethods pattern (m :: rest) seen =
      if m = mOPTIONS ∨ m = mHEAD ∨ (t.hasTrace = true ∧ m = mTRACE) then .error .reserved
      else if isKnownMethod m = false then .error .unknownMethod
      else if seen.contains m = true then .error .dupMethod
      else if t.hasMethodAt pattern m = true then .error .dupMethod
      else t.checkMethods pattern rest (m :: seen) := by
  simp only [Tree.checkMethods, bind, Except.bind]
  by_cases hres : m = mOPTIONS ∨ m = mHEAD ∨ (t.hasTrace = true ∧ m = mTRACE)
  · simp [hres, throw, throwThe, MonadExceptOf.throw]
  simp only [hres, if_false]
  by_cases hkn : isKnownMethod m = true
  · simp only [hkn, not_true_eq_false, if_false, Bool.true_eq_false]
    by_cases hseen : seen.contains m = true
    · have hs' : m ∈ seen := by simpa using hseen
      simp [hs', throw, throwThe, MonadExceptOf.throw]
    simp only [hseen, if_false, Bool.false_eq_true]
    split
    · rename_i p hp
      split
      · rename_i n hn
        have hh : t.hasMethodAt pattern m = n.handlers.contains m := by simp [Tree.hasMethodAt, hp, hn]
        rw [hh]
        by_cases hc : n.handlers.contains m = true
        · simp [hc, throw, throwThe, MonadExceptOf.throw]
        · simp [hc]
      · rename_i hn
        have hh : t.hasMethodAt pattern m = false := by simp [Tree.hasMethodAt, hp, hn]
        simp [hh]
    · rename_i hp
      have hh : t.hasMethodAt pattern m = false := by simp [Tree.hasMethodAt, hp]
      simp [hh]
  · simp [hkn, throw, throwThe, MonadExceptOf.throw]

theorem checkMethods_ok (t : Tree) (pattern : Bytes) :
    ∀ (methods seen : List Bytes), t.checkMethods pattern methods seen = .ok () →
      ∀ m ∈ methods, ¬ BadMethod t.hasTrace m := by
  intro methods
  induction methods with
  | nil => intro _ _ m hm; simp at hm
  | cons m rest ih =>
    intro seen h x hx
    rw [checkMethods_cons] at h
    split at h
    · simp at h
    rename_i hres
    split at h
    · simp at h
    rename_i hkn
    split at h
    · simp at h
    split at h
    · simp at h
    rcases List.mem_cons.1 hx with rfl | hx
    · rintro (h1 | h1 | h1 | h1)
      · exact hres (.inl h1)
      · exact hres (.inr (.inl h1))
      · exact hres (.inr (.inr h1))
      · exact h1 ((isKnownMethod_iff _).1 (by simpa using hkn))
    · exact ih _ h x hx

/-- A refused method anywhere in the list makes `checkMethods` fail. -/
theorem checkMethods_bad (t : Tree) (pattern : Bytes) (methods seen : List Bytes)
    (hbad : ∃ m ∈ methods, BadMethod t.hasTrace m) :
    ∃ e, t.checkMethods pattern methods seen = .error e := by
  cases h : t.checkMethods pattern methods seen with
  | error e => exact ⟨e, rfl⟩
  | ok u =>
    obtain ⟨m, hm, hb⟩ := hbad
    exact absurd hb (checkMethods_ok t pattern methods seen h m hm)

/-- The error class of a refused method list: `checkMethods` answers `reserved`, `unknownMethod` or
`dupMethod`, never anything else. -/
theorem checkMethods_error (t : Tree) (pattern : Bytes) :
    ∀ (methods seen : List Bytes) (e : Err), t.checkMethods pattern methods seen = .error e →
      e = .reserved ∨ e = .unknownMethod ∨ e = .dupMethod := by
  intro methods
  induction methods with
  | nil => intro _ e h; simp [Tree.checkMethods] at h
  | cons m rest ih =>
    intro seen e h
    rw [checkMethods_cons] at h
    split at h
    · simp at h; exact .inl h.symm
    split at h
    · simp at h; exact .inr (.inl h.symm)
    split at h
    · simp at h; exact .inr (.inr h.symm)
    split at h
    · simp at h; exact .inr (.inr h.symm)
    exact ih _ e h

/-! ## The counters -/

/-- A key of the tree-wide counter map. -/
def CountKeyOk (ht : Bool) (k : Bytes) : Prop := k ∈ methodsTable ∧ k ≠ mOPTIONS ∧ (ht = true → k ≠ mTRACE)

structure CountsOk (ht : Bool) (counts : AMap Nat) : Prop where
  nodup : counts.keys.Nodup
  ok : ∀ k ∈ counts.keys, CountKeyOk ht k

theorem CountsOk.nil (ht : Bool) : CountsOk ht [] := ⟨by simp [AMap.keys], by simp [AMap.keys]⟩

theorem CountsOk.set {ht : Bool} {a : AMap Nat} (h : CountsOk ht a) {k : Bytes} (v : Nat) (hk : CountKeyOk ht k) :
    CountsOk ht (a.set k v) := by
  refine ⟨AMap.nodup_keys_setT _ _ _ h.nodup, ?_⟩
  intro x hx
  rw [AMap.mem_keys_set] at hx
  rcases hx with hx | rfl
  · exact h.ok x hx
  · exact hk

theorem bump_counts_ok {ht : Bool} (methods : List Bytes) (hm : ∀ m ∈ methods, CountKeyOk ht m) :
    ∀ (a : AMap Nat), CountsOk ht a →
      CountsOk ht (methods.foldl (fun a m => a.set m ((a.get? m).getD 0 + 1)) a) := by
  induction methods with
  | nil => intro a h; exact h
  | cons m rest ih =>
    intro a h
    exact ih (fun x hx => hm x (by simp [hx])) _ (h.set _ (hm m (by simp)))

theorem countFold_ok {ht : Bool} (hs : AMap Handler) (hadm : ∀ k ∈ hs.keys, KeyAdm ht k) :
    ∀ (a : AMap Nat), CountsOk ht a →
      CountsOk ht (hs.foldl (fun a e =>
        if e.1 = mHEAD ∨ e.1 = mOPTIONS ∨ e.1 = mNotAllowed then a else a.set e.1 ((a.get? e.1).getD 0 + 1)) a) := by
  induction hs with
  | nil => intro a h; exact h
  | cons e rest ih =>
    intro a h
    simp only [List.foldl_cons]
    apply ih (fun k hk => hadm k (by simp [AMap.keys] at hk ⊢; exact .inr hk))
    split
    · exact h
    · rename_i hne
      apply h.set
      have := hadm e.1 (by simp [AMap.keys])
      rcases this with h0 | h0
      · exact absurd h0 (fun e' => hne (.inr (.inr e')))
      · exact ⟨h0.1, fun e' => hne (.inr (.inl e')), h0.2⟩

theorem countMethods_ok (ht : Bool) :
    ∀ n : Node, AllL (Good ht) n.children → ∀ a, CountsOk ht a → CountsOk ht (n.countMethods a) := by
  intro n
  induction n using Node.rec (motive_2 := fun cs => AllL (Good ht) cs → ∀ a, CountsOk ht a →
      CountsOk ht (countMethodsL cs a)) with
  | mk s p mi hs idx cs ih => intro h a ha; simp only [Node.countMethods]; exact ih h a ha
  | nil => rename_i h a ha; simpa [countMethodsL] using ha
  | cons c cs ih1 ih2 =>
    rename_i h a ha
    simp only [countMethodsL]
    apply ih2 h.2
    apply ih1 h.1.tail
    apply countFold_ok
    · rcases h.1.head.1.2 with h0 | h0
      · rw [h0]; simp [AMap.keys]
      · exact h0.adm
    · exact ha

/-! ## The invariant on the counters and its preservation -/

theorem counts_new (name ic nf tr ob nb) :
    CountsOk (Tree.new name ic nf tr ob nb).hasTrace (Tree.new name ic nf tr ob nb).counts :=
  CountsOk.nil _

theorem counts_step {t : Tree} (hinv : TreeInv t) (hc : CountsOk t.hasTrace t.counts) (op : TOp) :
    CountsOk (t.step op).hasTrace (t.step op).counts := by
  have hcfg := (sameCfg_step t op).1
  rw [hcfg]
  cases op with
  | add p h ms methods =>
    simp only [Tree.step]
    split
    · rename_i t' he
      obtain ⟨_, _, _, _, _, hcm, _, _, _, rfl⟩ := Tree.add_ok he
      have hbad := checkMethods_ok t p _ _ hcm
      simp only [Tree.bumpMethods]
      apply bump_counts_ok _ _ _ hc
      intro m hm
      have := hbad m hm
      unfold BadMethod at this
      refine ⟨?_, ?_, ?_⟩
      · exact Classical.not_not.1 (fun h' => this (.inr (.inr (.inr h'))))
      · exact fun h' => this (.inl h')
      · exact fun htr h' => this (.inr (.inr (.inl ⟨htr, h'⟩)))
    · exact hc
  | remove p methods =>
    simp only [Tree.step]
    split
    · rename_i t' he
      have hinv' := inv_remove hinv he
      rcases Tree.remove_ok he with rfl | ⟨path, root1, _, _, rfl⟩
      · exact hc
      · simp only [Tree.recount]
        have hb := hinv'.below
        simp only [Tree.recount, Node.setHandlers, Node.children_mk] at hb
        exact countMethods_ok _ _ hb _ (CountsOk.nil _)
    · exact hc
  | clean pre =>
    simp only [Tree.step]
    split
    · rename_i t' he
      have hinv' := inv_clean hinv he
      obtain ⟨root1, _, rfl⟩ := Tree.clean_ok he
      simp only [Tree.recount]
      have hb := hinv'.below
      simp only [Tree.recount, Node.setHandlers, Node.children_mk] at hb
      exact countMethods_ok _ _ hb _ (CountsOk.nil _)
    · exact hc
  | use ms => exact hc

/-- `TreeInv` together with the shape of the counters. -/
structure TreeInv2 (t : Tree) : Prop extends TreeInv t where
  counts : CountsOk t.hasTrace t.counts

theorem inv2_new (name ic nf tr ob nb) : TreeInv2 (Tree.new name ic nf tr ob nb) :=
  ⟨inv_new name ic nf tr ob nb, counts_new name ic nf tr ob nb⟩

theorem inv2_step {t : Tree} (h : TreeInv2 t) (op : TOp) : TreeInv2 (t.step op) :=
  ⟨inv_step h.toTreeInv op, counts_step h.toTreeInv h.counts op⟩

theorem inv2_run {t : Tree} (h : TreeInv2 t) (ops : List TOp) : TreeInv2 (t.run ops) := by
  unfold Tree.run
  induction ops generalizing t with
  | nil => exact h
  | cons op ops ih => exact ih (inv2_step h op)

/-! ## The root's method index -/

/-- The methods with a positive tree-wide count. -/
def liveMethods (counts : AMap Nat) : List Bytes := AMap.keys (counts.filter (fun e => e.2 > 0))

def rootMaskKeys (ht : Bool) (counts : AMap Nat) : List Bytes :=
  mOPTIONS :: ((if ht then [mTRACE] else []) ++ liveMethods counts)

theorem rootMethodIndex_eq_mask (ht : Bool) (counts : AMap Nat) :
    rootMethodIndex ht counts = ((rootMaskKeys ht counts).map methodBit).sum := by
  unfold rootMethodIndex rootMaskKeys liveMethods
  have : (counts.filter (fun e => e.2 > 0)).map (fun e => methodBit e.1) =
      (AMap.keys (counts.filter (fun e => e.2 > 0))).map methodBit := by
    simp [AMap.keys, List.map_map, Function.comp_def]
  rw [this]
  cases ht <;> simp [Nat.add_assoc]

theorem liveMethods_sub {counts : AMap Nat} : (liveMethods counts).Sublist counts.keys := by
  unfold liveMethods AMap.keys
  exact List.Sublist.map _ List.filter_sublist

theorem rootMaskKeys_ok {ht : Bool} {counts : AMap Nat} (h : CountsOk ht counts) :
    (rootMaskKeys ht counts).Nodup ∧ ∀ k ∈ rootMaskKeys ht counts, k ∈ methodsTable := by
  obtain ⟨c1, c2, c3, c4, c5, c6, c7, c8, c9, c10⟩ := method_consts_ne
  obtain ⟨t1, t2, t3, t4, t5⟩ := mem_table_consts
  have hlive : ∀ k ∈ liveMethods counts, CountKeyOk ht k := fun k hk => h.ok k (liveMethods_sub.subset hk)
  have hnd : (liveMethods counts).Nodup := h.nodup.sublist liveMethods_sub
  unfold rootMaskKeys
  cases ht with
  | false =>
    simp only [Bool.false_eq_true, if_false, List.nil_append, List.nodup_cons, List.mem_cons, forall_eq_or_imp]
    exact ⟨⟨fun hm => (hlive _ hm).2.1 rfl, hnd⟩, t3, fun k hk => (hlive k hk).1⟩
  | true =>
    simp only [if_true, List.cons_append, List.nil_append, List.nodup_cons, List.mem_cons, forall_eq_or_imp]
    refine ⟨⟨?_, ?_, hnd⟩, t3, t4, fun k hk => (hlive k hk).1⟩
    · rintro (h' | h')
      · exact c9 h'
      · exact (hlive _ h').2.1 rfl
    · exact fun hm => (hlive _ hm).2.2 rfl rfl

/-- The root's `Methods()`: OPTIONS, TRACE when configured, and the methods with a positive count. -/
theorem root_methods {t : Tree} (h : TreeInv2 t) (m : Bytes) :
    m ∈ t.root.methods ↔ m = mOPTIONS ∨ (t.hasTrace = true ∧ m = mTRACE) ∨ m ∈ liveMethods t.counts := by
  unfold Node.methods
  rw [h.rootMi, rootMethodIndex_eq_mask]
  obtain ⟨h1, h2⟩ := rootMaskKeys_ok h.counts
  rw [mem_renderMethods_sum _ h1 h2]
  unfold rootMaskKeys
  cases t.hasTrace <;> simp

end Mux
