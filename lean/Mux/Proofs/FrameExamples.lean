/-
  Mux.Proofs.FrameExamples — a REACHED tree (history evaluated through the fuel version of `getNode`)
  for the non-vacuity examples of `C03_frame_*` and `C03_witness`:
  `Handle("/u/", h1, GET); Handle("/u/{id}", h2, GET)`.
-/
import Mux.Proofs.Frame
import Mux.Proofs.Witness
import Mux.Proofs.StructExamples
import Mux.Proofs.GetNodeFuel
import Mux.Proofs.DecEq
namespace Mux.P14
open Mux Mux.P10

/-- `/u/` -/
def exU : Bytes := [47, 117, 47]
/-- `/u/{id}` -/
def exUid : Bytes := [47, 117, 47, 123, 105, 100, 125]
/-- `/u/5` -/
def exReq : Bytes := [47, 117, 47, 53]

def exOps : List TOp := [.add exU { base := .user 1 } [] [mGET], .add exUid { base := .user 2 } [] [mGET]]
def exT0 : Tree := Tree.new [114] [] { base := .notFound } none
def exT : Tree := exT0.run exOps
def exEnv : Env := ⟨fun _ _ => true⟩

theorem exOps_wf : ∀ op ∈ exOps, op.wf = true := by decide

theorem exT_reach : ReachAll exT := ⟨_, _, _, _, _, _, exOps, exOps_wf, rfl⟩

/-- Views of an answer (separately decidable). -/
def patOf : HR → Option Bytes | .res f => f.node.map (·.pattern) | _ => none
def handlerOf : HR → Option Handler | .res f => some f.handler | _ => none
def okOf : HR → Option Bool | .res f => some f.ok | _ => none
def paramsOf : HR → Option (List (Bytes × Bytes)) | .res f => some f.params | _ => none

theorem views_spec {r : HR} {pat : Bytes} {h : Handler} {ok : Bool} {ps : List (Bytes × Bytes)}
    (h1 : patOf r = some pat) (h2 : handlerOf r = some h) (h3 : okOf r = some ok) (h4 : paramsOf r = some ps) :
    ∃ f q, r = .res f ∧ f.node = some q ∧ q.pattern = pat ∧ f.handler = h ∧ f.ok = ok ∧ f.params = ps := by
  cases r with
  | res f =>
    simp only [patOf, handlerOf, okOf, paramsOf, Option.some.injEq] at h1 h2 h3 h4
    cases hn : f.node with
    | none => rw [hn] at h1; simp at h1
    | some q =>
      rw [hn] at h1
      simp only [Option.map_some, Option.some.injEq] at h1
      exact ⟨f, q, rfl, hn, h1, h2, h3, h4⟩
  | fault s => simp [patOf] at h1
  | unsupported => simp [patOf] at h1

/-- `GET /u/5` is dispatched to `/u/{id}` with `id = 5`. -/
theorem exT_answer : ∃ f q, exT.handler exEnv exReq [] mGET = .res f ∧ f.node = some q ∧ q.pattern = exUid ∧
    f.handler = { base := .user 2, wraps := [] } ∧ f.ok = true ∧ f.params = [([105, 100], [53])] :=
  views_spec (by mux_eval [exT, exOps, exT0]) (by mux_eval [exT, exOps, exT0]) (by mux_eval [exT, exOps, exT0])
    (by mux_eval [exT, exOps, exT0])

/-! ## The chain of `/u/{id}` in the reached tree -/

def exSegU : Seg := { value := exU }
def exSegId : Seg := { value := [123, 105, 100, 125], kind := .named, name := [105, 100], endpoint := true }
/-- the witness chain: `/u/` (literal, value unused) and `{id}` with the value `5` -/
def exChain : List (Seg × Bytes) := [(exSegU, []), (exSegId, [53])]

theorem exT_segs : exT.root.segsAt [0, 0] = some [exSegU, exSegId] := by mux_eval [exT, exOps, exT0]
theorem exT_live : (exT.root.getAt [0, 0]).map (fun x => x.handlers.isEmpty) = some false := by
  mux_eval [exT, exOps, exT0]

/-- The node of `/u/{id}`, its chain from the root, and the fact that it is live. -/
theorem exT_chain : ∃ x, Chain exT.root (exChain.map (·.1)) x ∧ x.handlers ≠ [] := by
  cases hx : exT.root.getAt [0, 0] with
  | none => have := exT_live; rw [hx] at this; cases this
  | some x =>
    refine ⟨x, getAt_chain _ _ _ _ hx exT_segs, ?_⟩
    have := exT_live
    rw [hx] at this
    simp only [Option.map_some, Option.some.injEq] at this
    intro e; rw [e] at this; cases this

theorem exChain_simple : ∀ sv ∈ exChain, SimpleVal exEnv exT.ic sv.1 sv.2 := by
  intro sv hsv
  simp only [exChain, List.mem_cons, List.not_mem_nil, or_false] at hsv
  rcases hsv with rfl | rfl
  · exact ⟨by decide, trivial, by simp⟩
  · exact ⟨by decide, trivial, by simp [exSegId]⟩

theorem exChain_inst : instChain exChain = exReq := by decide

theorem exT_table : tableOf exT = [(exU, [mGET]), (exUid, [mGET])] := by mux_eval [exT, exOps, exT0]

theorem exT_live_pair : (tableOf exT).has exUid mGET := ⟨[mGET], by rw [exT_table]; decide, by decide⟩

/-! ## A node WITH a first-byte index: `/a /b /c /d /e /{id}` (`P8.exS`)

The hypotheses of the node-level frame lemma `frame_removeAt'` hold of it: removing `/a` (one of five literal
siblings, the index stays in use) leaves `/x` dispatched to `/{id}` — the D3 scenario. -/

theorem exS_tidy : Node.All (fun m => ∀ c ∈ m.children, P8.Tidy c.seg.value) P8.exS.root := by
  rw [(All_iff_nodes _).1]
  have key : ∀ m ∈ P8.exS.root.nodes, ∀ c ∈ m.children,
      (startByte ∉ c.seg.value ∧ endByte ∉ c.seg.value) ∨ c.seg.value = [123, 105, 100, 125] := by decide
  intro m hm c hc
  rcases key m hm c hc with h | h
  · exact .inl h
  · rw [h]; exact .inr ⟨[105, 100], [], rfl, by decide, by decide⟩

theorem exS_s2 : Node.All (P8.SOk2 []) P8.exS.root := by
  rw [(All_iff_nodes _).1]
  intro m hm
  exact ⟨((All_iff_nodes _).1 _).1 P8.exS_struct.all m hm,
    ((All_iff_nodes _).1 _).1 exS_tidy m hm, P8.exS_distinct m hm⟩

def isOkNode : Except Err Node → Bool
  | .ok _ => true
  | .error _ => false

/-- `/x` -/
def exReqX : Bytes := [47, 120]

theorem exS_frame : ∃ n' x, P8.exS.root.getAt [0, 0] = some x ∧ x.pattern = [47, 97] ∧
    P8.exS.root.removeAt (removeMethods false []) [0, 0] = .ok n' ∧
    P11.FrameMR x.pattern (P8.exS.root.matchChildren exEnv [] exReqX []) (n'.matchChildren exEnv [] exReqX []) := by
  have hx : P8.exS.root.getAt [0, 0] = some (P8.exLit 97) := rfl
  have hok : isOkNode (P8.exS.root.removeAt (removeMethods false []) [0, 0]) = true := by decide
  cases hr : P8.exS.root.removeAt (removeMethods false []) [0, 0] with
  | error e => rw [hr] at hok; cases hok
  | ok n' =>
    exact ⟨n', _, hx, rfl, rfl, frame_removeAt' (ic0 := []) exEnv [] _ (P11.removeMethods_frameF false []) [0, 0]
      P8.exS.root n' _ exS_s2 hx hr exReqX [] [] (by decide) (by simp [AMap.keys])⟩

/-- …and indeed `/x` is dispatched to `/{id}` before the removal (through the scan after the index missed). -/
def hitPattern : MR → Option Bytes
  | .hit m _ => some m.pattern
  | _ => none
theorem exS_before : hitPattern (P8.exS.root.matchChildren exEnv [] exReqX []) = some P8.exPat := by decide

end Mux.P14
