/-
  Mux.Proofs.Clean — `Node.clean prefix` removes exactly the nodes whose pattern starts with the
  prefix (relative to the node it is called on), on every tree whose stored patterns are consistent
  (`PatternOk`).  No assumption on sibling segments is needed.
-/
import Mux.Proofs.WOk
import Mux.Proofs.TreeMethods
namespace Mux.P10
open Mux

/-- What `Routes()`, dispatch and the middleware stacks see of a node. -/
def info (n : Node) : Bytes × Nat × AMap Handler := (n.pattern, n.methodIndex, n.handlers)

/-- The `info`s of all nodes below a list of children, depth first. -/
def infosL (cs : List Node) : List (Bytes × Nat × AMap Handler) := (nodesL cs).map info

theorem infosL_nil : infosL [] = [] := rfl
theorem infosL_cons (c : Node) (cs : List Node) : infosL (c :: cs) = info c :: infosL c.children ++ infosL cs := by
  simp [infosL, nodesL, Node.nodes_eq]

/-- "keep": the pattern does not start with `pre`. -/
def keeps (pre : Bytes) (e : Bytes × Nat × AMap Handler) : Bool := !hasPrefix e.1 pre

/-! ## Prefix facts -/

theorem hasPrefix_iff (s p : Bytes) : hasPrefix s p = true ↔ p <+: s := by
  unfold hasPrefix; exact List.isPrefixOf_iff_prefix

theorem hasPrefix_append_left (pp a b : Bytes) : hasPrefix (pp ++ a) (pp ++ b) = hasPrefix a b := by
  rw [Bool.eq_iff_iff, hasPrefix_iff, hasPrefix_iff, List.prefix_append_right_inj]

/-- Every node below a `PatternOk` node has a pattern that extends the node's pattern. -/
theorem nodes_pattern_prefix : ∀ n : Node, Node.PatternOk n → ∀ x ∈ n.nodes, n.pattern <+: x.pattern := by
  intro n
  induction n using Node.rec (motive_2 := fun cs => ∀ pp, PatternOkL pp cs → ∀ x ∈ nodesL cs, pp <+: x.pattern) with
  | mk s p mi hs idx cs ih =>
    intro hp x hx
    simp only [Node.nodes, List.mem_cons] at hx
    rcases hx with rfl | hx
    · exact List.prefix_refl _
    · exact ih p hp x hx
  | nil => rename_i hx; simp [nodesL] at hx
  | cons c cs ih1 ih2 =>
    rename_i pp hp x hx
    simp only [nodesL, List.mem_append] at hx
    rcases hx with hx | hx
    · have := ih1 hp.2.1 x hx
      rw [hp.1] at this
      exact (List.prefix_append pp _).trans this
    · exact ih2 pp hp.2.2 x hx

/-! ## The deletion loop of `clean` is a filter -/

theorem foldl_removeNodes_cons_ne (c : Node) (cs : List Node) (vs : List Bytes) (h : ∀ v ∈ vs, c.seg.value ≠ v) :
    vs.foldl removeNodes (c :: cs) = c :: vs.foldl removeNodes cs := by
  induction vs generalizing cs with
  | nil => rfl
  | cons v vs ih =>
    simp only [List.foldl_cons]
    have hv : c.seg.value ≠ v := h v (by simp)
    simp only [removeNodes, hv, if_false]
    exact ih _ (fun w hw => h w (by simp [hw]))

/-- Deleting, for every child whose segment text satisfies `p`, the first child with that text, deletes exactly
the children satisfying `p` (also when sibling texts repeat). -/
theorem dels_eq_filter (p : Bytes → Bool) (cs : List Node) :
    ((cs.filter (fun c => p c.seg.value)).map (·.seg.value)).foldl removeNodes cs =
      cs.filter (fun c => !p c.seg.value) := by
  induction cs with
  | nil => rfl
  | cons c cs ih =>
    by_cases hc : p c.seg.value = true
    · simp only [List.filter_cons, hc, if_true, List.map_cons, List.foldl_cons, removeNodes, Bool.not_true,
        Bool.false_eq_true, if_false]
      exact ih
    · simp only [List.filter_cons, hc, Bool.false_eq_true, if_false] at ih ⊢
      have hc' : p c.seg.value = false := by simpa using hc
      simp only [Bool.not_false, if_true]
      rw [foldl_removeNodes_cons_ne, ih]
      intro v hv
      rw [List.mem_map] at hv
      obtain ⟨d, hd, rfl⟩ := hv
      intro e
      have := (List.mem_filter.1 hd).2
      rw [← e, hc'] at this
      cases this

/-! ## The theorem -/

theorem filter_all_false {α} (l : List α) (p : α → Bool) (h : ∀ x ∈ l, p x = false) : l.filter p = [] := by
  rw [List.filter_eq_nil_iff]
  intro x hx; simp [h x hx]

theorem filter_all_true {α} (l : List α) (p : α → Bool) (h : ∀ x ∈ l, p x = true) : l.filter p = l :=
  List.filter_eq_self.2 h

/-- All `info`s of the subtree of a child `c` of a node with pattern `pp`. -/
theorem infos_child_patterns {pp : Bytes} {c : Node} (hc : c.pattern = pp ++ c.seg.value) (hp : Node.PatternOk c) :
    ∀ e ∈ info c :: infosL c.children, ∃ w, e.1 = pp ++ c.seg.value ++ w := by
  intro e he
  have : ∃ x ∈ c.nodes, e = info x := by
    rw [Node.nodes_eq]
    simp only [infosL, List.mem_cons, List.mem_map] at he ⊢
    rcases he with rfl | ⟨x, hx, rfl⟩
    · exact ⟨c, .inl rfl, rfl⟩
    · exact ⟨x, .inr hx, rfl⟩
  obtain ⟨x, hx, rfl⟩ := this
  obtain ⟨w, hw⟩ := nodes_pattern_prefix c hp x hx
  exact ⟨w, by simp only [info]; rw [← hw, hc]⟩

theorem clean_infos :
    ∀ (n : Node) (pre : Bytes) (n' : Node), Node.PatternOk n → n.clean pre = .ok n' →
      n'.pattern = n.pattern ∧ n'.seg = n.seg ∧ n'.methodIndex = n.methodIndex ∧ n'.handlers = n.handlers ∧
      infosL n'.children = (infosL n.children).filter (keeps (n.pattern ++ pre)) := by
  intro n
  induction n using Node.rec (motive_2 := fun cs => ∀ pp pre cs', PatternOkL pp cs → pre ≠ [] →
      cleanL cs pre = .ok cs' →
      infosL (cs'.filter (fun c => !hasPrefix c.seg.value pre)) = (infosL cs).filter (keeps (pp ++ pre))) with
  | mk s p mi hs idx cs ih =>
    intro pre n' hp h
    simp only [Node.clean] at h
    split at h
    · rename_i hpre
      simp only [Except.ok.injEq] at h
      subst h
      refine ⟨rfl, rfl, rfl, rfl, ?_⟩
      have hpre' : pre = [] := by simpa using hpre
      subst hpre'
      simp only [Node.children_mk, Node.pattern_mk, List.append_nil, infosL_nil]
      symm
      apply filter_all_false
      intro e he
      simp only [infosL, List.mem_map] at he
      obtain ⟨x, hx, rfl⟩ := he
      have := nodes_pattern_prefix (.mk s p mi hs idx cs) hp x (by simp [Node.nodes, hx])
      simp only [keeps, info, Bool.not_eq_false']
      exact (hasPrefix_iff _ _).2 this
    · rename_i hpre
      simp only [bind, Except.bind, pure, Except.pure] at h
      split at h
      · simp at h
      rename_i cs1 hcs1
      split at h
      · simp at h
      rename_i idx' hidx'
      simp only [Except.ok.injEq] at h
      subst h
      refine ⟨rfl, rfl, rfl, rfl, ?_⟩
      simp only [Node.children_mk, Node.pattern_mk]
      rw [dels_eq_filter (fun v => hasPrefix v pre) cs1]
      exact ih p pre cs1 hp (by intro e; apply hpre; simp [e]) hcs1
  | nil =>
    rename_i pp pre cs' _ _ h
    simp only [cleanL, Except.ok.injEq] at h
    subst h; rfl
  | cons c cs ih1 ih2 =>
    rename_i pp pre cs' hp hne h
    simp only [cleanL, bind, Except.bind, pure, Except.pure] at h
    have hcp : c.pattern = pp ++ c.seg.value := hp.1
    have hall := infos_child_patterns hcp hp.2.1
    by_cases hcond : c.seg.value.length < pre.length ∧ hasPrefix pre c.seg.value = true
    · -- the child is entered
      simp only [hcond, and_self, if_true] at h
      split at h
      · simp at h
      rename_i c' hc'
      split at h
      · simp at h
      rename_i cs1 hcs1
      simp only [Except.ok.injEq] at h
      subst h
      obtain ⟨h1, h2, h3, h4, h5⟩ := ih1 _ c' hp.2.1 hc'
      have hnot : hasPrefix c.seg.value pre = false := by
        rw [Bool.eq_false_iff]
        intro hc
        have := ((hasPrefix_iff _ _).1 hc).length_le
        omega
      have hjoin : c.pattern ++ pre.drop c.seg.value.length = pp ++ pre := by
        obtain ⟨w, hw⟩ := (hasPrefix_iff _ _).1 hcond.2
        rw [hcp, ← hw]; simp
      have hinfo : info c' = info c := by simp [info, h1, h3, h4]
      have hkeepc : keeps (pp ++ pre) (info c) = true := by
        simp only [keeps, info, hcp, hasPrefix_append_left, hnot, Bool.not_false]
      rw [List.filter_cons]
      simp only [h2, hnot, Bool.not_false, if_true]
      rw [infosL_cons, infosL_cons, List.filter_append, List.filter_cons, hkeepc, if_pos rfl,
        ih2 pp pre cs1 hp.2.2 hne hcs1, h5, hjoin, hinfo]
    · simp only [hcond, if_false] at h
      split at h
      · simp at h
      rename_i cs1 hcs1
      simp only [Except.ok.injEq] at h
      subst h
      rw [List.filter_cons, infosL_cons, List.filter_append, ← ih2 pp pre cs1 hp.2.2 hne hcs1]
      by_cases hdel : hasPrefix c.seg.value pre = true
      · -- deleted with its whole subtree
        simp only [hdel, Bool.not_true, Bool.false_eq_true, if_false]
        rw [filter_all_false (info c :: infosL c.children), List.nil_append]
        intro e he
        obtain ⟨w, hw⟩ := hall e he
        simp only [keeps, Bool.not_eq_false', hw, List.append_assoc, hasPrefix_append_left]
        exact (hasPrefix_iff _ _).2 (((hasPrefix_iff _ _).1 hdel).trans (List.prefix_append _ _))
      · -- kept: nothing below it starts with the prefix
        have hdel' : hasPrefix c.seg.value pre = false := by simpa using hdel
        simp only [hdel', Bool.not_false, if_true]
        rw [infosL_cons, filter_all_true (info c :: infosL c.children)]
        intro e he
        obtain ⟨w, hw⟩ := hall e he
        simp only [keeps, hw, List.append_assoc, hasPrefix_append_left, Bool.not_eq_true']
        rw [Bool.eq_false_iff]
        intro hpw
        have hpw' := (hasPrefix_iff _ _).1 hpw
        by_cases hlen : pre.length ≤ c.seg.value.length
        · apply hdel
          exact (hasPrefix_iff _ _).2 (List.prefix_of_prefix_length_le hpw' (List.prefix_append _ _) hlen)
        · apply hcond
          refine ⟨by omega, (hasPrefix_iff _ _).2 ?_⟩
          exact List.prefix_of_prefix_length_le (List.prefix_append _ _) hpw' (by omega)

/-! ## Routes -/

def routeOf (e : Bytes × Nat × AMap Handler) : Option (Bytes × List Bytes) :=
  if e.2.1 > 0 then some (e.1, renderMethods e.2.1) else none

theorem routes_eq_infos : (∀ n : Node, n.routes = (n.nodes.map info).filterMap routeOf) ∧
    (∀ cs : List Node, routesL cs = (infosL cs).filterMap routeOf) := by
  have hN : ∀ n : Node, n.routes = (n.nodes.map info).filterMap routeOf := by
    intro n
    induction n using Node.rec (motive_2 := fun cs => routesL cs = (infosL cs).filterMap routeOf) with
    | mk s p mi hs idx cs ih =>
      simp only [Node.routes, Node.nodes, List.map_cons, List.filterMap_cons, routeOf, info, Node.pattern_mk,
        Node.methodIndex_mk, Node.handlers_mk]
      rw [ih]
      by_cases h : mi > 0 <;> simp [h, infosL]
    | nil => rfl
    | cons c cs ih1 ih2 =>
      simp only [routesL, infosL, nodesL, List.map_append, List.filterMap_append] at ih2 ⊢
      rw [ih1, ih2]
  refine ⟨hN, ?_⟩
  intro cs
  induction cs with
  | nil => rfl
  | cons c cs ih =>
    simp only [routesL, infosL, nodesL, List.map_append, List.filterMap_append] at ih ⊢
    rw [hN, ih]

theorem filterMap_filter_keeps (pre : Bytes) (l : List (Bytes × Nat × AMap Handler)) :
    (l.filter (keeps pre)).filterMap routeOf = (l.filterMap routeOf).filter (fun x => !hasPrefix x.1 pre) := by
  induction l with
  | nil => rfl
  | cons e l ih =>
    by_cases hk : keeps pre e = true
    · simp only [List.filter_cons, hk, if_true, List.filterMap_cons]
      cases hr : routeOf e with
      | none => exact ih
      | some x =>
        have hx : x.1 = e.1 := by
          unfold routeOf at hr; split at hr
          · simp only [Option.some.injEq] at hr; rw [← hr]
          · cases hr
        simp only [List.filter_cons]
        have : (!hasPrefix x.1 pre) = true := by rw [hx]; exact hk
        simp only [this, if_true, ih]
    · have hk' : keeps pre e = false := by simpa using hk
      simp only [List.filter_cons, hk', Bool.false_eq_true, if_false, List.filterMap_cons]
      cases hr : routeOf e with
      | none => exact ih
      | some x =>
        have hx : x.1 = e.1 := by
          unfold routeOf at hr; split at hr
          · simp only [Option.some.injEq] at hr; rw [← hr]
          · cases hr
        simp only [List.filter_cons]
        have : (!hasPrefix x.1 pre) = false := by rw [hx]; exact hk'
        simp only [this, Bool.false_eq_true, if_false, ih]

/-- `Tree.clean`: below the root exactly the nodes whose pattern does not start with the prefix
survive, with their method index and handlers; so `Routes()` loses exactly the routes that start
with the prefix. -/
theorem tree_clean_spec {t t' : Tree} {pre : Bytes} (hp : Node.PatternOk t.root) (h0 : t.root.pattern = [])
    (h : t.clean pre = .ok t') :
    infosL t'.root.children = (infosL t.root.children).filter (keeps pre) ∧
    routesL t'.root.children = (routesL t.root.children).filter (fun x => !hasPrefix x.1 pre) ∧
    t'.routes = ([42], mOPTIONS :: (if t.hasTrace then [mTRACE] else [])) ::
      (routesL t.root.children).filter (fun x => !hasPrefix x.1 pre) := by
  obtain ⟨root1, hclean, rfl⟩ := Tree.clean_ok h
  obtain ⟨_, _, _, _, h5⟩ := clean_infos t.root pre root1 hp hclean
  rw [h0, List.nil_append] at h5
  have hc : (({ t with root := root1 } : Tree).recount).root.children = root1.children := by
    simp [Tree.recount, Node.setHandlers]
  have hr : routesL root1.children = (routesL t.root.children).filter (fun x => !hasPrefix x.1 pre) := by
    rw [routes_eq_infos.2, routes_eq_infos.2, h5, filterMap_filter_keeps]
  refine ⟨by rw [hc]; exact h5, by rw [hc]; exact hr, ?_⟩
  unfold Tree.routes
  rw [hc, hr]
  rfl

end Mux.P10
