/-
  Mux.Proofs.GroupLiftReach — the tree of a router made by `NewRouter` and a history of `Handle/Remove/Clean/Use`
  whose REGISTERED patterns pass the brace check `WfPattern` is `ReachAll` (all tree invariants at once).
-/
import Mux.Proofs.ReachAll
namespace Mux.P18
open Mux

/-- The pattern a `Handle` registers passes the executable brace check (balanced, non-nested `{…}`); the arguments of
`Remove`, `Clean` and `Use` are arbitrary. -/
def ROp.wf : ROp → Bool
  | .handle p _ _ _ => WfPattern p
  | _ => true

/-- The tree operation a router operation performs (`Handle` passes `m ++ r.ms`). -/
def topOf (r : Router) : ROp → TOp
  | .handle p h m methods => .add p { base := .user h } (m ++ r.ms) methods
  | .remove p methods => .remove p methods
  | .clean pre => .clean pre
  | .use m => .use m

theorem step_tree_eq (r : Router) (op : ROp) : (r.step op).tree = r.tree.step (topOf r op) := by
  cases op with
  | handle p h m methods =>
    simp only [Router.step, Router.handle, Tree.step, topOf, bind, Except.bind, pure, Except.pure]
    cases r.tree.add p { base := .user h } (m ++ r.ms) methods <;> rfl
  | remove p methods =>
    simp only [Router.step, Router.remove, Tree.step, topOf, bind, Except.bind, pure, Except.pure]
    cases r.tree.remove p methods <;> rfl
  | clean pre =>
    simp only [Router.step, Router.clean, Tree.step, topOf, bind, Except.bind, pure, Except.pure]
    cases r.tree.clean pre <;> rfl
  | use m => rfl

theorem topOf_wf (r : Router) (op : ROp) : (topOf r op).wf = ROp.wf op := by
  cases op <;> rfl

theorem reachAll_new {cfg : RouterCfg} {r0 : Router} (hnew : Router.new cfg = some r0) : P14.ReachAll r0.tree := by
  unfold Router.new at hnew
  split at hnew
  · cases hnew
  · cases hnew; exact P14.ReachAll.new _ _ _ _ _ _

theorem reachAll_step {r : Router} (h : P14.ReachAll r.tree) {op : ROp} (hop : ROp.wf op = true) :
    P14.ReachAll (r.step op).tree := by
  rw [step_tree_eq]
  exact h.step (by rw [topOf_wf]; exact hop)

theorem reachAll_run' {r : Router} (h : P14.ReachAll r.tree) {ops : List ROp} (hops : ∀ op ∈ ops, ROp.wf op = true) :
    P14.ReachAll (r.run ops).tree := by
  unfold Router.run
  induction ops generalizing r with
  | nil => exact h
  | cons op ops ih =>
    exact ih (reachAll_step h (hops op (by simp))) (fun o ho => hops o (by simp [ho]))

theorem reachAll_run {cfg : RouterCfg} {r0 : Router} (hnew : Router.new cfg = some r0) {ops : List ROp}
    (hops : ∀ op ∈ ops, ROp.wf op = true) : P14.ReachAll (r0.run ops).tree :=
  reachAll_run' (reachAll_new hnew) hops

end Mux.P18
