/-
  Mux.Proofs.ResolveAllEval — kernel evaluation of histories that build nodes with SEVERAL children.

  `sortChildren` is `List.mergeSort`, defined by well-founded recursion, which the kernel does not
  unfold on lists of two or more nodes.  A stable merge sort is insertion sort (`mergeSort_eq_ins`), so
  `getNodeF` equals the copy `getNodeFI` that sorts by structural insertion; `mux_eval2` evaluates a
  concrete history through it.
-/
import Mux.Proofs.GetNodeFuel
namespace Mux.P16
open Mux Mux.P10

/-! ## A stable merge sort is insertion sort -/

section InsSort
variable {α : Type} (le : α → α → Bool)

/-- Insert `a` before the first element that is not smaller. -/
def insBefore (a : α) : List α → List α
  | [] => [a]
  | b :: s => if le a b then a :: b :: s else b :: insBefore a s

/-- Insertion sort, the earlier element first among equals. -/
def insSort : List α → List α
  | [] => []
  | a :: l => insBefore le a (insSort l)

theorem insBefore_append (a : α) : ∀ (l₁ l₂ : List α), (∀ b ∈ l₁, (!le a b) = true) → (∀ b ∈ l₂.head?, le a b = true) →
    insBefore le a (l₁ ++ l₂) = l₁ ++ a :: l₂
  | [], [], _, _ => rfl
  | [], b :: l₂, _, h2 => by
    simp only [List.nil_append, insBefore]
    rw [if_pos (h2 b (by simp))]
  | c :: l₁, l₂, h1, h2 => by
    have hc : le a c = false := by simpa using h1 c List.mem_cons_self
    simp only [List.cons_append, insBefore, hc, Bool.false_eq_true, if_false]
    rw [insBefore_append a l₁ l₂ (fun b hb => h1 b (List.mem_cons_of_mem _ hb)) h2]

theorem mergeSort_eq_ins (trans : ∀ a b c : α, le a b → le b c → le a c) (total : ∀ a b : α, le a b || le b a) :
    ∀ l : List α, l.mergeSort le = insSort le l
  | [] => by simp [insSort]
  | a :: l => by
    obtain ⟨l₁, l₂, h1, h2, h3⟩ := List.mergeSort_cons trans total a l
    have hs := List.pairwise_mergeSort trans total (a :: l)
    rw [h1] at hs
    have hl2 : ∀ b ∈ l₂.head?, le a b = true := by
      intro b hb
      have hb' : b ∈ l₂ := List.mem_of_mem_head? hb
      have := (List.pairwise_append.1 hs).2.1
      exact List.rel_of_pairwise_cons this hb'
    rw [h1, insSort, ← mergeSort_eq_ins trans total l, h2, insBefore_append le a l₁ l₂ h3 hl2]
end InsSort

/-! ## `getNode` through insertion sort -/

def leP (a b : Node) : Bool := decide (a.priority ≤ b.priority)

theorem sortChildren_eq (cs : List Node) : sortChildren cs = insSort leP cs := by
  unfold sortChildren
  exact mergeSort_eq_ins leP (fun a b c h1 h2 => by simp only [leP, decide_eq_true_eq] at *; omega)
    (fun a b => by simp only [leP, Bool.or_eq_true, decide_eq_true_eq]; omega) cs

/-- `node.sort` with the insertion sort. -/
def sortNodeI (n : Node) : Except Err Node := do
  if hasDupValues n.children then throw .unsupported
  let cs := insSort leP n.children
  let idx ← buildIndexes cs
  return n.setChildren cs idx

theorem sortNode_eq (n : Node) : sortNode n = sortNodeI n := by
  unfold sortNode sortNodeI
  simp only [sortChildren_eq]

/-- `getNodeBody` with `sortNodeI`. -/
def getNodeBodyI (ic : Interceptors) (recf : Node → Bytes → List Bytes → Except Err (Node × List Nat))
    (n : Node) (v : Bytes) (rest : List Bytes) : Except Err (Node × List Nat) := do
  let seg ← newSegment ic v
  match scanChildren seg n.children 0 0 0 with
  | .identical i =>
    match n.children[i]? with
    | none => throw (.fault 230)
    | some c =>
      match rest with
      | [] => return (n, [i])
      | v' :: rest' =>
        let (c', p) ← recf c v' rest'
        return (n.setChildren (n.children.set i c') n.indexes, i :: p)
  | .best l i =>
    if l ≤ 0 then
      let nn := newLeaf n.pattern seg
      let n1 ← sortNodeI (n.setChildren (n.children ++ [nn]) n.indexes)
      match childPos n1.children v with
      | none => throw (.fault 231)
      | some j =>
        match rest with
        | [] => return (n1, [j])
        | v' :: rest' =>
          let (nn', p) ← recf nn v' rest'
          return (n1.setChildren (n1.children.set j nn') n1.indexes, j :: p)
    else
      let l := l.toNat
      match n.children[i]? with
      | none => throw (.fault 232)
      | some c =>
        let (n1, j, parent) ←
          if c.seg.value.length ≤ l then pure (n, i, c)
          else do
            let cs0 := removeNodes n.children c.seg.value
            let (s1, s2) ← c.seg.splitAt ic l
            let lower := c.setSeg s2
            let ret : Node := .mk s1 (n.pattern ++ s1.value) 0 [] [] [lower]
            let ret ← sortNodeI ret
            let n1 ← sortNodeI (n.setChildren (cs0 ++ [ret]) n.indexes)
            match childPos n1.children s1.value with
            | none => throw (.fault 233)
            | some j => pure (n1, j, ret)
        if v.length ≤ l then
          match rest with
          | [] => return (n1, [j])
          | v' :: rest' =>
            let (p', path) ← recf parent v' rest'
            return (n1.setChildren (n1.children.set j p') n1.indexes, j :: path)
        else
          let (p', path) ← recf parent (v.drop l) rest
          return (n1.setChildren (n1.children.set j p') n1.indexes, j :: path)

theorem getNodeBody_eq_I (ic : Interceptors) (recf : Node → Bytes → List Bytes → Except Err (Node × List Nat)) :
    getNodeBody ic recf = getNodeBodyI ic recf := by
  funext n v rest
  unfold getNodeBody getNodeBodyI
  simp only [sortNode_eq]
  rfl

def getNodeFI (ic : Interceptors) : Nat → Node → Bytes → List Bytes → Except Err (Node × List Nat)
  | 0 => fun _ _ _ => .error (.fault 999)
  | k + 1 => getNodeBodyI ic (getNodeFI ic k)

theorem getNodeF_eq_I (ic : Interceptors) : ∀ k, getNodeF ic k = getNodeFI ic k
  | 0 => rfl
  | k + 1 => by
    show getNodeBody ic (getNodeF ic k) = getNodeBodyI ic (getNodeFI ic k)
    rw [getNodeF_eq_I ic k, getNodeBody_eq_I]

/-- `mux_eval` for histories that build nodes with several children. -/
macro "mux_eval2" "[" ids:ident,* "]" : tactic =>
  `(tactic| (simp only [$[$ids:ident],*, Tree.run, Tree.step, List.foldl_cons, List.foldl_nil,
      Tree.add, getNode_eq_F, getNodeF_eq_I]; decide +kernel))

end Mux.P16
