/-
  Mux.Proofs.HostsResolve — helper lemmas for `Mux/Properties/C14resolve.lean` and `C14delete.lean`:
  the private tree of a `Hosts` matcher after "interceptors first, then only `Add`" is the tree of an ADD-ONLY
  well-formed `Tree` history (so `C02_resolve` applies), the normalised host of an ASCII host is ASCII (so the
  matcher never leaves the modelled regexp domain), and the answer of `Tree.handler … GET` on such a tree in terms
  of the node found.
-/
import Mux.Proofs.HostsReach
import Mux.Proofs.HostsInv
import Mux.Proofs.ResolveHistory
import Mux.Proofs.ResolveAllChain
import Mux.Proofs.ResolveReach
namespace Mux.P30
open Mux Mux.P12 Mux.P14

/-! ## ASCII -/

theorem lowerByte_lt {b : UInt8} (h : b < 128) : lowerByte b < 128 := by
  unfold lowerByte
  split
  · rename_i hu
    have h1 : b.toNat ≤ 90 := hu.2
    show (b + 32).toNat < 128
    rw [UInt8.toNat_add]
    have : (32 : UInt8).toNat = 32 := rfl
    omega
  · exact h

theorem isAscii_iff {s : Bytes} : isAscii s = true ↔ ∀ b ∈ s, b < 128 := by
  unfold isAscii
  simp [List.all_eq_true]

theorem isAscii_toLower {s : Bytes} (h : isAscii s = true) : isAscii (toLower s) = true := by
  rw [isAscii_iff] at h ⊢
  intro b hb
  unfold toLower at hb
  obtain ⟨a, ha, rfl⟩ := List.mem_map.1 hb
  exact lowerByte_lt (h a ha)

theorem isAscii_take {s : Bytes} (h : isAscii s = true) (n : Nat) : isAscii (s.take n) = true := by
  rw [isAscii_iff] at h ⊢
  exact fun b hb => h b (List.mem_of_mem_take hb)

theorem isAscii_drop {s : Bytes} (h : isAscii s = true) (n : Nat) : isAscii (s.drop n) = true := by
  rw [isAscii_iff] at h ⊢
  exact fun b hb => h b (List.mem_of_mem_drop hb)

/-- The normalised form of an ASCII host is ASCII. -/
theorem isAscii_normHost {h : Bytes} (ha : isAscii h = true) : isAscii (normHost h) = true := by
  rw [normHost_eq_go]
  apply isAscii_toLower
  have h1 : isAscii (stripPortGo h) = true := by
    unfold stripPortGo
    split
    · split
      · exact isAscii_take ha _
      · exact ha
    · exact ha
  unfold stripBracketsGo
  split
  · exact isAscii_drop (isAscii_take h1 _) _
  · exact h1

/-! ## "Interceptors first, then only `Add`" is an add-only tree history -/

/-- `Add` of a domain whose lower-cased text has balanced, non-nested braces. -/
def HOp.addOk : HOp → Prop
  | .add d => WfPattern (toLower d) = true
  | _ => False

theorem HOp.addOk.domainOk {op : HOp} (h : HOp.addOk op) : HOp.domainOk op := by
  cases op with
  | add d => exact h
  | delete d => exact h.elim
  | registerInterceptor id rule => exact h.elim

/-- The `Tree` operation an `Add` stands for. -/
def topOfAdd (d : Bytes) : TOp := .add (toLower d) { base := .hostEmpty, wraps := [] } [] [mGET]

theorem adds_tree : ∀ (ops : List HOp) (hs : Hosts), (∀ op ∈ ops, HOp.addOk op) →
    ∃ tops : List TOp, P15.AddOnly tops ∧ (∀ o ∈ tops, o.wf = true) ∧ (hostsRun hs ops).tree = hs.tree.run tops := by
  intro ops
  induction ops with
  | nil => intro hs _; exact ⟨[], by simp [P15.AddOnly], by simp, rfl⟩
  | cons op ops ih =>
    intro hs hr
    have hop := hr op List.mem_cons_self
    obtain ⟨tops, ha, hw, ht⟩ := ih (hostsStep hs op) (fun o ho => hr o (List.mem_cons_of_mem _ ho))
    cases op with
    | add d =>
      refine ⟨topOfAdd d :: tops, ?_, ?_, ?_⟩
      · intro o ho
        rcases List.mem_cons.1 ho with rfl | ho
        · exact ⟨_, _, _, _, rfl⟩
        · exact ha o ho
      · intro o ho
        rcases List.mem_cons.1 ho with rfl | ho
        · exact hop
        · exact hw o ho
      · show (hostsRun (hostsStep hs (.add d)) ops).tree = _
        rw [ht, step_add_tree]; rfl
    | delete d => exact hop.elim
    | registerInterceptor id rule => exact hop.elim

/-- The private tree after registrations followed by `Add`s: an add-only, well-formed `Tree` history on the tree of
`NewHosts` with the registered interceptor table. -/
theorem regsAdds_tree {regs adds : List HOp} (hregs : ∀ op ∈ regs, HOp.isReg op) (hadds : ∀ op ∈ adds, HOp.addOk op) :
    ∃ ic tops, P15.AddOnly tops ∧ (∀ o ∈ tops, o.wf = true) ∧
      (hostsRun (hostsRun Hosts.empty regs) adds).tree = (hostTree0 ic).run tops := by
  obtain ⟨ic, hic⟩ := regs_tree regs Hosts.empty [] hregs rfl
  obtain ⟨tops, ha, hw, ht⟩ := adds_tree adds (hostsRun Hosts.empty regs) hadds
  exact ⟨ic, tops, ha, hw, by rw [ht, hic]⟩

/-! ## `Tree.handler … GET` never answers `.unsupported` when the matcher does not -/

theorem handler_get_supported {t : Tree} {env : Env} {path : Bytes} {ps : Params}
    (h : t.root.matchChildren env t.ic path ps ≠ .unsupported) : t.handler env path ps mGET ≠ .unsupported := by
  rw [Tree.handler_noTrace (Or.inr mGET_ne_mTRACE), handlerNoTrace_eq]
  unfold Tree.matched
  split
  · simp
  · rename_i hm
    split at hm
    · cases hm
    · exact absurd hm h
  · simp
  · split
    · simp
    · split
      · simp
      · split <;> simp

/-! ## The answer of `Tree.handler … GET` on a private tree with `HostsGet` -/

/-- On a private tree in which every node below the root has no handlers or a `GET` entry (`HostsGet`, every
reachable matcher), a `GET` lookup of a text other than `""`/`*` either finds no node (`ok = false`, the parameters
are those of the miss) or finds a node below the root with handlers and answers `ok`. -/
theorem hosts_found {hs : Hosts} (hg : HostsGet hs) {env : Env} {path : Bytes} {ps : Params} {f : Found}
    (hp : path ≠ []) (hstar : path ≠ [42]) (h : hs.tree.handler env path ps mGET = .res f) :
    (f.ok = false ∧ f.node = none ∧ hs.tree.root.matchChildren env hs.tree.ic path ps = .miss f.params) ∨
    (∃ n, f.ok = true ∧ f.node = some n ∧ n ∈ nodesL hs.tree.root.children ∧ n.handlers ≠ [] ∧
      hs.tree.root.matchChildren env hs.tree.ic path ps = .hit n f.params) := by
  have hmatched : hs.tree.matched env path ps = hs.tree.root.matchChildren env hs.tree.ic path ps := by
    unfold Tree.matched
    rw [if_neg]
    rintro (e | e)
    · exact hstar e
    · exact hp e
  rcases handler_get_res h with ⟨ps', hm, hok, hn, hps⟩ | ⟨n, ps', hm, hps, ⟨hd, hgd, hok, hn, _⟩ | ⟨hgn, hok⟩⟩
  · rw [hmatched] at hm
    exact .inl ⟨hok, hn, by rw [hps]; exact hm⟩
  · rw [hmatched] at hm
    obtain ⟨chain, hc, hpath, _, hh, _⟩ := Node.matchChildren_hit hm
    have hne : chain.map (·.1) ≠ [] := by
      intro e
      have : chain = [] := List.map_eq_nil_iff.1 e
      rw [this] at hpath
      exact hp hpath
    exact .inr ⟨n, hok, hn, chain_mem_below hc hne, hh, by rw [hps]; exact hm⟩
  · rw [hmatched] at hm
    obtain ⟨chain, hc, hpath, _, hh, _⟩ := Node.matchChildren_hit hm
    have hne : chain.map (·.1) ≠ [] := by
      intro e
      have : chain = [] := List.map_eq_nil_iff.1 e
      rw [this] at hpath
      exact hp hpath
    have hk := hg.chain_get hc hne hh
    rw [← AMap.get?_isSome_iff, hgn] at hk
    cases hk

end Mux.P30
