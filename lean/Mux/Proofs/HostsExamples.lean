/-
  Mux.Proofs.HostsExamples — a hand-built `Hosts` matcher for the non-vacuity examples of C14/C05:
  the tree `NewHosts(false, "api.example.com", "{sub}.example.com")` produces (checked against
  `hostsRun Hosts.empty [.add …, .add …]` with `#eval`; `getNode` is well-founded, so the kernel cannot
  replay the history itself).
-/
import Mux.Proofs.HostsInv
namespace Mux.P12
open Mux

/-- `api.example.com` -/
def hApi : Bytes := [97,112,105,46,101,120,97,109,112,108,101,46,99,111,109]
/-- `{sub}.example.com` -/
def hSub : Bytes := [123,115,117,98,125,46,101,120,97,109,112,108,101,46,99,111,109]

/-- The handler map `Hosts.Add` gives a domain node. -/
def hostLeafHandlers : AMap Handler :=
  [(mHEAD, { base := .hostEmpty }), (mGET, { base := .hostEmpty }), (mOPTIONS, { base := .nil }),
   (mNotAllowed, { base := .nil })]

def exApi : Node := .mk { value := hApi } hApi (1 + 128 + 256 + 64) hostLeafHandlers [] []
def exSub : Node :=
  .mk { value := hSub, kind := .named, name := [115,117,98], suffix := [46,101,120,97,109,112,108,101,46,99,111,109] }
    hSub (1 + 128 + 256 + 64) hostLeafHandlers [] []

def exHostsTree : Tree :=
  { root := .mk { value := [] } [] (256 + 64 + 1) [(mOPTIONS, { base := .nil }), (mNotAllowed, { base := .nil })]
      [] [exApi, exSub],
    counts := [(mGET, 2)], ic := [], name := [104,111,115,116], notFound := { base := .nil },
    trace := some { base := .nil }, optionsBase := .nil, notAllowedBase := .nil }

def exHosts : Hosts := { tree := exHostsTree }

theorem hostLeaf_good (seg : Seg) (pat : Bytes) : Good true (.mk seg pat (1 + 128 + 256 + 64) hostLeafHandlers [] []) := by
  obtain ⟨c1, c2, c3, c4, c5, c6, c7, c8, c9, c10⟩ := method_consts_ne
  obtain ⟨t1, t2, t3, t4, t5⟩ := mem_table_consts
  have hkeys : hostLeafHandlers.keys = [mHEAD, mGET, mOPTIONS, mNotAllowed] := rfl
  have hmi : (1 + 128 + 256 + 64 : Nat) = nodeMethodIndex true hostLeafHandlers := by decide +kernel
  refine ⟨⟨hmi, .inr ⟨⟨?_, ?_, ?_, ?_⟩, ?_, ?_⟩⟩, by intro e he; simp [Node.indexes] at he⟩
  · show hostLeafHandlers.keys.Nodup
    rw [hkeys]; decide +kernel
  · show mHEAD ∈ hostLeafHandlers.keys ↔ mGET ∈ hostLeafHandlers.keys
    rw [hkeys]; simp
  · show ∀ k ∈ hostLeafHandlers.keys, KeyAdm true k
    rw [hkeys]
    intro k hk
    simp only [List.mem_cons, List.not_mem_nil, or_false] at hk
    rcases hk with rfl | rfl | rfl | rfl
    · exact .inr ⟨t2, fun _ => c7⟩
    · exact .inr ⟨t1, fun _ => c4⟩
    · exact .inr ⟨t3, fun _ => c9⟩
    · exact .inl rfl
  · show HeadBase hostLeafHandlers
    intro a b ha hb
    have h1 : hostLeafHandlers.get? mGET = some { base := .hostEmpty } := by decide +kernel
    have h2 : hostLeafHandlers.get? mHEAD = some { base := .hostEmpty } := by decide +kernel
    rw [h1] at ha; rw [h2] at hb
    cases ha; cases hb; rfl
  · show mOPTIONS ∈ hostLeafHandlers.keys
    rw [hkeys]; simp
  · show mNotAllowed ∈ hostLeafHandlers.keys
    rw [hkeys]; simp

theorem exHosts_inv : TreeInv exHosts.tree := by
  refine ⟨rfl, by decide +kernel, ?_, ?_⟩
  · intro e he; simp [exHosts, exHostsTree, Node.indexes] at he
  · show AllL (Good true) [exApi, exSub]
    simp only [AllL, and_true, exApi, exSub, Node.All]
    exact ⟨hostLeaf_good _ _, hostLeaf_good _ _⟩

theorem exHosts_names : NamesOkL [] exHosts.tree.root.children := by decide

theorem exHosts_idx : Node.All IdxLit exHosts.tree.root := by
  simp only [exHosts, exHostsTree, exApi, exSub, Node.All, AllL, and_true]
  refine ⟨?_, ?_, ?_⟩ <;> exact IdxLit.of_nil rfl

theorem exHosts_get : HostsGet exHosts := by
  have hk : mGET ∈ hostLeafHandlers.keys := by decide
  simp only [HostsGet, exHosts, exHostsTree, Node.children, exApi, exSub, AllL, Node.All, and_true, NodeOk, GetQ,
    Node.handlers, IdxOk, Node.indexes]
  exact ⟨⟨.inr hk, by simp⟩, ⟨.inr hk, by simp⟩⟩

/-- The observable part of a matcher outcome, comparable by `decide`. -/
def outOf : MatchOut → Option (Bool × Bytes × Params)
  | .accept p ps => some (true, p, ps)
  | .reject p ps => some (false, p, ps)
  | _ => none

def exEnv : Env := ⟨fun _ _ => true⟩

end Mux.P12
