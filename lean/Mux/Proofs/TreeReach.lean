/-
  Mux.Proofs.TreeReach — reachable trees and routers; a hand-built tree satisfying the invariants
  (the shape `Tree.run` produces for `GET /posts/{id}`), used for the non-vacuity examples.
-/
import Mux.Proofs.TreeCounts
namespace Mux

/-! ## Reachability -/

/-- A tree produced from a fresh one by any history. -/
def Tree.Reach (t : Tree) : Prop :=
  ∃ name ic nf tr ob nb ops, t = (Tree.new name ic nf tr ob nb).run ops

theorem Tree.Reach.inv2 {t : Tree} (h : t.Reach) : TreeInv2 t := by
  obtain ⟨name, ic, nf, tr, ob, nb, ops, rfl⟩ := h
  exact inv2_run (inv2_new name ic nf tr ob nb) ops

theorem Tree.Reach.inv {t : Tree} (h : t.Reach) : TreeInv t := h.inv2.toTreeInv

theorem Tree.run_append (t : Tree) (a b : List TOp) : t.run (a ++ b) = (t.run a).run b := by
  simp [Tree.run, List.foldl_append]

theorem Tree.Reach.step {t : Tree} (h : t.Reach) (op : TOp) : (t.step op).Reach := by
  obtain ⟨name, ic, nf, tr, ob, nb, ops, rfl⟩ := h
  exact ⟨name, ic, nf, tr, ob, nb, ops ++ [op], by simp [Tree.run]⟩

/-- A tree built with non-nil bases by a history that registers non-nil handlers only. -/
def Tree.ReachNonNil (t : Tree) : Prop :=
  ∃ name ic nf tr ob nb ops, nf.base ≠ .nil ∧ (∀ h, tr = some h → h.base ≠ .nil) ∧ ob ≠ .nil ∧ nb ≠ .nil ∧
    (∀ op ∈ ops, op.BasesOk (· ≠ .nil)) ∧ t = (Tree.new name ic nf tr ob nb).run ops

theorem Tree.ReachNonNil.reach {t : Tree} (h : t.ReachNonNil) : t.Reach := by
  obtain ⟨name, ic, nf, tr, ob, nb, ops, _, _, _, _, _, rfl⟩ := h
  exact ⟨name, ic, nf, tr, ob, nb, ops, rfl⟩

theorem Tree.ReachNonNil.vals {t : Tree} (h : t.ReachNonNil) : TreeVals (· ≠ .nil) t := by
  obtain ⟨name, ic, nf, tr, ob, nb, ops, h1, h2, h3, h4, h5, rfl⟩ := h
  exact vals_run (vals_new name ic nf tr ob nb h1 h2 h3 h4) ops h5

/-! ## Routers -/

/-- Every router operation is one tree operation (registering a `user` handler). -/
theorem Router.step_tree (r : Router) (op : ROp) :
    ∃ top : TOp, top.BasesOk (· ≠ .nil) ∧ (r.step op).tree = r.tree.step top := by
  cases op with
  | handle p h m methods =>
    refine ⟨.add p { base := .user h } (m ++ r.ms) methods, by simp [TOp.BasesOk], ?_⟩
    simp only [Router.step, Router.handle, Tree.step, bind, Except.bind, pure, Except.pure]
    cases r.tree.add p { base := .user h } (m ++ r.ms) methods <;> rfl
  | remove p methods =>
    refine ⟨.remove p methods, trivial, ?_⟩
    simp only [Router.step, Router.remove, Tree.step, bind, Except.bind, pure, Except.pure]
    cases r.tree.remove p methods <;> rfl
  | clean pre =>
    refine ⟨.clean pre, trivial, ?_⟩
    simp only [Router.step, Router.clean, Tree.step, bind, Except.bind, pure, Except.pure]
    cases r.tree.clean pre <;> rfl
  | use m => exact ⟨.use m, trivial, rfl⟩

theorem Router.run_tree (r : Router) (ops : List ROp) :
    ∃ tops : List TOp, (∀ top ∈ tops, top.BasesOk (· ≠ .nil)) ∧ (r.run ops).tree = r.tree.run tops := by
  unfold Router.run
  induction ops generalizing r with
  | nil => exact ⟨[], by simp, rfl⟩
  | cons op ops ih =>
    obtain ⟨top, htop, hstep⟩ := Router.step_tree r op
    obtain ⟨tops, htops, hrun⟩ := ih (r.step op)
    refine ⟨top :: tops, ?_, ?_⟩
    · intro x hx
      rcases List.mem_cons.1 hx with rfl | hx
      · exact htop
      · exact htops x hx
    · simp only [List.foldl_cons]
      rw [hrun, hstep]; rfl

/-- A router made by `NewRouter` and any history of `Handle/Remove/Clean/Use`. -/
def Router.Reach (r : Router) : Prop := ∃ cfg r0 ops, Router.new cfg = some r0 ∧ r = r0.run ops

theorem Router.Reach.tree {r : Router} (h : r.Reach) : r.tree.Reach := by
  obtain ⟨cfg, r0, ops, hnew, rfl⟩ := h
  obtain ⟨tops, _, hrun⟩ := Router.run_tree r0 ops
  unfold Router.new at hnew
  split at hnew
  · simp at hnew
  simp only [Option.some.injEq] at hnew
  subst hnew
  exact ⟨_, _, _, _, _, _, tops, hrun⟩

theorem Router.run_treeNonNil {cfg : RouterCfg} {r0 : Router} (hnew : Router.new cfg = some r0)
    (hnf : cfg.notFoundBase ≠ .nil) (ops : List ROp) : (r0.run ops).tree.ReachNonNil := by
  obtain ⟨tops, htops, hrun⟩ := Router.run_tree r0 ops
  unfold Router.new at hnew
  split at hnew
  · simp at hnew
  simp only [Option.some.injEq] at hnew
  subst hnew
  refine ⟨_, _, _, _, _, _, tops, ?_, ?_, ?_, ?_, htops, hrun⟩
  · exact hnf
  · intro h hh
    split at hh
    · simp at hh; subst hh; simp
    · simp at hh
  · simp
  · simp

/-! ## `Hosts` matchers: a private tree whose interceptor table may grow -/

theorem TreeInv.setIc {t : Tree} (h : TreeInv t) (ic : Interceptors) : TreeInv { t with ic := ic } :=
  ⟨h.rootKeys, h.rootMi, h.rootIdx, h.below⟩

/-- The invariant of a `Hosts` matcher: its tree satisfies `TreeInv`. -/
theorem Hosts.inv_empty : TreeInv Hosts.empty.tree := inv_new _ _ _ _ _ _

theorem Hosts.inv_add {hs hs' : Hosts} {domain : Bytes} (h : TreeInv hs.tree) (he : hs.add domain = .ok hs') :
    TreeInv hs'.tree := by
  unfold Hosts.add at he
  simp only [bind, Except.bind, pure, Except.pure] at he
  split at he
  · simp at he
  rename_i t' ht'
  simp only [Except.ok.injEq] at he
  subst he
  exact Mux.inv_add h ht'

theorem Hosts.inv_delete {hs hs' : Hosts} {domain : Bytes} (h : TreeInv hs.tree) (he : hs.delete domain = .ok hs') :
    TreeInv hs'.tree := by
  unfold Hosts.delete at he
  simp only [bind, Except.bind, pure, Except.pure] at he
  split at he
  · simp at he
  rename_i t' ht'
  simp only [Except.ok.injEq] at he
  subst he
  exact Mux.inv_remove h ht'

theorem Hosts.inv_registerInterceptor {hs hs' : Hosts} {id : IcptId} {rule : Bytes} (h : TreeInv hs.tree)
    (he : hs.registerInterceptor id rule = some hs') : TreeInv hs'.tree := by
  unfold Hosts.registerInterceptor at he
  split at he
  · simp at he
  simp only [Option.some.injEq] at he
  subst he
  exact h.setIc _

/-! ## A hand-built instance -/

/-- The node for `{id}` with `GET` registered (what `Handle("/posts/{id}", h, GET)` creates). -/
def exLeaf : Node :=
  .mk { value := bytesOfString "{id}", kind := .named, name := bytesOfString "id", endpoint := true }
    (bytesOfString "/posts/{id}") (1 + 128 + 256)
    [(mHEAD, { base := .user 1 }), (mGET, { base := .user 1 }), (mOPTIONS, { base := .options }),
     (mNotAllowed, { base := .notAllowed })] [] []

def exMid : Node := .mk { value := bytesOfString "/posts/" } (bytesOfString "/posts/") 0 [] [] [exLeaf]

/-- A router tree without TRACE holding the single route `GET /posts/{id}`. -/
def exTree : Tree :=
  { root := .mk { value := [] } [] (256 + 1) [(mOPTIONS, { base := .options }), (mNotAllowed, { base := .notAllowed })]
      [] [exMid],
    counts := [(mGET, 1)], name := bytesOfString "r", notFound := { base := .notFound } }

theorem exLeaf_good : Good false exLeaf := by
  obtain ⟨c1, c2, c3, c4, c5, c6, c7, c8, c9, c10⟩ := method_consts_ne
  obtain ⟨t1, t2, t3, t4, t5⟩ := mem_table_consts
  have hkeys : exLeaf.handlers.keys = [mHEAD, mGET, mOPTIONS, mNotAllowed] := rfl
  refine ⟨⟨by decide +kernel, .inr ⟨⟨?_, ?_, ?_, ?_⟩, ?_, ?_⟩⟩, by intro e he; simp [exLeaf] at he⟩
  · rw [hkeys]; decide +kernel
  · rw [hkeys]; simp
  · rw [hkeys]
    intro k hk
    simp only [List.mem_cons, List.not_mem_nil, or_false] at hk
    rcases hk with rfl | rfl | rfl | rfl
    · exact .inr ⟨t2, by simp⟩
    · exact .inr ⟨t1, by simp⟩
    · exact .inr ⟨t3, by simp⟩
    · exact .inl rfl
  · intro a b ha hb
    have h1 : exLeaf.handlers.get? mGET = some { base := .user 1 } := by decide +kernel
    have h2 : exLeaf.handlers.get? mHEAD = some { base := .user 1 } := by decide +kernel
    rw [h1] at ha; rw [h2] at hb
    cases ha; cases hb; rfl
  · rw [hkeys]; simp
  · rw [hkeys]; simp

theorem exTree_inv2 : TreeInv2 exTree := by
  refine ⟨⟨rfl, by decide +kernel, ?_, ?_⟩, ⟨by decide +kernel, ?_⟩⟩
  · intro e he; simp [exTree] at he
  · show AllL (Good false) [exMid]
    simp only [AllL, and_true, exMid, Node.All]
    exact ⟨⟨GoodQ_empty false, by intro e he; simp at he⟩, by
      have := exLeaf_good
      unfold exLeaf at this ⊢
      exact ⟨this, trivial⟩⟩
  · intro k hk
    have : k = mGET := by simpa [exTree, AMap.keys] using hk
    subst this
    exact ⟨mem_table_consts.1, method_consts_ne.2.1, by simp [exTree, Tree.hasTrace]⟩

theorem exTree_inv : TreeInv exTree := exTree_inv2.toTreeInv

theorem exTree_vals : TreeVals (· ≠ .nil) exTree := by
  refine ⟨?_, by simp [exTree], by simp [exTree], by simp [exTree], by simp [exTree]⟩
  simp only [exTree, exMid, exLeaf, Node.All, AllL, and_true, NodeOk, ValsQ, IdxOk]
  simp

theorem exLeaf_mem : exLeaf ∈ nodesL exTree.root.children := by
  simp [exTree, exMid, nodesL, Node.nodes, exLeaf]

theorem exLeaf_mem_nodes : exLeaf ∈ exTree.root.nodes := by
  rw [Node.nodes_eq]; exact List.mem_cons_of_mem _ exLeaf_mem

/-! ## The same instance with a TRACE handler configured -/

/-- The same with TRACE configured: node for `{id}` with `GET` registered (what `Handle("/posts/{id}", h, GET)` creates). -/
def exLeafT : Node :=
  .mk { value := bytesOfString "{id}", kind := .named, name := bytesOfString "id", endpoint := true }
    (bytesOfString "/posts/{id}") (1 + 128 + 256 + 64)
    [(mHEAD, { base := .user 1 }), (mGET, { base := .user 1 }), (mOPTIONS, { base := .options }),
     (mNotAllowed, { base := .notAllowed })] [] []

def exMidT : Node := .mk { value := bytesOfString "/posts/" } (bytesOfString "/posts/") 0 [] [] [exLeafT]

/-- A router tree with a TRACE handler holding the single route `GET /posts/{id}`. -/
def exTreeT : Tree :=
  { root := .mk { value := [] } [] (256 + 1 + 64) [(mOPTIONS, { base := .options }), (mNotAllowed, { base := .notAllowed })]
      [] [exMidT],
    counts := [(mGET, 1)], name := bytesOfString "r", notFound := { base := .notFound }, trace := some { base := .trace } }

theorem exLeafT_good : Good true exLeafT := by
  obtain ⟨c1, c2, c3, c4, c5, c6, c7, c8, c9, c10⟩ := method_consts_ne
  obtain ⟨t1, t2, t3, t4, t5⟩ := mem_table_consts
  have hkeys : exLeafT.handlers.keys = [mHEAD, mGET, mOPTIONS, mNotAllowed] := rfl
  refine ⟨⟨by decide +kernel, .inr ⟨⟨?_, ?_, ?_, ?_⟩, ?_, ?_⟩⟩, by intro e he; simp [exLeafT] at he⟩
  · rw [hkeys]; decide +kernel
  · rw [hkeys]; simp
  · rw [hkeys]
    intro k hk
    simp only [List.mem_cons, List.not_mem_nil, or_false] at hk
    rcases hk with rfl | rfl | rfl | rfl
    · exact .inr ⟨t2, fun _ => c7⟩
    · exact .inr ⟨t1, fun _ => c4⟩
    · exact .inr ⟨t3, fun _ => c9⟩
    · exact .inl rfl
  · intro a b ha hb
    have h1 : exLeafT.handlers.get? mGET = some { base := .user 1 } := by decide +kernel
    have h2 : exLeafT.handlers.get? mHEAD = some { base := .user 1 } := by decide +kernel
    rw [h1] at ha; rw [h2] at hb
    cases ha; cases hb; rfl
  · rw [hkeys]; simp
  · rw [hkeys]; simp

theorem exTreeT_inv2 : TreeInv2 exTreeT := by
  refine ⟨⟨rfl, by decide +kernel, ?_, ?_⟩, ⟨by decide +kernel, ?_⟩⟩
  · intro e he; simp [exTreeT] at he
  · show AllL (Good true) [exMidT]
    simp only [AllL, and_true, exMidT, Node.All]
    exact ⟨⟨GoodQ_empty true, by intro e he; simp at he⟩, by
      have := exLeafT_good
      unfold exLeafT at this ⊢
      exact ⟨this, trivial⟩⟩
  · intro k hk
    have : k = mGET := by simpa [exTreeT, AMap.keys] using hk
    subst this
    exact ⟨mem_table_consts.1, method_consts_ne.2.1, fun _ => method_consts_ne.2.2.2.1⟩

theorem exTreeT_inv : TreeInv exTreeT := exTreeT_inv2.toTreeInv

theorem exTreeT_vals : TreeVals (· ≠ .nil) exTreeT := by
  refine ⟨?_, by simp [exTreeT], by simp [exTreeT], by simp [exTreeT], by simp [exTreeT]⟩
  simp only [exTreeT, exMidT, exLeafT, Node.All, AllL, and_true, NodeOk, ValsQ, IdxOk]
  simp

theorem exLeafT_mem : exLeafT ∈ nodesL exTreeT.root.children := by
  simp [exTreeT, exMidT, nodesL, Node.nodes, exLeafT]


theorem exLeafT_mem_nodes : exLeafT ∈ exTreeT.root.nodes := by
  rw [Node.nodes_eq]; exact List.mem_cons_of_mem _ exLeafT_mem

end Mux
