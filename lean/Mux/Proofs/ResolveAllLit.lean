/-
  Mux.Proofs.ResolveAllLit — C02 for histories with `Remove`/`Clean`, resolver side: the reference
  resolver `Spec.resolveFuel` is invariant under cutting a LITERAL group text into consecutive pieces.

  `resolveFuel_lit`: when all remainders `R` continue with one and the same literal text `e ≠ []`
  (`e` = the longest common prefix of their leading literals), the resolver consumes exactly `e` and
  goes on with the stripped remainders.  Hence a tree in which a literal node is followed by a
  handler-less literal chain (what `Remove` leaves behind) is answered like the merged node.
-/
import Mux.Proofs.ResolveStatic
import Mux.Proofs.CutPoint
namespace Mux.P16
open Mux Mux.Spec Mux.P15

/-! ## Prefix facts -/

theorem hasPrefix_iff (s p : Bytes) : hasPrefix s p = true ↔ p <+: s := by
  unfold hasPrefix; exact List.isPrefixOf_iff_prefix

theorem hasPrefix_append (path a b : Bytes) :
    hasPrefix path (a ++ b) = (hasPrefix path a && hasPrefix (path.drop a.length) b) := by
  rw [Bool.eq_iff_iff, Bool.and_eq_true, hasPrefix_iff, hasPrefix_iff, hasPrefix_iff]
  constructor
  · rintro ⟨t, rfl⟩
    refine ⟨⟨b ++ t, by simp⟩, ⟨t, ?_⟩⟩
    simp
  · rintro ⟨⟨u, rfl⟩, ⟨t, ht⟩⟩
    refine ⟨t, ?_⟩
    simp only [List.drop_left] at ht
    rw [List.append_assoc, ht]

theorem leadLit_prefix : ∀ r : Bytes, leadLit r <+: r
  | [] => List.prefix_refl _
  | b :: r => by
    unfold leadLit
    split
    · exact List.nil_prefix
    · exact (List.prefix_cons_inj b).2 (leadLit_prefix r)

theorem start_not_mem_leadLit : ∀ r : Bytes, startByte ∉ leadLit r
  | [] => by simp [leadLit]
  | b :: r => by
    unfold leadLit
    split
    · simp
    · rename_i hb
      simp only [List.mem_cons, not_or]
      exact ⟨fun e => hb e.symm, start_not_mem_leadLit r⟩

theorem leadLit_of_cons_ne {b : UInt8} (hb : b ≠ startByte) (r : Bytes) : leadLit (b :: r) = b :: leadLit r := by
  simp [leadLit, hb]

theorem keyOf_cons_ne {b : UInt8} (hb : b ≠ startByte) (r : Bytes) : keyOf (b :: r) = some ([], some b) := by
  simp [keyOf, hb]

theorem litOf_cons_ne {b : UInt8} (hb : b ≠ startByte) (r : Bytes) : litOf (b :: r) = leadLit (b :: r) := by
  simp [litOf, hb]

/-! ## The resolver on special lists -/

theorem resolveFuel_nil (env : Env) (ic : Interceptors) (f : Nat) (path : Bytes) (ps : AMap Bytes) :
    resolveFuel env ic f [] path ps = [] := by
  cases f with
  | zero => rfl
  | succ f =>
    rw [resolveFuel_succ]
    simp [byKind, groups_nil, ended]

/-- A route that ends here does not matter while the path is not used up. -/
theorem resolveFuel_cons_nil (env : Env) (ic : Interceptors) (f : Nat) (p : Bytes) (R : List Rem) {path : Bytes}
    (hp : path ≠ []) (ps : AMap Bytes) :
    resolveFuel env ic f (([], p) :: R) path ps = resolveFuel env ic f R path ps := by
  cases f with
  | zero => rfl
  | succ f =>
    rw [resolveFuel_succ, resolveFuel_succ]
    simp only [byKind, groups_cons_nil, ended, if_neg hp]

/-! ## One literal group -/

section Lit
variable (env : Env) (ic : Interceptors) {R : List Rem} {e : Bytes}
  (he : lcp (R.map (fun r => leadLit r.1)) = e) (hne : e ≠ [])
include he hne

theorem lit_ne_nil : R ≠ [] := by
  rintro rfl
  exact hne (by rw [← he]; rfl)

omit hne in
theorem lit_prefix {r : Rem} (hr : r ∈ R) : e <+: r.1 := by
  have : e <+: leadLit r.1 := by
    rw [← he]
    exact lcp_prefix (List.mem_map.2 ⟨r, hr, rfl⟩)
  exact this.trans (leadLit_prefix _)

theorem lit_start_not_mem : startByte ∉ e := by
  obtain ⟨r, hr⟩ := List.exists_mem_of_ne_nil _ (lit_ne_nil he hne)
  have : e <+: leadLit r.1 := by
    rw [← he]
    exact lcp_prefix (List.mem_map.2 ⟨r, hr, rfl⟩)
  intro hm
  exact start_not_mem_leadLit r.1 (this.subset hm)

/-- Every remainder starts with the first byte of `e`, which is not `{`. -/
theorem lit_head : ∃ b e', e = b :: e' ∧ b ≠ startByte ∧ ∀ r ∈ R, ∃ t, r.1 = b :: t := by
  cases e with
  | nil => exact absurd rfl hne
  | cons b e' =>
    refine ⟨b, e', rfl, ?_, ?_⟩
    · intro hb
      exact lit_start_not_mem he hne (by simp [hb])
    · intro r hr
      obtain ⟨t, ht⟩ := lit_prefix he hr
      exact ⟨e' ++ t, by rw [← ht]; rfl⟩

theorem lit_groups : groups R = [{ value := e, members := R.map (fun r => (r.1.drop e.length, r.2)) }] := by
  obtain ⟨b, e', rfl, hb, hR⟩ := lit_head he hne
  have hkey : ∀ r ∈ R, keyOf r.1 = some (([], some b) : Key) := by
    intro r hr
    obtain ⟨t, ht⟩ := hR r hr
    rw [ht]; exact keyOf_cons_ne hb t
  have hg := groups_block (B := R) (R' := []) (k := ([], some b)) (lit_ne_nil he hne) hkey (by simp)
  rw [List.append_nil, groups_nil] at hg
  rw [hg]
  congr 1
  have hfil : R.filter (fun r => keyOf r.1 = some (([], some b) : Key)) = R := by
    rw [List.filter_eq_self]
    intro r hr
    simpa using hkey r hr
  have hlits : R.map (fun r => litOf r.1) = R.map (fun r => leadLit r.1) := by
    apply List.map_congr_left
    intro r hr
    obtain ⟨t, ht⟩ := hR r hr
    rw [ht]; exact litOf_cons_ne hb t
  unfold mkGroup
  simp only [hfil, hlits, he, List.nil_append]

theorem lit_ended (path : Bytes) (ps : AMap Bytes) : ended R path ps = [] := by
  obtain ⟨b, e', _, _, hR⟩ := lit_head he hne
  unfold ended
  split
  · rw [List.map_eq_nil_iff, List.filter_eq_nil_iff]
    intro r hr
    obtain ⟨t, ht⟩ := hR r hr
    simp [ht]
  · rfl

/-- **The resolver consumes the common literal continuation and nothing else.** -/
theorem resolveFuel_lit (hlen : e.length ≤ maxInt16) (f : Nat) (path : Bytes) (ps : AMap Bytes) :
    resolveFuel env ic (f + 1) R path ps =
      if hasPrefix path e then
        resolveFuel env ic f (R.map (fun r => (r.1.drop e.length, r.2))) (path.drop e.length) ps
      else [] := by
  have hseg : newSegment ic e = .ok { value := e } := P9.newSegment_noStart ic (lit_start_not_mem he hne) hlen
  have hby : ∀ k, byKind env ic f R k path ps =
      if k = .str then
        (if hasPrefix path e then
          resolveFuel env ic f (R.map (fun r => (r.1.drop e.length, r.2))) (path.drop e.length) ps
        else [])
      else [] := by
    intro k
    unfold byKind
    rw [lit_groups he hne]
    simp only [List.flatMap_cons, List.flatMap_nil, List.append_nil, tryGroup, hseg]
    by_cases hk : k = .str
    · subst hk
      simp only [if_true]
      have hm : ({ value := e } : Seg).match env ic path =
          if hasPrefix path e then .yes [] (path.drop e.length) else .no := rfl
      rw [hm]
      by_cases hp : hasPrefix path e = true
      · simp [hp, addParam]
      · simp [hp]
    · have : ¬ (Kind.str = k) := fun h => hk h.symm
      simp [this, hk]
  rw [resolveFuel_succ, lit_ended he hne, hby .str, hby .icpt, hby .rx, hby .named]
  simp
end Lit

end Mux.P16
