/-
  Mux.Proofs.HostsLateFrame — the frame property of `Tree.remove` (`C03_frame_remove`) on trees whose segments were
  parsed under different interceptor tables, hence `Hosts.Delete` leaves every host resolved to ANOTHER domain matched
  as before also after histories with late `RegisterInterceptor` calls.

  `Mux/Proofs/Frame.lean` (P14) is followed line by line; its hypothesis `Node.All (P8.SOk2 ic0)` (one table for all
  segments) is replaced by the table-free `Node.All SX3`, `Sh` (for `findPath`) by `PatternOk`.
-/
import Mux.Proofs.HostsLateStruct3
import Mux.Proofs.HostsLate
import Mux.Proofs.Frame
import Mux.Proofs.PatternOkStep
import Mux.Proofs.RemoveNoFault
namespace Mux.P17
open Mux Mux.P11 Mux.P14

/-! ## The index is the scan -/

theorem indexOk_of_SX3 {n : Node} (h : SX3 n) (hne : n.indexes ≠ []) :
    ∃ lits others, n.children = lits ++ others ∧ IndexOk n.indexes lits := by
  obtain ⟨lits, others, e, hl, ho⟩ := h.sorted.split_lits
  refine ⟨lits, others, e, ?_⟩
  have hvals : ∀ c ∈ lits, c.seg.value ≠ [] := fun c hc => by
    obtain ⟨ic0, hc0⟩ := h.segs c (by rw [e]; exact List.mem_append_left _ hc)
    exact hc0.ne
  have hpw : lits.Pairwise (fun a b => a.seg.value.head? ≠ b.seg.value.head?) := by
    have hd' := h.distinct
    rw [e] at hd'
    have := (List.pairwise_append.1 hd').1
    rw [List.pairwise_iff_getElem] at this ⊢
    intro i j hi hj hij
    exact this i j hi hj hij (hl _ (List.getElem_mem hi)) (hl _ (List.getElem_mem hj))
  have hidx : n.indexes = P8.litEntries lits 0 := by
    have hb := h.index
    unfold buildIndexes at hb
    split at hb
    · simp only [Except.ok.injEq] at hb; exact absurd hb.symm hne
    · rw [e, P8.buildIndexesLoop_lits lits others 0 [] (fun c hc => ⟨hl c hc, hvals c hc⟩) ho hpw (by simp)] at hb
      simpa using hb.symm
  rw [hidx]
  refine ⟨hl, P8.litEntries_length lits 0, ?_, ?_⟩
  · intro i c hc
    have hcv := hvals c (List.mem_of_getElem? hc)
    cases hv : c.seg.value with
    | nil => exact absurd hv hcv
    | cons b v =>
      refine ⟨b, v, rfl, ?_⟩
      have := P8.litEntries_maps lits 0 i c hpw hvals hc
      simpa [hv] using this
  · intro b i hbi
    have := P8.litEntries_range lits 0 b i hbi
    omega

theorem All_idxLit_of_SX3 : ∀ n : Node, Node.All SX3 n → Node.All IdxLit n :=
  (AllL_mono (fun _ h => SX.idxLit (SX3.toSX h))).1
theorem AllL_idxLit_of_SX3 : ∀ cs : List Node, AllL SX3 cs → AllL IdxLit cs :=
  (AllL_mono (fun _ h => SX.idxLit (SX3.toSX h))).2

/-- `matchChildren` is the scan followed by the self step on nodes satisfying `SX3`. -/
theorem mc_scanX (env : Env) (ic : Interceptors) {n : Node} (h : Node.All SX3 n)
    {rp : Bytes} {ps : Params} {used : List Bytes} (hN : Node.NamesOk used n) (hk : ∀ k ∈ ps.keys, k ∈ used) :
    n.matchChildren env ic rp ps =
      match matchFrom env ic n.children 0 rp ps with
      | .miss ps2 => if rp.isEmpty ∧ n.handlers.length > 0 then .hit n ps2 else .miss ps2
      | r => r := by
  have hNL := (Node.namesOk_iff used n).1 hN
  have key : n.matchChildren env ic rp ps = P8.selfStep n rp (matchFrom env ic n.children 0 rp ps) := by
    by_cases hi : n.indexes = []
    · exact P8.matchChildren_noIndex' env ic n hi rp ps
    · obtain ⟨lits, others, e, hI⟩ := indexOk_of_SX3 h.head hi
      have ht : TrackL used n.children ps := ⟨hNL, AllL_idxLit_of_SX3 _ h.tail, hk⟩
      cases n with
      | mk seg pat mi hs idx cs =>
        simp only [Node.children_mk, Node.indexes_mk] at e hI ht ⊢
        subst e
        rw [Node.matchChildren_indexed_eq_scan env ic seg pat mi hs hI ht, ← matchFrom_eq_foldl]
        unfold P8.selfStep
        simp only [Node.handlers_mk]
        cases matchFrom env ic (lits ++ others) 0 rp ps <;> rfl
  rw [key]
  unfold P8.selfStep
  cases matchFrom env ic n.children 0 rp ps <;> rfl

theorem sx3_leaf_noidx {c : Node} (h : SX3 c) (hc : c.children = []) : c.indexes = [] := by
  have := h.index
  rw [hc] at this
  simpa [buildIndexes, indexesSize] using this.symm

theorem mc_empty_leafX (env : Env) (ic : Interceptors) (c : Node) (h : SX3 c)
    (hs : c.size = 0) (hc : c.children.isEmpty = true) (rp : Bytes) (ps : Params) :
    c.matchChildren env ic rp ps = .miss ps :=
  mc_empty_leaf env ic c (sx3_leaf_noidx h (by simpa using hc)) hs hc rp ps

/-! ## The frame property of `removeAt` -/

theorem frame_removeAtX (env : Env) (ic : Interceptors) (f : Node → Node) (hf : FrameF f) :
    ∀ (path : List Nat) (n n' x : Node), Node.All SX3 n → n.getAt path = some x →
      n.removeAt f path = .ok n' → ∀ (rp : Bytes) (ps : Params) (used : List Bytes),
      Node.NamesOk used n → (∀ k ∈ ps.keys, k ∈ used) →
      FrameMR x.pattern (n.matchChildren env ic rp ps) (n'.matchChildren env ic rp ps) := by
  intro path
  induction path with
  | nil =>
    intro n n' x hn hx h rp ps used hnames hkeys
    simp only [Node.getAt_nil, Option.some.injEq] at hx
    subst hx
    have h' : f n = n' := by cases n; simpa [Node.removeAt] using h
    subst h'
    have hn' : Node.All SX3 (f n) := (P8.All_of_shape SX3.closed hn ((frameF_keeps hf) n)).2
    have hnames' : Node.NamesOk used (f n) := by
      rw [Node.namesOk_iff] at hnames ⊢; rw [hf.children]; exact hnames
    rw [mc_scanX env ic hn hnames hkeys, mc_scanX env ic hn' hnames' hkeys, hf.children]
    cases hr : matchFrom env ic n.children 0 rp ps with
    | hit q ps1 => exact fun _ => ⟨q, rfl, rfl, rfl⟩
    | fault s => trivial
    | unsupported => trivial
    | miss ps2 =>
      simp only
      by_cases hc : rp.isEmpty = true ∧ n.handlers.length > 0
      · simp only [hc, and_self, if_true]
        exact fun hne => absurd rfl hne
      · simp only [hc, if_false]
        have hc' : ¬ (rp.isEmpty = true ∧ (f n).handlers.length > 0) := by
          rintro ⟨h1, h2⟩
          apply hc
          refine ⟨h1, ?_⟩
          cases hh : n.handlers with
          | nil => rw [hf.empty n hh] at h2; simp at h2
          | cons a l => simp
        simp only [hc', if_false]
        rfl
  | cons i path ih =>
    -- the list level
    have hL : ∀ (cs cs' : List Node) (d : Bool) (k : Nat) (x : Node), AllL SX3 cs →
        getAtL cs k path = some x → removeAtL f cs k path = .ok (cs', d) →
        ∀ (rp : Bytes) (ps : Params) (used : List Bytes), NamesOkL used cs → (∀ k ∈ ps.keys, k ∈ used) →
        FrameMR x.pattern (matchFrom env ic cs 0 rp ps) (matchFrom env ic cs' 0 rp ps) := by
      intro cs
      induction cs with
      | nil => intro cs' d k x _ hx; simp [getAtL] at hx
      | cons c cs ihc =>
        intro cs' d k x hall hx h rp ps used hnames hkeys
        rw [AllL_cons_iff] at hall
        have htrack : TrackL used (c :: cs) ps :=
          ⟨hnames, AllL_cons_iff.2 ⟨All_idxLit_of_SX3 _ hall.1, AllL_idxLit_of_SX3 _ hall.2⟩, hkeys⟩
        cases k with
        | succ k =>
          rw [getAtL_cons_succ] at hx
          simp only [removeAtL, bind, Except.bind, pure, Except.pure] at h
          split at h
          · cases h
          rename_i r hr
          simp only [Except.ok.injEq, Prod.mk.injEq] at h
          obtain ⟨rfl, rfl⟩ := h
          rw [matchFrom_cons_zero, matchFrom_cons_zero]
          cases ht : tryChild env ic c rp ps with
          | miss ps' =>
            have e := tryChild_miss List.mem_cons_self htrack ht
            subst e
            exact ihc r.1 r.2 k x hall.2 hx hr rp ps' used hnames.2.2 hkeys
          | hit q ps1 => exact fun _ => ⟨q, rfl, rfl, rfl⟩
          | fault s => trivial
          | unsupported => trivial
        | zero =>
          rw [getAtL_cons_zero] at hx
          simp only [removeAtL, bind, Except.bind, pure, Except.pure] at h
          split at h
          · cases h
          rename_i c' hc'
          have hseg := (removeAt_top f hf path c c' hc').1
          have hc'all : Node.All SX3 c' :=
            (P8.removeAt_SOk SX3.closed f (frameF_keeps hf) path c c' hall.1 hc').2
          obtain ⟨hfresh, hok⟩ := NamesOkL_mem hnames (c := c) List.mem_cons_self
          -- what the child does, before and after
          have hchild : ∀ cap rs, FrameMR x.pattern (c.matchChildren env ic rs (c.seg.record cap ps))
              (c'.matchChildren env ic rs (c.seg.record cap ps)) := by
            intro cap rs
            obtain ⟨_, r2, _⟩ := record_spec (s := c.seg) cap hfresh hkeys
            exact ih c c' x hall.1 hx hc' rs _ _ hok r2
          rw [matchFrom_cons_zero]
          split at h
          · -- the emptied leaf is deleted
            rename_i hempty
            simp only [Except.ok.injEq, Prod.mk.injEq] at h
            obtain ⟨rfl, rfl⟩ := h
            have hleaf := mc_empty_leafX env ic c' hc'all.head hempty.1 hempty.2
            unfold tryChild
            cases hm : c.seg.match env ic rp with
            | no => exact FrameMR.refl _ _
            | unsupported => trivial
            | yes cap rs =>
              simp only
              have hch := hchild cap rs
              rw [hleaf] at hch
              cases hr : c.matchChildren env ic rs (c.seg.record cap ps) with
              | hit q ps1 =>
                rw [hr] at hch
                intro hne
                obtain ⟨q', e, _⟩ := hch hne
                cases e
              | miss ps2 =>
                simp only
                have ht : tryChild env ic c rp ps = .miss (restoreParam ps ps2 c.seg.name) := by
                  unfold tryChild; rw [hm]; simp only [hr]
                rw [tryChild_miss List.mem_cons_self htrack ht]
                exact FrameMR.refl _ _
              | fault s => trivial
              | unsupported => trivial
          · simp only [Except.ok.injEq, Prod.mk.injEq] at h
            obtain ⟨rfl, rfl⟩ := h
            rw [matchFrom_cons_zero]
            unfold tryChild
            rw [hseg]
            cases hm : c.seg.match env ic rp with
            | no => exact FrameMR.refl _ _
            | unsupported => trivial
            | yes cap rs =>
              simp only
              have hch := hchild cap rs
              cases hr : c.matchChildren env ic rs (c.seg.record cap ps) with
              | hit q ps1 =>
                rw [hr] at hch
                intro hne
                obtain ⟨q', e, h1, h2⟩ := hch hne
                rw [e]
                exact ⟨q', rfl, h1, h2⟩
              | miss ps2 =>
                rw [hr] at hch
                rw [hch]
                exact FrameMR.refl _ _
              | fault s => trivial
              | unsupported => trivial
    intro n n' x hn hx h rp ps used hnames hkeys
    obtain ⟨_, hpat, hhs, _, hcs⟩ := removeAt_top f hf (i :: path) n n' h
    have hhs' := hhs (by simp)
    have hn' : Node.All SX3 n' := (P8.removeAt_SOk SX3.closed f (frameF_keeps hf) _ n n' hn h).2
    have hnames' : Node.NamesOk used n' := namesOk_removeAt f hf _ n n' used hnames h
    rw [mc_scanX env ic hn hnames hkeys, mc_scanX env ic hn' hnames' hkeys, hhs']
    obtain ⟨d, hrem⟩ := hcs i path rfl
    have hx' : getAtL n.children i path = some x := by rw [← Node.getAt_cons']; exact hx
    have hfr := hL n.children n'.children d i x hn.tail hx' hrem rp ps used
      ((Node.namesOk_iff used n).1 hnames) hkeys
    cases hr : matchFrom env ic n.children 0 rp ps with
    | hit q ps1 =>
      rw [hr] at hfr
      intro hne
      obtain ⟨q', e, h1, h2⟩ := hfr hne
      rw [e]
      exact ⟨q', rfl, h1, h2⟩
    | miss ps2 =>
      rw [hr] at hfr
      rw [hfr]
      simp only
      split
      · exact fun _ => ⟨n', rfl, hpat, hhs'⟩
      · rfl
    | fault s => trivial
    | unsupported => trivial


/-! ## `findPath` from `PatternOk` -/

theorem findPath_soundX : ∀ n : Node, Node.PatternOk n → ∀ pat p, n.findPath pat = some p →
    ∃ x, n.getAt p = some x ∧ x.pattern = n.pattern ++ pat ∧ p ≠ [] := by
  intro n
  induction n using Node.rec (motive_2 := fun cs => ∀ pp, PatternOkL pp cs → ∀ i pat p,
      findIn cs i pat = some p → ∃ k p' x, p = (i + k) :: p' ∧ getAtL cs k p' = some x ∧ x.pattern = pp ++ pat) with
  | mk s pt mi hs idx cs ih =>
    intro h pat p hp
    simp only [Node.findPath] at hp
    obtain ⟨k, p', x, rfl, hx, hxp⟩ := ih pt (by simpa [Node.PatternOk] using h) 0 pat p hp
    exact ⟨x, by simpa [Node.getAt] using hx, hxp, by simp⟩
  | nil => rename_i pp _ i pat p h; simp [findIn] at h
  | cons c cs ih1 ih2 =>
    rename_i pp hpo i pat p h
    simp only [PatternOkL] at hpo
    obtain ⟨hcp, hcok, hrest⟩ := hpo
    simp only [findIn] at h
    split at h
    · rename_i hv
      simp only [Option.some.injEq] at h
      subst h
      exact ⟨0, [], c, rfl, by simp [getAtL], by rw [hcp, hv]⟩
    · split at h
      · rename_i hpre
        have hpat : pat = c.seg.value ++ pat.drop c.seg.value.length := by
          obtain ⟨t, rfl⟩ := (hasPrefix_iff _ _).1 hpre
          simp
        split at h
        · rename_i q hq
          simp only [Option.some.injEq] at h
          subst h
          obtain ⟨x, hx, hxp, _⟩ := ih1 hcok _ q hq
          refine ⟨0, q, x, rfl, by simpa [getAtL] using hx, ?_⟩
          rw [hxp, hcp, List.append_assoc, ← hpat]
        · obtain ⟨k, p', x, rfl, hx, hxp⟩ := ih2 pp hrest (i + 1) pat p h
          exact ⟨k + 1, p', x, by simp; omega, by simpa [getAtL] using hx, hxp⟩
      · obtain ⟨k, p', x, rfl, hx, hxp⟩ := ih2 pp hrest (i + 1) pat p h
        exact ⟨k + 1, p', x, by simp; omega, by simpa [getAtL] using hx, hxp⟩

/-! ## The tree -/

/-- The full invariant of the private tree that survives `RegisterInterceptor` at any time. -/
structure LateInv3 (t : Tree) : Prop where
  wf : WfXL [] t.root.children
  sx3 : Node.All SX3 t.root
  pat : P10.PatInv t

theorem LateInv3.toLateInv {t : Tree} (h : LateInv3 t) : LateInv t := ⟨h.wf, AllSX_of_SX3 _ h.sx3⟩

/-- **`C03_frame` for `Remove`** on a tree satisfying `LateInv3`. -/
theorem frame_removeX {t t' : Tree} (hinv : LateInv3 t) {p : Bytes} {methods : List Bytes}
    (he : t.remove p methods = .ok t') {env : Env} {rp method : Bytes} {f : Found} {q : Node}
    (hres : t.handler env rp [] method = .res f) (hq : f.node = some q) (hne : q.pattern ≠ p) :
    ∃ f', t'.handler env rp [] method = .res f' ∧ SameAnswer f f' := by
  rcases remove_inv he with ⟨rfl, _⟩ | ⟨path, root1, hpath, hrem, rfl⟩
  · exact ⟨f, hres, rfl, rfl, rfl, fun q0 h0 => ⟨q0, h0, rfl, rfl⟩⟩
  · obtain ⟨x, hx, hxp, hpne⟩ := findPath_soundX t.root hinv.pat.1 p path hpath
    rw [hinv.pat.2, List.nil_append] at hxp
    have hF := removeMethods_frameF t.hasTrace methods
    obtain ⟨_, hpat1, hhs1, _, _⟩ := removeAt_top _ hF path t.root root1 hrem
    have hhs1' := hhs1 hpne
    refine handler_frame (t := t) (E := fun pt => pt = p) rfl ?_ ?_ ?_ hres hq hne
    · unfold Tree.matched
      by_cases hsp : rp = [42] ∨ rp = []
      · simp only [hsp, if_true]
        intro _
        exact ⟨_, rfl, by simp [Tree.recount, Node.setHandlers, hpat1], by simp [Tree.recount, Node.setHandlers, hhs1']⟩
      · simp only [hsp, if_false]
        have h1 := frame_removeAtX env t.ic _ hF path t.root root1 x hinv.sx3 hx
          hrem rp [] [] ((Node.namesOk_iff [] t.root).2 (namesOk_of_wfX hinv.wf)) (by simp [AMap.keys])
        rw [hxp] at h1
        exact h1.trans (frame_setMi' env t.ic _ root1 _ rp [])
    · simp [Tree.recount, Node.setHandlers, hpat1]
    · simp [Tree.recount, Node.setHandlers, hhs1']

/-! ## Histories -/

theorem LateInv3.new (name : Bytes) (ic : Interceptors) (nf : Handler) (tr : Option Handler) (ob nb : Base) :
    LateInv3 (Tree.new name ic nf tr ob nb) := by
  refine ⟨by simp [Tree.new, WfXL], ?_, P10.patInv_new name ic nf tr ob nb⟩
  simp only [Tree.new, Node.All, AllL, and_true]
  exact SX3.closed.empty _ _ _ _

theorem LateInv3.setIc {t : Tree} (h : LateInv3 t) (ic' : Interceptors) : LateInv3 { t with ic := ic' } :=
  ⟨h.wf, h.sx3, h.pat⟩

theorem setHandlers_AllSX3 {n : Node} (hs : AMap Handler) (mi : Nat) (h : Node.All SX3 n) :
    Node.All SX3 (n.setHandlers hs mi) :=
  (P8.All_of_shape SX3.closed (n' := n.setHandlers hs mi) h ⟨rfl, rfl, rfl, rfl⟩).2

/-- `Tree.step` of an `add` with a well-formed pattern, or of a `remove`, keeps the invariant. -/
theorem LateInv3.step_add {t : Tree} (hinv : LateInv3 t) {p : Bytes} {h : Handler} {ms : List Nat} {methods : List Bytes}
    (hp : P9.WfPattern p) : LateInv3 (t.step (.add p h ms methods)) := by
  have hpat := P10.patInv_step hinv.pat (.add p h ms methods)
  simp only [Tree.step] at hpat ⊢
  split
  · rename_i t' he
    rw [he] at hpat
    obtain ⟨v, rest, root1, path, root2, hne, hsp, hget, hmod, rfl⟩ := P8.add_ok' he
    have hl := hinv.toLateInv.add hp he
    have hpieces := splitString_pieces_nonempty p hne
    rw [hsp] at hpieces
    have hpw : PiecesWf v rest := fun x hx => ⟨hp x (hsp ▸ hx), hpieces x hx⟩
    obtain ⟨hs1, _⟩ := getNode_SX3 t.ic t.root v rest (root1, path) hinv.sx3 hpw hget
    obtain ⟨_, hs2⟩ := P8.modifyAt_SOk SX3.closed _ (P8.addMethodsNode_shape t h p ms (effMethods methods)) path root1 root2 hs1 hmod
    exact ⟨hl.wf, setHandlers_AllSX3 _ _ hs2, hpat⟩
  · exact hinv

theorem LateInv3.step_remove {t : Tree} (hinv : LateInv3 t) (p : Bytes) (methods : List Bytes) :
    LateInv3 (t.step (.remove p methods)) := by
  have hpat := P10.patInv_step hinv.pat (.remove p methods)
  simp only [Tree.step] at hpat ⊢
  split
  · rename_i t' he
    rw [he] at hpat
    have hl := hinv.toLateInv.remove he
    rcases Tree.remove_ok he with rfl | ⟨path, root1, _, hrem, rfl⟩
    · exact hinv
    · obtain ⟨_, hs⟩ := P8.removeAt_SOk SX3.closed _ (P8.removeMethods_shape t.hasTrace methods) path t.root root1 hinv.sx3 hrem
      exact ⟨hl.wf, setHandlers_AllSX3 _ _ hs, hpat⟩
  · exact hinv

theorem hostsStep_late3 {hs : Hosts} (h : LateInv3 hs.tree) {op : P12.HOp} (hop : HOp.lateOk op) :
    LateInv3 (P12.hostsStep hs op).tree := by
  cases op with
  | add d => rw [step_add_tree]; exact h.step_add ((wfPattern_iff_P9 _).1 hop)
  | delete d => rw [step_delete_tree]; exact h.step_remove _ _
  | registerInterceptor id rule =>
    simp only [P12.hostsStep]
    cases he : hs.registerInterceptor id rule with
    | none => exact h
    | some hs' =>
      simp only
      rw [(P12.Hosts.registerInterceptor_some he).2]
      exact h.setIc _

theorem hostsRun_late3 : ∀ (ops : List P12.HOp) (hs : Hosts), LateInv3 hs.tree → (∀ op ∈ ops, HOp.lateOk op) →
    LateInv3 (P12.hostsRun hs ops).tree := by
  intro ops
  induction ops with
  | nil => intro hs h _; exact h
  | cons op ops ih =>
    intro hs h hok
    exact ih _ (hostsStep_late3 h (hok op List.mem_cons_self)) (fun o ho => hok o (List.mem_cons_of_mem _ ho))

theorem HostsLateWf.inv3 {hs : Hosts} (h : HostsLateWf hs) : LateInv3 hs.tree := by
  obtain ⟨ops, hok, rfl⟩ := h
  exact hostsRun_late3 ops _ (LateInv3.new _ _ _ _ _ _) hok

/-- **`Hosts.Delete` leaves every host that was resolved to a node of ANOTHER domain matched as before** — after
any history, registrations at any time. -/
theorem delete_frame_late (env : Env) {hs hs' : Hosts} (h : HostsLateWf hs) {d : Bytes} (hd : hs.delete d = .ok hs')
    (host path : Bytes) (ha : isAscii host = true) {f : Found} {q : Node}
    (hres : hs.tree.handler env (normHost host) [] mGET = .res f) (hq : f.node = some q)
    (hne : q.pattern ≠ toLower d) :
    hs'.match env host path [] = hs.match env host path [] := by
  rw [P12.Hosts.delete_eq] at hd
  cases he : hs.tree.remove (toLower d) [] with
  | error e => rw [he] at hd; cases hd
  | ok t' =>
    rw [he] at hd
    simp only [Except.map, Except.ok.injEq] at hd
    subst hd
    obtain ⟨f', hres', h1, h2, h3, _⟩ := frame_removeX h.inv3 he hres hq hne
    rw [P12.Hosts.match_res env _ host path [] f' ha hres', P12.Hosts.match_res env hs host path [] f ha hres, h2, h3]

/-! ## `Delete` never fails -/

mutual
theorem valsNE_of_wfX : (n : Node) → (used : List Bytes) → WfXL used n.children →
    AllL (fun c => c.seg.value ≠ []) n.children
  | .mk _ _ _ _ _ cs, used, h => valsNEL_of_wfX cs used h
theorem valsNEL_of_wfX : (cs : List Node) → (used : List Bytes) → WfXL used cs →
    AllL (fun c => c.seg.value ≠ []) cs
  | [], _, _ => by unfold AllL; trivial
  | c :: cs, used, h => by
    unfold WfXL at h
    obtain ⟨hc, hcs⟩ := h
    have hcw := (Node.wfX_iff used c).1 hc
    unfold AllL
    refine ⟨?_, valsNEL_of_wfX cs used hcs⟩
    rw [Node.All_iff]
    obtain ⟨ic0, hok⟩ := hcw.1
    exact ⟨hok.ne, valsNE_of_wfX c _ hcw.2.2⟩
end

/-- `Delete` never fails on such a matcher. -/
theorem delete_ok_late {hs : Hosts} (h : HostsLateWf hs) (d : Bytes) :
    ∃ hs', hs.delete d = .ok hs' ∧ hs' = P12.hostsStep hs (.delete d) := by
  rw [P12.Hosts.delete_eq]
  obtain ⟨t', ht'⟩ := P9.remove_ok (t := hs.tree) (valsNEL_of_wfX _ [] h.inv.wf) (toLower d) []
  exact ⟨_, by rw [ht']; rfl, by simp [P12.hostsStep, P12.Hosts.delete_eq, ht', Except.map]⟩

end Mux.P17
