/-
  Mux.Proofs.AutoBases — a keyed invariant of handler maps (`AutoQ`): on every node of every tree a
  history produces
    * the entry stored under OPTIONS has the tree's `optionsBase`   (it IS the automatic OPTIONS handler),
    * the entry stored under `""` has the tree's `notAllowedBase`   (it IS the automatic 405 handler),
    * the entry stored under HEAD was built from the same handler and the same middlewares as the one
      under GET (`HeadOf`: same base, and the same middleware applications up to the `method` argument).
  `TreeVals` is uniform in the key; this one is not.  Preservation: `addMethodsLoop` never writes the
  keys OPTIONS/`""` (reserved / unknown) and writes HEAD only together with GET; `addMethodsNode` writes
  OPTIONS/`""` only when absent; `removeMethods` only erases (HEAD together with GET); `applyMw` wraps
  every entry with the same middlewares; `getNode`, `removeAt`, `clean` move maps unchanged.
-/
import Mux.Proofs.TreeReach
namespace Mux

/-- A middleware application without the `method` argument the factory was called with. -/
def Wrap.site (w : Wrap) : Nat × Bytes × Bytes := (w.mw, w.pattern, w.router)

/-- `hh` is "the HEAD copy" of `hg`: same underlying handler, and the same middlewares applied in the same
order with the same pattern and router name (the factories are called with method HEAD instead of GET). -/
def HeadOf (hg hh : Handler) : Prop :=
  hh.base = hg.base ∧ hh.wraps.map Wrap.site = hg.wraps.map Wrap.site

theorem HeadOf.mws {hg hh : Handler} (h : HeadOf hg hh) : hh.wraps.map (·.mw) = hg.wraps.map (·.mw) := by
  have := congrArg (List.map (fun x : Nat × Bytes × Bytes => x.1)) h.2
  simpa [List.map_map, Function.comp_def, Wrap.site] using this

theorem HeadOf.wrapWith (h : Handler) (p name : Bytes) (ms : List Nat) :
    HeadOf (wrapWith h mGET p name ms) (wrapWith h mHEAD p name ms) := by
  refine ⟨rfl, ?_⟩
  simp [Mux.wrapWith, List.map_append, List.map_map, Function.comp_def, Wrap.site]

theorem HeadOf.wrap {hg hh : Handler} (h : HeadOf hg hh) (p name : Bytes) (ms : List Nat) :
    HeadOf (Mux.wrapWith hg mGET p name ms) (Mux.wrapWith hh mHEAD p name ms) := by
  refine ⟨h.1, ?_⟩
  simp only [Mux.wrapWith, List.map_append, h.2]
  simp [List.map_map, Function.comp_def, Wrap.site]

/-- The keyed predicate on one handler map. -/
structure AutoQ (ob nb : Base) (_mi : Nat) (hs : AMap Handler) : Prop where
  options : ∀ h, hs.get? mOPTIONS = some h → h.base = ob
  notAllowed : ∀ h, hs.get? mNotAllowed = some h → h.base = nb
  head : ∀ hg hh, hs.get? mGET = some hg → hs.get? mHEAD = some hh → HeadOf hg hh

variable {ob nb : Base}

theorem AutoQ_empty (ob nb : Base) : AutoQ ob nb 0 [] :=
  ⟨by intro h hh; simp [AMap.get?] at hh, by intro h hh; simp [AMap.get?] at hh, by intro a b ha; simp [AMap.get?] at ha⟩

theorem AutoQ_mi (mi mi' : Nat) (hs : AMap Handler) (h : AutoQ ob nb mi hs) : AutoQ ob nb mi' hs :=
  ⟨h.options, h.notAllowed, h.head⟩

/-- Writing a key other than the four special ones. -/
theorem AutoQ_set_other {hs : AMap Handler} {mi mi' : Nat} (h : AutoQ ob nb mi hs) {k : Bytes} (v : Handler)
    (hg : k ≠ mGET) (hh : k ≠ mHEAD) (ho : k ≠ mOPTIONS) (hn : k ≠ mNotAllowed) :
    AutoQ ob nb mi' (hs.set k v) := by
  refine ⟨?_, ?_, ?_⟩
  · intro x hx
    rw [AMap.get?_setT, if_neg (fun e => ho e.symm)] at hx
    exact h.options x hx
  · intro x hx
    rw [AMap.get?_setT, if_neg (fun e => hn e.symm)] at hx
    exact h.notAllowed x hx
  · intro a b ha hb
    rw [AMap.get?_setT, if_neg (fun e => hg e.symm)] at ha
    rw [AMap.get?_setT, if_neg (fun e => hh e.symm)] at hb
    exact h.head a b ha hb

/-- Writing HEAD and GET together, from the same handler. -/
theorem AutoQ_set_get {hs : AMap Handler} {mi mi' : Nat} (h : AutoQ ob nb mi hs) (v : Handler) (p name : Bytes)
    (ms : List Nat) :
    AutoQ ob nb mi' ((hs.set mHEAD (wrapWith v mHEAD p name ms)).set mGET (wrapWith v mGET p name ms)) := by
  obtain ⟨c1, c2, c3, c4, c5, c6, c7, c8, c9, c10⟩ := method_consts_ne
  refine ⟨?_, ?_, ?_⟩
  · intro x hx
    rw [AMap.get?_setT, if_neg (fun e => c2 e.symm), AMap.get?_setT, if_neg (fun e => c5 e.symm)] at hx
    exact h.options x hx
  · intro x hx
    rw [AMap.get?_setT, if_neg (fun e => c3 e.symm), AMap.get?_setT, if_neg (fun e => c6 e.symm)] at hx
    exact h.notAllowed x hx
  · intro a b ha hb
    rw [AMap.get?_setT, if_pos rfl] at ha
    rw [AMap.get?_setT, if_neg (fun e => c1 e.symm), AMap.get?_setT, if_pos rfl] at hb
    cases ha; cases hb
    exact HeadOf.wrapWith v p name ms

theorem addMethodsLoop_auto (t : Tree) (h : Handler) (pattern : Bytes) (ms : List Nat) :
    ∀ (methods : List Bytes) (hs hs' : AMap Handler), AutoQ ob nb 0 hs →
      addMethodsLoop t h pattern ms methods hs = .ok hs' → AutoQ ob nb 0 hs' := by
  intro methods
  induction methods with
  | nil => intro hs hs' hp he; simp [addMethodsLoop] at he; exact he ▸ hp
  | cons m rest ih =>
    intro hs hs' hp he
    simp only [addMethodsLoop, bind, Except.bind] at he
    split at he
    · simp [throw, throwThe, MonadExceptOf.throw] at he
    rename_i hres
    split at he
    · simp [throw, throwThe, MonadExceptOf.throw] at he
    rename_i hknown
    split at he
    · simp [throw, throwThe, MonadExceptOf.throw] at he
    refine ih _ hs' ?_ he
    have hno : m ≠ mOPTIONS := fun e => hres (.inl e)
    have hnh : m ≠ mHEAD := fun e => hres (.inr (.inl e))
    have hnn : m ≠ mNotAllowed := by
      intro e
      apply hknown
      subst e
      intro hk
      exact mem_table_consts.2.2.2.2 ((isKnownMethod_iff _).1 hk)
    by_cases hg : m = mGET
    · subst hg
      simp only [if_true]
      exact AutoQ_set_get hp h pattern t.name ms
    · simp only [hg, if_false]
      exact AutoQ_set_other hp _ hg hnh hno hnn

theorem AutoQ_setIfAbsent_options {hs : AMap Handler} (h : AutoQ ob nb 0 hs) (v : Handler) (hv : v.base = ob) :
    AutoQ ob nb 0 (if hs.contains mOPTIONS then hs else hs.set mOPTIONS v) := by
  obtain ⟨c1, c2, c3, c4, c5, c6, c7, c8, c9, c10⟩ := method_consts_ne
  split
  · exact h
  · refine ⟨?_, ?_, ?_⟩
    · intro x hx
      rw [AMap.get?_setT, if_pos rfl] at hx
      cases hx; exact hv
    · intro x hx
      rw [AMap.get?_setT, if_neg (fun e => c8 e.symm)] at hx
      exact h.notAllowed x hx
    · intro a b ha hb
      rw [AMap.get?_setT, if_neg c2] at ha
      rw [AMap.get?_setT, if_neg c5] at hb
      exact h.head a b ha hb

theorem AutoQ_setIfAbsent_notAllowed {hs : AMap Handler} (h : AutoQ ob nb 0 hs) (v : Handler) (hv : v.base = nb) :
    AutoQ ob nb 0 (if hs.contains mNotAllowed then hs else hs.set mNotAllowed v) := by
  obtain ⟨c1, c2, c3, c4, c5, c6, c7, c8, c9, c10⟩ := method_consts_ne
  split
  · exact h
  · refine ⟨?_, ?_, ?_⟩
    · intro x hx
      rw [AMap.get?_setT, if_neg c8] at hx
      exact h.options x hx
    · intro x hx
      rw [AMap.get?_setT, if_pos rfl] at hx
      cases hx; exact hv
    · intro a b ha hb
      rw [AMap.get?_setT, if_neg c3] at ha
      rw [AMap.get?_setT, if_neg c6] at hb
      exact h.head a b ha hb

theorem addMethodsNode_auto (t : Tree) (h : Handler) (hob : t.optionsBase = ob) (hnb : t.notAllowedBase = nb)
    (pattern : Bytes) (ms : List Nat) (methods : List Bytes)
    (n n' : Node) (hn : Node.All (NodeOk (AutoQ ob nb)) n)
    (he : t.addMethodsNode h pattern ms methods n = .ok n') : Node.All (NodeOk (AutoQ ob nb)) n' := by
  unfold Tree.addMethodsNode at he
  simp only [bind, Except.bind, pure, Except.pure] at he
  split at he
  · simp at he
  rename_i hs1 hloop
  simp only [Except.ok.injEq] at he
  subst he
  have h1 : AutoQ ob nb 0 hs1 := addMethodsLoop_auto t h pattern ms methods _ _ (AutoQ_mi _ _ _ hn.head.1) hloop
  rw [Node.All_iff]
  refine ⟨⟨?_, ?_⟩, ?_⟩
  · simp only [Node.setHandlers, Node.methodIndex_mk, Node.handlers_mk]
    have h2 := AutoQ_setIfAbsent_options h1 (wrapWith { base := t.optionsBase } mOPTIONS pattern t.name ms)
      (by simpa [wrapWith] using hob)
    have h3 := AutoQ_setIfAbsent_notAllowed h2
      (wrapWith { base := t.notAllowedBase } mNotAllowed pattern t.name ms) (by simpa [wrapWith] using hnb)
    exact AutoQ_mi _ _ _ h3
  · intro e he
    simpa [Node.setHandlers] using hn.head.2 e (by simpa [Node.setHandlers] using he)
  · simpa [Node.setHandlers] using hn.tail

theorem rmStep_auto {hs : AMap Handler} (m : Bytes) (h : AutoQ ob nb 0 hs) : AutoQ ob nb 0 (rmStep hs m) := by
  obtain ⟨c1, c2, c3, c4, c5, c6, c7, c8, c9, c10⟩ := method_consts_ne
  unfold rmStep
  split
  · exact h
  · rename_i hne
    split
    · refine ⟨?_, ?_, ?_⟩
      · intro x hx
        rw [AMap.get?_erase_ne _ _ _ (fun e => c2 e.symm), AMap.get?_erase_ne _ _ _ (fun e => c5 e.symm)] at hx
        exact h.options x hx
      · intro x hx
        rw [AMap.get?_erase_ne _ _ _ (fun e => c3 e.symm), AMap.get?_erase_ne _ _ _ (fun e => c6 e.symm)] at hx
        exact h.notAllowed x hx
      · intro a b ha hb
        rw [AMap.get?_erase_self] at ha
        simp at ha
    · rename_i hg
      have ho : m ≠ mOPTIONS := fun e => hne (.inl e)
      have hh : m ≠ mHEAD := fun e => hne (.inr (.inl e))
      have hn : m ≠ mNotAllowed := fun e => hne (.inr (.inr e))
      refine ⟨?_, ?_, ?_⟩
      · intro x hx
        rw [AMap.get?_erase_ne _ _ _ (fun e => ho e.symm)] at hx
        exact h.options x hx
      · intro x hx
        rw [AMap.get?_erase_ne _ _ _ (fun e => hn e.symm)] at hx
        exact h.notAllowed x hx
      · intro a b ha hb
        rw [AMap.get?_erase_ne _ _ _ (fun e => hg e.symm)] at ha
        rw [AMap.get?_erase_ne _ _ _ (fun e => hh e.symm)] at hb
        exact h.head a b ha hb

theorem foldl_rmStep_auto (ms : List Bytes) {hs : AMap Handler} (h : AutoQ ob nb 0 hs) :
    AutoQ ob nb 0 (ms.foldl rmStep hs) := by
  induction ms generalizing hs with
  | nil => exact h
  | cons m ms ih => exact ih (rmStep_auto m h)

theorem removeMethods_auto (ht : Bool) (methods : List Bytes) (n : Node)
    (hn : Node.All (NodeOk (AutoQ ob nb)) n) : Node.All (NodeOk (AutoQ ob nb)) (removeMethods ht methods n) := by
  rw [Node.All_iff] at hn ⊢
  obtain ⟨⟨hv, hidx⟩, hall⟩ := hn
  have hfields : (removeMethods ht methods n).indexes = n.indexes ∧
      (removeMethods ht methods n).children = n.children := by
    unfold removeMethods; simp [Node.setHandlers]
  refine ⟨⟨?_, ?_⟩, ?_⟩
  · rw [removeMethods_handlers]
    split
    · exact AutoQ_mi _ _ _ (AutoQ_empty ob nb)
    · split
      · exact AutoQ_mi _ _ _ (AutoQ_empty ob nb)
      · exact AutoQ_mi _ _ _ (foldl_rmStep_auto methods (AutoQ_mi _ 0 _ hv))
  · intro e he
    rw [hfields.1] at he; rw [hfields.2]; exact hidx e he
  · rw [hfields.2]; exact hall

theorem AutoQ_applyMw (router : Bytes) (ms : List Nat) (mi : Nat) (hs : AMap Handler) (p : Bytes)
    (h : AutoQ ob nb mi hs) : AutoQ ob nb mi (hs.map (fun e => (e.1, wrapWith e.2 e.1 p router ms))) := by
  refine ⟨?_, ?_, ?_⟩
  · intro x hx
    rw [AMap.get?_mapVals hs (fun k v => wrapWith v k p router ms)] at hx
    simp only [Option.map_eq_some_iff] at hx
    obtain ⟨x0, hx0, rfl⟩ := hx
    exact h.options x0 hx0
  · intro x hx
    rw [AMap.get?_mapVals hs (fun k v => wrapWith v k p router ms)] at hx
    simp only [Option.map_eq_some_iff] at hx
    obtain ⟨x0, hx0, rfl⟩ := hx
    exact h.notAllowed x0 hx0
  · intro a b ha hb
    rw [AMap.get?_mapVals hs (fun k v => wrapWith v k p router ms)] at ha hb
    simp only [Option.map_eq_some_iff] at ha hb
    obtain ⟨a0, ha0, rfl⟩ := ha
    obtain ⟨b0, hb0, rfl⟩ := hb
    exact (h.head a0 b0 ha0 hb0).wrap p router ms

/-- The tree-level invariant: every node's map satisfies `AutoQ` for the tree's own two bases. -/
structure TreeAuto (t : Tree) : Prop where
  nodes : Node.All (NodeOk (AutoQ t.optionsBase t.notAllowedBase)) t.root

theorem auto_new (name : Bytes) (ic : Interceptors) (nf : Handler) (tr : Option Handler) (ob nb : Base) :
    TreeAuto (Tree.new name ic nf tr ob nb) := by
  obtain ⟨c1, c2, c3, c4, c5, c6, c7, c8, c9, c10⟩ := method_consts_ne
  refine ⟨?_⟩
  simp only [Tree.new, Node.All, AllL, and_true]
  refine ⟨⟨?_, ?_, ?_⟩, by intro e he; simp at he⟩
  · intro h hh
    simp only [Node.handlers_mk, AMap.get?, List.find?_cons, decide_true, Option.map_some] at hh
    cases hh; rfl
  · intro h hh
    have h8 : ¬ mOPTIONS = mNotAllowed := c8
    simp only [Node.handlers_mk, AMap.get?, List.find?_cons, h8, decide_false, decide_true, Option.map_some] at hh
    cases hh; rfl
  · intro a b ha
    have h2 : ¬ mOPTIONS = mGET := fun e => c2 e.symm
    have h3 : ¬ mNotAllowed = mGET := fun e => c3 e.symm
    simp [AMap.get?, h2, h3] at ha

theorem auto_step_aux {t : Tree} (hob : t.optionsBase = ob) (hnb : t.notAllowedBase = nb)
    (hv : Node.All (NodeOk (AutoQ ob nb)) t.root) (op : TOp) :
    Node.All (NodeOk (AutoQ ob nb)) (t.step op).root := by
  cases op with
  | add p h ms methods =>
    simp only [Tree.step]
    split
    · rename_i t' he
      obtain ⟨v, rest, root1, path, root2, _, _, hget, hmod, rfl⟩ := Tree.add_ok he
      have h1 := (getNode_All (Q := AutoQ ob nb) t.ic (AutoQ_empty _ _) hv hget).1
      have h2 := modifyAt_All (Q := AutoQ ob nb) _
        (addMethodsNode_auto t h hob hnb p ms (effMethods methods)) h1 hmod
      exact All_setHandlers_same AutoQ_mi _ h2
    · exact hv
  | remove p methods =>
    simp only [Tree.step]
    split
    · rename_i t' he
      rcases Tree.remove_ok he with rfl | ⟨path, root1, hpath, hrem, rfl⟩
      · exact hv
      · have h1 := removeAt_All (Q := AutoQ ob nb) _ (removeMethods_auto t.hasTrace methods) hv hrem
        exact All_setHandlers_same AutoQ_mi _ h1
    · exact hv
  | clean pre =>
    simp only [Tree.step]
    split
    · rename_i t' he
      obtain ⟨root1, hclean, rfl⟩ := Tree.clean_ok he
      obtain ⟨_, _, hm, hh, hi, ha⟩ := clean_All_aux (Q := AutoQ ob nb) t.root pre root1 hv.tail hclean
      have h1 : Node.All (NodeOk (AutoQ ob nb)) root1 := by
        rw [Node.All_iff]
        exact ⟨⟨by rw [hh]; exact AutoQ_mi _ _ _ hv.head.1, hi⟩, ha⟩
      exact All_setHandlers_same AutoQ_mi _ h1
    · exact hv
  | use ms =>
    exact applyMw_All t.name ms (fun mi hs p => AutoQ_applyMw t.name ms mi hs p) t.root hv

theorem auto_step {t : Tree} (hv : TreeAuto t) (op : TOp) : TreeAuto (t.step op) := by
  have hcfg := sameCfg_step t op
  refine ⟨?_⟩
  rw [hcfg.2.2.2.1, hcfg.2.2.2.2]
  exact auto_step_aux rfl rfl hv.nodes op

theorem auto_run {t : Tree} (hv : TreeAuto t) (ops : List TOp) : TreeAuto (t.run ops) := by
  unfold Tree.run
  induction ops generalizing t with
  | nil => exact hv
  | cons op ops ih => exact ih (auto_step hv op)

theorem Tree.Reach.auto {t : Tree} (h : t.Reach) : TreeAuto t := by
  obtain ⟨name, ic, nf, tr, ob, nb, ops, rfl⟩ := h
  exact auto_run (auto_new name ic nf tr ob nb) ops

/-- The entries of one node of a tree satisfying the invariant. -/
theorem TreeAuto.get {t : Tree} (hv : TreeAuto t) {n : Node} (hn : n ∈ t.root.nodes) :
    AutoQ t.optionsBase t.notAllowedBase n.methodIndex n.handlers :=
  (((All_iff_nodes _).1 _).1 hv.nodes n hn).1

end Mux
