/-
  Mux.Proofs.OnionOwn — who contributes the inner part (`own`) of a middleware stack: the exact
  handler map `addMethods` produces, and its lift to `Router.handle`.
-/
import Mux.Proofs.Onion
namespace Mux.P10
open Mux

/-! ## `addMethodsLoop`: the resulting map, key by key -/

theorem addMethodsLoop_methods (t : Tree) (h : Handler) (pattern : Bytes) (ms : List Nat) :
    ∀ (methods : List Bytes) (hs hs' : AMap Handler), addMethodsLoop t h pattern ms methods hs = .ok hs' →
      ∀ k ∈ methods, k ≠ mOPTIONS ∧ k ≠ mHEAD ∧ k ≠ mNotAllowed := by
  intro methods
  induction methods with
  | nil => intro hs hs' _ k hk; cases hk
  | cons m rest ih =>
    intro hs hs' he k hk
    simp only [addMethodsLoop, bind, Except.bind] at he
    split at he
    · simp [throw, throwThe, MonadExceptOf.throw] at he
    rename_i hres
    split at he
    · simp [throw, throwThe, MonadExceptOf.throw] at he
    rename_i hkn
    split at he
    · simp [throw, throwThe, MonadExceptOf.throw] at he
    rcases List.mem_cons.1 hk with rfl | hk
    · refine ⟨fun e => hres (.inl e), fun e => hres (.inr (.inl e)), ?_⟩
      intro e
      apply hkn
      subst e
      decide
    · exact ih _ _ he k hk

theorem addMethodsLoop_get (t : Tree) (h : Handler) (pattern : Bytes) (ms : List Nat) :
    ∀ (methods : List Bytes) (hs hs' : AMap Handler), addMethodsLoop t h pattern ms methods hs = .ok hs' →
      (∀ k ∈ methods, hs'.get? k = some (wrapWith h k pattern t.name ms)) ∧
      (mGET ∈ methods → hs'.get? mHEAD = some (wrapWith h mHEAD pattern t.name ms)) ∧
      (∀ k, k ∉ methods → ¬ (k = mHEAD ∧ mGET ∈ methods) → hs'.get? k = hs.get? k) := by
  intro methods
  induction methods with
  | nil =>
    intro hs hs' he
    simp only [addMethodsLoop, Except.ok.injEq] at he
    subst he
    exact ⟨fun k hk => (nomatch hk), fun hk => (nomatch hk), fun _ _ _ => rfl⟩
  | cons m rest ih =>
    intro hs hs' he
    have hall := addMethodsLoop_methods t h pattern ms (m :: rest) hs hs' he
    have hm := hall m (by simp)
    simp only [addMethodsLoop, bind, Except.bind] at he
    split at he
    · simp [throw, throwThe, MonadExceptOf.throw] at he
    split at he
    · simp [throw, throwThe, MonadExceptOf.throw] at he
    split at he
    · simp [throw, throwThe, MonadExceptOf.throw] at he
    obtain ⟨ih1, ih2, ih3⟩ := ih _ hs' he
    have hrestHead : mHEAD ∉ rest := fun hin => (hall mHEAD (by simp [hin])).2.1 rfl
    -- the value of `m` after the first step
    have hstep_m : ((if m = mGET then hs.set mHEAD (wrapWith h mHEAD pattern t.name ms) else hs).set m
        (wrapWith h m pattern t.name ms)).get? m = some (wrapWith h m pattern t.name ms) := by
      rw [AMap.get?_setT]; simp
    refine ⟨?_, ?_, ?_⟩
    · intro k hk
      rcases List.mem_cons.1 hk with rfl | hk
      · by_cases hin : k ∈ rest
        · exact ih1 k hin
        · rw [ih3 k hin (fun hc => hm.2.1 hc.1)]
          exact hstep_m
      · exact ih1 k hk
    · intro hg
      by_cases hin : mGET ∈ rest
      · exact ih2 hin
      · have hmg : m = mGET := by
          rcases List.mem_cons.1 hg with e | e
          · exact e.symm
          · exact absurd e hin
        rw [ih3 mHEAD hrestHead (fun hc => hin hc.2)]
        subst hmg
        simp only [if_true]
        rw [AMap.get?_setT, AMap.get?_setT]
        simp [show mHEAD ≠ mGET by decide]
    · intro k hk hnh
      have hkm : k ≠ m := fun e => hk (by simp [e])
      have hkr : k ∉ rest := fun e => hk (by simp [e])
      rw [ih3 k hkr (fun hc => hnh ⟨hc.1, by simp [hc.2]⟩)]
      rw [AMap.get?_setT]
      simp only [hkm, if_false]
      split
      · rename_i hmg
        rw [AMap.get?_setT]
        have : k ≠ mHEAD := fun e => hnh ⟨e, by simp [hmg]⟩
        simp [this]
      · rfl

theorem contains_iff_get? {V : Type} (hs : AMap V) (k : Bytes) : hs.contains k = true ↔ (hs.get? k).isSome = true := by
  rw [AMap.contains_iff, AMap.get?_isSome_iff]

/-- `if contains k then hs else hs.set k v`, key by key. -/
theorem get?_setIfAbsent {V : Type} (hs : AMap V) (k k' : Bytes) (v : V) :
    (if hs.contains k = true then hs else hs.set k v).get? k' =
      if k' = k then some ((hs.get? k).getD v) else hs.get? k' := by
  by_cases hc : hs.contains k = true
  · simp only [hc, if_true]
    by_cases hk : k' = k
    · subst hk
      have := (contains_iff_get? hs k').1 hc
      simp only [if_true]
      cases hg : hs.get? k' with
      | none => simp [hg] at this
      | some x => rfl
    · simp [hk]
  · simp only [hc, Bool.false_eq_true, if_false]
    rw [AMap.get?_setT]
    by_cases hk : k' = k
    · subst hk
      have : hs.get? k' = none := by
        cases hg : hs.get? k' with
        | none => rfl
        | some x => exact absurd ((contains_iff_get? hs k').2 (by simp [hg])) hc
      simp [this]
    · simp [hk]

/-- The handler map of the node after `addMethods`, key by key. -/
structure AddedSpec (t : Tree) (h : Handler) (pattern : Bytes) (ms : List Nat) (methods : List Bytes)
    (old new : AMap Handler) : Prop where
  /-- every listed method: the registered handler wrapped with the call's middlewares -/
  route : ∀ k ∈ methods, new.get? k = some (wrapWith h k pattern t.name ms)
  /-- the automatic HEAD, when GET is listed -/
  head : mGET ∈ methods → new.get? mHEAD = some (wrapWith h mHEAD pattern t.name ms)
  /-- OPTIONS: kept when the node had one, otherwise created with the middlewares of this call -/
  options : new.get? mOPTIONS =
    some ((old.get? mOPTIONS).getD (wrapWith { base := t.optionsBase } mOPTIONS pattern t.name ms))
  /-- 405: kept when the node had one, otherwise created with the middlewares of this call -/
  notAllowed : new.get? mNotAllowed =
    some ((old.get? mNotAllowed).getD (wrapWith { base := t.notAllowedBase } mNotAllowed pattern t.name ms))
  /-- every other key is untouched -/
  other : ∀ k, k ∉ methods → ¬ (k = mHEAD ∧ mGET ∈ methods) → k ≠ mOPTIONS → k ≠ mNotAllowed →
    new.get? k = old.get? k

theorem addMethodsNode_spec (t : Tree) (h : Handler) (pattern : Bytes) (ms : List Nat) (methods : List Bytes)
    (n n' : Node) (he : t.addMethodsNode h pattern ms methods n = .ok n') :
    n'.pattern = n.pattern ∧ n'.seg = n.seg ∧ n'.children = n.children ∧
      AddedSpec t h pattern ms methods n.handlers n'.handlers := by
  unfold Tree.addMethodsNode at he
  simp only [bind, Except.bind, pure, Except.pure] at he
  split at he
  · simp at he
  rename_i hs1 hloop
  simp only [Except.ok.injEq] at he
  subst he
  refine ⟨rfl, rfl, rfl, ?_⟩
  simp only [Node.setHandlers, Node.handlers_mk]
  obtain ⟨g1, g2, g3⟩ := addMethodsLoop_get t h pattern ms methods _ _ hloop
  have hall := addMethodsLoop_methods t h pattern ms methods _ _ hloop
  have hOm : mOPTIONS ∉ methods := fun hin => (hall _ hin).1 rfl
  have hNm : mNotAllowed ∉ methods := fun hin => (hall _ hin).2.2 rfl
  have hOH : mOPTIONS ≠ mHEAD := by decide
  have hNH : mNotAllowed ≠ mHEAD := by decide
  have hON : mOPTIONS ≠ mNotAllowed := by decide
  have key : ∀ k, (if AMap.contains
        (if AMap.contains hs1 mOPTIONS = true then hs1
          else hs1.set mOPTIONS (wrapWith { base := t.optionsBase } mOPTIONS pattern t.name ms)) mNotAllowed = true
      then (if AMap.contains hs1 mOPTIONS = true then hs1
          else hs1.set mOPTIONS (wrapWith { base := t.optionsBase } mOPTIONS pattern t.name ms))
      else (if AMap.contains hs1 mOPTIONS = true then hs1
          else hs1.set mOPTIONS (wrapWith { base := t.optionsBase } mOPTIONS pattern t.name ms)).set mNotAllowed
            (wrapWith { base := t.notAllowedBase } mNotAllowed pattern t.name ms)).get? k =
      if k = mNotAllowed then
        some ((hs1.get? mNotAllowed).getD (wrapWith { base := t.notAllowedBase } mNotAllowed pattern t.name ms))
      else if k = mOPTIONS then
        some ((hs1.get? mOPTIONS).getD (wrapWith { base := t.optionsBase } mOPTIONS pattern t.name ms))
      else hs1.get? k := by
    intro k
    rw [get?_setIfAbsent]
    by_cases hk : k = mNotAllowed
    · subst hk
      simp only [if_true]
      rw [get?_setIfAbsent]
      simp [hON.symm]
    · simp only [hk, if_false]
      rw [get?_setIfAbsent]
  refine ⟨?_, ?_, ?_, ?_, ?_⟩
  · intro k hk
    have := hall k hk
    rw [key k]
    simp only [this.2.2, this.1, if_false]
    exact g1 k hk
  · intro hg
    rw [key mHEAD]
    simp only [hNH.symm, hOH.symm, if_false]
    exact g2 hg
  · rw [key mOPTIONS]
    simp only [hON, if_false, if_true]
    rw [g3 mOPTIONS hOm (fun hc => hOH hc.1)]
  · rw [key mNotAllowed]
    simp only [if_true]
    rw [g3 mNotAllowed hNm (fun hc => hNH hc.1)]
  · intro k hk hnh hkO hkN
    rw [key k]
    simp only [hkN, hkO, if_false]
    exact g3 k hk hnh

/-! ## `Router.handle` -/

theorem setHandlers_getAt_cons (n : Node) (hs : AMap Handler) (mi : Nat) (i : Nat) (path : List Nat) :
    (n.setHandlers hs mi).getAt (i :: path) = n.getAt (i :: path) := by
  simp [Node.getAt_cons, Node.setHandlers]

/-- What a successful `Router.handle p h m methods` does to the node of `p`: see `AddedSpec`.
`n0` is the node registered on as it was before the call: a node of the old tree with pattern `p`,
or a fresh node (no handlers).  The middleware list of the call is `m ++ r.ms`. -/
theorem handle_own {r r' : Router} {p : Bytes} {h : Nat} {m : List Nat} {methods : List Bytes}
    (hw : WrapInv r) (he : r.handle p h m methods = .ok r') :
    ∃ (path : List Nat) (n0 n' : Node), path ≠ [] ∧ r'.tree.root.getAt path = some n' ∧ n'.pattern = p ∧
      (n0.handlers = [] ∨ ∃ y ∈ nodesL r.tree.root.children, y.pattern = p ∧ y.handlers = n0.handlers) ∧
      AddedSpec r.tree { base := .user h } p (m ++ r.ms) (effMethods methods) n0.handlers n'.handlers := by
  unfold Router.handle at he
  simp only [bind, Except.bind, pure, Except.pure] at he
  split at he
  · simp at he
  rename_i t' ht'
  simp only [Except.ok.injEq] at he
  subst he
  obtain ⟨v, rest, root1, path, root2, _, hsp, hget, hmod, rfl⟩ := Tree.add_ok ht'
  obtain ⟨hp1, _, hh1, _, hw1, hne, n0, hn0, hn0p, hfrom⟩ :=
    getNode_W r.tree.ic (WrapR r.ms r.tree.name) (WrapR_nil r.ms r.tree.name) r.tree.root v rest _
      (by rw [hw.rootPat]; exact hw.below) hget
  simp only at hp1 hh1 hw1 hne hn0 hn0p
  have hn0p' : n0.pattern = p := by
    have := splitString_join p
    rw [hsp] at this
    rw [hn0p, hw.rootPat]; simpa using this
  have hroot1 : NodeW (fun _ _ => True) root1 :=
    NodeW_mono (fun _ _ _ => trivial) root1 (by
      rw [NodeW_iff, hp1, hh1]
      exact ⟨((NodeW_iff _).1 hw.rootW).1, hw1⟩)
  obtain ⟨_, _, _, _, n', hn', hget'⟩ := modifyAt_W (P := fun _ _ => True)
    (r.tree.addMethodsNode { base := .user h } p (m ++ r.ms) (effMethods methods)) path root1 root2 n0 hroot1 hn0
    (by
      intro m' hm'
      obtain ⟨a, b, c, _⟩ := addMethodsNode_spec _ _ _ _ _ _ _ hm'
      exact ⟨a, b, c, trivial⟩) hmod
  obtain ⟨a, _, _, hspec⟩ := addMethodsNode_spec _ _ _ _ _ _ _ hn'
  refine ⟨path, n0, n', hne, ?_, a.trans hn0p', ?_, hspec⟩
  · cases path with
    | nil => exact absurd rfl hne
    | cons i path =>
      show (Node.setHandlers _ _ _).getAt (i :: path) = some n'
      rw [setHandlers_getAt_cons]; exact hget'
  · rcases hfrom with h0 | ⟨y, hy, hs⟩
    · exact .inl h0
    · exact .inr ⟨y, hy, hs.1.symm.trans hn0p', hs.2.1.symm⟩

end Mux.P10
