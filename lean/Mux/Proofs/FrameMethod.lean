/-
  Mux.Proofs.FrameMethod — the frame property of `Remove(p, methods…)` for the node of `p` ITSELF:
  when the handler map that `removeMethods` leaves at the node is not empty, nothing is deleted,
  `matchChildren` (which only looks at `handlers.length > 0`) walks the tree exactly as before, and
  the only difference is the handler map of the one node the path leads to.

  Companion of `Mux.Proofs.Frame` (`frame_removeAt'`, which EXCLUDES the node at the path).
-/
import Mux.Proofs.Frame
namespace Mux.P26
open Mux Mux.P11 Mux.P14

/-- The two matcher results agree up to the handler map of the node `x` (the one the operation worked on), which
becomes `hs'`: same parameters, same pattern, and the handler map of the answering node is unchanged unless that
node is `x` itself. -/
def KeepMR (x : Node) (hs' : AMap Handler) (r r' : MR) : Prop :=
  match r with
  | .hit q ps1 => ∃ q', r' = .hit q' ps1 ∧ q'.pattern = q.pattern ∧
      (q'.handlers = q.handlers ∨ (q = x ∧ q'.handlers = hs'))
  | .miss ps1 => r' = .miss ps1
  | _ => True

theorem KeepMR.refl (x : Node) (hs' : AMap Handler) (r : MR) : KeepMR x hs' r r := by
  cases r with
  | hit q ps1 => exact ⟨q, rfl, rfl, .inl rfl⟩
  | miss ps1 => exact rfl
  | fault s => trivial
  | unsupported => trivial

/-- When the node at the path keeps a handler, `removeAt` deletes nothing: the result is never an emptied
leaf, at any level. -/
theorem removeAt_keeps (f : Node → Node) (hf : FrameF f) :
    ∀ (path : List Nat) (n n' x : Node), n.getAt path = some x → n.removeAt f path = .ok n' →
      (f x).handlers ≠ [] → ¬ (n'.size = 0 ∧ n'.children.isEmpty = true) := by
  intro path
  induction path with
  | nil =>
    intro n n' x hx h hne
    simp only [Node.getAt_nil, Option.some.injEq] at hx
    subst hx
    have h' : f n = n' := by cases n; simpa [Node.removeAt] using h
    subst h'
    rintro ⟨h0, _⟩
    apply hne
    unfold Node.size at h0
    exact List.eq_nil_of_length_eq_zero h0
  | cons i path ih =>
    have hL : ∀ (cs cs' : List Node) (d : Bool) (k : Nat) (x : Node), getAtL cs k path = some x →
        removeAtL f cs k path = .ok (cs', d) → (f x).handlers ≠ [] → cs' ≠ [] ∧ d = false := by
      intro cs
      induction cs with
      | nil => intro cs' d k x hx; simp [getAtL] at hx
      | cons c cs ihc =>
        intro cs' d k x hx h hne
        cases k with
        | succ k =>
          rw [getAtL_cons_succ] at hx
          simp only [removeAtL, bind, Except.bind, pure, Except.pure] at h
          split at h
          · cases h
          rename_i r hr
          simp only [Except.ok.injEq, Prod.mk.injEq] at h
          obtain ⟨rfl, rfl⟩ := h
          exact ⟨List.cons_ne_nil _ _, (ihc r.1 r.2 k x hx hr hne).2⟩
        | zero =>
          rw [getAtL_cons_zero] at hx
          simp only [removeAtL, bind, Except.bind, pure, Except.pure] at h
          split at h
          · cases h
          rename_i c' hc'
          have hkeep := ih c c' x hx hc' hne
          split at h
          · rename_i hempty
            exact absurd hempty hkeep
          · simp only [Except.ok.injEq, Prod.mk.injEq] at h
            obtain ⟨rfl, rfl⟩ := h
            exact ⟨List.cons_ne_nil _ _, rfl⟩
    intro n n' x hx h hne
    obtain ⟨_, _, _, _, hcs⟩ := removeAt_top f hf (i :: path) n n' h
    obtain ⟨d, hrem⟩ := hcs i path rfl
    have hx' : getAtL n.children i path = some x := by rw [← Node.getAt_cons']; exact hx
    have := (hL _ _ d i x hx' hrem hne).1
    rintro ⟨_, h2⟩
    apply this
    simpa using h2

/-- **The frame property of `removeAt` for the node at the path itself**, first-byte indexes included: if
`f x` still has handlers, every request is matched as before, up to the handler map of `x`. -/
theorem keep_removeAt {ic0 : Interceptors} (env : Env) (ic : Interceptors) (f : Node → Node) (hf : FrameF f) :
    ∀ (path : List Nat) (n n' x : Node), Node.All (P8.SOk2 ic0) n → n.getAt path = some x →
      n.removeAt f path = .ok n' → (f x).handlers ≠ [] → ∀ (rp : Bytes) (ps : Params) (used : List Bytes),
      Node.NamesOk used n → (∀ k ∈ ps.keys, k ∈ used) →
      KeepMR x (f x).handlers (n.matchChildren env ic rp ps) (n'.matchChildren env ic rp ps) := by
  intro path
  induction path with
  | nil =>
    intro n n' x hn hx h hkeep rp ps used hnames hkeys
    simp only [Node.getAt_nil, Option.some.injEq] at hx
    subst hx
    have h' : f n = n' := by cases n; simpa [Node.removeAt] using h
    subst h'
    have hn' : Node.All (P8.SOk2 ic0) (f n) := (P8.All_of_shape (P8.SOk2.closed ic0) hn ((frameF_keeps hf) n)).2
    have hnames' : Node.NamesOk used (f n) := by
      rw [Node.namesOk_iff] at hnames ⊢; rw [hf.children]; exact hnames
    rw [mc_scan env ic hn hnames hkeys, mc_scan env ic hn' hnames' hkeys, hf.children]
    cases hr : matchFrom env ic n.children 0 rp ps with
    | hit q ps1 => exact ⟨q, rfl, rfl, .inl rfl⟩
    | fault s => trivial
    | unsupported => trivial
    | miss ps2 =>
      simp only
      have hpos' : (f n).handlers.length > 0 := List.length_pos_iff.2 hkeep
      have hpos : n.handlers.length > 0 := by
        cases hh : n.handlers with
        | nil => exact absurd (hf.empty n hh) hkeep
        | cons a l => simp
      by_cases hc : rp.isEmpty = true
      · simp only [hc, hpos, hpos', and_self, if_true]
        exact ⟨f n, rfl, hf.pat n, .inr ⟨rfl, rfl⟩⟩
      · simp only [hc]
        rfl
  | cons i path ih =>
    have hL : ∀ (cs cs' : List Node) (d : Bool) (k : Nat) (x : Node), AllL (P8.SOk2 ic0) cs →
        getAtL cs k path = some x → removeAtL f cs k path = .ok (cs', d) → (f x).handlers ≠ [] →
        ∀ (rp : Bytes) (ps : Params) (used : List Bytes), NamesOkL used cs → (∀ k ∈ ps.keys, k ∈ used) →
        KeepMR x (f x).handlers (matchFrom env ic cs 0 rp ps) (matchFrom env ic cs' 0 rp ps) := by
      intro cs
      induction cs with
      | nil => intro cs' d k x _ hx; simp [getAtL] at hx
      | cons c cs ihc =>
        intro cs' d k x hall hx h hkeep rp ps used hnames hkeys
        rw [AllL_cons_iff] at hall
        have htrack : TrackL used (c :: cs) ps :=
          ⟨hnames, AllL_cons_iff.2 ⟨allS2_idxLit hall.1, allS2L_idxLit hall.2⟩, hkeys⟩
        cases k with
        | succ k =>
          rw [getAtL_cons_succ] at hx
          simp only [removeAtL, bind, Except.bind, pure, Except.pure] at h
          split at h
          · cases h
          rename_i r hr
          simp only [Except.ok.injEq, Prod.mk.injEq] at h
          obtain ⟨rfl, rfl⟩ := h
          rw [matchFrom_cons_zero, matchFrom_cons_zero]
          cases ht : tryChild env ic c rp ps with
          | miss ps' =>
            have e := tryChild_miss List.mem_cons_self htrack ht
            subst e
            exact ihc r.1 r.2 k x hall.2 hx hr hkeep rp ps' used hnames.2.2 hkeys
          | hit q ps1 => exact ⟨q, rfl, rfl, .inl rfl⟩
          | fault s => trivial
          | unsupported => trivial
        | zero =>
          rw [getAtL_cons_zero] at hx
          simp only [removeAtL, bind, Except.bind, pure, Except.pure] at h
          split at h
          · cases h
          rename_i c' hc'
          have hseg := (removeAt_top f hf path c c' hc').1
          have hnodel := removeAt_keeps f hf path c c' x hx hc' hkeep
          obtain ⟨hfresh, hok⟩ := NamesOkL_mem hnames (c := c) List.mem_cons_self
          have hchild : ∀ cap rs, KeepMR x (f x).handlers (c.matchChildren env ic rs (c.seg.record cap ps))
              (c'.matchChildren env ic rs (c.seg.record cap ps)) := by
            intro cap rs
            obtain ⟨_, r2, _⟩ := record_spec (s := c.seg) cap hfresh hkeys
            exact ih c c' x hall.1 hx hc' hkeep rs _ _ hok r2
          rw [matchFrom_cons_zero]
          split at h
          · rename_i hempty
            exact absurd hempty hnodel
          · simp only [Except.ok.injEq, Prod.mk.injEq] at h
            obtain ⟨rfl, rfl⟩ := h
            rw [matchFrom_cons_zero]
            unfold tryChild
            rw [hseg]
            cases hm : c.seg.match env ic rp with
            | no => exact KeepMR.refl _ _ _
            | unsupported => trivial
            | yes cap rs =>
              simp only
              have hch := hchild cap rs
              cases hr : c.matchChildren env ic rs (c.seg.record cap ps) with
              | hit q ps1 =>
                rw [hr] at hch
                obtain ⟨q', e, h1, h2⟩ := hch
                rw [e]
                exact ⟨q', rfl, h1, h2⟩
              | miss ps2 =>
                rw [hr] at hch
                rw [hch]
                exact KeepMR.refl _ _ _
              | fault s => trivial
              | unsupported => trivial
    intro n n' x hn hx h hkeep rp ps used hnames hkeys
    obtain ⟨_, hpat, hhs, _, hcs⟩ := removeAt_top f hf (i :: path) n n' h
    have hhs' := hhs (by simp)
    have hn' : Node.All (P8.SOk2 ic0) n' := (P8.removeAt_SOk (P8.SOk2.closed ic0) f (frameF_keeps hf) _ n n' hn h).2
    have hnames' : Node.NamesOk used n' := namesOk_removeAt f hf _ n n' used hnames h
    rw [mc_scan env ic hn hnames hkeys, mc_scan env ic hn' hnames' hkeys, hhs']
    obtain ⟨d, hrem⟩ := hcs i path rfl
    have hx' : getAtL n.children i path = some x := by rw [← Node.getAt_cons']; exact hx
    have hfr := hL n.children n'.children d i x hn.tail hx' hrem hkeep rp ps used
      ((Node.namesOk_iff used n).1 hnames) hkeys
    cases hr : matchFrom env ic n.children 0 rp ps with
    | hit q ps1 =>
      rw [hr] at hfr
      obtain ⟨q', e, h1, h2⟩ := hfr
      rw [e]
      exact ⟨q', rfl, h1, h2⟩
    | miss ps2 =>
      rw [hr] at hfr
      rw [hfr]
      simp only
      split
      · exact ⟨n', rfl, hpat, .inl hhs'⟩
      · rfl
    | fault s => trivial
    | unsupported => trivial

/-! ## What `removeMethods` leaves of the handler map -/

/-- The key `k` is not erased by the step for `m`: it is another key (or `m` is one of the three keys `Remove`
ignores), and it is not the HEAD entry while `m` is GET. -/
def Spares (k m : Bytes) : Prop :=
  (k = m → m = mOPTIONS ∨ m = mHEAD ∨ m = mNotAllowed) ∧ ¬ (k = mHEAD ∧ m = mGET)

theorem rmStep_get (hs : AMap Handler) (m k : Bytes) (h : Spares k m) : (rmStep hs m).get? k = hs.get? k := by
  unfold rmStep
  split
  · rfl
  · rename_i hres
    have hne : k ≠ m := fun e => hres (h.1 e)
    split
    · rename_i hg
      have h1 : k ≠ mHEAD := fun e => h.2 ⟨e, hg⟩
      rw [AMap.get?_erase_ne _ _ _ (hg ▸ hne), AMap.get?_erase_ne _ _ _ h1]
    · exact AMap.get?_erase_ne _ _ _ hne

theorem foldl_rmStep_get (methods : List Bytes) (hs : AMap Handler) (k : Bytes) (h : ∀ m ∈ methods, Spares k m) :
    (methods.foldl rmStep hs).get? k = hs.get? k := by
  induction methods generalizing hs with
  | nil => rfl
  | cons m ms ih =>
    simp only [List.foldl_cons]
    rw [ih _ (fun m' hm' => h m' (by simp [hm'])), rmStep_get hs m k (h m (by simp))]

theorem spares_of_not_mem {k : Bytes} {methods : List Bytes} (hk : k ∉ methods)
    (hh : k = mHEAD → mGET ∉ methods) : ∀ m ∈ methods, Spares k m :=
  fun _ hm => ⟨fun e => absurd (e ▸ hm) hk, fun ⟨e1, e2⟩ => hh e1 (e2 ▸ hm)⟩

theorem spares_notAllowed (m : Bytes) : Spares mNotAllowed m :=
  ⟨fun e => .inr (.inr e.symm), fun ⟨e, _⟩ => by revert e; decide⟩

/-- When a hand-registered key survives, the handler map is not collapsed to the empty map. -/
theorem removeMethods_keep (ht : Bool) (methods : List Bytes) (x : Node) (hne : methods ≠ [])
    (k0 : Bytes) (hk0 : k0 ∈ regKeys x.handlers) (hk0m : k0 ∉ methods) :
    (removeMethods ht methods x).handlers = methods.foldl rmStep x.handlers ∧
      (removeMethods ht methods x).handlers ≠ [] := by
  have hreg := (mem_regKeys.1 hk0)
  have hin : k0 ∈ (methods.foldl rmStep x.handlers).keys :=
    (foldl_rmStep_reg methods x.handlers k0 hreg.2).2 ⟨hreg.1, hk0m⟩
  have hemp : methods.isEmpty = false := by cases methods <;> simp at hne ⊢
  have hnocollapse : ¬ ((methods.foldl rmStep x.handlers).length = 2 ∧
      AMap.contains (methods.foldl rmStep x.handlers) mOPTIONS = true ∧
      AMap.contains (methods.foldl rmStep x.handlers) mNotAllowed = true) := by
    rintro ⟨h2, ho, hn⟩
    generalize methods.foldl rmStep x.handlers = l at hin h2 ho hn
    match l, h2 with
    | [a, b], _ =>
      obtain ⟨r1, r2, r3⟩ := hreg.2
      simp only [AMap.keys, List.map_cons, List.map_nil, List.mem_cons, List.not_mem_nil, or_false] at hin
      simp only [AMap.contains, List.any_cons, List.any_nil, Bool.or_false, Bool.or_eq_true,
        decide_eq_true_eq] at ho hn
      have hon : mOPTIONS ≠ mNotAllowed := by decide
      rcases hin with e | e <;> rcases ho with o | o <;> rcases hn with n | n <;>
        first | exact r2 (e.trans o) | exact r3 (e.trans n) | exact hon (o.symm.trans n)
  have heq : (removeMethods ht methods x).handlers = methods.foldl rmStep x.handlers := by
    rw [removeMethods_handlers]
    simp only [hemp, Bool.false_eq_true, if_false]
    rw [if_neg hnocollapse]
  refine ⟨heq, ?_⟩
  rw [heq]
  intro h0
  rw [h0] at hin
  cases hin

/-! ## From the matcher to `Tree.handler` -/

/-- The two answers agree in everything a caller sees: handler, `ok`, parameters, and the pattern of the answering
node (none for a 404). -/
def SameServed (f f' : Found) : Prop :=
  f'.handler = f.handler ∧ f'.ok = f.ok ∧ f'.params = f.params ∧
    (∀ q, f.node = some q → ∃ q', f'.node = some q' ∧ q'.pattern = q.pattern) ∧ (f.node = none → f'.node = none)

theorem handlerNoTrace_keep {env : Env} {t t' : Tree} {x : Node} {hs' : AMap Handler} {rp method : Bytes}
    {ps : Params} {f : Found} (hnf : t'.notFound = t.notFound)
    (hfr : KeepMR x hs' (t.matched env rp ps) (t'.matched env rp ps))
    (hne : hs' ≠ []) (hxne : x.handlers ≠ [])
    (hget : method ≠ mNotAllowed → hs'.get? method = x.handlers.get? method)
    (hget0 : hs'.get? mNotAllowed = x.handlers.get? mNotAllowed)
    (hres : Tree.handler.Tree.handlerNoTrace env t rp ps method = .res f) :
    ∃ f', Tree.handler.Tree.handlerNoTrace env t' rp ps method = .res f' ∧ SameServed f f' := by
  rw [handlerNoTrace_eq] at hres ⊢
  cases hm : t.matched env rp ps with
  | fault s => rw [hm] at hres; cases hres
  | unsupported => rw [hm] at hres; cases hres
  | miss ps' =>
    rw [hm] at hres hfr
    have e : t'.matched env rp ps = .miss ps' := hfr
    rw [e]
    simp only [HR.res.injEq] at hres
    subst hres
    exact ⟨_, rfl, by simp [hnf], rfl, rfl, fun q hq => (by cases hq), fun _ => rfl⟩
  | hit n ps' =>
    rw [hm] at hres hfr
    obtain ⟨q', e, hp, hh⟩ := hfr
    rw [e]
    simp only at hres ⊢
    -- the handler map of `q'` answers `method` and the 405 key as the one of `n`, and is empty iff that one is
    have hfacts : (q'.size = 0 ↔ n.size = 0) ∧
        (if method = mNotAllowed then none else q'.handlers.get? method) =
          (if method = mNotAllowed then none else n.handlers.get? method) ∧
        q'.handlers.get? mNotAllowed = n.handlers.get? mNotAllowed := by
      rcases hh with hh | ⟨rfl, hh⟩
      · unfold Node.size; rw [hh]; exact ⟨Iff.rfl, rfl, rfl⟩
      · unfold Node.size; rw [hh]
        refine ⟨?_, ?_, hget0⟩
        · constructor
          · intro h0; exact absurd (List.eq_nil_of_length_eq_zero h0) hne
          · intro h0; exact absurd (List.eq_nil_of_length_eq_zero h0) hxne
        · by_cases hmm : method = mNotAllowed
          · simp [hmm]
          · simp only [hmm, if_false]; exact hget hmm
    obtain ⟨hsz, hg1, hg2⟩ := hfacts
    by_cases hn0 : n.size = 0
    · simp only [hn0, hsz.2 hn0, if_true, HR.res.injEq] at hres ⊢
      subst hres
      exact ⟨_, rfl, by simp [hnf], rfl, rfl, fun q hq => (by cases hq), fun _ => rfl⟩
    · have hq0 : ¬ q'.size = 0 := fun h0 => hn0 (hsz.1 h0)
      simp only [hn0, hq0, if_false] at hres ⊢
      rw [hg1, hg2]
      generalize (if method = mNotAllowed then none else n.handlers.get? method) = A at hres ⊢
      generalize n.handlers.get? mNotAllowed = B at hres ⊢
      have hnode : ∀ q0, some n = some q0 → ∃ q'', some q' = some q'' ∧ q''.pattern = q0.pattern :=
        fun q0 h0 => ⟨q', rfl, by cases h0; exact hp⟩
      cases A with
      | some hd =>
        simp only [HR.res.injEq] at hres
        subst hres
        exact ⟨_, rfl, rfl, rfl, rfl, hnode, fun h => by cases h⟩
      | none =>
        cases B with
        | some hd =>
          simp only [HR.res.injEq] at hres
          subst hres
          exact ⟨_, rfl, rfl, rfl, rfl, hnode, fun h => by cases h⟩
        | none =>
          simp only [HR.res.injEq] at hres
          subst hres
          exact ⟨_, rfl, rfl, rfl, rfl, hnode, fun h => by cases h⟩

/-- From the matcher to `Tree.handler`, for any two trees with the same configuration. -/
theorem handler_keep {env : Env} {t t1 : Tree} {x : Node} {hs' : AMap Handler} {rp method : Bytes} {f : Found}
    (htr : t1.trace = t.trace) (hnf : t1.notFound = t.notFound)
    (hfr : KeepMR x hs' (t.matched env rp []) (t1.matched env rp []))
    (hp : t1.root.pattern = t.root.pattern)
    (hne : hs' ≠ []) (hxne : x.handlers ≠ [])
    (hget : method ≠ mNotAllowed → hs'.get? method = x.handlers.get? method)
    (hget0 : hs'.get? mNotAllowed = x.handlers.get? mNotAllowed)
    (hres : t.handler env rp [] method = .res f) :
    ∃ f', t1.handler env rp [] method = .res f' ∧ SameServed f f' := by
  unfold Tree.handler at hres ⊢
  rw [htr]
  cases ht : t.trace with
  | none =>
    rw [ht] at hres
    simp only at hres ⊢
    exact handlerNoTrace_keep hnf hfr hne hxne hget hget0 hres
  | some h =>
    rw [ht] at hres
    simp only at hres ⊢
    by_cases hmt : method = mTRACE
    · simp only [hmt, if_true, HR.res.injEq] at hres ⊢
      subst hres
      refine ⟨_, rfl, rfl, rfl, rfl, fun q0 h0 => ⟨_, rfl, ?_⟩, fun h => (by cases h)⟩
      cases h0
      exact hp
    · simp only [hmt, if_false] at hres ⊢
      exact handlerNoTrace_keep hnf hfr hne hxne hget hget0 hres

/-- **The frame property of `Remove(p, methods…)` for requests with another method**, for every tree satisfying
the invariants of well-formed histories: when the node of `p` keeps a hand-registered method `k0`, every request
whose method is not in the list (and is not HEAD while GET is in the list) is answered exactly as before —
whichever node answered it, the node of `p` included. -/
theorem keep_remove {t t' : Tree} (hinv : AllInv t) {p : Bytes} {methods : List Bytes}
    (he : t.remove p methods = .ok t') (hne : methods ≠ [])
    (hkeep : ∀ x ∈ nodesL t.root.children, x.pattern = p → ∃ k0 ∈ regKeys x.handlers, k0 ∉ methods)
    {env : Env} {rp method : Bytes} (hm : method ∉ methods) (hhead : method = mHEAD → mGET ∉ methods)
    {f : Found} (hres : t.handler env rp [] method = .res f) :
    ∃ f', t'.handler env rp [] method = .res f' ∧ SameServed f f' := by
  rcases remove_inv he with ⟨rfl, _⟩ | ⟨path, root1, hpath, hrem, rfl⟩
  · exact ⟨f, hres, rfl, rfl, rfl, fun q0 h0 => ⟨q0, h0, rfl⟩, fun h => h⟩
  · obtain ⟨x, hx, hxp, hpne⟩ := findPath_sound t.ic t.root hinv.ti.sh p path hpath
    rw [hinv.rootPat, List.nil_append] at hxp
    have hxmem : x ∈ nodesL t.root.children := by
      cases path with
      | nil => exact absurd rfl hpne
      | cons i path => exact getAt_mem_below hx
    obtain ⟨k0, hk0, hk0m⟩ := hkeep x hxmem hxp
    have hF := removeMethods_frameF t.hasTrace methods
    obtain ⟨hhs, hhsne⟩ := removeMethods_keep t.hasTrace methods x hne k0 hk0 hk0m
    have hxne : x.handlers ≠ [] := by
      intro h0
      rw [h0] at hk0
      cases hk0
    obtain ⟨_, hpat1, hhs1, _, _⟩ := removeAt_top _ hF path t.root root1 hrem
    have hhs1' := hhs1 hpne
    obtain ⟨mi, hmi⟩ : ∃ mi, (Tree.recount { t with root := root1 }).root = root1.setHandlers root1.handlers mi :=
      ⟨_, rfl⟩
    have hic : (Tree.recount { t with root := root1 }).ic = t.ic := rfl
    have hget : method ≠ mNotAllowed → (removeMethods t.hasTrace methods x).handlers.get? method =
        x.handlers.get? method := fun _ => by
      rw [hhs]; exact foldl_rmStep_get methods x.handlers method (spares_of_not_mem hm hhead)
    have hget0 : (removeMethods t.hasTrace methods x).handlers.get? mNotAllowed = x.handlers.get? mNotAllowed := by
      rw [hhs]; exact foldl_rmStep_get methods x.handlers mNotAllowed (fun m' _ => spares_notAllowed m')
    refine handler_keep (t := t) (x := x) rfl rfl ?_ ?_ hhsne hxne hget hget0 hres
    · unfold Tree.matched
      rw [hmi, hic]
      by_cases hsp : rp = [42] ∨ rp = []
      · simp only [hsp, if_true]
        exact ⟨_, rfl, by simp [Node.setHandlers, hpat1], .inl (by simp [Node.setHandlers, hhs1'])⟩
      · simp only [hsp, if_false]
        have h1 := keep_removeAt env t.ic _ hF path t.root root1 x hinv.s2.all hx
          hrem hhsne rp [] [] hinv.namesRoot (by simp [AMap.keys])
        have h2 := frame_setMi' env t.ic (fun _ => False) root1 mi rp []
        cases hr : t.root.matchChildren env t.ic rp [] with
        | hit q ps1 =>
          rw [hr] at h1
          obtain ⟨q', e, hp, hh⟩ := h1
          rw [e] at h2
          obtain ⟨q'', e', hp', hh'⟩ := h2 (fun h => h)
          rw [e']
          refine ⟨q'', rfl, hp'.trans hp, ?_⟩
          rcases hh with hh | ⟨rfl, hh⟩
          · exact .inl (hh'.trans hh)
          · exact .inr ⟨rfl, hh'.trans hh⟩
        | miss ps1 =>
          rw [hr] at h1
          have e : root1.matchChildren env t.ic rp [] = .miss ps1 := h1
          rw [e] at h2
          exact h2
        | fault s => trivial
        | unsupported => trivial
    · rw [hmi]
      simp [Node.setHandlers, hpat1]

end Mux.P26
