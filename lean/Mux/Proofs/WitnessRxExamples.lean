/-
  Mux.Proofs.WitnessRxExamples — reached trees for the non-vacuity examples of `C03_witness_rx*`:
  * `exR`: `Handle("/u/", h2, GET); Handle("/u/{id:\d+}/x", h1, GET)` — the witness `/u/42/x`;
  * `exC`: `Handle("/{id:a/xb|a}/x{m:b}/x1", h, GET)` — values that pass `Segment.Valid` (`id = a`, `m = b`), whose
    strict URL `/a/xb/x1` is nevertheless answered 404: `valid` alone is not a sufficient hypothesis.
-/
import Mux.Proofs.WitnessRx
import Mux.Proofs.FrameExamples
namespace Mux.P17
open Mux Mux.P10 Mux.P14

/-! ## `/u/{id:\d+}/x` -/

/-- `/u/{id:\d+}/x` -/
def exPRx : Bytes := [47, 117, 47, 123, 105, 100, 58, 92, 100, 43, 125, 47, 120]
/-- `/u/42/x` -/
def exReqRx : Bytes := [47, 117, 47, 52, 50, 47, 120]

def exROps : List TOp := [.add P14.exU { base := .user 2 } [] [mGET], .add exPRx { base := .user 1 } [] [mGET]]
def exR : Tree := P14.exT0.run exROps

theorem exROps_wf : ∀ op ∈ exROps, op.wf = true := by decide +kernel
theorem exR_reach : ReachAll exR := ⟨_, _, _, _, _, _, exROps, exROps_wf, rfl⟩

def exSegRx : Seg :=
  { value := [123, 105, 100, 58, 92, 100, 43, 125, 47, 120], kind := .rx, name := [105, 100], rule := [92, 100, 43],
    suffix := [47, 120], re := .plus { neg := false, ranges := [(48, 57)] } }
/-- the witness chain: `/u/` (literal) and `{id:\d+}/x` with the value `42` -/
def exRChain : List (Seg × Bytes) := [(P14.exSegU, []), (exSegRx, [52, 50])]

theorem exR_segs : exR.root.segsAt [0, 0] = some [P14.exSegU, exSegRx] := by mux_eval [exR, exROps, P14.exT0]
theorem exR_live : (exR.root.getAt [0, 0]).map (fun x => x.handlers.isEmpty) = some false := by
  mux_eval [exR, exROps, P14.exT0]

theorem exR_chain : ∃ x, Chain exR.root (exRChain.map (·.1)) x ∧ x.handlers ≠ [] := by
  cases hx : exR.root.getAt [0, 0] with
  | none => have := exR_live; rw [hx] at this; cases this
  | some x =>
    refine ⟨x, getAt_chain _ _ _ _ hx exR_segs, ?_⟩
    have := exR_live
    rw [hx] at this
    simp only [Option.map_some, Option.some.injEq] at this
    intro e; rw [e] at this; cases this

/-- `42` is in the language of `\d+`, and `\d+` cannot consume `/`. -/
theorem exSegRx_simple : RxSimple exSegRx [52, 50] :=
  ⟨.plus (by decide) (.starCons (by decide) .starNil), by show Re.avoids exSegRx.re 47 = true; decide⟩

theorem exRChain_good : ∀ sv ∈ exRChain, GoodVal P14.exEnv exR.ic sv.1 sv.2 := by
  intro sv hsv
  simp only [exRChain, List.mem_cons, List.not_mem_nil, or_false] at hsv
  rcases hsv with rfl | rfl
  · exact .inl ⟨by decide, trivial, by simp⟩
  · exact .inr ⟨rfl, exSegRx_simple⟩

theorem exRChain_inst : instChain exRChain = exReqRx := by decide

theorem exRChain_narrow : ∀ sv ∈ exRChain, sv.1.kind = .rx → sv.1.re.wide = false := by decide

/-- The exact hypotheses hold as well (they are decidable by evaluation). -/
theorem exRChain_match : MatchChain P14.exEnv [] exRChain := by decide

theorem exR_answer : ∃ f q, exR.handler P14.exEnv exReqRx [] mGET = .res f ∧ f.node = some q ∧ q.pattern = exPRx ∧
    f.handler = { base := .user 1, wraps := [] } ∧ f.ok = true ∧ f.params = [([105, 100], [52, 50])] :=
  views_spec (by mux_eval [exR, exROps, P14.exT0]) (by mux_eval [exR, exROps, P14.exT0])
    (by mux_eval [exR, exROps, P14.exT0]) (by mux_eval [exR, exROps, P14.exT0])

theorem exR_table : tableOf exR = [(P14.exU, [mGET]), (exPRx, [mGET])] := by mux_eval [exR, exROps, P14.exT0]
theorem exR_live_pair : (tableOf exR).has exPRx mGET := ⟨[mGET], by rw [exR_table]; decide, by decide⟩

/-! ## `valid` is not enough: `/{id:a/xb|a}/x{m:b}/x1` -/

/-- `/{id:a/xb|a}/x{m:b}/x1` -/
def exPC : Bytes := [47, 123, 105, 100, 58, 97, 47, 120, 98, 124, 97, 125, 47, 120, 123, 109, 58, 98, 125, 47, 120, 49]
def exCOps : List TOp := [.add exPC { base := .user 1 } [] [mGET]]
def exC : Tree := P14.exT0.run exCOps
/-- `/a/xb/x1` -/
def exReqC : Bytes := [47, 97, 47, 120, 98, 47, 120, 49]

def exReA : Re :=
  .alt (.seq (.seq (.seq (.cls ⟨false, [(97, 97)]⟩) (.cls ⟨false, [(47, 47)]⟩)) (.cls ⟨false, [(120, 120)]⟩))
    (.cls ⟨false, [(98, 98)]⟩)) (.cls ⟨false, [(97, 97)]⟩)
def exSegC1 : Seg :=
  { value := [123, 105, 100, 58, 97, 47, 120, 98, 124, 97, 125, 47, 120], kind := .rx, name := [105, 100],
    rule := [97, 47, 120, 98, 124, 97], suffix := [47, 120], re := exReA }
def exSegC2 : Seg :=
  { value := [123, 109, 58, 98, 125, 47, 120, 49], kind := .rx, name := [109], rule := [98], suffix := [47, 120, 49],
    re := .cls ⟨false, [(98, 98)]⟩ }
def exSegSlash : Seg := { value := [47] }
def exCChain : List (Seg × Bytes) := [(exSegSlash, []), (exSegC1, [97]), (exSegC2, [98])]

theorem exC_reach : ReachAll exC := ⟨_, _, _, _, _, _, exCOps, by decide +kernel, rfl⟩
theorem exC_segs : exC.root.segsAt [0, 0, 0] = some [exSegSlash, exSegC1, exSegC2] := by mux_eval [exC, exCOps, P14.exT0]
theorem exC_live : (exC.root.getAt [0, 0, 0]).map (fun x => x.handlers.isEmpty) = some false := by
  mux_eval [exC, exCOps, P14.exT0]

theorem exC_chain : ∃ x, Chain exC.root (exCChain.map (·.1)) x ∧ x.handlers ≠ [] := by
  cases hx : exC.root.getAt [0, 0, 0] with
  | none => have := exC_live; rw [hx] at this; cases this
  | some x =>
    refine ⟨x, getAt_chain _ _ _ _ hx exC_segs, ?_⟩
    have := exC_live
    rw [hx] at this
    simp only [Option.map_some, Option.some.injEq] at this
    intro e; rw [e] at this; cases this

/-- Both values pass `Segment.Valid` and are in the language of their rule; the witness path is the strict URL. -/
theorem exC_valid : exSegC1.valid P14.exEnv [] [97] = some true ∧ exSegC2.valid P14.exEnv [] [98] = some true ∧
    instChain exCChain = exReqC := by decide

theorem exC_url : exC.url P14.exEnv exPC [([105, 100], [97]), ([109], [98])] = .ok exReqC := by
  mux_eval [exC, exCOps, P14.exT0]

/-- …but the request is answered 404: the first regexp segment prefers `a/xb` and leaves `1`. -/
theorem exC_404 : patOf (exC.handler P14.exEnv exReqC [] mGET) = none ∧
    okOf (exC.handler P14.exEnv exReqC [] mGET) = some false := by
  constructor <;> mux_eval [exC, exCOps, P14.exT0]

/-- The exact hypothesis fails for it, as it must. -/
theorem exC_not_match : ¬ MatchChain P14.exEnv [] exCChain := by decide

end Mux.P17
