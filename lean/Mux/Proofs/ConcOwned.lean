/-
  Mux.Proofs.ConcOwned — the lock-free interleaving semantics (`RWLock.NoLock`) for threads that work
  on DISJOINT parts of the shared state ("one goroutine per instance").

  * `Owned S`: every operation and every location has an owner; the micro-accesses of an operation
    touch locations of its owner only.
  * `owned_drf`: if every operation of thread `i`'s program is owned by `i`, then — with NO lock, writers
    included, any number of threads, any schedule — no two distinct threads ever have conflicting
    next micro-accesses.
  * `Local S O`: the state has one component (`view i`) per owner; an operation reads and writes only
    the component of its owner.
  * `owned_seq`: then every thread computes exactly its own sequential program: the operations it has
    completed are a prefix of its program, their responses are the responses of running that prefix
    alone on the thread's initial component, and the thread's component of the shared state is the
    result of that sequential run.
-/
import Mux.Proofs.RWLock
namespace Mux.RWLock
open NoLock

/-- Ownership of operations and locations. -/
structure Owned (S : Sys) where
  owner : S.Op → Nat
  locOwner : S.Loc → Nat
  accs_owned : ∀ op, ∀ a ∈ S.accs op, locOwner a.1 = owner op

variable {S : Sys}

/-- Thread `j` only holds operations it owns, and its pending micro-accesses are on its own locations. -/
def OwnInv (O : Owned S) (c : NConfig S) : Prop :=
  ∀ j, (∀ op ∈ (c.thr j).prog, O.owner op = j) ∧
    match (c.thr j).ph with
    | .idle => True
    | .running op todo _ => O.owner op = j ∧ ∀ a ∈ todo, O.locOwner a.1 = j

theorem ownInv_step {O : Owned S} {c c' : NConfig S} (h : OwnInv O c) (hs : NStep c c') : OwnInv O c' := by
  cases hs with
  | start i op rest hi =>
    intro j
    dsimp only
    by_cases hji : j = i
    · subst hji
      have := h j
      rw [hi] at this
      simp only [upd_same]
      have ho : O.owner op = j := this.1 op (by simp)
      exact ⟨fun o ho' => this.1 o (by simp [ho']), ho, fun a ha => (O.accs_owned op a ha).trans ho⟩
    · rw [upd_other _ _ _ _ hji]; exact h j
  | access i p op a todo resp hi =>
    intro j
    dsimp only
    by_cases hji : j = i
    · subst hji
      have := h j
      rw [hi] at this
      simp only [upd_same]
      exact ⟨this.1, this.2.1, fun x hx => this.2.2 x (by simp [hx])⟩
    · rw [upd_other _ _ _ _ hji]; exact h j
  | effect i p op todo hi =>
    intro j
    dsimp only
    by_cases hji : j = i
    · subst hji
      have := h j
      rw [hi] at this
      simp only [upd_same]
      exact this
    · rw [upd_other _ _ _ _ hji]; exact h j
  | finish i p op r hi =>
    intro j
    dsimp only
    by_cases hji : j = i
    · subst hji
      have := h j
      rw [hi] at this
      simp only [upd_same]
      exact ⟨this.1, trivial⟩
    · rw [upd_other _ _ _ _ hji]; exact h j

theorem ownInv_reachable {O : Owned S} {s0 : S.σ} {progs : Nat → List S.Op}
    (hown : ∀ i, ∀ op ∈ progs i, O.owner op = i) {c : NConfig S} (h : NReachable s0 progs c) : OwnInv O c := by
  induction h with
  | init => exact fun j => ⟨hown j, trivial⟩
  | step _ hs ih => exact ownInv_step ih hs

/-- **Race freedom without a lock for disjointly owned state.** -/
theorem owned_drf (O : Owned S) {s0 : S.σ} {progs : Nat → List S.Op}
    (hown : ∀ i, ∀ op ∈ progs i, O.owner op = i) {c : NConfig S} (h : NReachable s0 progs c)
    {i j : Nat} {a b : S.Loc × Bool} (hij : i ≠ j)
    (ha : (c.thr i).ph.next? = some a) (hb : (c.thr j).ph.next? = some b) : ¬ Conflict a b := by
  have hinv := ownInv_reachable hown h
  have key : ∀ (k : Nat) (x : S.Loc × Bool), (c.thr k).ph.next? = some x → O.locOwner x.1 = k := by
    intro k x hk
    have := (hinv k).2
    cases hp : (c.thr k).ph with
    | idle => simp [hp, NPhase.next?] at hk
    | running op todo resp =>
      cases todo with
      | nil => simp [hp, NPhase.next?] at hk
      | cons y ys =>
        simp [hp, NPhase.next?] at hk; subst hk
        rw [hp] at this
        exact this.2 y (by simp)
  intro hc
  have h1 := key i a ha
  have h2 := key j b hb
  rw [hc.1] at h1
  exact hij (h1.symm.trans h2)

/-! ## Each thread computes its own sequential program -/

/-- The state has one component per owner; an operation is a function of its owner's component. -/
structure Local (S : Sys) (O : Owned S) where
  V : Type
  view : Nat → S.σ → V
  lsem : S.Op → V → V × S.Resp
  sem_own : ∀ op s, view (O.owner op) (S.sem op s).1 = (lsem op (view (O.owner op) s)).1 ∧
    (S.sem op s).2 = (lsem op (view (O.owner op) s)).2
  sem_other : ∀ op s j, j ≠ O.owner op → view j (S.sem op s).1 = view j s

variable {O : Owned S}

/-- Sequential run of a program on ONE component: final component … -/
def Local.run (L : Local S O) (v : L.V) (ops : List S.Op) : L.V := ops.foldl (fun v op => (L.lsem op v).1) v
/-- … and the list of responses. -/
def Local.resps (L : Local S O) : L.V → List S.Op → List S.Resp
  | _, [] => []
  | v, op :: ops => (L.lsem op v).2 :: L.resps (L.lsem op v).1 ops

theorem Local.run_snoc (L : Local S O) (v : L.V) (ops : List S.Op) (op : S.Op) :
    L.run v (ops ++ [op]) = (L.lsem op (L.run v ops)).1 := by simp [Local.run]

theorem Local.resps_snoc (L : Local S O) (v : L.V) (ops : List S.Op) (op : S.Op) :
    L.resps v (ops ++ [op]) = L.resps v ops ++ [(L.lsem op (L.run v ops)).2] := by
  induction ops generalizing v with
  | nil => rfl
  | cons o ops ih => simp [Local.resps, Local.run, ih]

/-- The completed operations of thread `j`, in order of return. -/
def NoLock.NConfig.doneOf (c : NConfig S) (j : Nat) : List (NRec S) := c.done.filter (fun r => r.tid = j)

def SeqOwnInv (L : Local S O) (s0 : S.σ) (progs : Nat → List S.Op) (c : NConfig S) : Prop :=
  ∀ j, (c.doneOf j).map (·.resp) = L.resps (L.view j s0) ((c.doneOf j).map (·.op)) ∧
    match (c.thr j).ph with
    | .idle => (c.doneOf j).map (·.op) ++ (c.thr j).prog = progs j ∧
        L.view j c.st = L.run (L.view j s0) ((c.doneOf j).map (·.op))
    | .running op _ none => (c.doneOf j).map (·.op) ++ op :: (c.thr j).prog = progs j ∧
        L.view j c.st = L.run (L.view j s0) ((c.doneOf j).map (·.op))
    | .running op _ (some r) => (c.doneOf j).map (·.op) ++ op :: (c.thr j).prog = progs j ∧
        L.view j c.st = L.run (L.view j s0) ((c.doneOf j).map (·.op) ++ [op]) ∧
        r = (L.lsem op (L.run (L.view j s0) ((c.doneOf j).map (·.op)))).2

theorem seqOwnInv_step (L : Local S O) {s0 : S.σ} {progs : Nat → List S.Op} {c c' : NConfig S}
    (hO : OwnInv O c) (h : SeqOwnInv L s0 progs c) (hs : NStep c c') : SeqOwnInv L s0 progs c' := by
  cases hs with
  | start i op rest hi =>
    intro j
    have := h j
    dsimp only [NConfig.doneOf] at this ⊢
    by_cases hji : j = i
    · subst hji; simp only [upd_same]; rw [hi] at this; exact this
    · rw [upd_other _ _ _ _ hji]; exact this
  | access i p op a todo resp hi =>
    intro j
    have := h j
    dsimp only [NConfig.doneOf] at this ⊢
    by_cases hji : j = i
    · subst hji; simp only [upd_same]; rw [hi] at this
      cases resp <;> exact this
    · rw [upd_other _ _ _ _ hji]; exact this
  | effect i p op todo hi =>
    have hown : O.owner op = i := by
      have := (hO i).2; rw [hi] at this; exact this.1
    intro j
    have := h j
    dsimp only [NConfig.doneOf] at this ⊢
    by_cases hji : j = i
    · subst hji; simp only [upd_same]; rw [hi] at this
      obtain ⟨h1, h2, h3⟩ := this
      have ho := L.sem_own op c.st
      rw [hown] at ho
      refine ⟨h1, h2, ?_, ?_⟩
      · rw [ho.1, h3, L.run_snoc]
      · rw [ho.2, h3]
    · rw [upd_other _ _ _ _ hji]
      have hv : L.view j (S.sem op c.st).1 = L.view j c.st := L.sem_other op c.st j (by rw [hown]; exact hji)
      refine ⟨this.1, ?_⟩
      cases hp : (c.thr j).ph with
      | idle => rw [hp] at this; exact ⟨this.2.1, by rw [hv]; exact this.2.2⟩
      | running o t r =>
        rw [hp] at this
        cases r with
        | none => exact ⟨this.2.1, by rw [hv]; exact this.2.2⟩
        | some r => exact ⟨this.2.1, by rw [hv]; exact this.2.2.1, this.2.2.2⟩
  | finish i p op r hi =>
    intro j
    have := h j
    dsimp only [NConfig.doneOf] at this ⊢
    by_cases hji : j = i
    · subst hji; simp only [upd_same]; rw [hi] at this
      obtain ⟨h1, h2, h3, h4⟩ := this
      simp only [List.filter_append, List.filter_cons, decide_true, if_true, List.filter_nil, List.map_append,
        List.map_cons, List.map_nil]
      refine ⟨?_, ?_, h3⟩
      · rw [L.resps_snoc, h1, h4]
      · rw [List.append_assoc]; exact h2
    · rw [upd_other _ _ _ _ hji]
      have hij : ¬ i = j := fun e => hji e.symm
      simpa [List.filter_append, hij] using this

theorem seqOwnInv_reachable (L : Local S O) {s0 : S.σ} {progs : Nat → List S.Op}
    (hown : ∀ i, ∀ op ∈ progs i, O.owner op = i) {c : NConfig S} (h : NReachable s0 progs c) :
    SeqOwnInv L s0 progs c := by
  induction h with
  | init => intro j; simp [NConfig.init, NConfig.doneOf, Local.resps, Local.run]
  | step hc hs ih => exact seqOwnInv_step L (ownInv_reachable hown hc) ih hs

/-- **Each thread runs its own sequential program.**  For every thread `j` of a reachable
configuration, with `ds` its completed operations in order of return: `ds` is a prefix of `progs j`;
the published responses are those of running `ds` alone, sequentially, on thread `j`'s initial
component; and when the thread is idle its component of the shared state is the result of that run. -/
theorem owned_seq (L : Local S O) {s0 : S.σ} {progs : Nat → List S.Op}
    (hown : ∀ i, ∀ op ∈ progs i, O.owner op = i) {c : NConfig S} (h : NReachable s0 progs c) (j : Nat) :
    (c.doneOf j).map (·.op) <+: progs j ∧
    (c.doneOf j).map (·.resp) = L.resps (L.view j s0) ((c.doneOf j).map (·.op)) ∧
    ((c.thr j).ph = .idle → L.view j c.st = L.run (L.view j s0) ((c.doneOf j).map (·.op)) ∧
      (c.doneOf j).map (·.op) ++ (c.thr j).prog = progs j) := by
  have := seqOwnInv_reachable L hown h j
  refine ⟨?_, this.1, fun hp => ?_⟩
  · cases hp : (c.thr j).ph with
    | idle => rw [hp] at this; exact ⟨_, this.2.1⟩
    | running o t r =>
      rw [hp] at this
      cases r with
      | none => exact ⟨_, this.2.1⟩
      | some r => exact ⟨_, this.2.1⟩
  · rw [hp] at this; exact ⟨this.2.2, this.2.1⟩

/-! ## Building runs (for non-vacuity examples) -/

theorem ndrain {s0 : S.σ} {progs : Nat → List S.Op} (todo : List (S.Loc × Bool)) {c : NConfig S}
    (h : NReachable s0 progs c) {i : Nat} {p : List S.Op} {op : S.Op} {r : Option S.Resp}
    (hi : c.thr i = ⟨p, .running op todo r⟩) :
    ∃ c', NReachable s0 progs c' ∧ c'.st = c.st ∧ c'.done = c.done ∧
      ∀ j, c'.thr j = upd c.thr i ⟨p, .running op [] r⟩ j := by
  induction todo generalizing c with
  | nil =>
    refine ⟨c, h, rfl, rfl, fun j => ?_⟩
    by_cases hj : j = i
    · subst hj; simp [hi]
    · simp [upd, hj]
  | cons a todo ih =>
    have h1 := h.step (.access c i p op a todo r hi)
    obtain ⟨c', hc', e1, e2, e3⟩ := ih h1 (by simp)
    refine ⟨c', hc', e1, e2, fun j => ?_⟩
    rw [e3 j]
    by_cases hj : j = i <;> simp [upd, hj]

/-- Thread `i` runs its next operation to completion with nobody else moving. -/
theorem nsolo {s0 : S.σ} {progs : Nat → List S.Op} {c : NConfig S} (h : NReachable s0 progs c)
    {i : Nat} {op : S.Op} {rest : List S.Op} (hi : c.thr i = ⟨op :: rest, .idle⟩) :
    ∃ c', NReachable s0 progs c' ∧ c'.st = (S.sem op c.st).1 ∧
      (∀ j, c'.thr j = upd c.thr i ⟨rest, .idle⟩ j) ∧
      c'.done = c.done ++ [⟨i, op, (S.sem op c.st).2⟩] := by
  have h1 := h.step (.start c i op rest hi)
  have h2 := h1.step (.effect _ i rest op (S.accs op) (by simp))
  obtain ⟨c3, h3, e1, e2, e3⟩ := ndrain (S.accs op) h2 (i := i) (p := rest) (op := op)
    (r := some (S.sem op c.st).2) (by simp)
  have hi3 : c3.thr i = ⟨rest, .running op [] (some (S.sem op c.st).2)⟩ := by rw [e3 i]; simp
  have h4 := h3.step (.finish c3 i rest op _ hi3)
  refine ⟨_, h4, by simp [e1], fun j => ?_, by simp [e2]⟩
  by_cases hj : j = i
  · subst hj; simp
  · simp only [upd, hj, if_false]
    rw [e3 j]
    simp [upd, hj]

end Mux.RWLock
