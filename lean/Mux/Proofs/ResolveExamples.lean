/-
  Mux.Proofs.ResolveExamples — concrete instances for the non-vacuity examples of `C02resolve.lean`:
  the two-route table of D1 as an explicit tree (what `Tree.run` builds, confirmed by `#eval`), with
  the structural invariant, the canonical form and the tracking hypotheses.
-/
import Mux.Proofs.ResolveCanon
import Mux.Proofs.ResolveHistory
import Mux.Proofs.GetNodeFuel
namespace Mux.P15
open Mux Mux.P8 Mux.Spec

/-- `/users/{id}/{page:\d+}` -/
def exPA : Bytes :=
  [47, 117, 115, 101, 114, 115, 47, 123, 105, 100, 125, 47, 123, 112, 97, 103, 101, 58, 92, 100, 43, 125]
/-- `/users/{id}/{action}/log` -/
def exPB : Bytes :=
  [47, 117, 115, 101, 114, 115, 47, 123, 105, 100, 125, 47, 123, 97, 99, 116, 105, 111, 110, 125, 47, 108, 111, 103]
/-- `/users/5/7/log` -/
def exPathD1 : Bytes := [47, 117, 115, 101, 114, 115, 47, 53, 47, 55, 47, 108, 111, 103]

def exHs (k : Nat) : AMap Handler :=
  [(mHEAD, { base := .user k }), (mGET, { base := .user k }), (mOPTIONS, { base := .options }),
   (mNotAllowed, { base := .notAllowed })]

def exPageLeaf : Node :=
  .mk { value := [123, 112, 97, 103, 101, 58, 92, 100, 43, 125], kind := .rx, name := [112, 97, 103, 101],
        rule := [92, 100, 43], re := .plus { neg := false, ranges := [(48, 57)] } } exPA 385 (exHs 1) [] []
def exActionLeaf : Node :=
  .mk { value := [123, 97, 99, 116, 105, 111, 110, 125, 47, 108, 111, 103], kind := .named,
        name := [97, 99, 116, 105, 111, 110], suffix := [47, 108, 111, 103] } exPB 385 (exHs 2) [] []
def exIdNode : Node :=
  .mk { value := [123, 105, 100, 125, 47], kind := .named, name := [105, 100], suffix := [47] }
    [47, 117, 115, 101, 114, 115, 47, 123, 105, 100, 125, 47] 0 [] [] [exPageLeaf, exActionLeaf]
def exUsersNode : Node :=
  .mk { value := [47, 117, 115, 101, 114, 115, 47] } [47, 117, 115, 101, 114, 115, 47] 0 [] [] [exIdNode]
def exD1Root : Node :=
  .mk { value := [] } [] 257 [(mOPTIONS, { base := .options }), (mNotAllowed, { base := .notAllowed })] [] [exUsersNode]

/-- The tree `Tree.new … |>.run [add /users/{id}/{page:\d+}, add /users/{id}/{action}/log]` builds. -/
def exD1 : Tree := { root := exD1Root, counts := [(mGET, 2)], name := [114], notFound := { base := .notFound } }

instance (a b : Node) : Decidable (DRel a b) := by unfold DRel; infer_instance

theorem tidy_tok (inner tail : Bytes) (h1 : NoBrace inner) (h2 : NoBrace tail) :
    Tidy (startByte :: (inner ++ endByte :: tail)) := .inr ⟨inner, tail, rfl, h1, h2⟩

theorem exD1_all : Node.All (SOk2 []) exD1Root := by
  have t1 : Tidy exPageLeaf.seg.value := tidy_tok [112, 97, 103, 101, 58, 92, 100, 43] [] (by decide) (by decide)
  have t2 : Tidy exActionLeaf.seg.value := tidy_tok [97, 99, 116, 105, 111, 110] [47, 108, 111, 103] (by decide) (by decide)
  have t3 : Tidy exIdNode.seg.value := tidy_tok [105, 100] [47] (by decide) (by decide)
  have t4 : Tidy exUsersNode.seg.value := .inl (by decide)
  simp only [exD1Root, exUsersNode, exIdNode, exPageLeaf, exActionLeaf, Node.All, AllL, and_true, SOk2] at *
  refine ⟨⟨by decide, ⟨?_, by decide⟩⟩, ⟨by decide, ⟨?_, by decide⟩⟩, ⟨by decide, ⟨?_, by decide⟩⟩,
    ⟨by decide, ⟨?_, by decide⟩⟩, ⟨by decide, ⟨?_, by decide⟩⟩⟩
  · intro c hc
    simp only [Node.children_mk, List.mem_cons, List.not_mem_nil, or_false] at hc
    subst hc; exact t4
  · intro c hc
    simp only [Node.children_mk, List.mem_cons, List.not_mem_nil, or_false] at hc
    subst hc; exact t3
  · intro c hc
    simp only [Node.children_mk, List.mem_cons, List.not_mem_nil, or_false] at hc
    rcases hc with rfl | rfl
    · exact t1
    · exact t2
  · intro c hc; cases hc
  · intro c hc; cases hc

theorem exD1_struct : StructInv2 exD1 := ⟨exD1_all, rfl⟩

theorem exD1_names : NamesOkL [] exD1.root.children := by decide

theorem exD1_canon : KidsCanon exD1.root.children ([exPA, exPB].map (fun p => (p, p))) := by decide

theorem exD1_mem : exIdNode ∈ exD1.root.nodes := by
  simp only [exD1, exD1Root, exUsersNode, Node.nodes, nodesL, List.append_nil, List.mem_cons]
  exact .inr (.inr (by rw [Node.nodes_eq]; exact List.mem_cons_self))

def envAll : Env := { icpt := fun _ _ => true }

def resOf : HR → Option (Bytes × Params)
  | .res f => f.node.map (fun n => (n.pattern, f.params))
  | _ => none

/-! ## Two registration orders of `/a`, `/a/b` (evaluated by the kernel through the fuel version of `getNode`) -/

def okB {α : Type} : Except Err α → Bool
  | .ok _ => true
  | .error _ => false

/-- Boolean form of `Accepted`. -/
def acceptedB : Tree → List TOp → Bool
  | _, [] => true
  | t, op :: ops =>
    (match op with
     | .add p h ms methods => okB (t.add p h ms methods)
     | _ => true) && acceptedB (t.step op) ops

theorem accepted_of_B : ∀ (ops : List TOp) (t : Tree), acceptedB t ops = true → Accepted t ops
  | [], _, _ => trivial
  | op :: ops, t, h => by
    simp only [acceptedB, Bool.and_eq_true] at h
    refine ⟨?_, accepted_of_B ops _ h.2⟩
    cases op with
    | add p hd ms methods =>
      simp only at h ⊢
      cases he : t.add p hd ms methods with
      | ok t' => exact ⟨t', rfl⟩
      | error e => rw [he] at h; simp [okB] at h
    | _ => trivial

def exT0 : Tree := Tree.new [114] [] { base := .notFound } none
/-- `/a` -/
def exA : Bytes := [47, 97]
/-- `/a/b` -/
def exAB : Bytes := [47, 97, 47, 98]
def opsAB : List TOp := [.add exA { base := .user 1 } [] [mGET], .add exAB { base := .user 2 } [] [mGET]]
def opsBA : List TOp := [.add exAB { base := .user 2 } [] [mGET], .add exA { base := .user 1 } [] [mGET]]

theorem opsAB_addOnly : AddOnly opsAB := by
  intro op hop
  simp only [opsAB, List.mem_cons, List.not_mem_nil, or_false] at hop
  rcases hop with rfl | rfl <;> exact ⟨_, _, _, _, rfl⟩
theorem opsBA_addOnly : AddOnly opsBA := by
  intro op hop
  simp only [opsBA, List.mem_cons, List.not_mem_nil, or_false] at hop
  rcases hop with rfl | rfl <;> exact ⟨_, _, _, _, rfl⟩
theorem opsAB_wf : ∀ op ∈ opsAB, op.wf = true := by decide
theorem opsBA_wf : ∀ op ∈ opsBA, op.wf = true := by decide

theorem accAB : Accepted exT0 opsAB := by
  apply accepted_of_B
  simp only [opsAB, acceptedB, Tree.step, Tree.add, P10.getNode_eq_F]
  decide +kernel
theorem accBA : Accepted exT0 opsBA := by
  apply accepted_of_B
  simp only [opsBA, acceptedB, Tree.step, Tree.add, P10.getNode_eq_F]
  decide +kernel

theorem opsAB_same : ∀ p, (∃ h ms methods, TOp.add p h ms methods ∈ opsAB) ↔ (∃ h ms methods, TOp.add p h ms methods ∈ opsBA) := by
  intro p
  simp only [opsAB, opsBA, List.mem_cons, List.not_mem_nil, or_false, TOp.add.injEq]
  constructor
  · rintro ⟨h, ms, me, (⟨rfl, rfl, rfl, rfl⟩ | ⟨rfl, rfl, rfl, rfl⟩)⟩
    · exact ⟨_, _, _, .inr ⟨rfl, rfl, rfl, rfl⟩⟩
    · exact ⟨_, _, _, .inl ⟨rfl, rfl, rfl, rfl⟩⟩
  · rintro ⟨h, ms, me, (⟨rfl, rfl, rfl, rfl⟩ | ⟨rfl, rfl, rfl, rfl⟩)⟩
    · exact ⟨_, _, _, .inr ⟨rfl, rfl, rfl, rfl⟩⟩
    · exact ⟨_, _, _, .inl ⟨rfl, rfl, rfl, rfl⟩⟩

end Mux.P15
