/-
  Mux.Proofs.P9Examples — concrete instances used by the non-vacuity examples of C17, C05 (handle) and
  C01 (reachable form): well-formed patterns, a reachable history, a hand-built well-formed tree.
-/
import Mux.Proofs.RemoveNoFault
import Mux.Proofs.AmbigOne
namespace Mux.P9
open Mux

/-- `/u/{id}` -/
def exUid : Bytes := [47, 117, 47, 123, 105, 100, 125]
/-- `/u/{id}/x` -/
def exUidX : Bytes := [47, 117, 47, 123, 105, 100, 125, 47, 120]

theorem wfPattern_exUid : WfPattern exUid := by
  have : splitString exUid = [[47, 117, 47], [123, 105, 100, 125]] := by decide
  intro v hv
  rw [this] at hv
  simp only [List.mem_cons, List.not_mem_nil, or_false] at hv
  rcases hv with rfl | rfl
  · exact .inl ⟨by decide, by decide⟩
  · exact .inr ⟨[105, 100], [], rfl, ⟨by decide, by decide⟩, ⟨by decide, by decide⟩⟩

theorem wfPattern_exUidX : WfPattern exUidX := by
  have : splitString exUidX = [[47, 117, 47], [123, 105, 100, 125, 47, 120]] := by decide
  intro v hv
  rw [this] at hv
  simp only [List.mem_cons, List.not_mem_nil, or_false] at hv
  rcases hv with rfl | rfl
  · exact .inl ⟨by decide, by decide⟩
  · exact .inr ⟨[105, 100], [47, 120], rfl, ⟨by decide, by decide⟩, ⟨by decide, by decide⟩⟩

/-- A fresh tree (no TRACE, no interceptors). -/
def exT0 : Tree := Tree.new [114] [] { base := .notFound } none

/-- A history with well-formed patterns. -/
def exOps : List TOp :=
  [.add exUid { base := .user 1 } [] [mGET], .add exUidX { base := .user 2 } [] [mGET], .remove exUid [mGET],
   .clean [47, 120]]

theorem exOps_ok : ∀ op ∈ exOps, PatOk op := by
  intro op hop
  simp only [exOps, List.mem_cons, List.not_mem_nil, or_false] at hop
  rcases hop with rfl | rfl | rfl | rfl
  · exact wfPattern_exUid
  · exact wfPattern_exUidX
  · trivial
  · trivial

theorem reachWf_ex : ReachWf (exT0.run exOps) := ⟨_, _, _, _, _, _, _, exOps_ok, rfl⟩

/-- The tree holding the single route `GET /u/{id}` (what `exT0.add exUid … [GET]` builds). -/
def exLeafId : Node :=
  .mk { value := [123, 105, 100, 125], kind := .named, name := [105, 100], endpoint := true } exUid (1 + 128 + 256)
    [(mHEAD, { base := .user 1 }), (mGET, { base := .user 1 }), (mOPTIONS, { base := .options }),
     (mNotAllowed, { base := .notAllowed })] [] []
def exMidU : Node := .mk { value := [47, 117, 47] } [47, 117, 47] 0 [] [] [exLeafId]
def exT1 : Tree :=
  { root := .mk { value := [] } [] (256 + 1)
      [(mOPTIONS, { base := .options }), (mNotAllowed, { base := .notAllowed })] [] [exMidU],
    counts := [(mGET, 1)], name := [114], notFound := { base := .notFound } }

/-- A non-trivial well-formed tree. -/
theorem wellFormed_exT1 : WellFormedTree exT1 := by
  have hmid : SegOk [] ({ value := [47, 117, 47] } : Seg) :=
    SegOk.lit ⟨by decide, by decide⟩ (by decide) (by decide)
  have hleaf : SegOk [] ({ value := [123, 105, 100, 125], kind := .named, name := [105, 100], endpoint := true } : Seg) :=
    ⟨by rfl, .inr ⟨[105, 100], [], rfl, ⟨by decide, by decide⟩, ⟨by decide, by decide⟩⟩, by decide⟩
  simp only [WellFormedTree, exT1, exMidU, exLeafId, Node.children_mk, WfL, Node.Wf, List.not_mem_nil,
    false_imp_iff, implies_true, and_true]
  refine ⟨hmid, .inl trivial, ?_, hleaf, .inr (by simp [usedBelow])⟩
  intro h
  exact absurd h (by decide)


/-- `/u/{x}` -/
def exUx : Bytes := [47, 117, 47, 123, 120, 125]

theorem wfPattern_exUx : WfPattern exUx := by
  have : splitString exUx = [[47, 117, 47], [123, 120, 125]] := by decide
  intro v hv
  rw [this] at hv
  simp only [List.mem_cons, List.not_mem_nil, or_false] at hv
  rcases hv with rfl | rfl
  · exact .inl ⟨by decide, by decide⟩
  · exact .inr ⟨[120], [], rfl, ⟨by decide, by decide⟩, ⟨by decide, by decide⟩⟩

def exUxSegs : List Seg :=
  [{ value := [47, 117, 47] }, { value := [123, 120, 125], kind := .named, name := [120], endpoint := true }]
def exUidSegs : List Seg :=
  [{ value := [47, 117, 47] }, { value := [123, 105, 100, 125], kind := .named, name := [105, 100], endpoint := true }]

theorem upToNames_ex : UpToNames exUxSegs exUidSegs :=
  .cons (.inl rfl) (.cons (.inr ⟨by decide, rfl, rfl, rfl, rfl, .inr (by decide)⟩) .nil)

end Mux.P9
