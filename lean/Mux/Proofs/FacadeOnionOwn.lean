/-
  Mux.Proofs.FacadeOnionOwn — the inner part `own` of the middleware stack of a registered route is the list given
  at registration, and it STAYS so over every later operation that does not touch that (pattern, method) entry;
  later `Use`s are appended outside.  (`C09_order` only says `∃ own`.)

  The entries of a tree are read through `liveL` (`(pattern, handlers)` of every node with handlers), for which
  `Mux/Proofs/TableTree.lean` describes the effect of every operation on trees with the table invariant `TInv`.
-/
import Mux.Proofs.GroupLiftReach
import Mux.Proofs.OnionOwn
import Mux.Proofs.Onion
import Mux.Proofs.Params
namespace Mux.P18
open Mux Mux.P10 Mux.P11

/-- The tree has a node with pattern `p` whose entry for the key `k` is `h0`. -/
def Has (t : Tree) (p k : Bytes) (h0 : Handler) : Prop :=
  ∃ hs, (p, hs) ∈ liveL t.root.children ∧ hs.get? k = some h0

theorem mem_ent {x : Node} {e : Bytes × AMap Handler} : e ∈ ent x ↔ x.handlers ≠ [] ∧ e = (x.pattern, x.handlers) := by
  unfold ent
  cases h : x.handlers with
  | nil => simp
  | cons a l => simp

theorem mem_liveL {cs : List Node} {e : Bytes × AMap Handler} :
    e ∈ liveL cs ↔ ∃ x ∈ nodesL cs, x.handlers ≠ [] ∧ e = (x.pattern, x.handlers) := by
  unfold liveL
  simp only [List.mem_map, List.mem_filter]
  constructor
  · rintro ⟨x, ⟨hx, hne⟩, rfl⟩
    refine ⟨x, hx, ?_, rfl⟩
    intro h; rw [h] at hne; simp at hne
  · rintro ⟨x, hx, hne, rfl⟩
    refine ⟨x, ⟨hx, ?_⟩, rfl⟩
    cases h : x.handlers with
    | nil => exact absurd h hne
    | cons a l => simp

theorem ne_nil_of_get? {V : Type} {hs : AMap V} {k : Bytes} {v : V} (h : hs.get? k = some v) : hs ≠ [] := by
  rintro rfl; cases h

/-- Which later operations leave the entry `(p, k)` alone. -/
def Untouched (p k : Bytes) : ROp → Prop
  | .handle p' _ _ methods => p' ≠ p ∨ (k ∉ effMethods methods ∧ ¬ (k = mHEAD ∧ mGET ∈ effMethods methods) ∧
      k ≠ mOPTIONS ∧ k ≠ mNotAllowed)
  | .remove p' _ => p' ≠ p
  | .clean pre => ¬ pre <+: p
  | .use _ => True

/-! ## The four operations on the tree -/

theorem has_add {t t' : Tree} {p' : Bytes} {h : Handler} {ms : List Nat} {methods : List Bytes}
    (hinv : TInv t) (hw : WfPattern p' = true) (he : t.add p' h ms methods = .ok t') {p k : Bytes} {h0 : Handler}
    (hu : p' ≠ p ∨ (k ∉ effMethods methods ∧ ¬ (k = mHEAD ∧ mGET ∈ effMethods methods) ∧
      k ≠ mOPTIONS ∧ k ≠ mNotAllowed))
    (hh : Has t p k h0) : Has t' p k h0 := by
  obtain ⟨_, x, x', A, B, hperm, hl', hxp, hfx, _, _⟩ := add_effect hinv hw he
  obtain ⟨hs, hmem, hget⟩ := hh
  have hmem' := hperm.mem_iff.1 hmem
  simp only [List.mem_append] at hmem'
  rcases hmem' with (hA | hx) | hB
  · exact ⟨hs, by rw [hl']; simp [hA], hget⟩
  · obtain ⟨_, heq⟩ := mem_ent.1 hx
    simp only [Prod.mk.injEq] at heq
    obtain ⟨hp, hhs⟩ := heq
    have hpp : p' = p := by rw [hp, hxp]
    rcases hu with hu | ⟨u1, u2, u3, u4⟩
    · exact absurd hpp hu
    · obtain ⟨a, _, _, hspec⟩ := addMethodsNode_spec t h p' ms (effMethods methods) x x' hfx
      have hget' : x'.handlers.get? k = some h0 := by rw [hspec.other k u1 u2 u3 u4, ← hhs]; exact hget
      refine ⟨x'.handlers, ?_, hget'⟩
      rw [hl']
      have : (p, x'.handlers) ∈ ent x' := mem_ent.2 ⟨ne_nil_of_get? hget', by rw [a, hxp, hpp]⟩
      simp [this]
  · exact ⟨hs, by rw [hl']; simp [hB], hget⟩

theorem has_remove {t t' : Tree} {p' : Bytes} {methods : List Bytes} (hinv : TInv t)
    (he : t.remove p' methods = .ok t') {p k : Bytes} {h0 : Handler} (hu : p' ≠ p) (hh : Has t p k h0) :
    Has t' p k h0 := by
  rcases (remove_effect hinv he).2 with ⟨rfl, _⟩ | ⟨x, A, B, _, _, hxp, hl, hl', _⟩
  · exact hh
  · obtain ⟨hs, hmem, hget⟩ := hh
    rw [hl] at hmem
    simp only [List.mem_append] at hmem
    rcases hmem with (hA | hx) | hB
    · exact ⟨hs, by rw [hl']; simp [hA], hget⟩
    · obtain ⟨_, heq⟩ := mem_ent.1 hx
      simp only [Prod.mk.injEq] at heq
      exact absurd (by rw [heq.1, hxp]) hu
    · exact ⟨hs, by rw [hl']; simp [hB], hget⟩

theorem has_clean {t t' : Tree} {pre : Bytes} (hinv : TInv t) (he : t.clean pre = .ok t') {p k : Bytes} {h0 : Handler}
    (hu : ¬ pre <+: p) (hh : Has t p k h0) : Has t' p k h0 := by
  obtain ⟨_, hl', _⟩ := clean_effect hinv he
  obtain ⟨hs, hmem, hget⟩ := hh
  refine ⟨hs, ?_, hget⟩
  rw [hl', List.mem_filter]
  refine ⟨hmem, ?_⟩
  unfold keepE
  cases hp : hasPrefix p pre with
  | false => rfl
  | true => exact absurd ((hasPrefix_iff p pre).1 hp) hu

theorem get?_mapVal {hs : AMap Handler} (F : Bytes → Handler → Handler) (k : Bytes) :
    AMap.get? (hs.map (fun e => (e.1, F e.1 e.2))) k = (hs.get? k).map (F k) := by
  induction hs with
  | nil => rfl
  | cons e hs ih =>
    rw [List.map_cons, AMap.get?_cons, AMap.get?_cons, ih]
    by_cases he : e.1 = k
    · simp [he]
    · simp [he]

theorem has_use {t : Tree} (ms : List Nat) (hinv : TInv t) {p k : Bytes} {h0 : Handler} (hh : Has t p k h0) :
    Has (t.applyMiddleware ms) p k (wrapWith h0 k p t.name ms) := by
  obtain ⟨_, hl'⟩ := use_effect ms hinv
  obtain ⟨hs, hmem, hget⟩ := hh
  refine ⟨(mwE t.name ms (p, hs)).2, ?_, ?_⟩
  · rw [hl']
    exact List.mem_map.2 ⟨(p, hs), hmem, rfl⟩
  · show AMap.get? (hs.map (fun h => (h.1, wrapWith h.2 h.1 p t.name ms))) k = _
    rw [get?_mapVal (fun k' h' => wrapWith h' k' p t.name ms), hget]; rfl

/-! ## Router operations -/

theorem step_name (r : Router) (op : ROp) : (r.step op).tree.name = r.tree.name := by
  rw [step_tree_eq]; exact (sameCfg_step r.tree _).2.1

/-- One later operation: the entry keeps its base and its inner list `own`; the `Use` part follows `r.ms`. -/
theorem own_step {r : Router} (hr : P14.ReachAll r.tree) {op : ROp} (hop : ROp.wf op = true) {p k : Bytes}
    (hu : Untouched p k op) {b : Base} {own : List Nat}
    (hh : Has r.tree p k { base := b, wraps := mkWraps (own ++ r.ms) k p r.tree.name }) :
    Has (r.step op).tree p k { base := b, wraps := mkWraps (own ++ (r.step op).ms) k p (r.step op).tree.name } := by
  rw [step_name, step_ms]
  have hinv := hr.inv.ti
  cases op with
  | handle p' h m methods =>
    simp only [useArg, Option.getD_none, List.append_nil]
    simp only [Router.step, Router.handle, bind, Except.bind, pure, Except.pure]
    cases he : r.tree.add p' { base := .user h } (m ++ r.ms) methods with
    | error e => exact hh
    | ok t' => exact has_add hinv hop he hu hh
  | remove p' methods =>
    simp only [useArg, Option.getD_none, List.append_nil]
    simp only [Router.step, Router.remove, bind, Except.bind, pure, Except.pure]
    cases he : r.tree.remove p' methods with
    | error e => exact hh
    | ok t' => exact has_remove hinv he hu hh
  | clean pre =>
    simp only [useArg, Option.getD_none, List.append_nil]
    simp only [Router.step, Router.clean, bind, Except.bind, pure, Except.pure]
    cases he : r.tree.clean pre with
    | error e => exact hh
    | ok t' => exact has_clean hinv he hu hh
  | use m =>
    simp only [useArg, Option.getD_some]
    have := has_use m hinv hh
    simp only [Router.step, Router.use]
    rw [← List.append_assoc, mkWraps_append]
    exact this

theorem own_run {r : Router} (hr : P14.ReachAll r.tree) {ops : List ROp} (hops : ∀ op ∈ ops, ROp.wf op = true)
    {p k : Bytes} (hu : ∀ op ∈ ops, Untouched p k op) {b : Base} {own : List Nat}
    (hh : Has r.tree p k { base := b, wraps := mkWraps (own ++ r.ms) k p r.tree.name }) :
    Has (r.run ops).tree p k { base := b, wraps := mkWraps (own ++ (r.run ops).ms) k p (r.run ops).tree.name } := by
  unfold Router.run
  induction ops generalizing r with
  | nil => exact hh
  | cons op ops ih =>
    rw [List.foldl_cons]
    exact ih (reachAll_step hr (hops op (by simp))) (fun o ho => hops o (by simp [ho]))
      (fun o ho => hu o (by simp [ho])) (own_step hr (hops op (by simp)) (hu op (by simp)) hh)

/-- The moment of registration: after a successful `Handle(p, h, m, methods…)` the entries of the listed methods
(and HEAD when GET is listed) are `h` wrapped in `m ++ r.ms`. -/
theorem own_registered {r r' : Router} {p : Bytes} {h : Nat} {m : List Nat} {methods : List Bytes}
    (hw : WrapInv r) (he : r.handle p h m methods = .ok r') {k : Bytes}
    (hk : k ∈ effMethods methods ∨ (k = mHEAD ∧ mGET ∈ effMethods methods)) :
    Has r'.tree p k { base := .user h, wraps := mkWraps (m ++ r'.ms) k p r'.tree.name } := by
  obtain ⟨path, n0, n', hne, hget, hpat, _, hspec⟩ := handle_own hw he
  have hstep : r' = r.step (.handle p h m methods) := by simp [Router.step, he]
  have hms : r'.ms = r.ms := by rw [hstep, step_ms]; simp [useArg]
  have hname : r'.tree.name = r.tree.name := by rw [hstep, step_name]
  have hentry : n'.handlers.get? k = some { base := .user h, wraps := mkWraps (m ++ r'.ms) k p r'.tree.name } := by
    rw [hms, hname]
    rcases hk with hk | ⟨rfl, hg⟩
    · exact hspec.route k hk
    · exact hspec.head hg
  cases path with
  | nil => exact absurd rfl hne
  | cons i path =>
    refine ⟨n'.handlers, mem_liveL.2 ⟨n', getAt_mem_below hget, ne_nil_of_get? hentry, by rw [hpat]⟩, hentry⟩

/-- **Persistence.**  `NewRouter`, any history `pre`, a successful `Handle(p, h, m, methods…)`, any history `post`
that leaves the entry `(p, k)` alone (all registered patterns well-formed): the entry is `h` wrapped in
`m ++ useMs`, `useMs` = ALL `Use` arguments of the whole history in order. -/
theorem own_persists {cfg : RouterCfg} {r0 : Router} (hnew : Router.new cfg = some r0) (pre post : List ROp)
    (p : Bytes) (h : Nat) (m : List Nat) (methods : List Bytes) (k : Bytes)
    (hwf : ∀ op ∈ pre ++ .handle p h m methods :: post, ROp.wf op = true)
    (hok : ∃ r', (r0.run pre).handle p h m methods = .ok r')
    (hpost : ∀ op ∈ post, Untouched p k op)
    (hk : k ∈ effMethods methods ∨ (k = mHEAD ∧ mGET ∈ effMethods methods)) :
    Has (r0.run (pre ++ .handle p h m methods :: post)).tree p k
      { base := .user h,
        wraps := mkWraps (m ++ ((pre ++ .handle p h m methods :: post).filterMap useArg).flatten) k p cfg.name } := by
  obtain ⟨r', he⟩ := hok
  have hstep : r' = (r0.run pre).step (.handle p h m methods) := by simp [Router.step, he]
  have hrun : r0.run (pre ++ .handle p h m methods :: post) = r'.run post := by
    rw [hstep]; simp [Router.run, List.foldl_append]
  have hw1 : WrapInv (r0.run pre) := wrap_run (wrap_new hnew) pre
  have hreach : P14.ReachAll r'.tree := by
    rw [hstep]
    exact reachAll_step (reachAll_run hnew (fun o ho => hwf o (by simp [ho]))) (hwf _ (by simp))
  have h1 := own_registered hw1 he hk
  have h2 := own_run hreach (fun o ho => hwf o (by simp [ho])) hpost h1
  rw [← hrun] at h2
  have hms := run_ms r0 (pre ++ .handle p h m methods :: post)
  have hms0 : r0.ms = [] := by
    unfold Router.new at hnew
    split at hnew
    · cases hnew
    · cases hnew; rfl
  rw [hms0, List.nil_append] at hms
  rw [hms, (run_cfg hnew _).1] at h2
  exact h2

/-! ## Dispatch to the node with pattern `p` -/

theorem has_dispatch {t : Tree} (hinv : P14.AllInv t) {p k : Bytes} {h0 : Handler} (hh : Has t p k h0)
    {env : Env} {path : Bytes} {ps : Params} {method : Bytes} {f : Found} {n : Node}
    (hres : t.handler env path ps method = .res f) (hn : f.node = some n) (hp : n.pattern = p)
    (hkey : (if f.ok then method else mNotAllowed) = k) : f.handler = h0 ∧ n ∈ nodesL t.root.children := by
  obtain ⟨hs, hmem, hget⟩ := hh
  obtain ⟨x, hx, _, heq⟩ := mem_liveL.1 hmem
  simp only [Prod.mk.injEq] at heq
  obtain ⟨hxp, hxh⟩ := heq
  have hsh := hinv.ti.sh
  have hroot : n ≠ t.root := by
    rintro rfl
    obtain ⟨r, hr, hxr⟩ := below_pattern t.ic t.root hsh x hx
    rw [← hxp, hp] at hxr
    have := congrArg List.length hxr
    simp at this
    exact hr this
  have hbelow : ∀ n', f.node = some n' → n' ∈ t.root.nodes → n ∈ nodesL t.root.children := by
    intro n' hn' hmem'
    rw [hn] at hn'
    cases hn'
    rw [Node.nodes_eq] at hmem'
    rcases List.mem_cons.1 hmem' with e | e
    · exact absurd e hroot
    · exact e
  have huniq : n ∈ nodesL t.root.children → n.handlers = hs := by
    intro hnb
    have := node_unique hsh hx hnb (by rw [← hxp, hp])
    rw [← this, hxh]
  rcases handler_spec hinv.treeInv env path ps method with ⟨f', hf', hspec⟩ | hf'
  · rw [hres] at hf'
    cases hf'
    cases hspec with
    | notFound h1 _ _ => rw [hn] at h1; cases h1
    | trace h ht hm hnode _ _ =>
      rw [hn] at hnode
      cases hnode
      exact absurd rfl hroot
    | found n' hnode hmem' _ _ hg hok =>
      have hnb := hbelow n' hnode hmem'
      rw [hn] at hnode
      cases hnode
      rw [hok] at hkey
      simp only [if_true] at hkey
      rw [huniq hnb, hkey, hget] at hg
      exact ⟨(Option.some.inj hg).symm, hnb⟩
    | notAllowed n' hnode hmem' _ _ hg hok =>
      have hnb := hbelow n' hnode hmem'
      rw [hn] at hnode
      cases hnode
      rw [hok] at hkey
      simp only [Bool.false_eq_true, if_false] at hkey
      rw [huniq hnb, hkey, hget] at hg
      exact ⟨(Option.some.inj hg).symm, hnb⟩
  · rw [hres] at hf'; cases hf'

end Mux.P18
