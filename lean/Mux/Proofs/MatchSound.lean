/-
  Mux.Proofs.MatchSound — soundness of `Node.matchChildren` / `matchAt` / `matchFrom` (property C01
  at the level of the matcher).

  * a hit is justified by a `Chain` from the node to the result, the consumed path is the chain
    instantiated with the captured values, every value satisfies its segment's constraint and the
    node found has handlers (unconditional, given `Seg.match_sound`);
  * (D30 repair) the undo of an abandoned child is `restoreParam`; see `RestoreMatch.lean` for the exact law that
    needs no hypothesis on names;
  * under the tree hypotheses `NamesOk` (names) and `IdxLit` (the index fast path only selects
    literal children) the parameters after a hit are EXACTLY `ps ++ captures chain`, and a miss
    returns the parameters unchanged (the D1 repair).
-/
import Mux.Proofs.SegMatch
namespace Mux

/-! ## Association-list facts -/

namespace AMap
variable {V : Type}

theorem contains_eq_false {m : AMap V} {k : Bytes} (h : k ∉ m.keys) : m.contains k = false := by
  induction m with
  | nil => rfl
  | cons e m ih =>
    simp only [keys, List.map_cons, List.mem_cons, not_or] at h
    simp only [contains, List.any_cons, Bool.or_eq_false_iff, decide_eq_false_iff_not]
    exact ⟨fun he => h.1 he.symm, ih h.2⟩

/-- `set` on a fresh key appends. -/
theorem set_fresh {m : AMap V} {k : Bytes} (v : V) (h : k ∉ m.keys) : m.set k v = m ++ [(k, v)] := by
  simp [set, contains_eq_false h]

/-- `erase` of a key that is not there is the identity. -/
theorem erase_fresh {m : AMap V} {k : Bytes} (h : k ∉ m.keys) : m.erase k = m := by
  induction m with
  | nil => rfl
  | cons e m ih =>
    simp only [keys, List.map_cons, List.mem_cons, not_or] at h
    have h1 : e.1 ≠ k := fun he => h.1 he.symm
    simp only [erase, List.filter_cons, h1, ne_eq, not_false_eq_true, decide_true, if_true]
    exact congrArg _ (ih h.2)

/-- `erase` undoes a `set` on a fresh key. -/
theorem erase_set_fresh {m : AMap V} {k : Bytes} (v : V) (h : k ∉ m.keys) : (m.set k v).erase k = m := by
  rw [set_fresh v h]
  have := erase_fresh h
  unfold erase at this ⊢
  rw [List.filter_append, this]
  simp

theorem keys_append (m m' : AMap V) : (m ++ m').keys = m.keys ++ m'.keys := by
  simp [keys]

theorem get?_append_fresh {m m' : AMap V} {k : Bytes} (h : k ∉ m.keys) : (m ++ m').get? k = m'.get? k := by
  induction m with
  | nil => rfl
  | cons e m ih =>
    simp only [keys, List.map_cons, List.mem_cons, not_or] at h
    have h1 : ¬ e.1 = k := fun he => h.1 he.symm
    simp only [get?, List.cons_append, List.find?_cons, h1, decide_false]
    exact ih h.2
end AMap

namespace P19
/-- Looking up a key that is not among the keys finds nothing. -/
theorem get?_eq_none_of_fresh {V : Type} {m : AMap V} {k : Bytes} (h : k ∉ m.keys) : m.get? k = none := by
  have := AMap.get?_append_fresh (m := m) (m' := []) h
  simpa [AMap.get?] using this

/-- **Bridge between the D30 repair and the former deletion**: when the name was not a key before the child's
segment matched, restoring it is deleting it. -/
theorem restoreParam_fresh {before : Params} (after : Params) {name : Bytes} (h : name ∉ before.keys) :
    restoreParam before after name = after.erase name := by
  unfold restoreParam
  rw [get?_eq_none_of_fresh h]
end P19

/-! ## Tree predicates -/

/-- The segment puts its capture into the parameters (non-literal, no `-` flag). -/
def Seg.capturing (s : Seg) : Prop := s.kind ≠ .str ∧ ¬ s.ignoreName

instance (s : Seg) : Decidable s.capturing := by unfold Seg.capturing; infer_instance

/-- The parameter update `matchAt`/`matchFrom` perform after a successful `Seg.match`. -/
def Seg.record (s : Seg) (cap : Bytes) (ps : Params) : Params :=
  if s.kind ≠ .str ∧ ¬ s.ignoreName then ps.set s.name cap else ps

mutual
/-- `Node.NamesOk used n`: along every chain from `n` downwards, the `seg.name` of EVERY node
(literal, ignored `-` or capturing) differs from every key that is live when the node is tried:
the keys in `used` and the names of the capturing segments above it on the chain.

This is what makes `ps ++ captures chain` the exact answer of the matcher.  Before the D30 repair it was also what
the undo needed: `matchFrom` ran `ctx.Delete(child.segment.Name)` for every abandoned child whatever its kind, so a
child's name had to be no live key (for literal children the name is `""`; the condition then says that `""` is not a
live key).  The repaired undo (`restoreParam`) puts the previous value back; under `NamesOk` there is none and it is
the deletion (`P19.restoreParam_fresh`), which is how the proofs below were ported.  The law WITHOUT `NamesOk` is in
`RestoreMatch.lean` (`P19.matchChildren_restore`, `P19.matchChildren_miss_restore`).  It is implied by the usual
well-formedness (`NamesStrict` below: non-literal names pairwise distinct along a chain, literal
names `""`, capturing names non-empty): see `NamesOkL_of_strict`. -/
def Node.NamesOk (used : List Bytes) : Node → Prop
  | .mk _ _ _ _ _ cs => NamesOkL used cs
def NamesOkL (used : List Bytes) : List Node → Prop
  | [] => True
  | c :: cs =>
    c.seg.name ∉ used ∧
    Node.NamesOk (if c.seg.kind ≠ .str ∧ ¬ c.seg.ignoreName then c.seg.name :: used else used) c ∧
    NamesOkL used cs
end

mutual
instance Node.decNamesOk (used : List Bytes) : (n : Node) → Decidable (Node.NamesOk used n)
  | .mk _ _ _ _ _ cs => by unfold Node.NamesOk; exact decNamesOkL used cs
instance decNamesOkL (used : List Bytes) : (cs : List Node) → Decidable (NamesOkL used cs)
  | [] => by unfold NamesOkL; exact instDecidableTrue
  | c :: cs => by
    unfold NamesOkL
    have := Node.decNamesOk (if c.seg.kind ≠ .str ∧ ¬ c.seg.ignoreName then c.seg.name :: used else used) c
    have := decNamesOkL used cs
    infer_instance
end

theorem Node.namesOk_iff (used : List Bytes) (n : Node) : Node.NamesOk used n ↔ NamesOkL used n.children := by
  cases n; simp [Node.NamesOk, Node.children]

theorem NamesOkL_mem {used : List Bytes} {cs : List Node} (h : NamesOkL used cs) {c : Node} (hc : c ∈ cs) :
    c.seg.name ∉ used ∧
    Node.NamesOk (if c.seg.kind ≠ .str ∧ ¬ c.seg.ignoreName then c.seg.name :: used else used) c := by
  induction cs with
  | nil => cases hc
  | cons d cs ih =>
    simp only [NamesOkL] at h
    rcases List.mem_cons.1 hc with rfl | hc
    · exact ⟨h.1, h.2.1⟩
    · exact ih h.2.2 hc

theorem NamesOkL_iff {used : List Bytes} {cs : List Node} :
    NamesOkL used cs ↔ ∀ c ∈ cs, c.seg.name ∉ used ∧
      NamesOkL (if c.seg.kind ≠ .str ∧ ¬ c.seg.ignoreName then c.seg.name :: used else used) c.children := by
  induction cs with
  | nil => simp [NamesOkL]
  | cons d cs ih => simp [NamesOkL, ih, Node.namesOk_iff, and_assoc]

/-- The index fast path of the node can only select a literal child: whatever the first byte of the
path, the child at position `indexes[b]` (position 0 for a byte without entry, as Go's map read)
is a string segment.  `matchAt` does not undo a capture, so this is needed for "a miss leaves no
trace"; `buildIndexes` after `sortChildren` establishes it (literal children sort first and only
their first bytes are entered in the index). -/
def IdxLit (n : Node) : Prop :=
  n.indexes ≠ [] → ∀ (b : UInt8) (c : Node), n.children[(idxLookup n.indexes b).getD 0]? = some c → c.seg.kind = .str

theorem AllL_mem {P : Node → Prop} {cs : List Node} (h : AllL P cs) {c : Node} (hc : c ∈ cs) : Node.All P c := by
  induction cs with
  | nil => cases hc
  | cons d cs ih =>
    simp only [AllL] at h
    rcases List.mem_cons.1 hc with rfl | hc
    · exact h.1
    · exact ih h.2 hc

theorem Node.All_self {P : Node → Prop} {n : Node} (h : Node.All P n) : P n := by
  cases n; exact h.1

theorem Node.All_children {P : Node → Prop} {n : Node} (h : Node.All P n) : AllL P n.children := by
  cases n; exact h.2

/-! ## The capture bookkeeping of one child -/

theorem captures_single (s : Seg) (v : Bytes) :
    captures [(s, v)] = if s.kind ≠ .str ∧ ¬ s.ignoreName then [(s.name, v)] else [] := by
  simp only [captures]

theorem captures_cons (s : Seg) (v : Bytes) (rest : List (Seg × Bytes)) :
    captures ((s, v) :: rest) = captures [(s, v)] ++ captures rest := by
  simp only [captures]; split <;> rfl

theorem captures_append (a b : List (Seg × Bytes)) : captures (a ++ b) = captures a ++ captures b := by
  induction a with
  | nil => rfl
  | cons sv a ih =>
    obtain ⟨s, v⟩ := sv
    rw [List.cons_append, captures_cons, ih, captures_cons s v a, List.append_assoc]

/-- What recording one child's capture does to parameters whose keys are all in `used`, when the
child's name is not in `used`: it appends the capture, the keys stay inside the extended `used`,
and deleting the child's name afterwards restores the parameters. -/
theorem record_spec {s : Seg} (cap : Bytes) {ps : Params} {used : List Bytes}
    (hfresh : s.name ∉ used) (hsub : ∀ k ∈ ps.keys, k ∈ used) :
    s.record cap ps = ps ++ captures [(s, cap)] ∧
    (∀ k ∈ (s.record cap ps).keys, k ∈ (if s.kind ≠ .str ∧ ¬ s.ignoreName then s.name :: used else used)) ∧
    (s.record cap ps).erase s.name = ps := by
  have hk : s.name ∉ ps.keys := fun h => hfresh (hsub _ h)
  rw [captures_single]
  unfold Seg.record
  split
  · refine ⟨AMap.set_fresh cap hk, ?_, AMap.erase_set_fresh cap hk⟩
    intro k hk'
    rw [AMap.set_fresh cap hk, AMap.keys_append] at hk'
    rcases List.mem_append.1 hk' with h | h
    · exact List.mem_cons_of_mem _ (hsub k h)
    · simp only [AMap.keys, List.map_cons, List.map_nil, List.mem_singleton] at h
      exact h ▸ List.mem_cons_self
  · exact ⟨by simp, hsub, AMap.erase_fresh hk⟩

/-! ## The specification of a hit and of a miss -/

/-- The hypotheses under which parameters are tracked exactly (node level). -/
def TrackN (used : List Bytes) (n : Node) (ps : Params) : Prop :=
  Node.NamesOk used n ∧ Node.All IdxLit n ∧ ∀ k ∈ ps.keys, k ∈ used

/-- The same for a list of siblings. -/
def TrackL (used : List Bytes) (cs : List Node) (ps : Params) : Prop :=
  NamesOkL used cs ∧ AllL IdxLit cs ∧ ∀ k ∈ ps.keys, k ∈ used

/-- `n.matchChildren … path ps = .hit m ps'` is justified. -/
def HitN (env : Env) (ic : Interceptors) (n : Node) (path : Bytes) (ps : Params) (m : Node) (ps' : Params) : Prop :=
  ∃ chain : List (Seg × Bytes),
    Chain n (chain.map (·.1)) m ∧ path = instChain chain ∧
    (∀ sv ∈ chain, sv.1.Satisfies env ic sv.2) ∧ m.handlers ≠ [] ∧
    (∀ used, TrackN used n ps → ps' = ps ++ captures chain)

/-- A hit of `matchAt`/`matchFrom` on the sibling list `cs` is justified: the chain starts with one
of the siblings. -/
def HitL (env : Env) (ic : Interceptors) (cs : List Node) (path : Bytes) (ps : Params) (m : Node) (ps' : Params) : Prop :=
  ∃ c ∈ cs, ∃ (cap : Bytes) (chain : List (Seg × Bytes)),
    Chain c (chain.map (·.1)) m ∧ path = instChain ((c.seg, cap) :: chain) ∧
    (∀ sv ∈ (c.seg, cap) :: chain, sv.1.Satisfies env ic sv.2) ∧ m.handlers ≠ [] ∧
    (∀ used, TrackL used cs ps → ps' = ps ++ captures ((c.seg, cap) :: chain))

/-- Post-condition of a matcher call: `hit` for a hit, `miss` for a miss, nothing for a fault or an
unsupported regexp. -/
def MR.Post (hit : Node → Params → Prop) (miss : Params → Prop) : MR → Prop
  | .hit m ps' => hit m ps'
  | .miss ps' => miss ps'
  | _ => True

theorem HitL.tail {env : Env} {ic : Interceptors} {d : Node} {cs : List Node} {path : Bytes} {ps : Params} {m : Node}
    {ps' : Params} (h : HitL env ic cs path ps m ps') : HitL env ic (d :: cs) path ps m ps' := by
  obtain ⟨c, hc, cap, chain, h1, h2, h3, h4, h5⟩ := h
  exact ⟨c, List.mem_cons_of_mem _ hc, cap, chain, h1, h2, h3, h4,
    fun used ht => h5 used ⟨ht.1.2.2, ht.2.1.2, ht.2.2⟩⟩

/-- The fast path of `matchChildren`, as a function. -/
def fastPath (env : Env) (ic : Interceptors) (idx : List (UInt8 × Nat)) (cs : List Node) (path : Bytes) (ps : Params) : MR :=
  match idx, path with
  | _ :: _, b :: _ => matchAt env ic cs ((idxLookup idx b).getD 0) path ps
  | _, _ => .miss ps

theorem Node.matchChildren_eq (env : Env) (ic : Interceptors) (seg : Seg) (pat : Bytes) (mi : Nat) (hs : AMap Handler)
    (idx : List (UInt8 × Nat)) (cs : List Node) (path : Bytes) (ps : Params) :
    (Node.mk seg pat mi hs idx cs).matchChildren env ic path ps =
      match fastPath env ic idx cs path ps with
      | .miss ps1 =>
        match matchFrom env ic cs idx.length path ps1 with
        | .miss ps2 =>
          if path.isEmpty ∧ hs.length > 0 then .hit (.mk seg pat mi hs idx cs) ps2 else .miss ps2
        | r => r
      | r => r := by
  cases idx <;> cases path <;> simp only [fastPath, Node.matchChildren] <;> rfl

/-- Step of the descent into child `c` (shared by `matchAt` and `matchFrom`): a hit below `c`
after `c.seg` matched is a hit on any sibling list containing `c`. -/
theorem hit_of_child {env : Env} {ic : Interceptors} {cs : List Node} {c : Node} (hc : c ∈ cs)
    {path cap rest : Bytes} {ps : Params} (hm : c.seg.match env ic path = .yes cap rest)
    {m : Node} {ps' : Params} (h : HitN env ic c rest (c.seg.record cap ps) m ps') :
    HitL env ic cs path ps m ps' := by
  obtain ⟨chain, h1, h2, h3, h4, h5⟩ := h
  obtain ⟨e1, e2, _⟩ := Seg.match_sound env ic c.seg path cap rest hm
  refine ⟨c, hc, cap, chain, h1, ?_, ?_, h4, ?_⟩
  · rw [e1, h2]; rfl
  · intro sv hsv
    rcases List.mem_cons.1 hsv with rfl | hsv
    · exact e2
    · exact h3 sv hsv
  · intro used ht
    obtain ⟨hfresh, hok⟩ := NamesOkL_mem ht.1 hc
    obtain ⟨r1, r2, _⟩ := record_spec (s := c.seg) cap hfresh ht.2.2
    rw [h5 _ ⟨hok, AllL_mem ht.2.1 hc, r2⟩, r1, List.append_assoc, ← captures_cons]

/-- After child `c` (tracked) missed, the parameters with `c`'s name restored (D30 repair; here: deleted, the name
being fresh) are the original ones. -/
theorem miss_of_child {cs : List Node} {c : Node} (hc : c ∈ cs) {cap : Bytes} {ps ps2 : Params}
    (h : ∀ used, TrackN used c (c.seg.record cap ps) → ps2 = c.seg.record cap ps)
    {used : List Bytes} (ht : TrackL used cs ps) : restoreParam ps ps2 c.seg.name = ps := by
  obtain ⟨hfresh, hok⟩ := NamesOkL_mem ht.1 hc
  obtain ⟨_, r2, r3⟩ := record_spec (s := c.seg) cap hfresh ht.2.2
  rw [P19.restoreParam_fresh _ (fun hmem => hfresh (ht.2.2 _ hmem)), h _ ⟨hok, AllL_mem ht.2.1 hc, r2⟩, r3]

/-! ## The main mutual theorem -/

mutual
/-- Soundness of `node.matchChildren`. -/
theorem Node.matchChildren_post (env : Env) (ic : Interceptors) : (n : Node) → (path : Bytes) → (ps : Params) →
    MR.Post (HitN env ic n path ps) (fun ps' => ∀ used, TrackN used n ps → ps' = ps)
      (n.matchChildren env ic path ps)
  | .mk seg pat mi hs idx cs, path, ps => by
    have hAt := fun i => matchAt_post env ic cs i path ps
    have hFrom := fun ps1 => matchFrom_post env ic cs idx.length path ps1
    rw [Node.matchChildren_eq]
    -- the fast path: either a justified hit, or a miss that (tracked) left `ps` alone
    have hfast : MR.Post (HitL env ic cs path ps) (fun ps' => ∀ used, TrackN used (.mk seg pat mi hs idx cs) ps → ps' = ps)
        (fastPath env ic idx cs path ps) := by
      unfold fastPath
      split
      · rename_i hd tl b tl'
        have := hAt ((idxLookup (hd :: tl) b).getD 0)
        cases hr : matchAt env ic cs ((idxLookup (hd :: tl) b).getD 0) (b :: tl') ps with
        | hit m ps' => rw [hr] at this; exact this
        | miss ps' =>
          rw [hr] at this
          intro used ht
          refine this used ⟨ht.1, ht.2.1.2, ht.2.2⟩ ?_
          intro c hc
          exact ht.2.1.1 (by simp [Node.indexes]) b c hc
        | fault s => trivial
        | unsupported => trivial
      · intro used _; rfl
    have lift : ∀ {ps0 m ps'}, (∀ used, TrackN used (.mk seg pat mi hs idx cs) ps → ps0 = ps) →
        HitL env ic cs path ps0 m ps' → HitN env ic (.mk seg pat mi hs idx cs) path ps m ps' := by
      intro ps0 m ps' h0 ⟨c, hc, cap, chain, h1, h2, h3, h4, h5⟩
      refine ⟨(c.seg, cap) :: chain, Chain.cons hc h1, h2, h3, h4, ?_⟩
      intro used ht
      have := h0 used ht
      subst this
      exact h5 used ⟨ht.1, ht.2.1.2, ht.2.2⟩
    cases hf : fastPath env ic idx cs path ps with
    | hit m ps' =>
      rw [hf] at hfast
      exact lift (fun _ _ => rfl) hfast
    | fault s => trivial
    | unsupported => trivial
    | miss ps1 =>
      rw [hf] at hfast
      simp only
      have hfr := hFrom ps1
      cases hr : matchFrom env ic cs idx.length path ps1 with
      | hit m ps' =>
        rw [hr] at hfr
        exact lift hfast hfr
      | fault s => trivial
      | unsupported => trivial
      | miss ps2 =>
        rw [hr] at hfr
        simp only
        have e2 : ∀ used, TrackN used (.mk seg pat mi hs idx cs) ps → ps2 = ps := by
          intro used ht
          have := hfast used ht
          subst this
          exact hfr used ⟨ht.1, ht.2.1.2, ht.2.2⟩
        split
        · rename_i hcond
          refine ⟨[], Chain.nil _, ?_, ?_, ?_, ?_⟩
          · show path = []; simpa using hcond.1
          · intro sv hsv; cases hsv
          · intro hnil
            have := hcond.2
            simp only [Node.handlers] at hnil
            rw [hnil] at this
            exact absurd this (by simp)
          · intro used ht
            rw [e2 used ht]; simp [captures]
        · exact e2

/-- Soundness of the index fast path: a hit is justified; a miss leaves the parameters alone
provided the selected child is a literal. -/
theorem matchAt_post (env : Env) (ic : Interceptors) : (cs : List Node) → (i : Nat) → (path : Bytes) → (ps : Params) →
    MR.Post (HitL env ic cs path ps)
      (fun ps' => ∀ used, TrackL used cs ps → (∀ c, cs[i]? = some c → c.seg.kind = .str) → ps' = ps)
      (matchAt env ic cs i path ps)
  | [], _, _, _ => by rw [matchAt]; trivial
  | c :: cs, 0, path, ps => by
    rw [matchAt]
    cases hm : c.seg.match env ic path with
    | no => intro _ _ _; rfl
    | unsupported => trivial
    | yes cap rest =>
      simp only
      have ih := Node.matchChildren_post env ic c rest (c.seg.record cap ps)
      unfold Seg.record at ih
      cases hr : Node.matchChildren env ic c rest
          (if c.seg.kind ≠ .str ∧ ¬ c.seg.ignoreName then ps.set c.seg.name cap else ps) with
      | hit m ps' =>
        rw [hr] at ih
        exact hit_of_child List.mem_cons_self hm ih
      | fault s => trivial
      | unsupported => trivial
      | miss ps2 =>
        rw [hr] at ih
        intro used ht hlit
        have hstr : c.seg.kind = .str := hlit c rfl
        have hne : ¬ (c.seg.kind ≠ .str ∧ ¬ c.seg.ignoreName) := fun h => h.1 hstr
        simp only [hne, if_false] at ih
        have hok := (NamesOkL_mem ht.1 (List.mem_cons_self (a := c) (l := cs))).2
        simp only [hne, if_false] at hok
        exact ih used ⟨hok, ht.2.1.1, ht.2.2⟩
  | d :: cs, i + 1, path, ps => by
    rw [matchAt]
    have ih := matchAt_post env ic cs i path ps
    cases hr : matchAt env ic cs i path ps with
    | hit m ps' => rw [hr] at ih; exact ih.tail
    | fault s => trivial
    | unsupported => trivial
    | miss ps2 =>
      rw [hr] at ih
      intro used ht hlit
      exact ih used ⟨ht.1.2.2, ht.2.1.2, ht.2.2⟩ (by simpa using hlit)

/-- Soundness of the `LOOP:` part: a hit is justified; a miss leaves the parameters alone. -/
theorem matchFrom_post (env : Env) (ic : Interceptors) : (cs : List Node) → (skip : Nat) → (path : Bytes) → (ps : Params) →
    MR.Post (HitL env ic cs path ps) (fun ps' => ∀ used, TrackL used cs ps → ps' = ps)
      (matchFrom env ic cs skip path ps)
  | [], _, _, ps => by rw [matchFrom]; intro _ _; rfl
  | d :: cs, skip + 1, path, ps => by
    rw [matchFrom]
    have ih := matchFrom_post env ic cs skip path ps
    cases hr : matchFrom env ic cs skip path ps with
    | hit m ps' => rw [hr] at ih; exact ih.tail
    | fault s => trivial
    | unsupported => trivial
    | miss ps2 =>
      rw [hr] at ih
      intro used ht
      exact ih used ⟨ht.1.2.2, ht.2.1.2, ht.2.2⟩
  | c :: cs, 0, path, ps => by
    rw [matchFrom]
    have tailStep : ∀ ps0, (∀ used, TrackL used (c :: cs) ps → ps0 = ps) →
        MR.Post (HitL env ic (c :: cs) path ps) (fun ps' => ∀ used, TrackL used (c :: cs) ps → ps' = ps)
          (matchFrom env ic cs 0 path ps0) := by
      intro ps0 h0
      have ih := matchFrom_post env ic cs 0 path ps0
      cases hr : matchFrom env ic cs 0 path ps0 with
      | hit m ps' =>
        rw [hr] at ih
        obtain ⟨c', hc', cap, chain, h1, h2, h3, h4, h5⟩ := ih
        refine ⟨c', List.mem_cons_of_mem _ hc', cap, chain, h1, h2, h3, h4, ?_⟩
        intro used ht
        have := h0 used ht
        subst this
        exact h5 used ⟨ht.1.2.2, ht.2.1.2, ht.2.2⟩
      | fault s => trivial
      | unsupported => trivial
      | miss ps2 =>
        rw [hr] at ih
        intro used ht
        have := h0 used ht
        subst this
        exact ih used ⟨ht.1.2.2, ht.2.1.2, ht.2.2⟩
    cases hm : c.seg.match env ic path with
    | no => exact tailStep ps (fun _ _ => rfl)
    | unsupported => trivial
    | yes cap rest =>
      simp only
      have ih := Node.matchChildren_post env ic c rest (c.seg.record cap ps)
      unfold Seg.record at ih
      cases hr : Node.matchChildren env ic c rest
          (if c.seg.kind ≠ .str ∧ ¬ c.seg.ignoreName then ps.set c.seg.name cap else ps) with
      | hit m ps' =>
        rw [hr] at ih
        exact hit_of_child List.mem_cons_self hm ih
      | fault s => trivial
      | unsupported => trivial
      | miss ps2 =>
        rw [hr] at ih
        simp only
        exact tailStep _ (fun used ht => miss_of_child (cap := cap) List.mem_cons_self ih ht)
end

/-! ## User-facing forms -/

/-- **Soundness of a hit.** Unconditionally the result is reached through a chain of children, the
path is the chain instantiated with the captured values, the values satisfy the constraints and the
node has handlers; under the tracking hypotheses the parameters are exactly the old ones followed by
the captures of the chain, in order. -/
theorem Node.matchChildren_hit {env : Env} {ic : Interceptors} {n : Node} {path : Bytes} {ps : Params} {m : Node}
    {ps' : Params} (h : n.matchChildren env ic path ps = .hit m ps') :
    ∃ chain : List (Seg × Bytes),
      Chain n (chain.map (·.1)) m ∧ path = instChain chain ∧
      (∀ sv ∈ chain, sv.1.Satisfies env ic sv.2) ∧ m.handlers ≠ [] ∧
      (∀ used, Node.NamesOk used n → Node.All IdxLit n → (∀ k ∈ ps.keys, k ∈ used) → ps' = ps ++ captures chain) := by
  have := Node.matchChildren_post env ic n path ps
  rw [h] at this
  obtain ⟨chain, h1, h2, h3, h4, h5⟩ := this
  exact ⟨chain, h1, h2, h3, h4, fun used a b c => h5 used ⟨a, b, c⟩⟩

/-- **A miss leaves no trace** (the D1 repair). -/
theorem Node.matchChildren_miss {env : Env} {ic : Interceptors} {n : Node} {path : Bytes} {ps ps' : Params}
    (h : n.matchChildren env ic path ps = .miss ps') {used : List Bytes}
    (hn : Node.NamesOk used n) (hi : Node.All IdxLit n) (hk : ∀ k ∈ ps.keys, k ∈ used) : ps' = ps := by
  have := Node.matchChildren_post env ic n path ps
  rw [h] at this
  exact this used ⟨hn, hi, hk⟩

theorem matchFrom_miss {env : Env} {ic : Interceptors} {cs : List Node} {skip : Nat} {path : Bytes} {ps ps' : Params}
    (h : matchFrom env ic cs skip path ps = .miss ps') {used : List Bytes}
    (hn : NamesOkL used cs) (hi : AllL IdxLit cs) (hk : ∀ k ∈ ps.keys, k ∈ used) : ps' = ps := by
  have := matchFrom_post env ic cs skip path ps
  rw [h] at this
  exact this used ⟨hn, hi, hk⟩

/-! ## Names along a chain -/

theorem captures_keys (chain : List (Seg × Bytes)) :
    (captures chain).map (·.1) =
      (chain.filter (fun sv => decide (sv.1.kind ≠ .str ∧ ¬ sv.1.ignoreName))).map (·.1.name) := by
  induction chain with
  | nil => rfl
  | cons sv chain ih =>
    obtain ⟨s, v⟩ := sv
    by_cases hcap : s.kind ≠ .str ∧ ¬ s.ignoreName
    · rw [captures, List.filter_cons, if_pos hcap, if_pos (decide_eq_true hcap), List.map_cons, List.map_cons, ih]
    · rw [captures, List.filter_cons, if_neg hcap, if_neg (by simpa using hcap), ih]

theorem mem_captures {chain : List (Seg × Bytes)} {sv : Seg × Bytes} (h : sv ∈ chain)
    (hc : sv.1.kind ≠ .str ∧ ¬ sv.1.ignoreName) : (sv.1.name, sv.2) ∈ captures chain := by
  induction chain with
  | nil => cases h
  | cons sv' chain ih =>
    obtain ⟨s, v⟩ := sv'
    rcases List.mem_cons.1 h with rfl | h
    · unfold captures
      rw [if_pos hc]
      exact List.mem_cons_self
    · have := ih h
      simp only [captures]; split
      · exact List.mem_cons_of_mem _ this
      · exact this

/-- Under `NamesOk`, the capturing names along any chain are pairwise distinct and not in `used`. -/
theorem chain_names {chain : List (Seg × Bytes)} : ∀ {used : List Bytes} {n m : Node},
    Node.NamesOk used n → Chain n (chain.map (·.1)) m →
    ((captures chain).map (·.1)).Nodup ∧ ∀ k ∈ (captures chain).map (·.1), k ∉ used := by
  induction chain with
  | nil => intro _ _ _ _ _; simp [captures]
  | cons sv chain ih =>
    intro used n m hn hch
    obtain ⟨s, v⟩ := sv
    simp only [List.map_cons] at hch
    cases hch with
    | cons hc hch =>
      rename_i c
      obtain ⟨hfresh, hok⟩ := NamesOkL_mem ((Node.namesOk_iff used n).1 hn) hc
      have := ih hok hch
      simp only [captures]
      split
      · rename_i hcap
        rw [if_pos hcap] at this
        refine ⟨?_, ?_⟩
        · simp only [List.map_cons, List.nodup_cons]
          exact ⟨fun hmem => this.2 _ hmem List.mem_cons_self, this.1⟩
        · intro k hk
          simp only [List.map_cons, List.mem_cons] at hk
          rcases hk with rfl | hk
          · exact hfresh
          · exact fun hu => this.2 k hk (List.mem_cons_of_mem _ hu)
      · rename_i hcap
        rw [if_neg hcap] at this
        exact this

theorem AMap.get?_of_mem_nodup {V : Type} {m : AMap V} (hnd : m.keys.Nodup) {k : Bytes} {v : V} (h : (k, v) ∈ m) :
    m.get? k = some v := by
  induction m with
  | nil => cases h
  | cons e m ih =>
    simp only [AMap.keys, List.map_cons, List.nodup_cons] at hnd
    rcases List.mem_cons.1 h with rfl | h
    · simp [AMap.get?]
    · have hne : ¬ e.1 = k := by
        intro he
        exact hnd.1 (he ▸ List.mem_map_of_mem (f := (·.1)) h)
      simp only [AMap.get?, List.find?_cons, hne, decide_false]
      exact ih hnd.2 h

/-- **Lookup form.** Under the tracking hypotheses every capturing segment of the chain maps to its
value in the parameters after the hit (and the old parameters are still there, in front). -/
theorem Node.matchChildren_hit_lookup {env : Env} {ic : Interceptors} {n : Node} {path : Bytes} {ps : Params} {m : Node}
    {ps' : Params} (h : n.matchChildren env ic path ps = .hit m ps') {used : List Bytes}
    (hn : Node.NamesOk used n) (hi : Node.All IdxLit n) (hk : ∀ k ∈ ps.keys, k ∈ used) :
    ∃ chain : List (Seg × Bytes),
      Chain n (chain.map (·.1)) m ∧ path = instChain chain ∧ ps' = ps ++ captures chain ∧
      ∀ sv ∈ chain, sv.1.kind ≠ .str ∧ ¬ sv.1.ignoreName → ps'.get? sv.1.name = some sv.2 := by
  obtain ⟨chain, h1, h2, _, _, h5⟩ := Node.matchChildren_hit h
  have e := h5 used hn hi hk
  refine ⟨chain, h1, h2, e, ?_⟩
  intro sv hsv hcap
  obtain ⟨hnd, hdis⟩ := chain_names hn h1
  have hfresh : sv.1.name ∉ ps.keys := fun hmem =>
    hdis _ (List.mem_map_of_mem (f := (·.1)) (mem_captures hsv hcap)) (hk _ hmem)
  rw [e, AMap.get?_append_fresh hfresh]
  exact AMap.get?_of_mem_nodup hnd (mem_captures hsv hcap)

/-! ## The usual well-formedness implies `NamesOk` -/

mutual
/-- The "textbook" form: along every chain the names of the non-literal segments (ignored ones
included) are pairwise distinct and not in `used`. -/
def Node.NamesStrict (used : List Bytes) : Node → Prop
  | .mk _ _ _ _ _ cs => NamesStrictL used cs
def NamesStrictL (used : List Bytes) : List Node → Prop
  | [] => True
  | c :: cs =>
    (c.seg.kind = .str ∨ c.seg.name ∉ used) ∧
    Node.NamesStrict (if c.seg.kind = .str then used else c.seg.name :: used) c ∧
    NamesStrictL used cs
end

/-- Literal segments have the empty name, capturing segments a non-empty one (what `newSegment`
produces: `cleanName` can return `""` only together with the `-` flag, for `{-}`). -/
def SegNameWf (n : Node) : Prop :=
  (n.seg.kind = .str → n.seg.name = []) ∧ (n.seg.kind ≠ .str ∧ ¬ n.seg.ignoreName → n.seg.name ≠ [])

mutual
theorem Node.namesOk_of_strict : (n : Node) → (U used : List Bytes) →
    Node.NamesStrict U n → AllL SegNameWf n.children → (∀ k ∈ used, k ∈ U) → [] ∉ used → Node.NamesOk used n
  | .mk _ _ _ _ _ cs, U, used, h, hw, hs, he => by
    unfold Node.NamesStrict at h
    unfold Node.NamesOk
    exact NamesOkL_of_strict cs U used h hw hs he
theorem NamesOkL_of_strict : (cs : List Node) → (U used : List Bytes) →
    NamesStrictL U cs → AllL SegNameWf cs → (∀ k ∈ used, k ∈ U) → [] ∉ used → NamesOkL used cs
  | [], _, _, _, _, _, _ => by unfold NamesOkL; trivial
  | c :: cs, U, used, h, hw, hs, he => by
    unfold NamesStrictL at h
    unfold AllL at hw
    unfold NamesOkL
    have hwc : SegNameWf c := Node.All_self hw.1
    refine ⟨?_, ?_, NamesOkL_of_strict cs U used h.2.2 hw.2 hs he⟩
    · rcases h.1 with hstr | hnot
      · rw [hwc.1 hstr]; exact he
      · exact fun hu => hnot (hs _ hu)
    · refine Node.namesOk_of_strict c _ _ h.2.1 (Node.All_children hw.1) ?_ ?_
      · intro k hk
        split at hk
        · rename_i hcap
          simp only [hcap.1, if_false]
          rcases List.mem_cons.1 hk with rfl | hk
          · exact List.mem_cons_self
          · exact List.mem_cons_of_mem _ (hs k hk)
        · split
          · exact hs k hk
          · exact List.mem_cons_of_mem _ (hs k hk)
      · split
        · rename_i hcap
          intro hmem
          rcases List.mem_cons.1 hmem with h0 | h0
          · exact hwc.2 hcap h0.symm
          · exact he h0
        · exact he
end

/-! ## Patterns along a chain -/

mutual
/-- Every node's `pattern` is its parent's pattern followed by its own segment text. -/
def Node.PatternOk : Node → Prop
  | .mk _ p _ _ _ cs => PatternOkL p cs
def PatternOkL (pp : Bytes) : List Node → Prop
  | [] => True
  | c :: cs => c.pattern = pp ++ c.seg.value ∧ Node.PatternOk c ∧ PatternOkL pp cs
end

theorem PatternOkL_mem {pp : Bytes} {cs : List Node} (h : PatternOkL pp cs) {c : Node} (hc : c ∈ cs) :
    c.pattern = pp ++ c.seg.value ∧ Node.PatternOk c := by
  induction cs with
  | nil => cases hc
  | cons d cs ih =>
    simp only [PatternOkL] at h
    rcases List.mem_cons.1 hc with rfl | hc
    · exact ⟨h.1, h.2.1⟩
    · exact ih h.2.2 hc

theorem Node.patternOk_iff (n : Node) : Node.PatternOk n ↔ PatternOkL n.pattern n.children := by
  cases n; simp [Node.PatternOk, Node.pattern, Node.children]

/-- The pattern of a node reached by a chain is the pattern of the start followed by the segment
texts of the chain. -/
theorem chain_pattern {n m : Node} {segs : List Seg} (hc : Chain n segs m) (hp : Node.PatternOk n) :
    m.pattern = n.pattern ++ (segs.map (·.value)).flatten ∧ Node.PatternOk m := by
  induction hc with
  | nil n => simp [hp]
  | cons hmem _ ih =>
    obtain ⟨e, hpc⟩ := PatternOkL_mem ((Node.patternOk_iff _).1 hp) hmem
    obtain ⟨e', hm⟩ := ih hpc
    refine ⟨?_, hm⟩
    rw [e', e]; simp

/-! ## A checkable sufficient condition for `IdxLit` -/

/-- If position 0 and every position mentioned in the index hold literal children, the fast path can
only select a literal child. -/
theorem IdxLit.of_positions {n : Node}
    (h : ∀ i ∈ 0 :: n.indexes.map (·.2), ∀ c, n.children[i]? = some c → c.seg.kind = .str) : IdxLit n := by
  intro _ b c hc
  refine h _ ?_ c hc
  unfold idxLookup
  cases hf : n.indexes.find? (·.1 = b) with
  | none => simp
  | some e =>
    simp only [Option.map_some, Option.getD_some]
    exact List.mem_cons_of_mem _ (List.mem_map_of_mem (List.mem_of_find?_eq_some hf))

theorem IdxLit.of_nil {n : Node} (h : n.indexes = []) : IdxLit n := fun hne => absurd h hne

end Mux
