/-
  Mux.Proofs.Cors — helper lemmas for the CORS properties C11 / C12:
  header maps (`Hdr.get/values/has/set/add`), distinctness of the header-name constants,
  characterisation of `Cors.sanitize`, and the exact result of `Cors.handle` on the empty map.
-/
import Mux.Model.Router
namespace Mux

/-! ## Header maps -/

namespace Hdr

@[simp] theorem values_nil (k : Bytes) : values [] k = [] := rfl
@[simp] theorem has_nil (k : Bytes) : has [] k = false := rfl
@[simp] theorem get_nil (k : Bytes) : get [] k = [] := rfl

/-- `Get` is the first of `Values`. -/
theorem get_eq_headD (h : Hdr) (k : Bytes) : get h k = (values h k).headD [] := by
  unfold get values
  cases hf : List.find? (fun x => decide (x.1 = k)) h with
  | none => rfl
  | some e =>
    obtain ⟨a, vs⟩ := e
    cases vs <;> rfl

theorem values_eq_nil_of_has_false {h : Hdr} {k : Bytes} (hh : has h k = false) : values h k = [] := by
  unfold has at hh
  unfold values
  have : List.find? (fun x => decide (x.1 = k)) h = none := by
    rw [List.find?_eq_none]
    intro x hx
    have := (List.any_eq_false.mp hh) x hx
    simpa using this
  rw [this]

theorem values_cons (a : Bytes) (vs : List Bytes) (t : Hdr) (k' : Bytes) :
    values ((a, vs) :: t) k' = if a = k' then vs else values t k' := by
  unfold values
  by_cases h : a = k' <;> simp [h]

theorem has_cons (a : Bytes) (vs : List Bytes) (t : Hdr) (k' : Bytes) :
    has ((a, vs) :: t) k' = (decide (a = k') || has t k') := by
  simp [has]

/-- Generic "update every entry with key `k`" lemma behind `set` and `add`. -/
theorem values_map_upd (g : List Bytes → List Bytes) (h : Hdr) (k k' : Bytes) :
    values (h.map (fun e => if e.1 = k then (k, g e.2) else e)) k' =
      if k' = k then (if has h k then g (values h k) else []) else values h k' := by
  induction h with
  | nil => simp
  | cons e t ih =>
    obtain ⟨a, vs⟩ := e
    by_cases hak : a = k <;> by_cases hk : k' = k
    · subst hak; subst hk; simp [values_cons, has_cons]
    · subst hak
      have : ¬ a = k' := fun h => hk h.symm
      simp [values_cons, this, hk, ih]
    · subst hk
      simp [values_cons, has_cons, hak, ih]
    · simp [values_cons, hak, hk, ih]

theorem has_map_upd (g : List Bytes → List Bytes) (h : Hdr) (k k' : Bytes) :
    has (h.map (fun e => if e.1 = k then (k, g e.2) else e)) k' = has h k' := by
  induction h with
  | nil => rfl
  | cons e t ih =>
    obtain ⟨a, vs⟩ := e
    by_cases hak : a = k
    · subst hak; simp [has_cons, ih]
    · simp [has_cons, hak, ih]

theorem values_append_single (h : Hdr) (k k' : Bytes) (vs : List Bytes) (hh : has h k = false) :
    values (h ++ [(k, vs)]) k' = if k' = k then vs else values h k' := by
  by_cases hk : k' = k
  · subst hk
    have hn : List.find? (fun x => decide (x.1 = k')) h = none := by
      rw [List.find?_eq_none]
      intro x hx
      have := (List.any_eq_false.mp hh) x hx
      simpa using this
    simp [values, List.find?_append, hn]
  · have : ¬ k = k' := fun h => hk h.symm
    simp only [values, List.find?_append, hk, if_false]
    cases List.find? (fun x => decide (x.1 = k')) h <;> simp [this]

theorem has_append_single (h : Hdr) (k k' : Bytes) (vs : List Bytes) :
    has (h ++ [(k, vs)]) k' = (has h k' || decide (k = k')) := by
  simp [has]

/-- `Set` then `Values`. -/
theorem values_set (h : Hdr) (k v k' : Bytes) :
    values (set h k v) k' = if k' = k then [v] else values h k' := by
  unfold set
  by_cases hh : has h k = true
  · rw [if_pos hh, values_map_upd (fun _ => [v])]; simp [hh]
  · have hh' : has h k = false := by simpa using hh
    rw [if_neg hh, values_append_single _ _ _ _ hh']

/-- `Add` then `Values`. -/
theorem values_add (h : Hdr) (k v k' : Bytes) :
    values (add h k v) k' = if k' = k then values h k ++ [v] else values h k' := by
  unfold add
  by_cases hh : has h k = true
  · rw [if_pos hh, values_map_upd (fun vs => vs ++ [v])]; simp [hh]
  · have hh' : has h k = false := by simpa using hh
    rw [if_neg hh, values_append_single _ _ _ _ hh', values_eq_nil_of_has_false hh']
    simp

theorem has_set (h : Hdr) (k v k' : Bytes) :
    has (set h k v) k' = (decide (k' = k) || has h k') := by
  unfold set
  by_cases hh : has h k = true
  · rw [if_pos hh, has_map_upd (fun _ => [v])]
    by_cases hk : k' = k
    · subst hk; simp [hh]
    · simp [hk]
  · rw [if_neg hh, has_append_single]
    by_cases hk : k' = k
    · subst hk; simp
    · have : ¬ k = k' := fun h => hk h.symm
      simp [hk, this]

theorem has_add (h : Hdr) (k v k' : Bytes) :
    has (add h k v) k' = (decide (k' = k) || has h k') := by
  unfold add
  by_cases hh : has h k = true
  · rw [if_pos hh, has_map_upd (fun vs => vs ++ [v])]
    by_cases hk : k' = k
    · subst hk; simp [hh]
    · simp [hk]
  · rw [if_neg hh, has_append_single]
    by_cases hk : k' = k
    · subst hk; simp
    · have : ¬ k = k' := fun h => hk h.symm
      simp [hk, this]

/-! Familiar corollaries. -/
theorem values_set_self (h : Hdr) (k v : Bytes) : values (set h k v) k = [v] := by simp [values_set]
theorem values_set_ne (h : Hdr) {k k' : Bytes} (v : Bytes) (hk : k' ≠ k) :
    values (set h k v) k' = values h k' := by simp [values_set, hk]
theorem values_add_self (h : Hdr) (k v : Bytes) : values (add h k v) k = values h k ++ [v] := by
  simp [values_add]
theorem values_add_ne (h : Hdr) {k k' : Bytes} (v : Bytes) (hk : k' ≠ k) :
    values (add h k v) k' = values h k' := by simp [values_add, hk]
theorem cors_get_set_self (h : Hdr) (k v : Bytes) : get (set h k v) k = v := by
  simp [get_eq_headD, values_set]
theorem cors_get_set_ne (h : Hdr) {k k' : Bytes} (v : Bytes) (hk : k' ≠ k) :
    get (set h k v) k' = get h k' := by simp [get_eq_headD, values_set, hk]
theorem cors_get_add_ne (h : Hdr) {k k' : Bytes} (v : Bytes) (hk : k' ≠ k) :
    get (add h k v) k' = get h k' := by simp [get_eq_headD, values_add, hk]

end Hdr

/-! ## The header-name constants are pairwise distinct -/

/-! For each of the seven response-header names written by `cors.handle` and the three
request-header names it reads: it differs from the nine others (`simp` splits each conjunction
into rewrite rules `(a = b) = False`). -/
@[simp] theorem hACAO_ne :
    hACAO ≠ hACAC ∧ hACAO ≠ hACAM ∧ hACAO ≠ hACAH ∧ hACAO ≠ hACEH ∧ hACAO ≠ hACMA ∧ hACAO ≠ hVary ∧ hACAO ≠ hOrigin ∧ hACAO ≠ hACRM ∧ hACAO ≠ hACRH := by
  decide +kernel
@[simp] theorem hACAC_ne :
    hACAC ≠ hACAO ∧ hACAC ≠ hACAM ∧ hACAC ≠ hACAH ∧ hACAC ≠ hACEH ∧ hACAC ≠ hACMA ∧ hACAC ≠ hVary ∧ hACAC ≠ hOrigin ∧ hACAC ≠ hACRM ∧ hACAC ≠ hACRH := by
  decide +kernel
@[simp] theorem hACAM_ne :
    hACAM ≠ hACAO ∧ hACAM ≠ hACAC ∧ hACAM ≠ hACAH ∧ hACAM ≠ hACEH ∧ hACAM ≠ hACMA ∧ hACAM ≠ hVary ∧ hACAM ≠ hOrigin ∧ hACAM ≠ hACRM ∧ hACAM ≠ hACRH := by
  decide +kernel
@[simp] theorem hACAH_ne :
    hACAH ≠ hACAO ∧ hACAH ≠ hACAC ∧ hACAH ≠ hACAM ∧ hACAH ≠ hACEH ∧ hACAH ≠ hACMA ∧ hACAH ≠ hVary ∧ hACAH ≠ hOrigin ∧ hACAH ≠ hACRM ∧ hACAH ≠ hACRH := by
  decide +kernel
@[simp] theorem hACEH_ne :
    hACEH ≠ hACAO ∧ hACEH ≠ hACAC ∧ hACEH ≠ hACAM ∧ hACEH ≠ hACAH ∧ hACEH ≠ hACMA ∧ hACEH ≠ hVary ∧ hACEH ≠ hOrigin ∧ hACEH ≠ hACRM ∧ hACEH ≠ hACRH := by
  decide +kernel
@[simp] theorem hACMA_ne :
    hACMA ≠ hACAO ∧ hACMA ≠ hACAC ∧ hACMA ≠ hACAM ∧ hACMA ≠ hACAH ∧ hACMA ≠ hACEH ∧ hACMA ≠ hVary ∧ hACMA ≠ hOrigin ∧ hACMA ≠ hACRM ∧ hACMA ≠ hACRH := by
  decide +kernel
@[simp] theorem hVary_ne :
    hVary ≠ hACAO ∧ hVary ≠ hACAC ∧ hVary ≠ hACAM ∧ hVary ≠ hACAH ∧ hVary ≠ hACEH ∧ hVary ≠ hACMA ∧ hVary ≠ hOrigin ∧ hVary ≠ hACRM ∧ hVary ≠ hACRH := by
  decide +kernel
@[simp] theorem hOrigin_ne :
    hOrigin ≠ hACAO ∧ hOrigin ≠ hACAC ∧ hOrigin ≠ hACAM ∧ hOrigin ≠ hACAH ∧ hOrigin ≠ hACEH ∧ hOrigin ≠ hACMA ∧ hOrigin ≠ hVary ∧ hOrigin ≠ hACRM ∧ hOrigin ≠ hACRH := by
  decide +kernel
@[simp] theorem hACRM_ne :
    hACRM ≠ hACAO ∧ hACRM ≠ hACAC ∧ hACRM ≠ hACAM ∧ hACRM ≠ hACAH ∧ hACRM ≠ hACEH ∧ hACRM ≠ hACMA ∧ hACRM ≠ hVary ∧ hACRM ≠ hOrigin ∧ hACRM ≠ hACRH := by
  decide +kernel
@[simp] theorem hACRH_ne :
    hACRH ≠ hACAO ∧ hACRH ≠ hACAC ∧ hACRH ≠ hACAM ∧ hACRH ≠ hACAH ∧ hACRH ≠ hACEH ∧ hACRH ≠ hACMA ∧ hACRH ≠ hVary ∧ hACRH ≠ hOrigin ∧ hACRH ≠ hACRM := by
  decide +kernel

/-- The ten names are pairwise distinct. -/
theorem hdr_names_nodup : [hACAO, hACAC, hACAM, hACAH, hACEH, hACMA, hVary, hOrigin, hACRM, hACRH].Nodup := by
  decide +kernel

theorem star_authorization : bytesOfString "*," ++ hAuthorization = bytesOfString "*,Authorization" := by
  decide +kernel

/-! ## Decomposition of `cors.handle` -/

/-- `preflight` of `cors.handle`: OPTIONS with `Access-Control-Request-Method`, path other than `*`. -/
def Cors.isPreflight (method path : Bytes) (rh : Hdr) : Prop :=
  method = mOPTIONS ∧ rh.get hACRM ≠ [] ∧ path ≠ [42]

instance (method path : Bytes) (rh : Hdr) : Decidable (Cors.isPreflight method path rh) := by
  unfold Cors.isPreflight; infer_instance

theorem Cors.isPreflight_iff (method path : Bytes) (rh : Hdr) :
    Cors.isPreflight method path rh ↔ method = mOPTIONS ∧ rh.get hACRM ≠ [] ∧ path ≠ [42] := Iff.rfl

/-- The origin part of `cors.handle` (everything after the origin check). -/
def Cors.originPart (c : Cors) (wh : Hdr) (origin : Bytes) : Hdr :=
  let wh := (wh.set hACAO (if c.anyOrigins then [42] else origin)).add hVary hOrigin
  let wh := if c.allowCredentials then wh.set hACAC (bytesOfString "true") else wh
  if c.exposedHeadersString ≠ [] then wh.set hACEH c.exposedHeadersString else wh

theorem Cors.handle_eq (c : Cors) (nm : List Bytes) (na : Bytes) (wh : Hdr) (method path : Bytes) (rh : Hdr) :
    c.handle nm na wh method path rh =
      if c.deny then wh
      else
        let pp := c.preflightPart nm na wh method path rh
        if pp.2 = true ∧ (c.anyOrigins = true ∨ rh.get hOrigin ∈ c.origins) then c.originPart pp.1 (rh.get hOrigin)
        else pp.1 := by
  unfold Cors.handle Cors.originPart
  split
  · rfl
  · generalize c.preflightPart nm na wh method path rh = pp
    obtain ⟨w, b⟩ := pp
    cases b <;> simp
    split <;> simp_all

theorem Cors.values_originPart (c : Cors) (wh : Hdr) (o k : Bytes) :
    (c.originPart wh o).values k =
      if k = hACEH ∧ c.exposedHeadersString ≠ [] then [c.exposedHeadersString]
      else if k = hACAC ∧ c.allowCredentials = true then [bytesOfString "true"]
      else if k = hVary then wh.values hVary ++ [hOrigin]
      else if k = hACAO then [if c.anyOrigins then [42] else o]
      else wh.values k := by
  unfold Cors.originPart
  by_cases h1 : c.allowCredentials = true <;> by_cases h2 : c.exposedHeadersString = [] <;>
    simp [h1, h2, Hdr.values_set, Hdr.values_add]

theorem Cors.has_originPart (c : Cors) (wh : Hdr) (o k : Bytes) :
    (c.originPart wh o).has k =
      (decide (k = hACAO) || decide (k = hVary) || (decide (k = hACAC) && c.allowCredentials)
        || (decide (k = hACEH) && decide (c.exposedHeadersString ≠ [])) || wh.has k) := by
  unfold Cors.originPart
  by_cases h1 : c.allowCredentials = true <;> by_cases h2 : c.exposedHeadersString = [] <;>
    simp [h1, h2, Hdr.has_set, Hdr.has_add, Bool.or_comm, Bool.or_assoc, Bool.or_left_comm]

/-- The preflight part does not `return` early. -/
def Cors.prePass (c : Cors) (nm : List Bytes) (method path : Bytes) (rh : Hdr) : Prop :=
  Cors.isPreflight method path rh → rh.get hACRM ∈ nm ∧ c.headerIsAllowed rh = true

instance (c : Cors) (nm : List Bytes) (method path : Bytes) (rh : Hdr) : Decidable (c.prePass nm method path rh) := by
  unfold Cors.prePass; infer_instance

theorem Cors.preflightPart_snd (c : Cors) (nm : List Bytes) (na : Bytes) (wh : Hdr) (method path : Bytes) (rh : Hdr) :
    (c.preflightPart nm na wh method path rh).2 =
      decide (c.prePass nm method path rh) := by
  unfold Cors.preflightPart Cors.prePass
  simp only [← Cors.isPreflight_iff]
  by_cases hp : Cors.isPreflight method path rh
  · by_cases hm : rh.get hACRM ∈ nm <;> by_cases ha : c.headerIsAllowed rh = true <;>
      simp [hp, hm, ha]
  · simp [hp]

theorem Cors.values_preflightPart (c : Cors) (nm : List Bytes) (na : Bytes) (wh : Hdr) (method path : Bytes) (rh : Hdr) (k : Bytes) :
    (c.preflightPart nm na wh method path rh).1.values k =
      if Cors.isPreflight method path rh ∧ rh.get hACRM ∈ nm then
        if k = hACMA ∧ c.headerIsAllowed rh = true ∧ c.maxAgeString ≠ [] then [c.maxAgeString]
        else if k = hVary then
          (wh.values hVary ++ [hACRM]) ++ (if c.headerIsAllowed rh = true ∧ c.allowHeadersString ≠ [] then [hACRH] else [])
        else if k = hACAH ∧ c.headerIsAllowed rh = true ∧ c.allowHeadersString ≠ [] then [c.allowHeadersString]
        else if k = hACAM then [na]
        else wh.values k
      else wh.values k := by
  unfold Cors.preflightPart
  simp only [← Cors.isPreflight_iff]
  by_cases hp : Cors.isPreflight method path rh
  · by_cases hm : rh.get hACRM ∈ nm
    · by_cases ha : c.headerIsAllowed rh = true <;> by_cases h1 : c.allowHeadersString = [] <;>
        by_cases h2 : c.maxAgeString = [] <;> by_cases hv : k = hVary <;>
        simp [hp, hm, ha, h1, h2, hv, Hdr.values_set, Hdr.values_add]
    · simp [hp, hm]
  · simp [hp]


theorem Cors.has_preflightPart (c : Cors) (nm : List Bytes) (na : Bytes) (wh : Hdr) (method path : Bytes) (rh : Hdr) (k : Bytes) :
    (c.preflightPart nm na wh method path rh).1.has k =
      (wh.has k ||
        (decide (Cors.isPreflight method path rh ∧ rh.get hACRM ∈ nm) &&
          (decide (k = hACAM) || decide (k = hVary) ||
            (c.headerIsAllowed rh &&
              ((decide (k = hACAH) && decide (c.allowHeadersString ≠ [])) ||
               (decide (k = hACMA) && decide (c.maxAgeString ≠ []))))))) := by
  unfold Cors.preflightPart
  simp only [← Cors.isPreflight_iff]
  by_cases hp : Cors.isPreflight method path rh
  · by_cases hm : rh.get hACRM ∈ nm
    · by_cases ha : c.headerIsAllowed rh = true <;> by_cases h1 : c.allowHeadersString = [] <;>
        by_cases h2 : c.maxAgeString = [] <;> by_cases hv : k = hVary <;>
        simp [hp, hm, ha, h1, h2, hv, Hdr.has_set, Hdr.has_add, Bool.or_comm, Bool.or_left_comm, Bool.or_assoc]
    · simp [hp, hm]
  · simp [hp]


/-! ## The exact result of `handle` on the empty response header map -/

/-- "A preflight whose requested method the node serves" (and CORS is configured). -/
def Cors.preOK (c : Cors) (nm : List Bytes) (method path : Bytes) (rh : Hdr) : Prop :=
  c.deny = false ∧ Cors.isPreflight method path rh ∧ rh.get hACRM ∈ nm

/-- The decision whether `Access-Control-Allow-Origin` is granted. -/
def Cors.granted (c : Cors) (nm : List Bytes) (method path : Bytes) (rh : Hdr) : Prop :=
  c.deny = false ∧ c.prePass nm method path rh ∧ (c.anyOrigins = true ∨ rh.get hOrigin ∈ c.origins)

instance (c : Cors) (nm : List Bytes) (method path : Bytes) (rh : Hdr) : Decidable (c.preOK nm method path rh) := by
  unfold Cors.preOK; infer_instance
instance (c : Cors) (nm : List Bytes) (method path : Bytes) (rh : Hdr) : Decidable (c.granted nm method path rh) := by
  unfold Cors.granted; infer_instance

set_option hygiene false in
/-- Case split used for every per-header lemma below. -/
local macro "handle_cases" : tactic => `(tactic| (
  rw [Cors.handle_eq]
  try unfold Cors.granted
  try unfold Cors.preOK
  by_cases hd : c.deny = true
  · simp [hd]
  · by_cases hg : c.prePass nm method path rh ∧ (c.anyOrigins = true ∨ rh.get hOrigin ∈ c.origins)
    · simp [hd, hg, Cors.preflightPart_snd, Cors.values_originPart, Cors.values_preflightPart,
        Cors.has_originPart, Cors.has_preflightPart] <;> (repeat' split) <;> simp_all
    · simp [hd, hg, Cors.preflightPart_snd, Cors.values_preflightPart, Cors.has_preflightPart] <;>
        (repeat' split) <;> simp_all))

section
variable (c : Cors) (nm : List Bytes) (na method path : Bytes) (rh : Hdr)

theorem Cors.values_handle_ACAO :
    (c.handle nm na [] method path rh).values hACAO =
      if c.granted nm method path rh then [if c.anyOrigins then [42] else rh.get hOrigin] else [] := by
  handle_cases

theorem Cors.has_handle_ACAO :
    (c.handle nm na [] method path rh).has hACAO = decide (c.granted nm method path rh) := by
  handle_cases

theorem Cors.values_handle_ACAC :
    (c.handle nm na [] method path rh).values hACAC =
      if c.granted nm method path rh ∧ c.allowCredentials = true then [bytesOfString "true"] else [] := by
  handle_cases

theorem Cors.has_handle_ACAC :
    (c.handle nm na [] method path rh).has hACAC =
      decide (c.granted nm method path rh ∧ c.allowCredentials = true) := by
  handle_cases

theorem Cors.values_handle_ACEH :
    (c.handle nm na [] method path rh).values hACEH =
      if c.granted nm method path rh ∧ c.exposedHeadersString ≠ [] then [c.exposedHeadersString] else [] := by
  handle_cases

theorem Cors.has_handle_ACEH :
    (c.handle nm na [] method path rh).has hACEH =
      decide (c.granted nm method path rh ∧ c.exposedHeadersString ≠ []) := by
  handle_cases

theorem Cors.values_handle_ACAM :
    (c.handle nm na [] method path rh).values hACAM =
      if c.preOK nm method path rh then [na] else [] := by
  handle_cases

theorem Cors.has_handle_ACAM :
    (c.handle nm na [] method path rh).has hACAM = decide (c.preOK nm method path rh) := by
  handle_cases

theorem Cors.values_handle_ACAH :
    (c.handle nm na [] method path rh).values hACAH =
      if c.preOK nm method path rh ∧ c.headerIsAllowed rh = true ∧ c.allowHeadersString ≠ []
      then [c.allowHeadersString] else [] := by
  handle_cases

theorem Cors.has_handle_ACAH :
    (c.handle nm na [] method path rh).has hACAH =
      decide (c.preOK nm method path rh ∧ c.headerIsAllowed rh = true ∧ c.allowHeadersString ≠ []) := by
  handle_cases

theorem Cors.values_handle_ACMA :
    (c.handle nm na [] method path rh).values hACMA =
      if c.preOK nm method path rh ∧ c.headerIsAllowed rh = true ∧ c.maxAgeString ≠ []
      then [c.maxAgeString] else [] := by
  handle_cases

theorem Cors.has_handle_ACMA :
    (c.handle nm na [] method path rh).has hACMA =
      decide (c.preOK nm method path rh ∧ c.headerIsAllowed rh = true ∧ c.maxAgeString ≠ []) := by
  handle_cases

theorem Cors.values_handle_Vary :
    (c.handle nm na [] method path rh).values hVary =
      (if c.preOK nm method path rh then [hACRM] else []) ++
      (if c.preOK nm method path rh ∧ c.headerIsAllowed rh = true ∧ c.allowHeadersString ≠ [] then [hACRH] else []) ++
      (if c.granted nm method path rh then [hOrigin] else []) := by
  handle_cases

/-- Nothing but the seven headers is ever written. -/
theorem Cors.has_handle_other (k : Bytes)
    (hk : k ∉ [hACAO, hACAC, hACEH, hACAM, hACAH, hACMA, hVary]) :
    (c.handle nm na [] method path rh).has k = false := by
  simp at hk
  handle_cases
end


end Mux
