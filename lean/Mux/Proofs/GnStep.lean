/-
  Mux.Proofs.GnStep — `getNode` as "one non-recursive restructuring step (`gnPrep`), then the
  recursive call on the selected child", with the induction principle that goes with it.
-/
import Mux.Proofs.TreeGetNode
namespace Mux.P9
open Mux

/-- What one level of `getNode` produces: the restructured node `n1`, the position `j` of the child
the search continues in, that child (`parent` in the Go code), and the remaining work. -/
structure GStep where
  n1 : Node
  j : Nat
  parent : Node
  cont : Option (Bytes × List Bytes)

/-- "the remaining segments", as a continuation. -/
def restCont : List Bytes → Option (Bytes × List Bytes)
  | [] => none
  | v' :: rest' => some (v', rest')

/-- `splitNode(child, l)` inside `addSegment`. -/
def gnSplit (ic : Interceptors) (n c : Node) (i l : Nat) : Except Err (Node × Nat × Node) :=
  if c.seg.value.length ≤ l then pure (n, i, c)
  else do
    let cs0 := removeNodes n.children c.seg.value
    let (s1, s2) ← c.seg.splitAt ic l
    let lower := c.setSeg s2
    let ret : Node := .mk s1 (n.pattern ++ s1.value) 0 [] [] [lower]
    let ret ← sortNode ret
    let n1 ← sortNode (n.setChildren (cs0 ++ [ret]) n.indexes)
    match childPos n1.children s1.value with
    | none => throw (.fault 233)
    | some j => pure (n1, j, ret)

/-- One level of `getNode` without the recursive call. -/
def gnPrep (ic : Interceptors) (n : Node) (v : Bytes) (rest : List Bytes) : Except Err GStep := do
  let seg ← newSegment ic v
  match scanChildren seg n.children 0 0 0 with
  | .identical i =>
    match n.children[i]? with
    | none => throw (.fault 230)
    | some c => pure ⟨n, i, c, restCont rest⟩
  | .best l i =>
    if l ≤ 0 then
      let nn := newLeaf n.pattern seg
      let n1 ← sortNode (n.setChildren (n.children ++ [nn]) n.indexes)
      match childPos n1.children v with
      | none => throw (.fault 231)
      | some j => pure ⟨n1, j, nn, restCont rest⟩
    else
      let l := l.toNat
      match n.children[i]? with
      | none => throw (.fault 232)
      | some c => do
        let (n1, j, parent) ← gnSplit ic n c i l
        pure ⟨n1, j, parent, if v.length ≤ l then restCont rest else some (v.drop l, rest)⟩

/-- The recursive part. -/
def gnFinish (s : GStep) (rec : Node → Bytes → List Bytes → Except Err (Node × List Nat)) :
    Except Err (Node × List Nat) :=
  match s.cont with
  | none => pure (s.n1, [s.j])
  | some (v', rest') => do
    let (p', path) ← rec s.parent v' rest'
    pure (s.n1.setChildren (s.n1.children.set s.j p') s.n1.indexes, s.j :: path)

theorem getNode_eq (ic : Interceptors) (n : Node) (v : Bytes) (rest : List Bytes) :
    getNode ic n v rest =
      match gnPrep ic n v rest with
      | .error e => .error e
      | .ok s => gnFinish s (getNode ic) := by
  rw [getNode]
  unfold gnPrep
  simp only [bind, Except.bind, pure, Except.pure, throw, throwThe, MonadExceptOf.throw]
  cases newSegment ic v with
  | error e => rfl
  | ok seg =>
    simp only []
    cases scanChildren seg n.children 0 0 0 with
    | identical i =>
      simp only []
      cases n.children[i]? with
      | none => rfl
      | some c =>
        simp only []
        cases rest <;> rfl
    | best l i =>
      simp only []
      by_cases hl : l ≤ 0
      · simp only [hl, if_true]
        cases sortNode (n.setChildren (n.children ++ [newLeaf n.pattern seg]) n.indexes) with
        | error e => rfl
        | ok n1 =>
          simp only []
          cases childPos n1.children v with
          | none => rfl
          | some j =>
            simp only []
            cases rest <;> rfl
      · simp only [hl, if_false]
        cases n.children[i]? with
        | none => rfl
        | some c =>
          simp only []
          unfold gnSplit
          simp only [bind, Except.bind, pure, Except.pure, throw, throwThe, MonadExceptOf.throw]
          by_cases hc : c.seg.value.length ≤ l.toNat
          · simp only [hc, if_true]
            by_cases hv : v.length ≤ l.toNat
            · simp only [hv, if_true]
              cases rest <;> rfl
            · simp only [hv, if_false]
              rfl
          · simp only [hc, if_false]
            cases c.seg.splitAt ic l.toNat with
            | error e => rfl
            | ok ss =>
              obtain ⟨s1, s2⟩ := ss
              simp only []
              cases sortNode (Node.mk s1 (n.pattern ++ s1.value) 0 [] [] [c.setSeg s2]) with
              | error e => rfl
              | ok ret =>
                simp only []
                cases sortNode (n.setChildren (removeNodes n.children c.seg.value ++ [ret]) n.indexes) with
                | error e => rfl
                | ok n1 =>
                  simp only []
                  cases childPos n1.children s1.value with
                  | none => rfl
                  | some j =>
                    simp only []
                    by_cases hv : v.length ≤ l.toNat
                    · simp only [hv, if_true]
                      cases rest <;> rfl
                    · simp only [hv, if_false]
                      rfl


/-! ## The measure decreases -/

theorem restCont_some {rest : List Bytes} {v' : Bytes} {rest' : List Bytes}
    (h : restCont rest = some (v', rest')) : rest = v' :: rest' := by
  cases rest with
  | nil => cases h
  | cons a b => simp only [restCont, Option.some.injEq, Prod.mk.injEq] at h; rw [h.1, h.2]

/-- The continuation of a step is either the tail of the segment list, or the same list with a
proper suffix of `v` in front. -/
theorem gnPrep_cont {ic : Interceptors} {n : Node} {v : Bytes} {rest : List Bytes} {s : GStep}
    (h : gnPrep ic n v rest = .ok s) :
    s.cont = restCont rest ∨
      ∃ l : Nat, 0 < l ∧ l < v.length ∧ s.cont = some (v.drop l, rest) := by
  unfold gnPrep at h
  simp only [bind, Except.bind, pure, Except.pure, throw, throwThe, MonadExceptOf.throw] at h
  split at h
  · cases h
  rename_i seg hseg
  split at h
  · split at h
    · cases h
    · cases h; exact .inl rfl
  · rename_i l i _
    split at h
    · split at h
      · cases h
      split at h
      · cases h
      · cases h; exact .inl rfl
    · rename_i hl
      split at h
      · cases h
      split at h
      · cases h
      rename_i r hr
      cases h
      simp only []
      split
      · exact .inl rfl
      · rename_i hv
        exact .inr ⟨l.toNat, by omega, by omega, rfl⟩

theorem gnPrep_cont_lt {ic : Interceptors} {n : Node} {v : Bytes} {rest : List Bytes} {s : GStep}
    {v' : Bytes} {rest' : List Bytes}
    (h : gnPrep ic n v rest = .ok s) (hc : s.cont = some (v', rest')) :
    Prod.Lex (· < ·) (· < ·) (rest'.length, v'.length) (rest.length, v.length) := by
  rcases gnPrep_cont h with h1 | ⟨l, h0, hl, h1⟩
  · rw [h1] at hc
    have := restCont_some hc
    subst this
    apply Prod.Lex.left
    simp
  · rw [h1] at hc
    simp only [Option.some.injEq, Prod.mk.injEq] at hc
    obtain ⟨rfl, rfl⟩ := hc
    apply Prod.Lex.right
    simp only [List.length_drop]
    omega

/-- Induction along the recursion of `getNode`: to prove `motive n v rest`, one may assume it for
the child and the remaining work that the restructuring step selects. -/
theorem getNode_induction (ic : Interceptors) {motive : Node → Bytes → List Bytes → Prop}
    (step : ∀ n v rest,
      (∀ s v' rest', gnPrep ic n v rest = .ok s → s.cont = some (v', rest') → motive s.parent v' rest') →
      motive n v rest) (n : Node) (v : Bytes) (rest : List Bytes) : motive n v rest :=
  step n v rest (fun s v' rest' _h _hc => getNode_induction ic step s.parent v' rest')
termination_by (rest.length, v.length)
decreasing_by
  exact gnPrep_cont_lt _h _hc

end Mux.P9
