/-
  Mux.Proofs.ResolveForked — C02 part B4, the dynamic half: `getNode` (`addSegment`/`splitNode`)
  keeps every node below the root *forked or live*: a node whose pattern is not a registered route
  has a parameter child or two children starting with different bytes.  (`TL live x`; `live` is the
  list of registered patterns, the one being registered included.)

  The only arithmetical fact needed beyond `getNode_shape` is that `longestPrefix` is EXACT on
  well-formed texts: right after the cut point the two texts differ (`lp_exact`).
-/
import Mux.Proofs.ResolveStatic
import Mux.Proofs.TableGetNode
namespace Mux.P15
open Mux Mux.P11

/-! ## `longestPrefix` is exact -/

theorem lcp_exact : ∀ a b : Bytes, P11.lcp a b < a.length → P11.lcp a b < b.length →
    (a.drop (P11.lcp a b)).head? ≠ (b.drop (P11.lcp a b)).head?
  | [], _, h, _ => by simp at h
  | _ :: _, [], _, h => by simp at h
  | x :: a, y :: b, ha, hb => by
    rw [lcp_cons] at ha hb ⊢
    by_cases hxy : x = y
    · simp only [hxy, if_true, List.length_cons, List.drop_succ_cons] at ha hb ⊢
      exact lcp_exact a b (by omega) (by omega)
    · simp [hxy]

/-- Right behind a positive `longestPrefix` two well-formed texts continue differently. -/
theorem lp_exact {a b : Bytes} {l : Nat} (ha : WfVal a) (hb : WfVal b) (h : longestPrefix a b = (l : Int))
    (hl : 0 < l) (hla : l < a.length) (hlb : l < b.length) : (a.drop l).head? ≠ (b.drop l).head? := by
  rcases ha with ⟨_, hap⟩ | ⟨ia, sa, rfl, hia, hsa⟩
  · rw [lp_plain a b hap] at h
    have : l = P11.lcp a b := by omega
    subst this
    exact lcp_exact a b hla hlb
  · rcases hb with ⟨hbne, hbp⟩ | ⟨ib, sb, rfl, hib, hsb⟩
    · rw [longestPrefix_comm, lp_plain b _ hbp] at h
      cases b with
      | nil => exact absurd rfl hbne
      | cons y b =>
        rw [lcp_cons, if_neg hbp.cons.1] at h
        omega
    · rw [lp_param ia ib sa sb hia hib hsa] at h
      split at h
      · rename_i hc
        obtain ⟨rfl, _⟩ := hc
        have hl' : l = ia.length + 2 + P11.lcp sa sb := by omega
        have e1 : (startByte :: (ia ++ endByte :: sa)).drop l = sa.drop (P11.lcp sa sb) := by
          rw [hl', show startByte :: (ia ++ endByte :: sa) = (startByte :: (ia ++ [endByte])) ++ sa by simp,
            drop_append_le _ _ _ (by simp)]
          congr 1; simp
        have e2 : (startByte :: (ia ++ endByte :: sb)).drop l = sb.drop (P11.lcp sa sb) := by
          rw [hl', show startByte :: (ia ++ endByte :: sb) = (startByte :: (ia ++ [endByte])) ++ sb by simp,
            drop_append_le _ _ _ (by simp)]
          congr 1; simp
        rw [e1, e2]
        simp only [List.length_cons, List.length_append] at hla hlb
        exact lcp_exact sa sb (by omega) (by omega)
      · omega

/-! ## Forked or live -/

/-- The node's pattern is a registered route, or the node is forked. -/
def TL (live : List Bytes) (x : Node) : Prop := x.pattern ∈ live ∨ Forked x.children

theorem TL_mono {live live' : List Bytes} (h : ∀ p ∈ live, p ∈ live') :
    (∀ n, Node.All (TL live) n → Node.All (TL live') n) ∧ (∀ cs, AllL (TL live) cs → AllL (TL live') cs) :=
  AllL_mono (fun _ hx => hx.imp (h _) id)

theorem Forked_of_heads {cs cs' : List Node}
    (h : ∀ d ∈ cs, ∃ d' ∈ cs', d'.seg.value.head? = d.seg.value.head?) (hf : Forked cs) : Forked cs' := by
  rcases hf with ⟨d, hd, hs⟩ | ⟨d1, hd1, d2, hd2, hne⟩
  · obtain ⟨d', hd', e⟩ := h d hd
    exact .inl ⟨d', hd', e.trans hs⟩
  · obtain ⟨d1', hd1', e1⟩ := h d1 hd1
    obtain ⟨d2', hd2', e2⟩ := h d2 hd2
    exact .inr ⟨d1', hd1', d2', hd2', by rw [e1, e2]; exact hne⟩

theorem TL_setSeg {live : List Bytes} {c : Node} (s : Seg) (h : Node.All (TL live) c) : Node.All (TL live) (c.setSeg s) := by
  rw [Node.All_iff] at h ⊢
  exact ⟨by simpa [TL, Node.setSeg] using h.1, by simpa [Node.setSeg] using h.2⟩

/-- What is proved of a `getNode` result: every node below the result is forked or live, the child on
the returned path starts like `v`, and every old child still has a child starting like it. -/
structure FPost (live : List Bytes) (n : Node) (v : Bytes) (r : Node × List Nat) : Prop where
  all : AllL (TL live) r.1.children
  has : ∃ d ∈ r.1.children, d.seg.value.head? = v.head?
  keep : ∀ d ∈ n.children, ∃ d' ∈ r.1.children, d'.seg.value.head? = d.seg.value.head?

/-- Replacing the child at `j` by a node that starts like it. -/
theorem assemble {live : List Bytes} {n1 parent x : Node} {j : Nat} {O : List Node}
    (hj : n1.children[j]? = some parent) (hperm : n1.children.Perm (parent :: O))
    (hx : Node.All (TL live) x) (hxh : x.seg.value.head? = parent.seg.value.head?)
    (hO : AllL (TL live) O) :
    AllL (TL live) (n1.children.set j x) ∧ x ∈ n1.children.set j x ∧
      ∀ d ∈ n1.children, ∃ d' ∈ n1.children.set j x, d'.seg.value.head? = d.seg.value.head? := by
  obtain ⟨rest0, p1, p2⟩ := set_perm hj
  have hro : rest0.Perm O := (p1.symm.trans hperm).cons_inv
  refine ⟨?_, ?_, ?_⟩
  · rw [AllL_perm (p2 x), AllL_cons_iff]
    exact ⟨hx, (AllL_perm hro).2 hO⟩
  · exact (p2 x).mem_iff.2 List.mem_cons_self
  · intro d hd
    rcases List.mem_cons.1 (p1.mem_iff.1 hd) with rfl | hd
    · exact ⟨x, (p2 x).mem_iff.2 List.mem_cons_self, hxh⟩
    · exact ⟨d, (p2 x).mem_iff.2 (List.mem_cons_of_mem _ hd), rfl⟩

theorem head_take {v : Bytes} {l : Nat} (hl : 0 < l) : (v.take l).head? = v.head? := by
  cases v with
  | nil => simp
  | cons b v =>
    cases l with
    | zero => omega
    | succ l => rfl

/-! ## Finishing a `getNode` step -/

theorem setChildren_children (n : Node) (cs : List Node) (idx : List (UInt8 × Nat)) :
    (n.setChildren cs idx).children = cs := rfl

/-- The step stops at the child `parent` (position `j` of the restructured node `n1`). -/
theorem finish_leaf {live : List Bytes} {n n1 parent : Node} {j : Nat} {O : List Node} {v : Bytes}
    (hj : n1.children[j]? = some parent) (hperm : n1.children.Perm (parent :: O)) (hO : AllL (TL live) O)
    (hcover : ∀ d ∈ n.children, ∃ d0 ∈ n1.children, d0.seg.value.head? = d.seg.value.head?)
    (hpv : parent.seg.value.head? = v.head?) (hx : Node.All (TL live) parent) :
    FPost live n v (n1, [j]) := by
  refine ⟨?_, ⟨parent, List.mem_of_getElem? hj, hpv⟩, hcover⟩
  rw [AllL_perm hperm, AllL_cons_iff]
  exact ⟨hx, hO⟩

/-- The step descends into `parent` and comes back with `res`. -/
theorem finish_descend {live : List Bytes} {n n1 parent : Node} {j : Nat} {O : List Node} {v : Bytes}
    {res : Node × List Nat}
    (hj : n1.children[j]? = some parent) (hperm : n1.children.Perm (parent :: O)) (hO : AllL (TL live) O)
    (hcover : ∀ d ∈ n.children, ∃ d0 ∈ n1.children, d0.seg.value.head? = d.seg.value.head?)
    (hpv : parent.seg.value.head? = v.head?) (hseg : res.1.seg = parent.seg) (hx : Node.All (TL live) res.1) :
    FPost live n v (n1.setChildren (n1.children.set j res.1) n1.indexes, j :: res.2) := by
  obtain ⟨h1, h2, h3⟩ := assemble hj hperm hx (by rw [hseg]) hO
  refine ⟨h1, ⟨res.1, h2, by rw [hseg]; exact hpv⟩, ?_⟩
  intro d hd
  obtain ⟨d0, hd0, e0⟩ := hcover d hd
  obtain ⟨d', hd', e'⟩ := h3 d0 hd0
  exact ⟨d', hd', e'.trans e0⟩

/-- The result of descending into an EXISTING child is forked or live when the child was. -/
theorem existing_all {ic : Interceptors} {live : List Bytes} {c : Node} {tgt w : Bytes} {res : Node × List Nat}
    (hc : Node.All (TL live) c) (hg : GPost ic c tgt res) (hf : FPost live c w res) : Node.All (TL live) res.1 := by
  rw [Node.All_iff]
  refine ⟨?_, hf.all⟩
  rcases hc.head with h | h
  · exact .inl (by rw [hg.pat]; exact h)
  · exact .inr (Forked_of_heads hf.keep h)

/-- Pieces after the first one start with `{`. -/
def HeadsOk (rest : List Bytes) : Prop := ∀ p ∈ rest, p.head? = some startByte

theorem split_extra {ic : Interceptors} {n n1 c ret : Node} {i l : Nat} {ss : Seg × Seg}
    (hc : n.children[i]? = some c) (hl : l ≤ c.seg.value.length) (hss : c.seg.splitAt ic l = .ok ss)
    (hret : sortNode (.mk ss.1 (n.pattern ++ ss.1.value) 0 [] [] [c.setSeg ss.2]) = .ok ret)
    (hn1 : sortNode (n.setChildren (removeNodes n.children c.seg.value ++ [ret]) n.indexes) = .ok n1) :
    ret.children = [c.setSeg ss.2] ∧ ret.pattern = n.pattern ++ c.seg.value.take l ∧
      ret.seg.value = c.seg.value.take l ∧ ss.2.value = c.seg.value.drop l ∧
      n1.children.Perm (ret :: removeNodes n.children c.seg.value) ∧
      (∀ d ∈ n.children, d.seg.value = c.seg.value ∨ d ∈ removeNodes n.children c.seg.value) := by
  obtain ⟨hs1, hs2⟩ := P11.splitAt_ok hl hss
  have hv1 := newSegment_value _ _ _ hs1
  have hv2 := newSegment_value _ _ _ hs2
  obtain ⟨idxr, _, hretdef⟩ := sortNode_ok hret
  simp only [Node.setChildren, Node.children_mk, Node.seg_mk, Node.pattern_mk, Node.methodIndex_mk,
    Node.handlers_mk, sortChildren_singleton] at hretdef
  obtain ⟨idx, _, rfl⟩ := sortNode_ok hn1
  refine ⟨by rw [hretdef]; rfl, by rw [hretdef, ← hv1]; rfl, by rw [hretdef, ← hv1]; rfl, hv2, ?_, ?_⟩
  · simp only [Node.setChildren, Node.children_mk]
    exact (sortChildren_perm _).trans List.perm_append_comm
  · intro d hd
    obtain ⟨c1, _, hv, hp⟩ := removeNodes_perm n.children c.seg.value ⟨c, List.mem_of_getElem? hc, rfl⟩
    rcases List.mem_cons.1 (hp.mem_iff.1 hd) with rfl | h
    · exact .inl hv
    · exact .inr h

/-! ## The induction over `getNode` -/

theorem AllL_of_sub {P : Node → Prop} {O cs : List Node} (h : AllL P cs) (hs : ∀ d ∈ O, d ∈ cs) : AllL P O := by
  rw [AllL_iff] at h ⊢
  exact fun d hd => h d (hs d hd)

theorem getNode_forked (ic : Interceptors) (live : List Bytes) (n : Node) (v : Bytes) (rest : List Bytes) :
    ∀ r, Node.All (Sh ic) n → AllL (TL live) n.children → PiecesOk v rest → HeadsOk rest →
      (n.pattern ++ v ++ rest.flatten) ∈ live → getNode ic n v rest = .ok r → FPost live n v r := by
  induction n, v, rest using getNode.induct with
  | _ n v rest ih1 ih2 ih3 =>
    intro r hn hT hpc hh htgt h
    rw [getNode] at h
    simp only [bind, Except.bind] at h
    split at h
    · simp at h
    rename_i seg hseg
    have hval := newSegment_value ic v seg hseg
    have hvne : v ≠ [] := hpc.wf.ne_nil
    have hscan := scan_spec seg n.children 0 0 0
    split at h
    · -- an identical child exists
      rename_i i hsc
      rw [hsc] at hscan
      obtain ⟨c0, hc0, _, hsim⟩ := hscan
      split at h
      · simp [throw, throwThe, MonadExceptOf.throw] at h
      rename_i c hc
      simp only [Nat.sub_zero, hc, Option.some.injEq] at hc0
      subst hc0
      have hcv : c.seg.value = v := by rw [← hval]; exact (similarity_neg_one hsim).symm
      obtain ⟨others, b⟩ := SB.same hn hc
      have hpat := (ShL_cons.1 b.shl).1.2.2.1
      have hcT : Node.All (TL live) c := AllL_getElem? hT hc
      have hO : AllL (TL live) others := ((AllL_perm b.perm1).1 hT).2
      split at h
      · simp only [pure, Except.pure, Except.ok.injEq] at h
        subst h
        exact finish_leaf hc b.perm1 hO (fun d hd => ⟨d, hd, rfl⟩) (by rw [hcv]) hcT
      · rename_i v' rest'
        have ih := ih1 c
        simp only at ih
        split at h
        · simp at h
        rename_i res hres
        simp only [pure, Except.pure, Except.ok.injEq] at h
        subst h
        have htgt' : c.pattern ++ v' ++ rest'.flatten ∈ live := by
          rw [hpat, hcv]; simpa using htgt
        have hf := ih res b.allP hcT.tail hpc.next.2 (fun p hp => hh p (List.mem_cons_of_mem _ hp)) htgt' hres
        have hg := getNode_shape ic c v' rest' res b.allP hpc.next.2 hres
        exact finish_descend hc b.perm1 hO (fun d hd => ⟨d, hd, rfl⟩) (by rw [hcv]) hg.seg (existing_all hcT hg hf)
    · rename_i l i hsc
      rw [hsc] at hscan
      obtain ⟨hall, hl0, hor⟩ := hscan
      split at h
      · -- a new leaf
        rename_i hl
        split at h
        · simp at h
        rename_i n1 hn1
        split at h
        · simp [throw, throwThe, MonadExceptOf.throw] at h
        rename_i j hj
        have b : SB ic n n1 (newLeaf n.pattern seg) j n.children :=
          SB.ofLeaf hn hpc.wf hseg (fun c hc => ⟨(hall c hc).1, Int.le_trans (hall c hc).2 hl⟩) hn1 hj
        have hpat : (newLeaf n.pattern seg).pattern = n.pattern ++ v := by simp [newLeaf, hval]
        have hlv : (newLeaf n.pattern seg).seg.value = v := by simp [newLeaf, hval]
        have hcover : ∀ d ∈ n.children, ∃ d0 ∈ n1.children, d0.seg.value.head? = d.seg.value.head? :=
          fun d hd => ⟨d, b.perm1.mem_iff.2 (List.mem_cons_of_mem _ hd), rfl⟩
        split at h
        · simp only [pure, Except.pure, Except.ok.injEq] at h
          subst h
          refine finish_leaf b.hj b.perm1 hT hcover (by rw [hlv]) ?_
          rw [Node.All_iff]
          refine ⟨.inl ?_, by simp [newLeaf, AllL]⟩
          rw [hpat]; simpa using htgt
        · rename_i v' rest'
          have ih := ih2 seg
          simp only at ih
          split at h
          · simp at h
          rename_i res hres
          simp only [pure, Except.pure, Except.ok.injEq] at h
          subst h
          have htgt' : (newLeaf n.pattern seg).pattern ++ v' ++ rest'.flatten ∈ live := by
            rw [hpat]; simpa using htgt
          have hf := ih res b.allP (by simp [newLeaf, AllL]) hpc.next.2
            (fun p hp => hh p (List.mem_cons_of_mem _ hp)) htgt' hres
          have hg := getNode_shape ic _ v' rest' res b.allP hpc.next.2 hres
          refine finish_descend b.hj b.perm1 hT hcover (by rw [hlv]) hg.seg ?_
          rw [Node.All_iff]
          refine ⟨.inr (.inl ?_), hf.all⟩
          obtain ⟨d, hd, e⟩ := hf.has
          exact ⟨d, hd, e.trans (hh v' List.mem_cons_self)⟩
      · -- a similar child: split it if necessary, then descend
        rename_i hl
        have hlpos : 0 < l := by omega
        split at h
        · simp [throw, throwThe, MonadExceptOf.throw] at h
        rename_i c hc
        have hsim : c.seg.similarity seg = l := by
          rcases hor with ⟨e, _⟩ | ⟨c0, hc0, _, hs⟩
          · omega
          · simp only [Nat.sub_zero, hc, Option.some.injEq] at hc0
            subst hc0; exact hs
        have hcok : ChildOk ic n.pattern c := hn.head.1 c (List.mem_of_getElem? hc)
        have L : LpPos c.seg.value v l.toNat := lpPos_of_sim hcok hpc.wf hseg hsim hlpos
        have hcT : Node.All (TL live) c := AllL_getElem? hT hc
        have hlp : longestPrefix c.seg.value v = ((l.toNat : Nat) : Int) := by
          rw [similarity_eq] at hsim
          split at hsim
          · omega
          · split at hsim
            · omega
            · rw [hval, longestPrefix_comm] at hsim
              rw [hsim]; omega
        have hrest' : ∀ {v' : Bytes} {rest' : List Bytes}, rest = v' :: rest' → HeadsOk rest' :=
          fun e p hp => hh p (by rw [e]; exact List.mem_cons_of_mem _ hp)
        split at h
        · -- no split needed
          rename_i hcl
          simp only [pure, Except.pure] at h
          obtain ⟨others, b⟩ := SB.same hn hc
          have hpv : c.seg.value = v.take l.toNat := by
            rw [← L.takeEq, List.take_of_length_le hcl]
          have hO : AllL (TL live) others := ((AllL_perm b.perm1).1 hT).2
          have hpat := (ShL_cons.1 b.shl).1.2.2.1
          have hhead : c.seg.value.head? = v.head? := by rw [hpv]; exact head_take L.lpos
          split at h
          · rename_i hvl0
            split at h
            · simp only [Except.ok.injEq] at h
              subst h
              exact finish_leaf hc b.perm1 hO (fun d hd => ⟨d, hd, rfl⟩) hhead hcT
            · rename_i v' rest'
              have ih := ih1 c
              simp only at ih
              split at h
              · simp at h
              rename_i res hres
              simp only [Except.ok.injEq] at h
              subst h
              have htgt' : c.pattern ++ v' ++ rest'.flatten ∈ live := by
                rw [hpat, hpv, List.take_of_length_le hvl0]; simpa using htgt
              have hf := ih res b.allP hcT.tail hpc.next.2 (hrest' rfl) htgt' hres
              have hg := getNode_shape ic c v' rest' res b.allP hpc.next.2 hres
              exact finish_descend hc b.perm1 hO (fun d hd => ⟨d, hd, rfl⟩) hhead hg.seg (existing_all hcT hg hf)
          · rename_i hvl
            split at h
            · simp at h
            rename_i res hres
            simp only [Except.ok.injEq] at h
            subst h
            have hpc' := hpc.dropped L.dropB hvl
            have htgt' : c.pattern ++ v.drop l.toNat ++ rest.flatten ∈ live := by
              rw [hpat, hpv, List.append_assoc n.pattern, List.take_append_drop]; exact htgt
            have hf := ih3 l hl c hvl res b.allP hcT.tail hpc' hh htgt' hres
            have hg := getNode_shape ic c _ rest res b.allP hpc' hres
            exact finish_descend hc b.perm1 hO (fun d hd => ⟨d, hd, rfl⟩) hhead hg.seg (existing_all hcT hg hf)
        · rename_i hcl
          split at h
          · simp at h
          rename_i ss hss
          split at h
          · simp at h
          rename_i ret hret
          split at h
          · simp at h
          rename_i n1 hn1
          split at h
          · simp [throw, throwThe, MonadExceptOf.throw] at h
          rename_i j hj
          simp only [pure, Except.pure] at h
          obtain ⟨others, b, hretv⟩ := SB.ofSplit hn hc L hcl hss hret hn1 hj
          obtain ⟨hrcs, hrpat, _, hlowv, hperm1, hcov⟩ :=
            split_extra hc (Nat.le_of_lt (Nat.lt_of_not_le hcl)) hss hret hn1
          have hpv : ret.seg.value = v.take l.toNat := by rw [hretv, L.takeEq]
          have hhead : ret.seg.value.head? = v.head? := by rw [hpv]; exact head_take L.lpos
          have hO : AllL (TL live) (removeNodes n.children c.seg.value) :=
            AllL_of_sub hT (fun d hd => (removeNodes_sublist _ _).subset hd)
          have hcover : ∀ d ∈ n.children, ∃ d0 ∈ n1.children, d0.seg.value.head? = d.seg.value.head? := by
            intro d hd
            rcases hcov d hd with e | hm
            · refine ⟨ret, List.mem_of_getElem? b.hj, ?_⟩
              rw [e, hretv]; exact head_take L.lpos
            · exact ⟨d, hperm1.mem_iff.2 (List.mem_cons_of_mem _ hm), rfl⟩
          have hlowT : AllL (TL live) ret.children := by
            rw [hrcs, AllL_cons_iff]
            exact ⟨TL_setSeg _ hcT, AllL_nil _⟩
          split at h
          · rename_i hvl0
            split at h
            · simp only [Except.ok.injEq] at h
              subst h
              refine finish_leaf b.hj hperm1 hO hcover hhead ?_
              rw [Node.All_iff]
              refine ⟨.inl ?_, hlowT⟩
              rw [hrpat, L.takeEq, List.take_of_length_le hvl0]; simpa using htgt
            · rename_i v' rest'
              have ih := ih1 ret
              simp only at ih
              split at h
              · simp at h
              rename_i res hres
              simp only [Except.ok.injEq] at h
              subst h
              have htgt' : ret.pattern ++ v' ++ rest'.flatten ∈ live := by
                rw [hrpat, L.takeEq, List.take_of_length_le hvl0]; simpa using htgt
              have hf := ih res b.allP hlowT hpc.next.2 (hrest' rfl) htgt' hres
              have hg := getNode_shape ic ret v' rest' res b.allP hpc.next.2 hres
              refine finish_descend b.hj hperm1 hO hcover hhead hg.seg ?_
              rw [Node.All_iff]
              refine ⟨.inr (.inl ?_), hf.all⟩
              obtain ⟨d, hd, e⟩ := hf.has
              exact ⟨d, hd, e.trans (hh v' List.mem_cons_self)⟩
          · rename_i hvl
            split at h
            · simp at h
            rename_i res hres
            simp only [Except.ok.injEq] at h
            subst h
            have hpc' := hpc.dropped L.dropB hvl
            have htgt' : ret.pattern ++ v.drop l.toNat ++ rest.flatten ∈ live := by
              rw [hrpat, L.takeEq, List.append_assoc n.pattern, List.take_append_drop]; exact htgt
            have hf := ih3 l hl ret hvl res b.allP hlowT hpc' hh htgt' hres
            have hg := getNode_shape ic ret _ rest res b.allP hpc' hres
            refine finish_descend b.hj hperm1 hO hcover hhead hg.seg ?_
            rw [Node.All_iff]
            refine ⟨.inr (.inr ?_), hf.all⟩
            obtain ⟨d1, hd1, e1⟩ := hf.has
            obtain ⟨d2, hd2, e2⟩ := hf.keep (c.setSeg ss.2) (by rw [hrcs]; exact List.mem_cons_self)
            refine ⟨d2, hd2, d1, hd1, ?_⟩
            rw [e1, e2]
            simp only [Node.setSeg, Node.seg_mk, hlowv]
            exact lp_exact hcok.1 hpc.wf hlp L.lpos (by omega) (by omega)

end Mux.P15
