/-
  Mux.Proofs.UrlMalformed — which byte shapes make `Split` fail, and with which error: evaluation lemmas for
  `splitString`/`splitLoop` on a pattern `a ++ "{" ++ …` with a brace-free literal prefix `a`.
-/
import Mux.Proofs.UrlText
namespace Mux.P28
open Mux Mux.Spec Mux.P9 Mux.P13

/-! ## `splitLoop`, one step -/

/-- An accepted piece: the loop goes on with the flag and the names of that piece. -/
theorem splitLoop_step {ic : Interceptors} {v : Bytes} {rest : List Bytes} {flag : Bool} {names : List Bytes} {s : Seg}
    (hv : v ≠ []) (hadj : ¬ (flag = true ∧ v.head? = some startByte)) (hs : newSegment ic v = .ok s)
    (hdup : s.kind = .str ∨ s.name ∉ names) :
    splitLoop ic (v :: rest) flag names =
      match splitLoop ic rest (decide (lastByte v = endByte)) (usedBelow names s) with
      | .ok r => .ok (s :: r)
      | .error e => .error e := by
  have hadj' : ¬ (flag = true ∧ v.headD 0 = startByte) := by
    intro hh
    apply hadj
    refine ⟨hh.1, ?_⟩
    cases v with
    | nil => exact absurd rfl hv
    | cons c r => simpa using hh.2
  have hdup' : ¬ (s.kind ≠ .str ∧ names.contains s.name = true) := by
    rintro ⟨h1, h2⟩
    rcases hdup with h | h
    · exact h1 h
    · exact h (by simpa using h2)
  simp only [splitLoop, bind, Except.bind, atE_zero _ _ hv, atE_last _ _ hv, pure, Except.pure, throw,
    throwThe, MonadExceptOf.throw, usedBelow_eq, hs, hadj', hdup', if_false]
  cases splitLoop ic rest (decide (lastByte v = endByte)) (usedBelow names s) <;> rfl

/-- A piece that `NewSegment` rejects (and that is not refused as adjacent before): its error. -/
theorem splitLoop_err {ic : Interceptors} {v : Bytes} {rest : List Bytes} {flag : Bool} {names : List Bytes} {e : Err}
    (hv : v ≠ []) (hadj : ¬ (flag = true ∧ v.head? = some startByte)) (hs : newSegment ic v = .error e) :
    splitLoop ic (v :: rest) flag names = .error e := by
  have hadj' : ¬ (flag = true ∧ v.headD 0 = startByte) := by
    intro hh
    apply hadj
    refine ⟨hh.1, ?_⟩
    cases v with
    | nil => exact absurd rfl hv
    | cons c r => simpa using hh.2
  simp only [splitLoop, bind, Except.bind, atE_zero _ _ hv, atE_last _ _ hv, throw,
    throwThe, MonadExceptOf.throw, hs, hadj', if_false]

/-- A piece starting with `{` directly after a piece ending with `}`. -/
theorem splitLoop_adjacent {ic : Interceptors} {w : Bytes} {rest : List Bytes} {names : List Bytes} :
    splitLoop ic ((startByte :: w) :: rest) true names = .error .adjacent := by
  simp [splitLoop, bind, Except.bind, atE, throw, throwThe, MonadExceptOf.throw]

/-- A repeated parameter name. -/
theorem splitLoop_dup {ic : Interceptors} {v : Bytes} {rest : List Bytes} {flag : Bool} {names : List Bytes} {s : Seg}
    (hv : v ≠ []) (hadj : ¬ (flag = true ∧ v.head? = some startByte)) (hs : newSegment ic v = .ok s)
    (hk : s.kind ≠ .str) (hdup : s.name ∈ names) : splitLoop ic (v :: rest) flag names = .error .dupName := by
  have hadj' : ¬ (flag = true ∧ v.headD 0 = startByte) := by
    intro hh
    apply hadj
    refine ⟨hh.1, ?_⟩
    cases v with
    | nil => exact absurd rfl hv
    | cons c r => simpa using hh.2
  have hdup' : s.kind ≠ .str ∧ names.contains s.name = true := ⟨hk, by simpa using hdup⟩
  simp only [splitLoop, bind, Except.bind, atE_zero _ _ hv, atE_last _ _ hv, throw,
    throwThe, MonadExceptOf.throw, hs, hadj', if_false]
  rw [if_pos hdup']

/-! ## The pieces of `a ++ "{" ++ x` -/

/-- The first piece cut from literal text after a non-empty piece in progress: up to the next `{`. -/
theorem splitAux_false_head (cur b : Bytes) (hc : cur ≠ []) :
    ∃ tl, splitAux false cur b = (cur ++ b.takeWhile (· ≠ startByte)) :: tl := by
  induction b generalizing cur with
  | nil => exact ⟨[], by simp [splitAux]⟩
  | cons c b ih =>
    by_cases h : c = startByte
    · subst h
      exact ⟨splitAux true [startByte] b, by simp [splitAux, hc]⟩
    · obtain ⟨tl, htl⟩ := ih (cur ++ [c]) (by simp)
      exact ⟨tl, by simp [splitAux, h, htl]⟩

/-- The pieces of a pattern `a ++ "{" ++ x` with a brace-free prefix `a`: `a` (unless empty), then the pieces
of the rest. -/
theorem splitString_lit_brace (a x : Bytes) (ha : NoBrace a) :
    splitString (a ++ startByte :: x) = emit a (splitAux true [startByte] x) := by
  unfold splitString
  rw [splitAux_false_noBrace [] a _ ha]
  simp [splitAux, emit]

/-- A token `{body}` (no `}` in `body`) followed by `b`: the first piece is `{body}` with the text of `b` up to
its first `{` as suffix. -/
theorem splitAux_tok_head (body b : Bytes) (hb : endByte ∉ body) :
    ∃ tl, splitAux true [startByte] (body ++ endByte :: b) = tok body (b.takeWhile (· ≠ startByte)) :: tl := by
  rw [splitAux_true_body _ _ _ hb]
  obtain ⟨tl, htl⟩ := splitAux_false_head ([startByte] ++ body ++ [endByte]) b (by simp)
  exact ⟨tl, by rw [htl]; simp [tok]⟩

/-- An error of the loop on the pieces after the literal prefix is the error of `Split`. -/
theorem split_lit_brace_err {ic : Interceptors} (a x : Bytes) (ha : NoBrace a) (hlen : a.length ≤ maxInt16) {e : Err}
    (h : splitLoop ic (splitAux true [startByte] x) false [] = .error e) :
    split ic (a ++ startByte :: x) = .error e := by
  unfold split
  rw [if_neg (by simp), splitString_lit_brace a x ha]
  unfold emit
  split
  · exact h
  · rename_i hne
    have hlast : decide (lastByte a = endByte) = false := by
      rw [decide_eq_false_iff_not]
      intro e'
      apply ha.2
      unfold lastByte at e'
      have hlt : a.length - 1 < a.length := by
        cases a with
        | nil => exact absurd rfl hne
        | cons c r => simp
      rw [List.getElem?_eq_getElem hlt] at e'
      simp only [Option.getD_some] at e'
      rw [← e']
      exact List.getElem_mem hlt
    rw [splitLoop_step hne (by simp) (newSegment_noStart ic ha.1 hlen) (.inl rfl), hlast]
    have : usedBelow [] ({ value := a } : Seg) = [] := by simp [usedBelow]
    rw [this, h]

theorem takeWhile_length_le (b : Bytes) (p : UInt8 → Bool) : (b.takeWhile p).length ≤ b.length := by
  induction b with
  | nil => simp
  | cons c b ih =>
    simp only [List.takeWhile]
    split <;> simp <;> omega

theorem takeWhile_of_not_mem {b : UInt8} {x : Bytes} (h : b ∉ x) : x.takeWhile (· ≠ b) = x := by
  induction x with
  | nil => rfl
  | cons c x ih =>
    simp only [List.mem_cons, not_or] at h
    have hc : ¬ c = b := fun e => h.1 e.symm
    simp only [List.takeWhile, ne_eq, hc, not_false_eq_true, decide_true]
    rw [ih h.2]

theorem takeWhile_append_sep {b : UInt8} {x : Bytes} (r : Bytes) (h : b ∉ x) : (x ++ b :: r).takeWhile (· ≠ b) = x := by
  induction x with
  | nil => simp
  | cons c x ih =>
    simp only [List.mem_cons, not_or] at h
    have hc : ¬ c = b := fun e => h.1 e.symm
    simp only [List.cons_append, List.takeWhile, ne_eq, hc, not_false_eq_true, decide_true]
    rw [ih h.2]

/-- **First token bad.**  If `NewSegment` rejects the first token piece `{body}w` (`w`: the text after it up to the
next `{`), `Split` fails with that error. -/
theorem split_first_tok_err {ic : Interceptors} (a body b : Bytes) (ha : NoBrace a) (hlen : a.length ≤ maxInt16)
    (hb : endByte ∉ body) {e : Err}
    (h : newSegment ic (tok body (b.takeWhile (· ≠ startByte))) = .error e) :
    split ic (a ++ tok body b) = .error e := by
  have : a ++ tok body b = a ++ startByte :: (body ++ endByte :: b) := by simp [tok]
  rw [this]
  apply split_lit_brace_err a _ ha hlen
  obtain ⟨tl, htl⟩ := splitAux_tok_head body b hb
  rw [htl]
  exact splitLoop_err (by simp [tok]) (by simp) h

/-! ## `NewSegment` on the malformed tokens -/

/-- `{}…`: empty name. -/
theorem newSegment_empty_name (ic : Interceptors) (w : Bytes) (hl : (tok [] w).length ≤ maxInt16) :
    newSegment ic (tok [] w) = .error .syntax := by
  rw [newSegment_closed, if_neg (by omega), tok_start, tok_end w (by simp)]
  simp only [List.length_nil, Nat.zero_add]
  cases indexByte separatorByte (tok [] w) <;> simp

/-- `{:rule}…`: no name before the `:`. -/
theorem newSegment_colon_first (ic : Interceptors) (rule w : Bytes) (hr : endByte ∉ rule)
    (hl : (tok (separatorByte :: rule) w).length ≤ maxInt16) :
    newSegment ic (tok (separatorByte :: rule) w) = .error .syntax := by
  have hr' : endByte ∉ separatorByte :: rule := by
    simp only [List.mem_cons, not_or]
    exact ⟨by decide, hr⟩
  have hsep : indexByte separatorByte (tok (separatorByte :: rule) w) = some 1 := by
    simp [tok, indexByte, startByte, separatorByte]
  rw [newSegment_closed, if_neg (by omega), tok_start, tok_end w hr', hsep]
  simp

/-- `{name:rule}…` with a rule that is no interceptor and does not compile, ASCII text after the token. -/
theorem newSegment_bad_rule (ic : Interceptors) (name rule w : Bytes) (hn : name ≠ []) (hns : separatorByte ∉ name)
    (hne : endByte ∉ name) (hr : endByte ∉ rule) (hrn : rule ≠ []) (hic : ic.find rule = none)
    (hbad : parseRule rule = .bad) (hasc : isAscii w = true)
    (hl : (tok (name ++ separatorByte :: rule) w).length ≤ maxInt16) :
    newSegment ic (tok (name ++ separatorByte :: rule) w) = .error .regexp := by
  have hb : endByte ∉ name ++ separatorByte :: rule := by
    simp only [List.mem_append, List.mem_cons, not_or]
    exact ⟨hne, by decide, hr⟩
  have hsepb : indexByte separatorByte (name ++ separatorByte :: rule) = some name.length := by
    rw [indexByte_append_of_not_mem hns]
    simp [indexByte]
  have hsep : indexByte separatorByte (tok (name ++ separatorByte :: rule) w) = some (name.length + 1) := by
    rcases tok_sep (name ++ separatorByte :: rule) w with ⟨k, hk1, hk2⟩ | ⟨hnone, _⟩
    · rw [hsepb] at hk1
      cases hk1
      exact hk2
    · rw [hsepb] at hnone; cases hnone
  have hnl : 0 < name.length := List.length_pos_iff.2 hn
  have hrl : 0 < rule.length := List.length_pos_iff.2 hrn
  rw [newSegment_closed, if_neg (by omega), tok_start, tok_end w hb, hsep]
  simp only [List.length_append, List.length_cons]
  rw [if_neg (by omega), if_neg (by omega), if_neg (by omega), if_neg (by omega)]
  unfold finishRuled
  have hrule : ((tok (name ++ separatorByte :: rule) w).take (name.length + (rule.length + 1) + 1)).drop
      (name.length + 1 + 1) = rule := by
    have hbl : (name ++ separatorByte :: rule).length = name.length + (rule.length + 1) := by simp
    have h1 := tok_take_drop1 (name ++ separatorByte :: rule) w _ (Nat.le_refl _)
    rw [List.take_length, hbl] at h1
    have h2 : name.length + 1 + 1 = 1 + (name.length + 1) := by omega
    rw [h2, ← List.drop_drop, h1, List.drop_append, List.drop_of_length_le (by omega)]
    simp
  have hsuf : (tok (name ++ separatorByte :: rule) w).drop (name.length + (rule.length + 1) + 1 + 1) = w := by
    have := tok_drop (name ++ separatorByte :: rule) w 0
    simp only [List.length_append, List.length_cons, Nat.add_zero, List.drop_zero] at this
    exact this
  simp only [hrule, hsuf, hic, hasc, not_true_eq_false, if_false]
  simp [compileRule, hbad]

/-! ## Two tokens: adjacency and repeated names -/

theorem lastByte_mem {v : Bytes} (h : v ≠ []) : lastByte v ∈ v := by
  unfold lastByte
  have hlt : v.length - 1 < v.length := by
    cases v with
    | nil => exact absurd rfl h
    | cons c r => simp
  rw [List.getElem?_eq_getElem hlt]
  exact List.getElem_mem hlt

theorem lastByte_append (x : Bytes) {y : Bytes} (hy : y ≠ []) : lastByte (x ++ y) = lastByte y := by
  unfold lastByte
  have hl : 0 < y.length := List.length_pos_iff.2 hy
  rw [List.length_append, List.getElem?_append_right (by omega)]
  congr 2
  omega

theorem lastByte_tok_nil (body : Bytes) : lastByte (tok body []) = endByte := by
  have : tok body [] = (startByte :: body) ++ [endByte] := by simp [tok]
  rw [this, lastByte_append _ (by simp)]
  rfl

theorem lastByte_tok_suf (body : Bytes) {suf : Bytes} (hs : NoBrace suf) (hne : suf ≠ []) :
    lastByte (tok body suf) ≠ endByte := by
  have : tok body suf = (startByte :: body ++ [endByte]) ++ suf := by simp [tok]
  rw [this, lastByte_append _ hne]
  intro e
  exact hs.2 (e ▸ lastByte_mem hne)

/-- The first piece cut while inside a token extends the piece in progress. -/
theorem splitAux_true_head (cur rest : Bytes) : ∃ w tl, splitAux true cur rest = (cur ++ w) :: tl := by
  induction rest generalizing cur with
  | nil => exact ⟨[], [], by simp [splitAux]⟩
  | cons c rest ih =>
    by_cases h : c = endByte
    · obtain ⟨tl, htl⟩ := splitAux_false_head (cur ++ [c]) rest (by simp)
      refine ⟨[c] ++ rest.takeWhile (· ≠ startByte), tl, ?_⟩
      simp only [splitAux, h, if_true]
      rw [← h, htl]
      simp
    · obtain ⟨w, tl, htl⟩ := ih (cur ++ [c])
      exact ⟨[c] ++ w, tl, by simp [splitAux, h, htl]⟩

/-- **Adjacent parameters**: a token that `NewSegment` accepts, directly followed by `{`. -/
theorem split_adjacent {ic : Interceptors} (a body b : Bytes) (ha : NoBrace a) (hlen : a.length ≤ maxInt16)
    (hb : endByte ∉ body) {s : Seg} (hs : newSegment ic (tok body []) = .ok s) :
    split ic (a ++ tok body [] ++ startByte :: b) = .error .adjacent := by
  have : a ++ tok body [] ++ startByte :: b = a ++ startByte :: (body ++ endByte :: startByte :: b) := by simp [tok]
  rw [this]
  apply split_lit_brace_err a _ ha hlen
  rw [splitAux_true_body _ _ _ hb]
  obtain ⟨w, tl, htl⟩ := splitAux_true_head [startByte] b
  have hp : splitAux false ([startByte] ++ body ++ [endByte]) (startByte :: b) =
      tok body [] :: (startByte :: w) :: tl := by
    simp only [splitAux, if_true]
    rw [if_neg (by simp), htl]
    simp [tok]
  rw [hp, splitLoop_step (by simp [tok]) (by simp) hs (.inr (by simp)), lastByte_tok_nil]
  simp only [decide_true]
  rw [splitLoop_adjacent]

/-- **Repeated name**: two tokens that `NewSegment` accepts, separated by brace-free text, with the same
parameter name (read off the bytes: `Spec.tokName`). -/
theorem split_dup_name {ic : Interceptors} (a body1 suf1 body2 b : Bytes) (ha : NoBrace a) (hlen : a.length ≤ maxInt16)
    (hb1 : endByte ∉ body1) (hs1 : NoBrace suf1) (hne : suf1 ≠ []) (hb2 : endByte ∉ body2) {s1 s2 : Seg}
    (h1 : newSegment ic (tok body1 suf1) = .ok s1)
    (h2 : newSegment ic (tok body2 (b.takeWhile (· ≠ startByte))) = .ok s2)
    (hname : tokName body1 = tokName body2) :
    split ic (a ++ tok body1 suf1 ++ tok body2 b) = .error .dupName := by
  have : a ++ tok body1 suf1 ++ tok body2 b =
      a ++ startByte :: (body1 ++ endByte :: (suf1 ++ startByte :: (body2 ++ endByte :: b))) := by simp [tok]
  rw [this]
  apply split_lit_brace_err a _ ha hlen
  rw [splitAux_true_body _ _ _ hb1, splitAux_false_noBrace _ _ _ hs1]
  obtain ⟨tl, htl⟩ := splitAux_tok_head body2 b hb2
  have hp : splitAux false ([startByte] ++ body1 ++ [endByte] ++ suf1) (startByte :: (body2 ++ endByte :: b)) =
      tok body1 suf1 :: tok body2 (b.takeWhile (· ≠ startByte)) :: tl := by
    simp only [splitAux, if_true]
    rw [if_neg (by simp), htl]
    simp [tok]
  obtain ⟨k1, _, n1, _⟩ := newSegment_tok' hb1 h1
  obtain ⟨k2, _, n2, _⟩ := newSegment_tok' hb2 h2
  rw [hp, splitLoop_step (by simp [tok]) (by simp) h1 (.inr (by simp))]
  have hflag : decide (lastByte (tok body1 suf1) = endByte) = false :=
    decide_eq_false (lastByte_tok_suf body1 hs1 hne)
  have hused : usedBelow [] s1 = [s1.name] := by simp [usedBelow, k1]
  rw [hflag, hused, splitLoop_dup (by simp [tok]) (by simp) h2 k2
    (by rw [n2, ← tokName_eq, ← hname, tokName_eq, ← n1]; simp)]

/-! ## Text without `}` is literal -/

theorem substFrom_no_end (ps : AMap Bytes) (p : Bytes) (hp : endByte ∉ p) (st : Option Bytes) :
    substFrom ps st p = some ((match st with | none => [] | some b => startByte :: b) ++ p) := by
  induction p generalizing st with
  | nil => cases st <;> simp [substFrom]
  | cons c p ih =>
    simp only [List.mem_cons, not_or] at hp
    have hc : ¬ c = endByte := fun e => hp.1 e.symm
    cases st with
    | none =>
      by_cases h : c = startByte
      · subst h
        simp [substFrom, ih hp.2]
      · simp [substFrom, h, ih hp.2]
    | some b => simp [substFrom, hc, ih hp.2]

/-- Pieces without `}` are all accepted, as literal segments. -/
theorem splitLoop_no_end {ic : Interceptors} : ∀ (vs : List Bytes) (names : List Bytes),
    (∀ q ∈ vs, q ≠ [] ∧ endByte ∉ q ∧ q.length ≤ maxInt16) → ∃ segs, splitLoop ic vs false names = .ok segs
  | [], _, _ => ⟨[], rfl⟩
  | q :: vs, names, h => by
    obtain ⟨hne, hend, hlen⟩ := h q List.mem_cons_self
    have hs : newSegment ic q = .ok { value := q } := by
      have hen : indexByte endByte q = none := indexByte_eq_none_iff.2 hend
      rw [newSegment_closed, if_neg (by omega), hen]
      cases indexByte startByte q <;> rfl
    have hflag : decide (lastByte q = endByte) = false :=
      decide_eq_false fun e => hend (e ▸ lastByte_mem hne)
    obtain ⟨segs, hsegs⟩ := splitLoop_no_end vs names (fun x hx => h x (List.mem_cons_of_mem _ hx))
    have hused : usedBelow names ({ value := q } : Seg) = names := by simp [usedBelow]
    refine ⟨{ value := q } :: segs, ?_⟩
    rw [splitLoop_step hne (by simp) hs (.inl rfl), hflag, hused, hsegs]

theorem length_le_flatten {q : Bytes} : ∀ {l : List Bytes}, q ∈ l → q.length ≤ l.flatten.length
  | [], h => by cases h
  | x :: l, h => by
    rcases List.mem_cons.1 h with rfl | h
    · simp
    · have := length_le_flatten h
      simp only [List.flatten_cons, List.length_append]
      omega

/-- A pattern without `}` is accepted by `Split`. -/
theorem split_no_end (ic : Interceptors) (p : Bytes) (hne : p ≠ []) (hend : endByte ∉ p) (hlen : p.length ≤ maxInt16) :
    ∃ segs, split ic p = .ok segs := by
  unfold split
  rw [if_neg hne]
  apply splitLoop_no_end
  intro q hq
  have hsub : ∀ x ∈ q, x ∈ p := by
    intro x hx
    rw [← splitString_join p]
    exact List.mem_flatten.2 ⟨q, hq, hx⟩
  refine ⟨splitString_pieces_nonempty p hne q hq, fun h => hend (hsub _ h), ?_⟩
  have hl : q.length ≤ (splitString p).flatten.length := length_le_flatten hq
  rw [splitString_join] at hl
  omega

end Mux.P28
