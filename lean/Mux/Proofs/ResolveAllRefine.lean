/-
  Mux.Proofs.ResolveAllRefine — C02 for histories with `Remove`/`Clean`: every tree with the structural
  invariant `SOk2`, the shape invariant `Sh` and the hypothesis `Good` on the nodes below it refines the
  reference resolver run on the remainders read off the tree (`rems`) — canonical form is NOT needed:
  handler-less literal chains and dead subtrees (what `Remove`/`Clean` leave behind) are allowed.
-/
import Mux.Proofs.ResolveAllGroups
import Mux.Proofs.Table
namespace Mux.P16
open Mux Mux.P8 Mux.Spec Mux.P15

/-- What is proved of one node: a hit is an outcome of the resolver on the remainders below the node,
a miss means that the resolver finds nothing. -/
def RefinesR (env : Env) (ic : Interceptors) (n : Node) : Prop :=
  ∀ (path : Bytes) (ps : Params) (used : List Bytes) (fuel : Nat),
    maxLen (rems n) < fuel → NamesOkL used n.children → (∀ k ∈ ps.keys, k ∈ used) →
    (∀ m ps', n.matchChildren env ic path ps = .hit m ps' → (m.pattern, ps') ∈ resolveFuel env ic fuel (rems n) path ps) ∧
    (∀ ps', n.matchChildren env ic path ps = .miss ps' → resolveFuel env ic fuel (rems n) path ps = [])

theorem groups_rems (n : Node) : groups (rems n) = groups (remsL n.children) := by
  rw [rems_eq]
  split
  · rfl
  · rw [List.singleton_append, groups_cons_nil]

theorem byKind_rems (env : Env) (ic : Interceptors) (f : Nat) (n : Node) (k : Kind) (path : Bytes) (ps : AMap Bytes) :
    byKind env ic f (rems n) k path ps = byKind env ic f (remsL n.children) k path ps := by
  unfold byKind; rw [groups_rems]

/-- The routes that end at the node: its own, when it has handlers. -/
theorem ended_rems {ic : Interceptors} {n : Node} (hsh : P11.Sh ic n) (ps : AMap Bytes) :
    ended (rems n) [] ps = if n.handlers = [] then [] else [(n.pattern, ps)] := by
  have hkids : (remsL n.children).filter (fun r => r.1 = []) = [] := by
    rw [List.filter_eq_nil_iff]
    intro r hr
    obtain ⟨d, hd, hb⟩ := mem_remsL.1 hr
    obtain ⟨r', _, rfl⟩ := List.mem_map.1 hb
    have := (hsh.1 d hd).1.ne_nil
    simpa using fun e : d.seg.value = [] => absurd e this
  unfold ended
  rw [if_pos rfl, rems_eq, List.filter_append, hkids, List.append_nil]
  cases hn : n.handlers with
  | nil => simp
  | cons a l => simp

theorem maxLen_remsL_le (n : Node) : maxLen (remsL n.children) ≤ maxLen (rems n) :=
  maxLen_le (fun _ hr => le_maxLen (remsL_sub_rems n hr))

theorem maxLen_block_le {cs : List Node} {c : Node} (hc : c ∈ cs) : maxLen (block c) ≤ maxLen (remsL cs) :=
  maxLen_le (fun _ hr => le_maxLen (mem_remsL.2 ⟨c, hc, hr⟩))

section Step
variable {env : Env} {ic : Interceptors} {n : Node} (hsh : P11.Sh ic n)
  (hgood : ∀ c ∈ n.children, Good c)
  (ih : ∀ c ∈ n.children, RefinesR env ic c)
  {f : Nat} (hf : maxLen (rems n) < f + 1)
  {used : List Bytes} (hN : NamesOkL used n.children) {ps : Params} (hk : ∀ k ∈ ps.keys, k ∈ used)
include hsh hgood ih hf hN hk

omit hgood ih hN hk in
theorem fuel_child {c : Node} (hc : c ∈ n.children) (hne : rems c ≠ []) : maxLen (rems c) < fuelOf c f := by
  have h1 := maxLen_block_lt (hsh.1 c hc).1.ne_nil hne
  have h2 := maxLen_block_le hc
  have h3 := maxLen_remsL_le n
  unfold fuelOf
  split <;> omega

/-- The outcome of a child that hits is an outcome of its group. -/
theorem child_hit_mem {c : Node} (hc : c ∈ n.children) {path cap rest : Bytes}
    (hm : c.seg.match env ic path = .yes cap rest) {m : Node} {ps' : Params}
    (hsub : c.matchChildren env ic rest (c.seg.record cap ps) = .hit m ps') :
    (m.pattern, ps') ∈ byKind env ic f (rems n) c.seg.kind path ps := by
  have hco := hsh.1 c hc
  obtain ⟨tok, suf, F⟩ := valForm_of_wf hco.1
  obtain ⟨hfresh, hok⟩ := NamesOkL_mem hN hc
  obtain ⟨_, r2, _⟩ := record_spec (s := c.seg) cap hfresh hk
  have hne : rems c ≠ [] := by
    intro e
    have := (ih c hc rest _ _ 1 (by rw [e]; exact Nat.zero_lt_one) ((Node.namesOk_iff _ c).1 hok) r2).1 m ps' hsub
    rw [e, resolveFuel_nil] at this
    cases this
  have := (ih c hc rest _ _ (fuelOf c f) (fuel_child hsh hf hc hne) ((Node.namesOk_iff _ c).1 hok) r2).1 m ps' hsub
  rw [byKind_rems]
  unfold byKind
  refine List.mem_flatMap.2 ⟨_, group_of_child hsh hc F hne, ?_⟩
  rw [tryGroup_child env hco F (hgood c hc) hne, if_pos rfl, hm]
  simp only
  rw [← record_eq_addParam cap hfresh hk]
  exact this

/-- When every child of kind `k` misses, no group of kind `k` has an outcome. -/
theorem kind_miss_nil {path : Bytes} (k : Kind)
    (hmiss : ∀ c ∈ n.children, c.seg.kind = k → tryChild env ic c path ps = .miss ps) :
    byKind env ic f (rems n) k path ps = [] := by
  rw [byKind_rems]
  unfold byKind
  rw [List.flatMap_eq_nil_iff]
  intro g hg
  obtain ⟨c, hc, tok, suf, F, hne, rfl⟩ := child_of_group hsh hg
  have hco := hsh.1 c hc
  rw [tryGroup_child env hco F (hgood c hc) hne]
  split
  · rename_i hkind
    rcases tryChild_miss_cases (hmiss c hc hkind) with hno | ⟨cap, rest, ps2, hm, hsub⟩
    · rw [hno]
    · rw [hm]
      simp only
      obtain ⟨hfresh, hok⟩ := NamesOkL_mem hN hc
      obtain ⟨_, r2, _⟩ := record_spec (s := c.seg) cap hfresh hk
      rw [← record_eq_addParam cap hfresh hk]
      exact (ih c hc rest _ _ (fuelOf c f) (fuel_child hsh hf hc hne) ((Node.namesOk_iff _ c).1 hok) r2).2 ps2 hsub
  · rfl

end Step

theorem refinesR_mk (env : Env) (ic : Interceptors) (n : Node) (hall : Node.All (SOk2 ic) n) (hsh : P11.Sh ic n)
    (hgood : ∀ c ∈ n.children, Good c) (ih : ∀ c ∈ n.children, RefinesR env ic c) : RefinesR env ic n := by
  intro path ps used fuel hfuel hN hk
  have hS : Node.All (SOk ic) n := SOk2.all_SOk _ hall
  have hd : DistinctFirstBytes n := hall.head.2.distinct
  have ht : TrackL used n.children ps := ⟨hN, AllL_idxLit_of_SOk _ hS.tail, hk⟩
  obtain ⟨f, rfl⟩ : ∃ f, fuel = f + 1 := ⟨fuel - 1, by omega⟩
  rw [matchChildren_eq_scan env ic hS hd hN hk]
  have allnil : AllMiss env ic n.children path ps → ∀ k, byKind env ic f (rems n) k path ps = [] :=
    fun hmiss k => kind_miss_nil hsh hgood ih hfuel hN hk k (fun c hc _ => hmiss c hc)
  refine ⟨?_, ?_⟩
  · intro m ps' h
    rcases (scan_hit_iff ht m ps').1 h with ⟨i, c, hi, hhit, hbefore⟩ | ⟨hmiss, hp, hh, rfl, rfl⟩
    · have hc := List.mem_of_getElem? hi
      obtain ⟨cap, rest, hm, hsub⟩ := (tryChild_hit_iff env ic c path ps m ps').1 hhit
      refine mem_resolveFuel_of_byKind (child_hit_mem hsh hgood ih hfuel hN hk hc hm hsub) ?_
      intro k' hk'
      refine kind_miss_nil hsh hgood ih hfuel hN hk k' ?_
      intro c' hc' hkind
      obtain ⟨j, hj⟩ := List.getElem?_of_mem hc'
      refine hbefore j ?_ c' hj
      rcases Nat.lt_or_ge j i with hlt | hge
      · exact hlt
      · have := RankSorted.getElem_le hS.head.sorted hge hi hj
        rw [hkind] at this
        omega
    · subst hp
      refine mem_resolveFuel_of_ended ?_ (allnil hmiss .str)
      rw [ended_rems hsh, if_neg hh]
      exact List.mem_singleton.2 rfl
  · intro ps' h
    obtain ⟨_, hmiss, hself⟩ := (scan_miss_iff ht ps').1 h
    rw [resolveFuel_all_nil (allnil hmiss)]
    by_cases hp : path = []
    · subst hp
      rw [ended_rems hsh]
      have hnil : n.handlers = [] := by
        by_cases hh : n.handlers = []
        · exact hh
        · exact (hself ⟨rfl, hh⟩).elim
      rw [if_pos hnil]
    · unfold ended
      rw [if_neg hp]

/-- **Refinement without canonical form**: every node all of whose descendants satisfy `SOk2`, `Sh`
and, properly below it, `Good`. -/
theorem refinesR_node (env : Env) (ic : Interceptors) :
    ∀ n : Node, Node.All (SOk2 ic) n → Node.All (P11.Sh ic) n → AllL Good n.children → RefinesR env ic n := by
  intro n
  induction n using Node.rec
    (motive_2 := fun cs => AllL (SOk2 ic) cs → AllL (P11.Sh ic) cs → AllL Good cs →
      ∀ c ∈ cs, Good c ∧ RefinesR env ic c) with
  | mk s p mi hs idx cs ih =>
    intro hall hsh hg
    have := ih hall.tail hsh.tail hg
    exact refinesR_mk env ic _ hall hsh.head (fun c hc => (this c hc).1) (fun c hc => (this c hc).2)
  | nil => rename_i c hc; cases hc
  | cons c cs ih1 ih2 =>
    rename_i hall hsh hg d hd
    rcases List.mem_cons.1 hd with rfl | hd
    · exact ⟨hg.1.head, ih1 hall.1 hsh.1 hg.1.tail⟩
    · exact ih2 hall.2 hsh.2 hg.2 d hd

/-! ## Tree level -/

/-- The hypotheses on a tree: `Good` for every node below the root. -/
def GoodTree (t : Tree) : Prop := AllL Good t.root.children

/-- On a tree with the invariants of a well-formed history and `GoodTree`, the dispatch of a path other
than `""` and `*` refines the reference resolver run on the live routes of the tree. -/
theorem refines_tree (env : Env) (t : Tree) (hs : StructInv2 t) (hti : P11.TInv t) (hg : GoodTree t)
    (hN : NamesOkL [] t.root.children) (path : Bytes) (hp : path ≠ []) :
    (∀ m ps', t.root.matchChildren env t.ic path [] = .hit m ps' →
      (m.pattern, ps') ∈ resolveAll env t.ic (tableOf t).patterns path) ∧
    (∀ ps', t.root.matchChildren env t.ic path [] = .miss ps' → resolveAll env t.ic (tableOf t).patterns path = []) := by
  have hrems : rems t.root = (if t.root.handlers.isEmpty then [] else [([], t.root.pattern)]) ++
      (tableOf t).patterns.map (fun p => (p, p)) := by
    rw [rems_eq, remsL_root hti.sh hti.rootPat, P11.tableOf_patterns]
  have hml : maxLen (rems t.root) = maxLen ((tableOf t).patterns.map (fun p => (p, p))) := by
    rw [hrems]
    split
    · rfl
    · simp [maxLen]
  have href := refinesR_node env t.ic t.root hs.all hti.sh hg path [] []
    (maxLen ((tableOf t).patterns.map (fun p => (p, p))) + 1) (by rw [hml]; exact Nat.lt_succ_self _) hN
    (by simp [AMap.keys])
  have hres : resolveFuel env t.ic (maxLen ((tableOf t).patterns.map (fun p => (p, p))) + 1) (rems t.root) path [] =
      resolveAll env t.ic (tableOf t).patterns path := by
    unfold resolveAll resolveRems
    rw [hrems]
    split
    · rfl
    · rw [List.singleton_append, resolveFuel_cons_nil env t.ic _ _ _ hp]
  rw [hres] at href
  exact href

end Mux.P16
