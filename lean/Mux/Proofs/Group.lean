/-
  Helper lemmas for C13 (Group dispatch): rejections of matchers, the loop of `Group.serve`,
  `Group.add/use/remove/names`.
-/
import Mux.Proofs.Version
namespace Mux

/-! ## Syntactic classes of matchers -/

mutual
/-- No `Hosts` matcher anywhere in the expression. -/
def Matcher.hostsFree : Matcher → Bool
  | .hosts _ => false
  | .and ms => hostsFreeList ms
  | .or ms => hostsFreeList ms
  | _ => true
def hostsFreeList : List Matcher → Bool
  | [] => true
  | m :: ms => m.hostsFree && hostsFreeList ms
end

mutual
/-- Every `Hosts` matcher sits below some `And` (which restores path and parameters when it rejects).
Strictly more general than `hostsFree`. -/
def Matcher.guarded : Matcher → Bool
  | .hosts _ => false
  | .and _ => true
  | .or ms => guardedList ms
  | _ => true
def guardedList : List Matcher → Bool
  | [] => true
  | m :: ms => m.guarded && guardedList ms
end

mutual
theorem Matcher.hostsFree_guarded : ∀ (m : Matcher), m.hostsFree = true → m.guarded = true
  | .any, _ => rfl
  | .hosts _, h => by simp [Matcher.hostsFree] at h
  | .pathVersion _ _, _ => rfl
  | .headerVersion _ _ _, _ => rfl
  | .and _, _ => rfl
  | .or ms, h => by
    rw [Matcher.hostsFree] at h; rw [Matcher.guarded]; exact hostsFreeList_guarded ms h
theorem hostsFreeList_guarded : ∀ (ms : List Matcher), hostsFreeList ms = true → guardedList ms = true
  | [], _ => rfl
  | m :: ms, h => by
    rw [hostsFreeList, Bool.and_eq_true] at h
    rw [guardedList, Bool.and_eq_true]
    exact ⟨Matcher.hostsFree_guarded m h.1, hostsFreeList_guarded ms h.2⟩
end

theorem guardedList_iff (ms : List Matcher) : guardedList ms = true ↔ ∀ m ∈ ms, m.guarded = true := by
  induction ms with
  | nil => simp [guardedList]
  | cons m ms ih => simp [guardedList, ih]

theorem hostsFreeList_iff (ms : List Matcher) : hostsFreeList ms = true ↔ ∀ m ∈ ms, m.hostsFree = true := by
  induction ms with
  | nil => simp [hostsFreeList]
  | cons m ms ih => simp [hostsFreeList, ih]

/-! ## Rejections -/

section
variable (env : Env) (tab : Nat → Option Hosts)

theorem Hosts.match_reject_path (hs : Hosts) (host path : Bytes) (ps : Params) (p' : Bytes) (ps' : Params)
    (h : hs.match env host path ps = .reject p' ps') : p' = path := by
  unfold Hosts.match at h
  split at h
  · cases h
  · split at h
    · cases h
    · cases h
    · split at h
      · cases h
      · cases h; rfl

/-- A rejecting `And` restores what it was entered with (the D12 repair), whatever its members are. -/
theorem run_and_reject (ms : List Matcher) (req : Req) (path : Bytes) (ps : Params) (p' : Bytes) (ps' : Params)
    (h : (Matcher.and ms).run env tab req path ps = .reject p' ps') : p' = path ∧ ps' = ps := by
  rw [Matcher.run] at h
  split at h
  · cases h; exact ⟨rfl, rfl⟩
  · rename_i hr
    exact absurd h (hr p' ps')

theorem runOr_cons_reject (m : Matcher) (ms : List Matcher) (req : Req) (path : Bytes) (ps : Params)
    (q : Bytes) (qs : Params) (h : runOr env tab (m :: ms) req path ps = .reject q qs) :
    ∃ p' ps', m.run env tab req path ps = .reject p' ps' ∧ runOr env tab ms req p' ps' = .reject q qs := by
  rw [runOr] at h
  split at h
  · rename_i p' ps' hm
    exact ⟨p', ps', hm, h⟩
  · rename_i hr
    exact absurd h (hr q qs)

mutual
/-- Every matcher, `Hosts` included, leaves the PATH alone when it rejects. -/
theorem run_reject_path : ∀ (m : Matcher) (req : Req) (path : Bytes) (ps : Params) (p' : Bytes) (ps' : Params),
    m.run env tab req path ps = .reject p' ps' → p' = path
  | .any, _, _, _, _, _, h => by rw [Matcher.run] at h; cases h
  | .hosts id, req, path, ps, p', ps', h => by
    rw [Matcher.run] at h
    split at h
    · exact Hosts.match_reject_path env _ _ _ _ _ _ h
    · cases h
  | .pathVersion param vers, req, path, ps, p', ps', h =>
    (run_pathVersion_reject env tab param vers req path ps p' ps' h).1
  | .headerVersion param key vers, req, path, ps, p', ps', h =>
    (run_headerVersion_reject env tab param key vers req path ps p' ps' h).1
  | .and ms, req, path, ps, p', ps', h => (run_and_reject env tab ms req path ps p' ps' h).1
  | .or ms, req, path, ps, p', ps', h => by
    rw [Matcher.run] at h
    exact runOr_reject_path ms req path ps p' ps' h
theorem runOr_reject_path : ∀ (ms : List Matcher) (req : Req) (path : Bytes) (ps : Params) (p' : Bytes) (ps' : Params),
    runOr env tab ms req path ps = .reject p' ps' → p' = path
  | [], _, _, _, _, _, h => by rw [runOr] at h; cases h; rfl
  | m :: ms, req, path, ps, q, qs, h => by
    obtain ⟨p', ps', hm, hr⟩ := runOr_cons_reject env tab m ms req path ps q qs h
    have h1 := run_reject_path m req path ps p' ps' hm
    have h2 := runOr_reject_path ms req p' ps' q qs hr
    rw [h2, h1]
end

mutual
/-- A guarded matcher (in particular a hosts-free one) leaves path AND parameters alone when it rejects. -/
theorem run_reject_guarded : ∀ (m : Matcher), m.guarded = true →
    ∀ (req : Req) (path : Bytes) (ps : Params) (p' : Bytes) (ps' : Params),
    m.run env tab req path ps = .reject p' ps' → p' = path ∧ ps' = ps
  | .any, _, _, _, _, _, _, h => by rw [Matcher.run] at h; cases h
  | .hosts id, hg, _, _, _, _, _, _ => by simp [Matcher.guarded] at hg
  | .pathVersion param vers, _, req, path, ps, p', ps', h =>
    run_pathVersion_reject env tab param vers req path ps p' ps' h
  | .headerVersion param key vers, _, req, path, ps, p', ps', h =>
    run_headerVersion_reject env tab param key vers req path ps p' ps' h
  | .and ms, _, req, path, ps, p', ps', h => run_and_reject env tab ms req path ps p' ps' h
  | .or ms, hg, req, path, ps, p', ps', h => by
    rw [Matcher.run] at h
    rw [Matcher.guarded] at hg
    exact runOr_reject_guarded ms hg req path ps p' ps' h
theorem runOr_reject_guarded : ∀ (ms : List Matcher), guardedList ms = true →
    ∀ (req : Req) (path : Bytes) (ps : Params) (p' : Bytes) (ps' : Params),
    runOr env tab ms req path ps = .reject p' ps' → p' = path ∧ ps' = ps
  | [], _, _, _, _, _, _, h => by rw [runOr] at h; cases h; exact ⟨rfl, rfl⟩
  | m :: ms, hg, req, path, ps, q, qs, h => by
    rw [guardedList, Bool.and_eq_true] at hg
    obtain ⟨p', ps', hm, hr⟩ := runOr_cons_reject env tab m ms req path ps q qs h
    obtain ⟨h1, h1'⟩ := run_reject_guarded m hg.1 req path ps p' ps' hm
    obtain ⟨h2, h2'⟩ := runOr_reject_guarded ms hg.2 req p' ps' q qs hr
    exact ⟨h2.trans h1, h2'.trans h1'⟩
end

theorem run_reject_hostsFree (m : Matcher) (hm : m.hostsFree = true)
    (req : Req) (path : Bytes) (ps : Params) (p' : Bytes) (ps' : Params)
    (h : m.run env tab req path ps = .reject p' ps') : p' = path ∧ ps' = ps :=
  run_reject_guarded env tab m (Matcher.hostsFree_guarded m hm) req path ps p' ps' h

/-- `Or` rejects iff every member rejects (each one seeing what the previous ones left). For guarded members
that is the original state. -/
theorem runOr_reject_iff_guarded (ms : List Matcher) (hg : guardedList ms = true)
    (req : Req) (path : Bytes) (ps : Params) :
    runOr env tab ms req path ps = .reject path ps ↔ ∀ m ∈ ms, m.run env tab req path ps = .reject path ps := by
  induction ms with
  | nil => simp [runOr]
  | cons m ms ih =>
    rw [guardedList, Bool.and_eq_true] at hg
    constructor
    · intro h
      obtain ⟨p', ps', hm, hr⟩ := runOr_cons_reject env tab m ms req path ps path ps h
      obtain ⟨h1, h1'⟩ := run_reject_guarded env tab m hg.1 req path ps p' ps' hm
      subst h1; subst h1'
      intro x hx
      rcases List.mem_cons.mp hx with rfl | hx
      · exact hm
      · exact (ih hg.2).mp hr x hx
    · intro h
      rw [runOr, h m (by simp)]
      exact (ih hg.2).mpr (fun x hx => h x (List.mem_cons_of_mem _ hx))

/-! ## The loop of `Group.serve` -/

variable (rt : RTab) (g : Group) (req : Req)

/-- The not-found outcome of a group on `path`. -/
def Group.notFoundCall (g : Group) (path : Bytes) : ServeRes :=
  .call { handler := g.notFound, node := none, ok := false, params := [], routerName := [],
          respHeaders := [], headWrap := false, path := path, recover := g.recover, recActs := g.recActs }

theorem go_nil (path : Bytes) : Group.serve.go env tab rt g req [] path = g.notFoundCall path := by
  rw [Group.serve.go]; rfl

theorem go_cons_reject (rid : Nat) (m : Matcher) (rest : List (Nat × Matcher)) (path p : Bytes) (ps : Params)
    (h : m.run env tab req path [] = .reject p ps) :
    Group.serve.go env tab rt g req ((rid, m) :: rest) path = Group.serve.go env tab rt g req rest path := by
  have hp := run_reject_path env tab m req path [] p ps h
  subst hp
  rw [Group.serve.go, h]

theorem go_cons_accept (rid : Nat) (m : Matcher) (rest : List (Nat × Matcher)) (path p : Bytes) (ps : Params)
    (h : m.run env tab req path [] = .accept p ps) :
    Group.serve.go env tab rt g req ((rid, m) :: rest) path =
      match rt.get? rid with
      | some r => r.serveContext env { req with path := p } ps
      | none => .fault 320 false := by
  rw [Group.serve.go, h]
  cases rt.get? rid <;> rfl

theorem go_cons_fault (rid : Nat) (m : Matcher) (rest : List (Nat × Matcher)) (path : Bytes) (s : Nat)
    (h : m.run env tab req path [] = .fault s) :
    Group.serve.go env tab rt g req ((rid, m) :: rest) path = .fault s false := by
  rw [Group.serve.go, h]

theorem go_cons_unsupported (rid : Nat) (m : Matcher) (rest : List (Nat × Matcher)) (path : Bytes)
    (h : m.run env tab req path [] = .unsupported) :
    Group.serve.go env tab rt g req ((rid, m) :: rest) path = .unsupported := by
  rw [Group.serve.go, h]

/-- Rejecting entries are skipped and the entries after them see the original path (and empty parameters). -/
theorem go_append_reject (pre rest : List (Nat × Matcher)) (path : Bytes)
    (hpre : ∀ e ∈ pre, ∃ p ps, e.2.run env tab req path [] = .reject p ps) :
    Group.serve.go env tab rt g req (pre ++ rest) path = Group.serve.go env tab rt g req rest path := by
  induction pre with
  | nil => rfl
  | cons e pre ih =>
    obtain ⟨rid, m⟩ := e
    obtain ⟨p, ps, h⟩ := hpre (rid, m) (by simp)
    rw [List.cons_append, go_cons_reject env tab rt g req rid m _ path p ps h]
    exact ih (fun e he => hpre e (List.mem_cons_of_mem _ he))

end

/-! ## Router table and names -/

theorem RTab.get?_cons (e : Nat × Router) (rt : RTab) (id : Nat) :
    RTab.get? (e :: rt) id = if e.1 = id then some e.2 else RTab.get? rt id := by
  unfold RTab.get?
  by_cases h : e.1 = id <;> simp [h]

theorem RTab.any_eq_isSome (rt : RTab) (id : Nat) : rt.any (·.1 = id) = (rt.get? id).isSome := by
  induction rt with
  | nil => rfl
  | cons e rt ih =>
    rw [RTab.get?_cons, List.any_cons, ih]
    by_cases h : e.1 = id <;> simp [h]

theorem RTab.get?_set (rt : RTab) (rid id : Nat) (r : Router) :
    (rt.set rid r).get? id = if id = rid then some r else rt.get? id := by
  unfold RTab.set
  by_cases hc : rt.any (·.1 = rid) = true
  · rw [if_pos hc]
    induction rt with
    | nil => simp at hc
    | cons e rt ih =>
      rw [List.map_cons, RTab.get?_cons, RTab.get?_cons]
      by_cases h1 : e.1 = rid
      · by_cases h2 : id = rid
        · subst h2; simp [h1]
        · have h3 : ¬ rid = id := fun h => h2 h.symm
          simp only [h1, if_true, h3, if_false, h2]
          by_cases hc' : rt.any (·.1 = rid) = true
          · rw [ih hc', if_neg h2]
          · -- no further entry with that id: the map is the identity
            have : rt.map (fun e => if e.1 = rid then (rid, r) else e) = rt := by
              rw [List.map_congr_left (g := _root_.id), List.map_id]
              intro x hx
              have : ¬ x.1 = rid := by
                intro hx1; apply hc'; rw [List.any_eq_true]; exact ⟨x, hx, by simp [hx1]⟩
              simp [this]
            rw [this]
      · have hc' : rt.any (·.1 = rid) = true := by
          rw [List.any_cons] at hc; simpa [h1] using hc
        simp only [h1, if_false]
        rw [ih hc']
        by_cases h2 : id = rid
        · subst h2; simp [h1]
        · simp [h2]
  · rw [if_neg hc]
    have hn : rt.get? rid = none := by
      rw [RTab.any_eq_isSome] at hc
      cases h : rt.get? rid <;> simp_all
    induction rt with
    | nil =>
      by_cases h2 : id = rid
      · subst h2; simp [RTab.get?]
      · have h3 : ¬ rid = id := fun h => h2 h.symm
        simp [RTab.get?, h2, h3]
    | cons e rt ih =>
      rw [RTab.get?_cons] at hn
      by_cases h1 : e.1 = rid
      · simp [h1] at hn
      · simp only [h1, if_false] at hn
        have hc' : ¬ rt.any (·.1 = rid) = true := by
          rw [RTab.any_eq_isSome, hn]; simp
        rw [List.cons_append, RTab.get?_cons, RTab.get?_cons, ih hc' hn]
        by_cases h2 : id = rid
        · subst h2; simp [h1]
        · simp [h2]

/-- The name under which router `id` is known, if it is in the table. -/
def RTab.nameOf (rt : RTab) (id : Nat) : Option Bytes := (rt.get? id).map (·.tree.name)

theorem Group.names_eq (g : Group) (rt : RTab) : g.names rt = g.routers.filterMap (fun e => rt.nameOf e.1) := rfl

@[simp] theorem Router.use_name (r : Router) (m : List Nat) : (r.use m).tree.name = r.tree.name := rfl

/-- Replacing a router by `r.use ms` does not change any name. -/
theorem RTab.nameOf_set_use (rt : RTab) (rid : Nat) (r : Router) (ms : List Nat) (h : rt.get? rid = some r) (id : Nat) :
    (rt.set rid (r.use ms)).nameOf id = rt.nameOf id := by
  unfold RTab.nameOf
  rw [RTab.get?_set]
  by_cases h2 : id = rid
  · subst h2; simp [h]
  · simp [h2]

theorem names_congr (routers : List (Nat × Matcher)) (rt rt' : RTab) (h : ∀ id, rt'.nameOf id = rt.nameOf id) :
    routers.filterMap (fun e => rt'.nameOf e.1) = routers.filterMap (fun e => rt.nameOf e.1) := by
  congr 1; funext e; exact h e.1

/-! ## `Group.add` -/

theorem Group.add_eq_none_of_missing (g : Group) (rt : RTab) (m : Matcher) (rid : Nat) (h : rt.get? rid = none) :
    g.add rt m rid = none := by
  unfold Group.add; rw [h]

theorem Group.add_eq_none_of_dup (g : Group) (rt : RTab) (m : Matcher) (rid : Nat) (r : Router)
    (h : rt.get? rid = some r) (hd : r.tree.name ∈ g.names rt) : g.add rt m rid = none := by
  unfold Group.add; rw [h]
  simp [hd]

theorem Group.add_eq_some (g : Group) (rt : RTab) (m : Matcher) (rid : Nat) (r : Router)
    (h : rt.get? rid = some r) (hd : r.tree.name ∉ g.names rt) :
    g.add rt m rid = some ({ g with routers := g.routers ++ [(rid, m)] }, rt.set rid (r.use g.ms)) := by
  unfold Group.add; rw [h]
  simp [hd]

theorem Group.add_some_inv (g : Group) (rt : RTab) (m : Matcher) (rid : Nat) (g' : Group) (rt' : RTab)
    (h : g.add rt m rid = some (g', rt')) :
    ∃ r, rt.get? rid = some r ∧ r.tree.name ∉ g.names rt ∧
      g' = { g with routers := g.routers ++ [(rid, m)] } ∧ rt' = rt.set rid (r.use g.ms) := by
  cases hr : rt.get? rid with
  | none => rw [Group.add_eq_none_of_missing g rt m rid hr] at h; cases h
  | some r =>
    by_cases hd : r.tree.name ∈ g.names rt
    · rw [Group.add_eq_none_of_dup g rt m rid r hr hd] at h; cases h
    · rw [Group.add_eq_some g rt m rid r hr hd] at h
      simp only [Option.some.injEq, Prod.mk.injEq] at h
      exact ⟨r, rfl, hd, h.1.symm, h.2.symm⟩

theorem Group.names_add (g : Group) (rt : RTab) (m : Matcher) (rid : Nat) (r : Router) (h : rt.get? rid = some r) :
    Group.names { g with routers := g.routers ++ [(rid, m)] } (rt.set rid (r.use g.ms)) =
      g.names rt ++ [r.tree.name] := by
  rw [Group.names_eq, Group.names_eq]
  rw [names_congr _ rt _ (RTab.nameOf_set_use rt rid r g.ms h)]
  rw [List.filterMap_append]
  simp [RTab.nameOf, h]

/-! ## `Group.use` -/

theorem use_fold_nameOf (m : List Nat) (routers : List (Nat × Matcher)) (rt : RTab) (id : Nat) :
    (routers.foldl (fun rt e =>
        match rt.get? e.1 with
        | some r => rt.set e.1 (r.use m)
        | none => rt) rt).nameOf id = rt.nameOf id := by
  induction routers generalizing rt with
  | nil => rfl
  | cons e routers ih =>
    rw [List.foldl_cons, ih]
    cases h : rt.get? e.1 with
    | none => rfl
    | some r => exact RTab.nameOf_set_use rt e.1 r m h id

theorem Group.names_use (g : Group) (rt : RTab) (m : List Nat) :
    (g.use rt m).1.names (g.use rt m).2 = g.names rt := by
  rw [Group.names_eq, Group.names_eq]
  exact names_congr _ rt _ (use_fold_nameOf m g.routers rt)

/-! ## `Group.remove` -/

theorem Group.remove_routers (g : Group) (rt : RTab) (name : Bytes) :
    (g.remove rt name).routers = g.routers.filter (fun e => decide (rt.nameOf e.1 ≠ some name)) := by
  unfold Group.remove
  simp only
  congr 1; funext e
  unfold RTab.nameOf
  cases rt.get? e.1 <;> simp

theorem Group.names_remove (g : Group) (rt : RTab) (name : Bytes) :
    (g.remove rt name).names rt = (g.names rt).filter (· ≠ name) := by
  rw [Group.names_eq, Group.remove_routers, Group.names_eq]
  induction g.routers with
  | nil => rfl
  | cons e l ih =>
    cases hn : rt.nameOf e.1 with
    | none => simp at ih; simp [hn, ih]
    | some n =>
      by_cases h : n = name
      · subst h; simp at ih; simp [hn, ih]
      · simp at ih; simp [hn, ih, h]

end Mux
