/-
  Mux.Proofs.TableFrame — C03_frame for trees without first-byte indexes: removing the methods of a
  node (and pruning the emptied leaf chain) does not change the answer of the matcher for a request
  that was dispatched to a node with another pattern, nor turns a miss into a hit.
-/
import Mux.Proofs.Table
import Mux.Proofs.Priority
namespace Mux.P11
open Mux

/-- No first-byte index at this node, now and after a child is deleted. -/
def NoIdx (n : Node) : Prop := n.indexes = [] ∧ n.children.length < indexesSize

/-- What the frame property needs of the function applied at the end of the path. -/
structure FrameF (f : Node → Node) : Prop where
  seg : ∀ m, (f m).seg = m.seg
  pat : ∀ m, (f m).pattern = m.pattern
  children : ∀ m, (f m).children = m.children
  indexes : ∀ m, (f m).indexes = m.indexes
  empty : ∀ m, m.handlers = [] → (f m).handlers = []

theorem removeMethods_frameF (ht : Bool) (methods : List Bytes) : FrameF (removeMethods ht methods) := by
  refine ⟨?_, ?_, ?_, ?_, ?_⟩ <;> intro m
  · simp [removeMethods, Node.setHandlers]
  · simp [removeMethods, Node.setHandlers]
  · simp [removeMethods, Node.setHandlers]
  · simp [removeMethods, Node.setHandlers]
  · intro h
    rw [removeMethods_handlers, h]
    have : ∀ ms : List Bytes, ms.foldl rmStep ([] : AMap Handler) = [] := by
      intro ms
      induction ms with
      | nil => rfl
      | cons a ms ih =>
        simp only [List.foldl_cons]
        have : rmStep ([] : AMap Handler) a = [] := by
          unfold rmStep
          split
          · rfl
          · split <;> rfl
        rw [this, ih]
    rw [this]; simp

/-- The two results agree for a request that was not dispatched to a pattern in `E` (the patterns
touched by the operation). -/
def FrameP (E : Bytes → Prop) (r r' : MR) : Prop :=
  match r with
  | .hit q ps1 => ¬ E q.pattern → ∃ q', r' = .hit q' ps1 ∧ q'.pattern = q.pattern ∧ q'.handlers = q.handlers
  | .miss ps1 => r' = .miss ps1
  | _ => True

/-- … for a request that was not dispatched to pattern `xp`. -/
abbrev FrameMR (xp : Bytes) (r r' : MR) : Prop := FrameP (fun pt => pt = xp) r r'

theorem FrameP.refl (E : Bytes → Prop) (r : MR) : FrameP E r r := by
  cases r with
  | hit q ps1 => exact fun _ => ⟨q, rfl, rfl, rfl⟩
  | miss ps1 => exact rfl
  | fault s => trivial
  | unsupported => trivial

theorem FrameMR.refl (xp : Bytes) (r : MR) : FrameMR xp r r := by
  cases r with
  | hit q ps1 => exact fun _ => ⟨q, rfl, rfl, rfl⟩
  | miss ps1 => exact rfl
  | fault s => trivial
  | unsupported => trivial

theorem mc_noidx (env : Env) (ic : Interceptors) (n : Node) (h : n.indexes = []) (rp : Bytes) (ps : Params) :
    n.matchChildren env ic rp ps =
      match matchFrom env ic n.children 0 rp ps with
      | .miss ps2 => if rp.isEmpty ∧ n.handlers.length > 0 then .hit n ps2 else .miss ps2
      | r => r := by
  cases n with
  | mk s p mi hs idx cs =>
    simp only [Node.indexes_mk] at h
    subst h
    rw [Node.matchChildren_eq]
    rfl

theorem buildIndexes_small {cs : List Node} (h : cs.length < indexesSize) : buildIndexes cs = .ok [] := by
  unfold buildIndexes; simp [h]

/-- Structural facts about `removeAt` on a node without index. -/
theorem removeAt_fields (f : Node → Node) (hf : FrameF f) (path : List Nat) (n n' : Node) (hn : NoIdx n)
    (h : n.removeAt f path = .ok n') (hlen : ∀ cs' d i p, removeAtL f n.children i p = .ok (cs', d) → cs'.length ≤ n.children.length) :
    n'.seg = n.seg ∧ n'.pattern = n.pattern ∧ n'.indexes = [] ∧ (path ≠ [] → n'.handlers = n.handlers) := by
  cases path with
  | nil =>
    have h' : f n = n' := by cases n; simpa [Node.removeAt] using h
    subst h'
    exact ⟨hf.seg n, hf.pat n, by rw [hf.indexes]; exact hn.1, fun h => absurd rfl h⟩
  | cons i path =>
    cases n with
    | mk s p mi hs idx cs =>
      simp only [Node.removeAt, bind, Except.bind, pure, Except.pure] at h
      split at h
      · cases h
      rename_i r hr
      have hl := hlen r.1 r.2 i path hr
      simp only [Node.children_mk] at hl
      have hsmall : r.1.length < indexesSize := Nat.lt_of_le_of_lt hl hn.2
      split at h
      · rw [buildIndexes_small hsmall] at h
        simp only [Except.ok.injEq] at h
        subst h
        exact ⟨rfl, rfl, rfl, fun _ => rfl⟩
      · simp only [Except.ok.injEq] at h
        subst h
        exact ⟨rfl, rfl, hn.1, fun _ => rfl⟩

theorem removeAtL_length (f : Node → Node) (path : List Nat) :
    ∀ (cs cs' : List Node) (d : Bool) (k : Nat), removeAtL f cs k path = .ok (cs', d) → cs'.length ≤ cs.length := by
  intro cs
  induction cs with
  | nil => intro cs' d k h; simp [removeAtL] at h
  | cons c cs ih =>
    intro cs' d k h
    cases k with
    | zero =>
      simp only [removeAtL, bind, Except.bind, pure, Except.pure] at h
      split at h
      · cases h
      split at h <;> (simp only [Except.ok.injEq, Prod.mk.injEq] at h; obtain ⟨rfl, rfl⟩ := h; simp)
    | succ k =>
      simp only [removeAtL, bind, Except.bind, pure, Except.pure] at h
      split at h
      · cases h
      rename_i r hr
      simp only [Except.ok.injEq, Prod.mk.injEq] at h
      obtain ⟨rfl, rfl⟩ := h
      have := ih r.1 r.2 k hr
      simp; omega

/-- An emptied leaf without index misses every request. -/
theorem mc_empty_leaf (env : Env) (ic : Interceptors) (c : Node) (hi : c.indexes = [])
    (hs : c.size = 0) (hc : c.children.isEmpty = true) (rp : Bytes) (ps : Params) :
    c.matchChildren env ic rp ps = .miss ps := by
  rw [mc_noidx env ic c hi]
  have hcs : c.children = [] := by simpa using hc
  have hh : c.handlers.length = 0 := hs
  rw [hcs, matchFrom]
  simp [hh]

theorem allNoIdx_idxLit {n : Node} (h : Node.All NoIdx n) : Node.All IdxLit n :=
  (AllL_mono (fun _ hm => IdxLit.of_nil hm.1)).1 n h

theorem allNoIdxL_idxLit {cs : List Node} (h : AllL NoIdx cs) : AllL IdxLit cs :=
  (AllL_mono (fun _ hm => IdxLit.of_nil hm.1)).2 cs h

/-- The frame property of `removeAt` for the matcher. -/
theorem frame_removeAt (env : Env) (ic : Interceptors) (f : Node → Node) (hf : FrameF f) :
    ∀ (path : List Nat) (n n' x : Node), Node.All NoIdx n → n.getAt path = some x →
      n.removeAt f path = .ok n' → ∀ (rp : Bytes) (ps : Params) (used : List Bytes),
      Node.NamesOk used n → (∀ k ∈ ps.keys, k ∈ used) →
      FrameMR x.pattern (n.matchChildren env ic rp ps) (n'.matchChildren env ic rp ps) := by
  intro path
  induction path with
  | nil =>
    intro n n' x hn hx h rp ps used _ _
    simp only [Node.getAt_nil, Option.some.injEq] at hx
    subst hx
    have h' : f n = n' := by cases n; simpa [Node.removeAt] using h
    subst h'
    rw [mc_noidx env ic n hn.head.1, mc_noidx env ic (f n) (by rw [hf.indexes]; exact hn.head.1), hf.children]
    cases hr : matchFrom env ic n.children 0 rp ps with
    | hit q ps1 => exact fun _ => ⟨q, rfl, rfl, rfl⟩
    | fault s => trivial
    | unsupported => trivial
    | miss ps2 =>
      simp only
      by_cases hc : rp.isEmpty = true ∧ n.handlers.length > 0
      · simp only [hc, and_self, if_true]
        exact fun hne => absurd rfl hne
      · simp only [hc, if_false]
        have hc' : ¬ (rp.isEmpty = true ∧ (f n).handlers.length > 0) := by
          rintro ⟨h1, h2⟩
          apply hc
          refine ⟨h1, ?_⟩
          cases hh : n.handlers with
          | nil => rw [hf.empty n hh] at h2; simp at h2
          | cons a l => simp
        simp only [hc', if_false]
        rfl
  | cons i path ih =>
    -- the list level
    have hL : ∀ (cs cs' : List Node) (d : Bool) (k : Nat) (x : Node), AllL NoIdx cs →
        getAtL cs k path = some x → removeAtL f cs k path = .ok (cs', d) →
        ∀ (rp : Bytes) (ps : Params) (used : List Bytes), NamesOkL used cs → (∀ k ∈ ps.keys, k ∈ used) →
        FrameMR x.pattern (matchFrom env ic cs 0 rp ps) (matchFrom env ic cs' 0 rp ps) := by
      intro cs
      induction cs with
      | nil => intro cs' d k x _ hx; simp [getAtL] at hx
      | cons c cs ihc =>
        intro cs' d k x hall hx h rp ps used hnames hkeys
        rw [AllL_cons_iff] at hall
        have htrack : TrackL used (c :: cs) ps :=
          ⟨hnames, AllL_cons_iff.2 ⟨allNoIdx_idxLit hall.1, allNoIdxL_idxLit hall.2⟩, hkeys⟩
        cases k with
        | succ k =>
          rw [getAtL_cons_succ] at hx
          simp only [removeAtL, bind, Except.bind, pure, Except.pure] at h
          split at h
          · cases h
          rename_i r hr
          simp only [Except.ok.injEq, Prod.mk.injEq] at h
          obtain ⟨rfl, rfl⟩ := h
          rw [matchFrom_cons_zero, matchFrom_cons_zero]
          cases ht : tryChild env ic c rp ps with
          | miss ps' =>
            have e := tryChild_miss List.mem_cons_self htrack ht
            subst e
            exact ihc r.1 r.2 k x hall.2 hx hr rp ps' used hnames.2.2 hkeys
          | hit q ps1 => exact fun _ => ⟨q, rfl, rfl, rfl⟩
          | fault s => trivial
          | unsupported => trivial
        | zero =>
          rw [getAtL_cons_zero] at hx
          simp only [removeAtL, bind, Except.bind, pure, Except.pure] at h
          split at h
          · cases h
          rename_i c' hc'
          obtain ⟨hseg, _, hidx, _⟩ := removeAt_fields f hf path c c' hall.1.head hc'
            (fun cs' d i p hr => removeAtL_length f p _ cs' d i hr)
          obtain ⟨hfresh, hok⟩ := NamesOkL_mem hnames (c := c) List.mem_cons_self
          -- what the child does, before and after
          have hchild : ∀ cap rs, FrameMR x.pattern (c.matchChildren env ic rs (c.seg.record cap ps))
              (c'.matchChildren env ic rs (c.seg.record cap ps)) := by
            intro cap rs
            obtain ⟨_, r2, _⟩ := record_spec (s := c.seg) cap hfresh hkeys
            exact ih c c' x hall.1 hx hc' rs _ _ hok r2
          rw [matchFrom_cons_zero]
          split at h
          · -- the emptied leaf is deleted
            rename_i hempty
            simp only [Except.ok.injEq, Prod.mk.injEq] at h
            obtain ⟨rfl, rfl⟩ := h
            have hleaf := mc_empty_leaf env ic c' hidx hempty.1 hempty.2
            unfold tryChild
            cases hm : c.seg.match env ic rp with
            | no => exact FrameMR.refl _ _
            | unsupported => trivial
            | yes cap rs =>
              simp only
              have hch := hchild cap rs
              rw [hleaf] at hch
              cases hr : c.matchChildren env ic rs (c.seg.record cap ps) with
              | hit q ps1 =>
                rw [hr] at hch
                intro hne
                obtain ⟨q', e, _⟩ := hch hne
                cases e
              | miss ps2 =>
                simp only
                have ht : tryChild env ic c rp ps = .miss (restoreParam ps ps2 c.seg.name) := by
                  unfold tryChild; rw [hm]; simp only [hr]
                rw [tryChild_miss List.mem_cons_self htrack ht]
                exact FrameMR.refl _ _
              | fault s => trivial
              | unsupported => trivial
          · simp only [Except.ok.injEq, Prod.mk.injEq] at h
            obtain ⟨rfl, rfl⟩ := h
            rw [matchFrom_cons_zero]
            unfold tryChild
            rw [hseg]
            cases hm : c.seg.match env ic rp with
            | no => exact FrameMR.refl _ _
            | unsupported => trivial
            | yes cap rs =>
              simp only
              have hch := hchild cap rs
              cases hr : c.matchChildren env ic rs (c.seg.record cap ps) with
              | hit q ps1 =>
                rw [hr] at hch
                intro hne
                obtain ⟨q', e, h1, h2⟩ := hch hne
                rw [e]
                exact ⟨q', rfl, h1, h2⟩
              | miss ps2 =>
                rw [hr] at hch
                rw [hch]
                exact FrameMR.refl _ _
              | fault s => trivial
              | unsupported => trivial
    intro n n' x hn hx h rp ps used hnames hkeys
    obtain ⟨_, hpat, hidx, hhs⟩ := removeAt_fields f hf (i :: path) n n' hn.head h
      (fun cs' d i p hr => removeAtL_length f p _ cs' d i hr)
    have hhs' := hhs (by simp)
    rw [mc_noidx env ic n hn.head.1, mc_noidx env ic n' hidx, hhs']
    -- the children of `n'` come from `removeAtL`
    have hcs : ∃ d, removeAtL f n.children i path = .ok (n'.children, d) := by
      cases n with
      | mk s p mi hs idx cs =>
        simp only [Node.removeAt, bind, Except.bind, pure, Except.pure] at h
        split at h
        · cases h
        rename_i r hr
        split at h
        · split at h
          · cases h
          simp only [Except.ok.injEq] at h
          subst h
          exact ⟨r.2, hr⟩
        · simp only [Except.ok.injEq] at h
          subst h
          exact ⟨r.2, hr⟩
    obtain ⟨d, hrem⟩ := hcs
    have hx' : getAtL n.children i path = some x := by rw [← Node.getAt_cons']; exact hx
    have hfr := hL n.children n'.children d i x hn.tail hx' hrem rp ps used
      ((Node.namesOk_iff used n).1 hnames) hkeys
    cases hr : matchFrom env ic n.children 0 rp ps with
    | hit q ps1 =>
      rw [hr] at hfr
      intro hne
      obtain ⟨q', e, h1, h2⟩ := hfr hne
      rw [e]
      exact ⟨q', rfl, h1, h2⟩
    | miss ps2 =>
      rw [hr] at hfr
      rw [hfr]
      simp only
      split
      · exact fun _ => ⟨n', rfl, hpat, hhs'⟩
      · rfl
    | fault s => trivial
    | unsupported => trivial


/-! ## From the matcher to `Tree.handler` -/

theorem FrameP.trans {E : Bytes → Prop} {r r' r'' : MR} (h1 : FrameP E r r') (h2 : FrameP E r' r'') :
    FrameP E r r'' := by
  cases r with
  | hit q ps1 =>
    intro hne
    obtain ⟨q', e, hp, hh⟩ := h1 hne
    subst e
    obtain ⟨q'', e', hp', hh'⟩ := h2 (by rw [hp]; exact hne)
    exact ⟨q'', e', hp'.trans hp, hh'.trans hh⟩
  | miss ps1 =>
    have e : r' = .miss ps1 := h1
    subst e
    exact h2
  | fault s => trivial
  | unsupported => trivial

/-- Changing only the method index of a node without index does not change what it matches. -/
theorem frame_setMi (env : Env) (ic : Interceptors) (E : Bytes → Prop) (n : Node) (hn : n.indexes = []) (mi : Nat)
    (rp : Bytes) (ps : Params) :
    FrameP E (n.matchChildren env ic rp ps) ((n.setHandlers n.handlers mi).matchChildren env ic rp ps) := by
  rw [mc_noidx env ic n hn, mc_noidx env ic _ (by simpa [Node.setHandlers] using hn)]
  simp only [Node.setHandlers, Node.children_mk, Node.handlers_mk]
  cases matchFrom env ic n.children 0 rp ps with
  | hit q ps1 => exact fun _ => ⟨q, rfl, rfl, rfl⟩
  | miss ps2 =>
    simp only
    by_cases hc : rp.isEmpty = true ∧ n.handlers.length > 0
    · simp only [hc, and_self, if_true]
      exact fun _ => ⟨_, rfl, rfl, rfl⟩
    · simp only [hc, if_false]
      rfl
  | fault s => trivial
  | unsupported => trivial

/-- What the frame property says about two answers of `Tree.handler`. -/
def SameAnswer (f f' : Found) : Prop :=
  f'.handler = f.handler ∧ f'.ok = f.ok ∧ f'.params = f.params ∧
    ∀ q, f.node = some q → ∃ q', f'.node = some q' ∧ q'.pattern = q.pattern ∧ q'.handlers = q.handlers

theorem handlerNoTrace_frame {env : Env} {t t' : Tree} {E : Bytes → Prop} {rp method : Bytes} {ps : Params}
    {f : Found} {q : Node}
    (hfr : FrameP E (t.matched env rp ps) (t'.matched env rp ps))
    (hres : Tree.handler.Tree.handlerNoTrace env t rp ps method = .res f) (hq : f.node = some q)
    (hne : ¬ E q.pattern) :
    ∃ f', Tree.handler.Tree.handlerNoTrace env t' rp ps method = .res f' ∧ SameAnswer f f' := by
  rw [handlerNoTrace_eq] at hres ⊢
  cases hm : t.matched env rp ps with
  | fault s => rw [hm] at hres; cases hres
  | unsupported => rw [hm] at hres; cases hres
  | miss ps' =>
    rw [hm] at hres
    simp only [HR.res.injEq] at hres
    subst hres; cases hq
  | hit n ps' =>
    rw [hm] at hres hfr
    simp only at hres
    by_cases hsz : n.size = 0
    · simp only [hsz, if_true, HR.res.injEq] at hres
      subst hres; cases hq
    · simp only [hsz, if_false] at hres
      have hqn : q = n := by
        split at hres
        · simp only [HR.res.injEq] at hres; subst hres; simpa using hq.symm
        · split at hres <;> (simp only [HR.res.injEq] at hres; subst hres; simpa using hq.symm)
      subst hqn
      obtain ⟨q', e, hp, hh⟩ := hfr hne
      rw [e]
      have hsz' : ¬ q'.size = 0 := by unfold Node.size at hsz ⊢; rw [hh]; exact hsz
      simp only [hsz', if_false, hh]
      have hnode : ∀ q0, some q = some q0 → ∃ q'', some q' = some q'' ∧ q''.pattern = q0.pattern ∧
          q''.handlers = q0.handlers := fun q0 h0 => ⟨q', rfl, by cases h0; exact hp, by cases h0; exact hh⟩
      generalize (if method = mNotAllowed then none else q.handlers.get? method) = A at hres ⊢
      generalize q.handlers.get? mNotAllowed = B at hres ⊢
      cases A with
      | some hd =>
        simp only [HR.res.injEq] at hres
        subst hres
        exact ⟨_, rfl, rfl, rfl, rfl, hnode⟩
      | none =>
        cases B with
        | some hd =>
          simp only [HR.res.injEq] at hres
          subst hres
          exact ⟨_, rfl, rfl, rfl, rfl, hnode⟩
        | none =>
          simp only [HR.res.injEq] at hres
          subst hres
          exact ⟨_, rfl, rfl, rfl, rfl, hnode⟩

/-- From the matcher to `Tree.handler`, for any two trees with the same configuration. -/
theorem handler_frame {env : Env} {t t1 : Tree} {E : Bytes → Prop} {rp method : Bytes} {f : Found} {q : Node}
    (htr : t1.trace = t.trace)
    (hfr : FrameP E (t.matched env rp []) (t1.matched env rp []))
    (hp : t1.root.pattern = t.root.pattern) (hh : t1.root.handlers = t.root.handlers)
    (hres : t.handler env rp [] method = .res f) (hq : f.node = some q) (hne : ¬ E q.pattern) :
    ∃ f', t1.handler env rp [] method = .res f' ∧ SameAnswer f f' := by
  unfold Tree.handler at hres ⊢
  rw [htr]
  cases ht : t.trace with
  | none =>
    rw [ht] at hres
    simp only at hres ⊢
    exact handlerNoTrace_frame hfr hres hq hne
  | some h =>
    rw [ht] at hres
    simp only at hres ⊢
    by_cases hm : method = mTRACE
    · simp only [hm, if_true, HR.res.injEq] at hres ⊢
      subst hres
      refine ⟨_, rfl, rfl, rfl, rfl, fun q0 h0 => ⟨_, rfl, ?_, ?_⟩⟩
      · cases h0; exact hp
      · cases h0; exact hh
    · simp only [hm, if_false] at hres ⊢
      exact handlerNoTrace_frame hfr hres hq hne

/-- `C03_frame` for `Remove` on a tree without first-byte indexes whose parameter names are tracked. -/
theorem frame_remove {t t' : Tree} (hinv : TInv t) (hno : Node.All NoIdx t.root)
    (hnames : NamesOkL [] t.root.children) {p : Bytes} {methods : List Bytes}
    (he : t.remove p methods = .ok t') {env : Env} {rp method : Bytes} {f : Found} {q : Node}
    (hres : t.handler env rp [] method = .res f) (hq : f.node = some q) (hne : q.pattern ≠ p) :
    ∃ f', t'.handler env rp [] method = .res f' ∧ SameAnswer f f' := by
  rcases remove_inv he with ⟨rfl, _⟩ | ⟨path, root1, hpath, hrem, rfl⟩
  · exact ⟨f, hres, rfl, rfl, rfl, fun q0 h0 => ⟨q0, h0, rfl, rfl⟩⟩
  · obtain ⟨x, hx, hxp, hpne⟩ := findPath_sound t.ic t.root hinv.sh p path hpath
    rw [hinv.rootPat, List.nil_append] at hxp
    obtain ⟨_, hpat1, hidx1, hhs1⟩ := removeAt_fields _ (removeMethods_frameF t.hasTrace methods) path t.root root1
      hno.head hrem (fun cs' d i p hr => removeAtL_length _ p _ cs' d i hr)
    have hhs1' := hhs1 hpne
    refine handler_frame (t := t) (E := fun pt => pt = p) rfl ?_ ?_ ?_ hres hq hne
    · unfold Tree.matched
      by_cases hsp : rp = [42] ∨ rp = []
      · simp only [hsp, if_true]
        intro _
        exact ⟨_, rfl, by simp [Tree.recount, Node.setHandlers, hpat1], by simp [Tree.recount, Node.setHandlers, hhs1']⟩
      · simp only [hsp, if_false]
        have h1 := frame_removeAt env t.ic _ (removeMethods_frameF t.hasTrace methods) path t.root root1 x hno hx
          hrem rp [] [] ((Node.namesOk_iff [] t.root).2 hnames) (by simp [AMap.keys])
        rw [hxp] at h1
        exact h1.trans (frame_setMi env t.ic _ root1 hidx1 _ rp [])
    · simp [Tree.recount, Node.setHandlers, hpat1]
    · simp [Tree.recount, Node.setHandlers, hhs1']

end Mux.P11
