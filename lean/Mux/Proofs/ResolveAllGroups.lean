/-
  Mux.Proofs.ResolveAllGroups — C02 for histories with `Remove`/`Clean`, static part: in ANY tree with
  the shape invariant `Sh` (canonical or not) the groups the reference resolver forms from the
  remainders below a node are in one-to-one correspondence with the children that have a live route
  below them; the group of the child `c` consumes `c`'s text followed by `ext c`, the literal text
  common to all live routes below `c` (empty in a canonical tree; the text of the handler-less
  literal chain below `c` after a `Remove`).

  `tryGroup_child`: when `ext c` is empty for every parameter child (`Good`), trying the group of `c`
  is: match `c`'s own segment, then resolve the remainders below `c`.
-/
import Mux.Proofs.ResolveAllLit
namespace Mux.P16
open Mux Mux.Spec Mux.P15

/-- The literal text common to all live routes below `c` (relative to `c`). -/
def ext (c : Node) : Bytes := lcp ((rems c).map (fun r => leadLit r.1))

/-- The hypotheses on a node: a parameter node is not followed by a literal text common to all live
routes below it, and the text of the group of a literal node is not too long for `NewSegment`. -/
def Good (c : Node) : Prop :=
  (c.seg.kind ≠ .str → ext c = []) ∧ (ext c ≠ [] → (c.seg.value ++ ext c).length ≤ maxInt16)

/-- The fuel with which the remainders below `c` are resolved when the parent has `f + 1`. -/
def fuelOf (c : Node) (f : Nat) : Nat := if ext c = [] then f else f + 1

theorem mem_groups_iff {R : List Rem} {g : RGroup} :
    g ∈ groups R ↔ ∃ r ∈ R, ∃ k, keyOf r.1 = some k ∧ g = mkGroup R k := by
  unfold groups
  rw [List.mem_map]
  constructor
  · rintro ⟨k, hk, rfl⟩
    rw [mem_dedup] at hk
    obtain ⟨r, hr, e⟩ := List.mem_filterMap.1 hk
    exact ⟨r, hr, k, e, rfl⟩
  · rintro ⟨r, hr, k, e, rfl⟩
    exact ⟨k, mem_dedup.2 (List.mem_filterMap.2 ⟨r, hr, e⟩), rfl⟩

/-! ## One child -/

section Child
variable {ic : Interceptors} {pp : Bytes} {c : Node} (hc : P11.ChildOk ic pp c)
  {tok suf : Bytes} (F : ValForm c.seg.value tok suf)
include hc F

theorem block_filter_self : (block c).filter (fun r => keyOf r.1 = some (tok, suf.head?)) = block c := by
  rw [List.filter_eq_self]
  intro r hr
  simpa using block_key hc F r hr

theorem block_filter_other {k : Key} (hk : k ≠ (tok, suf.head?)) :
    (block c).filter (fun r => keyOf r.1 = some k) = [] := by
  rw [List.filter_eq_nil_iff]
  intro r hr
  rw [block_key hc F r hr]
  simpa using fun e : (tok, suf.head?) = k => hk e.symm

/-- The group the remainders of a child form: its text is the child's text followed by `ext c`. -/
theorem mkGroup_block (hne : rems c ≠ []) :
    mkGroup (block c) (tok, suf.head?) =
      { value := c.seg.value ++ ext c, members := (rems c).map (fun r => (r.1.drop (ext c).length, r.2)) } := by
  have hlits : (block c).map (fun r => litOf r.1) = ((rems c).map (fun r => leadLit r.1)).map (fun x => suf ++ x) := by
    unfold block
    rw [List.map_map, List.map_map]
    apply List.map_congr_left
    intro r _
    exact F.lit r.1
  have hne' : (rems c).map (fun r => leadLit r.1) ≠ [] := fun e => hne (List.map_eq_nil_iff.1 e)
  have hval : tok ++ lcp ((block c).map (fun r => litOf r.1)) = c.seg.value ++ ext c := by
    rw [hlits, lcp_map_append suf hne', ← List.append_assoc, ← F.eq]
    rfl
  unfold mkGroup
  simp only [block_filter_self hc F, hval]
  congr 1
  unfold block
  rw [List.map_map]
  apply List.map_congr_left
  intro r _
  simp only [Function.comp, List.length_append, Prod.mk.injEq, and_true]
  rw [← List.drop_drop, List.drop_left]

end Child

/-! ## The groups of a sibling list -/

theorem filter_remsL {ic : Interceptors} {pp : Bytes} : ∀ {cs : List Node}, P11.ShL ic pp cs → ∀ {c : Node}, c ∈ cs →
    ∀ {tok suf : Bytes}, ValForm c.seg.value tok suf →
    (remsL cs).filter (fun r => keyOf r.1 = some (tok, suf.head?)) = block c
  | [], _, _, hc, _, _, _ => by cases hc
  | d :: cs, hsh, c, hc, tok, suf, F => by
    obtain ⟨hdo, hkeys, hshcs⟩ := P11.ShL_cons.1 hsh
    rw [remsL_cons, List.filter_append]
    rcases List.mem_cons.1 hc with rfl | hc'
    · rw [block_filter_self hdo F]
      have : (remsL cs).filter (fun r => keyOf r.1 = some (tok, suf.head?)) = [] := by
        rw [List.filter_eq_nil_iff]
        intro r hr
        obtain ⟨d', hd', hb⟩ := mem_remsL.1 hr
        have hd'o := hshcs.1 d' hd'
        obtain ⟨tokd, sufd, Fd⟩ := valForm_of_wf hd'o.1
        rw [block_key hd'o Fd r hb]
        have := key_ne_of_vkey_ne Fd F (hkeys d' hd')
        simpa using this
      rw [this, List.append_nil]
    · obtain ⟨tokd, sufd, Fd⟩ := valForm_of_wf hdo.1
      rw [block_filter_other hdo Fd (key_ne_of_vkey_ne F Fd (hkeys c hc')), List.nil_append]
      exact filter_remsL hshcs hc' F

section Kids
variable {ic : Interceptors} {pp : Bytes} {cs : List Node} (hsh : P11.ShL ic pp cs)
include hsh

/-- A child with a live route below it has a group … -/
theorem group_of_child {c : Node} (hc : c ∈ cs) {tok suf : Bytes} (F : ValForm c.seg.value tok suf) (hne : rems c ≠ []) :
    mkGroup (block c) (tok, suf.head?) ∈ groups (remsL cs) := by
  have hco := hsh.1 c hc
  obtain ⟨r', hr'⟩ := List.exists_mem_of_ne_nil _ hne
  have hb : ((c.seg.value ++ r'.1, r'.2) : Rem) ∈ block c := List.mem_map.2 ⟨r', hr', rfl⟩
  refine mem_groups_iff.2 ⟨_, mem_remsL.2 ⟨c, hc, hb⟩, _, block_key hco F _ hb, ?_⟩
  apply mkGroup_congr
  rw [filter_remsL hsh hc F, block_filter_self hco F]

/-- … and every group is the group of such a child. -/
theorem child_of_group {g : RGroup} (hg : g ∈ groups (remsL cs)) :
    ∃ c ∈ cs, ∃ tok suf, ValForm c.seg.value tok suf ∧ rems c ≠ [] ∧ g = mkGroup (block c) (tok, suf.head?) := by
  obtain ⟨r, hr, k, hk, rfl⟩ := mem_groups_iff.1 hg
  obtain ⟨c, hc, hb⟩ := mem_remsL.1 hr
  have hco := hsh.1 c hc
  obtain ⟨tok, suf, F⟩ := valForm_of_wf hco.1
  have hk' := block_key hco F r hb
  rw [hk] at hk'
  cases hk'
  refine ⟨c, hc, tok, suf, F, ?_, ?_⟩
  · rintro e
    unfold block at hb
    rw [e] at hb
    cases hb
  · apply mkGroup_congr
    rw [filter_remsL hsh hc F, block_filter_self hco F]

end Kids

/-! ## Trying the group of a child -/

/-- In a tree of well-formed texts a literal node carries brace-free text. -/
theorem plain_of_str {ic : Interceptors} {pp : Bytes} {c : Node} (hc : P11.ChildOk ic pp c) (hk : c.seg.kind = .str) :
    startByte ∉ c.seg.value := by
  rcases hc.1 with ⟨_, hp⟩ | ⟨ia, sa, e, _, _⟩
  · exact hp.1
  · have := (P8.newSegment_lit_iff ic _ _ hc.2.1).1 hk
    rw [e] at this
    exact absurd ⟨by simp, by simp⟩ this

theorem maxLen_block_lt {c : Node} (hv : c.seg.value ≠ []) (hne : rems c ≠ []) : maxLen (rems c) < maxLen (block c) := by
  have h1 : ∀ r ∈ rems c, r.1.length + 1 ≤ maxLen (block c) := by
    intro r hr
    have : ((c.seg.value ++ r.1, r.2) : Rem) ∈ block c := List.mem_map.2 ⟨r, hr, rfl⟩
    have h := le_maxLen this
    simp only [List.length_append] at h
    have := List.length_pos_iff.2 hv
    omega
  obtain ⟨r0, hr0⟩ := List.exists_mem_of_ne_nil _ hne
  have := h1 r0 hr0
  have : maxLen (rems c) ≤ maxLen (block c) - 1 := maxLen_le (fun r hr => by have := h1 r hr; omega)
  omega

section Try
variable (env : Env) {ic : Interceptors} {pp : Bytes} {c : Node} (hc : P11.ChildOk ic pp c)
  {tok suf : Bytes} (F : ValForm c.seg.value tok suf) (hgood : Good c) (hne : rems c ≠ [])
include hc F hgood hne

/-- **Trying the group of `c`** = matching `c`'s own segment and resolving the remainders below `c`. -/
theorem tryGroup_child (f : Nat) (k : Kind) (path : Bytes) (ps : AMap Bytes) :
    tryGroup env ic (resolveFuel env ic f) k path ps (mkGroup (block c) (tok, suf.head?)) =
      if c.seg.kind = k then
        match c.seg.match env ic path with
        | .yes cap rest => resolveFuel env ic (fuelOf c f) (rems c) rest (addParam c.seg cap ps)
        | _ => []
      else [] := by
  rw [mkGroup_block hc F hne]
  by_cases he : ext c = []
  · have hmem : (rems c).map (fun r => ((r.1.drop 0, r.2) : Rem)) = rems c := by
      conv => rhs; rw [← List.map_id (rems c)]
      apply List.map_congr_left
      intro r _; rfl
    simp only [he, List.append_nil, List.length_nil, hmem, tryGroup, hc.2.1, fuelOf, if_true]
    by_cases hkk : c.seg.kind = k
    · simp only [if_pos hkk]
      cases c.seg.match env ic path <;> rfl
    · simp only [if_neg hkk]
  · have hk : c.seg.kind = .str := by
      by_cases h : c.seg.kind = .str
      · exact h
      · exact absurd (hgood.1 h) he
    have hv := plain_of_str hc hk
    have hstart : startByte ∉ c.seg.value ++ ext c := by
      rw [List.mem_append, not_or]
      exact ⟨hv, lit_start_not_mem (R := rems c) (e := ext c) rfl he⟩
    have hlen := hgood.2 he
    have hseg : newSegment ic (c.seg.value ++ ext c) = .ok { value := c.seg.value ++ ext c } :=
      P9.newSegment_noStart ic hstart hlen
    have hm : c.seg.match env ic path =
        if hasPrefix path c.seg.value then .yes [] (path.drop c.seg.value.length) else .no := by
      unfold Seg.match; rw [hk]
    have hm2 : ({ value := c.seg.value ++ ext c } : Seg).match env ic path =
        if hasPrefix path (c.seg.value ++ ext c) then .yes [] (path.drop (c.seg.value ++ ext c).length) else .no := rfl
    have hadd : ∀ cap, addParam c.seg cap ps = ps := by
      intro cap; unfold addParam; simp [hk]
    have hadd2 : ∀ cap, addParam ({ value := c.seg.value ++ ext c } : Seg) cap ps = ps := by
      intro cap; unfold addParam; simp
    have hlen' : (ext c).length ≤ maxInt16 := by
      simp only [List.length_append] at hlen; omega
    simp only [tryGroup, hseg, hm, hm2, hk, fuelOf, if_neg he]
    by_cases hkk : Kind.str = k
    · subst hkk
      simp only [if_true]
      rw [hasPrefix_append]
      by_cases h1 : hasPrefix path c.seg.value = true
      · simp only [h1, Bool.true_and, if_true, hadd]
        rw [resolveFuel_lit env ic (R := rems c) (e := ext c) rfl he hlen' f]
        by_cases h2 : hasPrefix (List.drop c.seg.value.length path) (ext c) = true
        · simp only [h2, if_true, hadd2, List.length_append, List.drop_drop]
        · simp only [h2]
          rfl
      · simp only [h1, Bool.false_and]
        rfl
    · simp only [if_neg hkk]
end Try

end Mux.P16
