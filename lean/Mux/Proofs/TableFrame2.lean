/-
  Mux.Proofs.TableFrame2 — C03_frame for `Clean` on trees without first-byte indexes: cleaning a prefix
  does not change the answer for a request dispatched to a node whose pattern does not have the prefix.
-/
import Mux.Proofs.TableFrame
namespace Mux.P11
open Mux

/-- A hit below a node extends the node's pattern. -/
theorem hit_prefix (env : Env) (ic ic' : Interceptors) {n q : Node} (hn : Node.All (Sh ic') n)
    (hno : Node.All NoIdx n) {rp : Bytes} {ps ps1 : Params}
    (h : n.matchChildren env ic rp ps = .hit q ps1) : n.pattern <+: q.pattern := by
  have hall : Node.All (fun m => IdxOk m ∧ n.pattern <+: m.pattern) n := by
    rw [(All_iff_nodes _).1]
    intro m hm
    refine ⟨?_, ?_⟩
    · have := ((All_iff_nodes _).1 n).1 hno m hm
      intro e he; rw [this.1] at he; cases he
    · rcases subtree_pattern hn hm with rfl | ⟨_, r, _, hr⟩
      · exact List.prefix_refl _
      · exact ⟨r, hr.symm⟩
  have := match_ok env ic _ n hall rp ps
  rw [h] at this
  exact this

theorem cleanL_length : ∀ (cs cs1 : List Node) (pre : Bytes), cleanL cs pre = .ok cs1 → cs1.length = cs.length := by
  intro cs
  induction cs with
  | nil => intro cs1 pre h; simp only [cleanL, Except.ok.injEq] at h; subst h; rfl
  | cons c cs ih =>
    intro cs1 pre h
    simp only [cleanL, bind, Except.bind, pure, Except.pure] at h
    by_cases hcond : c.seg.value.length < pre.length ∧ hasPrefix pre c.seg.value = true
    · simp only [hcond, and_self, if_true] at h
      split at h
      · cases h
      split at h
      · cases h
      rename_i cs2 hcs2
      simp only [Except.ok.injEq] at h
      subst h
      simp [ih cs2 pre hcs2]
    · simp only [hcond, if_false] at h
      split at h
      · cases h
      rename_i cs2 hcs2
      simp only [Except.ok.injEq] at h
      subst h
      simp [ih cs2 pre hcs2]

/-- The frame property of `Node.clean` for the matcher. -/
theorem frame_clean (env : Env) (ic ic' : Interceptors) :
    ∀ (n : Node), Node.All (Sh ic') n → Node.All NoIdx n → ∀ (rem : Bytes) (n' : Node), n.clean rem = .ok n' →
      ∀ (rp : Bytes) (ps : Params) (used : List Bytes), Node.NamesOk used n → (∀ k ∈ ps.keys, k ∈ used) →
      FrameP (fun pt => (n.pattern ++ rem) <+: pt) (n.matchChildren env ic rp ps) (n'.matchChildren env ic rp ps) := by
  intro n
  induction n using Node.rec (motive_2 := fun cs => ∀ pp, ShL ic' pp cs → AllL (Sh ic') cs → AllL NoIdx cs →
      ∀ (rem : Bytes) (cs1 : List Node), cleanL cs rem = .ok cs1 →
      ∀ (rp : Bytes) (ps : Params) (used : List Bytes), NamesOkL used cs → (∀ k ∈ ps.keys, k ∈ used) →
      FrameP (fun pt => (pp ++ rem) <+: pt) (matchFrom env ic cs 0 rp ps)
        (matchFrom env ic (cs1.filter (fun c => !(hasPrefix c.seg.value rem))) 0 rp ps)) with
  | mk s p mi hs idx cs ih =>
    intro hn hno rem n' h rp ps used hnames hkeys
    have hidx : idx = [] := hno.1.1
    subst hidx
    have htrack : TrackL used cs ps := ⟨hnames, allNoIdxL_idxLit hno.2, hkeys⟩
    simp only [Node.clean] at h
    split at h
    · -- everything below goes
      rename_i hrem
      have hr : rem = [] := by simpa using hrem
      subst hr
      simp only [Except.ok.injEq] at h
      subst h
      cases hm : (Node.mk s p mi hs [] cs).matchChildren env ic rp ps with
      | hit q ps1 =>
        intro hne
        exact absurd (by simpa using hit_prefix env ic ic' hn hno hm) hne
      | miss ps1 =>
        rw [mc_noidx env ic _ rfl] at hm ⊢
        simp only [Node.children_mk, Node.handlers_mk] at hm ⊢
        rw [matchFrom]
        cases hr : matchFrom env ic cs 0 rp ps with
        | miss ps2 =>
          rw [hr] at hm
          have e := matchFrom_miss hr htrack.1 htrack.2.1 htrack.2.2
          subst e
          simp only at hm ⊢
          by_cases hc : rp.isEmpty = true ∧ hs.length > 0
          · simp only [hc, and_self, if_true] at hm
            cases hm
          · simp only [hc, if_false] at hm ⊢
            cases hm
            rfl
        | hit q ps2 => rw [hr] at hm; cases hm
        | fault s => rw [hr] at hm; cases hm
        | unsupported => rw [hr] at hm; cases hm
      | fault s => trivial
      | unsupported => trivial
    · simp only [bind, Except.bind, pure, Except.pure] at h
      split at h
      · cases h
      rename_i cs1 hcs1
      have hfl := foldl_removeNodes_filter (fun v => hasPrefix v rem) cs1
      have hlen : (cs1.filter (fun c => !(hasPrefix c.seg.value rem))).length < indexesSize := by
        have h1 := cleanL_length cs cs1 rem hcs1
        have h2 : (cs1.filter (fun c => !(hasPrefix c.seg.value rem))).length ≤ cs1.length := List.length_filter_le _ _
        have h3 : cs.length < indexesSize := hno.1.2
        omega
      rw [hfl, buildIndexes_small hlen] at h
      simp only [Except.ok.injEq] at h
      subst h
      have hfr := ih p hn.1 hn.2 hno.2 rem cs1 hcs1 rp ps used hnames hkeys
      rw [mc_noidx env ic _ rfl, mc_noidx env ic _ rfl]
      simp only [Node.children_mk, Node.handlers_mk, Node.pattern_mk]
      cases hr : matchFrom env ic cs 0 rp ps with
      | hit q ps1 =>
        rw [hr] at hfr
        intro hne
        obtain ⟨q', e, h1, h2⟩ := hfr hne
        rw [e]
        exact ⟨q', rfl, h1, h2⟩
      | miss ps2 =>
        rw [hr] at hfr
        rw [hfr]
        simp only
        by_cases hc : rp.isEmpty = true ∧ hs.length > 0
        · simp only [hc, and_self, if_true]
          exact fun _ => ⟨_, rfl, rfl, rfl⟩
        · simp only [hc, if_false]
          rfl
      | fault s => trivial
      | unsupported => trivial
  | nil =>
    rename_i pp _ _ _ rem cs1 h rp ps used _ _
    simp only [cleanL, Except.ok.injEq] at h
    subst h
    exact FrameP.refl _ _
  | cons c cs ih1 ih2 =>
    rename_i pp hsh hall hno rem cs1 h rp ps used hnames hkeys
    obtain ⟨hco, _, hsho⟩ := ShL_cons.1 hsh
    rw [AllL_cons_iff] at hall hno
    have htrack : TrackL used (c :: cs) ps :=
      ⟨hnames, AllL_cons_iff.2 ⟨allNoIdx_idxLit hno.1, allNoIdxL_idxLit hno.2⟩, hkeys⟩
    obtain ⟨hfresh, hok⟩ := NamesOkL_mem hnames (c := c) List.mem_cons_self
    simp only [cleanL, bind, Except.bind, pure, Except.pure] at h
    have htail : ∀ cs2, cleanL cs rem = .ok cs2 →
        FrameP (fun pt => (pp ++ rem) <+: pt) (matchFrom env ic cs 0 rp ps)
          (matchFrom env ic (cs2.filter (fun c => !(hasPrefix c.seg.value rem))) 0 rp ps) :=
      fun cs2 hcs2 => ih2 pp hsho hall.2 hno.2 rem cs2 hcs2 rp ps used hnames.2.2 hkeys
    by_cases hcond : c.seg.value.length < rem.length ∧ hasPrefix rem c.seg.value = true
    · -- the child is cleaned recursively and stays
      simp only [hcond, and_self, if_true] at h
      split at h
      · cases h
      rename_i c' hc'
      split at h
      · cases h
      rename_i cs2 hcs2
      simp only [Except.ok.injEq] at h
      subst h
      obtain ⟨top, _, _⟩ := clean_sh ic' c hall.1 _ c' hc'
      have hnot : hasPrefix c'.seg.value rem = false := by
        rw [top.seg]
        cases hh : hasPrefix c.seg.value rem with
        | false => rfl
        | true =>
          have := ((hasPrefix_iff _ _).1 hh).length_le
          omega
      have hfull : c.pattern ++ rem.drop c.seg.value.length = pp ++ rem := by
        obtain ⟨t, ht⟩ := (hasPrefix_iff _ _).1 hcond.2
        rw [hco.2.2.1, List.append_assoc, ← ht]; simp
      simp only [List.filter_cons, hnot, Bool.not_false, if_true]
      rw [matchFrom_cons_zero, matchFrom_cons_zero]
      unfold tryChild
      rw [top.seg]
      cases hm : c.seg.match env ic rp with
      | no => exact htail cs2 hcs2
      | unsupported => trivial
      | yes cap rs =>
        simp only
        obtain ⟨_, r2, _⟩ := record_spec (s := c.seg) cap hfresh hkeys
        have hch := ih1 hall.1 hno.1 _ c' hc' rs (c.seg.record cap ps) _ hok r2
        rw [hfull] at hch
        cases hr : c.matchChildren env ic rs (c.seg.record cap ps) with
        | hit q ps1 =>
          rw [hr] at hch
          intro hne
          obtain ⟨q', e, h1, h2⟩ := hch hne
          rw [e]
          exact ⟨q', rfl, h1, h2⟩
        | miss ps2 =>
          rw [hr] at hch
          rw [hch]
          simp only
          have ht : tryChild env ic c rp ps = .miss (restoreParam ps ps2 c.seg.name) := by
            unfold tryChild; rw [hm]; simp only [hr]
          rw [tryChild_miss List.mem_cons_self htrack ht]
          exact htail cs2 hcs2
        | fault s => trivial
        | unsupported => trivial
    · simp only [hcond, if_false] at h
      split at h
      · cases h
      rename_i cs2 hcs2
      simp only [Except.ok.injEq] at h
      subst h
      rw [matchFrom_cons_zero]
      by_cases hdel : hasPrefix c.seg.value rem = true
      · -- the whole subtree goes
        simp only [List.filter_cons, hdel, Bool.not_true, Bool.false_eq_true, if_false]
        cases ht : tryChild env ic c rp ps with
        | miss ps' =>
          rw [tryChild_miss List.mem_cons_self htrack ht]
          exact htail cs2 hcs2
        | hit q ps1 =>
          intro hne
          exfalso
          apply hne
          -- the hit lies below `c`, whose pattern has the prefix
          have hq : c.pattern <+: q.pattern := by
            unfold tryChild at ht
            cases hm : c.seg.match env ic rp with
            | no => rw [hm] at ht; cases ht
            | unsupported => rw [hm] at ht; cases ht
            | yes cap rs =>
              rw [hm] at ht
              simp only at ht
              cases hr : c.matchChildren env ic rs (c.seg.record cap ps) with
              | hit q2 ps2 =>
                rw [hr] at ht
                simp only [MR.hit.injEq] at ht
                obtain ⟨rfl, _⟩ := ht
                exact hit_prefix env ic ic' hall.1 hno.1 hr
              | miss ps2 => rw [hr] at ht; cases ht
              | fault s => rw [hr] at ht; cases ht
              | unsupported => rw [hr] at ht; cases ht
          refine List.IsPrefix.trans ?_ hq
          rw [hco.2.2.1, prefix_append_iff]
          exact (hasPrefix_iff _ _).1 hdel
        | fault s => trivial
        | unsupported => trivial
      · -- the subtree stays as it is
        have hdel' : hasPrefix c.seg.value rem = false := by simpa using hdel
        simp only [List.filter_cons, hdel', Bool.not_false, if_true]
        rw [matchFrom_cons_zero]
        cases ht : tryChild env ic c rp ps with
        | miss ps' =>
          rw [tryChild_miss List.mem_cons_self htrack ht]
          exact htail cs2 hcs2
        | hit q ps1 => exact fun _ => ⟨q, rfl, rfl, rfl⟩
        | fault s => trivial
        | unsupported => trivial

/-- `C03_frame` for `Clean` on a tree without first-byte indexes whose parameter names are tracked. -/
theorem frame_cleanT {t t' : Tree} (hinv : TInv t) (hno : Node.All NoIdx t.root)
    (hnames : NamesOkL [] t.root.children) {pre : Bytes} (he : t.clean pre = .ok t')
    {env : Env} {rp method : Bytes} {f : Found} {q : Node}
    (hres : t.handler env rp [] method = .res f) (hq : f.node = some q) (hne : ¬ pre <+: q.pattern) :
    ∃ f', t'.handler env rp [] method = .res f' ∧ SameAnswer f f' := by
  obtain ⟨root1, hclean, rfl⟩ := Tree.clean_ok he
  obtain ⟨top, hhs, _⟩ := clean_sh t.ic t.root hinv.sh pre root1 hclean
  have hidx1 : root1.indexes = [] := by
    -- the cleaned root has fewer than `indexesSize` children, so its index is rebuilt empty
    have hfr := hclean
    cases hroot : t.root with
    | mk s p mi hs idx cs =>
      rw [hroot] at hfr hno
      simp only [Node.clean] at hfr
      split at hfr
      · simp only [Except.ok.injEq] at hfr; subst hfr; rfl
      · simp only [bind, Except.bind, pure, Except.pure] at hfr
        split at hfr
        · cases hfr
        rename_i cs1 hcs1
        have hfl := foldl_removeNodes_filter (fun v => hasPrefix v pre) cs1
        have hlen : (cs1.filter (fun c => !(hasPrefix c.seg.value pre))).length < indexesSize := by
          have h1 := cleanL_length cs cs1 pre hcs1
          have h2 : (cs1.filter (fun c => !(hasPrefix c.seg.value pre))).length ≤ cs1.length :=
            List.length_filter_le _ _
          have h3 : cs.length < indexesSize := hno.1.2
          omega
        rw [hfl, buildIndexes_small hlen] at hfr
        simp only [Except.ok.injEq] at hfr
        subst hfr; rfl
  refine handler_frame (t := t) (E := fun pt => pre <+: pt) rfl ?_ ?_ ?_ hres hq hne
  · unfold Tree.matched
    by_cases hsp : rp = [42] ∨ rp = []
    · simp only [hsp, if_true]
      intro _
      exact ⟨_, rfl, by simp [Tree.recount, Node.setHandlers, top.pat], by simp [Tree.recount, Node.setHandlers, hhs]⟩
    · simp only [hsp, if_false]
      have h1 := frame_clean env t.ic t.ic t.root hinv.sh hno pre root1 hclean rp [] []
        ((Node.namesOk_iff [] t.root).2 hnames) (by simp [AMap.keys])
      rw [hinv.rootPat, List.nil_append] at h1
      exact h1.trans (frame_setMi env t.ic _ root1 hidx1 _ rp [])
  · simp [Tree.recount, Node.setHandlers, top.pat]
  · simp [Tree.recount, Node.setHandlers, hhs]

end Mux.P11
