/-
  Mux.Proofs.UrlLive — every live pattern of a history was accepted by `Split` under the tree's interceptors
  (it entered the abstract table through an accepted `Handle`), so on a reachable tree the pattern of every
  node with handlers splits under `t.ic`.
-/
import Mux.Proofs.UrlTree
namespace Mux.P13
open Mux Mux.P9

theorem spec_add_patterns (tb : Spec.Table) (p : Bytes) (methods : List Bytes) :
    ∀ q ∈ (Spec.add tb p methods).patterns, q ∈ tb.patterns ∨ q = p := by
  intro q hq
  unfold Spec.add at hq
  simp only [Spec.Table.patterns] at hq ⊢
  split at hq
  · left
    rw [List.map_map] at hq
    obtain ⟨e, he, rfl⟩ := List.mem_map.1 hq
    refine List.mem_map.2 ⟨e, he, ?_⟩
    simp only [Function.comp]
    split <;> rfl
  · simp only [List.map_append, List.map_cons, List.map_nil, List.mem_append, List.mem_singleton] at hq
    exact hq

theorem spec_remove_patterns (tb : Spec.Table) (p : Bytes) (methods : List Bytes) :
    ∀ q ∈ (Spec.remove tb p methods).patterns, q ∈ tb.patterns := by
  intro q hq
  unfold Spec.remove at hq
  simp only [Spec.Table.patterns] at hq ⊢
  split at hq
  · obtain ⟨e, he, rfl⟩ := List.mem_map.1 hq
    exact List.mem_map.2 ⟨e, (List.mem_filter.1 he).1, rfl⟩
  · obtain ⟨e, he, rfl⟩ := List.mem_map.1 hq
    obtain ⟨e0, he0, rfl⟩ := List.mem_map.1 (List.mem_filter.1 he).1
    refine List.mem_map.2 ⟨e0, he0, ?_⟩
    split <;> rfl

theorem spec_clean_patterns (tb : Spec.Table) (pre : Bytes) :
    ∀ q ∈ (Spec.clean tb pre).patterns, q ∈ tb.patterns := by
  intro q hq
  unfold Spec.clean at hq
  simp only [Spec.Table.patterns] at hq ⊢
  obtain ⟨e, he, rfl⟩ := List.mem_map.1 hq
  exact List.mem_map.2 ⟨e, (List.mem_filter.1 he).1, rfl⟩

/-- Every pattern of the abstract table of a history was accepted by `Split` under the interceptors of the tree. -/
theorem specRunFrom_split (ic : Interceptors) (ops : List TOp) : ∀ (t : Tree) (tb : Spec.Table), t.ic = ic →
    (∀ p ∈ tb.patterns, ∃ segs, split ic p = .ok segs) →
    ∀ p ∈ (specRunFrom t tb ops).patterns, ∃ segs, split ic p = .ok segs := by
  induction ops with
  | nil => intro t tb _ h; exact h
  | cons op ops ih =>
    intro t tb hic h
    simp only [specRunFrom]
    refine ih (t.step op) _ ((sameCfg_step t op).2.2.1.trans hic) ?_
    intro p hp
    cases op with
    | add q hh ms methods =>
      simp only [Spec.stepWith] at hp
      split at hp
      · rename_i t' he
        rcases spec_add_patterns tb q methods p hp with hp | rfl
        · exact h p hp
        · obtain ⟨_, segs, _, _, hs, _⟩ := add_ok_stages he
          exact ⟨segs, hic ▸ hs⟩
      · exact h p hp
    | remove q methods => exact h p (spec_remove_patterns tb q methods p hp)
    | clean pre => exact h p (spec_clean_patterns tb pre p hp)
    | use ms => exact h p hp

/-- On a reachable tree the pattern of every node with handlers splits under the tree's interceptors. -/
theorem reach_live_split {t : Tree} (hr : ReachWf t) {n : Node} (hn : n ∈ nodesL t.root.children)
    (hh : n.handlers ≠ []) : ∃ segs, split t.ic n.pattern = .ok segs := by
  obtain ⟨name, ic, nf, tr, ob, nb, ops, hw, rfl⟩ := reachWf_history hr
  have hs := Mux.P11.sim_history name ic nf tr ob nb ops hw
  have hl : n.pattern ∈ (tableOf ((Tree.new name ic nf tr ob nb).run ops)).patterns :=
    mem_tableOf_patterns.2 ⟨n, hn, rfl, hh⟩
  have hp := ((Mux.P11.tables_agree (Mux.P11.tableOf_ok hs.inv).1 hs.ok hs.has).1 _).1 hl
  have hic : ((Tree.new name ic nf tr ob nb).run ops).ic = ic := (sameCfg_run _ ops).2.2.1
  rw [hic]
  exact specRunFrom_split ic ops (Tree.new name ic nf tr ob nb) [] rfl (by simp [Spec.Table.patterns]) _ hp

end Mux.P13
