/-
  Mux.Proofs.WfOps — the structural invariant `WellFormedTree` is preserved by every operation of a
  history whose registered patterns are well-formed (`remove`, `clean`, `applyMiddleware` only delete
  nodes or change handlers).
-/
import Mux.Proofs.AddAtomic
namespace Mux.P9
open Mux

/-! ## Operations that keep segments and only shrink child lists -/

/-- `c'` is `c` with other handlers and a well-formed (possibly smaller) child list. -/
def Keeps (ic : Interceptors) (c c' : Node) : Prop :=
  c'.seg = c.seg ∧ (c.children = [] → c'.children = []) ∧
    ∀ used, WfL ic used c.children → WfL ic used c'.children

theorem Keeps.refl (ic : Interceptors) (c : Node) : Keeps ic c c := ⟨rfl, id, fun _ h => h⟩

theorem Keeps.wf {ic : Interceptors} {c c' : Node} (h : Keeps ic c c') {used : List Bytes}
    (hc : Node.Wf ic used c) : Node.Wf ic used c' := by
  rw [Node.wf_iff] at hc ⊢
  rw [h.1]
  exact ⟨hc.1, hc.2.1, fun hl => h.2.1 (hc.2.2.1 hl), h.2.2 _ hc.2.2.2⟩

/-- Pointwise `Keeps` on sibling lists. -/
inductive KeepsL (ic : Interceptors) : List Node → List Node → Prop
  | nil : KeepsL ic [] []
  | cons {c c' : Node} {cs cs' : List Node} : Keeps ic c c' → KeepsL ic cs cs' → KeepsL ic (c :: cs) (c' :: cs')

/-- Pointwise `Keeps` on a sibling list keeps `WfL`. -/
theorem WfL_forall₂ {ic : Interceptors} {used : List Bytes} {cs cs' : List Node}
    (h : KeepsL ic cs cs') (hwf : WfL ic used cs) : WfL ic used cs' := by
  have hseg : cs'.map (·.seg) = cs.map (·.seg) := by
    clear hwf
    induction h with
    | nil => rfl
    | cons h1 _ ih => simp [h1.1, ih]
  rw [WfL_iff] at *
  refine ⟨?_, ?_⟩
  · intro c' hc'
    have : ∀ {cs cs' : List Node}, KeepsL ic cs cs' → (∀ c ∈ cs, Node.Wf ic used c) →
        ∀ c' ∈ cs', Node.Wf ic used c' := by
      intro cs cs' h
      induction h with
      | nil => intro _ c' hc'; cases hc'
      | cons h1 _ ih =>
        intro hall c' hc'
        rcases List.mem_cons.1 hc' with rfl | hc'
        · exact h1.wf (hall _ (by simp))
        · exact ih (fun c hc => hall c (by simp [hc])) c' hc'
    exact this h hwf.1 c' hc'
  · have key : ∀ l : List Node, l.Pairwise (fun a b => SibDisj a.seg b.seg) ↔ (l.map (·.seg)).Pairwise SibDisj := by
      intro l; rw [List.pairwise_map]
    rw [key, hseg, ← key]
    exact hwf.2

theorem forall₂_refl {ic : Interceptors} (cs : List Node) : KeepsL ic cs cs := by
  induction cs with
  | nil => exact .nil
  | cons c cs ih => exact .cons (Keeps.refl ic c) ih

/-! ## `removeAt` -/

theorem removeAt_keeps (ic : Interceptors) (f : Node → Node)
    (hf : ∀ m, (f m).seg = m.seg ∧ (f m).children = m.children) :
    ∀ (path : List Nat) (n n' : Node), n.removeAt f path = .ok n' → Keeps ic n n' := by
  intro path
  induction path with
  | nil =>
    intro n n' h
    cases n
    simp only [Node.removeAt, Except.ok.injEq] at h
    subst h
    obtain ⟨e1, e2⟩ := hf (Node.mk _ _ _ _ _ _)
    exact ⟨e1, fun h => by rw [e2]; exact h, fun used h => by rw [e2]; exact h⟩
  | cons i path ih =>
    intro n n' h
    cases n with
    | mk s p mi hs idx cs =>
      have hL : ∀ (cs : List Node) (i : Nat) (cs' : List Node) (d : Bool), removeAtL f cs i path = .ok (cs', d) →
          ∃ cs'', KeepsL ic cs cs'' ∧ cs'.Sublist cs'' := by
        intro cs
        induction cs with
        | nil => intro i cs' d h; simp [removeAtL] at h
        | cons c cs ihc =>
          intro i cs' d h
          cases i with
          | zero =>
            simp only [removeAtL, bind, Except.bind, pure, Except.pure] at h
            split at h
            · cases h
            rename_i c' hc'
            have hk := ih c c' hc'
            split at h
            · simp only [Except.ok.injEq, Prod.mk.injEq] at h
              obtain ⟨rfl, rfl⟩ := h
              exact ⟨c' :: cs, .cons hk (forall₂_refl _), List.sublist_cons_self _ _⟩
            · simp only [Except.ok.injEq, Prod.mk.injEq] at h
              obtain ⟨rfl, rfl⟩ := h
              exact ⟨c' :: cs, .cons hk (forall₂_refl _), List.Sublist.refl _⟩
          | succ i =>
            simp only [removeAtL, bind, Except.bind, pure, Except.pure] at h
            split at h
            · cases h
            rename_i r hr
            simp only [Except.ok.injEq, Prod.mk.injEq] at h
            obtain ⟨rfl, rfl⟩ := h
            obtain ⟨cs'', h1, h2⟩ := ihc i r.1 r.2 hr
            exact ⟨c :: cs'', .cons (Keeps.refl ic c) h1, h2.cons_cons c⟩
      simp only [Node.removeAt, bind, Except.bind, pure, Except.pure] at h
      split at h
      · cases h
      rename_i r hr
      obtain ⟨cs'', h1, h2⟩ := hL cs i r.1 r.2 hr
      have hres : ∀ idx', Keeps ic (.mk s p mi hs idx cs) (.mk s p mi hs idx' r.1) := by
        intro idx'
        refine ⟨rfl, ?_, fun used hw => WfL_sublist h2 (WfL_forall₂ h1 hw)⟩
        intro hnil
        simp only [Node.children_mk] at hnil
        subst hnil
        simp [removeAtL] at hr
      split at h
      · split at h
        · cases h
        · simp only [Except.ok.injEq] at h
          subst h
          exact hres _
      · simp only [Except.ok.injEq] at h
        subst h
        exact hres _

/-! ## `clean` -/

theorem foldl_removeNodes_sublist (vs : List Bytes) (cs : List Node) : (vs.foldl removeNodes cs).Sublist cs := by
  induction vs generalizing cs with
  | nil => exact List.Sublist.refl _
  | cons v vs ih => exact (ih _).trans (removeNodes_sublist cs v)

theorem clean_keeps (ic : Interceptors) : ∀ (n : Node) (pre : Bytes) (n' : Node), n.clean pre = .ok n' → Keeps ic n n' := by
  intro n
  induction n using Node.rec (motive_2 := fun cs => ∀ pre cs', cleanL cs pre = .ok cs' →
      KeepsL ic cs cs') with
  | mk s p mi hs idx cs ih =>
    intro pre n' h
    simp only [Node.clean] at h
    split at h
    · simp only [Except.ok.injEq] at h
      subst h
      exact ⟨rfl, fun _ => rfl, fun used _ => WfL_nil _ _⟩
    · simp only [bind, Except.bind, pure, Except.pure] at h
      split at h
      · cases h
      rename_i cs1 hcs1
      split at h
      · cases h
      simp only [Except.ok.injEq] at h
      subst h
      have h1 := ih pre cs1 hcs1
      refine ⟨rfl, ?_, fun used hw => WfL_sublist (foldl_removeNodes_sublist _ _) (WfL_forall₂ h1 hw)⟩
      intro hnil
      simp only [Node.children_mk] at hnil
      subst hnil
      cases h1
      simp only [Node.children_mk]
      exact List.eq_nil_of_sublist_nil (foldl_removeNodes_sublist _ _)
  | nil =>
    rename_i pre cs' h
    simp only [cleanL, Except.ok.injEq] at h
    subst h
    exact .nil
  | cons c cs ih1 ih2 =>
    rename_i pre cs' h
    simp only [cleanL, bind, Except.bind, pure, Except.pure] at h
    by_cases hcond : c.seg.value.length < pre.length ∧ hasPrefix pre c.seg.value = true
    · simp only [hcond, and_self, if_true] at h
      split at h
      · cases h
      rename_i c' hc'
      split at h
      · cases h
      rename_i cs1 hcs1
      simp only [Except.ok.injEq] at h
      subst h
      exact .cons (ih1 _ c' hc') (ih2 pre cs1 hcs1)
    · simp only [hcond, if_false] at h
      split at h
      · cases h
      rename_i cs1 hcs1
      simp only [Except.ok.injEq] at h
      subst h
      exact .cons (Keeps.refl ic c) (ih2 pre cs1 hcs1)

/-! ## `applyMw` -/

theorem applyMw_keeps (ic : Interceptors) (router : Bytes) (ms : List Nat) :
    ∀ n : Node, Keeps ic n (n.applyMw router ms) := by
  intro n
  induction n using Node.rec (motive_2 := fun cs => KeepsL ic cs (applyMwL router ms cs)) with
  | mk s p mi hs idx cs ih =>
    simp only [Node.applyMw]
    refine ⟨rfl, ?_, fun used hw => WfL_forall₂ ih hw⟩
    intro hnil
    simp only [Node.children_mk] at hnil
    subst hnil
    rfl
  | nil => exact .nil
  | cons c cs ih1 ih2 => exact .cons ih1 ih2


/-! ## Every operation keeps the tree well-formed -/

theorem removeMethods_fields (ht : Bool) (methods : List Bytes) (m : Node) :
    (removeMethods ht methods m).seg = m.seg ∧ (removeMethods ht methods m).children = m.children := by
  unfold removeMethods; simp [Node.setHandlers]

theorem wf_of_keeps {t : Tree} {root1 : Node} (hwf : WellFormedTree t) (hk : Keeps t.ic t.root root1) :
    WellFormedTree ({ t with root := root1 }).recount := by
  simp only [WellFormedTree, Tree.recount, Node.setHandlers, Node.children_mk]
  exact hk.2.2 [] hwf

/-- An accepted `add` passed the three validation stages. -/
theorem add_ok_stages {t t' : Tree} {p : Bytes} {h : Handler} {ms : List Nat} {methods : List Bytes}
    (he : t.add p h ms methods = .ok t') :
    ∃ a segs, t.root.checkAmb t.ic p false = .ok a ∧ a ≠ some true ∧ split t.ic p = .ok segs ∧
      t.checkMethods p (effMethods methods) [] = .ok () := by
  rw [add_eq] at he
  cases hamb : t.root.checkAmb t.ic p false with
  | error e => rw [hamb] at he; cases he
  | ok a =>
    rw [hamb] at he
    have key : (match split t.ic p with
        | .error e => .error e
        | .ok _ => match t.checkMethods p (effMethods methods) [] with
          | .error e => .error e
          | .ok _ => addTail t p h ms (effMethods methods)) = Except.ok t' →
        ∃ segs, split t.ic p = .ok segs ∧ t.checkMethods p (effMethods methods) [] = .ok () := by
      intro he
      cases hs : split t.ic p with
      | error e => rw [hs] at he; cases he
      | ok segs =>
        rw [hs] at he
        simp only [] at he
        cases hm : t.checkMethods p (effMethods methods) [] with
        | error e => rw [hm] at he; cases he
        | ok u => exact ⟨segs, rfl, rfl⟩
    cases a with
    | none =>
      obtain ⟨segs, h1, h2⟩ := key he
      exact ⟨none, segs, rfl, by simp, h1, h2⟩
    | some b =>
      cases b with
      | true => cases he
      | false =>
        obtain ⟨segs, h1, h2⟩ := key he
        exact ⟨some false, segs, rfl, by simp, h1, h2⟩

theorem wf_add {t t' : Tree} {p : Bytes} {h : Handler} {ms : List Nat} {methods : List Bytes}
    (hwf : WellFormedTree t) (hp : WfPattern p) (he : t.add p h ms methods = .ok t') : WellFormedTree t' := by
  obtain ⟨a, segs, h1, h2, h3, h4⟩ := add_ok_stages he
  obtain ⟨t'', ht'', hw, _⟩ := add_validated_ok h ms hwf hp h1 h2 h3 h4
  rw [he] at ht''
  cases ht''
  exact hw

/-- The operations whose pattern is well-formed (only `add` carries a pattern that is parsed). -/
def PatOk : TOp → Prop
  | .add p _ _ _ => WfPattern p
  | _ => True

theorem wf_step {t : Tree} (hwf : WellFormedTree t) {op : TOp} (hop : PatOk op) : WellFormedTree (t.step op) := by
  cases op with
  | add p h ms methods =>
    simp only [Tree.step]
    split
    · rename_i t' he; exact wf_add hwf hop he
    · exact hwf
  | remove p methods =>
    simp only [Tree.step]
    split
    · rename_i t' he
      rcases Tree.remove_ok he with rfl | ⟨path, root1, _, hrem, rfl⟩
      · exact hwf
      · exact wf_of_keeps hwf (removeAt_keeps t.ic _ (removeMethods_fields t.hasTrace methods) path _ _ hrem)
    · exact hwf
  | clean pre =>
    simp only [Tree.step]
    split
    · rename_i t' he
      obtain ⟨root1, hclean, rfl⟩ := Tree.clean_ok he
      exact wf_of_keeps hwf (clean_keeps t.ic _ _ _ hclean)
    · exact hwf
  | use ms =>
    simp only [Tree.step, WellFormedTree, Tree.applyMiddleware]
    exact (applyMw_keeps t.ic t.name ms t.root).2.2 [] hwf

theorem wf_run {t : Tree} (hwf : WellFormedTree t) {ops : List TOp} (hops : ∀ op ∈ ops, PatOk op) :
    WellFormedTree (t.run ops) := by
  unfold Tree.run
  induction ops generalizing t with
  | nil => exact hwf
  | cons op ops ih =>
    exact ih (wf_step hwf (hops op (by simp))) (fun o ho => hops o (by simp [ho]))

/-- A tree produced from a fresh one by a history whose registered patterns are well-formed
(balanced, non-nested `{…}` tokens; literal text without braces). -/
def ReachWf (t : Tree) : Prop :=
  ∃ name ic nf tr ob nb ops, (∀ op ∈ ops, PatOk op) ∧ t = (Tree.new name ic nf tr ob nb).run ops

theorem ReachWf.reach {t : Tree} (h : ReachWf t) : t.Reach := by
  obtain ⟨name, ic, nf, tr, ob, nb, ops, _, rfl⟩ := h
  exact ⟨name, ic, nf, tr, ob, nb, ops, rfl⟩

theorem ReachWf.wf {t : Tree} (h : ReachWf t) : WellFormedTree t := by
  obtain ⟨name, ic, nf, tr, ob, nb, ops, hops, rfl⟩ := h
  exact wf_run (wellFormed_new name ic nf tr ob nb) hops

theorem ReachWf.step {t : Tree} (h : ReachWf t) {op : TOp} (hop : PatOk op) : ReachWf (t.step op) := by
  obtain ⟨name, ic, nf, tr, ob, nb, ops, hops, rfl⟩ := h
  refine ⟨name, ic, nf, tr, ob, nb, ops ++ [op], ?_, by simp [Tree.run]⟩
  intro o ho
  rcases List.mem_append.1 ho with ho | ho
  · exact hops o ho
  · simp only [List.mem_singleton] at ho
    exact ho ▸ hop

end Mux.P9
