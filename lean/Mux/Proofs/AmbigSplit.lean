/-
  Mux.Proofs.AmbigSplit — the ambiguity check on the tree of ANY history that leaves one route (property C17,
  "a pattern identical up to parameter names to the only other route is always rejected"), after the D33 repair.

  After `Handle("/{a}/x")`, `Handle("/{a}/y")`, `Remove("/{a}/y")` the chain of tree nodes to the only route
  `/{a}/x` is NOT the list of segments `Split` makes of it: the parameter node is split (`{a}/` above `x`).  In
  general every node on the chain to a route `q` carries a literal piece of `q`, or a whole token `{…}` of `q`
  together with a PREFIX of the literal text that follows it.  This file shows that `checkAmbiguous` finds its
  way down such a chain for every accepted `p` that is `q` up to parameter names: through the literal-prefix
  branch, the `isAmbiguous` branch, or the branch the repair added (`isAmbiguousPrefix`); the siblings tried on
  the way can only make the verdict a rejection as well.
-/
import Mux.Proofs.AmbigOne
import Mux.Proofs.UrlTree
import Mux.Proofs.UrlToks
import Mux.Proofs.ReachAll
namespace Mux.P9
open Mux Mux.P13

/-! ## One child of the loop of `checkAmbiguous` -/

/-- What the loop of `node.checkAmbiguous` does with one child. -/
def ambStep (ic : Interceptors) (c : Node) (pat : Bytes) (has : Bool) : Except Err (Option Bool) :=
  if hasPrefix pat c.seg.value then Node.checkAmb ic c (pat.drop c.seg.value.length) has
  else
    match split ic pat with
    | .error e => .error e
    | .ok [] => .error (.fault 250)
    | .ok (s0 :: _) =>
      if c.seg.isAmbiguous s0 then
        match sliceE 251 pat s0.value.length pat.length with
        | .error e => .error e
        | .ok rest => Node.checkAmb ic c rest true
      else if c.seg.isAmbiguousPrefix s0 then
        match sliceE 252 pat (s0.value.length - s0.suffix.length + c.seg.suffix.length) pat.length with
        | .error e => .error e
        | .ok rest => Node.checkAmb ic c rest true
      else .ok none

/-- The loop: the first child that answers (a node, or an error) decides. -/
theorem checkAmbL_cons (ic : Interceptors) (c : Node) (cs : List Node) (pat : Bytes) (has : Bool) :
    checkAmbL ic (c :: cs) pat has =
      match ambStep ic c pat has with
      | .error e => .error e
      | .ok (some h) => .ok (some h)
      | .ok none => checkAmbL ic cs pat has := by
  simp only [checkAmbL, ambStep, bind, Except.bind, pure, Except.pure, throw, throwThe, MonadExceptOf.throw]
  split
  · cases Node.checkAmb ic c (pat.drop c.seg.value.length) has with
    | error e => rfl
    | ok r => cases r <;> rfl
  · cases split ic pat with
    | error e => rfl
    | ok segs =>
      cases segs with
      | nil => rfl
      | cons s0 rest =>
        simp only []
        split
        · cases sliceE 251 pat s0.value.length pat.length with
          | error e => rfl
          | ok r =>
            simp only []
            cases Node.checkAmb ic c r true with
            | error e => rfl
            | ok r' => cases r' <;> rfl
        · split
          · cases sliceE 252 pat (s0.value.length - s0.suffix.length + c.seg.suffix.length) pat.length with
            | error e => rfl
            | ok r =>
              simp only []
              cases Node.checkAmb ic c r true with
              | error e => rfl
              | ok r' => cases r' <;> rfl
          · rfl

/-- A verdict of `checkAmbiguous` that makes `Tree.add` fail: an error, or "found, with a parameter step". -/
def Rej (r : Except Err (Option Bool)) : Prop := (∃ e, r = .error e) ∨ r = .ok (some true)

/-- If one child of the list leads to a rejection and the loop cannot answer `some false`, the loop rejects. -/
theorem checkAmbL_rej {ic : Interceptors} {pat : Bytes} {has : Bool} {c : Node} :
    ∀ {cs : List Node}, c ∈ cs → Rej (ambStep ic c pat has) →
      (∀ b, checkAmbL ic cs pat has = .ok (some b) → b = true) → Rej (checkAmbL ic cs pat has) := by
  intro cs
  induction cs with
  | nil => intro h; cases h
  | cons d cs ih =>
    intro hmem hrej hsome
    rw [checkAmbL_cons] at hsome ⊢
    cases hd : ambStep ic d pat has with
    | error e => exact .inl ⟨e, rfl⟩
    | ok r =>
      rw [hd] at hsome
      cases r with
      | some b =>
        have := hsome b rfl
        subst this
        exact .inr rfl
      | none =>
        simp only [] at hsome ⊢
        rcases List.mem_cons.1 hmem with rfl | hmem
        · rw [hd] at hrej
          rcases hrej with ⟨e, he⟩ | he <;> cases he
        · exact ih hmem hrej hsome

/-- A walk of the check without a parameter step spells the pattern: the texts of its nodes are the pattern. -/
theorem AmbPath.lit_text {ic : Interceptors} {n m : Node} {pat : Bytes} {steps : List (Seg × Bool)}
    (h : AmbPath ic n pat m steps) (hno : steps.any (·.2) = false) :
    (steps.map (·.1.value)).flatten = pat := by
  induction h with
  | here n _ => rfl
  | @lit n c m pat steps _ _ hpre _ ih =>
    simp only [List.any_cons, Bool.false_or] at hno
    obtain ⟨r, hr⟩ := hpre
    simp only [List.map_cons, List.flatten_cons, ih hno]
    rw [← hr]; simp
  | amb => simp at hno
  | pre => simp at hno


/-! ## Text lemmas -/

theorem noBrace_prefix_of_append {a b X Y : Bytes} (ha : NoBrace a) (h : a ++ X = b ++ Y)
    (hY : Y = [] ∨ Y.head? = some startByte) : a <+: b := by
  rcases List.append_eq_append_iff.1 h with ⟨a', hb, _⟩ | ⟨c', ha', hY'⟩
  · exact ⟨a', hb.symm⟩
  · cases c' with
    | nil => simp only [List.append_nil] at ha'; rw [ha']; exact List.prefix_refl _
    | cons x c' =>
      exfalso
      rcases hY with hY | hY
      · rw [hY] at hY'; cases hY'
      · rw [hY'] at hY
        simp only [List.cons_append, List.head?_cons, Option.some.injEq] at hY
        apply ha.1
        rw [ha', hY]
        simp

theorem tok_append (b s X : Bytes) : tok b s ++ X = tok b (s ++ X) := by simp [tok]

theorem tok_append_inj {b s X b' s' Y : Bytes} (hb : endByte ∉ b) (hb' : endByte ∉ b')
    (h : tok b s ++ X = tok b' s' ++ Y) : b = b' ∧ s ++ X = s' ++ Y := by
  rw [tok_append, tok_append] at h
  exact tok_inj hb hb' h

/-- The rule inside `{…}`: the text after the first `:` (none when there is no `:`). -/
def bodyRule (body : Bytes) : Bytes :=
  match indexByte separatorByte body with
  | none => []
  | some k => body.drop (k + 1)

theorem tok_take_drop2 (body suf : Bytes) (k : Nat) :
    ((tok body suf).take (body.length + 1)).drop (k + 2) = body.drop (k + 1) := by
  simp only [tok, List.take_succ_cons, List.drop_succ_cons]
  rw [List.take_append_of_le_length (Nat.le_refl _), List.take_length]

/-- Kind and rule of the segment `NewSegment` makes of `{body}suf` are read off the body (and the interceptor
table): they do not depend on the text after the closing brace. -/
theorem newSegment_tok_rule {ic : Interceptors} {body suf : Bytes} {s : Seg} (hb : NoBrace body)
    (h : newSegment ic (tok body suf) = .ok s) :
    s.rule = bodyRule body ∧
      s.kind = (if bodyRule body = [] then Kind.named else if (ic.find (bodyRule body)).isSome then .icpt else .rx) := by
  have hst := tok_start body suf
  have hen := tok_end suf hb.2
  have hlen := newSegment_len h
  rw [newSegment_closed, if_neg (by omega), hst, hen] at h
  simp only [] at h
  have named : ∀ hi, (mkNamed (tok body suf) 0 (body.length + 1) hi).rule = [] ∧
      (mkNamed (tok body suf) 0 (body.length + 1) hi).kind = .named := fun hi => ⟨rfl, rfl⟩
  rcases tok_sep body suf with ⟨k, hk1, hk2⟩ | ⟨hnone, hk2 | ⟨j, hk2⟩⟩
  · have hkl : k < body.length := indexByte_some_lt hk1
    have hbr : bodyRule body = body.drop (k + 1) := by simp [bodyRule, hk1]
    rw [hk2] at h
    simp only [] at h
    split at h
    · cases h
    split at h
    · rename_i hc
      have : body.drop (k + 1) = [] := List.drop_of_length_le (by omega)
      cases h
      rw [hbr, this]
      exact ⟨rfl, by simp [mkNamed]⟩
    split at h
    · omega
    split at h
    · cases h
    · rename_i hc1 hc2 hc3 hc4
      have hne : body.drop (k + 1) ≠ [] := by
        intro e
        have := congrArg List.length e
        simp at this
        omega
      unfold finishRuled at h
      simp only [] at h
      rw [tok_take_drop2] at h
      rw [hbr]
      split at h
      · rename_i hfind
        cases h
        simp [hne, hfind]
      · rename_i hfind
        split at h
        · cases h
        · split at h
          · cases h
          · cases h
            simp [hne, hfind]
  · have hbr : bodyRule body = [] := by simp [bodyRule, hnone]
    rw [hk2] at h
    simp only [] at h
    split at h
    · cases h
    · cases h; rw [hbr]; exact ⟨rfl, by simp [mkNamed]⟩
  · have hbr : bodyRule body = [] := by simp [bodyRule, hnone]
    rw [hk2] at h
    simp only [] at h
    split at h
    · cases h
    split at h
    · omega
    split at h
    · cases h; rw [hbr]; exact ⟨rfl, by simp [mkNamed]⟩
    · omega


/-! ## Parameter segments -/

/-- Everything `NewSegment` reads off a token piece `{body}suf`. -/
theorem SegOk.param_facts {ic : Interceptors} {s : Seg} (h : SegOk ic s) (hk : s.kind ≠ .str) :
    ∃ b suf, s.value = tok b suf ∧ NoBrace b ∧ NoBrace suf ∧ s.suffix = suf ∧
      s.name = (bodyName b).1 ∧ s.ignoreName = (bodyName b).2 ∧ s.rule = bodyRule b ∧
      s.kind = (if bodyRule b = [] then Kind.named else if (ic.find (bodyRule b)).isSome then .icpt else .rx) := by
  obtain ⟨b, suf, hv, hb, hs⟩ := h.tok_of_kind hk
  have hseg := h.seg
  rw [hv] at hseg
  obtain ⟨_, h2, h3, h4⟩ := newSegment_tok hb hs hseg
  obtain ⟨h5, h6⟩ := newSegment_tok_rule hb hseg
  exact ⟨b, suf, hv, hb, hs, h2, h3, h4, h5, h6⟩

/-- Parameter segments satisfying I-seg. -/
def ParamSegs (ic : Interceptors) (l : List Seg) : Prop := ∀ s ∈ l, SegOk ic s ∧ s.kind ≠ .str

theorem ParamSegs.tail {ic : Interceptors} {s : Seg} {l : List Seg} (h : ParamSegs ic (s :: l)) : ParamSegs ic l :=
  fun x hx => h x (List.mem_cons_of_mem _ hx)

theorem ParamSegs.head_start {ic : Interceptors} {l : List Seg} (h : ParamSegs ic l) :
    (l.map (·.value)).flatten = [] ∨ (l.map (·.value)).flatten.head? = some startByte := by
  cases l with
  | nil => exact .inl rfl
  | cons s l =>
    right
    obtain ⟨hs, hk⟩ := h s (by simp)
    obtain ⟨b, suf, hv, _⟩ := hs.tok_of_kind hk
    simp [hv, tok]

theorem ParamSegs.canon {ic : Interceptors} {l : List Seg} (h : ParamSegs ic l) : Canon (l.map (·.value)) := by
  have hall : ∀ x ∈ l.map (·.value), WfPiece x ∧ x ≠ [] ∧ x.head? = some startByte := by
    intro x hx
    obtain ⟨s, hs, rfl⟩ := List.mem_map.1 hx
    obtain ⟨hok, hk⟩ := h s hs
    obtain ⟨b, suf, hv, _⟩ := hok.tok_of_kind hk
    exact ⟨hok.wf, hok.ne, by simp [hv, tok]⟩
  exact ⟨fun x hx => (hall x hx).1, fun x hx => (hall x hx).2.1,
    fun x hx => (hall x (List.mem_of_mem_tail hx)).2.2⟩

/-! ## The relation between what is left of the new pattern and what is left of the route -/

/-- `P` (what is left of the new pattern `p`) and `Q` (what is left of the route `q`) start with the same literal
text; after it come parameter segments that agree one by one up to names, those of `P` being what `Split` makes
of that part of `P`. -/
def AmbRel (ic : Interceptors) (P Q : Bytes) : Prop :=
  ∃ (lit : Bytes) (psegs qsegs : List Seg) (flag : Bool) (names : List Bytes),
    NoBrace lit ∧ P = lit ++ (psegs.map (·.value)).flatten ∧ Q = lit ++ (qsegs.map (·.value)).flatten ∧
    UpToNames psegs qsegs ∧ splitLoop ic (psegs.map (·.value)) flag names = .ok psegs ∧
    ParamSegs ic psegs ∧ ParamSegs ic qsegs

theorem AmbRel.nil_right {ic : Interceptors} {P : Bytes} (h : AmbRel ic P []) : P = [] := by
  obtain ⟨lit, psegs, qsegs, _, _, _, hP, hQ, hu, _, _, hq⟩ := h
  have h1 : lit = [] := by
    cases lit with
    | nil => rfl
    | cons _ _ => cases hQ
  subst h1
  cases qsegs with
  | nil => cases hu; simpa using hP
  | cons s l =>
    exfalso
    have := (hq s (by simp)).1.ne
    simp only [List.nil_append, List.map_cons, List.flatten_cons] at hQ
    exact this (List.append_eq_nil_iff.1 hQ.symm).1

theorem tok_append_suffix (b s d : Bytes) : tok b (s ++ d) = tok b s ++ d := by simp [tok]

theorem isAmbiguous_suffix_ne {a b : Seg} (h : a.suffix ≠ b.suffix) : a.isAmbiguous b = false := by
  unfold Seg.isAmbiguous
  simp only []
  split <;> simp [h]

/-- **One level of the descent.** `c` is the next node on the chain to the route, `c.seg.value ++ Q'` what is
left of the route. The loop of `checkAmbiguous` handles `c` by descending into it — through the literal-prefix
branch (flag unchanged), the `isAmbiguous` branch or the `isAmbiguousPrefix` branch (flag set) — with a rest of the
pattern that is again related to the rest of the route. -/
theorem ambStep_chain {ic : Interceptors} {c : Node} (hc : SegOk ic c.seg) {P Q' : Bytes} (has : Bool)
    (hrel : AmbRel ic P (c.seg.value ++ Q')) :
    ∃ P' has', ambStep ic c P has = c.checkAmb ic P' has' ∧ AmbRel ic P' Q' ∧ P ≠ [] ∧
      ((has' = has ∧ P = c.seg.value ++ P') ∨ has' = true) := by
  obtain ⟨lit, psegs, qsegs, flag, names, hlit, hP, hQ, hu, hsl, hpp, hqq⟩ := hrel
  by_cases hck : c.seg.kind = .str
  · -- a literal node: its text is part of the common literal text
    have hnb : NoBrace c.seg.value := hc.kind_str_iff.1 hck
    obtain ⟨lit', hl'⟩ := noBrace_prefix_of_append hnb hQ hqq.head_start
    subst hl'
    have hQ' : Q' = lit' ++ (qsegs.map (·.value)).flatten := by
      rw [List.append_assoc] at hQ
      exact List.append_cancel_left hQ
    have hpre : hasPrefix P c.seg.value = true := by
      rw [hasPrefix_iff, hP, List.append_assoc]; exact ⟨_, rfl⟩
    have hdrop : P.drop c.seg.value.length = lit' ++ (psegs.map (·.value)).flatten := by
      rw [hP, List.append_assoc, List.drop_left]
    refine ⟨lit' ++ (psegs.map (·.value)).flatten, has, ?_, ?_, ?_, .inl ⟨rfl, ?_⟩⟩
    · simp only [ambStep, hpre, if_true, hdrop]
    · refine ⟨lit', psegs, qsegs, flag, names, ?_, rfl, hQ', hu, hsl, hpp, hqq⟩
      exact ⟨fun h => hlit.1 (List.mem_append_right _ h), fun h => hlit.2 (List.mem_append_right _ h)⟩
    · rw [hP]
      intro e
      exact hc.ne (List.append_eq_nil_iff.1 (List.append_eq_nil_iff.1 e).1).1
    · rw [hP, List.append_assoc]
  · -- a parameter node
    obtain ⟨bc, sc, hcv, hbc, hsc, hcsuf, hcname, hcign, hcrule, hckind⟩ := hc.param_facts hck
    have hl0 : lit = [] := by
      cases lit with
      | nil => rfl
      | cons x l =>
        exfalso
        rw [hcv] at hQ
        simp only [tok, List.cons_append, List.cons.injEq] at hQ
        exact hlit.1 (by rw [← hQ.1]; simp)
    subst hl0
    simp only [List.nil_append] at hP hQ
    cases hu with
    | nil =>
      exfalso
      rw [hcv] at hQ
      simp [tok] at hQ
    | @cons ps qs psegs' qsegs' hR hu' =>
      obtain ⟨hpok, hpk⟩ := hpp ps (by simp)
      obtain ⟨hqok, hqk⟩ := hqq qs (by simp)
      obtain ⟨bp, sp, hpv, hbp, hsp, hpsuf, hpname, hpign, hprule, hpkind⟩ := hpok.param_facts hpk
      obtain ⟨bq, sq, hqv, hbq, hsq, hqsuf, hqname, hqign, hqrule, hqkind⟩ := hqok.param_facts hqk
      simp only [List.map_cons, List.flatten_cons] at hP hQ hsl
      obtain ⟨_, _, seg, segs', hseg, _, hrest, hsegs⟩ := splitLoop_cons_inv hsl
      simp only [List.cons.injEq] at hsegs
      obtain ⟨rfl, rfl⟩ := hsegs
      -- the node's token is the route's token, its suffix a prefix of the route's
      rw [hcv, hqv] at hQ
      obtain ⟨e1, hQ2⟩ := tok_append_inj hbc.2 hbq.2 hQ
      subst e1
      obtain ⟨d, hd⟩ := noBrace_prefix_of_append hsc hQ2 hqq.tail.head_start
      subst hd
      have hQ' : Q' = d ++ (qsegs'.map (·.value)).flatten := by
        rw [List.append_assoc] at hQ2
        exact List.append_cancel_left hQ2
      have hdnb : NoBrace d :=
        ⟨fun h => hsq.1 (List.mem_append_right _ h), fun h => hsq.2 (List.mem_append_right _ h)⟩
      have hrel' : AmbRel ic (d ++ (psegs'.map (·.value)).flatten) Q' :=
        ⟨d, psegs', qsegs', _, _, hdnb, rfl, hQ', hu', hrest, hpp.tail, hqq.tail⟩
      have hPne : P ≠ [] := by rw [hP, hpv]; simp [tok]
      rcases hR with hval | hvar
      · -- the same token: literal-prefix branch
        rw [hpv, hqv] at hval
        obtain ⟨e1, e2⟩ := tok_inj hbp.2 hbc.2 hval
        subst e1; subst e2
        have hPeq : P = c.seg.value ++ (d ++ (psegs'.map (·.value)).flatten) := by
          rw [hP, hpv, hcv, tok_append_suffix, List.append_assoc]
        have hpre : hasPrefix P c.seg.value = true := by
          rw [hasPrefix_iff, hPeq]; exact ⟨_, rfl⟩
        have hdrop : P.drop c.seg.value.length = d ++ (psegs'.map (·.value)).flatten := by
          rw [hPeq, List.drop_left]
        refine ⟨_, has, ?_, hrel', hPne, .inl ⟨rfl, hPeq⟩⟩
        simp only [ambStep, hpre, if_true, hdrop]
      · -- a name variant
        obtain ⟨_, hvk, hvr, hvs, hve, hvd⟩ := hvar
        have hsuf : sp = sc ++ d := by rw [← hpsuf, hvs, hqsuf]
        subst hsuf
        have hbne : bp ≠ bc := by
          intro e
          subst e
          rcases hvd with h | h
          · exact h (by rw [hpign, hqign])
          · exact h (by rw [hpname, hqname])
        have hnpre : hasPrefix P c.seg.value = false := by
          cases hh : hasPrefix P c.seg.value with
          | false => rfl
          | true =>
            exfalso
            obtain ⟨r, hr⟩ := (hasPrefix_iff _ _).1 hh
            rw [hP, hpv, hcv] at hr
            exact hbne (tok_append_inj hbc.2 hbp.2 hr).1.symm
        have hsplit : split ic P = .ok (ps :: psegs') := by
          have := split_of_pieces hpp.canon (by simp) (flag := flag) (names := names)
            (segs := ps :: psegs') (by simpa using hsl)
          simpa [hP] using this
        -- name, flag, kind and rule of the node are those of the route's segment
        have hcq_name : c.seg.name = qs.name := by rw [hcname, hqname]
        have hcq_ign : c.seg.ignoreName = qs.ignoreName := by rw [hcign, hqign]
        have hcq_rule : c.seg.rule = qs.rule := by rw [hcrule, hqrule]
        have hcq_kind : c.seg.kind = qs.kind := by rw [hckind, hqkind]
        by_cases hd0 : d = []
        · -- the whole token: `isAmbiguous`
          subst hd0
          have hcq : c.seg = qs := hc.eq_of_value hqok (by rw [hcv, hqv, List.append_nil])
          have hamb : c.seg.isAmbiguous ps = true := by
            rw [hcq]; exact NameVariant.isAmbiguous ⟨hpk, hvk, hvr, hvs, hve, hvd⟩
          have hle : ps.value.length ≤ P.length := by rw [hP]; simp
          have hdrop : P.drop ps.value.length = [] ++ (psegs'.map (·.value)).flatten := by
            rw [hP, List.drop_left]; rfl
          refine ⟨_, true, ?_, hrel', hPne, .inr rfl⟩
          simp only [ambStep, hnpre, Bool.false_eq_true, if_false, hsplit, hamb, if_true,
            sliceE_drop 251 _ hle, hdrop]
        · -- the upper half of a split node: `isAmbiguousPrefix`
          have hnamb : c.seg.isAmbiguous ps = false := by
            apply isAmbiguous_suffix_ne
            rw [hcsuf, hpsuf]
            intro e
            apply hd0
            have := congrArg List.length e
            simp only [List.length_append] at this
            exact List.eq_nil_of_length_eq_zero (by omega)
          have hdlen : 0 < d.length := List.length_pos_iff.2 hd0
          have hpfx : c.seg.isAmbiguousPrefix ps = true := by
            have hnm : c.seg.name ≠ ps.name ∨ c.seg.ignoreName ≠ ps.ignoreName := by
              rcases hvd with h | h
              · exact .inr (by rw [hcq_ign]; exact fun e => h e.symm)
              · exact .inl (by rw [hcq_name]; exact fun e => h e.symm)
            have hpre2 : hasPrefix ps.suffix c.seg.suffix = true := by
              rw [hasPrefix_iff, hcsuf, hpsuf]; exact ⟨d, rfl⟩
            simp only [Seg.isAmbiguousPrefix, Bool.decide_and, Bool.and_eq_true, decide_eq_true_eq, hpre2, and_true]
            refine ⟨hck, by rw [hcq_kind, hvk], by rw [hcq_rule, hvr], hnm, ?_⟩
            rw [hcsuf, hpsuf]; simp; omega
          have hoff : ps.value.length - ps.suffix.length + c.seg.suffix.length = (tok bp sc).length := by
            rw [hpv, hpsuf, hcsuf, tok_length, tok_length]
            simp only [List.length_append]; omega
          have hPeq : P = tok bp sc ++ (d ++ (psegs'.map (·.value)).flatten) := by
            rw [hP, hpv, tok_append_suffix, List.append_assoc]
          have hle : ps.value.length - ps.suffix.length + c.seg.suffix.length ≤ P.length := by
            rw [hoff, hPeq]; simp
          have hdrop : P.drop (ps.value.length - ps.suffix.length + c.seg.suffix.length) =
              d ++ (psegs'.map (·.value)).flatten := by
            rw [hoff, hPeq, List.drop_left]
          refine ⟨_, true, ?_, hrel', hPne, .inr rfl⟩
          simp only [ambStep, hnpre, Bool.false_eq_true, if_false, hsplit, hnamb, hpfx, if_true,
            sliceE_drop 252 _ hle, hdrop]


/-! ## Down the chain to the route -/

/-- No node with handlers below `n` spells `P` with the texts of its chain. -/
def NoLit (n : Node) (P : Bytes) : Prop :=
  ∀ (m' : Node) (segs' : List Seg), Chain n segs' m' → m'.handlers ≠ [] → (segs'.map (·.value)).flatten ≠ P

/-- When no node with handlers spells the rest of the pattern literally, the check cannot answer "found, all
steps literal". -/
theorem checkAmb_some_true {ic : Interceptors} {n : Node} {P : Bytes} {has b : Bool}
    (hno : has = false → NoLit n P) (h : n.checkAmb ic P has = .ok (some b)) : b = true := by
  obtain ⟨m, steps, hp, hb⟩ := checkAmb_sound ic n P has b h
  cases has with
  | true => simpa using hb
  | false =>
    cases hany : steps.any (·.2) with
    | true => simpa [hany] using hb
    | false =>
      exfalso
      have htext := hp.lit_text hany
      obtain ⟨hch, hm⟩ := hp.chain
      apply hno rfl m _ hch hm
      rw [List.map_map]
      exact htext

theorem Node.checkAmb_of_ne (ic : Interceptors) (n : Node) {P : Bytes} (h : P ≠ []) (has : Bool) :
    n.checkAmb ic P has = checkAmbL ic n.children P has := by
  cases n with
  | mk s p mi hs idx cs =>
    cases P with
    | nil => exact absurd rfl h
    | cons x P => simp [Node.checkAmb]

/-- **The descent.** `n … m` is a chain of nodes satisfying I-seg that ends in a node with handlers; `P` is related
to the text of the chain (`AmbRel`), and either a parameter step was taken before (`has`) or `P` is not that
text; no node with handlers below `n` spells `P` literally unless a parameter step was taken.  Then the ambiguity
check started at `n` on `P` rejects: an error, or "found, ambiguous". -/
theorem checkAmb_chain_rej {ic : Interceptors} {n m : Node} {segs : List Seg} (hch : Chain n segs m)
    (hm : m.handlers ≠ []) (hok : ∀ s ∈ segs, SegOk ic s) :
    ∀ (P : Bytes) (has : Bool), AmbRel ic P (segs.map (·.value)).flatten → (has = false → NoLit n P) →
      (has = true ∨ P ≠ (segs.map (·.value)).flatten) → Rej (n.checkAmb ic P has) := by
  induction hch with
  | nil n =>
    intro P has hrel _ hd
    have hP := hrel.nil_right
    subst hP
    have hhas : has = true := by
      rcases hd with h | h
      · exact h
      · exact absurd rfl h
    subst hhas
    right
    cases n with
    | mk s p mi hs idx cs =>
      have hlen : hs.length > 0 := by
        cases hs with
        | nil => exact absurd rfl hm
        | cons _ _ => simp
      simp [Node.checkAmb, hlen]
  | @cons n c m segs hmem _ ih =>
    intro P has hrel hno hd
    have hcok : SegOk ic c.seg := hok _ (by simp)
    simp only [List.map_cons, List.flatten_cons] at hrel hd
    obtain ⟨P', has', hstep, hrel', hPne, halt⟩ := ambStep_chain hcok has hrel
    have hrejc : Rej (ambStep ic c P has) := by
      rw [hstep]
      apply ih hm (fun s hs => hok s (by simp [hs])) P' has' hrel'
      · intro hf
        rcases halt with ⟨e1, e2⟩ | e
        · subst e1
          intro m' segs' hch' hm' htext
          refine hno hf m' (c.seg :: segs') (.cons hmem hch') hm' ?_
          simp only [List.map_cons, List.flatten_cons, htext]
          exact e2.symm
        · rw [e] at hf; cases hf
      · rcases halt with ⟨e1, e2⟩ | e
        · rcases hd with hd | hd
          · left; rw [e1]; exact hd
          · right
            intro e
            apply hd
            rw [e2, e]
        · left; exact e
    rw [Node.checkAmb_of_ne ic n hPne]
    apply checkAmbL_rej hmem hrejc
    intro b hb
    rw [← Node.checkAmb_of_ne ic n hPne] at hb
    exact checkAmb_some_true hno hb


/-! ## From `Split` of the two patterns to the relation -/

/-- What `Split` of a well-formed pattern yields: segments satisfying I-seg whose texts spell the pattern; all but
the first are parameters. -/
theorem split_segs_facts {ic : Interceptors} {p : Bytes} {psegs : List Seg} (hp : WfPattern p)
    (h : split ic p = .ok psegs) :
    p = (psegs.map (·.value)).flatten ∧ splitLoop ic (psegs.map (·.value)) false [] = .ok psegs ∧
      (∀ s ∈ psegs, SegOk ic s) ∧ (∀ s ∈ psegs.tail, s.kind ≠ .str) := by
  have hpne : p ≠ [] := by intro e; subst e; simp [split] at h
  have hsl : splitLoop ic (splitString p) false [] = .ok psegs := by
    unfold split at h; rw [if_neg hpne] at h; exact h
  obtain ⟨hmap, hall⟩ := splitLoop_values hsl
  have hok : ∀ s ∈ psegs, SegOk ic s := by
    intro s hs
    have hval : s.value ∈ splitString p := by rw [← hmap]; exact List.mem_map_of_mem hs
    exact SegOk.of_newSegment (hall s hs) (hp _ hval) (splitString_pieces_nonempty p hpne _ hval)
  refine ⟨by rw [hmap, splitString_join], by rw [hmap]; exact hsl, hok, ?_⟩
  intro s hs hk
  have hnb : NoBrace s.value := (hok s (List.mem_of_mem_tail hs)).kind_str_iff.1 hk
  cases hsp : splitString p with
  | nil => rw [hsp] at hmap; cases psegs <;> simp at hmap hs
  | cons v rest =>
    have hheads := splitString_tail_heads hsp
    rw [hsp] at hmap
    cases psegs with
    | nil => cases hs
    | cons s0 psegs' =>
      simp only [List.map_cons, List.cons.injEq] at hmap
      simp only [List.tail_cons] at hs
      have : s.value ∈ rest := by rw [← hmap.2]; exact List.mem_map_of_mem hs
      have hh := hheads _ this
      cases hv : s.value with
      | nil => rw [hv] at hh; cases hh
      | cons x r =>
        rw [hv] at hh
        simp only [List.head?_cons, Option.some.injEq] at hh
        exact hnb.1 (by rw [hv, hh]; simp)

theorem ParamSegs.nil (ic : Interceptors) : ParamSegs ic [] := fun _ h => by cases h

/-- Two accepted well-formed patterns whose segments agree up to parameter names are related. -/
theorem ambRel_of_upToNames {ic : Interceptors} {p q : Bytes} {psegs qsegs : List Seg} (hp : WfPattern p)
    (hq : WfPattern q) (hsp : split ic p = .ok psegs) (hsq : split ic q = .ok qsegs) (hu : UpToNames psegs qsegs) :
    AmbRel ic p q := by
  obtain ⟨hpe, hpl, hpok, hpt⟩ := split_segs_facts hp hsp
  obtain ⟨hqe, _, hqok, hqt⟩ := split_segs_facts hq hsq
  cases hu with
  | nil => exact ⟨[], [], [], false, [], NoBrace.nil, by simpa using hpe, by simpa using hqe, .nil, rfl,
      ParamSegs.nil ic, ParamSegs.nil ic⟩
  | @cons ps qs psegs' qsegs' hR hu' =>
    simp only [List.tail_cons] at hpt hqt
    have hpp' : ParamSegs ic psegs' := fun s hs => ⟨hpok s (by simp [hs]), hpt s hs⟩
    have hqq' : ParamSegs ic qsegs' := fun s hs => ⟨hqok s (by simp [hs]), hqt s hs⟩
    have hps := hpok ps (by simp)
    have hqs := hqok qs (by simp)
    by_cases hk : ps.kind = .str
    · -- a literal first segment: the same text on both sides
      have hval : ps.value = qs.value := by
        rcases hR with h | h
        · exact h
        · exact absurd hk h.1
      simp only [List.map_cons, List.flatten_cons] at hpe hqe hpl
      obtain ⟨_, _, seg, segs', _, _, hrest, hsegs⟩ := splitLoop_cons_inv hpl
      simp only [List.cons.injEq] at hsegs
      obtain ⟨rfl, rfl⟩ := hsegs
      exact ⟨ps.value, psegs', qsegs', _, _, hps.kind_str_iff.1 hk, hpe, by rw [hval]; exact hqe, hu', hrest,
        hpp', hqq'⟩
    · have hkq : qs.kind ≠ .str := by
        rcases hR with h | h
        · rw [← hps.eq_of_value hqs h]; exact hk
        · rw [← h.2.1]; exact hk
      refine ⟨[], ps :: psegs', qs :: qsegs', false, [], NoBrace.nil, by simpa using hpe, by simpa using hqe,
        .cons hR hu', hpl, ?_, ?_⟩
      · intro s hs
        rcases List.mem_cons.1 hs with rfl | hs
        · exact ⟨hps, hk⟩
        · exact hpp' s hs
      · intro s hs
        rcases List.mem_cons.1 hs with rfl | hs
        · exact ⟨hqs, hkq⟩
        · exact hqq' s hs

/-! ## Nodes and chains -/

theorem nodes_chain : ∀ (n x : Node), x ∈ n.nodes → ∃ segs, Chain n segs x := by
  intro n
  induction n using Node.rec (motive_2 := fun cs => ∀ x, x ∈ nodesL cs → ∃ c ∈ cs, ∃ segs, Chain c segs x) with
  | mk s p mi hs idx cs ih =>
    intro x hx
    simp only [Node.nodes, List.mem_cons] at hx
    rcases hx with rfl | hx
    · exact ⟨[], .nil _⟩
    · obtain ⟨c, hc, segs, hch⟩ := ih x hx
      exact ⟨c.seg :: segs, .cons (by simpa using hc) hch⟩
  | nil => rename_i x hx; simp [nodesL] at hx
  | cons c cs ih1 ih2 =>
    rename_i x hx
    simp only [nodesL, List.mem_append] at hx
    rcases hx with hx | hx
    · obtain ⟨segs, hch⟩ := ih1 x hx
      exact ⟨c, List.mem_cons_self, segs, hch⟩
    · obtain ⟨d, hd, segs, hch⟩ := ih2 x hx
      exact ⟨d, List.mem_cons_of_mem _ hd, segs, hch⟩

theorem nodesL_chain {n x : Node} (hx : x ∈ nodesL n.children) : ∃ segs, Chain n segs x := by
  apply nodes_chain
  cases n
  simp only [Node.nodes, List.mem_cons]
  exact .inr hx

theorem mem_nodesL_of_child {c m : Node} (hm : m ∈ c.nodes) : ∀ {cs : List Node}, c ∈ cs → m ∈ nodesL cs := by
  intro cs
  induction cs with
  | nil => intro hc; cases hc
  | cons d cs ihc =>
    intro hc
    simp only [nodesL, List.mem_append]
    rcases List.mem_cons.1 hc with rfl | hc
    · exact .inl hm
    · exact .inr (ihc hc)

theorem chain_in_nodes {n m : Node} {segs : List Seg} (h : Chain n segs m) : m ∈ n.nodes := by
  induction h with
  | nil n => cases n; simp [Node.nodes]
  | @cons n c m segs hc _ ih =>
    cases n with
    | mk s p mi hs idx cs =>
      simp only [Node.nodes, List.mem_cons]
      exact .inr (mem_nodesL_of_child ih hc)

theorem chain_below {n m : Node} {segs : List Seg} (h : Chain n segs m) (hne : segs ≠ []) :
    m ∈ nodesL n.children := by
  cases h with
  | nil => exact absurd rfl hne
  | @cons n c m segs hc hrest => exact mem_nodesL_of_child (chain_in_nodes hrest) hc



/-! ## The check never fails on a rest of an accepted pattern -/

/-- What is left of an accepted well-formed pattern when the check descends: literal text, then parameter
segments that `Split` accepts. -/
def GoodRest (ic : Interceptors) (P : Bytes) : Prop :=
  ∃ (lit : Bytes) (psegs : List Seg) (flag : Bool) (names : List Bytes),
    NoBrace lit ∧ lit.length ≤ maxInt16 ∧ P = lit ++ (psegs.map (·.value)).flatten ∧
    splitLoop ic (psegs.map (·.value)) flag names = .ok psegs ∧ ParamSegs ic psegs

theorem NoBrace.of_suffix_append {a b : Bytes} (h : NoBrace (a ++ b)) : NoBrace b :=
  ⟨fun hm => h.1 (List.mem_append_right _ hm), fun hm => h.2 (List.mem_append_right _ hm)⟩

/-- `Split` accepts a good rest; its first segment is the literal text (if any) or the first parameter. -/
theorem GoodRest.split_first {ic : Interceptors} {P : Bytes} (hg : GoodRest ic P) (hP : P ≠ []) :
    ∃ s0 segs, split ic P = .ok (s0 :: segs) ∧ GoodRest ic (P.drop s0.value.length) ∧
      (s0.kind ≠ .str → ∀ k, k ≤ s0.suffix.length →
        GoodRest ic (P.drop (s0.value.length - s0.suffix.length + k))) := by
  obtain ⟨lit, psegs, flag, names, hlit, hlen, hPe, hsl, hpp⟩ := hg
  by_cases hl : lit = []
  · subst hl
    simp only [List.nil_append] at hPe
    cases psegs with
    | nil => exact absurd (by simpa using hPe) hP
    | cons ps psegs' =>
      have hsplit : split ic P = .ok (ps :: psegs') := by
        have := split_of_pieces hpp.canon (by simp) hsl
        rw [hPe]; exact this
      obtain ⟨hpok, hpk⟩ := hpp ps (by simp)
      obtain ⟨b, sp, hpv, hb, hsp, hpsuf, _⟩ := hpok.param_facts hpk
      simp only [List.map_cons, List.flatten_cons] at hPe hsl
      obtain ⟨_, _, seg, segs', hseg, _, hrest, hsegs⟩ := splitLoop_cons_inv hsl
      simp only [List.cons.injEq] at hsegs
      obtain ⟨rfl, rfl⟩ := hsegs
      refine ⟨ps, psegs', hsplit, ?_, ?_⟩
      · rw [hPe, List.drop_left]
        exact ⟨[], psegs', _, _, NoBrace.nil, by simp, by simp, hrest, hpp.tail⟩
      · intro _ k hk
        rw [hpsuf] at hk ⊢
        have hoff : ps.value.length - sp.length + k = (tok b (sp.take k)).length := by
          rw [hpv, tok_length, tok_length, List.length_take, Nat.min_eq_left hk]; omega
        have hPe2 : P = tok b (sp.take k) ++ (sp.drop k ++ (psegs'.map (·.value)).flatten) := by
          rw [← List.append_assoc, ← tok_append_suffix, List.take_append_drop, hPe, hpv]
        rw [hoff, hPe2, List.drop_left]
        refine ⟨sp.drop k, psegs', _, _, hsp.drop k, ?_, rfl, hrest, hpp.tail⟩
        have := newSegment_len hseg
        rw [hpv, tok_length] at this
        simp only [List.length_drop]; omega
  · -- the literal text is the first piece
    have hlast : decide (lastByte lit = endByte) = false := by
      have := lastByte_mem hl
      simp only [decide_eq_false_iff_not]
      intro e; rw [e] at this; exact hlit.2 this
    have hhead : ¬ lit.headD 0 = startByte := by
      cases lit with
      | nil => exact absurd rfl hl
      | cons x r => simp only [List.headD_cons]; intro e; exact hlit.1 (by simp [e])
    have hrest := splitLoop_mono ic _ flag false names [] psegs hsl (fun h => by cases h) (fun x hx => by cases hx)
    have hsl2 : splitLoop ic (lit :: psegs.map (·.value)) false [] = .ok ({ value := lit } :: psegs) := by
      simp only [splitLoop, bind, Except.bind, atE_zero _ _ hl, atE_last _ _ hl, pure, Except.pure, throw,
        throwThe, MonadExceptOf.throw, newSegment_noStart ic hlit.1 hlen, hlast, Bool.false_eq_true, false_and,
        if_false, ne_eq, not_true_eq_false, hrest]
    have hcanon : Canon (lit :: psegs.map (·.value)) := by
      have hc := hpp.canon
      refine ⟨?_, ?_, ?_⟩
      · intro x hx
        rcases List.mem_cons.1 hx with rfl | hx
        · exact .inl hlit
        · exact hc.wf x hx
      · intro x hx
        rcases List.mem_cons.1 hx with rfl | hx
        · exact hl
        · exact hc.ne x hx
      · intro x hx
        simp only [List.tail_cons] at hx
        obtain ⟨s, hs, rfl⟩ := List.mem_map.1 hx
        obtain ⟨hok, hk⟩ := hpp s hs
        obtain ⟨b, suf, hv, _⟩ := hok.tok_of_kind hk
        simp [hv, tok]
    have hsplit : split ic P = .ok ({ value := lit } :: psegs) := by
      have := split_of_pieces hcanon (by simp) hsl2
      rw [hPe]; simpa using this
    refine ⟨{ value := lit }, psegs, hsplit, ?_, fun h => absurd rfl h⟩
    simp only []
    rw [hPe, List.drop_left]
    exact ⟨[], psegs, flag, names, NoBrace.nil, by simp, by simp, hsl, hpp⟩

/-- Below a node (satisfying I-seg) whose text is a prefix of a good rest, the rest is good again. -/
theorem GoodRest.drop_prefix {ic : Interceptors} {P : Bytes} (hg : GoodRest ic P) {s : Seg} (hs : SegOk ic s)
    (hpre : s.value <+: P) : GoodRest ic (P.drop s.value.length) := by
  obtain ⟨lit, psegs, flag, names, hlit, hlen, hPe, hsl, hpp⟩ := hg
  obtain ⟨r, hr⟩ := hpre
  by_cases hk : s.kind = .str
  · have hnb : NoBrace s.value := hs.kind_str_iff.1 hk
    obtain ⟨lit', hl'⟩ := noBrace_prefix_of_append hnb (hr.trans hPe) hpp.head_start
    subst hl'
    rw [hPe, List.append_assoc, List.drop_left]
    refine ⟨lit', psegs, flag, names, hlit.of_suffix_append, ?_, rfl, hsl, hpp⟩
    simp only [List.length_append] at hlen; omega
  · obtain ⟨b, sc, hv, hb, hsc, _⟩ := hs.param_facts hk
    have hl0 : lit = [] := by
      cases lit with
      | nil => rfl
      | cons x l =>
        exfalso
        have h := hr.trans hPe
        rw [hv] at h
        simp only [tok, List.cons_append, List.cons.injEq] at h
        exact hlit.1 (by rw [← h.1]; simp)
    subst hl0
    simp only [List.nil_append] at hPe
    cases psegs with
    | nil =>
      exfalso
      have h := hr.trans hPe
      rw [hv] at h
      simp [tok] at h
    | cons ps psegs' =>
      obtain ⟨hpok, hpk⟩ := hpp ps (by simp)
      obtain ⟨bp, sp, hpv, hbp, hsp, _⟩ := hpok.param_facts hpk
      simp only [List.map_cons, List.flatten_cons] at hPe hsl
      obtain ⟨_, _, seg, segs', hseg, _, hrest, hsegs⟩ := splitLoop_cons_inv hsl
      simp only [List.cons.injEq] at hsegs
      obtain ⟨rfl, rfl⟩ := hsegs
      have h := hr.trans hPe
      rw [hv, hpv] at h
      obtain ⟨e1, h2⟩ := tok_append_inj hb.2 hbp.2 h
      subst e1
      obtain ⟨d, hd⟩ := noBrace_prefix_of_append hsc h2 hpp.tail.head_start
      subst hd
      have hPe2 : P = s.value ++ (d ++ (psegs'.map (·.value)).flatten) := by
        rw [hPe, hpv, hv, tok_append_suffix, List.append_assoc]
      rw [hPe2, List.drop_left]
      refine ⟨d, psegs', _, _, hsp.of_suffix_append, ?_, rfl, hrest, hpp.tail⟩
      have := newSegment_len hseg
      rw [hpv, tok_length] at this
      simp only [List.length_append] at this; omega

/-- One child of the loop does not fail on a good rest if the descents into it do not. -/
theorem ambStep_good {ic : Interceptors} {c : Node} {P : Bytes} {has : Bool} (hc : SegOk ic c.seg)
    (hg : GoodRest ic P) (hP : P ≠ [])
    (ih : ∀ P' has' e, GoodRest ic P' → c.checkAmb ic P' has' ≠ .error e) :
    ∀ e, ambStep ic c P has ≠ .error e := by
  intro e
  unfold ambStep
  split
  · rename_i hpre
    exact ih _ _ _ (hg.drop_prefix hc ((hasPrefix_iff _ _).1 hpre))
  · obtain ⟨s0, segs, hsplit, hg1, hg2⟩ := hg.split_first hP
    rw [hsplit]
    simp only []
    obtain ⟨_, _, heq, hs0p, _⟩ := split_ok_first hsplit
    cases heq
    split
    · rw [sliceE_drop 251 P hs0p.length_le]
      exact ih _ _ _ hg1
    · split
      · rename_i hpfx
        rw [sliceE_drop 252 P (ambPrefix_offset_le hsplit hpfx)]
        have h := hpfx
        simp only [Seg.isAmbiguousPrefix, Bool.decide_and, Bool.and_eq_true, decide_eq_true_eq] at h
        exact ih _ _ _ (hg2 (by rw [← h.2.1]; exact h.1) _ (Nat.le_of_lt h.2.2.2.2.1))
      · intro h; cases h

mutual
/-- **`checkAmbiguous` does not fail on a rest of an accepted well-formed pattern**, on a tree all of whose nodes
satisfy I-seg: every `Split` it calls is a `Split` of literal text followed by accepted parameter segments. -/
theorem checkAmb_good (ic : Interceptors) : (n : Node) → AllL (fun c => SegOk ic c.seg) n.children →
    (P : Bytes) → (has : Bool) → (e : Err) → GoodRest ic P → n.checkAmb ic P has ≠ .error e
  | .mk s p mi hs idx cs, hall, P, has, e, hg => by
    simp only [Node.checkAmb]
    split
    · split <;> (intro h; cases h)
    · rename_i hemp
      have hP : P ≠ [] := by simpa using hemp
      exact checkAmbL_good ic cs hall P has e hg hP
theorem checkAmbL_good (ic : Interceptors) : (cs : List Node) → AllL (fun c => SegOk ic c.seg) cs →
    (P : Bytes) → (has : Bool) → (e : Err) → GoodRest ic P → P ≠ [] → checkAmbL ic cs P has ≠ .error e
  | [], _, _, _, _, _, _ => by simp [checkAmbL]
  | c :: cs, hall, P, has, e, hg, hP => by
    have hc : Node.All (fun c => SegOk ic c.seg) c := hall.1
    rw [Node.All_iff] at hc
    rw [checkAmbL_cons]
    have hstep := ambStep_good (has := has) hc.1 hg hP (fun P' has' e' hg' => checkAmb_good ic c hc.2 P' has' e' hg')
    cases hr : ambStep ic c P has with
    | error e' => exact absurd hr (hstep e')
    | ok r =>
      cases r with
      | some b => intro h; cases h
      | none => exact checkAmbL_good ic cs hall.2 P has e hg hP
end


/-- An accepted well-formed pattern is a good rest of itself. -/
theorem goodRest_of_split {ic : Interceptors} {p : Bytes} {psegs : List Seg} (hp : WfPattern p)
    (hsp : split ic p = .ok psegs) : GoodRest ic p := by
  obtain ⟨hpe, hpl, hpok, hpt⟩ := split_segs_facts hp hsp
  cases psegs with
  | nil => exact ⟨[], [], false, [], NoBrace.nil, by simp, by simpa using hpe, rfl, ParamSegs.nil ic⟩
  | cons ps psegs' =>
    simp only [List.tail_cons] at hpt
    have hpp' : ParamSegs ic psegs' := fun s hs => ⟨hpok s (by simp [hs]), hpt s hs⟩
    have hps := hpok ps (by simp)
    by_cases hk : ps.kind = .str
    · simp only [List.map_cons, List.flatten_cons] at hpe hpl
      obtain ⟨_, _, seg, segs', hseg, _, hrest, hsegs⟩ := splitLoop_cons_inv hpl
      simp only [List.cons.injEq] at hsegs
      obtain ⟨rfl, rfl⟩ := hsegs
      exact ⟨ps.value, psegs', _, _, hps.kind_str_iff.1 hk, newSegment_len hseg, hpe, hrest, hpp'⟩
    · refine ⟨[], ps :: psegs', false, [], NoBrace.nil, by simp, by simpa using hpe, hpl, ?_⟩
      intro s hs
      rcases List.mem_cons.1 hs with rfl | hs
      · exact ⟨hps, hk⟩
      · exact hpp' s hs

/-! ## The text a step of the new branch skips -/

/-- **What a step of the new branch consumes.** The node's segment `c` and the first segment `s0` of the rest of the
pattern both satisfy I-seg and `c.isAmbiguousPrefix s0`.  Then `c` is `{bc}suf`, `s0` is `{b0}suf·d` with `d ≠ []`,
the two tokens have the same kind and the same rule text but `bc ≠ b0` (another name or `-` flag), and the text the
step skips is `{b0}suf`: the node's text with the other token in front, i.e. the node's text up to the parameter
name.  What follows (`d …`) is left to the children of the node. -/
theorem ambPrefix_consumed {ic : Interceptors} {c s0 : Seg} (hc : SegOk ic c) (h0 : SegOk ic s0)
    (hp : c.isAmbiguousPrefix s0 = true) {pat : Bytes} (hpre : s0.value <+: pat) :
    ∃ bc b0 d, c.value = tok bc c.suffix ∧ s0.value = tok b0 (c.suffix ++ d) ∧ d ≠ [] ∧ bc ≠ b0 ∧
      bodyRule bc = bodyRule b0 ∧ c.kind = s0.kind ∧
      pat.take (s0.value.length - s0.suffix.length + c.suffix.length) = tok b0 c.suffix ∧
      pat.drop (s0.value.length - s0.suffix.length + c.suffix.length) = d ++ pat.drop s0.value.length := by
  simp only [Seg.isAmbiguousPrefix, Bool.decide_and, Bool.and_eq_true, decide_eq_true_eq] at hp
  obtain ⟨hck, hkk, hrr, hnm, hlt, hpf⟩ := hp
  obtain ⟨bc, sc, hcv, _, _, hcsuf, hcname, hcign, hcrule, _⟩ := hc.param_facts hck
  obtain ⟨b0, s0s, h0v, _, _, h0suf, h0name, h0ign, h0rule, _⟩ := h0.param_facts (hkk ▸ hck)
  obtain ⟨d, hd⟩ := (hasPrefix_iff _ _).1 hpf
  rw [hcsuf, h0suf] at hd
  subst hd
  obtain ⟨r, hr⟩ := hpre
  have hoff : s0.value.length - s0.suffix.length + c.suffix.length = (tok b0 sc).length := by
    rw [h0v, h0suf, hcsuf, tok_length, tok_length]; simp only [List.length_append]; omega
  have hpat : pat = tok b0 sc ++ (d ++ r) := by
    rw [← hr, h0v, tok_append_suffix, List.append_assoc]
  refine ⟨bc, b0, d, by rw [hcsuf]; exact hcv, by rw [hcsuf]; exact h0v, ?_, ?_, ?_, hkk, ?_, ?_⟩
  · intro e
    subst e
    rw [hcsuf, h0suf] at hlt
    simp at hlt
  · intro e
    subst e
    rcases hnm with h | h
    · exact h (by rw [hcname, h0name])
    · exact h (by rw [hcign, h0ign])
  · rw [← hcrule, ← h0rule]; exact hrr
  · rw [hoff, hcsuf, hpat, List.take_left]
  · have h2 : pat.drop s0.value.length = r := by rw [← hr, List.drop_left]
    rw [h2, hoff, hpat, List.drop_left]

/-! ## Assembly -/

/-- A rejecting verdict of the ambiguity check makes `Tree.add` fail, with `ambiguous` or a syntax error. -/
theorem add_error_of_rej {t : Tree} {p : Bytes} (hrej : Rej (t.root.checkAmb t.ic p false)) (h : Handler)
    (ms : List Nat) (methods : List Bytes) :
    ∃ e, t.add p h ms methods = .error e ∧ (e = .ambiguous ∨ SynErr e) := by
  rw [add_eq]
  rcases hrej with ⟨e, he⟩ | he
  · rw [he]
    exact ⟨e, rfl, .inr (checkAmb_error _ _ _ _ _ he)⟩
  · rw [he]
    exact ⟨.ambiguous, rfl, .inl rfl⟩

/-- The live node of the only route of a reachable tree, with its chain. -/
theorem one_route_chain {t : Tree} (hr : ReachWf t) {q : Bytes} (hq : q ∈ (tableOf t).patterns) :
    ∃ (x : Node) (segs : List Seg), Chain t.root segs x ∧ x.handlers ≠ [] ∧
      (segs.map (·.value)).flatten = q ∧ ∀ s ∈ segs, SegOk t.ic s := by
  simp only [tableOf, Spec.Table.patterns, liveL, List.map_map, List.mem_map, List.mem_filter] at hq
  obtain ⟨x, ⟨hx, hlive⟩, hxq⟩ := hq
  obtain ⟨segs, hch⟩ := nodesL_chain hx
  refine ⟨x, segs, hch, ?_, ?_, reach_chain_segOk hr hch⟩
  · intro e; rw [e] at hlive; simp at hlive
  · rw [← reach_chain_pattern hr hch]; exact hxq

/-- A node with handlers below the root of a reachable tree spells a pattern of the table. -/
theorem live_chain_mem {t : Tree} (hr : ReachWf t) {m : Node} {segs : List Seg} (hch : Chain t.root segs m)
    (hne : segs ≠ []) (hm : m.handlers ≠ []) : (segs.map (·.value)).flatten ∈ (tableOf t).patterns := by
  have hmem := chain_below hch hne
  simp only [tableOf, Spec.Table.patterns, liveL, List.map_map, List.mem_map, List.mem_filter]
  refine ⟨m, ⟨hmem, ?_⟩, ?_⟩
  · cases hh : m.handlers with
    | nil => exact absurd hh hm
    | cons _ _ => rfl
  · rw [← reach_chain_pattern hr hch]; rfl

/-- The verdict of the ambiguity check in the situation of `ambig_one_history`: a rejection. -/
theorem ambig_one_rej {t : Tree} (hr : ReachWf t) {q p : Bytes} (hone : (tableOf t).patterns = [q])
    (hp : WfPattern p) {psegs qsegs : List Seg} (hsp : split t.ic p = .ok psegs) (hsq : split t.ic q = .ok qsegs)
    (hu : UpToNames psegs qsegs) (hne : p ≠ q) : Rej (t.root.checkAmb t.ic p false) := by
  obtain ⟨x, segs, hch, hx, htext, hok⟩ := one_route_chain hr (q := q) (by rw [hone]; simp)
  have hq : WfPattern q := by
    apply Mux.P14.wfPattern_P9
    unfold Mux.WfPattern
    rw [← htext]
    exact Mux.P14.wfBraces_flatten _ (fun v hv => by
      obtain ⟨s, hs, rfl⟩ := List.mem_map.1 hv
      exact (hok s hs).wf)
  have hpne : p ≠ [] := by intro e; subst e; simp [split] at hsp
  have hrel : AmbRel t.ic p (segs.map (·.value)).flatten := by
    rw [htext]; exact ambRel_of_upToNames hp hq hsp hsq hu
  apply checkAmb_chain_rej hch hx hok p false hrel
  · intro _ m' segs' hch' hm' htext'
    by_cases hs : segs' = []
    · subst hs
      exact hpne (by simpa using htext'.symm)
    · have := live_chain_mem hr hch' hs hm'
      rw [hone, htext', List.mem_singleton] at this
      exact hne this
  · right
    rw [htext]; exact hne

/-- **One other route, after any history.** `t` is the tree of a history of `Handle`/`Remove`/`Clean`/`Use` with
well-formed patterns; its table holds exactly one pattern `q`. `p ≠ q` is an accepted well-formed pattern whose
segments are, one by one, the same text as `q`'s or a name variant (`UpToNames`). Then `Handle p` is refused as
`ambiguous`: the check finds its way down the chain to `q` (`checkAmb_chain_rej`), and it cannot fail on the way,
because every `Split` it calls — also while a handler-less sibling left behind by a `Remove` is tried — is a
`Split` of a rest of the accepted pattern `p` (`checkAmb_good`). -/
theorem ambig_one_history {t : Tree} (hr : ReachWf t) {q p : Bytes} (hone : (tableOf t).patterns = [q])
    (hp : WfPattern p) {psegs qsegs : List Seg} (hsp : split t.ic p = .ok psegs) (hsq : split t.ic q = .ok qsegs)
    (hu : UpToNames psegs qsegs) (hne : p ≠ q) (h : Handler) (ms : List Nat) (methods : List Bytes) :
    t.add p h ms methods = .error .ambiguous := by
  have hrej := ambig_one_rej hr hone hp hsp hsq hu hne
  have hgood := checkAmb_good t.ic t.root (reach_segOk hr) p false
  rw [add_eq]
  rcases hrej with ⟨e, he⟩ | he
  · exact absurd he (hgood e (goodRest_of_split hp hsp))
  · rw [he]

end Mux.P9
