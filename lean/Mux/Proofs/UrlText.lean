/-
  Mux.Proofs.UrlText — the byte-level substitution `Spec.substText` (Mux/Spec/UrlText.lean) agrees with the
  model's non-strict URL building (`split`, then `urlLoop`) on EVERY pattern that `Split` accepts — no
  well-formedness hypothesis: nested `{`, stray `}`, an unclosed `{…` are covered.

  Route: (1) the pieces `splitString` cuts have one of three shapes (`Shape`); running the scan piece by piece
  and concatenating gives the scan of the whole text (`splitAux_scan`); (2) for a piece of each shape, the
  segment `NewSegment` builds substitutes exactly as the scan of the piece does (`seg_subst_piece`; for the
  token shape this is `newSegment_tok'`, the lemma of `UrlToks.lean` with the brace hypotheses weakened to
  "no `}` in the body"); (3) induction along `splitLoop`.
-/
import Mux.Spec.UrlText
import Mux.Proofs.UrlToks
namespace Mux.P28
open Mux Mux.Spec Mux.P9 Mux.P13

/-! ## The scan on literal text, inside a token, on an unclosed token -/

/-- Append under `Option`: both parts must be there. -/
def app2 : Option Bytes → Option Bytes → Option Bytes
  | some a, some b => some (a ++ b)
  | _, _ => none

theorem app2_some_nil (x : Option Bytes) : app2 x (some []) = x := by
  cases x <;> simp [app2]

theorem app2_assoc (x y z : Option Bytes) : app2 (app2 x y) z = app2 x (app2 y z) := by
  cases x <;> cases y <;> cases z <;> simp [app2]

theorem app2_some_left (a : Bytes) (y : Option Bytes) : app2 (some a) y = y.map (a ++ ·) := by
  cases y <;> simp [app2]

/-- Literal text (no `{`) is copied. -/
theorem substFrom_lit (ps : AMap Bytes) (x r : Bytes) (hx : startByte ∉ x) :
    substFrom ps none (x ++ r) = (substFrom ps none r).map (x ++ ·) := by
  induction x with
  | nil => simp
  | cons b x ih =>
    simp only [List.mem_cons, not_or] at hx
    have hb : ¬ b = startByte := fun e => hx.1 e.symm
    simp only [List.cons_append, substFrom, hb, if_false]
    rw [ih hx.2]
    cases substFrom ps none r <;> simp

theorem substFrom_lit_nil (ps : AMap Bytes) (x : Bytes) (hx : startByte ∉ x) : substFrom ps none x = some x := by
  have := substFrom_lit ps x [] hx
  simpa [substFrom] using this

/-- Inside a token: up to the next `}`, then the lookup. -/
theorem substFrom_body (ps : AMap Bytes) (body w r : Bytes) (hw : endByte ∉ w) :
    substFrom ps (some body) (w ++ endByte :: r) = app2 (ps.get? (tokName (body ++ w))) (substFrom ps none r) := by
  induction w generalizing body with
  | nil =>
    simp only [List.nil_append, substFrom, if_true, List.append_nil]
    cases ps.get? (tokName body) <;> cases substFrom ps none r <;> simp [app2]
  | cons b w ih =>
    simp only [List.mem_cons, not_or] at hw
    have hb : ¬ b = endByte := fun e => hw.1 e.symm
    simp only [List.cons_append, substFrom, hb, if_false]
    rw [ih _ hw.2]
    simp

/-- A `{` that is never closed is literal text. -/
theorem substFrom_open (ps : AMap Bytes) (body w : Bytes) (hw : endByte ∉ w) :
    substFrom ps (some body) w = some (startByte :: (body ++ w)) := by
  induction w generalizing body with
  | nil => simp [substFrom]
  | cons b w ih =>
    simp only [List.mem_cons, not_or] at hw
    have hb : ¬ b = endByte := fun e => hw.1 e.symm
    simp only [substFrom, hb, if_false]
    rw [ih _ hw.2]
    simp

/-- The scan of a token piece `{body}suf`. -/
theorem substText_tok (ps : AMap Bytes) (body suf r : Bytes) (hb : endByte ∉ body) :
    substFrom ps none (tok body suf ++ r) = app2 (ps.get? (tokName body)) (substFrom ps none (suf ++ r)) := by
  simp only [tok, List.cons_append, substFrom, if_true, List.append_assoc]
  have := substFrom_body ps [] body (suf ++ r) hb
  simpa using this

/-! ## The shapes of the pieces of `splitString` -/

/-- A closed piece: literal text without `{`, or `{body}suf` with no `}` in `body` and no `{` in `suf`. -/
def ClosedPiece (v : Bytes) : Prop :=
  startByte ∉ v ∨ ∃ body suf, v = tok body suf ∧ endByte ∉ body ∧ startByte ∉ suf

/-- An open piece: `{w` with no `}` (only the last piece of a pattern can be one). -/
def OpenPiece (v : Bytes) : Prop := ∃ w, v = startByte :: w ∧ endByte ∉ w

/-- What `splitString` can emit. -/
def Shape (v : Bytes) : Prop := ClosedPiece v ∨ OpenPiece v

/-- The invariant of `splitAux` on the piece in progress. -/
def CurOk : Bool → Bytes → Prop
  | false, cur => ClosedPiece cur
  | true, cur => OpenPiece cur

/-- After a closed piece the scan is outside a token: it splits there. -/
theorem substFrom_closed (ps : AMap Bytes) {v : Bytes} (hv : ClosedPiece v) (r : Bytes) :
    substFrom ps none (v ++ r) = app2 (substFrom ps none v) (substFrom ps none r) := by
  rcases hv with hv | ⟨body, suf, rfl, hb, hs⟩
  · rw [substFrom_lit ps v r hv, substFrom_lit_nil ps v hv, app2_some_left]
  · rw [substText_tok ps body suf r hb, substFrom_lit ps suf r hs]
    have := substText_tok ps body suf [] hb
    simp only [List.append_nil] at this
    rw [this, substFrom_lit_nil ps suf hs, app2_assoc, app2_some_left]

theorem closed_snoc {cur : Bytes} (h : ClosedPiece cur) {b : UInt8} (hb : b ≠ startByte) : ClosedPiece (cur ++ [b]) := by
  rcases h with h | ⟨body, suf, rfl, h1, h2⟩
  · left
    simp only [List.mem_append, List.mem_singleton, not_or]
    exact ⟨h, fun e => hb e.symm⟩
  · right
    refine ⟨body, suf ++ [b], by simp [tok], h1, ?_⟩
    simp only [List.mem_append, List.mem_singleton, not_or]
    exact ⟨h2, fun e => hb e.symm⟩

/-- Running the scan piece by piece. -/
def scanPieces (ps : AMap Bytes) : List Bytes → Option Bytes
  | [] => some []
  | v :: vs => app2 (substFrom ps none v) (scanPieces ps vs)

/-- **Pieces.**  Every piece `splitAux` emits has one of the shapes, and scanning them one by one is scanning
the whole text. -/
theorem splitAux_scan (ps : AMap Bytes) : ∀ (rest : Bytes) (st : Bool) (cur : Bytes), CurOk st cur →
    (∀ q ∈ splitAux st cur rest, Shape q) ∧
    scanPieces ps (splitAux st cur rest) =
      (match st with
       | false => substFrom ps none (cur ++ rest)
       | true => substFrom ps (some (cur.drop 1)) rest) := by
  intro rest
  induction rest with
  | nil =>
    intro st cur h
    cases st with
    | false =>
      simp only [splitAux, List.mem_singleton, forall_eq, scanPieces, app2_some_nil, List.append_nil]
      exact ⟨.inl h, trivial⟩
    | true =>
      obtain ⟨w, rfl, hw⟩ := h
      simp only [splitAux, List.mem_singleton, forall_eq, scanPieces, app2_some_nil, List.drop_succ_cons,
        List.drop_zero]
      refine ⟨.inr ⟨w, rfl, hw⟩, ?_⟩
      simp only [substFrom, if_true]
      rw [substFrom_open ps [] w hw]
      simp
  | cons b rest ih =>
    intro st cur h
    cases st with
    | false =>
      by_cases hb : b = startByte
      · subst hb
        have hopen : CurOk true [startByte] := ⟨[], rfl, by simp⟩
        obtain ⟨i1, i2⟩ := ih true [startByte] hopen
        simp only [List.drop_succ_cons, List.drop_zero] at i2
        have hscan : substFrom ps none (cur ++ startByte :: rest) =
            app2 (substFrom ps none cur) (substFrom ps (some []) rest) := by
          rw [substFrom_closed ps h]
          simp [substFrom]
        simp only [splitAux, if_true]
        by_cases hc : cur = []
        · subst hc
          simp only [if_true, List.nil_append]
          refine ⟨i1, ?_⟩
          rw [i2]
          simp [substFrom]
        · simp only [hc, if_false, List.mem_cons, forall_eq_or_imp, scanPieces]
          exact ⟨⟨.inl h, i1⟩, by rw [i2, hscan]⟩
      · have hcl : CurOk false (cur ++ [b]) := closed_snoc h hb
        obtain ⟨i1, i2⟩ := ih false (cur ++ [b]) hcl
        simp only [splitAux, hb, if_false]
        refine ⟨i1, ?_⟩
        rw [i2]
        simp
    | true =>
      obtain ⟨w, rfl, hw⟩ := h
      by_cases hb : b = endByte
      · subst hb
        have hcl : CurOk false (startByte :: w ++ [endByte]) :=
          .inr ⟨w, [], by simp [tok], hw, by simp⟩
        obtain ⟨i1, i2⟩ := ih false _ hcl
        simp only [splitAux, if_true]
        refine ⟨i1, ?_⟩
        rw [i2]
        simp only [List.drop_succ_cons, List.drop_zero]
        have h1 := substText_tok ps w [] rest hw
        simp only [tok, List.nil_append, List.cons_append] at h1
        have h2 := substFrom_body ps w [] rest (by simp)
        simp only [List.nil_append, List.append_nil] at h2
        rw [h2]
        simpa using h1
      · have hop : CurOk true (startByte :: w ++ [b]) := by
          refine ⟨w ++ [b], by simp, ?_⟩
          simp only [List.mem_append, List.mem_singleton, not_or]
          exact ⟨hw, fun e => hb e.symm⟩
        obtain ⟨i1, i2⟩ := ih true _ hop
        simp only [splitAux, hb, if_false]
        refine ⟨i1, ?_⟩
        rw [i2]
        simp [substFrom, hb]

theorem splitString_scan (ps : AMap Bytes) (p : Bytes) :
    (∀ q ∈ splitString p, Shape q) ∧ scanPieces ps (splitString p) = substText ps p := by
  have := splitAux_scan ps p false [] (.inl (by simp))
  simpa [splitString, substText] using this

/-! ## The segment of a token piece (brace hypotheses of `P13.newSegment_tok` weakened) -/

/-- `{body}suf` with no `}` in `body` (a `{` in the body, a `}` in the suffix are allowed): whatever the
interceptors, the segment is a parameter whose name and `-` flag are read off the body, with the suffix `suf`. -/
theorem newSegment_tok' {ic : Interceptors} {body suf : Bytes} {s : Seg} (hb : endByte ∉ body)
    (h : newSegment ic (tok body suf) = .ok s) :
    s.kind ≠ .str ∧ s.suffix = suf ∧ s.name = (bodyName body).1 ∧ s.ignoreName = (bodyName body).2 := by
  have hst := tok_start body suf
  have hen := tok_end suf hb
  obtain ⟨hk, hsuf, _⟩ := newSegment_brace_facts h hst hen
  have hsuf' : s.suffix = suf := by
    rw [hsuf]
    have := tok_drop body suf 0
    simpa using this
  refine ⟨hk, hsuf', ?_⟩
  have hlen := newSegment_len h
  rw [newSegment_closed, if_neg (by omega), hst, hen] at h
  simp only [] at h
  have named_en : (mkNamed (tok body suf) 0 (body.length + 1) (body.length + 1)).name =
        (stripIgn body).1 ∧
      (mkNamed (tok body suf) 0 (body.length + 1) (body.length + 1)).ignoreName = (stripIgn body).2 := by
    simp only [mkNamed, Nat.zero_add]
    rw [tok_take_drop1 body suf body.length (Nat.le_refl _), List.take_length]
    exact ⟨rfl, rfl⟩
  rcases tok_sep body suf with ⟨k, hk1, hk2⟩ | ⟨hnone, hk2 | ⟨j, hk2⟩⟩
  · have hkl : k < body.length := indexByte_some_lt hk1
    have hbn : bodyName body = stripIgn (body.take k) := by simp [bodyName, hk1]
    have named_sp : (mkNamed (tok body suf) 0 (body.length + 1) (k + 1)).name = (stripIgn (body.take k)).1 ∧
        (mkNamed (tok body suf) 0 (body.length + 1) (k + 1)).ignoreName = (stripIgn (body.take k)).2 := by
      simp only [mkNamed, Nat.zero_add]
      rw [tok_take_drop1 body suf k (by omega)]
      exact ⟨rfl, rfl⟩
    rw [hk2] at h
    simp only [] at h
    split at h
    · cases h
    split at h
    · cases h; rw [hbn]; exact named_sp
    split at h
    · omega
    split at h
    · cases h
    · unfold finishRuled at h
      simp only [Nat.zero_add] at h
      rw [tok_take_drop1 body suf k (by omega)] at h
      rw [hbn]
      split at h
      · cases h; exact ⟨rfl, rfl⟩
      · split at h
        · cases h
        · split at h
          · cases h
          · cases h; exact ⟨rfl, rfl⟩
  · have hbn : bodyName body = stripIgn body := by simp [bodyName, hnone]
    rw [hk2] at h
    simp only [] at h
    split at h
    · cases h
    · cases h; rw [hbn]; exact named_en
  · have hbn : bodyName body = stripIgn body := by simp [bodyName, hnone]
    rw [hk2] at h
    simp only [] at h
    split at h
    · cases h
    split at h
    · omega
    split at h
    · cases h; rw [hbn]; exact named_en
    · omega

/-- `take` up to the first occurrence is `takeWhile`. -/
theorem take_indexByte (b : UInt8) (x : Bytes) :
    x.take ((indexByte b x).getD x.length) = x.takeWhile (· ≠ b) := by
  induction x with
  | nil => rfl
  | cons c x ih =>
    by_cases hc : c = b
    · simp [indexByte, hc, List.takeWhile]
    · simp only [indexByte, hc, if_false, List.takeWhile, ne_eq, not_false_eq_true, decide_true]
      cases hi : indexByte b x with
      | none => rw [hi] at ih; simp only [Option.map_none, Option.getD_none, List.length_cons, List.take_succ_cons]
                simp only [Option.getD_none] at ih; rw [ih]
      | some k => rw [hi] at ih; simp only [Option.map_some, Option.getD_some, List.take_succ_cons]
                  simp only [Option.getD_some] at ih; rw [ih]

/-- The specification's name of a token body is the model's. -/
theorem tokName_eq (body : Bytes) : tokName body = (bodyName body).1 := by
  unfold tokName bodyName
  rw [take_indexByte]
  cases body.takeWhile (· ≠ separatorByte) with
  | nil => rfl
  | cons b r =>
    simp only [stripIgn]
    split <;> rfl

/-! ## One piece -/

/-- What a segment contributes to the URL. -/
def segSubst (ps : AMap Bytes) (s : Seg) : Option Bytes :=
  if s.kind = .str then some s.value else (ps.get? s.name).map (· ++ s.suffix)

/-- **Per piece**: the segment `NewSegment` makes of a piece substitutes as the scan of the piece does. -/
theorem seg_subst_piece (ps : AMap Bytes) {ic : Interceptors} {q : Bytes} {s : Seg} (hq : Shape q)
    (h : newSegment ic q = .ok s) : segSubst ps s = substFrom ps none q := by
  rcases hq with (hq | ⟨body, suf, rfl, hb, hs⟩) | ⟨w, rfl, hw⟩
  · have := newSegment_str_of_noStart h hq
    subst this
    simp [segSubst, substFrom_lit_nil ps q hq]
  · obtain ⟨hk, hsuf, hn, _⟩ := newSegment_tok' hb h
    have := substText_tok ps body suf [] hb
    simp only [List.append_nil] at this
    rw [this, substFrom_lit_nil ps suf hs, segSubst, if_neg hk, hsuf, hn, tokName_eq]
    cases ps.get? (bodyName body).1 <;> simp [app2]
  · have hen : indexByte endByte (startByte :: w) = none := by
      rw [indexByte_eq_none_iff]
      simp only [List.mem_cons, not_or]
      exact ⟨by decide, hw⟩
    have hlen := newSegment_len h
    rw [newSegment_closed, if_neg (by omega), hen] at h
    have : s = { value := startByte :: w } := by
      cases hst : indexByte startByte (startByte :: w) <;> rw [hst] at h <;> cases h <;> rfl
    subst this
    simp only [segSubst, if_true, substFrom]
    rw [substFrom_open ps [] w hw]
    simp

/-! ## The loop -/

/-- `urlLoop` as an `Option`: the only error is the missing parameter. -/
def optUrl : Option Bytes → Except Err Bytes
  | some u => .ok u
  | none => .error .missingParam

theorem urlLoop_cons_segSubst (ps : AMap Bytes) (s : Seg) (segs : List Seg) (o : Option Bytes)
    (h : urlLoop ps segs = optUrl o) : urlLoop ps (s :: segs) = optUrl (app2 (segSubst ps s) o) := by
  simp only [urlLoop, segSubst, bind, Except.bind, pure, Except.pure]
  by_cases hk : s.kind = .str
  · simp only [hk, if_true, h]
    cases o <;> simp [optUrl, app2]
  · simp only [hk, if_false]
    cases ps.get? s.name with
    | none => simp [optUrl, app2]
    | some v =>
      simp only [h]
      cases o <;> simp [optUrl, app2]

theorem splitLoop_scan (ps : AMap Bytes) {ic : Interceptors} : ∀ (vs : List Bytes) (flag : Bool) (names : List Bytes)
    (segs : List Seg), (∀ q ∈ vs, Shape q) → splitLoop ic vs flag names = .ok segs →
    urlLoop ps segs = optUrl (scanPieces ps vs)
  | [], _, _, segs, _, h => by
    simp only [splitLoop, Except.ok.injEq] at h
    subst h
    rfl
  | v :: vs, flag, names, segs, hsh, h => by
    obtain ⟨_, _, seg, segs', h1, _, h2, rfl⟩ := splitLoop_cons_inv h
    have ih := splitLoop_scan ps vs _ _ segs' (fun q hq => hsh q (List.mem_cons_of_mem _ hq)) h2
    rw [urlLoop_cons_segSubst ps seg segs' _ ih, seg_subst_piece ps (hsh v List.mem_cons_self) h1]
    rfl

/-- **Substitution, text form.**  Whenever `Split` (under ANY interceptors) accepts the pattern, the URL built
from its segments is the byte-level substitution of the pattern text; it fails — with "missing parameter" — exactly
when the scan finds a token whose name has no value. -/
theorem urlLoop_split_text {ic : Interceptors} {p : Bytes} {segs : List Seg} (h : split ic p = .ok segs)
    (ps : AMap Bytes) : urlLoop ps segs = optUrl (substText ps p) := by
  unfold split at h
  split at h
  · cases h
  · obtain ⟨h1, h2⟩ := splitString_scan ps p
    rw [← h2]
    exact splitLoop_scan ps _ _ _ segs h1 h

end Mux.P28
