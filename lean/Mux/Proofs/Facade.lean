/-
  Mux.Proofs.Facade — façade programs (`Prefix`, nested `Prefix`, `Resource`) and their translation
  into plain `Router` calls.
-/
import Mux.Spec.Defs
namespace Mux.P10
open Mux

/-- One call of a façade program.  Façade objects live in a table (in creation order); an operation
names the façade it goes through by its index.  An index that is out of range cannot be written
in Go; in the model such an operation does nothing (in both the program and its translation). -/
inductive FOp where
  /-- `r.Prefix(pattern, m...)` -/
  | newPrefix (pattern : Bytes) (m : List Nat)
  /-- `r.Resource(pattern, m...)` -/
  | newResource (pattern : Bytes) (m : List Nat)
  /-- `p.Prefix(pattern, m...)` on façade `parent` -/
  | subPrefix (parent : Nat) (pattern : Bytes) (m : List Nat)
  /-- `p.Resource(pattern, m...)` on façade `parent` -/
  | subResource (parent : Nat) (pattern : Bytes) (m : List Nat)
  /-- `p.Handle(pattern, h, m, methods...)` (`Get/Post/…/Any` are special cases) -/
  | handle (f : Nat) (pattern : Bytes) (h : Nat) (m : List Nat) (methods : List Bytes)
  /-- `res.Handle(h, m, methods...)` of a `Resource`: the pattern argument is `""` -/
  | resHandle (f : Nat) (h : Nat) (m : List Nat) (methods : List Bytes)
  /-- `p.Remove(pattern, methods...)` -/
  | remove (f : Nat) (pattern : Bytes) (methods : List Bytes)
  /-- `res.Remove(methods...)` -/
  | resRemove (f : Nat) (methods : List Bytes)
  /-- `p.Clean()` of a `Prefix` -/
  | prefixClean (f : Nat)
  /-- `res.Clean()` of a `Resource` -/
  | resourceClean (f : Nat)
  /-- `p.URL(strict, pattern, ps)` / `res.URL(strict, ps)` (`pattern = ""`): an observation -/
  | url (f : Nat) (strict : Bool) (pattern : Bytes) (ps : AMap Bytes)
  /-- a plain call on the router itself, interleaved (`Use`, `Handle`, `Remove`, `Clean`) -/
  | router (op : ROp)
  /-- `r.URL(strict, pattern, ps)` on the router itself -/
  | routerUrl (strict : Bool) (pattern : Bytes) (ps : AMap Bytes)
  deriving Repr

/-- The translated program: plain router operations and URL queries. -/
inductive DOp where
  | op (o : ROp)
  | url (strict : Bool) (pattern : Bytes) (ps : AMap Bytes)
  deriving Repr

/-- A failing façade call panics in Go; as in `Router.step` the router is then unchanged. -/
def orKeep (r : Router) (x : Except Err Router) : Router :=
  match x with
  | .ok r' => r'
  | .error _ => r

/-- State of the façade interpreter: the router, the façade objects, the URL results so far. -/
structure FState where
  router : Router
  tab : List Facade := []
  out : List (Except Err Bytes) := []

/-- The façade table after one operation (façade creation never looks at the router). -/
def tabStep (tab : List Facade) : FOp → List Facade
  | .newPrefix p m => tab ++ [Facade.ofRouter p m]
  | .newResource p m => tab ++ [Facade.ofRouter p m]
  | .subPrefix i p m => match tab[i]? with
    | some f => tab ++ [f.sub p m]
    | none => tab
  | .subResource i p m => match tab[i]? with
    | some f => tab ++ [f.sub p m]
    | none => tab
  | _ => tab

/-- One step of the façade interpreter, with the façade objects as in Go (`Facade.*` of the model). -/
def FState.step (env : Env) (s : FState) (op : FOp) : FState :=
  match op with
  | .handle i p h m methods => match s.tab[i]? with
    | some f => { s with router := orKeep s.router (f.handle s.router p h m methods) }
    | none => s
  | .resHandle i h m methods => match s.tab[i]? with
    | some f => { s with router := orKeep s.router (f.handle s.router [] h m methods) }
    | none => s
  | .remove i p methods => match s.tab[i]? with
    | some f => { s with router := orKeep s.router (f.remove s.router p methods) }
    | none => s
  | .resRemove i methods => match s.tab[i]? with
    | some f => { s with router := orKeep s.router (f.remove s.router [] methods) }
    | none => s
  | .prefixClean i => match s.tab[i]? with
    | some f => { s with router := orKeep s.router (f.prefixClean s.router) }
    | none => s
  | .resourceClean i => match s.tab[i]? with
    | some f => { s with router := orKeep s.router (f.resourceClean s.router) }
    | none => s
  | .url i strict p ps => match s.tab[i]? with
    | some f => { s with out := s.out ++ [f.url env s.router strict p ps] }
    | none => s
  | .router o => { s with router := s.router.step o }
  | .routerUrl strict p ps => { s with out := s.out ++ [s.router.url env strict p ps] }
  | op => { s with tab := tabStep s.tab op }

def runF (env : Env) (s : FState) (prog : List FOp) : FState := prog.foldl (FState.step env) s

/-- The plain calls one façade operation stands for, given the façade table. -/
def desugarOp (tab : List Facade) : FOp → List DOp
  | .handle i p h m methods => match tab[i]? with
    | some f => [.op (.handle (f.pattern ++ p) h (m ++ f.ms) methods)]
    | none => []
  | .resHandle i h m methods => match tab[i]? with
    | some f => [.op (.handle f.pattern h (m ++ f.ms) methods)]
    | none => []
  | .remove i p methods => match tab[i]? with
    | some f => [.op (.remove (f.pattern ++ p) methods)]
    | none => []
  | .resRemove i methods => match tab[i]? with
    | some f => [.op (.remove f.pattern methods)]
    | none => []
  | .prefixClean i => match tab[i]? with
    | some f => [.op (.clean f.pattern)]
    | none => []
  | .resourceClean i => match tab[i]? with
    | some f => [.op (.remove f.pattern [])]
    | none => []
  | .url i strict p ps => match tab[i]? with
    | some f => [.url strict (f.pattern ++ p) ps]
    | none => []
  | .router o => [.op o]
  | .routerUrl strict p ps => [.url strict p ps]
  | _ => []

/-- `desugar`: patterns and middleware lists are concatenated exactly as `router.go:222-359` does. -/
def desugarFrom (tab : List Facade) : List FOp → List DOp
  | [] => []
  | op :: rest => desugarOp tab op ++ desugarFrom (tabStep tab op) rest

def desugar (prog : List FOp) : List DOp := desugarFrom [] prog

/-- The plain-router interpreter of the translated program. -/
structure DState where
  router : Router
  out : List (Except Err Bytes) := []

def DState.step (env : Env) (s : DState) : DOp → DState
  | .op o => { s with router := s.router.step o }
  | .url strict p ps => { s with out := s.out ++ [s.router.url env strict p ps] }

def runD (env : Env) (s : DState) (prog : List DOp) : DState := prog.foldl (DState.step env) s

/-- The router operations of a translated program. -/
def plainOps : List DOp → List ROp
  | [] => []
  | .op o :: rest => o :: plainOps rest
  | .url _ _ _ :: rest => plainOps rest

/-- A faithful encoding of `ROp` into a type with decidable equality (for `decide` in examples). -/
structure RCode where
  tag : Nat
  pattern : Bytes
  h : Nat
  m : List Nat
  methods : List Bytes
  deriving DecidableEq, Repr

def ropCode : ROp → RCode
  | .handle p h m methods => ⟨0, p, h, m, methods⟩
  | .remove p methods => ⟨1, p, 0, [], methods⟩
  | .clean pre => ⟨2, pre, 0, [], []⟩
  | .use m => ⟨3, [], 0, m, []⟩

theorem ropCode_injective : ∀ a b : ROp, ropCode a = ropCode b → a = b := by
  intro a b h
  cases a <;> cases b <;> simp_all [ropCode]

theorem orKeep_step_handle (r : Router) (p : Bytes) (h : Nat) (m : List Nat) (methods : List Bytes) :
    orKeep r (r.handle p h m methods) = r.step (.handle p h m methods) := by
  simp only [orKeep, Router.step]; cases r.handle p h m methods <;> rfl
theorem orKeep_step_remove (r : Router) (p : Bytes) (methods : List Bytes) :
    orKeep r (r.remove p methods) = r.step (.remove p methods) := by
  simp only [orKeep, Router.step]; cases r.remove p methods <;> rfl
theorem orKeep_step_clean (r : Router) (p : Bytes) : orKeep r (r.clean p) = r.step (.clean p) := by
  simp only [orKeep, Router.step]; cases r.clean p <;> rfl

/-- One façade step = the steps of its translation. -/
theorem step_desugar (env : Env) (s : FState) (op : FOp) :
    (s.step env op).tab = tabStep s.tab op ∧
    runD env ⟨s.router, s.out⟩ (desugarOp s.tab op) = ⟨(s.step env op).router, (s.step env op).out⟩ := by
  cases op with
  | newPrefix p m => exact ⟨rfl, rfl⟩
  | newResource p m => exact ⟨rfl, rfl⟩
  | subPrefix i p m => exact ⟨rfl, rfl⟩
  | subResource i p m => exact ⟨rfl, rfl⟩
  | handle i p h m methods =>
    simp only [FState.step, desugarOp, tabStep]
    cases s.tab[i]? with
    | none => exact ⟨rfl, rfl⟩
    | some f => exact ⟨rfl, by simp [runD, DState.step, Facade.handle, orKeep_step_handle]⟩
  | resHandle i h m methods =>
    simp only [FState.step, desugarOp, tabStep]
    cases s.tab[i]? with
    | none => exact ⟨rfl, rfl⟩
    | some f => exact ⟨rfl, by simp [runD, DState.step, Facade.handle, orKeep_step_handle]⟩
  | remove i p methods =>
    simp only [FState.step, desugarOp, tabStep]
    cases s.tab[i]? with
    | none => exact ⟨rfl, rfl⟩
    | some f => exact ⟨rfl, by simp [runD, DState.step, Facade.remove, orKeep_step_remove]⟩
  | resRemove i methods =>
    simp only [FState.step, desugarOp, tabStep]
    cases s.tab[i]? with
    | none => exact ⟨rfl, rfl⟩
    | some f => exact ⟨rfl, by simp [runD, DState.step, Facade.remove, orKeep_step_remove]⟩
  | prefixClean i =>
    simp only [FState.step, desugarOp, tabStep]
    cases s.tab[i]? with
    | none => exact ⟨rfl, rfl⟩
    | some f => exact ⟨rfl, by simp [runD, DState.step, Facade.prefixClean, orKeep_step_clean]⟩
  | resourceClean i =>
    simp only [FState.step, desugarOp, tabStep]
    cases s.tab[i]? with
    | none => exact ⟨rfl, rfl⟩
    | some f => exact ⟨rfl, by simp [runD, DState.step, Facade.resourceClean, orKeep_step_remove]⟩
  | url i strict p ps =>
    simp only [FState.step, desugarOp, tabStep]
    cases s.tab[i]? with
    | none => exact ⟨rfl, rfl⟩
    | some f => exact ⟨rfl, by simp [runD, DState.step, Facade.url]⟩
  | router o => exact ⟨rfl, rfl⟩
  | routerUrl strict p ps => exact ⟨rfl, rfl⟩

theorem runD_append (env : Env) (s : DState) (a b : List DOp) : runD env s (a ++ b) = runD env (runD env s a) b := by
  simp [runD, List.foldl_append]

/-- The façade interpreter and the plain interpreter of the translation agree on the router and
on every URL result, from any start state. -/
theorem runF_desugar (env : Env) (prog : List FOp) : ∀ s : FState,
    runD env ⟨s.router, s.out⟩ (desugarFrom s.tab prog) =
      ⟨(runF env s prog).router, (runF env s prog).out⟩ := by
  induction prog with
  | nil => intro s; rfl
  | cons op rest ih =>
    intro s
    obtain ⟨h1, h2⟩ := step_desugar env s op
    simp only [desugarFrom, runD_append, h2, runF, List.foldl_cons]
    rw [← h1]
    exact ih (s.step env op)

theorem runD_router (env : Env) (prog : List DOp) : ∀ s : DState,
    (runD env s prog).router = s.router.run (plainOps prog) := by
  induction prog with
  | nil => intro s; rfl
  | cons op rest ih =>
    intro s
    cases op with
    | op o =>
      simp only [runD, List.foldl_cons, plainOps, Router.run] at ih ⊢
      exact ih _
    | url st p ps =>
      simp only [runD, List.foldl_cons, plainOps] at ih ⊢
      exact ih _

end Mux.P10
