/-
  Mux.Proofs.GroupLiftServe — from `Tree.handler` to the `Call` of `Router.serveContext`, for arbitrary incoming
  parameters; the former collision table of D30 (hand-built tree), now repaired.
-/
import Mux.Proofs.GroupLiftParams
namespace Mux.P18
open Mux

/-- The `Found` a call was made from. -/
def Call.found (c : Call) : Found := { node := c.node, handler := c.handler, ok := c.ok, params := c.params }

/-- A call of `Router.serveContext` is the answer of `Tree.handler` on the same path, method and parameters. -/
theorem serveContext_call_found (env : Env) (r : Router) (req : Req) (ps : Params) (c : Call)
    (h : r.serveContext env req ps = .call c) :
    r.tree.handler env req.path ps req.method = .res (Call.found c) ∧ c.routerName = r.tree.name ∧
      c.path = req.path ∧ c.recover = r.recover ∧ c.recActs = r.recActs := by
  unfold Router.serveContext at h
  split at h
  · cases h
  · cases h
  · rename_i f hf
    cases h
    exact ⟨hf, rfl, rfl, rfl, rfl⟩

/-- What a call with a node means (arbitrary incoming parameters `ps`). -/
def NodeSound (env : Env) (t : Tree) (path method : Bytes) (ps : Params) (c : Call) (n : Node) : Prop :=
  ∃ chain : List (Seg × Bytes),
    chain ≠ [] ∧ Chain t.root (chain.map (·.1)) n ∧ path = instChain chain ∧
    (∀ sv ∈ chain, sv.1.Satisfies env t.ic sv.2) ∧ n.handlers ≠ [] ∧ HandlerAgrees n method (Call.found c) ∧
    n.pattern = (chain.map (·.1.value)).flatten ∧
    ((captures chain).map (·.1)).Nodup ∧
    (∀ k, k ∈ (captures chain).map (·.1) ∨ k ∉ treeNames t →
      c.params.get? k = (setAll ps (captures chain)).get? k) ∧
    (∀ k, c.params.get? k = (setAll ps (captures chain)).get? k ∨ c.params.get? k = none) ∧
    ((∀ k ∈ ps.keys, k ∉ treeNames t) →
      c.params = ps ++ captures chain ∧ c.params = setAll ps (captures chain))

/-- What a call without a node (the router's 404) means. -/
def NotFoundSound (t : Tree) (ps : Params) (c : Call) : Prop :=
  c.handler = t.notFound ∧ c.ok = false ∧
    (∀ k, k ∉ treeNames t → c.params.get? k = ps.get? k) ∧
    (∀ k, c.params.get? k = ps.get? k ∨ c.params.get? k = none) ∧
    ((∀ k ∈ ps.keys, k ∉ treeNames t) → c.params = ps)

theorem router_call_sound (env : Env) (r : Router) (hr : P14.ReachAll r.tree) (req : Req) (ps : Params) (c : Call)
    (h : r.serveContext env req ps = .call c) :
    c.routerName = r.tree.name ∧ c.path = req.path ∧
    (∀ n, c.node = some n → req.path ≠ [] → req.path ≠ [42] → (r.tree.trace = none ∨ req.method ≠ mTRACE) →
      NodeSound env r.tree req.path req.method ps c n) ∧
    (c.node = none → NotFoundSound r.tree ps c) ∧
    -- `""`, `*` and the TRACE short-circuit do no matching: the parameters are exactly the incoming ones
    ((req.path = [] ∨ req.path = [42] ∨ (r.tree.trace ≠ none ∧ req.method = mTRACE)) → c.params = ps) := by
  obtain ⟨hf, h1, h2, _, _⟩ := serveContext_call_found env r req ps c h
  refine ⟨h1, h2, ?_, ?_, ?_⟩
  · intro n hn hp hs htr
    obtain ⟨chain, c1, c2, c3, c4, c5, c6, c7, c8, c9, c10⟩ :=
      found_general env r.tree hr.inv.names hr.inv.idxLit req.path req.method ps (Call.found c) n hp hs htr hf hn
    refine ⟨chain, c1, c2, c3, c4, c5, c6, ?_, c7, c8, c9, c10⟩
    have := (chain_pattern c2 hr.inv.patternOk).1
    rw [hr.inv.rootPat, List.nil_append] at this
    simpa [List.map_map, Function.comp_def] using this
  · intro hn
    exact notFound_general env r.tree hr.inv.names hr.inv.idxLit req.path req.method ps (Call.found c) hf hn
  · intro hcase
    rcases hcase with hp | hp | ⟨htr, hm⟩
    · exact (Tree.handler_root (.inl hp) hf).1
    · exact (Tree.handler_root (.inr hp) hf).1
    · cases ht : r.tree.trace with
      | none => exact absurd ht htr
      | some hh =>
        have := C01_trace' env r.tree req.path ps hh ht
        rw [hm, this] at hf
        injection hf with hf
        exact (congrArg Found.params hf).symm
where
  C01_trace' (env : Env) (t : Tree) (path : Bytes) (ps : Params) (h : Handler) (ht : t.trace = some h) :
      t.handler env path ps mTRACE = .res { node := some t.root, handler := h, ok := true, params := ps } := by
    unfold Tree.handler
    rw [ht]
    simp

/-! ## The former collision table (D30), repaired

`/u/{id}/a`, `/u/{id}/c`, `/u/{name}/b` (the tree these three `Handle` calls build; `#eval` of the real history gives
the same answers): with the incoming parameter `id = v1` (e.g. a path-version matcher with key `id`)

* `GET /u/5/b` is served by `/u/{name}/b`: `{id}/` matched `5`, overwrote `id`, its subtree missed.  Before the D30
  repair the undo was `erase id`, which deleted the key instead of restoring `v1` (parameters `{name: 5}` only); the
  repaired undo `restoreParam` writes `v1` back: parameters `{id: v1, name: 5}`;
* `GET /u/5/z` is a 404 that reports the incoming `{id: v1}` (before the repair: no parameters). -/

def cxSegU : Seg := { value := [47, 117, 47] }
def cxSegId : Seg := { value := [123, 105, 100, 125, 47], kind := .named, name := [105, 100], suffix := [47] }
def cxSegName : Seg :=
  { value := [123, 110, 97, 109, 101, 125, 47, 98], kind := .named, name := [110, 97, 109, 101], suffix := [47, 98] }
def cxGET : Bytes := [71, 69, 84]
def cxHs (i : Nat) : AMap Handler := [(cxGET, { base := .user i }), (mNotAllowed, { base := .notAllowed })]
def cxA : Node := .mk { value := [97] } (cxSegU.value ++ cxSegId.value ++ [97]) 1 (cxHs 1) [] []
def cxC : Node := .mk { value := [99] } (cxSegU.value ++ cxSegId.value ++ [99]) 1 (cxHs 3) [] []
def cxId : Node := .mk cxSegId (cxSegU.value ++ cxSegId.value) 0 [] [] [cxA, cxC]
def cxName : Node := .mk cxSegName (cxSegU.value ++ cxSegName.value) 1 (cxHs 2) [] []
def cxU : Node := .mk cxSegU cxSegU.value 0 [] [] [cxId, cxName]
def cxTree : Tree := { root := .mk { value := [] } [] 0 [] [] [cxU], name := [114], notFound := { base := .notFound } }
def cxRouter : Router := { tree := cxTree }
def cxEnv : Env := ⟨fun _ _ => true⟩
/-- `id = v1` -/
def cxPs : Params := [([105, 100], [118, 49])]

def foundOf : HR → Option Found
  | .res f => some f
  | _ => none

/-- the tree satisfies the matcher's tree hypotheses … -/
theorem cx_names : NamesOkL [] cxTree.root.children := by decide
theorem cx_idxLit : Node.All IdxLit cxTree.root := by
  simp only [cxTree, cxU, cxId, cxName, cxA, cxC, Node.All, AllL, and_true, and_assoc]
  refine ⟨?_, ?_, ?_, ?_, ?_, ?_⟩ <;> exact IdxLit.of_nil rfl
/-- … `id` is a name of the tree … -/
theorem cx_collides : ([105, 100] : Bytes) ∈ treeNames cxTree := by decide
/-- … `GET /u/5/b` with `id = v1` reports `{id: v1, name: 5}`, the `set` fold of the capture over the incoming
parameters: the abandoned `{id}/` branch left no trace (before the D30 repair: `{name: 5}`, the incoming `id` gone) … -/
theorem cx_found : (foundOf (cxTree.handler cxEnv [47, 117, 47, 53, 47, 98] cxPs cxGET)).map
      (fun f => (f.node.map (·.pattern), f.ok, f.params)) =
    some (some cxName.pattern, true, [([105, 100], [118, 49]), ([110, 97, 109, 101], [53])]) := by decide
/-- … and the 404 for `GET /u/5/z` reports exactly the incoming parameters (before the repair: none). -/
theorem cx_404 : (foundOf (cxTree.handler cxEnv [47, 117, 47, 53, 47, 122] cxPs cxGET)).map
      (fun f => (f.node.isNone, f.params)) = some (true, [([105, 100], [118, 49])]) := by decide
/-- Why "one entry per key" is asked of the incoming parameters: with `id` TWICE (`id = v1, id = v2`; no context
built by `Set` looks like this) the undo of the abandoned `{id}/` branch writes the first value into both entries. -/
theorem cx_dup : (foundOf (cxTree.handler cxEnv [47, 117, 47, 53, 47, 122] (cxPs ++ [([105, 100], [118, 50])]) cxGET)).map
      (fun f => (f.node.isNone, f.params)) = some (true, [([105, 100], [118, 49]), ([105, 100], [118, 49])]) := by decide

end Mux.P18
