/-
  Mux.Proofs.TreeOps — preservation of `Node.All (NodeOk Q)` by the remaining tree operations:
  `modifyAt`, `removeAt`, `Node.clean`, `Node.applyMw`; and the `Node.All` corollary for `getNode`.
-/
import Mux.Proofs.TreeGetNode
namespace Mux

variable {Q : Nat → AMap Handler → Prop}

theorem NodeOk_congr {n m : Node} (hmi : m.methodIndex = n.methodIndex) (hhs : m.handlers = n.handlers)
    (hidx : m.indexes = n.indexes) (hlen : m.children.length = n.children.length)
    (h : NodeOk Q n) : NodeOk Q m := by
  refine ⟨by rw [hmi, hhs]; exact h.1, ?_⟩
  intro e he
  rw [hidx] at he; rw [hlen]; exact h.2 e he

/-! ## getNode on whole subtrees -/

theorem getNode_All (ic : Interceptors) (hQ0 : Q 0 []) {n n' : Node} {v : Bytes} {rest : List Bytes}
    {path : List Nat} (hn : Node.All (NodeOk Q) n) (h : getNode ic n v rest = .ok (n', path)) :
    Node.All (NodeOk Q) n' ∧ (n'.getAt path).isSome = true := by
  obtain ⟨hi, ha, hh, hm, _, _, _, hg⟩ := getNode_post ic Q hQ0 n v rest _ hn.head.2 hn.tail h
  refine ⟨?_, hg⟩
  rw [Node.All_iff]
  exact ⟨⟨by rw [hm, hh]; exact hn.head.1, hi⟩, ha⟩

/-! ## modifyAt -/

theorem modifyAt_All_aux (f : Node → Except Err Node)
    (hf : ∀ m m', Node.All (NodeOk Q) m → f m = .ok m' → Node.All (NodeOk Q) m') (path : List Nat) :
    (∀ n n', Node.All (NodeOk Q) n → n.modifyAt f path = .ok n' → Node.All (NodeOk Q) n') ∧
    (∀ cs i cs', AllL (NodeOk Q) cs → (∀ n n', Node.All (NodeOk Q) n → n.modifyAt f path = .ok n' →
        Node.All (NodeOk Q) n') → modifyAtL f cs i path = .ok cs' →
        AllL (NodeOk Q) cs' ∧ cs'.length = cs.length) := by
  have hL : ∀ (path : List Nat), (∀ n n', Node.All (NodeOk Q) n → n.modifyAt f path = .ok n' →
        Node.All (NodeOk Q) n') → ∀ cs i cs', AllL (NodeOk Q) cs → modifyAtL f cs i path = .ok cs' →
        AllL (NodeOk Q) cs' ∧ cs'.length = cs.length := by
    intro path hN cs
    induction cs with
    | nil => intro i cs' _ h; simp [modifyAtL] at h
    | cons c cs ih =>
      intro i cs' hall h
      cases i with
      | zero =>
        simp only [modifyAtL, bind, Except.bind, pure, Except.pure] at h
        split at h
        · simp at h
        rename_i c' hc'
        simp only [Except.ok.injEq] at h
        subst h
        exact ⟨⟨hN c c' hall.1 hc', hall.2⟩, rfl⟩
      | succ i =>
        simp only [modifyAtL, bind, Except.bind, pure, Except.pure] at h
        split at h
        · simp at h
        rename_i cs1 hcs1
        simp only [Except.ok.injEq] at h
        subst h
        obtain ⟨h1, h2⟩ := ih i cs1 hall.2 hcs1
        exact ⟨⟨hall.1, h1⟩, by simp [h2]⟩
  have hN : ∀ (path : List Nat) n n', Node.All (NodeOk Q) n → n.modifyAt f path = .ok n' →
      Node.All (NodeOk Q) n' := by
    intro path
    induction path with
    | nil =>
      intro n n' hn h
      cases n
      simp only [Node.modifyAt] at h
      exact hf _ _ hn h
    | cons i path ih =>
      intro n n' hn h
      cases n with
      | mk s p mi hs idx cs =>
        simp only [Node.modifyAt, bind, Except.bind, pure, Except.pure] at h
        split at h
        · simp at h
        rename_i cs' hcs'
        simp only [Except.ok.injEq] at h
        subst h
        obtain ⟨h1, h2⟩ := hL path ih cs i cs' hn.2 hcs'
        exact ⟨NodeOk_congr (n := .mk s p mi hs idx cs) rfl rfl rfl (by simp [h2]) hn.1, h1⟩
  exact ⟨hN path, fun cs i cs' hall hN' h => hL path hN' cs i cs' hall h⟩

theorem modifyAt_All (f : Node → Except Err Node)
    (hf : ∀ m m', Node.All (NodeOk Q) m → f m = .ok m' → Node.All (NodeOk Q) m')
    {path : List Nat} {n n' : Node} (hn : Node.All (NodeOk Q) n) (h : n.modifyAt f path = .ok n') :
    Node.All (NodeOk Q) n' := (modifyAt_All_aux f hf path).1 n n' hn h

/-- The top node of a `modifyAt` along a non-empty path keeps everything but its children, whose
number does not change. -/
theorem modifyAt_cons_top (f : Node → Except Err Node)
    (hf : ∀ m m', Node.All (NodeOk Q) m → f m = .ok m' → Node.All (NodeOk Q) m')
    {i : Nat} {path : List Nat} {n n' : Node} (hall : AllL (NodeOk Q) n.children)
    (h : n.modifyAt f (i :: path) = .ok n') :
    n'.seg = n.seg ∧ n'.pattern = n.pattern ∧ n'.methodIndex = n.methodIndex ∧ n'.handlers = n.handlers ∧
      n'.indexes = n.indexes ∧ n'.children.length = n.children.length ∧ AllL (NodeOk Q) n'.children := by
  cases n with
  | mk s p mi hs idx cs =>
    simp only [Node.modifyAt, bind, Except.bind, pure, Except.pure] at h
    split at h
    · simp at h
    rename_i cs' hcs'
    simp only [Except.ok.injEq] at h
    subst h
    obtain ⟨h1, h2⟩ := (modifyAt_All_aux f hf path).2 cs i cs' hall (modifyAt_All_aux f hf path).1 hcs'
    exact ⟨rfl, rfl, rfl, rfl, rfl, h2, h1⟩

/-! ## removeAt -/

theorem removeAtL_All (f : Node → Node) (path : List Nat)
    (ih : ∀ n n', Node.All (NodeOk Q) n → n.removeAt f path = .ok n' → Node.All (NodeOk Q) n') :
    ∀ cs i cs' d, AllL (NodeOk Q) cs → removeAtL f cs i path = .ok (cs', d) →
        AllL (NodeOk Q) cs' ∧ (d = false → cs'.length = cs.length) := by
  intro cs
  induction cs with
  | nil => intro i cs' d _ h; simp [removeAtL] at h
  | cons c cs ihc =>
    intro i cs' d hall h
    cases i with
    | zero =>
      simp only [removeAtL, bind, Except.bind, pure, Except.pure] at h
      split at h
      · simp at h
      rename_i c' hc'
      split at h
      · simp only [Except.ok.injEq, Prod.mk.injEq] at h
        obtain ⟨rfl, rfl⟩ := h
        exact ⟨hall.2, by simp⟩
      · simp only [Except.ok.injEq, Prod.mk.injEq] at h
        obtain ⟨rfl, rfl⟩ := h
        exact ⟨⟨ih c c' hall.1 hc', hall.2⟩, fun _ => rfl⟩
    | succ i =>
      simp only [removeAtL, bind, Except.bind, pure, Except.pure] at h
      split at h
      · simp at h
      rename_i r hr
      simp only [Except.ok.injEq, Prod.mk.injEq] at h
      obtain ⟨rfl, rfl⟩ := h
      obtain ⟨h1, h2⟩ := ihc i r.1 r.2 hall.2 hr
      exact ⟨⟨hall.1, h1⟩, fun hd => by simp [h2 hd]⟩

/-- The top node of a `removeAt` along a non-empty path: only `indexes/children` change, the
positions stay in range and the children keep the invariant. -/
theorem removeAt_cons_top (f : Node → Node) (path : List Nat)
    (ih : ∀ n n', Node.All (NodeOk Q) n → n.removeAt f path = .ok n' → Node.All (NodeOk Q) n')
    {i : Nat} {n n' : Node} (hidx : IdxOk n) (hall : AllL (NodeOk Q) n.children)
    (h : n.removeAt f (i :: path) = .ok n') :
    n'.seg = n.seg ∧ n'.pattern = n.pattern ∧ n'.methodIndex = n.methodIndex ∧ n'.handlers = n.handlers ∧
      IdxOk n' ∧ AllL (NodeOk Q) n'.children := by
  cases n with
  | mk s p mi hs idx cs =>
    simp only [Node.removeAt, bind, Except.bind, pure, Except.pure] at h
    split at h
    · simp at h
    rename_i r hr
    obtain ⟨h1, h2⟩ := removeAtL_All f path ih cs i r.1 r.2 hall hr
    split at h
    · split at h
      · simp at h
      rename_i idx' hidx'
      simp only [Except.ok.injEq] at h
      subst h
      exact ⟨rfl, rfl, rfl, rfl, fun e he => buildIndexes_range hidx' e he, h1⟩
    · rename_i hd
      simp only [Except.ok.injEq] at h
      subst h
      have hd' : r.2 = false := by simpa using hd
      refine ⟨rfl, rfl, rfl, rfl, ?_, h1⟩
      intro e he
      have := hidx e he
      simp only [Node.children_mk] at this ⊢
      rw [h2 hd']; exact this

theorem removeAt_All_aux (f : Node → Node)
    (hf : ∀ m, Node.All (NodeOk Q) m → Node.All (NodeOk Q) (f m)) :
    ∀ (path : List Nat),
    (∀ n n', Node.All (NodeOk Q) n → n.removeAt f path = .ok n' → Node.All (NodeOk Q) n') := by
  intro path
  induction path with
  | nil =>
    intro n n' hn h
    cases n
    simp only [Node.removeAt, Except.ok.injEq] at h
    subst h; exact hf _ hn
  | cons i path ih =>
    intro n n' hn h
    obtain ⟨_, _, hm, hh, hi, ha⟩ := removeAt_cons_top f path ih hn.head.2 hn.tail h
    rw [Node.All_iff]
    exact ⟨⟨by rw [hm, hh]; exact hn.head.1, hi⟩, ha⟩

theorem removeAt_All (f : Node → Node) (hf : ∀ m, Node.All (NodeOk Q) m → Node.All (NodeOk Q) (f m))
    {path : List Nat} {n n' : Node} (hn : Node.All (NodeOk Q) n) (h : n.removeAt f path = .ok n') :
    Node.All (NodeOk Q) n' := removeAt_All_aux f hf path n n' hn h

/-! ## findPath returns non-empty paths -/

theorem findIn_ne_nil (cs : List Node) (i : Nat) (pat : Bytes) (p : List Nat)
    (h : findIn cs i pat = some p) : p ≠ [] := by
  induction cs generalizing i with
  | nil => simp [findIn] at h
  | cons c cs ih =>
    simp only [findIn] at h
    split at h
    · simp at h; subst h; simp
    · split at h
      · split at h
        · simp at h; subst h; simp
        · exact ih _ h
      · exact ih _ h

theorem findPath_ne_nil (n : Node) (pat : Bytes) (p : List Nat) (h : n.findPath pat = some p) : p ≠ [] := by
  cases n
  simp only [Node.findPath] at h
  exact findIn_ne_nil _ _ _ _ h

/-! ## clean -/

theorem clean_All_aux :
    ∀ (n : Node) (pre : Bytes) (n' : Node), AllL (NodeOk Q) n.children → n.clean pre = .ok n' →
      n'.seg = n.seg ∧ n'.pattern = n.pattern ∧ n'.methodIndex = n.methodIndex ∧ n'.handlers = n.handlers ∧
      IdxOk n' ∧ AllL (NodeOk Q) n'.children := by
  intro n
  induction n using Node.rec (motive_2 := fun cs => ∀ pre cs', AllL (NodeOk Q) cs →
      cleanL cs pre = .ok cs' → AllL (NodeOk Q) cs') with
  | mk s p mi hs idx cs ih =>
    intro pre n' hall h
    simp only [Node.clean] at h
    split at h
    · simp only [Except.ok.injEq] at h
      subst h
      exact ⟨rfl, rfl, rfl, rfl, by intro e he; simp at he, by simp [AllL]⟩
    · simp only [bind, Except.bind, pure, Except.pure] at h
      split at h
      · simp at h
      rename_i cs1 hcs1
      split at h
      · simp at h
      rename_i idx' hidx'
      simp only [Except.ok.injEq] at h
      subst h
      have h1 := ih pre cs1 hall hcs1
      exact ⟨rfl, rfl, rfl, rfl, fun e he => buildIndexes_range hidx' e he,
        AllL_foldl_removeNodes _ h1⟩
  | nil =>
    rename_i pre cs' _ h
    simp only [cleanL, Except.ok.injEq] at h
    subst h; trivial
  | cons c cs ih1 ih2 =>
    rename_i pre cs' hall h
    simp only [cleanL, bind, Except.bind, pure, Except.pure] at h
    by_cases hcond : c.seg.value.length < pre.length ∧ hasPrefix pre c.seg.value = true
    · simp only [hcond, and_self, if_true] at h
      split at h
      · simp at h
      rename_i c' hc'
      split at h
      · simp at h
      rename_i cs1 hcs1
      simp only [Except.ok.injEq] at h
      subst h
      refine ⟨?_, ih2 pre cs1 hall.2 hcs1⟩
      obtain ⟨_, _, hm, hh, hi, ha⟩ := ih1 _ c' hall.1.tail hc'
      rw [Node.All_iff]
      exact ⟨⟨by rw [hm, hh]; exact hall.1.head.1, hi⟩, ha⟩
    · simp only [hcond, if_false] at h
      split at h
      · simp at h
      rename_i cs1 hcs1
      simp only [Except.ok.injEq] at h
      subst h
      exact ⟨hall.1, ih2 pre cs1 hall.2 hcs1⟩

/-! ## applyMw -/

theorem applyMwL_length (router : Bytes) (ms : List Nat) (cs : List Node) :
    (applyMwL router ms cs).length = cs.length := by
  induction cs with
  | nil => simp [applyMwL]
  | cons c cs ih => simp [applyMwL, ih]

theorem applyMw_All (router : Bytes) (ms : List Nat)
    (hQ : ∀ mi (hs : AMap Handler) (p : Bytes), Q mi hs →
      Q mi (hs.map (fun e => (e.1, wrapWith e.2 e.1 p router ms)))) :
    ∀ n : Node, Node.All (NodeOk Q) n → Node.All (NodeOk Q) (n.applyMw router ms) := by
  intro n
  induction n using Node.rec (motive_2 := fun cs => AllL (NodeOk Q) cs →
      AllL (NodeOk Q) (applyMwL router ms cs)) with
  | mk s p mi hs idx cs ih =>
    intro h
    simp only [Node.applyMw, Node.All]
    refine ⟨⟨hQ _ _ _ h.1.1, ?_⟩, ih h.2⟩
    intro e he
    have := h.1.2 e he
    simpa [applyMwL_length] using this
  | nil => simp [applyMwL, AllL]
  | cons c cs ih1 ih2 =>
    rename_i h
    simp only [applyMwL, AllL]
    exact ⟨ih1 h.1, ih2 h.2⟩

theorem applyMwL_eq_map (router : Bytes) (ms : List Nat) (cs : List Node) :
    applyMwL router ms cs = cs.map (Node.applyMw router ms) := by
  induction cs with
  | nil => rfl
  | cons c cs ih => simp [applyMwL, ih]

theorem applyMwL_All (router : Bytes) (ms : List Nat)
    (hQ : ∀ mi (hs : AMap Handler) (p : Bytes), Q mi hs →
      Q mi (hs.map (fun e => (e.1, wrapWith e.2 e.1 p router ms))))
    {cs : List Node} (h : AllL (NodeOk Q) cs) : AllL (NodeOk Q) (applyMwL router ms cs) := by
  rw [applyMwL_eq_map, AllL_iff]
  rw [AllL_iff] at h
  intro c hc
  rw [List.mem_map] at hc
  obtain ⟨c0, hc0, rfl⟩ := hc
  exact applyMw_All router ms hQ c0 (h c0 hc0)

theorem applyMw_fields (router : Bytes) (ms : List Nat) (n : Node) :
    (n.applyMw router ms).seg = n.seg ∧ (n.applyMw router ms).pattern = n.pattern ∧
    (n.applyMw router ms).methodIndex = n.methodIndex ∧
    (n.applyMw router ms).handlers = n.handlers.map (fun e => (e.1, wrapWith e.2 e.1 n.pattern router ms)) ∧
    (n.applyMw router ms).indexes = n.indexes ∧
    (n.applyMw router ms).children = applyMwL router ms n.children := by
  cases n; simp [Node.applyMw]

end Mux
