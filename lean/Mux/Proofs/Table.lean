/-
  Mux.Proofs.Table — C03/C04: the route table of a tree is the abstract table of its history.
  The lemmas behind `Mux.Properties.C03` (`C03_table`, `C03_routes`, `C03_removed`, `C04_star`).
-/
import Mux.Proofs.TableCounts
import Mux.Proofs.MatchSound
import Mux.Proofs.TreeServe
namespace Mux.P11
open Mux

/-! ## Histories -/

/-- The invariant carried along a history: refinement plus I-count. -/
structure Sim (t : Tree) (tb : Spec.Table) : Prop extends Refines t tb where
  count : CountInv t

theorem Sim.new (name : Bytes) (ic : Interceptors) (nf : Handler) (tr : Option Handler)
    (ob : Base := .options) (nb : Base := .notAllowed) : Sim (Tree.new name ic nf tr ob nb) [] := by
  refine ⟨⟨TInv_new name ic nf tr ob nb, ?_, TableOk.nil⟩, CountInv_new name ic nf tr ob nb⟩
  intro q m
  rw [has_tableOf]
  simp [Tree.new, liveL_nil, Spec.Table.has]

theorem Sim.step {t : Tree} {tb : Spec.Table} (h : Sim t tb) (op : TOp) (hw : op.wf = true) :
    Sim (t.step op) (Spec.stepWith t tb op) :=
  ⟨h.toRefines.step op hw, CountInv_step h.inv h.count op hw⟩

theorem Sim.run {t : Tree} {tb : Spec.Table} (h : Sim t tb) (ops : List TOp) (hw : ∀ op ∈ ops, op.wf = true) :
    Sim (t.run ops) (specRunFrom t tb ops) := by
  unfold Tree.run
  induction ops generalizing t tb with
  | nil => exact h
  | cons op ops ih =>
    simp only [List.foldl_cons, specRunFrom]
    exact ih (h.step op (hw op (by simp))) (fun o ho => hw o (by simp [ho]))

/-- Every history of well-formed registrations started on a new tree. -/
theorem sim_history (name : Bytes) (ic : Interceptors) (nf : Handler) (tr : Option Handler)
    (ob : Base) (nb : Base) (ops : List TOp) (hw : ∀ op ∈ ops, op.wf = true) :
    Sim ((Tree.new name ic nf tr ob nb).run ops) (specRun (Tree.new name ic nf tr ob nb) ops) :=
  (Sim.new name ic nf tr ob nb).run ops hw

/-! ## The table read off the tree is well-formed -/

theorem tableOf_patterns (t : Tree) : (tableOf t).patterns = (liveL t.root.children).map (·.1) := by
  unfold tableOf Spec.Table.patterns
  rw [List.map_map]; rfl

theorem node_gq {t : Tree} (hinv : TInv t) {y : Node} (hy : y ∈ nodesL t.root.children) :
    NodeOk (GQ t.hasTrace) y := ((All_iff_nodes _).2 _).1 hinv.gq y hy

theorem tableOf_ok {t : Tree} (hinv : TInv t) : TableOk (tableOf t) ∧ ∀ e ∈ tableOf t, e.2.Nodup := by
  refine ⟨⟨?_, ?_⟩, ?_⟩
  · rw [tableOf_patterns]; exact liveL_patterns_nodup hinv.sh
  · intro e he
    unfold tableOf at he
    rw [List.mem_map] at he
    obtain ⟨e0, he0, rfl⟩ := he
    obtain ⟨y, hy, hyne, rfl⟩ := mem_liveL.1 he0
    rcases (node_gq hinv hy).1.2 with h0 | ⟨k, hk, hr⟩
    · exact absurd h0 hyne
    · intro hnil
      have : k ∈ regKeys y.handlers := mem_regKeys.2 ⟨hk, hr⟩
      simp only at hnil
      rw [hnil] at this; cases this
  · intro e he
    unfold tableOf at he
    rw [List.mem_map] at he
    obtain ⟨e0, he0, rfl⟩ := he
    obtain ⟨y, hy, _, rfl⟩ := mem_liveL.1 he0
    have hg : Good t.hasTrace y := ⟨(node_gq hinv hy).1.1, (node_gq hinv hy).2⟩
    exact (good_keys_nodup hg).filter _

/-- In a table with unique patterns a pattern has one entry. -/
theorem entry_unique {tb : Spec.Table} (h : tb.patterns.Nodup) {p : Bytes} {a b : List Bytes}
    (ha : (p, a) ∈ tb) (hb : (p, b) ∈ tb) : a = b := by
  have := eq_of_map_nodup (f := fun e : Bytes × List Bytes => e.1) h ha hb rfl
  exact (Prod.mk.injEq _ _ _ _ ▸ this : p = p ∧ a = b).2

/-- Two well-formed tables with the same live pairs are equal as finite maps. -/
theorem tables_agree {ta tb : Spec.Table} (ha : TableOk ta) (hb : TableOk tb)
    (h : ∀ q m, ta.has q m ↔ tb.has q m) :
    (∀ p, p ∈ ta.patterns ↔ p ∈ tb.patterns) ∧
    (∀ p ms ms', (p, ms) ∈ ta → (p, ms') ∈ tb → ∀ m, m ∈ ms ↔ m ∈ ms') := by
  refine ⟨?_, ?_⟩
  · intro p
    rw [mem_patterns_iff ha, mem_patterns_iff hb]
    exact ⟨fun ⟨m, hm⟩ => ⟨m, (h p m).1 hm⟩, fun ⟨m, hm⟩ => ⟨m, (h p m).2 hm⟩⟩
  · intro p ms ms' h1 h2 m
    constructor
    · intro hm
      obtain ⟨ms'', h3, h4⟩ := (h p m).1 ⟨ms, h1, hm⟩
      rwa [entry_unique hb.nodup h2 h3]
    · intro hm
      obtain ⟨ms'', h3, h4⟩ := (h p m).2 ⟨ms', h2, hm⟩
      rwa [entry_unique ha.nodup h1 h3]

/-! ## Routes -/

theorem registered_eq (n : Node) : n.registered = regKeys n.handlers := rfl

/-- The method set of a node with handlers is `Spec.methodSet` of its hand-registered methods (or of
any list with the same members). -/
theorem node_methods_eq {ht : Bool} {n : Node} (hg : Good ht n) (hne : n.handlers ≠ []) {ms : List Bytes}
    (hms : ∀ m, m ∈ regKeys n.handlers ↔ m ∈ ms) : n.methods = Spec.methodSet ht ms := by
  have hshape : KeyShape ht n.handlers := by
    rcases hg.1.2 with h0 | h0
    · exact absurd h0 hne
    · exact h0
  rw [(good_methods hg hne).1]
  unfold Spec.methodSet
  congr 1
  apply List.filter_congr
  intro m _
  have h1 := keys_registered hshape m
  rw [registered_eq] at h1
  have h2 : m ∈ maskKeys ht n.handlers ↔
      (m ∈ ms ∨ (m = mHEAD ∧ mGET ∈ ms) ∨ m = mOPTIONS) ∨ (ht = true ∧ m = mTRACE) := by
    rw [mem_maskKeys, h1, hms m, hms mGET]
  by_cases hm : m ∈ maskKeys ht n.handlers
  · have := h2.1 hm
    simp only [hm, decide_true]
    symm
    simp only [Bool.or_eq_true, Bool.and_eq_true, List.contains_iff_mem, beq_iff_eq]
    rcases this with (h | h | h) | h
    · exact .inl (.inl (.inl h))
    · exact .inl (.inl (.inr h))
    · exact .inl (.inr h)
    · exact .inr h
  · simp only [hm, decide_false]
    symm
    rw [Bool.eq_false_iff]
    intro hc
    apply hm
    rw [h2]
    simp only [Bool.or_eq_true, Bool.and_eq_true, List.contains_iff_mem, beq_iff_eq] at hc
    rcases hc with ((h | h) | h) | h
    · exact .inl (.inl h)
    · exact .inl (.inr (.inl h))
    · exact .inl (.inr (.inr h))
    · exact .inr h

theorem routesL_eq (cs : List Node) :
    routesL cs = ((nodesL cs).filter (fun n => decide (n.methodIndex > 0))).map (fun n => (n.pattern, n.methods)) := by
  have hN : ∀ n : Node, n.routes =
      ((n.nodes).filter (fun n => decide (n.methodIndex > 0))).map (fun n => (n.pattern, n.methods)) := by
    intro n
    induction n using Node.rec (motive_2 := fun cs => routesL cs =
      ((nodesL cs).filter (fun n => decide (n.methodIndex > 0))).map (fun n => (n.pattern, n.methods))) with
    | mk s p mi hs idx cs ih =>
      simp only [Node.routes, Node.nodes, List.filter_cons, Node.methodIndex_mk, ih]
      by_cases hmi : mi > 0 <;> simp [hmi, Node.methods]
    | nil => simp [routesL, nodesL]
    | cons c cs ih1 ih2 => simp [routesL, nodesL, ih1, ih2]
  induction cs with
  | nil => simp [routesL, nodesL]
  | cons c cs ih => simp [routesL, nodesL, hN, ih]

theorem routes_patterns_nodup {t : Tree} (hinv : TInv t) : ((routesL t.root.children).map (·.1)).Nodup := by
  rw [routesL_eq, List.map_map]
  exact (patterns_nodup t.ic t.root hinv.sh).sublist (List.filter_sublist.map _)

/-- `Routes()` and the abstract table. -/
theorem routes_iff {t : Tree} {tb : Spec.Table} (h : Sim t tb) (x : Bytes × List Bytes) :
    x ∈ t.routes ↔ x ∈ Spec.routes t.hasTrace tb := by
  have hok := tableOf_ok h.inv
  obtain ⟨hdom, hsets⟩ := tables_agree hok.1 h.ok h.has
  have hgood : ∀ n ∈ nodesL t.root.children, Good t.hasTrace n :=
    fun n hn => ⟨(node_gq h.inv hn).1.1, (node_gq h.inv hn).2⟩
  have hroutes : x ∈ routesL t.root.children ↔
      ∃ n ∈ nodesL t.root.children, n.handlers ≠ [] ∧ x = (n.pattern, n.methods) := by
    rw [(mem_routes_iff x).2]
    constructor
    · rintro ⟨n, hn, hmi, hx⟩; exact ⟨n, hn, (good_mi_pos (hgood n hn)).1 hmi, hx⟩
    · rintro ⟨n, hn, hne, hx⟩; exact ⟨n, hn, (good_mi_pos (hgood n hn)).2 hne, hx⟩
  unfold Tree.routes Spec.routes
  rw [List.mem_cons, List.mem_cons, hroutes]
  apply or_congr Iff.rfl
  constructor
  · rintro ⟨n, hn, hne, rfl⟩
    have hmem : (n.pattern, regKeys n.handlers) ∈ tableOf t := by
      unfold tableOf
      exact List.mem_map.2 ⟨(n.pattern, n.handlers), mem_liveL.2 ⟨n, hn, hne, rfl⟩, rfl⟩
    have hp : n.pattern ∈ tb.patterns := (hdom _).1 (List.mem_map.2 ⟨_, hmem, rfl⟩)
    unfold Spec.Table.patterns at hp
    rw [List.mem_map] at hp
    obtain ⟨e, he, hep⟩ := hp
    rw [List.mem_map]
    refine ⟨e, he, ?_⟩
    have hg : Good t.hasTrace n := ⟨(node_gq h.inv hn).1.1, (node_gq h.inv hn).2⟩
    rw [hep, node_methods_eq hg hne (hsets n.pattern _ e.2 hmem (by rw [← hep]; exact he))]
  · intro hx
    rw [List.mem_map] at hx
    obtain ⟨e, he, rfl⟩ := hx
    have hp : e.1 ∈ (tableOf t).patterns := (hdom _).2 (List.mem_map.2 ⟨e, he, rfl⟩)
    rw [tableOf_patterns, List.mem_map] at hp
    obtain ⟨e0, he0, hep⟩ := hp
    obtain ⟨n, hn, hne, rfl⟩ := mem_liveL.1 he0
    simp only at hep
    refine ⟨n, hn, hne, ?_⟩
    have hmem : (n.pattern, regKeys n.handlers) ∈ tableOf t := by
      unfold tableOf
      exact List.mem_map.2 ⟨(n.pattern, n.handlers), he0, rfl⟩
    have hg : Good t.hasTrace n := ⟨(node_gq h.inv hn).1.1, (node_gq h.inv hn).2⟩
    rw [← hep, node_methods_eq hg hne (hsets n.pattern _ e.2 hmem (by rw [hep]; exact he))]

/-! ## A served pair is live -/

theorem served_live {t : Tree} {tb : Spec.Table} (h : Sim t tb) {env : Env} {path method : Bytes} {f : Found}
    {n : Node} (hres : t.handler env path [] method = .res f) (hok : f.ok = true) (hn : f.node = some n)
    (hroot : n ≠ t.root) :
    n.pattern ∈ tb.patterns ∧
      (method ≠ mOPTIONS → tb.has n.pattern (if method = mHEAD then mGET else method)) := by
  have hinv := h.inv.inv2.toTreeInv
  rcases handler_spec hinv env path [] method with ⟨f', hf', hspec⟩ | hu
  · rw [hres] at hf'
    cases hf'
    cases hspec with
    | notFound h1 _ _ => rw [hn] at h1; cases h1
    | trace hd _ _ h3 _ _ => rw [hn] at h3; cases h3; exact absurd rfl hroot
    | notAllowed m _ _ _ _ _ h6 => rw [hok] at h6; cases h6
    | found m h1 h2 h3 h4 h5 _ =>
      rw [hn] at h1; cases h1
      rw [Node.nodes_eq] at h2
      have hmem : n ∈ nodesL t.root.children := by
        rcases List.mem_cons.1 h2 with h2 | h2
        · exact absurd h2 hroot
        · exact h2
      have hgq := node_gq h.inv hmem
      have hshape : KeyShape t.hasTrace n.handlers := by
        rcases hgq.1.1.2 with h0 | h0
        · exact absurd h0 h3
        · exact h0
      have hkey : method ∈ n.handlers.keys := (AMap.get?_isSome_iff _ _).1 (by rw [h5]; rfl)
      have hlive : ∀ k, k ∈ regKeys n.handlers → tb.has n.pattern k := by
        intro k hk
        refine (h.has n.pattern k).1 ((has_tableOf _ _ _).2 ⟨(n.pattern, n.handlers), ?_, rfl, hk⟩)
        exact mem_liveL.2 ⟨n, hmem, h3, rfl⟩
      refine ⟨?_, ?_⟩
      · rcases hgq.1.2 with h0 | ⟨k, hk, hr⟩
        · exact absurd h0 h3
        · exact (mem_patterns_iff h.ok _).2 ⟨k, hlive k (mem_regKeys.2 ⟨hk, hr⟩)⟩
      · intro hno
        have := (keys_registered hshape method).1 ⟨hkey, h4⟩
        rw [registered_eq] at this
        rcases this with h' | ⟨h', h''⟩ | h'
        · have hnh : method ≠ mHEAD := (mem_regKeys.1 h').2.1
          simp only [hnh, if_false]
          exact hlive _ h'
        · simp only [h', if_true]
          exact hlive _ h''
        · exact absurd h' hno
  · rw [hres] at hu; cases hu

/-! ## Counters -/

theorem count_tableOf (t : Tree) (m : Bytes) : Spec.count (tableOf t) m = cntE m (liveL t.root.children) := by
  unfold Spec.count tableOf cntE
  rw [List.filter_map, List.length_map]
  congr 1
  apply List.filter_congr
  intro e _
  simp

theorem mem_count_list (tb : Spec.Table) (m p : Bytes) :
    p ∈ (tb.filter (fun e => e.2.contains m)).map (·.1) ↔ tb.has p m := by
  unfold Spec.Table.has
  rw [List.mem_map]
  constructor
  · rintro ⟨e, he, rfl⟩
    rw [List.mem_filter] at he
    exact ⟨e.2, he.1, by simpa using he.2⟩
  · rintro ⟨ms, h1, h2⟩
    exact ⟨(p, ms), List.mem_filter.2 ⟨h1, by simpa using h2⟩, rfl⟩

theorem count_agree {ta tb : Spec.Table} (ha : TableOk ta) (hb : TableOk tb)
    (h : ∀ q m, ta.has q m ↔ tb.has q m) (m : Bytes) : Spec.count ta m = Spec.count tb m := by
  have n1 : ((ta.filter (fun e => e.2.contains m)).map (·.1)).Nodup :=
    ha.nodup.sublist (List.filter_sublist.map _)
  have n2 : ((tb.filter (fun e => e.2.contains m)).map (·.1)).Nodup :=
    hb.nodup.sublist (List.filter_sublist.map _)
  have hp := (List.perm_ext_iff_of_nodup n1 n2).2 (fun p => by rw [mem_count_list, mem_count_list, h])
  have := hp.length_eq
  simpa [Spec.count] using this

/-- I-count against the abstract table. -/
theorem counts_eq {t : Tree} {tb : Spec.Table} (h : Sim t tb) (m : Bytes) :
    (t.counts.get? m).getD 0 = Spec.count tb m := by
  rw [h.count m, ← count_tableOf, count_agree (tableOf_ok h.inv).1 h.ok h.has]

theorem count_pos_iff (tb : Spec.Table) (m : Bytes) : 0 < Spec.count tb m ↔ ∃ p, tb.has p m := by
  unfold Spec.count
  rw [List.length_pos_iff_exists_mem]
  constructor
  · rintro ⟨e, he⟩
    exact ⟨e.1, (mem_count_list tb m e.1).1 (List.mem_map_of_mem he)⟩
  · rintro ⟨p, hp⟩
    have := (mem_count_list tb m p).2 hp
    rw [List.mem_map] at this
    obtain ⟨e, he, _⟩ := this
    exact ⟨e, he⟩

theorem mem_liveMethods {counts : AMap Nat} (hnd : counts.keys.Nodup) (m : Bytes) :
    m ∈ liveMethods counts ↔ 0 < (counts.get? m).getD 0 := by
  unfold liveMethods AMap.keys
  rw [List.mem_map]
  constructor
  · rintro ⟨e, he, rfl⟩
    rw [List.mem_filter] at he
    have : counts.get? e.1 = some e.2 := AMap.get?_of_mem_nodup hnd he.1
    rw [this]
    simpa using he.2
  · intro hpos
    cases hg : counts.get? m with
    | none => rw [hg] at hpos; simp at hpos
    | some v =>
      rw [hg] at hpos
      exact ⟨(m, v), List.mem_filter.2 ⟨AMap.mem_of_getT? hg, by simpa using hpos⟩, rfl⟩

/-- The root's `Methods()` (the answer to `OPTIONS *`) against the abstract table. -/
theorem star_methods {t : Tree} {tb : Spec.Table} (h : Sim t tb) (m : Bytes) :
    m ∈ t.root.methods ↔ m = mOPTIONS ∨ (t.hasTrace = true ∧ m = mTRACE) ∨ ∃ p, tb.has p m := by
  rw [root_methods h.inv.inv2 m, mem_liveMethods h.inv.inv2.counts.nodup, counts_eq h, count_pos_iff]


/-! ## `Clean` on the table, exactly; `PatternOk` -/

/-- `Tree.clean` acts on the table read off the tree exactly as `Spec.clean` (as lists). -/
theorem tableOf_clean {t t' : Tree} {pre : Bytes} (hinv : TInv t) (he : t.clean pre = .ok t') :
    tableOf t' = Spec.clean (tableOf t) pre := by
  obtain ⟨_, hl, _⟩ := clean_effect hinv he
  unfold tableOf Spec.clean
  rw [hl, List.filter_map]
  rfl

/-- The invariant `Sh` contains the first-wave `PatternOk`. -/
theorem patternOk_of_sh (ic : Interceptors) : ∀ n : Node, Node.All (Sh ic) n → Node.PatternOk n := by
  intro n
  induction n using Node.rec (motive_2 := fun cs => ∀ pp, ShL ic pp cs → AllL (Sh ic) cs → PatternOkL pp cs) with
  | mk s p mi hs idx cs ih => intro h; exact ih p h.1 h.2
  | nil => simp [PatternOkL]
  | cons c cs ih1 ih2 =>
    rename_i pp hsh hall
    obtain ⟨hco, _, hsho⟩ := ShL_cons.1 hsh
    rw [AllL_cons_iff] at hall
    exact ⟨hco.2.2.1, ih1 hall.1, ih2 pp hsho hall.2⟩

end Mux.P11
