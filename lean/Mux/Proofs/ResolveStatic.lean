/-
  Mux.Proofs.ResolveStatic — C02 part B4, the static half: a tree that satisfies the shape invariant
  `Sh` of well-formed patterns (`TableShape.lean`) and in which every node without handlers is
  *forked* (it has a parameter child or two children starting with different bytes — so its text
  cannot be extended by a literal byte common to everything below it) IS in canonical form for the
  remainders read off the tree itself (`rems`): the groups the reference resolver forms from the
  remainders below a node are exactly its children, text by text and member by member.
-/
import Mux.Proofs.ResolveLists
namespace Mux.P15
open Mux Mux.Spec

/-! ## The remainders below a node, read off the tree -/

mutual
/-- The remainders (relative to the node) of the routes living in the subtree, depth first. -/
def rems : Node → List Rem
  | .mk _ pat _ hs _ cs => (if hs.isEmpty then [] else [([], pat)]) ++ remsL cs
def remsL : List Node → List Rem
  | [] => []
  | c :: cs => (rems c).map (fun r => (c.seg.value ++ r.1, r.2)) ++ remsL cs
end

/-- The remainders a child contributes to its parent. -/
def block (c : Node) : List Rem := (rems c).map (fun r => (c.seg.value ++ r.1, r.2))

theorem rems_eq (n : Node) :
    (rems n) = (if n.handlers.isEmpty then [] else [([], n.pattern)]) ++ remsL n.children := by
  cases n; simp [rems, Node.handlers, Node.pattern, Node.children]

theorem remsL_cons (c : Node) (cs : List Node) : remsL (c :: cs) = block c ++ remsL cs := by
  simp [remsL, block]

theorem mem_remsL {cs : List Node} {r : Rem} : r ∈ remsL cs ↔ ∃ d ∈ cs, r ∈ block d := by
  induction cs with
  | nil => simp [remsL]
  | cons c cs ih => rw [remsL_cons, List.mem_append, ih]; simp

theorem remsL_sub_rems (n : Node) {r : Rem} (h : r ∈ remsL n.children) : r ∈ (rems n) := by
  rw [rems_eq]; exact List.mem_append_right _ h

/-! ## Forked nodes -/

/-- The children cannot all continue with one and the same literal byte. -/
def Forked (cs : List Node) : Prop :=
  (∃ d ∈ cs, d.seg.value.head? = some startByte) ∨
  (∃ d1 ∈ cs, ∃ d2 ∈ cs, d1.seg.value.head? ≠ d2.seg.value.head?)

/-- A node with handlers, or a forked one. -/
def TT (n : Node) : Prop := n.handlers ≠ [] ∨ Forked n.children

/-- The node's own text is the whole common literal continuation of its members: the remainders
below it (relative to it) have no common literal first byte. -/
def Stop (n : Node) : Prop := (rems n) ≠ [] ∧ lcp ((rems n).map (fun r => leadLit r.1)) = []

theorem leadLit_head (r : Bytes) : (leadLit r).head? = if r.head? = some startByte then none else r.head? := by
  cases r with
  | nil => rfl
  | cons b r =>
    by_cases hb : b = startByte
    · subst hb; simp [leadLit]
    · simp [leadLit, hb]

theorem head_append_of_ne {v : Bytes} (h : v ≠ []) (r : Bytes) : (v ++ r).head? = v.head? := by
  cases v with
  | nil => exact absurd rfl h
  | cons b v => rfl

/-! ## One child -/

section Child
variable {ic : Interceptors} {pp : Bytes} {c : Node} (hc : P11.ChildOk ic pp c)
include hc

/-- All remainders a child contributes have the child's key. -/
theorem block_key {tok suf : Bytes} (F : ValForm c.seg.value tok suf) :
    ∀ r ∈ block c, keyOf r.1 = some (tok, suf.head?) := by
  intro r hr
  obtain ⟨r', hr', rfl⟩ := List.mem_map.1 hr
  refine F.key r'.1 ?_
  by_cases hs : suf = []
  · right
    have hcl := hc.2.2.2 (F.closed hs)
    rw [rems_eq, hcl] at hr'
    simp only [remsL, List.append_nil] at hr'
    split at hr'
    · cases hr'
    · simp only [List.mem_singleton] at hr'
      rw [hr']
  · exact .inl hs

/-- The group a stopping child's remainders form is the child: its text, its remainders. -/
theorem block_group {tok suf : Bytes} (F : ValForm c.seg.value tok suf) (hstop : Stop c) :
    mkGroup (block c) (tok, suf.head?) = { value := c.seg.value, members := (rems c) } := by
  have hfil : (block c).filter (fun r => keyOf r.1 = some (tok, suf.head?)) = block c := by
    rw [List.filter_eq_self]
    intro r hr
    simpa using block_key hc F r hr
  have hlits : (block c).map (fun r => litOf r.1) = ((rems c).map (fun r => leadLit r.1)).map (fun x => suf ++ x) := by
    unfold block
    rw [List.map_map, List.map_map]
    apply List.map_congr_left
    intro r _
    exact F.lit r.1
  have hne : (rems c).map (fun r => leadLit r.1) ≠ [] := by
    intro e; exact hstop.1 (List.map_eq_nil_iff.1 e)
  have hval : tok ++ lcp ((block c).map (fun r => litOf r.1)) = c.seg.value := by
    rw [hlits, lcp_map_append suf hne, hstop.2, List.append_nil, ← F.eq]
  unfold mkGroup
  simp only [hfil, hval]
  congr 1
  unfold block
  rw [List.map_map]
  conv => rhs; rw [← List.map_id (rems c)]
  apply List.map_congr_left
  intro r _
  simp

end Child

theorem take_one_of_head {a b : Bytes} (h : a.head? = b.head?) : a.take 1 = b.take 1 := by
  cases a <;> cases b <;> simp_all

/-- Siblings with different `vkey`s have different resolver keys. -/
theorem key_ne_of_vkey_ne {a b ta sa tb sb : Bytes} (Fa : ValForm a ta sa) (Fb : ValForm b tb sb)
    (h : P11.vkey a ≠ P11.vkey b) : (ta, sa.head?) ≠ (tb, sb.head?) := by
  intro e
  simp only [Prod.mk.injEq] at e
  apply h
  rw [Fa.vkey, Fb.vkey, e.1, take_one_of_head e.2]

/-! ## The theorem -/

theorem CanonL_iff {gs : List RGroup} {cs : List Node} :
    CanonL gs cs ↔ ∀ c ∈ cs, ∀ g ∈ gs, g.value = c.seg.value → Node.Canon c g.members := by
  induction cs with
  | nil => simp [CanonL]
  | cons c cs ih => simp [CanonL, ih]

/-- A forked node (or one with handlers) whose children stop, stops. -/
theorem stop_of_TT {ic : Interceptors} {n : Node} (hsh : P11.Sh ic n) (hT : TT n)
    (hkids : ∀ c ∈ n.children, Stop c) : Stop n := by
  -- an element of `(rems n)` for every child
  have elem : ∀ d ∈ n.children, ∃ r ∈ (rems n), r.1.head? = d.seg.value.head? := by
    intro d hd
    obtain ⟨r', hr'⟩ := List.exists_mem_of_ne_nil _ (hkids d hd).1
    refine ⟨(d.seg.value ++ r'.1, r'.2), remsL_sub_rems n (mem_remsL.2 ⟨d, hd, List.mem_map.2 ⟨r', hr', rfl⟩⟩), ?_⟩
    exact head_append_of_ne (hsh.1 d hd).1.ne_nil _
  have nil_of_start : ∀ d ∈ n.children, d.seg.value.head? = some startByte → Stop n := by
    intro d hd hh
    obtain ⟨r, hr, hrh⟩ := elem d hd
    refine ⟨List.ne_nil_of_mem hr, lcp_eq_nil_of_nil_mem ?_⟩
    refine List.mem_map.2 ⟨r, hr, ?_⟩
    exact leadLit_head_of_start (hrh.trans hh)
  rcases hT with hh | ⟨d, hd, hstart⟩ | ⟨d1, hd1, d2, hd2, hne⟩
  · have hmem : (([], n.pattern) : Rem) ∈ (rems n) := by
      rw [rems_eq]
      have : n.handlers.isEmpty = false := by
        cases hn : n.handlers with
        | nil => exact absurd hn hh
        | cons _ _ => rfl
      simp [this]
    exact ⟨List.ne_nil_of_mem hmem, lcp_eq_nil_of_nil_mem (List.mem_map.2 ⟨_, hmem, rfl⟩)⟩
  · exact nil_of_start d hd hstart
  · by_cases h1 : d1.seg.value.head? = some startByte
    · exact nil_of_start d1 hd1 h1
    · by_cases h2 : d2.seg.value.head? = some startByte
      · exact nil_of_start d2 hd2 h2
      · obtain ⟨r1, hr1, hh1⟩ := elem d1 hd1
        obtain ⟨r2, hr2, hh2⟩ := elem d2 hd2
        refine ⟨List.ne_nil_of_mem hr1, lcp_eq_nil_of_heads (List.mem_map.2 ⟨r1, hr1, rfl⟩)
          (List.mem_map.2 ⟨r2, hr2, rfl⟩) ?_⟩
        rw [leadLit_head, leadLit_head, hh1, hh2, if_neg h1, if_neg h2]
        exact hne

/-- What is proved of a sibling list. -/
def KidsOk (cs : List Node) : Prop :=
  groups (remsL cs) = cs.map (fun c => ({ value := c.seg.value, members := (rems c) } : RGroup)) ∧
  ∀ c ∈ cs, Node.Canon c (rems c) ∧ Stop c

theorem canon_mk {ic : Interceptors} (n : Node) (hsh : P11.Sh ic n) (hk : KidsOk n.children) :
    Node.Canon n (rems n) := by
  obtain ⟨hg, hcs⟩ := hk
  have hgroups : groups (rems n) = n.children.map (fun c => ({ value := c.seg.value, members := (rems c) } : RGroup)) := by
    rw [rems_eq]
    split
    · rw [List.nil_append]; exact hg
    · rw [List.singleton_append, groups_cons_nil]; exact hg
  rw [Node.canon_iff]
  refine ⟨⟨?_, ?_⟩, ?_, ?_⟩
  · rw [rems_eq]
    constructor
    · intro hh
      have : n.handlers.isEmpty = false := by
        cases hn : n.handlers with
        | nil => exact absurd hn hh
        | cons _ _ => rfl
      exact ⟨([], n.pattern), by simp [this], rfl⟩
    · rintro ⟨r, hr, hre⟩ hnil
      rw [hnil] at hr
      simp only [List.isEmpty_nil, if_true, List.nil_append] at hr
      obtain ⟨d, hd, hb⟩ := mem_remsL.1 hr
      obtain ⟨r', _, rfl⟩ := List.mem_map.1 hb
      simp only [List.append_eq_nil_iff] at hre
      exact (hsh.1 d hd).1.ne_nil hre.1
  · intro r hr hre
    rw [rems_eq] at hr
    rcases List.mem_append.1 hr with hr | hr
    · split at hr
      · cases hr
      · simp only [List.mem_singleton] at hr
        rw [hr]
    · obtain ⟨d, hd, hb⟩ := mem_remsL.1 hr
      obtain ⟨r', _, rfl⟩ := List.mem_map.1 hb
      simp only [List.append_eq_nil_iff] at hre
      exact absurd hre.1 (hsh.1 d hd).1.ne_nil
  · rw [hgroups, List.map_map]
    exact List.Perm.refl _
  · rw [hgroups, CanonL_iff]
    intro c hc g hgm hv
    obtain ⟨d, hd, rfl⟩ := List.mem_map.1 hgm
    have : d = c := P11.ShL.eq_of_value hsh hd hc hv
    subst this
    exact (hcs d hd).1

theorem kidsOk_cons {ic : Interceptors} {pp : Bytes} {c : Node} {cs : List Node} (hsh : P11.ShL ic pp (c :: cs))
    (hc : Node.Canon c (rems c) ∧ Stop c) (hk : KidsOk cs) : KidsOk (c :: cs) := by
  obtain ⟨hco, hkeys, hshcs⟩ := P11.ShL_cons.1 hsh
  obtain ⟨tok, suf, F⟩ := valForm_of_wf hco.1
  refine ⟨?_, ?_⟩
  · rw [remsL_cons, groups_block (k := (tok, suf.head?)) ?_ (block_key hco F) ?_, block_group hco F hc.2, hk.1,
      List.map_cons]
    · intro e
      exact hc.2.1 (List.map_eq_nil_iff.1 e)
    · intro r hr
      obtain ⟨d, hd, hb⟩ := mem_remsL.1 hr
      have hdo := hshcs.1 d hd
      obtain ⟨tokd, sufd, Fd⟩ := valForm_of_wf hdo.1
      rw [block_key hdo Fd r hb]
      intro e
      exact key_ne_of_vkey_ne Fd F (hkeys d hd) (Option.some.inj e)
  · intro d hd
    rcases List.mem_cons.1 hd with rfl | hd
    · exact hc
    · exact hk.2 d hd

/-- **Static canonical form.**  In a tree with the shape invariant in which every node below `n` has
handlers or is forked, `n` stands for the remainders read off its subtree, and stops when it has
handlers or is forked itself. -/
theorem canon_rems (ic : Interceptors) :
    ∀ n : Node, Node.All (P11.Sh ic) n → AllL TT n.children → KidsOk n.children ∧ Node.Canon n (rems n) := by
  intro n
  induction n using Node.rec
    (motive_2 := fun cs => ∀ pp, P11.ShL ic pp cs → AllL (P11.Sh ic) cs → AllL TT cs → KidsOk cs) with
  | mk s p mi hs idx cs ih =>
    intro hall hT
    have hk := ih p hall.head hall.tail hT
    exact ⟨hk, canon_mk _ hall.head hk⟩
  | nil =>
    exact ⟨rfl, fun c hc => by cases hc⟩
  | cons c cs ih1 ih2 =>
    rename_i pp hsh hall hT
    obtain ⟨hkc, hcc⟩ := ih1 hall.1 hT.1.tail
    refine kidsOk_cons hsh ⟨hcc, ?_⟩ (ih2 pp (P11.ShL_cons.1 hsh).2.2 hall.2 hT.2)
    exact stop_of_TT hall.1.head hT.1.head (fun d hd => (hkc.2 d hd).2)

/-! ## The remainders read off the tree, in terms of the live patterns -/

/-- The routes of the remainders are the live patterns, depth first. -/
theorem rems_routes : ∀ n : Node, (rems n).map (fun r => r.2) = (P11.liveN n).map (fun e => e.1) := by
  intro n
  induction n using Node.rec
    (motive_2 := fun cs => (remsL cs).map (fun r => r.2) = (liveL cs).map (fun e => e.1)) with
  | mk s p mi hs idx cs ih =>
    rw [rems_eq, List.map_append]
    simp only [Node.children_mk]
    rw [ih]
    unfold P11.liveN P11.ent
    rw [List.map_append]
    simp only [Node.handlers, Node.pattern, Node.children]
    cases hs <;> rfl
  | nil => rw [P11.liveL_nil]; rfl
  | cons c cs ih1 ih2 =>
    rw [remsL_cons, P11.liveL_cons, List.map_append, List.map_append, ih2, ← ih1]
    unfold block
    rw [List.map_map]
    rfl

theorem remsL_routes (cs : List Node) : (remsL cs).map (fun r => r.2) = (liveL cs).map (fun e => e.1) := by
  induction cs with
  | nil => rw [P11.liveL_nil]; rfl
  | cons c cs ih =>
    rw [remsL_cons, P11.liveL_cons, List.map_append, List.map_append, ih, ← rems_routes c]
    unfold block
    rw [List.map_map]
    rfl

/-- A remainder is its route without the pattern of the node it is relative to. -/
theorem rems_pattern (ic : Interceptors) :
    ∀ n : Node, Node.All (P11.Sh ic) n → ∀ r ∈ rems n, n.pattern ++ r.1 = r.2 := by
  intro n
  induction n using Node.rec
    (motive_2 := fun cs => ∀ pp, P11.ShL ic pp cs → AllL (P11.Sh ic) cs → ∀ r ∈ remsL cs, pp ++ r.1 = r.2) with
  | mk s p mi hs idx cs ih =>
    intro hall r hr
    rw [rems_eq] at hr
    rcases List.mem_append.1 hr with hr | hr
    · split at hr
      · cases hr
      · simp only [List.mem_singleton] at hr
        rw [hr]; simp
    · exact ih p hall.head hall.tail r hr
  | nil => rename_i pp _ _ r hr; cases hr
  | cons c cs ih1 ih2 =>
    rename_i pp hsh hall r hr
    obtain ⟨hco, _, hshcs⟩ := P11.ShL_cons.1 hsh
    rw [remsL_cons] at hr
    rcases List.mem_append.1 hr with hr | hr
    · obtain ⟨r', hr', rfl⟩ := List.mem_map.1 hr
      have := ih1 hall.1 r' hr'
      rw [hco.2.2.1] at this
      simpa using this
    · exact ih2 pp hshcs hall.2 r hr

/-- Below a root with empty pattern the remainders are the live patterns themselves. -/
theorem remsL_root {ic : Interceptors} {n : Node} (hall : Node.All (P11.Sh ic) n) (hp : n.pattern = []) :
    remsL n.children = ((liveL n.children).map (fun e => e.1)).map (fun p => (p, p)) := by
  rw [← remsL_routes, List.map_map]
  conv => lhs; rw [← List.map_id (remsL n.children)]
  apply List.map_congr_left
  intro r hr
  have := rems_pattern ic n hall r (remsL_sub_rems n hr)
  rw [hp, List.nil_append] at this
  obtain ⟨a, b⟩ := r
  simp only at this
  subst this
  rfl

end Mux.P15
