/-
  Mux.Proofs.HostsLateSeg — what `newSegment` makes of a text under two DIFFERENT interceptor tables, and the
  cut-point lemma of `Mux/Proofs/CutPoint.lean` for two segments parsed under different tables.

  `Hosts.RegisterInterceptor` may be called after domains were added; a stored segment `{a:rule}` then stays a
  REGEXP segment (the Go code never re-parses stored segments) although the current table would make an
  INTERCEPTOR segment of the same text.  So the invariant "every stored segment is `newSegment ic` of its text"
  holds per segment for SOME table only.  The two parses of one text differ in nothing but the kind
  (interceptor / regexp) and what follows from it (`endpoint`, `re`): `newSegment_indep`.
-/
import Mux.Proofs.CutPoint
import Mux.Proofs.WfTree
namespace Mux.P17
open Mux Mux.P9

/-- Two segments made of the same text under possibly different tables. -/
structure SameText (a b : Seg) : Prop where
  value : a.value = b.value
  name : a.name = b.name
  ign : a.ignoreName = b.ignoreName
  rule : a.rule = b.rule
  suffix : a.suffix = b.suffix
  str : a.kind = .str ↔ b.kind = .str
  eq_of_kind : a.kind = b.kind → a = b

theorem SameText.refl (a : Seg) : SameText a a := ⟨rfl, rfl, rfl, rfl, rfl, Iff.rfl, fun _ => rfl⟩

theorem finishRuled_indep {ic ic' : Interceptors} {v : Bytes} {st en sp : Nat} {a b : Seg}
    (ha : finishRuled ic v st en sp = .ok a) (hb : finishRuled ic' v st en sp = .ok b) : SameText a b := by
  unfold finishRuled at ha hb
  simp only at ha hb
  cases h1 : ic.find ((v.take en).drop (sp + 1)) with
  | some i =>
    rw [h1] at ha
    simp only [Except.ok.injEq] at ha
    cases h2 : ic'.find ((v.take en).drop (sp + 1)) with
    | some j =>
      rw [h2] at hb
      simp only [Except.ok.injEq] at hb
      subst ha; subst hb
      exact SameText.refl _
    | none =>
      rw [h2] at hb
      simp only at hb
      split at hb
      · cases hb
      · split at hb
        · cases hb
        · simp only [Except.ok.injEq] at hb
          subst ha; subst hb
          exact ⟨rfl, rfl, rfl, rfl, rfl, by simp, fun h => by simp at h⟩
  | none =>
    rw [h1] at ha
    simp only at ha
    split at ha
    · cases ha
    · split at ha
      · cases ha
      · rename_i re hre
        simp only [Except.ok.injEq] at ha
        cases h2 : ic'.find ((v.take en).drop (sp + 1)) with
        | some j =>
          rw [h2] at hb
          simp only [Except.ok.injEq] at hb
          subst ha; subst hb
          exact ⟨rfl, rfl, rfl, rfl, rfl, by simp, fun h => by simp at h⟩
        | none =>
          rw [h2] at hb
          simp only at hb
          split at hb
          · cases hb
          · rw [hre] at hb
            simp only [Except.ok.injEq] at hb
            subst ha; subst hb
            exact SameText.refl _

/-- **One text, two tables.**  The results of `newSegment` under two tables agree in everything but the kind
(and `endpoint`, `re`, which follow from it); literal stays literal; equal kinds give equal segments. -/
theorem newSegment_indep {ic ic' : Interceptors} {v : Bytes} {a b : Seg}
    (ha : newSegment ic v = .ok a) (hb : newSegment ic' v = .ok b) : SameText a b := by
  rw [newSegment_closed] at ha hb
  have same : ∀ x : Seg, Except.ok (ε := Err) x = .ok a → Except.ok (ε := Err) x = .ok b → SameText a b := by
    intro x h1 h2
    cases h1; cases h2
    exact SameText.refl _
  by_cases hlen : v.length > maxInt16
  · rw [if_pos hlen] at ha; cases ha
  rw [if_neg hlen] at ha hb
  cases hst : indexByte startByte v with
  | none => simp only [hst] at ha hb; exact same _ ha hb
  | some st =>
  cases hen : indexByte endByte v with
  | none => simp only [hst, hen] at ha hb; exact same _ ha hb
  | some en =>
  cases hsp : indexByte separatorByte v with
  | none =>
    simp only [hst, hen, hsp] at ha hb
    by_cases hc : st > en ∨ st + 1 = en
    · rw [if_pos hc] at ha; cases ha
    · rw [if_neg hc] at ha hb; exact same _ ha hb
  | some sp =>
    simp only [hst, hen, hsp] at ha hb
    by_cases h1 : st > en ∨ st + 1 = en ∨ st + 1 = sp
    · rw [if_pos h1] at ha; cases ha
    rw [if_neg h1] at ha hb
    by_cases h2 : sp + 1 = en
    · rw [if_pos h2] at ha hb; exact same _ ha hb
    rw [if_neg h2] at ha hb
    by_cases h3 : sp > en
    · rw [if_pos h3] at ha hb; exact same _ ha hb
    rw [if_neg h3] at ha hb
    by_cases h4 : sp < st
    · rw [if_pos h4] at ha; cases ha
    rw [if_neg h4] at ha hb
    exact finishRuled_indep ha hb

/-- The name-bookkeeping of the tree (`usedBelow`) does not see the table. -/
theorem SameText.usedBelow {a b : Seg} (h : SameText a b) (used : List Bytes) : usedBelow used a = usedBelow used b := by
  unfold P9.usedBelow
  by_cases hk : a.kind = .str
  · rw [if_pos hk, if_pos (h.str.1 hk)]
  · rw [if_neg hk, if_neg (fun e => hk (h.str.2 e)), h.name]

/-! ## The cut-point lemma for two tables -/

/-- `P9.cut_side` with the second segment parsed under another table (only its text form is used). -/
theorem cut_sideX {ica icb : Interceptors} {sa sb : Seg} (ha : SegOk ica sa) (hb : SegOk icb sb)
    (hk : sa.kind = sb.kind) {l : Nat} (hl : longestPrefix sa.value sb.value = (l : Int)) (h0 : 0 < l) :
    l ≤ sa.value.length ∧ NoBrace (sa.value.drop l) ∧ WfPiece (sa.value.take l) ∧
      ∃ s1, newSegment ica (sa.value.take l) = .ok s1 ∧ s1.kind = sa.kind ∧ s1.name = sa.name ∧
        s1.ignoreName = sa.ignoreName ∧ s1.rule = sa.rule := by
  have hle : l ≤ sa.value.length := by
    have := longestPrefix_le sa.value sb.value
    rw [hl] at this
    omega
  rcases ha.wf with hn | ht
  · refine ⟨hle, hn.drop l, .inl (hn.take l), { value := sa.value.take l }, ?_, ?_, ?_, ?_, ?_⟩
    · exact newSegment_noStart ica (hn.take l).1 (by have := newSegment_len ha.seg; simp; omega)
    all_goals rw [ha.str_of_noBrace hn.1]
  · have hka := ha.kind_ne_str_of_tok ht
    have hkb : sb.kind ≠ .str := hk ▸ hka
    obtain ⟨body, suf, hva, hb1, hs1⟩ := ht
    obtain ⟨body', suf', hvb, hb2, hs2⟩ := hb.tok_of_kind hkb
    rw [hva, hvb] at hl
    rcases longestPrefix_tok body suf body' suf' hb1 hb2 hs1 hs2 with h | ⟨h, _⟩
    · rw [h] at hl; omega
    rw [hl] at h
    have h3 : body.length + 3 ≤ l := by omega
    obtain ⟨k, rfl⟩ : ∃ k, l = body.length + 2 + k := ⟨l - (body.length + 2), by omega⟩
    have hseg := ha.seg
    rw [hva] at hseg hle ⊢
    refine ⟨hle, ?_, ?_, _, newSegment_take ica hseg (tok_start body suf) (tok_end suf hb1.2) (by omega) hle
      (tok_no_end_after hs1.2), rfl, rfl, rfl, rfl⟩
    · rw [tok_drop]; exact hs1.drop k
    · rw [tok_take]; exact .inr ⟨body, suf.take k, rfl, hb1, hs1.take k⟩

/-- **The cut-point lemma for a stored segment `a` (parsed under SOME table `ica`) and a new segment `b` (parsed
under the current table `ic`)** of the same kind with `l = longestPrefix a.value b.value > 0`: as `P9.cutPoint`,
and the upper half of `a` re-parsed under the CURRENT table keeps `a`'s kind, name, flag and rule — a stored regexp
segment whose rule became an interceptor name in between is never split, because a new segment sharing its token
is an interceptor segment (another kind). -/
theorem cutPointX {ica ic : Interceptors} {sa sb : Seg} (ha : SegOk ica sa) (hb : SegOk ic sb)
    (hk : sa.kind = sb.kind) (hpos : 0 < longestPrefix sa.value sb.value) :
    ∃ l : Nat, longestPrefix sa.value sb.value = (l : Int) ∧ 0 < l ∧
      l ≤ sa.value.length ∧ l ≤ sb.value.length ∧ sa.value.take l = sb.value.take l ∧
      NoBrace (sa.value.drop l) ∧ NoBrace (sb.value.drop l) ∧
      sa.name = sb.name ∧ sa.ignoreName = sb.ignoreName ∧ sa.rule = sb.rule ∧
      ∃ s1, newSegment ic (sa.value.take l) = .ok s1 ∧ WfPiece (sa.value.take l) ∧
        s1.kind = sa.kind ∧ s1.name = sa.name ∧ s1.ignoreName = sa.ignoreName ∧ s1.rule = sa.rule ∧
        (l < sa.value.length → sa.splitAt ic l = .ok (s1, { value := sa.value.drop l }) ∧
          SegOk ic s1 ∧ SegOk ic { value := sa.value.drop l }) := by
  obtain ⟨l, hl⟩ : ∃ l : Nat, longestPrefix sa.value sb.value = (l : Int) :=
    ⟨(longestPrefix sa.value sb.value).toNat, by omega⟩
  have h0 : 0 < l := by rw [hl] at hpos; omega
  have hpre : sa.value.take l = sb.value.take l := by
    have := longestPrefix_pos_prefix sa.value sb.value hpos
    rw [hl] at this
    simpa using this
  have hl' : longestPrefix sb.value sa.value = (l : Int) := by rw [longestPrefix_comm]; exact hl
  obtain ⟨a1, a2, a3, s1, a4, a5, a6, a7, a8⟩ := cut_sideX ha hb hk hl h0
  obtain ⟨b1, b2, _, s1', b4, b5, b6, b7, b8⟩ := cut_sideX hb ha hk.symm hl' h0
  -- the same text under the two tables, with the same kind
  rw [hpre] at a4
  have hst := newSegment_indep a4 b4
  have hs : s1 = s1' := hst.eq_of_kind (by rw [a5, b5, hk])
  subst hs
  rw [← hpre] at b4
  refine ⟨l, hl, h0, a1, b1, hpre, a2, b2, a6.symm.trans b6, a7.symm.trans b7, a8.symm.trans b8,
    s1, b4, a3, a5, a6, a7, a8, ?_⟩
  intro hlt
  have hlen := newSegment_len ha.seg
  have hdne : sa.value.drop l ≠ [] := by
    intro e
    have := congrArg List.length e
    simp at this
    omega
  have hdl : (sa.value.drop l).length ≤ maxInt16 := by simp; omega
  have htne : sa.value.take l ≠ [] := by
    intro e
    have := congrArg List.length e
    simp only [List.length_take, List.length_nil] at this
    omega
  exact ⟨splitAt_ok a1 b4 (newSegment_noStart ic a2.1 hdl), SegOk.of_newSegment b4 a3 htne, SegOk.lit a2 hdne hdl⟩

/-- `P9.cutAt_of_lp` for two tables. -/
theorem cutAt_of_lpX {ica icb : Interceptors} {sa sb : Seg} (ha : SegOk ica sa) (hb : SegOk icb sb)
    (hk : sa.kind = sb.kind) {l : Nat} (hl : longestPrefix sa.value sb.value = (l : Int)) (h0 : 0 < l) :
    CutAt sa.value l := by
  have hle : l ≤ sa.value.length := by
    have := longestPrefix_le sa.value sb.value
    rw [hl] at this
    omega
  refine ⟨hle, ?_⟩
  rcases ha.wf with hn | ht
  · exact .inl ⟨hn, h0⟩
  · have hka := ha.kind_ne_str_of_tok ht
    have hkb : sb.kind ≠ .str := hk ▸ hka
    obtain ⟨body, suf, hva, hb1, hs1⟩ := ht
    obtain ⟨body', suf', hvb, hb2, hs2⟩ := hb.tok_of_kind hkb
    rw [hva, hvb] at hl
    rcases longestPrefix_tok body suf body' suf' hb1 hb2 hs1 hs2 with h | ⟨h, _⟩
    · rw [h] at hl; omega
    rw [hl] at h
    exact .inr ⟨body, suf, l - (body.length + 3), hva, hb1, hs1, by omega⟩

end Mux.P17
