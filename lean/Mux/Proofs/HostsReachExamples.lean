/-
  Mux.Proofs.HostsReachExamples — a matcher reached by `RegisterInterceptor("d")`, `Add("a.com")`, `Add("A.com.CN")`
  (evaluated through the fuel version of `getNode`) and an interleaved history, for the non-vacuity examples of
  `C14reach`.
-/
import Mux.Proofs.HostsReach
import Mux.Proofs.FrameExamples
namespace Mux.P14
open Mux Mux.P12 Mux.P10

/-- `a.com` -/
def dA : Bytes := [97, 46, 99, 111, 109]
/-- `A.com.CN` -/
def dACn : Bytes := [65, 46, 99, 111, 109, 46, 67, 78]
/-- `A.COM.cn:80` -/
def hostACn : Bytes := [65, 46, 67, 79, 77, 46, 99, 110, 58, 56, 48]

def exRegs : List HOp := [.registerInterceptor 0 [100]]
def exHOps : List HOp := [.add dA, .add dACn]
def exHs : Hosts := hostsRun (hostsRun Hosts.empty exRegs) exHOps

theorem exHs_reachWf : HostsReachWf exHs := by
  refine HostsReachWf.of_regsFirst (regs := exRegs) (ops := exHOps) ?_ ?_
  · intro op hop
    simp only [exRegs, List.mem_singleton] at hop
    subst hop; trivial
  · intro op hop
    simp only [exHOps, List.mem_cons, List.not_mem_nil, or_false] at hop
    rcases hop with rfl | rfl <;> (show WfPattern _ = true; decide)

/-- An INTERLEAVED history: `Add("a.com")`, then `RegisterInterceptor("d")` (no regexp segment is stored in the
tree at that moment, so the side condition holds), then `Add("A.com.CN")`. -/
def exHOps2 : List HOp := [.add dA, .registerInterceptor 0 [100], .add dACn]

/-- Does a regexp segment below `cs` use `rule`?  (decidable form of `¬ RuleFree`) -/
def usesRule (rule : Bytes) (cs : List Node) : Bool := (nodesL cs).any (fun n => n.seg.kind = .rx ∧ n.seg.rule = rule)

theorem ruleFree_of_usesRule {rule : Bytes} {cs : List Node} (h : usesRule rule cs = false) : RuleFree rule cs := by
  intro n hn hk hr
  have : usesRule rule cs = true := List.any_eq_true.2 ⟨n, hn, by simp [hk, hr]⟩
  rw [h] at this; cases this

theorem exHOps2_ok : hostsRunOk Hosts.empty exHOps2 := by
  refine ⟨by show WfPattern _ = true; decide, ?_, by show WfPattern _ = true; decide, trivial⟩
  show RuleFree [100] (hostsStep Hosts.empty (.add dA)).tree.root.children
  apply ruleFree_of_usesRule
  simp only [hostsStep, Hosts.add, Hosts.empty, Tree.add, getNode_eq_F, bind, Except.bind, pure, Except.pure]
  decide +kernel

theorem exHs2_reachWf : HostsReachWf (hostsRun Hosts.empty exHOps2) := ⟨exHOps2, exHOps2_ok, rfl⟩

local macro "hosts_eval" : tactic =>
  `(tactic| (simp only [exHs, exRegs, exHOps, hostsRun, List.foldl_cons, List.foldl_nil, hostsStep, Hosts.add,
      Hosts.registerInterceptor, Hosts.empty, Tree.add, getNode_eq_F, bind, Except.bind, pure, Except.pure]
             decide +kernel))

/-- `A.COM.cn:80` is resolved to the node of the domain `a.com.cn` (no parameters). -/
theorem exHs_answer : ∃ f q, exHs.tree.handler P14.exEnv (normHost hostACn) [] mGET = .res f ∧ f.node = some q ∧
    q.pattern = toLower dACn ∧ f.handler = { base := .hostEmpty, wraps := [] } ∧ f.ok = true ∧ f.params = [] :=
  views_spec (by hosts_eval) (by hosts_eval) (by hosts_eval) (by hosts_eval)

/-- Incoming parameters whose keys are not parameter names of the tree (hypothesis of the `_from_reach` forms). -/
theorem exHs_namesFrom : NamesOkL (AMap.keys [([120], [121])]) exHs.tree.root.children := by hosts_eval

end Mux.P14
