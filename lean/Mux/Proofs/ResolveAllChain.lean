/-
  Mux.Proofs.ResolveAllChain — small facts for the unconditional statement of `C02all.lean`: the node a
  dispatch reaches lies below the root and carries a live route of the table read off the tree.
-/
import Mux.Proofs.ResolveReach
import Mux.Proofs.Table
namespace Mux.P16
open Mux Mux.P15

theorem nodes_of_child {x : Node} : ∀ {cs : List Node} {c : Node}, c ∈ cs → x ∈ c.nodes → x ∈ nodesL cs
  | [], _, hc, _ => by cases hc
  | d :: ds, c, hc, hx => by
    simp only [nodesL, List.mem_append]
    rcases List.mem_cons.1 hc with rfl | hc
    · exact .inl hx
    · exact .inr (nodes_of_child hc hx)

/-- With a non-empty path the node reached lies properly below the start. -/
theorem reachesBy_below {env : Env} {ic : Interceptors} {n : Node} {path : Bytes} {ps : Params} {is : List Nat}
    {m : Node} {ps' : Params} (h : ReachesBy env ic n path ps is m ps') (hp : path ≠ []) : m ∈ nodesL n.children := by
  cases h with
  | here _ => exact absurd rfl hp
  | child hi _ hr => exact nodes_of_child (List.mem_of_getElem? hi) hr.mem_nodes

/-- A node below the root that has handlers carries a route of the table read off the tree. -/
theorem live_pattern_mem {t : Tree} {m : Node} (hm : m ∈ nodesL t.root.children) (hh : m.handlers ≠ []) :
    m.pattern ∈ (tableOf t).patterns := by
  rw [P11.tableOf_patterns]
  exact List.mem_map.2 ⟨(m.pattern, m.handlers), P11.mem_liveL.2 ⟨m, hm, hh, rfl⟩, rfl⟩

end Mux.P16
