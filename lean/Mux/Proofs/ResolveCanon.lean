/-
  Mux.Proofs.ResolveCanon — C02: a tree in canonical form refines the tree-free reference resolver.

  `Node.Canon ic n R`: the node `n` stands for the remainders `R` — it has handlers iff some remainder
  is empty (whose route is then `n.pattern`), the texts of its children are, up to order, the texts
  of the groups `Spec.groups R`, and every child stands for the members of its group.  Decidable.

  `refines_node`: on such a node (with the structural invariant `SOk2` and the tracking hypotheses)
  a hit of `matchChildren` is a member of `Spec.resolveFuel … R path ps`, and a miss means that this
  list is empty.
-/
import Mux.Spec.Resolve
import Mux.Proofs.ResolveReach
namespace Mux.P15
open Mux Mux.P8 Mux.Spec

/-! ## Canonical form -/

mutual
/-- The node stands for the remainders `R`. -/
def Node.Canon : Node → List Rem → Prop
  | .mk _ pat _ hs _ cs, R =>
    ((hs ≠ [] ↔ ∃ r ∈ R, r.1 = []) ∧ (∀ r ∈ R, r.1 = [] → r.2 = pat)) ∧
    (cs.map (fun c => c.seg.value)).Perm ((groups R).map (fun g => g.value)) ∧ CanonL (groups R) cs
/-- Every child stands for the members of the group(s) carrying its text. -/
def CanonL (gs : List RGroup) : List Node → Prop
  | [] => True
  | c :: cs => (∀ g ∈ gs, g.value = c.seg.value → Node.Canon c g.members) ∧ CanonL gs cs
end

mutual
instance Node.decCanon : (n : Node) → (R : List Rem) → Decidable (Node.Canon n R)
  | .mk _ pat _ hs _ cs, R => by
    unfold Node.Canon
    have := decCanonL (groups R) cs
    infer_instance
instance decCanonL (gs : List RGroup) : (cs : List Node) → Decidable (CanonL gs cs)
  | [] => by unfold CanonL; exact instDecidableTrue
  | c :: cs => by
    unfold CanonL
    have : ∀ g : RGroup, Decidable (g.value = c.seg.value → Node.Canon c g.members) := fun g =>
      have := Node.decCanon c g.members
      inferInstance
    have := decCanonL gs cs
    infer_instance
end

/-- The part about the node itself. -/
def SelfCanon (n : Node) (R : List Rem) : Prop :=
  (n.handlers ≠ [] ↔ ∃ r ∈ R, r.1 = []) ∧ (∀ r ∈ R, r.1 = [] → r.2 = n.pattern)

/-- The part about the children. -/
def KidsCanon (cs : List Node) (R : List Rem) : Prop :=
  (cs.map (fun c => c.seg.value)).Perm ((groups R).map (fun g => g.value)) ∧ CanonL (groups R) cs

instance (n : Node) (R : List Rem) : Decidable (SelfCanon n R) := by unfold SelfCanon; infer_instance
instance (cs : List Node) (R : List Rem) : Decidable (KidsCanon cs R) := by unfold KidsCanon; infer_instance

theorem Node.canon_iff (n : Node) (R : List Rem) : Node.Canon n R ↔ SelfCanon n R ∧ KidsCanon n.children R := by
  cases n; simp only [Node.Canon, SelfCanon, KidsCanon, Node.handlers, Node.pattern, Node.children]

theorem CanonL_mem {gs : List RGroup} {cs : List Node} (h : CanonL gs cs) {c : Node} (hc : c ∈ cs) {g : RGroup} (hg : g ∈ gs)
    (hv : g.value = c.seg.value) : Node.Canon c g.members := by
  induction cs with
  | nil => cases hc
  | cons d cs ih =>
    simp only [CanonL] at h
    rcases List.mem_cons.1 hc with rfl | hc
    · exact h.1 g hg hv
    · exact ih h.2 hc

/-- Every child has a group with its text … -/
theorem KidsCanon.group_of_child {cs : List Node} {R : List Rem} (h : KidsCanon cs R) {c : Node} (hc : c ∈ cs) :
    ∃ g ∈ groups R, g.value = c.seg.value ∧ Node.Canon c g.members := by
  have : c.seg.value ∈ (groups R).map (fun g => g.value) := h.1.subset (List.mem_map_of_mem (f := fun c => c.seg.value) hc)
  obtain ⟨g, hg, hv⟩ := List.mem_map.1 this
  exact ⟨g, hg, hv, CanonL_mem h.2 hc hg hv⟩

/-- … and every group has a child with its text. -/
theorem KidsCanon.child_of_group {cs : List Node} {R : List Rem} (h : KidsCanon cs R) {g : RGroup} (hg : g ∈ groups R) :
    ∃ c ∈ cs, g.value = c.seg.value ∧ Node.Canon c g.members := by
  have : g.value ∈ cs.map (fun c => c.seg.value) := h.1.symm.subset (List.mem_map_of_mem (f := fun g => g.value) hg)
  obtain ⟨c, hc, hv⟩ := List.mem_map.1 this
  exact ⟨c, hc, hv.symm, CanonL_mem h.2 hc hg hv.symm⟩

/-! ## Fuel -/

theorem le_maxLen {R : List Rem} {r : Rem} (h : r ∈ R) : r.1.length ≤ maxLen R := by
  unfold maxLen
  induction R with
  | nil => cases h
  | cons a R ih =>
    simp only [List.map_cons, List.foldr_cons]
    rcases List.mem_cons.1 h with rfl | h
    · exact Nat.le_max_left _ _
    · exact Nat.le_trans (ih h) (Nat.le_max_right _ _)

theorem maxLen_le {R : List Rem} {b : Nat} (h : ∀ r ∈ R, r.1.length ≤ b) : maxLen R ≤ b := by
  unfold maxLen
  induction R with
  | nil => simp
  | cons a R ih =>
    simp only [List.map_cons, List.foldr_cons]
    exact Nat.max_le.2 ⟨h a List.mem_cons_self, ih (fun r hr => h r (List.mem_cons_of_mem _ hr))⟩

theorem mem_dedup {α : Type} [DecidableEq α] {a : α} : ∀ {l : List α}, a ∈ dedup l ↔ a ∈ l
  | [] => by simp [dedup]
  | b :: l => by
    unfold dedup
    split
    · rename_i hb
      rw [mem_dedup (l := l), List.mem_cons]
      constructor
      · exact .inr
      · rintro (rfl | h)
        · exact hb
        · exact h
    · rw [List.mem_cons, List.mem_cons, mem_dedup (l := l)]

theorem keyOf_ne_nil {r : Bytes} {k : Key} (h : keyOf r = some k) : r ≠ [] := by
  rintro rfl; simp [keyOf] at h

/-- Stripping a group's (non-empty) text leaves strictly shorter remainders. -/
theorem maxLen_members {R : List Rem} {g : RGroup} (hg : g ∈ groups R) (hv : g.value ≠ []) :
    maxLen g.members < maxLen R := by
  unfold groups at hg
  obtain ⟨k, hk, rfl⟩ := List.mem_map.1 hg
  rw [mem_dedup] at hk
  obtain ⟨r0, hr0, hk0⟩ := List.mem_filterMap.1 hk
  have h0 : 1 ≤ maxLen R := by
    have := le_maxLen hr0
    have hne := keyOf_ne_nil hk0
    have : 0 < r0.1.length := List.length_pos_iff.2 hne
    omega
  have hL : 1 ≤ (mkGroup R k).value.length := by
    have := List.length_pos_iff.2 hv
    omega
  have : maxLen (mkGroup R k).members ≤ maxLen R - 1 := by
    apply maxLen_le
    intro r hr
    simp only [mkGroup, List.mem_map, List.mem_filter] at hr
    obtain ⟨r', ⟨hr', _⟩, rfl⟩ := hr
    have := le_maxLen hr'
    simp only [List.length_drop]
    simp only [mkGroup] at hL
    omega
  omega

/-! ## The resolver, one step -/

/-- The outcomes of the groups of kind `k`. -/
def byKind (env : Env) (ic : Interceptors) (f : Nat) (R : List Rem) (k : Kind) (path : Bytes) (ps : AMap Bytes) :
    List (Bytes × AMap Bytes) :=
  (groups R).flatMap (tryGroup env ic (resolveFuel env ic f) k path ps)

/-- The routes that end here. -/
def ended (R : List Rem) (path : Bytes) (ps : AMap Bytes) : List (Bytes × AMap Bytes) :=
  if path = [] then (R.filter (fun r => r.1 = [])).map (fun r => (r.2, ps)) else []

theorem resolveFuel_succ (env : Env) (ic : Interceptors) (f : Nat) (R : List Rem) (path : Bytes) (ps : AMap Bytes) :
    resolveFuel env ic (f + 1) R path ps =
      if byKind env ic f R .str path ps ≠ [] then byKind env ic f R .str path ps
      else if byKind env ic f R .icpt path ps ≠ [] then byKind env ic f R .icpt path ps ++ ended R path ps
      else if byKind env ic f R .rx path ps ≠ [] then byKind env ic f R .rx path ps ++ ended R path ps
      else byKind env ic f R .named path ps ++ ended R path ps := rfl

theorem resolveFuel_all_nil {env : Env} {ic : Interceptors} {f : Nat} {R : List Rem} {path : Bytes} {ps : AMap Bytes}
    (h : ∀ k, byKind env ic f R k path ps = []) : resolveFuel env ic (f + 1) R path ps = ended R path ps := by
  rw [resolveFuel_succ]
  simp [h]

theorem mem_resolveFuel_of_byKind {env : Env} {ic : Interceptors} {f : Nat} {R : List Rem} {path : Bytes} {ps : AMap Bytes}
    {k : Kind} {o : Bytes × AMap Bytes} (ho : o ∈ byKind env ic f R k path ps)
    (hlow : ∀ k' : Kind, k'.rank < k.rank → byKind env ic f R k' path ps = []) :
    o ∈ resolveFuel env ic (f + 1) R path ps := by
  rw [resolveFuel_succ]
  have hne : byKind env ic f R k path ps ≠ [] := List.ne_nil_of_mem ho
  cases k with
  | str => rw [if_pos hne]; exact ho
  | icpt =>
    rw [if_neg (by simp [hlow .str (by decide)]), if_pos hne]
    exact List.mem_append_left _ ho
  | rx =>
    rw [if_neg (by simp [hlow .str (by decide)]), if_neg (by simp [hlow .icpt (by decide)]), if_pos hne]
    exact List.mem_append_left _ ho
  | named =>
    rw [if_neg (by simp [hlow .str (by decide)]), if_neg (by simp [hlow .icpt (by decide)]),
      if_neg (by simp [hlow .rx (by decide)])]
    exact List.mem_append_left _ ho

theorem mem_resolveFuel_of_ended {env : Env} {ic : Interceptors} {f : Nat} {R : List Rem} {ps : AMap Bytes}
    {o : Bytes × AMap Bytes} (ho : o ∈ ended R [] ps)
    (hlit : byKind env ic f R .str [] ps = []) : o ∈ resolveFuel env ic (f + 1) R [] ps := by
  rw [resolveFuel_succ, if_neg (by simp [hlit])]
  split
  · exact List.mem_append_right _ ho
  · split
    · exact List.mem_append_right _ ho
    · exact List.mem_append_right _ ho

/-- Tracked, the matcher's parameter update is the resolver's. -/
theorem record_eq_addParam {s : Seg} (cap : Bytes) {ps : Params} {used : List Bytes}
    (hfresh : s.name ∉ used) (hsub : ∀ k ∈ ps.keys, k ∈ used) : s.record cap ps = addParam s cap ps := by
  rw [(record_spec (s := s) cap hfresh hsub).1, captures_single]
  unfold addParam
  split <;> simp

/-! ## The refinement -/

/-- What is proved of one node. -/
def Refines (env : Env) (ic : Interceptors) (n : Node) : Prop :=
  ∀ (R : List Rem) (path : Bytes) (ps : Params) (used : List Bytes) (fuel : Nat),
    KidsCanon n.children R → (path = [] → SelfCanon n R) → maxLen R < fuel →
    NamesOkL used n.children → (∀ k ∈ ps.keys, k ∈ used) →
    (∀ m ps', n.matchChildren env ic path ps = .hit m ps' → (m.pattern, ps') ∈ resolveFuel env ic fuel R path ps) ∧
    (∀ ps', n.matchChildren env ic path ps = .miss ps' → resolveFuel env ic fuel R path ps = [])

section Step
variable {env : Env} {ic : Interceptors} {n : Node} (hall : Node.All (SOk2 ic) n)
  (ih : ∀ c ∈ n.children, Refines env ic c)
  {R : List Rem} (hK : KidsCanon n.children R) {f : Nat} (hf : maxLen R < f + 1)
  {used : List Bytes} (hN : NamesOkL used n.children) {ps : Params} (hk : ∀ k ∈ ps.keys, k ∈ used)
include hall ih hK hf hN hk

/-- The outcome of a child that hits is an outcome of its group. -/
theorem child_hit_mem {c : Node} (hc : c ∈ n.children) {path cap rest : Bytes}
    (hm : c.seg.match env ic path = .yes cap rest) {m : Node} {ps' : Params}
    (hsub : c.matchChildren env ic rest (c.seg.record cap ps) = .hit m ps') :
    (m.pattern, ps') ∈ byKind env ic f R c.seg.kind path ps := by
  obtain ⟨g, hg, hv, hcan⟩ := hK.group_of_child hc
  have hco := hall.head.1.child c hc
  obtain ⟨hfresh, hok⟩ := NamesOkL_mem hN hc
  obtain ⟨_, r2, _⟩ := record_spec (s := c.seg) cap hfresh hk
  have hlen : maxLen g.members < f := by
    have := maxLen_members hg (by rw [hv]; exact hco.2.1)
    omega
  rw [Node.canon_iff] at hcan
  have := (ih c hc g.members rest _ _ f hcan.2 (fun _ => hcan.1) hlen ((Node.namesOk_iff _ c).1 hok) r2).1 m ps' hsub
  unfold byKind
  refine List.mem_flatMap.2 ⟨g, hg, ?_⟩
  unfold tryGroup
  rw [hv, hco.2.2]
  simp only [if_true, hm]
  rw [← record_eq_addParam cap hfresh hk]
  exact this

/-- When every child of kind `k` misses, no group of kind `k` has an outcome. -/
theorem kind_miss_nil {path : Bytes} (k : Kind)
    (hmiss : ∀ c ∈ n.children, c.seg.kind = k → tryChild env ic c path ps = .miss ps) :
    byKind env ic f R k path ps = [] := by
  unfold byKind
  rw [List.flatMap_eq_nil_iff]
  intro g hg
  obtain ⟨c, hc, hv, hcan⟩ := hK.child_of_group hg
  have hco := hall.head.1.child c hc
  unfold tryGroup
  rw [hv, hco.2.2]
  simp only
  split
  · rename_i hkind
    rcases tryChild_miss_cases (hmiss c hc hkind) with hno | ⟨cap, rest, ps2, hm, hsub⟩
    · rw [hno]
    · rw [hm]
      simp only
      obtain ⟨hfresh, hok⟩ := NamesOkL_mem hN hc
      obtain ⟨_, r2, _⟩ := record_spec (s := c.seg) cap hfresh hk
      have hlen : maxLen g.members < f := by
        have := maxLen_members hg (by rw [hv]; exact hco.2.1)
        omega
      rw [Node.canon_iff] at hcan
      rw [← record_eq_addParam cap hfresh hk]
      exact (ih c hc g.members rest _ _ f hcan.2 (fun _ => hcan.1) hlen ((Node.namesOk_iff _ c).1 hok) r2).2 ps2 hsub
  · rfl

end Step

theorem refines_mk (env : Env) (ic : Interceptors) (n : Node) (hall : Node.All (SOk2 ic) n)
    (ih : ∀ c ∈ n.children, Refines env ic c) : Refines env ic n := by
  intro R path ps used fuel hK hSelf hfuel hN hk
  have hS : Node.All (SOk ic) n := SOk2.all_SOk _ hall
  have hd : DistinctFirstBytes n := hall.head.2.distinct
  have ht : TrackL used n.children ps := ⟨hN, AllL_idxLit_of_SOk _ hS.tail, hk⟩
  obtain ⟨f, rfl⟩ : ∃ f, fuel = f + 1 := ⟨fuel - 1, by omega⟩
  rw [matchChildren_eq_scan env ic hS hd hN hk]
  have allnil : AllMiss env ic n.children path ps → ∀ k, byKind env ic f R k path ps = [] :=
    fun hmiss k => kind_miss_nil hall ih hK hfuel hN hk k (fun c hc _ => hmiss c hc)
  refine ⟨?_, ?_⟩
  · intro m ps' h
    rcases (scan_hit_iff ht m ps').1 h with ⟨i, c, hi, hhit, hbefore⟩ | ⟨hmiss, hp, hh, rfl, rfl⟩
    · have hc := List.mem_of_getElem? hi
      obtain ⟨cap, rest, hm, hsub⟩ := (tryChild_hit_iff env ic c path ps m ps').1 hhit
      refine mem_resolveFuel_of_byKind (child_hit_mem hall ih hK hfuel hN hk hc hm hsub) ?_
      intro k' hk'
      refine kind_miss_nil hall ih hK hfuel hN hk k' ?_
      intro c' hc' hkind
      obtain ⟨j, hj⟩ := List.getElem?_of_mem hc'
      refine hbefore j ?_ c' hj
      rcases Nat.lt_or_ge j i with hlt | hge
      · exact hlt
      · have := RankSorted.getElem_le hS.head.sorted hge hi hj
        rw [hkind] at this
        omega
    · subst hp
      obtain ⟨hex, hroute⟩ := hSelf rfl
      obtain ⟨r, hr, hre⟩ := hex.1 hh
      refine mem_resolveFuel_of_ended ?_ (allnil hmiss .str)
      unfold ended
      rw [if_pos rfl]
      refine List.mem_map.2 ⟨r, List.mem_filter.2 ⟨hr, by simp [hre]⟩, ?_⟩
      rw [hroute r hr hre]
  · intro ps' h
    obtain ⟨_, hmiss, hself⟩ := (scan_miss_iff ht ps').1 h
    rw [resolveFuel_all_nil (allnil hmiss)]
    unfold ended
    split
    · rename_i hp
      obtain ⟨hex, _⟩ := hSelf hp
      have hnil : n.handlers = [] := by
        by_cases hh : n.handlers = []
        · exact hh
        · exact (hself ⟨hp, hh⟩).elim
      have hno : ¬ ∃ r ∈ R, r.1 = [] := fun he => hex.2 he hnil
      rw [List.map_eq_nil_iff, List.filter_eq_nil_iff]
      intro r hr hre
      exact hno ⟨r, hr, by simpa using hre⟩
    · rfl

/-- **Refinement**: every node all of whose descendants satisfy `SOk2`. -/
theorem refines_node (env : Env) (ic : Interceptors) : ∀ n : Node, Node.All (SOk2 ic) n → Refines env ic n := by
  intro n
  induction n using Node.rec (motive_2 := fun cs => AllL (SOk2 ic) cs → ∀ c ∈ cs, Refines env ic c) with
  | mk s p mi hs idx cs ih =>
    intro hall
    exact refines_mk env ic _ hall (ih hall.tail)
  | nil => rename_i c hc; cases hc
  | cons c cs ih1 ih2 =>
    rename_i hall d hd
    rcases List.mem_cons.1 hd with rfl | hd
    · exact ih1 hall.1
    · exact ih2 hall.2 d hd

end Mux.P15
