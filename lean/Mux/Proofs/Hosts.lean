/-
  Mux.Proofs.Hosts — the `Hosts` matcher (match.go): host normalisation as pure string logic
  (`validOptionalPort`, `lastIndexByte`, `toLower`, port and bracket stripping), `Hosts.match` on top of
  `Tree.handler`, histories of `Add/Delete/RegisterInterceptor`, and the no-fault facts of all matchers
  and of `Group.serve`.
-/
import Mux.Proofs.TreeReach
import Mux.Proofs.HandlerSound
import Mux.Proofs.Group
import Mux.Proofs.Recover
import Mux.Proofs.Syntax
namespace Mux.P12
open Mux

/-! ## `toLower` -/

/-- An ASCII upper-case letter `A`..`Z`. -/
def isUpper (b : UInt8) : Prop := 65 ≤ b ∧ b ≤ 90

instance (b : UInt8) : Decidable (isUpper b) := by unfold isUpper; infer_instance

theorem lowerByte_of_not_upper {b : UInt8} (h : ¬ isUpper b) : lowerByte b = b := by
  unfold lowerByte; exact if_neg h

theorem lowerByte_of_upper {b : UInt8} (h : isUpper b) : lowerByte b = b + 32 := by
  unfold lowerByte; exact if_pos h

/-- The image of `lowerByte` contains no upper-case letter. -/
theorem lowerByte_not_upper (b : UInt8) : ¬ isUpper (lowerByte b) := by
  unfold lowerByte isUpper
  split
  · rename_i h
    rintro ⟨h1, h2⟩
    obtain ⟨h3, h4⟩ := h
    rw [UInt8.le_iff_toNat_le] at h1 h2 h3 h4
    rw [UInt8.toNat_add] at h1 h2
    simp at h1 h2 h3 h4
    omega
  · rename_i h; exact h

theorem lowerByte_idem (b : UInt8) : lowerByte (lowerByte b) = lowerByte b :=
  lowerByte_of_not_upper (lowerByte_not_upper b)

/-- An upper-case letter is moved to the corresponding lower-case letter `a`..`z`. -/
theorem lowerByte_upper_range {b : UInt8} (h : isUpper b) : 97 ≤ lowerByte b ∧ lowerByte b ≤ 122 := by
  rw [lowerByte_of_upper h]
  obtain ⟨h3, h4⟩ := h
  rw [UInt8.le_iff_toNat_le] at h3 h4 ⊢
  rw [UInt8.le_iff_toNat_le, UInt8.toNat_add]
  simp at h3 h4 ⊢
  omega

theorem lowerByte_eq_self_iff (b : UInt8) : lowerByte b = b ↔ ¬ isUpper b := by
  constructor
  · intro h hu
    have := lowerByte_not_upper b
    rw [h] at this
    exact this hu
  · exact lowerByte_of_not_upper

theorem toLower_nil : toLower [] = [] := rfl
theorem toLower_cons (b : UInt8) (s : Bytes) : toLower (b :: s) = lowerByte b :: toLower s := rfl
theorem toLower_append (s t : Bytes) : toLower (s ++ t) = toLower s ++ toLower t := by simp [toLower]
theorem toLower_length (s : Bytes) : (toLower s).length = s.length := by simp [toLower]

theorem toLower_idem (s : Bytes) : toLower (toLower s) = toLower s := by
  simp [toLower, List.map_map, Function.comp_def, lowerByte_idem]

/-- `toLower` works byte by byte. -/
theorem toLower_getElem? (s : Bytes) (i : Nat) : (toLower s)[i]? = s[i]?.map lowerByte := by
  simp [toLower]

/-- `toLower` only changes the bytes 65–90. -/
theorem toLower_getElem?_of_not_upper (s : Bytes) (i : Nat) (b : UInt8) (h : s[i]? = some b) (hb : ¬ isUpper b) :
    (toLower s)[i]? = some b := by
  rw [toLower_getElem?, h, Option.map_some, lowerByte_of_not_upper hb]

theorem toLower_getElem?_of_upper (s : Bytes) (i : Nat) (b : UInt8) (h : s[i]? = some b) (hb : isUpper b) :
    (toLower s)[i]? = some (b + 32) := by
  rw [toLower_getElem?, h, Option.map_some, lowerByte_of_upper hb]

theorem toLower_eq_self_iff (s : Bytes) : toLower s = s ↔ ∀ b ∈ s, ¬ isUpper b := by
  induction s with
  | nil => simp [toLower]
  | cons c cs ih =>
    rw [toLower_cons, List.cons.injEq, ih, lowerByte_eq_self_iff]
    simp

/-- The result of `toLower` has no upper-case letter. -/
theorem toLower_no_upper (s : Bytes) : ∀ b ∈ toLower s, ¬ isUpper b := by
  intro b hb
  simp only [toLower, List.mem_map] at hb
  obtain ⟨a, _, rfl⟩ := hb
  exact lowerByte_not_upper a

/-! ## `validOptionalPort` -/

/-- An ASCII digit. -/
def isDigit (b : UInt8) : Bool := decide (48 ≤ b ∧ b ≤ 57)

theorem isDigit_iff (b : UInt8) : isDigit b = true ↔ 48 ≤ b ∧ b ≤ 57 := by simp [isDigit]

theorem not_isDigit_colon : isDigit 58 = false := by decide

theorem validOptionalPort_cons (c : UInt8) (rest : Bytes) :
    validOptionalPort (c :: rest) = (decide (c = 58) && rest.all isDigit) := by
  unfold validOptionalPort
  rw [Bool.eq_iff_iff]
  simp [isDigit]

theorem validOptionalPort_iff (p : Bytes) :
    validOptionalPort p = true ↔ p = [] ∨ ∃ ds, p = 58 :: ds ∧ ∀ d ∈ ds, 48 ≤ d ∧ d ≤ 57 := by
  cases p with
  | nil => simp [validOptionalPort]
  | cons c rest =>
    rw [validOptionalPort_cons]
    simp only [Bool.and_eq_true, decide_eq_true_eq, List.all_eq_true, isDigit_iff, reduceCtorEq, List.cons.injEq,
      false_or]
    constructor
    · rintro ⟨rfl, h⟩; exact ⟨rest, ⟨rfl, rfl⟩, h⟩
    · rintro ⟨ds, ⟨rfl, rfl⟩, h⟩; exact ⟨rfl, h⟩

/-! ## `indexByte`, `lastIndexByte` -/

theorem indexByte_append_of_not_mem {b : UInt8} {pre : Bytes} (tl : Bytes) (h : b ∉ pre) :
    indexByte b (pre ++ b :: tl) = some pre.length := by
  induction pre with
  | nil => simp [indexByte]
  | cons c cs ih =>
    simp only [List.mem_cons, not_or] at h
    simp only [List.cons_append, indexByte, List.length_cons]
    rw [if_neg (fun e => h.1 e.symm), ih h.2]
    rfl

/-- `indexByte` finds the first occurrence. -/
theorem indexByte_eq_some_iff {b : UInt8} {s : Bytes} {i : Nat} :
    indexByte b s = some i ↔ s[i]? = some b ∧ ∀ j, j < i → s[j]? ≠ some b := by
  constructor
  · intro h
    refine ⟨indexByte_some_get h, ?_⟩
    induction s generalizing i with
    | nil => cases h
    | cons c cs ih =>
      simp only [indexByte] at h
      split at h
      · cases h; intro j hj; omega
      · rename_i hc
        cases hi : indexByte b cs with
        | none => simp [hi] at h
        | some k =>
          simp only [hi, Option.map_some, Option.some.injEq] at h
          subst h
          intro j hj
          cases j with
          | zero => simpa using hc
          | succ j => simpa using ih hi j (by omega)
  · rintro ⟨h1, h2⟩
    have hlt : i < s.length := (List.getElem?_eq_some_iff.1 h1).1
    have hs : s = s.take i ++ b :: s.drop (i + 1) := by
      have hb : s[i] = b := (List.getElem?_eq_some_iff.1 h1).2
      rw [← hb, List.getElem_cons_drop, List.take_append_drop]
    have hn : b ∉ s.take i := by
      intro hm
      obtain ⟨j, hj, hjb⟩ := List.getElem_of_mem hm
      rw [List.length_take] at hj
      rw [List.getElem_take] at hjb
      exact h2 j (by omega) (by rw [List.getElem?_eq_getElem (by omega), hjb])
    rw [hs, indexByte_append_of_not_mem _ hn, List.length_take, Nat.min_eq_left (by omega)]

theorem lastIndexByte_append {b : UInt8} (pre : Bytes) {tl : Bytes} (h : b ∉ tl) :
    lastIndexByte b (pre ++ b :: tl) = some pre.length := by
  unfold lastIndexByte
  have hr : (pre ++ b :: tl).reverse = tl.reverse ++ b :: pre.reverse := by simp
  rw [hr, indexByte_append_of_not_mem _ (by simpa using h)]
  simp only [List.length_append, List.length_cons, List.length_reverse, Option.some.injEq]
  omega

theorem lastIndexByte_eq_none_iff {b : UInt8} {s : Bytes} : lastIndexByte b s = none ↔ b ∉ s := by
  unfold lastIndexByte
  cases h : indexByte b s.reverse with
  | none => simpa using indexByte_eq_none_iff.1 h
  | some i =>
    simp only [reduceCtorEq, false_iff, Classical.not_not]
    have := indexByte_some_get h
    have := List.mem_of_getElem? this
    simpa using this

/-- A byte that occurs in `s` has a last occurrence. -/
theorem exists_last_split {b : UInt8} {s : Bytes} (h : b ∈ s) : ∃ pre tl, s = pre ++ b :: tl ∧ b ∉ tl := by
  induction s with
  | nil => cases h
  | cons c cs ih =>
    by_cases hc : b ∈ cs
    · obtain ⟨pre, tl, h1, h2⟩ := ih hc
      exact ⟨c :: pre, tl, by rw [h1]; rfl, h2⟩
    · have : b = c := by
        rcases List.mem_cons.1 h with e | e
        · exact e
        · exact absurd e hc
      subst this
      exact ⟨[], cs, rfl, hc⟩

/-- `strings.LastIndexByte`: the position of the last occurrence. -/
theorem lastIndexByte_eq_some_iff {b : UInt8} {s : Bytes} {i : Nat} :
    lastIndexByte b s = some i ↔ s[i]? = some b ∧ ∀ j, i < j → s[j]? ≠ some b := by
  constructor
  · intro h
    have hm : b ∈ s := by
      apply Classical.byContradiction
      intro hn
      rw [lastIndexByte_eq_none_iff.2 hn] at h
      cases h
    obtain ⟨pre, tl, rfl, hn⟩ := exists_last_split hm
    rw [lastIndexByte_append pre hn] at h
    cases h
    refine ⟨by simp, ?_⟩
    intro j hj hjb
    rw [List.getElem?_append_right (by omega)] at hjb
    have : (b :: tl)[j - pre.length]? = tl[j - pre.length - 1]? := by
      have : j - pre.length = (j - pre.length - 1) + 1 := by omega
      rw [this, List.getElem?_cons_succ]; simp
    rw [this] at hjb
    exact hn (List.mem_of_getElem? hjb)
  · rintro ⟨h1, h2⟩
    have hlt : i < s.length := (List.getElem?_eq_some_iff.1 h1).1
    have hs : s = s.take i ++ b :: s.drop (i + 1) := by
      have hb : s[i] = b := (List.getElem?_eq_some_iff.1 h1).2
      rw [← hb, List.getElem_cons_drop, List.take_append_drop]
    have hn : b ∉ s.drop (i + 1) := by
      intro hm
      obtain ⟨j, hj, hjb⟩ := List.getElem_of_mem hm
      rw [List.length_drop] at hj
      rw [List.getElem_drop] at hjb
      exact h2 (i + 1 + j) (by omega) (by rw [List.getElem?_eq_getElem (by omega), hjb])
    have := lastIndexByte_append (s.take i) hn
    rw [← hs, List.length_take, Nat.min_eq_left (by omega)] at this
    exact this

/-! ## Port and bracket stripping: the specification of `normHost` -/

/-- `splitLastColon h = some (host, tl)` iff `h = host ++ ":" ++ tl` and `tl` contains no `:`
(`splitLastColon_append`, `splitLastColon_none`): the split at the LAST colon. -/
def splitLastColon : Bytes → Option (Bytes × Bytes)
  | [] => none
  | c :: cs =>
    match splitLastColon cs with
    | some (a, t) => some (c :: a, t)
    | none => if c = 58 then some ([], cs) else none

/-- Remove `:port` — the part from the last `:` on — iff everything after that `:` is ASCII digits
(possibly none). -/
def stripPort (h : Bytes) : Bytes :=
  match splitLastColon h with
  | some (host, tl) => if tl.all isDigit then host else h
  | none => h

/-- Remove one leading `[` and one trailing `]` iff both are present. -/
def stripBrackets (h : Bytes) : Bytes :=
  match h with
  | [] => []
  | c :: rest => if c = 91 ∧ rest.getLast? = some 93 then rest.dropLast else h

theorem splitLastColon_none {s : Bytes} (h : 58 ∉ s) : splitLastColon s = none := by
  induction s with
  | nil => rfl
  | cons c cs ih =>
    simp only [List.mem_cons, not_or] at h
    simp only [splitLastColon, ih h.2]
    rw [if_neg (fun e => h.1 e.symm)]

theorem splitLastColon_append (pre : Bytes) {tl : Bytes} (h : 58 ∉ tl) :
    splitLastColon (pre ++ 58 :: tl) = some (pre, tl) := by
  induction pre with
  | nil => simp [splitLastColon, splitLastColon_none h]
  | cons c cs ih => simp only [List.cons_append, splitLastColon, ih]

theorem splitLastColon_some {s host tl : Bytes} (h : splitLastColon s = some (host, tl)) :
    s = host ++ 58 :: tl ∧ 58 ∉ tl := by
  by_cases hm : (58 : UInt8) ∈ s
  · obtain ⟨pre, t, rfl, hn⟩ := exists_last_split hm
    rw [splitLastColon_append pre hn] at h
    cases h
    exact ⟨rfl, hn⟩
  · rw [splitLastColon_none hm] at h; cases h

/-- No `:` at all: nothing is removed. -/
theorem stripPort_no_colon {h : Bytes} (hn : 58 ∉ h) : stripPort h = h := by
  unfold stripPort; rw [splitLastColon_none hn]

theorem not_mem_of_all_digits {ds : Bytes} (h : ∀ d ∈ ds, 48 ≤ d ∧ d ≤ 57) : (58 : UInt8) ∉ ds := by
  intro hm
  have := h 58 hm
  revert this; decide

/-- `host:digits` (digits possibly empty; `host` may itself contain colons): the port is removed. -/
theorem stripPort_valid (host ds : Bytes) (h : ∀ d ∈ ds, 48 ≤ d ∧ d ≤ 57) :
    stripPort (host ++ 58 :: ds) = host := by
  unfold stripPort
  rw [splitLastColon_append host (not_mem_of_all_digits h)]
  have : ds.all isDigit = true := by
    rw [List.all_eq_true]; intro d hd; exact (isDigit_iff d).2 (h d hd)
  simp [this]

/-- What follows the last `:` contains a non-digit (`:x`, `:8o`): the host is left as it is.  (Only the text
after the LAST colon counts: in `host:80:` that text is empty, so the final `:` alone is removed.) -/
theorem stripPort_invalid (host tl : Bytes) (hn : 58 ∉ tl) (x : UInt8) (hx : x ∈ tl) (hd : ¬ (48 ≤ x ∧ x ≤ 57)) :
    stripPort (host ++ 58 :: tl) = host ++ 58 :: tl := by
  unfold stripPort
  rw [splitLastColon_append host hn]
  have : tl.all isDigit = false := by
    rw [Bool.eq_false_iff]
    intro h
    rw [List.all_eq_true] at h
    exact hd ((isDigit_iff x).1 (h x hx))
  simp [this]

/-- The three cases above are exhaustive: `stripPort` is determined by them. -/
theorem stripPort_cases (h : Bytes) :
    (58 ∉ h ∧ stripPort h = h) ∨
    (∃ host ds, h = host ++ 58 :: ds ∧ (∀ d ∈ ds, 48 ≤ d ∧ d ≤ 57) ∧ stripPort h = host) ∨
    (∃ host tl x, h = host ++ 58 :: tl ∧ 58 ∉ tl ∧ x ∈ tl ∧ ¬ (48 ≤ x ∧ x ≤ 57) ∧ stripPort h = h) := by
  by_cases hm : (58 : UInt8) ∈ h
  · obtain ⟨pre, tl, rfl, hn⟩ := exists_last_split hm
    cases hall : tl.all isDigit with
    | true =>
      have hd : ∀ d ∈ tl, 48 ≤ d ∧ d ≤ 57 := fun d hd => (isDigit_iff d).1 (List.all_eq_true.1 hall d hd)
      exact .inr (.inl ⟨pre, tl, rfl, hd, stripPort_valid pre tl hd⟩)
    | false =>
      obtain ⟨x, hx, hxd⟩ := List.all_eq_false.1 hall
      rw [isDigit_iff] at hxd
      exact .inr (.inr ⟨pre, tl, x, rfl, hn, hx, hxd, stripPort_invalid pre tl hn x hx hxd⟩)
  · exact .inl ⟨hm, stripPort_no_colon hm⟩

/-- The port step of `Hosts.Match` as the Go code computes it. -/
def stripPortGo (h : Bytes) : Bytes :=
  match lastIndexByte 58 h with
  | some i => if validOptionalPort (h.drop i) then h.take i else h
  | none => h

theorem stripPortGo_eq (h : Bytes) : stripPortGo h = stripPort h := by
  unfold stripPortGo stripPort
  by_cases hm : (58 : UInt8) ∈ h
  · obtain ⟨pre, tl, rfl, hn⟩ := exists_last_split hm
    rw [lastIndexByte_append pre hn, splitLastColon_append pre hn]
    simp only [List.drop_left, List.take_left, validOptionalPort_cons, decide_true, Bool.true_and]
  · rw [lastIndexByte_eq_none_iff.2 hm, splitLastColon_none hm]

/-- The bracket step of `Hosts.Match` as the Go code computes it. -/
def stripBracketsGo (h : Bytes) : Bytes :=
  if hasPrefix h [91] ∧ hasSuffix h [93] then (h.take (h.length - 1)).drop 1 else h

theorem hasSuffix_singleton (h : Bytes) (b : UInt8) : hasSuffix h [b] = true ↔ h.getLast? = some b := by
  unfold hasSuffix
  rw [List.getLast?_eq_head?_reverse]
  cases h.reverse with
  | nil => simp
  | cons c cs =>
    simp only [List.reverse_cons, List.reverse_nil, List.nil_append, List.isPrefixOf, Bool.and_true, beq_iff_eq,
      List.head?_cons, Option.some.injEq]
    exact eq_comm

theorem hasPrefix_singleton (h : Bytes) (b : UInt8) : hasPrefix h [b] = true ↔ h.head? = some b := by
  unfold hasPrefix
  cases h with
  | nil => simp
  | cons c cs =>
    simp only [List.isPrefixOf, Bool.and_true, beq_iff_eq, List.head?_cons, Option.some.injEq]
    exact eq_comm

theorem stripBracketsGo_eq (h : Bytes) : stripBracketsGo h = stripBrackets h := by
  unfold stripBracketsGo stripBrackets
  cases h with
  | nil => simp [hasPrefix]
  | cons c rest =>
    simp only [hasPrefix_singleton, hasSuffix_singleton, List.head?_cons, Option.some.injEq]
    by_cases hc : c = 91
    · subst hc
      have hl : (91 :: rest).getLast? = some 93 ↔ rest.getLast? = some 93 := by
        cases rest with
        | nil => simp
        | cons d ds => simp [List.getLast?_cons_cons]
      simp only [hl, true_and]
      split
      · cases rest <;> simp [List.dropLast_eq_take]
      · rfl
    · simp [hc]

theorem normHost_eq_go (h : Bytes) : normHost h = toLower (stripBracketsGo (stripPortGo h)) := rfl

/-- `[mid]` loses its brackets. -/
theorem stripBrackets_brackets (mid : Bytes) : stripBrackets (91 :: (mid ++ [93])) = mid := by
  simp [stripBrackets]

/-- Anything else is left alone. -/
theorem stripBrackets_other (h : Bytes) (hn : ¬ ∃ mid, h = 91 :: (mid ++ [93])) : stripBrackets h = h := by
  unfold stripBrackets
  cases h with
  | nil => rfl
  | cons c rest =>
    simp only
    rw [if_neg]
    rintro ⟨rfl, hl⟩
    apply hn
    have hne : rest ≠ [] := by rintro rfl; simp at hl
    refine ⟨rest.dropLast, ?_⟩
    have := List.dropLast_concat_getLast hne
    rw [List.getLast?_eq_some_getLast hne] at hl
    simp only [Option.some.injEq] at hl
    rw [hl] at this
    rw [this]

/-- `normHost` = lower-casing after bracket stripping after port stripping. -/
theorem normHost_spec (h : Bytes) : normHost h = toLower (stripBrackets (stripPort h)) := by
  rw [normHost_eq_go, stripPortGo_eq, stripBracketsGo_eq]

/-! ## `Hosts.match` on top of `Tree.handler` -/

theorem mGET_ne_mTRACE : mGET ≠ mTRACE := by decide
theorem mGET_ne_mNotAllowed : mGET ≠ mNotAllowed := by decide

theorem Hosts.match_nonAscii (env : Env) (hs : Hosts) (host path : Bytes) (ps : Params) (h : isAscii host = false) :
    hs.match env host path ps = .unsupported := by
  unfold Hosts.match
  simp [h]

/-- `Hosts.match` for an ASCII host: one call of `Tree.handler` for `GET` on the normalised host; only `ok`
and the parameters of the answer are looked at, the request path is passed through. -/
theorem Hosts.match_eq (env : Env) (hs : Hosts) (host path : Bytes) (ps : Params) (h : isAscii host = true) :
    hs.match env host path ps =
      match hs.tree.handler env (normHost host) ps mGET with
      | .fault s => .fault s
      | .unsupported => .unsupported
      | .res f => if f.ok then .accept path f.params else .reject path f.params := by
  unfold Hosts.match
  simp only [h, not_true_eq_false, if_false]
  cases hs.tree.handler env (normHost host) ps mGET <;> rfl

theorem Hosts.match_res (env : Env) (hs : Hosts) (host path : Bytes) (ps : Params) (f : Found)
    (ha : isAscii host = true) (h : hs.tree.handler env (normHost host) ps mGET = .res f) :
    hs.match env host path ps = if f.ok then .accept path f.params else .reject path f.params := by
  rw [Hosts.match_eq env hs host path ps ha, h]

theorem Hosts.match_accept_iff (env : Env) (hs : Hosts) (host path : Bytes) (ps : Params) (ha : isAscii host = true)
    (p : Bytes) (q : Params) :
    hs.match env host path ps = .accept p q ↔
      p = path ∧ ∃ f, hs.tree.handler env (normHost host) ps mGET = .res f ∧ f.ok = true ∧ q = f.params := by
  rw [Hosts.match_eq env hs host path ps ha]
  cases hh : hs.tree.handler env (normHost host) ps mGET with
  | fault s => simp
  | unsupported => simp
  | res f =>
    cases hok : f.ok with
    | true =>
      simp only [if_true, MatchOut.accept.injEq, HR.res.injEq, exists_eq_left', hok, true_and]
      constructor
      · rintro ⟨rfl, rfl⟩; exact ⟨rfl, rfl⟩
      · rintro ⟨rfl, rfl⟩; exact ⟨rfl, rfl⟩
    | false => simp [hok]

theorem Hosts.match_reject_iff (env : Env) (hs : Hosts) (host path : Bytes) (ps : Params) (ha : isAscii host = true)
    (p : Bytes) (q : Params) :
    hs.match env host path ps = .reject p q ↔
      p = path ∧ ∃ f, hs.tree.handler env (normHost host) ps mGET = .res f ∧ f.ok = false ∧ q = f.params := by
  rw [Hosts.match_eq env hs host path ps ha]
  cases hh : hs.tree.handler env (normHost host) ps mGET with
  | fault s => simp
  | unsupported => simp
  | res f =>
    cases hok : f.ok with
    | false =>
      simp only [Bool.false_eq_true, if_false, MatchOut.reject.injEq, HR.res.injEq, exists_eq_left', hok, true_and]
      constructor
      · rintro ⟨rfl, rfl⟩; exact ⟨rfl, rfl⟩
      · rintro ⟨rfl, rfl⟩; exact ⟨rfl, rfl⟩
    | true => simp [hok]

theorem Hosts.match_unsupported_iff (env : Env) (hs : Hosts) (host path : Bytes) (ps : Params)
    (ha : isAscii host = true) :
    hs.match env host path ps = .unsupported ↔ hs.tree.handler env (normHost host) ps mGET = .unsupported := by
  rw [Hosts.match_eq env hs host path ps ha]
  cases hh : hs.tree.handler env (normHost host) ps mGET with
  | fault s => simp
  | unsupported => simp
  | res f => cases hok : f.ok <;> simp [hok]

theorem Hosts.match_fault_iff (env : Env) (hs : Hosts) (host path : Bytes) (ps : Params)
    (ha : isAscii host = true) (s : Nat) :
    hs.match env host path ps = .fault s ↔ hs.tree.handler env (normHost host) ps mGET = .fault s := by
  rw [Hosts.match_eq env hs host path ps ha]
  cases hh : hs.tree.handler env (normHost host) ps mGET with
  | fault s => simp
  | unsupported => simp
  | res f => cases hok : f.ok <;> simp [hok]

/-- The answer of `Tree.handler` for `GET` in terms of what was matched — for EVERY tree: `ok` iff a node was
matched and it has a `GET` entry. -/
theorem handler_get_res {t : Tree} {env : Env} {path : Bytes} {ps : Params} {f : Found}
    (h : t.handler env path ps mGET = .res f) :
    (∃ ps', t.matched env path ps = .miss ps' ∧ f.ok = false ∧ f.node = none ∧ f.params = ps') ∨
    (∃ n ps', t.matched env path ps = .hit n ps' ∧ f.params = ps' ∧
       ((∃ hd, n.handlers.get? mGET = some hd ∧ f.ok = true ∧ f.node = some n ∧ f.handler = hd) ∨
        (n.handlers.get? mGET = none ∧ f.ok = false))) := by
  rw [Tree.handler_noTrace (Or.inr mGET_ne_mTRACE), handlerNoTrace_eq] at h
  cases hm : t.matched env path ps with
  | fault s => rw [hm] at h; cases h
  | unsupported => rw [hm] at h; cases h
  | miss ps' =>
    rw [hm] at h
    simp only [HR.res.injEq] at h
    subst h
    exact .inl ⟨ps', rfl, rfl, rfl, rfl⟩
  | hit n ps' =>
    rw [hm] at h
    simp only [mGET_ne_mNotAllowed, if_false] at h
    right
    refine ⟨n, ps', rfl, ?_⟩
    by_cases hsz : n.size = 0
    · rw [if_pos hsz] at h
      simp only [HR.res.injEq] at h
      subst h
      have : n.handlers = [] := List.eq_nil_of_length_eq_zero hsz
      exact ⟨rfl, .inr ⟨by rw [this]; rfl, rfl⟩⟩
    · rw [if_neg hsz] at h
      cases hg : n.handlers.get? mGET with
      | some hd =>
        rw [hg] at h
        simp only [HR.res.injEq] at h
        subst h
        exact ⟨rfl, .inl ⟨hd, rfl, rfl, rfl, rfl⟩⟩
      | none =>
        rw [hg] at h
        simp only at h
        cases h405 : n.handlers.get? mNotAllowed with
        | some h' =>
          rw [h405] at h
          simp only [HR.res.injEq] at h
          subst h
          exact ⟨rfl, .inr ⟨rfl, rfl⟩⟩
        | none =>
          rw [h405] at h
          simp only [HR.res.injEq] at h
          subst h
          exact ⟨rfl, .inr ⟨rfl, rfl⟩⟩

theorem handler_get_ok_iff {t : Tree} {env : Env} {path : Bytes} {ps : Params} {f : Found}
    (h : t.handler env path ps mGET = .res f) :
    f.ok = true ↔ ∃ n ps', t.matched env path ps = .hit n ps' ∧ (n.handlers.get? mGET).isSome = true ∧
      f.node = some n ∧ f.params = ps' := by
  rcases handler_get_res h with ⟨ps', hm, hok, _, _⟩ | ⟨n, ps', hm, hps, ⟨hd, hg, hok, hn, _⟩ | ⟨hg, hok⟩⟩
  · rw [hok, hm]; simp
  · rw [hok, hm]
    simp only [true_iff]
    exact ⟨n, ps', rfl, by rw [hg]; rfl, hn, hps⟩
  · rw [hok, hm]
    simp only [Bool.false_eq_true, MR.hit.injEq, false_iff, not_exists, not_and]
    rintro n' ps'' ⟨rfl, rfl⟩ hs
    rw [hg] at hs; cases hs

/-! ## The root: `""` and `*` -/

theorem root_get_none {t : Tree} (hinv : TreeInv t) : t.root.handlers.get? mGET = none := by
  cases hg : t.root.handlers.get? mGET with
  | none => rfl
  | some h =>
    have : (t.root.handlers.get? mGET).isSome = true := by rw [hg]; rfl
    rw [AMap.get?_isSome_iff, hinv.rootKeys] at this
    exact absurd this (by decide)

theorem matched_root (env : Env) (t : Tree) (path : Bytes) (ps : Params) (h : path = [] ∨ path = [42]) :
    t.matched env path ps = .hit t.root ps := by
  unfold Tree.matched
  rw [if_pos (Or.symm h)]

/-- `""` and `*` select the root, which never has a `GET` entry: rejected, the parameters as they came. -/
theorem Hosts.match_root (env : Env) {hs : Hosts} (hinv : TreeInv hs.tree) (host path : Bytes) (ps : Params)
    (ha : isAscii host = true) (hn : normHost host = [] ∨ normHost host = [42]) :
    hs.match env host path ps = .reject path ps := by
  have hnf := handler_no_fault hinv env (normHost host) ps mGET
  cases hh : hs.tree.handler env (normHost host) ps mGET with
  | fault s => exact absurd hh (hnf s)
  | unsupported =>
    rw [Tree.handler_noTrace (Or.inr mGET_ne_mTRACE), handlerNoTrace_eq, matched_root env _ _ _ hn] at hh
    simp only at hh
    split at hh
    · cases hh
    · split at hh
      · cases hh
      · split at hh <;> cases hh
  | res f =>
    rw [Hosts.match_res env hs host path ps f ha hh]
    rcases handler_get_res hh with ⟨ps', hm, _⟩ | ⟨n, ps', hm, hps, ⟨hd, hg, _⟩ | ⟨_, hok⟩⟩
    · rw [matched_root env _ _ _ hn] at hm; cases hm
    · rw [matched_root env _ _ _ hn] at hm
      cases hm
      rw [root_get_none hinv] at hg; cases hg
    · rw [matched_root env _ _ _ hn] at hm
      cases hm
      rw [hok, hps]; rfl

/-! ## The C01 theorems instantiated for the private tree -/

/-- An accepting `Hosts.Match`: the normalised host is the instantiation of a non-empty chain of the private
tree ending in a node with a `GET` entry, every captured value satisfies its constraint, and the parameters left
in the context are the incoming ones followed by exactly the captures of that chain. -/
theorem Hosts.match_accept_chain (env : Env) {hs : Hosts} (hinv : TreeInv hs.tree) (host path : Bytes) (ps : Params)
    (hN : NamesOkL ps.keys hs.tree.root.children) (hI : Node.All IdxLit hs.tree.root)
    (ha : isAscii host = true) (p : Bytes) (q : Params) (h : hs.match env host path ps = .accept p q) :
    p = path ∧ ∃ (n : Node) (chain : List (Seg × Bytes)),
      chain ≠ [] ∧ Chain hs.tree.root (chain.map (·.1)) n ∧ normHost host = instChain chain ∧
      (∀ sv ∈ chain, sv.1.Satisfies env hs.tree.ic sv.2) ∧ q = ps ++ captures chain ∧
      (n.handlers.get? mGET).isSome = true := by
  have hroot : ¬ (normHost host = [] ∨ normHost host = [42]) := by
    intro hn
    rw [Hosts.match_root env hinv host path ps ha hn] at h
    cases h
  obtain ⟨rfl, f, hf, hok, rfl⟩ := (Hosts.match_accept_iff env hs host path ps ha p q).1 h
  obtain ⟨n, ps', _, hget, hnode, _⟩ := (handler_get_ok_iff hf).1 hok
  obtain ⟨chain, h1, h2, h3, h4, h5, _, _⟩ :=
    Tree.handler_found ⟨hN, hI⟩ (fun e => hroot (.inl e)) (fun e => hroot (.inr e)) (Or.inr mGET_ne_mTRACE) hf hnode
  exact ⟨rfl, n, chain, h1, h2, h3, h4, h5, hget⟩

/-- A rejecting `Hosts.Match`: either nothing was matched (or the root was addressed) and the parameters are the
incoming ones, or a node WITHOUT a `GET` entry was matched — then its captures are left behind (`Group` resets
them, `And` restores them). -/
theorem Hosts.match_reject_chain (env : Env) {hs : Hosts} (host path : Bytes) (ps : Params)
    (hN : NamesOkL ps.keys hs.tree.root.children) (hI : Node.All IdxLit hs.tree.root)
    (ha : isAscii host = true) (p : Bytes) (q : Params) (h : hs.match env host path ps = .reject p q) :
    p = path ∧ (q = ps ∨ ∃ (n : Node) (chain : List (Seg × Bytes)),
      chain ≠ [] ∧ Chain hs.tree.root (chain.map (·.1)) n ∧ normHost host = instChain chain ∧
      q = ps ++ captures chain ∧ n.handlers ≠ [] ∧ n.handlers.get? mGET = none) := by
  obtain ⟨rfl, f, hf, hok, rfl⟩ := (Hosts.match_reject_iff env hs host path ps ha p q).1 h
  refine ⟨rfl, ?_⟩
  cases hnode : f.node with
  | none => exact .inl (Tree.handler_404 ⟨hN, hI⟩ hf hnode).1
  | some n =>
    by_cases hroot : normHost host = [] ∨ normHost host = [42]
    · exact .inl (Tree.handler_root hroot hf).1
    · obtain ⟨chain, h1, h2, h3, _, h5, h6, h7⟩ :=
        Tree.handler_found ⟨hN, hI⟩ (fun e => hroot (.inl e)) (fun e => hroot (.inr e)) (Or.inr mGET_ne_mTRACE) hf hnode
      refine .inr ⟨n, chain, h1, h2, h3, h5, h6, ?_⟩
      rcases (h7.2 hok).1 with e | e
      · exact absurd e mGET_ne_mNotAllowed
      · exact e

/-! ## Histories of `Add` / `Delete` / `RegisterInterceptor` -/

/-- One operation on a `Hosts` matcher. -/
inductive HOp where
  | add (domain : Bytes)
  | delete (domain : Bytes)
  | registerInterceptor (id : IcptId) (rule : Bytes)

/-- A panicking operation (syntax error, duplicate domain, duplicate rule) leaves the matcher as it was. -/
def hostsStep (hs : Hosts) : HOp → Hosts
  | .add d => match hs.add d with
    | .ok hs' => hs'
    | .error _ => hs
  | .delete d => match hs.delete d with
    | .ok hs' => hs'
    | .error _ => hs
  | .registerInterceptor id rule => match hs.registerInterceptor id rule with
    | some hs' => hs'
    | none => hs

def hostsRun (hs : Hosts) (ops : List HOp) : Hosts := ops.foldl hostsStep hs

/-- A matcher made by `NewHosts` (whose initial domains are `add`s) and any history. -/
def HostsReach (hs : Hosts) : Prop := ∃ ops, hs = hostsRun Hosts.empty ops

theorem Hosts.inv_step {hs : Hosts} (h : TreeInv hs.tree) (op : HOp) : TreeInv (hostsStep hs op).tree := by
  cases op with
  | add d =>
    simp only [hostsStep]
    split
    · rename_i hs' he; exact Hosts.inv_add h he
    · exact h
  | delete d =>
    simp only [hostsStep]
    split
    · rename_i hs' he; exact Hosts.inv_delete h he
    · exact h
  | registerInterceptor id rule =>
    simp only [hostsStep]
    split
    · rename_i hs' he; exact Hosts.inv_registerInterceptor h he
    · exact h

theorem Hosts.inv_run {hs : Hosts} (h : TreeInv hs.tree) (ops : List HOp) : TreeInv (hostsRun hs ops).tree := by
  unfold hostsRun
  induction ops generalizing hs with
  | nil => exact h
  | cons op ops ih => exact ih (Hosts.inv_step h op)

theorem HostsReach.inv {hs : Hosts} (h : HostsReach hs) : TreeInv hs.tree := by
  obtain ⟨ops, rfl⟩ := h
  exact Hosts.inv_run Hosts.inv_empty ops

theorem HostsReach.step {hs : Hosts} (h : HostsReach hs) (op : HOp) : HostsReach (hostsStep hs op) := by
  obtain ⟨ops, rfl⟩ := h
  exact ⟨ops ++ [op], by simp [hostsRun]⟩

/-! ## `Add`, `Delete`, `RegisterInterceptor` as tree operations -/

theorem Hosts.add_eq (hs : Hosts) (d : Bytes) :
    hs.add d = (hs.tree.add (toLower d) { base := .hostEmpty, wraps := [] } [] [mGET]).map (fun t => { hs with tree := t }) := by
  unfold Hosts.add
  simp only [bind, Except.bind, pure, Except.pure]
  cases hs.tree.add (toLower d) { base := .hostEmpty } [] [mGET] <;> rfl

theorem Hosts.delete_eq (hs : Hosts) (d : Bytes) :
    hs.delete d = (hs.tree.remove (toLower d) []).map (fun t => { hs with tree := t }) := by
  unfold Hosts.delete
  simp only [bind, Except.bind, pure, Except.pure]
  cases hs.tree.remove (toLower d) [] <;> rfl

theorem Hosts.add_congr (hs : Hosts) {d d' : Bytes} (h : toLower d = toLower d') : hs.add d = hs.add d' := by
  rw [Hosts.add_eq, Hosts.add_eq, h]

theorem Hosts.delete_congr (hs : Hosts) {d d' : Bytes} (h : toLower d = toLower d') : hs.delete d = hs.delete d' := by
  rw [Hosts.delete_eq, Hosts.delete_eq, h]

/-- Deleting a domain that is not registered changes nothing. -/
theorem Hosts.delete_absent (hs : Hosts) (d : Bytes) (h : hs.tree.root.findPath (toLower d) = none) :
    hs.delete d = .ok hs := by
  rw [Hosts.delete_eq]
  unfold Tree.remove
  rw [h]
  rfl

/-- `RegisterInterceptor` only appends to the interceptor table. -/
theorem Hosts.registerInterceptor_some {hs hs' : Hosts} {id : IcptId} {rule : Bytes}
    (h : hs.registerInterceptor id rule = some hs') :
    (hs.tree.ic.find rule).isSome = false ∧ hs'.tree = { hs.tree with ic := hs.tree.ic ++ [(rule, id)] } := by
  unfold Hosts.registerInterceptor at h
  split at h
  · cases h
  · rename_i hn
    simp only [Option.some.injEq] at h
    subst h
    exact ⟨by simpa using hn, rfl⟩

theorem Hosts.registerInterceptor_none {hs : Hosts} {id : IcptId} {rule : Bytes} :
    hs.registerInterceptor id rule = none ↔ (hs.tree.ic.find rule).isSome = true := by
  unfold Hosts.registerInterceptor
  split
  · rename_i h; simp [h]
  · rename_i h; simp [h]

theorem HostsReach.empty : HostsReach Hosts.empty := ⟨[], rfl⟩

/-! ## No matcher faults -/

mutual
/-- `P id` holds of every `Hosts` matcher id occurring in the expression. -/
def AllHosts (P : Nat → Prop) : Matcher → Prop
  | .hosts id => P id
  | .and ms => AllHostsL P ms
  | .or ms => AllHostsL P ms
  | _ => True
def AllHostsL (P : Nat → Prop) : List Matcher → Prop
  | [] => True
  | m :: ms => AllHosts P m ∧ AllHostsL P ms
end

mutual
theorem AllHosts.mono {P Q : Nat → Prop} (hPQ : ∀ id, P id → Q id) : ∀ (m : Matcher), AllHosts P m → AllHosts Q m
  | .any, _ => by simp [AllHosts]
  | .hosts id, h => by rw [AllHosts] at h ⊢; exact hPQ id h
  | .pathVersion _ _, _ => by simp [AllHosts]
  | .headerVersion _ _ _, _ => by simp [AllHosts]
  | .and ms, h => by rw [AllHosts] at h ⊢; exact AllHostsL.mono hPQ ms h
  | .or ms, h => by rw [AllHosts] at h ⊢; exact AllHostsL.mono hPQ ms h
theorem AllHostsL.mono {P Q : Nat → Prop} (hPQ : ∀ id, P id → Q id) : ∀ (ms : List Matcher), AllHostsL P ms → AllHostsL Q ms
  | [], _ => by simp [AllHostsL]
  | m :: ms, h => by
    rw [AllHostsL] at h ⊢
    exact ⟨AllHosts.mono hPQ m h.1, AllHostsL.mono hPQ ms h.2⟩
end

/-- The table entry exists and its private tree satisfies the invariant. -/
def HostsInvAt (tab : Nat → Option Hosts) (id : Nat) : Prop := ∃ hs, tab id = some hs ∧ TreeInv hs.tree

/-- The table entry exists and was made by `NewHosts` and a history. -/
def HostsReachAt (tab : Nat → Option Hosts) (id : Nat) : Prop := ∃ hs, tab id = some hs ∧ HostsReach hs

theorem HostsReachAt.inv {tab : Nat → Option Hosts} {id : Nat} (h : HostsReachAt tab id) : HostsInvAt tab id := by
  obtain ⟨hs, h1, h2⟩ := h
  exact ⟨hs, h1, h2.inv⟩

theorem Hosts.match_no_fault {hs : Hosts} (hinv : TreeInv hs.tree) (env : Env) (host path : Bytes) (ps : Params)
    (s : Nat) : hs.match env host path ps ≠ .fault s := by
  cases ha : isAscii host with
  | false => rw [Hosts.match_nonAscii env hs host path ps ha]; simp
  | true =>
    rw [Ne, Hosts.match_fault_iff env hs host path ps ha]
    exact handler_no_fault hinv env (normHost host) ps mGET s

section
variable (env : Env) (tab : Nat → Option Hosts)

mutual
theorem run_no_fault : ∀ (m : Matcher), AllHosts (HostsInvAt tab) m →
    ∀ (req : Req) (path : Bytes) (ps : Params) (s : Nat), m.run env tab req path ps ≠ .fault s
  | .any, _, _, _, _, _ => by rw [Matcher.run]; simp
  | .hosts id, h, req, path, ps, s => by
    rw [AllHosts] at h
    obtain ⟨hs, h1, h2⟩ := h
    rw [Matcher.run, h1]
    exact Hosts.match_no_fault h2 env req.host path ps s
  | .pathVersion param vers, _, req, path, ps, s => (run_pathVersion_total env tab param vers req path ps).1 s
  | .headerVersion param key vers, _, req, path, ps, s => by
    rw [run_headerVersion]
    cases headerVersionMatch param key vers req ps <;> simp
  | .and ms, h, req, path, ps, s => by
    rw [AllHosts] at h
    have := runAnd_no_fault ms h req path ps s
    rw [Matcher.run]
    split
    · simp
    · exact this
  | .or ms, h, req, path, ps, s => by
    rw [AllHosts] at h
    rw [Matcher.run]
    exact runOr_no_fault ms h req path ps s
theorem runAnd_no_fault : ∀ (ms : List Matcher), AllHostsL (HostsInvAt tab) ms →
    ∀ (req : Req) (path : Bytes) (ps : Params) (s : Nat), runAnd env tab ms req path ps ≠ .fault s
  | [], _, _, _, _, _ => by rw [runAnd]; simp
  | m :: ms, h, req, path, ps, s => by
    rw [AllHostsL] at h
    have h1 := run_no_fault m h.1 req path ps s
    rw [runAnd]
    split
    · exact runAnd_no_fault ms h.2 req _ _ s
    · exact h1
theorem runOr_no_fault : ∀ (ms : List Matcher), AllHostsL (HostsInvAt tab) ms →
    ∀ (req : Req) (path : Bytes) (ps : Params) (s : Nat), runOr env tab ms req path ps ≠ .fault s
  | [], _, _, _, _, _ => by rw [runOr]; simp
  | m :: ms, h, req, path, ps, s => by
    rw [AllHostsL] at h
    have h1 := run_no_fault m h.1 req path ps s
    rw [runOr]
    split
    · exact runOr_no_fault ms h.2 req _ _ s
    · exact h1
end

/-- The loop of `Group.ServeHTTP` never faults when every member's matcher is fault-free and every member
router is in the table and never faults. -/
theorem go_no_fault (rt : RTab) (g : Group) (req : Req) (l : List (Nat × Matcher))
    (hl : ∀ e ∈ l, AllHosts (HostsInvAt tab) e.2 ∧
      ∃ r, rt.get? e.1 = some r ∧ ∀ req' ps s rc, r.serveContext env req' ps ≠ .fault s rc)
    (path : Bytes) (s : Nat) (rc : Bool) : Group.serve.go env tab rt g req l path ≠ .fault s rc := by
  induction l generalizing path with
  | nil => rw [Group.serve.go.eq_1]; simp
  | cons e l ih =>
    obtain ⟨rid, m⟩ := e
    obtain ⟨hm, r, hr, hserve⟩ := hl (rid, m) (List.mem_cons_self ..)
    have ih' := ih (fun e he => hl e (List.mem_cons_of_mem _ he))
    rw [Group.serve.go.eq_2]
    cases hrun : m.run env tab req path [] with
    | fault s' => exact absurd hrun (run_no_fault env tab m hm req path [] s')
    | unsupported => simp
    | accept p ps => simp only [hr]; exact hserve _ _ _ _
    | reject p ps => exact ih' p

end

end Mux.P12
