/-
  Mux.Proofs.WOk — a pattern-aware tree invariant.

  `NodeW P n`: every node `m` of the subtree satisfies `P m.pattern m.handlers` and every child's
  `pattern` is its parent's pattern followed by the child's segment text (`PatternOk`).  Unlike
  `NodeOk Q` (TreeBasic) the predicate sees the node's pattern, which is what the middleware
  invariant needs (`Use` wraps with `n.pattern`, `addMethods` with the registered pattern).

  Main results: `getNode_W` (the restructuring of `getNode` keeps the invariant, and the node at
  the returned path has pattern `n.pattern ++ v ++ rest.flatten`), `modifyAt_W`, `removeAt_W`,
  `clean_W`.
-/
import Mux.Proofs.TreeServe
import Mux.Proofs.MatchSound
import Mux.Proofs.Syntax
namespace Mux.P10
open Mux

mutual
def NodeW (P : Bytes → AMap Handler → Prop) : Node → Prop
  | .mk _ p _ hs _ cs => P p hs ∧ ListW P p cs
def ListW (P : Bytes → AMap Handler → Prop) (pp : Bytes) : List Node → Prop
  | [] => True
  | c :: cs => c.pattern = pp ++ c.seg.value ∧ NodeW P c ∧ ListW P pp cs
end

variable {P : Bytes → AMap Handler → Prop}

theorem NodeW_iff (n : Node) : NodeW P n ↔ P n.pattern n.handlers ∧ ListW P n.pattern n.children := by
  cases n; simp [NodeW]

theorem ListW_iff (pp : Bytes) (cs : List Node) :
    ListW P pp cs ↔ ∀ c ∈ cs, c.pattern = pp ++ c.seg.value ∧ NodeW P c := by
  induction cs with
  | nil => simp [ListW]
  | cons c cs ih => simp [ListW, ih, and_assoc]

theorem ListW_nil (pp : Bytes) : ListW P pp [] := by simp [ListW]

theorem ListW_append {pp : Bytes} {as bs : List Node} :
    ListW P pp (as ++ bs) ↔ ListW P pp as ∧ ListW P pp bs := by
  simp only [ListW_iff, List.mem_append]
  constructor
  · intro h; exact ⟨fun c hc => h c (.inl hc), fun c hc => h c (.inr hc)⟩
  · rintro ⟨h1, h2⟩ c (hc | hc); exact h1 c hc; exact h2 c hc

theorem ListW_perm {pp : Bytes} {as bs : List Node} (hp : as.Perm bs) : ListW P pp as ↔ ListW P pp bs := by
  simp only [ListW_iff]
  constructor
  · intro h c hc; exact h c (hp.mem_iff.2 hc)
  · intro h c hc; exact h c (hp.mem_iff.1 hc)

theorem ListW_sublist {pp : Bytes} {as bs : List Node} (hs : as.Sublist bs) (h : ListW P pp bs) :
    ListW P pp as := by
  rw [ListW_iff] at *
  intro c hc; exact h c (hs.subset hc)

theorem ListW_set {pp : Bytes} {cs : List Node} {i : Nat} {c : Node} (h : ListW P pp cs)
    (hp : c.pattern = pp ++ c.seg.value) (hc : NodeW P c) : ListW P pp (cs.set i c) := by
  rw [ListW_iff] at *
  intro x hx
  rcases List.mem_or_eq_of_mem_set hx with hx | hx
  · exact h x hx
  · subst hx; exact ⟨hp, hc⟩

theorem ListW_getElem? {pp : Bytes} {cs : List Node} {i : Nat} {c : Node} (h : ListW P pp cs)
    (hc : cs[i]? = some c) : c.pattern = pp ++ c.seg.value ∧ NodeW P c := by
  rw [ListW_iff] at h
  exact h c (List.mem_of_getElem? hc)

theorem ListW_sortChildren {pp : Bytes} {cs : List Node} : ListW P pp (sortChildren cs) ↔ ListW P pp cs :=
  ListW_perm (sortChildren_perm cs)

theorem ListW_removeNodes {pp : Bytes} {cs : List Node} (v : Bytes) (h : ListW P pp cs) :
    ListW P pp (removeNodes cs v) := ListW_sublist (removeNodes_sublist cs v) h

theorem ListW_foldl_removeNodes {pp : Bytes} (vs : List Bytes) {cs : List Node} (h : ListW P pp cs) :
    ListW P pp (vs.foldl removeNodes cs) := by
  induction vs generalizing cs with
  | nil => exact h
  | cons v vs ih => exact ih (ListW_removeNodes v h)

/-- Weakening of the handler predicate. -/
theorem NodeW_mono {P R : Bytes → AMap Handler → Prop} (hPR : ∀ p hs, P p hs → R p hs) :
    ∀ n : Node, NodeW P n → NodeW R n := by
  intro n
  induction n using Node.rec (motive_2 := fun cs => ∀ pp, ListW P pp cs → ListW R pp cs) with
  | mk s p mi hs idx cs ih => intro h; exact ⟨hPR _ _ h.1, ih _ h.2⟩
  | nil => trivial
  | cons c cs ih1 ih2 => rename_i pp h; exact ⟨h.1, ih1 h.2.1, ih2 pp h.2.2⟩

theorem ListW_mono {P R : Bytes → AMap Handler → Prop} (hPR : ∀ p hs, P p hs → R p hs) {pp : Bytes}
    {cs : List Node} (h : ListW P pp cs) : ListW R pp cs := by
  rw [ListW_iff] at *
  intro c hc; exact ⟨(h c hc).1, NodeW_mono hPR c (h c hc).2⟩

/-! ## Links with the existing vocabulary -/

theorem NodeW_patternOk : ∀ n : Node, NodeW P n → Node.PatternOk n := by
  intro n
  induction n using Node.rec (motive_2 := fun cs => ∀ pp, ListW P pp cs → PatternOkL pp cs) with
  | mk s p mi hs idx cs ih => intro h; exact ih _ h.2
  | nil => trivial
  | cons c cs ih1 ih2 => rename_i pp h; exact ⟨h.1, ih1 h.2.1, ih2 pp h.2.2⟩

theorem NodeW_all : ∀ n : Node, NodeW P n → Node.All (fun m => P m.pattern m.handlers) n := by
  intro n
  induction n using Node.rec (motive_2 := fun cs => ∀ pp, ListW P pp cs →
      AllL (fun m => P m.pattern m.handlers) cs) with
  | mk s p mi hs idx cs ih => intro h; exact ⟨h.1, ih _ h.2⟩
  | nil => trivial
  | cons c cs ih1 ih2 => rename_i pp h; exact ⟨ih1 h.2.1, ih2 pp h.2.2⟩

theorem ListW_all {pp : Bytes} {cs : List Node} (h : ListW P pp cs) :
    AllL (fun m => P m.pattern m.handlers) cs := by
  rw [AllL_iff]
  rw [ListW_iff] at h
  intro c hc; exact NodeW_all c (h c hc).2

/-- Conversely: `PatternOk` and `Node.All` give `NodeW`. -/
theorem NodeW_of : ∀ n : Node, Node.PatternOk n → Node.All (fun m => P m.pattern m.handlers) n → NodeW P n := by
  intro n
  induction n using Node.rec (motive_2 := fun cs => ∀ pp, PatternOkL pp cs →
      AllL (fun m => P m.pattern m.handlers) cs → ListW P pp cs) with
  | mk s p mi hs idx cs ih => intro h1 h2; exact ⟨h2.1, ih _ h1 h2.2⟩
  | nil => trivial
  | cons c cs ih1 ih2 => rename_i pp h1 h2; exact ⟨h1.1, ih1 h1.2.1 h2.1, ih2 pp h1.2.2 h2.2⟩

/-- Every node of the subtree (as enumerated by `Node.nodes`) satisfies the predicate. -/
theorem NodeW_nodes {n m : Node} (h : NodeW P n) (hm : m ∈ n.nodes) : P m.pattern m.handlers :=
  ((All_iff_nodes _).1 n).1 (NodeW_all n h) m hm

/-- The node at an index path of a tree satisfying the invariant satisfies it. -/
theorem NodeW_getAt : ∀ {path : List Nat} {n m : Node}, NodeW P n → n.getAt path = some m → NodeW P m := by
  intro path
  induction path with
  | nil => intro n m h hm; simp at hm; exact hm ▸ h
  | cons i path ih =>
    intro n m h hm
    rw [Node.getAt_cons] at hm
    cases hc : n.children[i]? with
    | none => simp [hc] at hm
    | some c =>
      simp only [hc, Option.bind_some] at hm
      exact ih (ListW_getElem? ((NodeW_iff n).1 h).2 hc).2 hm

/-! ## Where a node comes from -/

theorem mem_nodesL {x : Node} {cs : List Node} : x ∈ nodesL cs ↔ ∃ c ∈ cs, x ∈ c.nodes := by
  induction cs with
  | nil => simp [nodesL]
  | cons c cs ih => simp [nodesL, ih]

theorem mem_nodesL_of_mem {c : Node} {cs : List Node} (h : c ∈ cs) : c ∈ nodesL cs :=
  mem_nodesL.2 ⟨c, h, by rw [Node.nodes_eq]; simp⟩

theorem nodesL_sub {c x : Node} {cs : List Node} (h : c ∈ cs) (hx : x ∈ nodesL c.children) : x ∈ nodesL cs :=
  mem_nodesL.2 ⟨c, h, by rw [Node.nodes_eq]; simp [hx]⟩

/-- `x` carries the same pattern, handlers and method index as `y`. -/
def Same (x y : Node) : Prop := x.pattern = y.pattern ∧ x.handlers = y.handlers ∧ x.methodIndex = y.methodIndex

theorem Same.refl (x : Node) : Same x x := ⟨rfl, rfl, rfl⟩
theorem Same.trans {x y z : Node} (h1 : Same x y) (h2 : Same y z) : Same x z :=
  ⟨h1.1.trans h2.1, h1.2.1.trans h2.2.1, h1.2.2.trans h2.2.2⟩

/-- `x` is a fresh node (no handlers) or a copy of a node below `n`. -/
def From (n x : Node) : Prop := x.handlers = [] ∨ ∃ y ∈ nodesL n.children, Same x y

/-! ## scanChildren / similarity -/

theorem longestPrefix_ne_neg_one (a b : Bytes) : longestPrefix a b ≠ -1 := by
  rcases longestPrefix_spec a b with h | ⟨k, h, _⟩ <;> rw [h] <;> omega

theorem similarity_neg_one {c seg : Seg} (h : c.similarity seg = -1) : c.value = seg.value := by
  unfold Seg.similarity at h
  split at h
  · rename_i e; exact e.symm
  · split at h
    · omega
    · exact absurd h (longestPrefix_ne_neg_one _ _)

theorem similarity_pos {c seg : Seg} {l : Int} (h : c.similarity seg = l) (hl : 0 < l) :
    l.toNat ≤ c.value.length ∧ l.toNat ≤ seg.value.length ∧ c.value.take l.toNat = seg.value.take l.toNat := by
  unfold Seg.similarity at h
  split at h
  · omega
  · split at h
    · omega
    · rcases longestPrefix_spec seg.value c.value with h' | ⟨k, h', h1, h2, h3⟩
      · omega
      · rw [h'] at h
        subst h
        simp only [Int.toNat_natCast]
        exact ⟨h2, h1, h3.symm⟩

theorem getElem?_shift {cs : List Node} {c d : Node} {k i : Nat} (hle : i + 1 ≤ k)
    (hd : cs[k - (i + 1)]? = some d) : (c :: cs)[k - i]? = some d := by
  have : k - i = (k - (i + 1)) + 1 := by omega
  rw [this]; simpa using hd

theorem scan_spec (seg : Seg) : ∀ (cs : List Node) (i : Nat) (l : Int) (bi : Nat),
    (∀ k, scanChildren seg cs i l bi = .identical k →
      ∃ c, cs[k - i]? = some c ∧ i ≤ k ∧ c.seg.similarity seg = -1) ∧
    (∀ l' k, scanChildren seg cs i l bi = .best l' k →
      (l' = l ∧ k = bi) ∨ (∃ c, cs[k - i]? = some c ∧ i ≤ k ∧ c.seg.similarity seg = l' ∧ l < l')) := by
  intro cs
  induction cs with
  | nil =>
    intro i l bi
    refine ⟨fun k h => by simp [scanChildren] at h, fun l' k h => ?_⟩
    simp only [scanChildren, Best.best.injEq] at h
    exact .inl ⟨h.1.symm, h.2.symm⟩
  | cons c cs ih =>
    intro i l bi
    simp only [scanChildren]
    by_cases h1 : c.seg.similarity seg = -1
    · simp only [h1, if_true]
      refine ⟨fun k h => ?_, fun l' k h => by simp at h⟩
      simp only [Best.identical.injEq] at h
      subst h
      exact ⟨c, by simp, Nat.le_refl _, h1⟩
    · simp only [h1, if_false]
      by_cases h2 : c.seg.similarity seg > l
      · simp only [h2, if_true]
        obtain ⟨ihA, ihB⟩ := ih (i + 1) (c.seg.similarity seg) i
        refine ⟨fun k h => ?_, fun l' k h => ?_⟩
        · obtain ⟨d, hd, hle, hs⟩ := ihA k h
          exact ⟨d, getElem?_shift hle hd, by omega, hs⟩
        · rcases ihB l' k h with ⟨rfl, rfl⟩ | ⟨d, hd, hle, hs, hlt⟩
          · right
            exact ⟨c, by simp, Nat.le_refl _, rfl, h2⟩
          · right
            exact ⟨d, getElem?_shift hle hd, by omega, hs, by omega⟩
      · simp only [h2, if_false]
        obtain ⟨ihA, ihB⟩ := ih (i + 1) l bi
        refine ⟨fun k h => ?_, fun l' k h => ?_⟩
        · obtain ⟨d, hd, hle, hs⟩ := ihA k h
          exact ⟨d, getElem?_shift hle hd, by omega, hs⟩
        · rcases ihB l' k h with ⟨rfl, rfl⟩ | ⟨d, hd, hle, hs, hlt⟩
          · left; exact ⟨rfl, rfl⟩
          · right
            exact ⟨d, getElem?_shift hle hd, by omega, hs, hlt⟩

theorem scan_identical {seg : Seg} {cs : List Node} {k : Nat} {c : Node}
    (h : scanChildren seg cs 0 0 0 = .identical k) (hc : cs[k]? = some c) : c.seg.value = seg.value := by
  obtain ⟨d, hd, _, hs⟩ := (scan_spec seg cs 0 0 0).1 k h
  simp only [Nat.sub_zero] at hd
  rw [hc] at hd
  cases hd
  exact similarity_neg_one hs

theorem scan_best {seg : Seg} {cs : List Node} {k : Nat} {l : Int} {c : Node}
    (h : scanChildren seg cs 0 0 0 = .best l k) (hl : 0 < l) (hc : cs[k]? = some c) :
    c.seg.similarity seg = l := by
  rcases (scan_spec seg cs 0 0 0).2 l k h with ⟨rfl, _⟩ | ⟨d, hd, _, hs, _⟩
  · omega
  · simp only [Nat.sub_zero] at hd
    rw [hc] at hd
    cases hd
    exact hs

theorem childPos_spec {cs : List Node} {v : Bytes} {j : Nat} (h : childPos cs v = some j) :
    ∃ c, cs[j]? = some c ∧ c.seg.value = v := by
  unfold childPos at h
  rw [List.findIdx?_eq_some_iff_getElem] at h
  obtain ⟨hlt, hp, _⟩ := h
  exact ⟨cs[j], by simp [hlt], by simpa using hp⟩

theorem splitAt_values {ic : Interceptors} {seg s1 s2 : Seg} {l : Nat} (h : seg.splitAt ic l = .ok (s1, s2)) :
    s1.value = seg.value.take l ∧ s2.value = seg.value.drop l := by
  unfold Seg.splitAt at h
  simp only [bind, Except.bind, pure, Except.pure] at h
  split at h
  · simp at h
  rename_i v1 hv1
  split at h
  · simp at h
  rename_i t1 ht1
  split at h
  · simp at h
  rename_i v2 hv2
  split at h
  · simp at h
  rename_i t2 ht2
  simp only [Except.ok.injEq, Prod.mk.injEq] at h
  obtain ⟨rfl, rfl⟩ := h
  unfold sliceE at hv1 hv2
  split at hv1
  · split at hv2
    · simp only [Except.ok.injEq] at hv1 hv2
      subst hv1; subst hv2
      rw [newSegment_value _ _ _ ht1, newSegment_value _ _ _ ht2]
      simp
    · simp at hv2
  · simp at hv1

end Mux.P10
