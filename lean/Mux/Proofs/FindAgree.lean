/-
  Mux.Proofs.FindAgree — on a well-formed tree, the node `getNode` arrives at is either new (no
  handlers) or the node `findPath` finds for the same pattern text in the tree before the call.
  Hence the duplicate check of `checkMethods` (which looks the pattern up with `findPath`) covers
  the duplicate check that `addMethods` repeats on the node `getNode` returns.
-/
import Mux.Proofs.WfTree
import Mux.Proofs.TreeOps
namespace Mux.P9
open Mux

/-! ## Two siblings whose texts are comparable -/

theorem lastByte_append_singleton (x : Bytes) (b : UInt8) : lastByte (x ++ [b]) = b := by
  simp [lastByte]

/-- If the text of one sibling is a proper prefix of the text of another, the shorter one is a bare
parameter token (`{…}` with nothing after it). -/
theorem cmp_prefix {ic : Interceptors} {a b : Seg} (ha : SegOk ic a) (hb : SegOk ic b) (hd : SibDisj a b)
    (hp : a.value <+: b.value) : lastByte a.value = endByte := by
  obtain ⟨x, hx⟩ := hp
  have hxne : x ≠ [] := by
    intro e; subst e
    exact hd.1 (by simpa using hx)
  rcases ha.wf with han | hat
  · rcases hb.wf with hbn | hbt
    · exfalso
      have hk : a.kind = b.kind := (ha.kind_str_iff.2 han).trans (hb.kind_str_iff.2 hbn).symm
      have h0 := hd.2 hk
      have : 0 < longestPrefix a.value b.value := by
        apply (lp_str_pos_iff han hbn).2
        cases hv : a.value with
        | nil => exact absurd hv ha.ne
        | cons c a' => exact ⟨c, a', a' ++ x, rfl, by rw [← hx, hv]; rfl⟩
      omega
    · exfalso
      obtain ⟨bb, sb, hbv, _, _⟩ := hbt
      cases hv : a.value with
      | nil => exact absurd hv ha.ne
      | cons c a' =>
        rw [hv, hbv] at hx
        simp only [tok, List.cons_append, List.cons.injEq] at hx
        exact han.1 (by rw [hv, hx.1]; simp)
  · obtain ⟨ba, sa, hav, hba, hsa⟩ := hat
    rcases hb.wf with hbn | hbt
    · exfalso
      apply hbn.1
      rw [← hx, hav]
      simp [tok]
    · obtain ⟨bb, sb, hbv, hbb, hsb⟩ := hbt
      have e : tok ba (sa ++ x) = tok bb sb := by
        rw [← hbv, ← hx, hav]; simp [tok]
      obtain ⟨rfl, hs⟩ := tok_inj hba.2 hbb.2 e
      cases sa with
      | nil =>
        rw [hav]
        have : tok ba [] = (startByte :: ba) ++ [endByte] := by simp [tok]
        rw [this, lastByte_append_singleton]
      | cons c sa' =>
        exfalso
        -- same kind, by re-parsing the prefix
        have hseg := hb.seg
        rw [hbv] at hseg
        have hlen : (tok ba (c :: sa')).length ≤ (tok ba sb).length := by
          rw [tok_length, tok_length, ← hs]; simp
        have htake : (tok ba sb).take (tok ba (c :: sa')).length = tok ba (c :: sa') := by
          have : tok ba sb = tok ba (c :: sa') ++ x := by rw [← hs]; simp [tok]
          rw [this, List.take_left']
          rfl
        have h1 := newSegment_take ic hseg (tok_start ba sb) (tok_end sb hba.2)
          (l := (tok ba (c :: sa')).length) (by rw [tok_length]; simp) hlen (tok_no_end_after hsb.2)
        rw [htake] at h1
        have h2 := ha.seg
        rw [hav, h1] at h2
        have hk : a.kind = b.kind := by
          have := congrArg (fun r => match r with | Except.ok s => s.kind | _ => Kind.str) h2
          simpa using this.symm
        have h0 := hd.2 hk
        have : 0 < longestPrefix a.value b.value := by
          rw [hav, hbv, ← hs]
          exact (lp_tok_pos_iff hba hba hsa (by rw [hs]; exact hsb)).2 ⟨rfl, c, sa', sa' ++ x, rfl, rfl⟩
        omega

/-! ## `findIn` skips dead siblings -/

/-- A sibling that cannot lead `findPath` to `P`: its text is not `P`, and if it is a prefix of `P`
the node has no children. -/
def DeadFor (P : Bytes) (d : Node) : Prop :=
  d.seg.value ≠ P ∧ (d.seg.value <+: P → d.children = [])

theorem hasPrefix_iff (s p : Bytes) : hasPrefix s p = true ↔ p <+: s := by
  unfold hasPrefix; exact List.isPrefixOf_iff_prefix

theorem Node.findPath_eq (n : Node) (pat : Bytes) : n.findPath pat = findIn n.children 0 pat := by
  cases n; rfl

theorem findIn_skip (pre post : List Node) (k : Nat) (P : Bytes) (h : ∀ d ∈ pre, DeadFor P d) :
    findIn (pre ++ post) k P = findIn post (k + pre.length) P := by
  induction pre generalizing k with
  | nil => simp
  | cons d pre ih =>
    obtain ⟨h1, h2⟩ := h d (by simp)
    simp only [List.cons_append, findIn, h1, if_false, List.length_cons]
    have ih' := ih (k + 1) (fun x hx => h x (by simp [hx]))
    have e : k + 1 + pre.length = k + (pre.length + 1) := by omega
    split
    · rename_i hp
      have := h2 ((hasPrefix_iff _ _).1 hp)
      rw [Node.findPath_eq, this]
      simp only [findIn]
      rw [ih', e]
    · rw [ih', e]

/-- Among well-formed siblings, if `c`'s text is a prefix of `P` (and `c` is not a bare token unless
its text is all of `P`), every other sibling is dead for `P`. -/
theorem dead_of_sibling {ic : Interceptors} {used : List Bytes} {cs : List Node} (hwf : WfL ic used cs)
    {c d : Node} (hc : c ∈ cs) (hd : d ∈ cs) (hne : d.seg.value ≠ c.seg.value) {P : Bytes}
    (hcp : c.seg.value <+: P) (hce : c.seg.value = P ∨ lastByte c.seg.value ≠ endByte) : DeadFor P d := by
  have hdw := WfL_mem hwf hd
  have hcok := (WfL_mem hwf hc).segOk
  have hdok := hdw.segOk
  have hpw := ((WfL_iff ic used cs).1 hwf).2
  have hdis : SibDisj d.seg c.seg :=
    pairwise_mem_ne (R := fun a b : Node => SibDisj a.seg b.seg) (fun a b h => h.symm) hpw hd hc
      (fun e => hne (by rw [e]))
  have key : d.seg.value <+: P → lastByte d.seg.value = endByte ∧ d.seg.value.length < c.seg.value.length := by
    intro hdp
    rcases Nat.le_total d.seg.value.length c.seg.value.length with hle | hle
    · have hpre : d.seg.value <+: c.seg.value := List.prefix_of_prefix_length_le hdp hcp hle
      refine ⟨cmp_prefix hdok hcok hdis hpre, ?_⟩
      rcases Nat.lt_or_eq_of_le hle with h | h
      · exact h
      · exact absurd (List.IsPrefix.eq_of_length hpre h) hne
    · exfalso
      have hpre : c.seg.value <+: d.seg.value := List.prefix_of_prefix_length_le hcp hdp hle
      have hlast := cmp_prefix hcok hdok hdis.symm hpre
      rcases hce with h | h
      · have : d.seg.value.length ≤ c.seg.value.length := by rw [h]; exact hdp.length_le
        exact hne (List.IsPrefix.eq_of_length hpre (by omega)).symm
      · exact h hlast
  refine ⟨?_, ?_⟩
  · intro e
    have := key (e ▸ List.prefix_refl _)
    have hl := hcp.length_le
    rw [← e] at hl
    omega
  · intro hdp
    exact ((Node.wf_iff ic used d).1 hdw).2.2.1 (key hdp).1

/-- `findIn` on a well-formed sibling list goes straight to the sibling `c` at position `i` whose
text is a prefix of `P`. -/
theorem findIn_at {ic : Interceptors} {used : List Bytes} {cs : List Node} (hwf : WfL ic used cs)
    {i : Nat} {c : Node} (hc : cs[i]? = some c) {P : Bytes}
    (hcp : c.seg.value <+: P) (hce : c.seg.value = P ∨ lastByte c.seg.value ≠ endByte) :
    findIn cs 0 P = findIn (c :: cs.drop (i + 1)) i P := by
  have hi : i < cs.length := (List.getElem?_eq_some_iff.1 hc).1
  have hci : cs[i] = c := (List.getElem?_eq_some_iff.1 hc).2
  have hsplit : cs = cs.take i ++ c :: cs.drop (i + 1) := by
    rw [← hci, ← List.drop_eq_getElem_cons hi, List.take_append_drop]
  have hvals := WfL_values hwf
  rw [hsplit, List.pairwise_append] at hvals
  have hdead : ∀ d ∈ cs.take i, DeadFor P d := by
    intro d hd
    exact dead_of_sibling hwf (List.mem_of_getElem? hc) (List.mem_of_mem_take hd)
      (hvals.2.2 d hd c (by simp)) hcp hce
  have := findIn_skip (cs.take i) (c :: cs.drop (i + 1)) 0 P hdead
  rw [← hsplit] at this
  rw [this]
  simp [List.length_take, Nat.min_eq_left (Nat.le_of_lt hi)]


theorem findIn_here {c : Node} (cs : List Node) (i : Nat) {P : Bytes} (h : c.seg.value = P) :
    findIn (c :: cs) i P = some [i] := by
  simp [findIn, h]

theorem findIn_below {c : Node} (cs : List Node) (i : Nat) {P : Bytes} {p : List Nat} (h1 : c.seg.value ≠ P)
    (h2 : c.seg.value <+: P) (h3 : c.findPath (P.drop c.seg.value.length) = some p) :
    findIn (c :: cs) i P = some (i :: p) := by
  simp only [findIn, h1, if_false, (hasPrefix_iff _ _).2 h2, if_true, h3]

/-! ## The target of `getNode` against `findPath` -/

/-- The node `tg` that `getNode` arrives at below `n` for the pattern text `P`: it has no handlers,
or it carries the handlers of the node `findPath` finds for `P` below `n`. -/
def Agree (n : Node) (P : Bytes) (tg : Node) : Prop :=
  tg.handlers = [] ∨ ∃ p m0, n.findPath P = some p ∧ n.getAt p = some m0 ∧ m0.handlers = tg.handlers

theorem agree_here {ic : Interceptors} {used : List Bytes} {n c : Node} {i : Nat} (hwf : WfL ic used n.children)
    (hc : n.children[i]? = some c) : Agree n c.seg.value c := by
  right
  refine ⟨[i], c, ?_, by simp [Node.getAt_cons, hc], rfl⟩
  rw [Node.findPath_eq, findIn_at hwf hc (List.prefix_refl _) (.inl rfl), findIn_here _ _ rfl]

/-- Descending into an existing child whose whole text is consumed. -/
theorem agree_lift {ic : Interceptors} {used : List Bytes} {n c : Node} {i : Nat} (hwf : WfL ic used n.children)
    (hc : n.children[i]? = some c) {P' : Bytes} (hP' : P' ≠ []) (hlast : lastByte c.seg.value ≠ endByte)
    {tg : Node} (h : Agree c P' tg) : Agree n (c.seg.value ++ P') tg := by
  rcases h with h | ⟨p, m0, h1, h2, h3⟩
  · exact .inl h
  · right
    have hne : c.seg.value ≠ c.seg.value ++ P' := by
      intro e
      have := congrArg List.length e
      simp at this
      exact hP' this
    refine ⟨i :: p, m0, ?_, by simp [Node.getAt_cons, hc, h2], h3⟩
    rw [Node.findPath_eq, findIn_at hwf hc (List.prefix_append _ _) (.inr hlast)]
    exact findIn_below _ _ hne (List.prefix_append _ _) (by simpa using h1)

theorem lowerOf_findPath (c : Node) (L : Nat) (X : Bytes) : (lowerOf c L).findPath X = c.findPath X := by
  rw [Node.findPath_eq, Node.findPath_eq]; simp [lowerOf]

theorem lowerOf_getAt (c : Node) (L : Nat) {p : List Nat} (hp : p ≠ []) : (lowerOf c L).getAt p = c.getAt p := by
  cases p with
  | nil => exact absurd rfl hp
  | cons i p => rw [Node.getAt_cons, Node.getAt_cons]; simp [lowerOf]

/-- Descending into the freshly split-off upper half: whatever `findPath` finds below it, it finds
below the unsplit child in the old tree. -/
theorem agree_split {ic : Interceptors} {used : List Bytes} {n c : Node} {i L : Nat} {s1 : Seg}
    {idx1 : List (UInt8 × Nat)} (hwf : WfL ic used n.children) (hc : n.children[i]? = some c)
    (hL : L < c.seg.value.length) (hnb : NoBrace (c.seg.value.drop L)) {P' : Bytes} {tg : Node}
    (h : Agree (upperOf n c L s1 idx1) P' tg) : Agree n (c.seg.value.take L ++ P') tg := by
  rcases h with h | ⟨p, m0, h1, h2, h3⟩
  · exact .inl h
  · right
    have hdne : c.seg.value.drop L ≠ [] := by
      intro e
      have := congrArg List.length e
      simp at this
      omega
    have hlast : lastByte c.seg.value ≠ endByte := by
      rw [← lastByte_drop hL]; exact hnb.last_ne hdne
    have hcv : c.seg.value = c.seg.value.take L ++ c.seg.value.drop L := (List.take_append_drop L _).symm
    rw [Node.findPath_eq] at h1
    simp only [upperOf, Node.children_mk, findIn] at h1
    have hlv : (lowerOf c L).seg.value = c.seg.value.drop L := by simp [lowerOf]
    rw [hlv] at h1
    by_cases he : c.seg.value.drop L = P'
    · -- the lower half is the target
      simp only [he, if_true, Option.some.injEq] at h1
      subst h1
      have hm0 : m0 = lowerOf c L := by
        simp [Node.getAt_cons, upperOf] at h2
        exact h2.symm
      have hP : c.seg.value.take L ++ P' = c.seg.value := by rw [← he]; exact hcv.symm
      rw [hP]
      refine ⟨[i], c, ?_, by simp [Node.getAt_cons, hc], ?_⟩
      · rw [Node.findPath_eq, findIn_at hwf hc (List.prefix_refl _) (.inl rfl), findIn_here _ _ rfl]
      · rw [← h3, hm0]; simp [lowerOf]
    · simp only [he, if_false] at h1
      split at h1
      · rename_i hpre
        have hpre' : c.seg.value.drop L <+: P' := (hasPrefix_iff _ _).1 hpre
        rw [lowerOf_findPath] at h1
        cases hf : c.findPath (P'.drop (c.seg.value.drop L).length) with
        | none => rw [hf] at h1; simp at h1
        | some p'' =>
          rw [hf] at h1
          simp only [Option.some.injEq] at h1
          subst h1
          have hp'' : p'' ≠ [] := findPath_ne_nil _ _ _ hf
          have hm0 : c.getAt p'' = some m0 := by
            rw [← lowerOf_getAt c L hp'']
            simpa [Node.getAt_cons, upperOf] using h2
          have hcp : c.seg.value <+: c.seg.value.take L ++ P' := by
            obtain ⟨y, hy⟩ := hpre'
            exact ⟨y, by rw [← hy, ← List.append_assoc, ← hcv]⟩
          have hcne : c.seg.value ≠ c.seg.value.take L ++ P' := by
            intro e
            apply he
            have : c.seg.value.take L ++ c.seg.value.drop L = c.seg.value.take L ++ P' := by rw [← hcv]; exact e
            exact List.append_cancel_left this
          have hdrop : (c.seg.value.take L ++ P').drop c.seg.value.length = P'.drop (c.seg.value.drop L).length := by
            have hlen : c.seg.value.length = (c.seg.value.take L).length + (c.seg.value.drop L).length := by
              rw [← List.length_append, ← hcv]
            rw [hlen, ← List.drop_drop, List.drop_left]
          refine ⟨i :: p'', m0, ?_, by simp [Node.getAt_cons, hc, hm0], h3⟩
          rw [Node.findPath_eq, findIn_at hwf hc hcp (.inr hlast)]
          exact findIn_below _ _ hcne hcp (by rw [hdrop]; exact hf)
      · simp at h1


theorem restCont_none {rest : List Bytes} (h : restCont rest = none) : rest = [] := by
  cases rest with
  | nil => rfl
  | cons a b => cases h

theorem lp_take_eq {a b : Bytes} {L : Nat} (h : longestPrefix a b = (L : Int)) (h0 : 0 < L) :
    a.take L = b.take L := by
  have := longestPrefix_pos_prefix a b (by rw [h]; omega)
  rw [h] at this
  simpa using this

/-- The step ends the search: its `parent` is the target. -/
theorem GShape.agree_none {ic : Interceptors} {used : List Bytes} {n : Node} {v : Bytes} {rest : List Bytes}
    {seg : Seg} {s : GStep} (hs : GShape ic n v rest seg s) (hwf : WfL ic used n.children)
    (hsv : seg.value = v) (hcont : s.cont = none) : Agree n (v ++ rest.flatten) s.parent := by
  cases hs with
  | ident i c hc hcs =>
    have := restCont_none hcont
    subst this
    have := agree_here hwf hc
    rw [hcs, hsv] at this
    simpa using this
  | leaf idx j hdis hpos => exact .inl rfl
  | desc i c L hc hvne hkind hL hL0 hLeq hLv => cases hcont
  | split i c L s1 idx1 idx j hc hvne hkind hL hL0 hLc hLv hs1 hpos => exact .inl rfl

/-- The step continues below `parent`: agreement below `parent` gives agreement below `n`. -/
theorem GShape.agree_some {ic : Interceptors} {used : List Bytes} {n : Node} {v : Bytes} {rest : List Bytes}
    {seg : Seg} {s : GStep} (hs : GShape ic n v rest seg s) (hwf : WfL ic used n.children)
    (hok : SegOk ic seg) (hsv : seg.value = v) {v' : Bytes} {rest' : List Bytes}
    (hcont : s.cont = some (v', rest')) (hv' : v' ≠ []) (hlast : lastByte s.parent.seg.value ≠ endByte)
    {tg : Node} (h : Agree s.parent (v' ++ rest'.flatten) tg) : Agree n (v ++ rest.flatten) tg := by
  have hP' : v' ++ rest'.flatten ≠ [] := by
    intro e
    exact hv' (List.append_eq_nil_iff.1 e).1
  cases hs with
  | ident i c hc hcs =>
    have := restCont_some hcont
    subst this
    have := agree_lift hwf hc hP' hlast h
    rw [hcs, hsv] at this
    simpa using this
  | leaf idx j hdis hpos =>
    rcases h with h | ⟨p, m0, h1, _, _⟩
    · exact .inl h
    · simp [Node.findPath_eq, newLeaf, findIn] at h1
  | desc i c L hc hvne hkind hL hL0 hLeq hLv =>
    simp only [Option.some.injEq, Prod.mk.injEq] at hcont
    obtain ⟨rfl, rfl⟩ := hcont
    have htk := lp_take_eq hL hL0
    rw [List.take_of_length_le (by omega)] at htk
    have := agree_lift hwf hc hP' hlast h
    rw [htk, ← List.append_assoc, List.take_append_drop] at this
    exact this
  | split i c L s1 idx1 idx j hc hvne hkind hL hL0 hLc hLv hs1 hpos =>
    have hcok := (WfL_of_getElem? hwf hc).segOk
    have hcut : CutAt c.seg.value L := cutAt_of_lp hcok hok hkind (by rw [hsv]; exact hL) hL0
    have htk := lp_take_eq hL hL0
    have := agree_split hwf hc hLc hcut.drop_noBrace h
    rw [htk] at this
    by_cases hvl : v.length ≤ L
    · simp only [hvl, if_true] at hcont
      have hr := restCont_some hcont
      subst hr
      rw [List.take_of_length_le hvl] at this
      simpa using this
    · simp only [hvl, if_false, Option.some.injEq, Prod.mk.injEq] at hcont
      obtain ⟨rfl, rfl⟩ := hcont
      rw [← List.append_assoc, List.take_append_drop] at this
      exact this

/-- **The target of `getNode` agrees with `findPath`.** Under the hypotheses of `getNode_wf`: the
returned index path is valid in the restructured tree, and the node it points to either has no
handlers or carries the handlers of the node that `findPath` finds for the whole pattern text in
the tree before the call. -/
theorem getNode_agree (ic : Interceptors) (n : Node) (v : Bytes) (rest : List Bytes) :
    ∀ used, WfL ic used n.children → PiecesOk ic used v rest → ∀ r, getNode ic n v rest = .ok r →
      ∃ tg, r.1.getAt r.2 = some tg ∧ Agree n (v ++ rest.flatten) tg := by
  induction n, v, rest using getNode_induction ic with
  | step n v rest ih =>
    intro used hwf hp r hr
    obtain ⟨flag, segs, hsplit⟩ := hp.split
    obtain ⟨hvne, _, seg, segs', hseg, hfresh, _, _⟩ := splitLoop_cons_inv hsplit
    have hok : SegOk ic seg := SegOk.of_newSegment hseg (hp.wf v (by simp)) hvne
    have hsv : seg.value = v := newSegment_value ic v seg hseg
    obtain ⟨s, hprep, hshape⟩ := gnPrep_shape rest hwf hseg hvne (hp.wf v (by simp)).good
    obtain ⟨hwf1, hx, hpar, hk, hn, _, _, _, _, hcontok⟩ := hshape.wf hwf hok hsv hfresh
    have hj : s.j < s.n1.children.length := (List.getElem?_eq_some_iff.1 hx).1
    rw [getNode_eq, hprep] at hr
    simp only [gnFinish] at hr
    cases hcont : s.cont with
    | none =>
      rw [hcont] at hr
      simp only [pure, Except.pure, Except.ok.injEq] at hr
      subst hr
      exact ⟨s.parent, by simp [Node.getAt_cons, hx], hshape.agree_none hwf hsv hcont⟩
    | some vr =>
      obtain ⟨v', rest'⟩ := vr
      rw [hcont] at hr
      obtain ⟨hlast, hp'⟩ := hp.cont hseg hk hn hcontok hcont
      obtain ⟨_, _, _, hpch⟩ := (Node.wf_iff ic used s.parent).1 hpar
      obtain ⟨fl', sg', hsp'⟩ := hp'.split
      have hv' : v' ≠ [] := (splitLoop_cons_inv hsp').1
      simp only [bind, Except.bind, pure, Except.pure] at hr
      cases hrec : getNode ic s.parent v' rest' with
      | error e => rw [hrec] at hr; cases hr
      | ok r' =>
        rw [hrec] at hr
        simp only [Except.ok.injEq] at hr
        subst hr
        obtain ⟨tg, htg, hag⟩ := ih s v' rest' hprep hcont _ hpch hp' r' hrec
        refine ⟨tg, ?_, hshape.agree_some hwf hok hsv hcont hv' hlast hag⟩
        simp [Node.getAt_cons, hj, htg]

end Mux.P9
