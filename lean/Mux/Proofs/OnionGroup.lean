/-
  Mux.Proofs.OnionGroup — `Group.Use` / `Group.Add` as `Router.Use` calls on the member routers:
  a history of group operations and operations on the routers themselves gives, for every router,
  a plain router history (`effOps`) in call order.
-/
import Mux.Proofs.Onion
import Mux.Properties.C13
namespace Mux.P10
open Mux

/-- Operations on a group and on the routers of its table. -/
inductive GOp where
  /-- `g.Add(matcher, router)` -/
  | add (mt : Matcher) (rid : Nat)
  /-- `g.Use(m...)` -/
  | use (m : List Nat)
  /-- `g.Remove(name)` -/
  | remove (name : Bytes)
  /-- a call on router `rid` through its own handle (`Handle/Remove/Clean/Use`) -/
  | router (rid : Nat) (op : ROp)
  deriving Repr

abbrev GState := Group × RTab

/-- `Group.Add` panics on a duplicate name / unknown router: the state is then unchanged. -/
def gstep (s : GState) : GOp → GState
  | .add mt rid => (s.1.add s.2 mt rid).getD s
  | .use m => s.1.use s.2 m
  | .remove name => (s.1.remove s.2 name, s.2)
  | .router rid op => match s.2.get? rid with
    | some r => (s.1, s.2.set rid (r.step op))
    | none => s

def grun (s : GState) (prog : List GOp) : GState := prog.foldl gstep s

def Group.ids (g : Group) : List Nat := g.routers.map (·.1)

/-- What one group-level operation means for router `rid`. -/
def effOp (s : GState) (rid : Nat) : GOp → List ROp
  | .add mt rid' => if rid' = rid ∧ (s.1.add s.2 mt rid').isSome then [.use s.1.ms] else []
  | .use m => if rid ∈ Group.ids s.1 then [.use m] else []
  | .remove _ => []
  | .router rid' op => if rid' = rid then [op] else []

/-- The plain history of router `rid` inside a group history, in call order. -/
def effOps (s : GState) (rid : Nat) : List GOp → List ROp
  | [] => []
  | op :: rest => effOp s rid op ++ effOps (gstep s op) rid rest

/-! ## `Group.use` on the table -/

def useFold (m : List Nat) (routers : List (Nat × Matcher)) (rt : RTab) : RTab :=
  routers.foldl (fun rt e =>
    match rt.get? e.1 with
    | some r => rt.set e.1 (r.use m)
    | none => rt) rt

theorem Group.use_snd (g : Group) (rt : RTab) (m : List Nat) : (g.use rt m).2 = useFold m g.routers rt := rfl

theorem useFold_other (m : List Nat) (routers : List (Nat × Matcher)) (rt : RTab) (id : Nat)
    (h : id ∉ routers.map (·.1)) : (useFold m routers rt).get? id = rt.get? id := by
  induction routers generalizing rt with
  | nil => rfl
  | cons e routers ih =>
    simp only [List.map_cons, List.mem_cons, not_or] at h
    unfold useFold
    rw [List.foldl_cons]
    have := ih (rt := match rt.get? e.1 with
      | some r => rt.set e.1 (r.use m)
      | none => rt) h.2
    unfold useFold at this
    rw [this]
    cases hr : rt.get? e.1 with
    | none => rfl
    | some r => simp only []; rw [RTab.get?_set]; simp [h.1]

theorem useFold_get (m : List Nat) (routers : List (Nat × Matcher)) (hnd : (routers.map (·.1)).Nodup) (rt : RTab)
    (id : Nat) :
    (useFold m routers rt).get? id =
      if id ∈ routers.map (·.1) then (rt.get? id).map (·.use m) else rt.get? id := by
  induction routers generalizing rt with
  | nil => rfl
  | cons e routers ih =>
    simp only [List.map_cons, List.nodup_cons] at hnd
    have hfold : useFold m (e :: routers) rt = useFold m routers (match rt.get? e.1 with
      | some r => rt.set e.1 (r.use m)
      | none => rt) := by
      unfold useFold; rw [List.foldl_cons]
    rw [hfold]
    by_cases hid : id = e.1
    · subst hid
      rw [useFold_other m routers _ _ hnd.1]
      simp only [List.map_cons, List.mem_cons, true_or, if_true]
      cases hr : rt.get? e.1 with
      | none => simp only [Option.map_none]; exact hr
      | some r => simp only []; rw [RTab.get?_set]; simp
    · rw [ih hnd.2]
      have h1 : (match rt.get? e.1 with
        | some r => rt.set e.1 (r.use m)
        | none => rt).get? id = rt.get? id := by
        cases hr : rt.get? e.1 with
        | none => rfl
        | some r => simp only []; rw [RTab.get?_set]; simp [hid]
      rw [h1]
      show _ = if id ∈ e.1 :: routers.map (·.1) then _ else _
      simp only [List.mem_cons, hid, false_or]

/-! ## Member ids stay pairwise distinct -/

theorem mem_names_of_mem_ids {g : Group} {rt : RTab} {rid : Nat} {r : Router} (h : rid ∈ Group.ids g)
    (hr : rt.get? rid = some r) : r.tree.name ∈ g.names rt := by
  unfold Group.ids at h
  rw [List.mem_map] at h
  obtain ⟨e, he, rfl⟩ := h
  unfold Group.names
  rw [List.mem_filterMap]
  exact ⟨e, he, by simp [hr]⟩

theorem ids_step {s : GState} (hnd : (Group.ids s.1).Nodup) (op : GOp) : (Group.ids (gstep s op).1).Nodup := by
  cases op with
  | add mt rid =>
    simp only [gstep]
    cases ha : s.1.add s.2 mt rid with
    | none => exact hnd
    | some res =>
      obtain ⟨g', rt'⟩ := res
      obtain ⟨r, hr, hd, rfl, _⟩ := Group.add_some_inv s.1 s.2 mt rid g' rt' ha
      simp only [Option.getD_some, Group.ids, List.map_append, List.map_cons, List.map_nil]
      rw [List.nodup_append]
      refine ⟨hnd, by simp, ?_⟩
      intro a ha' b hb
      simp only [List.mem_singleton] at hb
      subst hb
      intro hab; subst hab
      exact hd (mem_names_of_mem_ids ha' hr)
  | use m => exact hnd
  | remove name =>
    simp only [gstep, Group.ids, Group.remove]
    have : ((s.1.routers.filter (fun e =>
        match s.2.get? e.1 with
        | some r => decide (r.tree.name ≠ name)
        | none => true)).map (·.1)).Sublist (s.1.routers.map (·.1)) :=
      List.Sublist.map _ List.filter_sublist
    exact this.nodup hnd
  | router rid op =>
    simp only [gstep]
    cases s.2.get? rid <;> exact hnd

/-! ## One step, seen from router `rid` -/

theorem gstep_get (s : GState) (hnd : (Group.ids s.1).Nodup) (op : GOp) (rid : Nat) :
    (gstep s op).2.get? rid = (s.2.get? rid).map (·.run (effOp s rid op)) := by
  cases op with
  | add mt rid' =>
    simp only [gstep, effOp]
    cases ha : s.1.add s.2 mt rid' with
    | none => simp [Router.run]
    | some res =>
      obtain ⟨g', rt'⟩ := res
      obtain ⟨r, hr, _, _, rfl⟩ := Group.add_some_inv s.1 s.2 mt rid' g' rt' ha
      simp only [Option.getD_some, Option.isSome_some, and_true]
      rw [RTab.get?_set]
      by_cases h : rid = rid'
      · subst h
        simp [hr, Router.run, Router.step]
      · have h' : ¬ rid' = rid := fun e => h e.symm
        simp [h, h', Router.run]
  | use m =>
    simp only [gstep, effOp, Group.use_snd]
    rw [useFold_get m s.1.routers hnd]
    by_cases h : rid ∈ Group.ids s.1
    · have h' : rid ∈ s.1.routers.map (·.1) := h
      simp only [h, h', if_true]
      cases s.2.get? rid <;> simp [Router.run, Router.step]
    · have h' : rid ∉ s.1.routers.map (·.1) := h
      simp only [h, h', if_false]
      cases s.2.get? rid <;> simp [Router.run]
  | remove name =>
    simp only [gstep, effOp]
    cases s.2.get? rid <;> simp [Router.run]
  | router rid' op =>
    simp only [gstep, effOp]
    cases hr : s.2.get? rid' with
    | none =>
      by_cases h : rid' = rid
      · subst h; simp [hr]
      · simp only [h, if_false]
        cases s.2.get? rid <;> simp [Router.run]
    | some r =>
      simp only []
      rw [RTab.get?_set]
      by_cases h : rid = rid'
      · subst h; simp [hr, Router.run]
      · have h' : ¬ rid' = rid := fun e => h e.symm
        simp only [h, h', if_false]
        cases s.2.get? rid <;> simp [Router.run]

theorem Router.run_append' (r : Router) (a b : List ROp) : r.run (a ++ b) = (r.run a).run b := by
  simp [Router.run, List.foldl_append]

/-- A group history, seen from router `rid`, is the plain router history `effOps`. -/
theorem grun_get (prog : List GOp) : ∀ (s : GState), (Group.ids s.1).Nodup → ∀ rid,
    (grun s prog).2.get? rid = (s.2.get? rid).map (·.run (effOps s rid prog)) := by
  induction prog with
  | nil => intro s _ rid; simp only [grun, effOps, Router.run, List.foldl_nil]; cases s.2.get? rid <;> rfl
  | cons op rest ih =>
    intro s hnd rid
    have h1 := gstep_get s hnd op rid
    have h2 := ih (gstep s op) (ids_step hnd op) rid
    simp only [grun, List.foldl_cons] at h2 ⊢
    rw [h2, h1, effOps]
    cases s.2.get? rid with
    | none => rfl
    | some r => simp [Router.run_append']

/-- The group's own not-found handler along a history: wrapped in exactly the `Group.Use` lists. -/
theorem grun_useInv (prog : List GOp) : ∀ (s : GState), C13.UseInv s.1 → C13.UseInv (grun s prog).1 := by
  induction prog with
  | nil => intro s h; exact h
  | cons op rest ih =>
    intro s h
    simp only [grun, List.foldl_cons]
    apply ih
    obtain ⟨_, h2, h3, h4⟩ := C13.C13_use_history s.1 s.2
    cases op with
    | add mt rid =>
      simp only [gstep]
      cases ha : s.1.add s.2 mt rid with
      | none => exact h
      | some res => exact h3 h mt rid res.1 res.2 ha
    | use m => exact h2 h m
    | remove name => exact h4 h name
    | router rid op =>
      simp only [gstep]
      cases s.2.get? rid <;> exact h

end Mux.P10
