/-
  Mux.Proofs.TableCounts — I-count: the tree-wide counter of a method is the number of entries (nodes
  with handlers) on which the method is registered by hand; preserved by `add` (increment of the fresh
  methods), `remove`/`clean` (recount from the tree) and `use`.
-/
import Mux.Proofs.TableRefine
namespace Mux.P11
open Mux

/-- Number of entries on which `m` is registered by hand. -/
def cntE (m : Bytes) (es : List (Bytes × AMap Handler)) : Nat :=
  (es.filter (fun e => decide (m ∈ regKeys e.2))).length

theorem cntE_nil (m : Bytes) : cntE m [] = 0 := rfl
theorem cntE_append (m : Bytes) (a b : List (Bytes × AMap Handler)) : cntE m (a ++ b) = cntE m a + cntE m b := by
  simp [cntE]
theorem cntE_perm (m : Bytes) {a b : List (Bytes × AMap Handler)} (h : a.Perm b) : cntE m a = cntE m b :=
  (h.filter _).length_eq

theorem cntE_ent (m : Bytes) (x : Node) : cntE m (ent x) = if m ∈ regKeys x.handlers then 1 else 0 := by
  unfold ent cntE
  cases h : x.handlers with
  | nil => simp [regKeys_nil]
  | cons a l =>
    simp only [List.isEmpty_cons, Bool.false_eq_true, if_false, List.filter_cons, List.filter_nil]
    split <;> rename_i hm
    · have : m ∈ regKeys (a :: l) := by simpa using hm
      simp [this]
    · have : m ∉ regKeys (a :: l) := by simpa using hm
      simp [this]

/-- I-count. -/
def CountInv (t : Tree) : Prop := ∀ m, (t.counts.get? m).getD 0 = cntE m (liveL t.root.children)

/-! ## `bumpMethods` -/

theorem bump_get (m : Bytes) : ∀ (methods : List Bytes) (a : AMap Nat), methods.Nodup →
    ((methods.foldl (fun a m => a.set m ((a.get? m).getD 0 + 1)) a).get? m).getD 0 =
      (a.get? m).getD 0 + (if m ∈ methods then 1 else 0) := by
  intro methods
  induction methods with
  | nil => intro a _; simp
  | cons x rest ih =>
    intro a hnd
    simp only [List.nodup_cons] at hnd
    simp only [List.foldl_cons]
    rw [ih _ hnd.2, AMap.get?_setT]
    by_cases hmx : m = x
    · subst hmx
      simp [hnd.1]
    · simp [hmx]

theorem checkMethods_nodup (t : Tree) (pattern : Bytes) :
    ∀ (methods seen : List Bytes), t.checkMethods pattern methods seen = .ok () →
      methods.Nodup ∧ ∀ m ∈ methods, m ∉ seen := by
  intro methods
  induction methods with
  | nil => intro _ _; simp
  | cons m rest ih =>
    intro seen h
    rw [checkMethods_cons] at h
    split at h
    · cases h
    split at h
    · cases h
    split at h
    · cases h
    rename_i hseen
    split at h
    · cases h
    obtain ⟨h1, h2⟩ := ih _ h
    refine ⟨List.nodup_cons.2 ⟨fun hm => (h2 m hm) (by simp), h1⟩, ?_⟩
    intro x hx
    rcases List.mem_cons.1 hx with rfl | hx
    · simpa using hseen
    · exact fun hs => h2 x hx (by simp [hs])

/-! ## `countMethods` -/

theorem not_isReg_iff (k : Bytes) : (k = mHEAD ∨ k = mOPTIONS ∨ k = mNotAllowed) ↔ ¬ IsReg k := by
  unfold IsReg
  constructor
  · rintro (h | h | h) ⟨h1, h2, h3⟩
    · exact h1 h
    · exact h2 h
    · exact h3 h
  · intro h
    by_cases h1 : k = mHEAD
    · exact .inl h1
    by_cases h2 : k = mOPTIONS
    · exact .inr (.inl h2)
    by_cases h3 : k = mNotAllowed
    · exact .inr (.inr h3)
    exact absurd ⟨h1, h2, h3⟩ h

theorem foldCount (m : Bytes) : ∀ (hs : AMap Handler) (acc : AMap Nat), hs.keys.Nodup →
    ((hs.foldl (fun a e => if e.1 = mHEAD ∨ e.1 = mOPTIONS ∨ e.1 = mNotAllowed then a
        else a.set e.1 ((a.get? e.1).getD 0 + 1)) acc).get? m).getD 0 =
      (acc.get? m).getD 0 + (if m ∈ regKeys hs then 1 else 0) := by
  intro hs
  induction hs with
  | nil => intro acc _; simp [regKeys_nil]
  | cons e hs ih =>
    intro acc hnd
    have hnd' : e.1 ∉ AMap.keys hs ∧ (AMap.keys hs).Nodup := by simpa [AMap.keys] using hnd
    simp only [List.foldl_cons]
    rw [ih _ hnd'.2]
    have hkeys : AMap.keys (e :: hs) = e.1 :: AMap.keys hs := rfl
    have hreg : m ∈ regKeys (e :: hs) ↔ (m = e.1 ∧ IsReg m) ∨ m ∈ regKeys hs := by
      rw [mem_regKeys, mem_regKeys, hkeys, List.mem_cons]
      constructor
      · rintro ⟨h1 | h1, h2⟩
        · exact .inl ⟨h1, h2⟩
        · exact .inr ⟨h1, h2⟩
      · rintro (⟨h1, h2⟩ | ⟨h1, h2⟩)
        · exact ⟨.inl h1, h2⟩
        · exact ⟨.inr h1, h2⟩
    by_cases hres : e.1 = mHEAD ∨ e.1 = mOPTIONS ∨ e.1 = mNotAllowed
    · simp only [hres, if_true]
      have hnr : ¬ IsReg e.1 := (not_isReg_iff _).1 hres
      have : m ∈ regKeys (e :: hs) ↔ m ∈ regKeys hs := by
        rw [hreg]
        constructor
        · rintro (⟨h1, h2⟩ | h)
          · rw [h1] at h2; exact absurd h2 hnr
          · exact h
        · exact .inr
      simp only [this]
    · simp only [hres, if_false]
      have hr : IsReg e.1 := Classical.not_not.1 (fun h => hres ((not_isReg_iff _).2 h))
      rw [AMap.get?_setT]
      by_cases hme : m = e.1
      · have h1 : m ∉ regKeys hs := fun h => hnd'.1 (hme ▸ (mem_regKeys.1 h).1)
        have h2 : m ∈ regKeys (e :: hs) := hreg.2 (.inl ⟨hme, by rw [hme]; exact hr⟩)
        rw [hme] at h1 h2
        simp only [hme, if_true, h1, h2, if_false, Option.getD_some]
      · have : m ∈ regKeys (e :: hs) ↔ m ∈ regKeys hs := by
          rw [hreg]
          constructor
          · rintro (⟨h1, _⟩ | h)
            · exact absurd h1 hme
            · exact h
          · exact .inr
        simp only [hme, if_false, this]

theorem good_keys_nodup {ht : Bool} {n : Node} (h : Good ht n) : n.handlers.keys.Nodup := by
  rcases h.1.2 with h0 | h0
  · rw [h0]; simp [AMap.keys]
  · exact h0.nodup

theorem count_spec (ht : Bool) (m : Bytes) :
    ∀ n : Node, AllL (Good ht) n.children → ∀ acc,
      ((n.countMethods acc).get? m).getD 0 = (acc.get? m).getD 0 + cntE m (liveL n.children) := by
  intro n
  induction n using Node.rec (motive_2 := fun cs => AllL (Good ht) cs → ∀ acc,
      ((countMethodsL cs acc).get? m).getD 0 = (acc.get? m).getD 0 + cntE m (liveL cs)) with
  | mk s p mi hs idx cs ih => intro h acc; simp only [Node.countMethods]; exact ih h acc
  | nil => rename_i h acc; simp [countMethodsL, liveL_nil, cntE_nil]
  | cons c cs ih1 ih2 =>
    rename_i h acc
    rw [AllL_cons_iff] at h
    simp only [countMethodsL]
    rw [ih2 h.2, ih1 h.1.tail, foldCount m _ _ (good_keys_nodup h.1.head), liveL_cons, cntE_append]
    unfold liveN
    rw [cntE_append, cntE_ent]
    omega

/-! ## Preservation -/

theorem CountInv_new (name : Bytes) (ic : Interceptors) (nf : Handler) (tr : Option Handler)
    (ob : Base := .options) (nb : Base := .notAllowed) : CountInv (Tree.new name ic nf tr ob nb) := by
  intro m
  simp [Tree.new, liveL_nil, cntE_nil, AMap.get?]

theorem CountInv_recount {t : Tree} {root1 : Node} (hinv : TInv ({ t with root := root1 }).recount) :
    CountInv ({ t with root := root1 }).recount := by
  intro m
  have hgood : AllL (Good t.hasTrace) root1.children := by
    have := allGQ_good hinv.gq
    simpa [Tree.recount, Node.setHandlers, Tree.hasTrace] using this
  have := count_spec t.hasTrace m root1 hgood []
  simpa [Tree.recount, Node.setHandlers, AMap.get?] using this

theorem CountInv_step {t : Tree} (hinv : TInv t) (hc : CountInv t) (op : TOp) (hw : op.wf = true) :
    CountInv (t.step op) := by
  have hinv' := TInv_step hinv op hw
  cases op with
  | add p h ms methods =>
    simp only [Tree.step] at hinv' ⊢
    cases he : t.add p h ms methods with
    | error e => exact hc
    | ok t' =>
      simp only []
      obtain ⟨_, x, x', A, B, h1, h2, hxp, hfx, hcm, hcounts⟩ := add_effect hinv hw he
      obtain ⟨_, _, _, _, hk, hm⟩ := addMethodsNode_keys hfx
      intro m
      rw [hcounts, bump_get m _ _ (checkMethods_nodup t p _ _ hcm).1, hc m, cntE_perm m h1, h2]
      simp only [cntE_append, cntE_ent]
      have hreg : m ∈ regKeys x'.handlers ↔ m ∈ regKeys x.handlers ∨ m ∈ effMethods methods := by
        rw [mem_regKeys, mem_regKeys, hk m]
        constructor
        · rintro ⟨h1 | h1 | h1 | h1 | h1, h2⟩
          · exact .inl ⟨h1, h2⟩
          · exact .inr h1
          · exact absurd h1.1 h2.1
          · exact absurd h1 h2.2.1
          · exact absurd h1 h2.2.2
        · rintro (⟨h1, h2⟩ | h1)
          · exact ⟨.inl h1, h2⟩
          · exact ⟨.inr (.inl h1), (hm m h1).1⟩
      by_cases hmm : m ∈ effMethods methods
      · have h3 : m ∉ regKeys x.handlers := fun h => (hm m hmm).2 (mem_regKeys.1 h).1
        have h4 : m ∈ regKeys x'.handlers := hreg.2 (.inr hmm)
        simp only [hmm, h3, h4, if_true, if_false]
        omega
      · have h4 : m ∈ regKeys x'.handlers ↔ m ∈ regKeys x.handlers := by
          rw [hreg]; exact ⟨fun h => h.elim id (fun h => absurd h hmm), .inl⟩
        simp only [hmm, h4, if_false]
        omega
  | remove p methods =>
    simp only [Tree.step] at hinv' ⊢
    cases he : t.remove p methods with
    | error e => exact hc
    | ok t' =>
      simp only [he] at hinv' ⊢
      rcases (remove_effect hinv he).2 with ⟨rfl, _⟩ | ⟨_, _, _, root1, _, _, _, _, rfl⟩
      · exact hc
      · exact CountInv_recount hinv'
  | clean pre =>
    simp only [Tree.step] at hinv' ⊢
    cases he : t.clean pre with
    | error e => exact hc
    | ok t' =>
      simp only [he] at hinv' ⊢
      obtain ⟨_, _, root1, rfl⟩ := clean_effect hinv he
      exact CountInv_recount hinv'
  | use ms =>
    intro m
    show ((t.applyMiddleware ms).counts.get? m).getD 0 = cntE m (liveL (t.applyMiddleware ms).root.children)
    rw [(use_effect ms hinv).2]
    have : (t.applyMiddleware ms).counts = t.counts := rfl
    rw [this, hc m]
    unfold cntE
    rw [List.filter_map, List.length_map]
    congr 1
    apply List.filter_congr
    intro e _
    simp [regKeys_mwE]

end Mux.P11
