/-
  Mux.Proofs.WitnessExact — when the witness request of a chain is answered by the chain's OWN node, the
  parameters are exactly the witness values.

  The matcher's hit is a `ReachesBy` derivation (`P15.complete_node`); the chain from a node to a descendant is
  unique (`P13.chain_unique`, `nodes_disjoint`); along it `Segment.Match` is a function, and under `MatchChain`
  it consumes exactly the text each segment contributed — so the capture is the witness value.
-/
import Mux.Proofs.WitnessRx
import Mux.Proofs.ResolveReach
import Mux.Proofs.UrlTree
namespace Mux.P26
open Mux Mux.P11 Mux.P13 Mux.P14 Mux.P15 Mux.P17

/-- What a segment that consumed exactly `s.inst v` captured is `v` (for a parameter segment). -/
theorem cap_eq_of_inst {s : Seg} {cap v R : Bytes} (hk : s.kind ≠ .str) (h : s.inst cap ++ R = s.inst v ++ R) :
    cap = v := by
  have h' : s.inst cap = s.inst v := List.append_cancel_right h
  unfold Seg.inst at h'
  cases hkind : s.kind with
  | str => exact absurd hkind hk
  | rx => rw [hkind] at h'; exact List.append_cancel_right h'
  | named =>
    rw [hkind] at h'
    simp only at h'
    split at h'
    · exact h'
    · exact List.append_cancel_right h'
  | icpt =>
    rw [hkind] at h'
    simp only at h'
    split at h'
    · exact h'
    · exact List.append_cancel_right h'

/-- Recording the capture of a segment that consumed exactly its own text records the witness value. -/
theorem record_cap_eq {s : Seg} {cap v R : Bytes} (h : s.inst cap ++ R = s.inst v ++ R) (ps : Params) :
    s.record cap ps = s.record v ps := by
  unfold Seg.record
  split
  · rename_i hc
    rw [cap_eq_of_inst hc.1 h]
  · rfl

/-- **Every derivation that reaches the chain's own node records the witness values.** -/
theorem reach_exact (env : Env) (ic : Interceptors) :
    ∀ (chain : List (Seg × Bytes)) (n x : Node) (ps : Params) (is : List Nat) (ps' : Params) (used : List Bytes),
      Chain n (chain.map (·.1)) x → UniqHyp n → MatchChain env ic chain → Node.NamesOk used n →
      (∀ k ∈ ps.keys, k ∈ used) → ReachesBy env ic n (instChain chain) ps is x ps' → ps' = ps ++ captures chain := by
  intro chain
  induction chain with
  | nil =>
    intro n x ps is ps' used hch hu _ _ _ hr
    cases hch
    cases hr with
    | here _ => simp [captures]
    | child hi hm hsub =>
      exfalso
      obtain ⟨segs, hsegs⟩ := mem_nodes_chain _ _ hsub.mem_nodes
      exact chain_cons_ne hu (List.mem_of_getElem? hi) hsegs
  | cons sv rest ih =>
    intro n x ps is ps' used hch hu hmc hnames hkeys hr
    obtain ⟨s, v⟩ := sv
    simp only [List.map_cons] at hch
    cases hch
    rename_i c hc hrest
    obtain ⟨⟨cap0, hm0⟩, hmrest⟩ := hmc
    simp only at hm0
    have hpath : instChain ((c.seg, v) :: rest) = c.seg.inst v ++ instChain rest := rfl
    rw [hpath] at hr
    generalize hP : c.seg.inst v ++ instChain rest = P at hr hm0
    cases hr with
    | here _ =>
      exfalso
      exact chain_cons_ne hu hc hrest
    | @child _ _ _ i c' cap rs is' _ _ hi hm hsub =>
      have hc' : c' ∈ n.children := List.mem_of_getElem? hi
      have hcc : c = c' := by
        apply Classical.not_not.1
        intro hne
        exact nodes_disjoint hu.nodup hc hc' hne (chain_mem_nodes' hrest) hsub.mem_nodes
      subst hcc
      rw [hm0] at hm
      simp only [MatchRes.yes.injEq] at hm
      obtain ⟨rfl, rfl⟩ := hm
      obtain ⟨hsound, _, _⟩ := Seg.match_sound env ic c.seg _ _ _ hm0
      have hinst : c.seg.inst cap0 ++ instChain rest = c.seg.inst v ++ instChain rest := by
        rw [← hsound, hP]
      have hnL := (Node.namesOk_iff used n).1 hnames
      obtain ⟨hfresh, hok⟩ := NamesOkL_mem hnL hc
      obtain ⟨r1, r2, _⟩ := record_spec (s := c.seg) v hfresh hkeys
      rw [record_cap_eq hinst] at hsub
      have := ih c x _ is' ps' _ hrest (hu.child hc) hmrest hok r2 hsub
      rw [this, r1, List.append_assoc, ← captures_append]
      rfl

/-- Tree level: on a tree satisfying the invariants, if the witness request of `chain` is answered by the chain's
own node `x`, the reported parameters are `captures chain`. -/
theorem witness_exact_tree {t : Tree} (hinv : AllInv t) (hu : UniqHyp t.root) (env : Env)
    (chain : List (Seg × Bytes)) (x : Node) (hch : Chain t.root (chain.map (·.1)) x)
    (hm : MatchChain env t.ic chain) (method : Bytes) (f : Found)
    (hp : instChain chain ≠ []) (hstar : instChain chain ≠ [42]) (htr : t.trace = none ∨ method ≠ mTRACE)
    (hres : t.handler env (instChain chain) [] method = .res f) (hq : f.node = some x) :
    f.params = captures chain := by
  rw [Tree.handler_noTrace htr] at hres
  rcases handlerNoTrace_res hres with ⟨_, _, hnone, _⟩ | ⟨_, _, _, _, hnone, _⟩ | ⟨m, ps', hr, _, hsome, hps, _⟩
  · rw [hnone] at hq; cases hq
  · rw [hnone] at hq; cases hq
  · rw [hsome] at hq
    cases hq
    rw [Tree.matchRes_of_ne hp hstar] at hr
    have hnames := hinv.namesRoot
    obtain ⟨_, _, hhit⟩ := complete_node env t.ic t.root hinv.s2.all (instChain chain) [] []
      ((Node.namesOk_iff [] t.root).1 hnames) (by simp [AMap.keys])
    obtain ⟨is, his, _⟩ := hhit x ps' hr
    rw [hps]
    have := reach_exact env t.ic chain t.root x [] is ps' [] hch hu hm hnames (by simp [AMap.keys]) his
    simpa using this

end Mux.P26
