/-
  Mux.Proofs.TableSpec — the abstract table: what `Spec.add/remove/clean` do to the live pairs
  (`Spec.Table.has`) and to the well-formedness of a table (`TableOk`).
-/
import Mux.Proofs.TableTree
namespace Mux.P11
open Mux

/-- Unique patterns, non-empty method lists. -/
structure TableOk (tb : Spec.Table) : Prop where
  nodup : tb.patterns.Nodup
  nonempty : ∀ e ∈ tb, e.2 ≠ []

theorem TableOk.nil : TableOk [] := ⟨by simp [Spec.Table.patterns], by simp⟩

theorem effMethods_eq (methods : List Bytes) :
    (if methods.isEmpty = true then anyMethods else methods) = effMethods methods := rfl

theorem has_add (tb : Spec.Table) (p : Bytes) (methods : List Bytes) (q m : Bytes) :
    (Spec.add tb p methods).has q m ↔ tb.has q m ∨ (q = p ∧ m ∈ effMethods methods) := by
  unfold Spec.add Spec.Table.has
  simp only [effMethods_eq]
  split
  · rename_i hany
    simp only [List.any_eq_true, decide_eq_true_eq] at hany
    obtain ⟨e0, he0, hp0⟩ := hany
    constructor
    · rintro ⟨ms, hmem, hm⟩
      rw [List.mem_map] at hmem
      obtain ⟨e, he, heq⟩ := hmem
      split at heq
      · rename_i hep
        simp only [Prod.mk.injEq] at heq
        obtain ⟨rfl, rfl⟩ := heq
        rcases List.mem_append.1 hm with hm | hm
        · exact .inl ⟨e.2, he, hm⟩
        · exact .inr ⟨hep, hm⟩
      · exact .inl ⟨ms, heq ▸ he, hm⟩
    · rintro (⟨ms, hmem, hm⟩ | ⟨rfl, hm⟩)
      · by_cases hq : q = p
        · refine ⟨ms ++ effMethods methods, ?_, List.mem_append_left _ hm⟩
          rw [List.mem_map]
          exact ⟨(q, ms), hmem, by simp [hq]⟩
        · refine ⟨ms, ?_, hm⟩
          rw [List.mem_map]
          exact ⟨(q, ms), hmem, by simp [hq]⟩
      · refine ⟨e0.2 ++ effMethods methods, ?_, List.mem_append_right _ hm⟩
        rw [List.mem_map]
        exact ⟨e0, he0, by simp [hp0]⟩
  · rename_i hany
    simp only [List.any_eq_true, decide_eq_true_eq, not_exists, not_and] at hany
    constructor
    · rintro ⟨ms, hmem, hm⟩
      rcases List.mem_append.1 hmem with hmem | hmem
      · exact .inl ⟨ms, hmem, hm⟩
      · simp only [List.mem_singleton, Prod.mk.injEq] at hmem
        obtain ⟨rfl, rfl⟩ := hmem
        exact .inr ⟨rfl, hm⟩
    · rintro (⟨ms, hmem, hm⟩ | ⟨rfl, hm⟩)
      · exact ⟨ms, List.mem_append_left _ hmem, hm⟩
      · exact ⟨effMethods methods, List.mem_append_right _ (by simp), hm⟩

theorem has_remove (tb : Spec.Table) (p : Bytes) (methods : List Bytes) (q m : Bytes) :
    (Spec.remove tb p methods).has q m ↔ tb.has q m ∧ ¬ (q = p ∧ (methods = [] ∨ m ∈ methods)) := by
  unfold Spec.remove Spec.Table.has
  split
  · rename_i hempty
    have hm0 : methods = [] := by simpa using hempty
    subst hm0
    constructor
    · rintro ⟨ms, hmem, hm⟩
      rw [List.mem_filter] at hmem
      exact ⟨⟨ms, hmem.1, hm⟩, fun h => by simpa [h.1] using hmem.2⟩
    · rintro ⟨⟨ms, hmem, hm⟩, hno⟩
      refine ⟨ms, List.mem_filter.2 ⟨hmem, ?_⟩, hm⟩
      simpa using fun e => hno ⟨e, .inl rfl⟩
  · rename_i hempty
    have hm0 : methods ≠ [] := by simpa using hempty
    constructor
    · rintro ⟨ms, hmem, hm⟩
      rw [List.mem_filter, List.mem_map] at hmem
      obtain ⟨⟨e, he, heq⟩, _⟩ := hmem
      split at heq
      · rename_i hep
        simp only [Prod.mk.injEq] at heq
        obtain ⟨rfl, rfl⟩ := heq
        rw [List.mem_filter] at hm
        refine ⟨⟨e.2, he, hm.1⟩, fun h => ?_⟩
        rcases h.2 with h0 | h0
        · exact hm0 h0
        · simp [h0] at hm
      · rename_i hep
        refine ⟨⟨ms, heq ▸ he, hm⟩, fun h => hep ?_⟩
        rw [heq]; exact h.1
    · rintro ⟨⟨ms, hmem, hm⟩, hno⟩
      by_cases hq : q = p
      · have hnm : m ∉ methods := fun h => hno ⟨hq, .inr h⟩
        have hm' : m ∈ ms.filter (fun m => !(methods.contains m)) := by
          rw [List.mem_filter]; exact ⟨hm, by simpa using hnm⟩
        refine ⟨ms.filter (fun m => !(methods.contains m)), ?_, hm'⟩
        rw [List.mem_filter, List.mem_map]
        refine ⟨⟨(q, ms), hmem, by simp [hq]⟩, ?_⟩
        simp only [Bool.not_eq_eq_eq_not, Bool.not_true, List.isEmpty_eq_false_iff]
        intro e; rw [e] at hm'; cases hm'
      · refine ⟨ms, ?_, hm⟩
        rw [List.mem_filter, List.mem_map]
        refine ⟨⟨(q, ms), hmem, by simp [hq]⟩, ?_⟩
        simp only [Bool.not_eq_eq_eq_not, Bool.not_true, List.isEmpty_eq_false_iff]
        intro e; rw [e] at hm; cases hm

theorem has_clean (tb : Spec.Table) (pre : Bytes) (q m : Bytes) :
    (Spec.clean tb pre).has q m ↔ tb.has q m ∧ ¬ pre <+: q := by
  unfold Spec.clean Spec.Table.has
  constructor
  · rintro ⟨ms, hmem, hm⟩
    rw [List.mem_filter] at hmem
    refine ⟨⟨ms, hmem.1, hm⟩, fun h => ?_⟩
    have := (hasPrefix_iff q pre).2 h
    simp [this] at hmem
  · rintro ⟨⟨ms, hmem, hm⟩, hno⟩
    refine ⟨ms, List.mem_filter.2 ⟨hmem, ?_⟩, hm⟩
    cases hh : hasPrefix q pre with
    | false => rfl
    | true => exact absurd ((hasPrefix_iff q pre).1 hh) hno

/-! ## Well-formedness of the table -/

theorem patterns_map_same {tb : Spec.Table} (g : Bytes × List Bytes → Bytes × List Bytes)
    (hg : ∀ e, (g e).1 = e.1) : Spec.Table.patterns (tb.map g) = tb.patterns := by
  unfold Spec.Table.patterns
  rw [List.map_map]
  apply List.map_congr_left
  intro e _; exact hg e

theorem TableOk.add {tb : Spec.Table} (h : TableOk tb) (p : Bytes) (methods : List Bytes) :
    TableOk (Spec.add tb p methods) := by
  unfold Spec.add
  simp only [effMethods_eq]
  split
  · refine ⟨?_, ?_⟩
    · rw [patterns_map_same _ (fun e => by split <;> rfl)]; exact h.nodup
    · intro e he
      rw [List.mem_map] at he
      obtain ⟨e0, he0, rfl⟩ := he
      split
      · simp [effMethods_ne_nil]
      · exact h.nonempty e0 he0
  · rename_i hany
    simp only [List.any_eq_true, decide_eq_true_eq, not_exists, not_and] at hany
    refine ⟨?_, ?_⟩
    · unfold Spec.Table.patterns
      rw [List.map_append, List.nodup_append]
      refine ⟨h.nodup, by simp, ?_⟩
      intro a ha b hb
      simp only [List.map_cons, List.map_nil, List.mem_singleton] at hb
      subst hb
      rw [List.mem_map] at ha
      obtain ⟨e, he, rfl⟩ := ha
      exact hany e he
    · intro e he
      rcases List.mem_append.1 he with he | he
      · exact h.nonempty e he
      · simp only [List.mem_singleton] at he
        subst he; exact effMethods_ne_nil methods

theorem TableOk.remove {tb : Spec.Table} (h : TableOk tb) (p : Bytes) (methods : List Bytes) :
    TableOk (Spec.remove tb p methods) := by
  unfold Spec.remove
  split
  · refine ⟨?_, fun e he => h.nonempty e (List.mem_filter.1 he).1⟩
    unfold Spec.Table.patterns
    exact h.nodup.sublist (List.filter_sublist.map _)
  · refine ⟨?_, ?_⟩
    · unfold Spec.Table.patterns
      refine List.Nodup.sublist (List.filter_sublist.map _) ?_
      have := patterns_map_same (tb := tb)
        (fun e => if e.1 = p then (e.1, e.2.filter (fun m => !(methods.contains m))) else e)
        (fun e => by split <;> rfl)
      unfold Spec.Table.patterns at this
      rw [this]; exact h.nodup
    · intro e he
      have := (List.mem_filter.1 he).2
      simpa using this

theorem TableOk.clean {tb : Spec.Table} (h : TableOk tb) (pre : Bytes) : TableOk (Spec.clean tb pre) := by
  unfold Spec.clean
  refine ⟨?_, fun e he => h.nonempty e (List.mem_filter.1 he).1⟩
  unfold Spec.Table.patterns
  exact h.nodup.sublist (List.filter_sublist.map _)

/-- In a well-formed table the live patterns are those with a live method. -/
theorem mem_patterns_iff {tb : Spec.Table} (h : TableOk tb) (q : Bytes) :
    q ∈ tb.patterns ↔ ∃ m, tb.has q m := by
  unfold Spec.Table.patterns Spec.Table.has
  rw [List.mem_map]
  constructor
  · rintro ⟨e, he, rfl⟩
    have hne := h.nonempty e he
    cases hms : e.2 with
    | nil => exact absurd hms hne
    | cons m ms => exact ⟨m, e.2, he, by simp [hms]⟩
  · rintro ⟨m, ms, hmem, _⟩
    exact ⟨(q, ms), hmem, rfl⟩

end Mux.P11
