/-
  Mux.Proofs.Head — lemmas about header maps, the recorder and `headResponse` (property C08).
-/
import Mux.Model.Call
namespace Mux

/-! ## Header-map algebra -/

namespace Hdr

theorem has_del_ne (h : Hdr) {k k' : Bytes} (hne : k' ≠ k) : (h.del k).has k' = h.has k' := by
  unfold del has
  rw [List.any_filter]
  apply List.any_congr rfl
  intro e
  by_cases hk : e.1 = k'
  · have : e.1 ≠ k := fun h' => hne (hk ▸ h')
    simp [hk, hne]
  · simp [hk]

theorem del_map_key (h : Hdr) (k : Bytes) (f : Bytes × List Bytes → Bytes × List Bytes)
    (hf : ∀ e, (f e).1 = e.1) : del (h.map f) k = (del h k).map f := by
  unfold del
  rw [List.filter_map]
  congr 2
  funext e
  simp [hf]

theorem del_map_id (h : Hdr) (k : Bytes) (f : Bytes × List Bytes → Bytes × List Bytes)
    (hf : ∀ e, e.1 ≠ k → f e = e) : (del h k).map f = del h k := by
  have : ∀ e ∈ del h k, f e = id e := by
    intro e he
    simp only [del, List.mem_filter, decide_eq_true_eq] at he
    exact hf e he.2
  rw [List.map_congr_left this, List.map_id]

/-- `Del k` commutes with `Set` of another key. -/
theorem del_set_ne (h : Hdr) {k k' : Bytes} (v : Bytes) (hne : k' ≠ k) :
    (h.set k' v).del k = (h.del k).set k' v := by
  unfold set
  rw [has_del_ne h hne]
  split
  · apply del_map_key
    intro e; split <;> simp_all
  · simp [del, List.filter_append, hne]

/-- `Del k` commutes with `Add` of another key. -/
theorem del_add_ne (h : Hdr) {k k' : Bytes} (v : Bytes) (hne : k' ≠ k) :
    (h.add k' v).del k = (h.del k).add k' v := by
  unfold add
  rw [has_del_ne h hne]
  split
  · apply del_map_key
    intro e; split <;> simp_all
  · simp [del, List.filter_append, hne]

/-- `Del` commutes with `Del`. -/
theorem del_del_comm (h : Hdr) (k k' : Bytes) : (h.del k').del k = (h.del k).del k' := by
  simp only [del, List.filter_filter]
  congr 1; funext e; exact Bool.and_comm _ _

/-- `Del k` absorbs `Set k`. -/
theorem del_set_self (h : Hdr) (k v : Bytes) : (h.set k v).del k = h.del k := by
  unfold set
  split
  · rw [del_map_key _ _ _ (by intro e; split <;> simp_all)]
    apply del_map_id
    intro e he; simp [he]
  · simp [del, List.filter_append]

/-- `Del k` absorbs `Add k`. -/
theorem del_add_self (h : Hdr) (k v : Bytes) : (h.add k v).del k = h.del k := by
  unfold add
  split
  · rw [del_map_key _ _ _ (by intro e; split <;> simp_all)]
    apply del_map_id
    intro e he; simp [he]
  · simp [del, List.filter_append]

theorem del_del_self (h : Hdr) (k : Bytes) : (h.del k).del k = h.del k := by
  simp [del, List.filter_filter]

theorem find_map_key (h : Hdr) (k : Bytes) (f : Bytes × List Bytes → Bytes × List Bytes)
    (hf1 : ∀ e, (f e).1 = e.1) (hf2 : ∀ e, e.1 = k → f e = e) :
    (h.map f).find? (fun e => decide (e.1 = k)) = h.find? (fun e => decide (e.1 = k)) := by
  induction h with
  | nil => rfl
  | cons e h ih =>
    rw [List.map_cons, List.find?_cons, List.find?_cons, hf1, ih]
    by_cases hk : e.1 = k
    · simp [hk, hf2 e hk]
    · simp [hk]

theorem find_append_ne (h : Hdr) {k k' : Bytes} (vs : List Bytes) (hne : k' ≠ k) :
    (h ++ [(k', vs)]).find? (fun e => decide (e.1 = k)) = h.find? (fun e => decide (e.1 = k)) := by
  induction h with
  | nil => simp [hne]
  | cons e h ih =>
    rw [List.cons_append, List.find?_cons, List.find?_cons, ih]

theorem find_set_self (h : Hdr) (k v : Bytes) :
    (h.set k v).find? (fun e => decide (e.1 = k)) = some (k, [v]) := by
  unfold set
  induction h with
  | nil => simp [has]
  | cons e h ih =>
    by_cases hk : e.1 = k
    · simp [has, hk]
    · by_cases hh : has h k = true
      · have h1 : has (e :: h) k = true := by simp only [has] at hh ⊢; simp [hh]
        rw [if_pos hh] at ih
        rw [if_pos h1, List.map_cons, List.find?_cons, ih]
        simp [hk]
      · have h1 : ¬ has (e :: h) k = true := by simp only [has] at hh ⊢; simp [hk]; simpa using hh
        rw [if_neg hh] at ih
        rw [if_neg h1, List.cons_append, List.find?_cons, ih]
        simp [hk]

/-- Reading back what `Set` stored. -/
theorem get_set_self (h : Hdr) (k v : Bytes) : (h.set k v).get k = v := by
  unfold get; rw [find_set_self]

theorem get_set_ne (h : Hdr) {k k' : Bytes} (v : Bytes) (hne : k' ≠ k) :
    (h.set k' v).get k = h.get k := by
  unfold get set
  by_cases hh : has h k' = true
  · rw [if_pos hh, find_map_key]
    · intro e; split <;> simp_all
    · intro e he
      have : ¬ e.1 = k' := fun h' => hne (h' ▸ he)
      simp [this]
  · rw [if_neg hh, find_append_ne _ _ hne]

theorem get_add_ne (h : Hdr) {k k' : Bytes} (v : Bytes) (hne : k' ≠ k) :
    (h.add k' v).get k = h.get k := by
  unfold get add
  by_cases hh : has h k' = true
  · rw [if_pos hh, find_map_key]
    · intro e; split <;> simp_all
    · intro e he
      have : ¬ e.1 = k' := fun h' => hne (h' ▸ he)
      simp [this]
  · rw [if_neg hh, find_append_ne _ _ hne]

theorem get_del_ne (h : Hdr) {k k' : Bytes} (hne : k' ≠ k) : (h.del k').get k = h.get k := by
  unfold del get
  congr 1
  induction h with
  | nil => rfl
  | cons e h ih =>
    rw [List.filter_cons, List.find?_cons]
    by_cases hk' : e.1 = k'
    · have hk : ¬ e.1 = k := fun h' => hne (hk' ▸ h')
      have h1 : decide (e.1 ≠ k') = false := by simp [hk']
      have h2 : decide (e.1 = k) = false := by simp [hk]
      rw [h1, h2]; exact ih
    · have h1 : decide (e.1 ≠ k') = true := by simp [hk']
      rw [h1, if_pos rfl, List.find?_cons, ih]

end Hdr

/-! ## The recorder -/

/-- The status the client sees: an unset status is the implicit 200. -/
def Rec.status (r : Rec) : Nat := r.code.getD 200

/-- The header key an action touches. -/
def Act.key : Act → Option Bytes
  | .setHeader k _ => some k
  | .addHeader k _ => some k
  | .delHeader k => some k
  | _ => none

/-- Total number of bytes the script writes. -/
def written : List Act → Nat
  | [] => 0
  | .write n :: as => n + written as
  | _ :: as => written as

def Act.isWrite : Act → Bool
  | .write _ => true
  | _ => false

def Act.isWriteHeader : Act → Bool
  | .writeHeader _ => true
  | _ => false

/-- A `WriteHeader` that fixes the status: any status that is not informational. -/
def Act.isFinalHeader : Act → Bool
  | .writeHeader c => !informational c
  | _ => false

theorem informational_200 : informational 200 = false := by decide
theorem informational_101 : informational 101 = false := by decide

/-- `informational`, as the condition of the Go source read the other way round. -/
theorem informational_iff (c : Nat) : informational c = true ↔ 100 ≤ c ∧ c ≤ 199 ∧ c ≠ 101 := by
  simp [informational, and_assoc]

/-- The flag `headResponse.WriteHeader` stores: `status < 100 || status > 199 || status == 101`. -/
theorem not_informational_iff (c : Nat) : (!informational c) = true ↔ c < 100 ∨ c > 199 ∨ c = 101 := by
  rw [Bool.not_eq_true', ← Bool.not_eq_true, informational_iff]
  omega

/-! ## Basic facts about the recorder -/

theorem Rec.writeHeader_info (r : Rec) (c : Nat) (hi : informational c = true) : r.writeHeader c = r := by
  unfold Rec.writeHeader; rw [if_pos hi]
theorem Rec.writeHeader_hdr (r : Rec) (c : Nat) : (r.writeHeader c).hdr = r.hdr := by
  unfold Rec.writeHeader; split
  · rfl
  · split <;> rfl
theorem Rec.writeHeader_body (r : Rec) (c : Nat) : (r.writeHeader c).body = r.body := by
  unfold Rec.writeHeader; split
  · rfl
  · split <;> rfl
theorem Rec.writeHeader_none (r : Rec) (c : Nat) (hi : informational c = false) (h : r.code = none) :
    (r.writeHeader c).code = some c := by
  unfold Rec.writeHeader; rw [hi, h]; rfl
theorem Rec.writeHeader_none_snap (r : Rec) (c : Nat) (hi : informational c = false) (h : r.code = none) :
    (r.writeHeader c).snap = some r.hdr := by
  unfold Rec.writeHeader; rw [hi, h]; rfl
theorem Rec.writeHeader_some (r : Rec) (c x : Nat) (h : r.code = some x) : r.writeHeader c = r := by
  unfold Rec.writeHeader; rw [h]; split <;> rfl
theorem Rec.write_hdr (r : Rec) (n : Nat) : (r.write n).hdr = r.hdr := by
  unfold Rec.write; exact Rec.writeHeader_hdr r 200
theorem Rec.write_code (r : Rec) (n : Nat) : (r.write n).code = (r.writeHeader 200).code := rfl

/-! ## `runHead` never forwards a body byte -/

theorem runHead_body (acts : List Act) (sz : Nat) (wr : Bool) (r : Rec) :
    (runHead acts sz wr r).body = r.body := by
  induction acts generalizing sz wr r with
  | nil => rfl
  | cons a as ih =>
    cases a <;> simp only [runHead, ih]
    · cases wr
      · exact Rec.writeHeader_body r _
      · rfl

/-! ## Status and header map: simulation between `runHead` and `runGet` -/

/-- The simulation relation between the recorder under `headResponse{size, wrote}` and the recorder
of the plain GET run after the same prefix of the script. -/
structure HeadSim (wr : Bool) (rh rg : Rec) : Prop where
  hdr : rh.hdr.del hContentLength = rg.hdr.del hContentLength
  status : rh.status = rg.status
  wrote : wr = true → ∃ x, rg.code = some x
  notyet : wr = false → rh.code = rg.code

theorem headSim_writeHeader (wr : Bool) (rh rg : Rec) (c : Nat) (h : HeadSim wr rh rg) :
    HeadSim (if wr then true else !informational c) (if wr then rh else rh.writeHeader c) (rg.writeHeader c) := by
  cases wr with
  | true =>
    obtain ⟨hh, hs, hw, hn⟩ := h
    obtain ⟨x, hx⟩ := hw rfl
    rw [Rec.writeHeader_some _ _ _ hx]
    exact ⟨hh, hs, fun _ => ⟨x, hx⟩, by simp⟩
  | false =>
    simp only [Bool.false_eq_true, if_false]
    cases hi : informational c with
    | true =>
      -- an informational status: both recorders stay as they are, and so does the flag
      rw [Rec.writeHeader_info _ _ hi, Rec.writeHeader_info _ _ hi]
      exact h
    | false =>
      obtain ⟨hh, hs, hw, hn⟩ := h
      have hc := hn rfl
      cases hg : rg.code with
      | some x =>
        rw [Rec.writeHeader_some _ _ _ hg, Rec.writeHeader_some _ _ _ (hc.trans hg)]
        exact ⟨hh, hs, fun _ => ⟨x, hg⟩, by simp⟩
      | none =>
        refine ⟨?_, ?_, fun _ => ⟨c, Rec.writeHeader_none _ _ hi hg⟩, by simp⟩
        · rw [Rec.writeHeader_hdr, Rec.writeHeader_hdr]; exact hh
        · unfold Rec.status
          rw [Rec.writeHeader_none _ _ hi hg, Rec.writeHeader_none _ _ hi (hc.trans hg)]

theorem headSim_write (wr : Bool) (rh rg : Rec) (n : Nat) (v : Bytes) (h : HeadSim wr rh rg) :
    HeadSim true { rh with hdr := rh.hdr.set hContentLength v } (rg.write n) := by
  obtain ⟨hh, hs, hw, hn⟩ := h
  have hhdr : ({ rh with hdr := rh.hdr.set hContentLength v } : Rec).hdr.del hContentLength
      = (rg.write n).hdr.del hContentLength := by
    rw [Rec.write_hdr]; show (rh.hdr.set hContentLength v).del hContentLength = _
    rw [Hdr.del_set_self]; exact hh
  cases hg : rg.code with
  | some x =>
    refine ⟨hhdr, ?_, fun _ => ⟨x, ?_⟩, by simp⟩
    · unfold Rec.status at hs ⊢
      rw [Rec.write_code, Rec.writeHeader_some _ _ _ hg]; exact hs
    · rw [Rec.write_code, Rec.writeHeader_some _ _ _ hg]; exact hg
  | none =>
    have hwr : wr = false := by
      cases wr with
      | false => rfl
      | true => obtain ⟨x, hx⟩ := hw rfl; rw [hg] at hx; cases hx
    have hc : rh.code = none := (hn hwr).trans hg
    refine ⟨hhdr, ?_, fun _ => ⟨200, ?_⟩, by simp⟩
    · unfold Rec.status
      rw [Rec.write_code, Rec.writeHeader_none _ _ informational_200 hg]
      show rh.code.getD 200 = _
      rw [hc]; rfl
    · rw [Rec.write_code, Rec.writeHeader_none _ _ informational_200 hg]

theorem headSim_run (acts : List Act) (sz : Nat) (wr : Bool) (rh rg : Rec) (h : HeadSim wr rh rg) :
    ∃ wr', HeadSim wr' (runHead acts sz wr rh) (runGet acts rg) := by
  induction acts generalizing sz wr rh rg with
  | nil => exact ⟨wr, h⟩
  | cons a as ih =>
    cases a with
    | setHeader k v =>
      obtain ⟨hh, hs, hw, hn⟩ := h
      simp only [runHead, runGet]
      apply ih
      refine ⟨?_, hs, hw, hn⟩
      by_cases hk : k = hContentLength
      · subst hk; simp only [Hdr.del_set_self]; exact hh
      · simp only [Hdr.del_set_ne _ _ hk]; rw [hh]
    | addHeader k v =>
      obtain ⟨hh, hs, hw, hn⟩ := h
      simp only [runHead, runGet]
      apply ih
      refine ⟨?_, hs, hw, hn⟩
      by_cases hk : k = hContentLength
      · subst hk; simp only [Hdr.del_add_self]; exact hh
      · simp only [Hdr.del_add_ne _ _ hk]; rw [hh]
    | delHeader k =>
      obtain ⟨hh, hs, hw, hn⟩ := h
      simp only [runHead, runGet]
      apply ih
      refine ⟨?_, hs, hw, hn⟩
      show (rh.hdr.del k).del hContentLength = (rg.hdr.del k).del hContentLength
      rw [Hdr.del_del_comm, Hdr.del_del_comm rg.hdr, hh]
    | writeHeader c =>
      simp only [runHead, runGet]
      exact ih _ _ _ _ (headSim_writeHeader wr rh rg c h)
    | write n =>
      simp only [runHead, runGet]
      exact ih _ _ _ _ (headSim_write wr rh rg n _ h)

theorem headSim_init (r0 : Rec) : HeadSim false r0 r0 := ⟨rfl, rfl, fun h => Bool.noConfusion h, fun _ => rfl⟩

theorem runHead_status (acts : List Act) (r0 : Rec) :
    (runHead acts 0 false r0).status = (runGet acts r0).status :=
  let ⟨_, h⟩ := headSim_run acts 0 false r0 r0 (headSim_init r0); h.status

theorem runHead_headers (acts : List Act) (r0 : Rec) :
    (runHead acts 0 false r0).hdr.del hContentLength = (runGet acts r0).hdr.del hContentLength :=
  let ⟨_, h⟩ := headSim_run acts 0 false r0 r0 (headSim_init r0); h.hdr

/-! ## The header snapshot -/

/-- Snapshot part of the simulation: the wrapper's recorder has no snapshot yet, or the GET recorder has sent its
header too and the two snapshots agree, Content-Length aside. -/
def SnapSim (rh rg : Rec) : Prop :=
  rh.snap = none ∨
    ((∃ x, rg.code = some x) ∧
      ∃ s s', rh.snap = some s ∧ rg.snap = some s' ∧ s.del hContentLength = s'.del hContentLength)

theorem snapSim_writeHeader (wr : Bool) (rh rg : Rec) (c : Nat) (h : HeadSim wr rh rg) (hs : SnapSim rh rg) :
    SnapSim (if wr then rh else rh.writeHeader c) (rg.writeHeader c) := by
  cases wr with
  | true =>
    obtain ⟨x, hx⟩ := h.wrote rfl
    rw [Rec.writeHeader_some _ _ _ hx]; exact hs
  | false =>
    simp only [Bool.false_eq_true, if_false]
    cases hi : informational c with
    | true => rw [Rec.writeHeader_info _ _ hi, Rec.writeHeader_info _ _ hi]; exact hs
    | false =>
      have hc := h.notyet rfl
      cases hg : rg.code with
      | some x => rw [Rec.writeHeader_some _ _ _ hg, Rec.writeHeader_some _ _ _ (hc.trans hg)]; exact hs
      | none =>
        refine .inr ⟨⟨c, Rec.writeHeader_none _ _ hi hg⟩, rh.hdr, rg.hdr,
          Rec.writeHeader_none_snap _ _ hi (hc.trans hg), Rec.writeHeader_none_snap _ _ hi hg, h.hdr⟩

theorem snapSim_write (rh rg : Rec) (n : Nat) (v : Bytes) (hs : SnapSim rh rg) :
    SnapSim { rh with hdr := rh.hdr.set hContentLength v } (rg.write n) := by
  rcases hs with hs | ⟨⟨x, hx⟩, s, s', h1, h2, h3⟩
  · exact .inl hs
  · have : rg.write n = { rg with body := rg.body + n } := by
      unfold Rec.write; rw [Rec.writeHeader_some _ _ _ hx]
    rw [this]
    exact .inr ⟨⟨x, hx⟩, s, s', h1, h2, h3⟩

theorem snapSim_run (acts : List Act) (sz : Nat) (wr : Bool) (rh rg : Rec) (h : HeadSim wr rh rg)
    (hs : SnapSim rh rg) : SnapSim (runHead acts sz wr rh) (runGet acts rg) := by
  induction acts generalizing sz wr rh rg with
  | nil => exact hs
  | cons a as ih =>
    -- one step of the status/header simulation, as in `headSim_run`
    cases a with
    | setHeader k v =>
      obtain ⟨hh, hst, hw, hn⟩ := h
      simp only [runHead, runGet]
      refine ih _ _ _ _ ⟨?_, hst, hw, hn⟩ hs
      by_cases hk : k = hContentLength
      · subst hk; simp only [Hdr.del_set_self]; exact hh
      · simp only [Hdr.del_set_ne _ _ hk]; rw [hh]
    | addHeader k v =>
      obtain ⟨hh, hst, hw, hn⟩ := h
      simp only [runHead, runGet]
      refine ih _ _ _ _ ⟨?_, hst, hw, hn⟩ hs
      by_cases hk : k = hContentLength
      · subst hk; simp only [Hdr.del_add_self]; exact hh
      · simp only [Hdr.del_add_ne _ _ hk]; rw [hh]
    | delHeader k =>
      obtain ⟨hh, hst, hw, hn⟩ := h
      simp only [runHead, runGet]
      refine ih _ _ _ _ ⟨?_, hst, hw, hn⟩ hs
      show (rh.hdr.del k).del hContentLength = (rg.hdr.del k).del hContentLength
      rw [Hdr.del_del_comm, Hdr.del_del_comm rg.hdr, hh]
    | writeHeader c =>
      simp only [runHead, runGet]
      exact ih _ _ _ _ (headSim_writeHeader wr rh rg c h) (snapSim_writeHeader wr rh rg c h hs)
    | write n =>
      simp only [runHead, runGet]
      exact ih _ _ _ _ (headSim_write wr rh rg n _ h) (snapSim_write rh rg n _ hs)

/-- If the wrapper's recorder ends with a header snapshot (the handler sent a final status itself, before any
`Write`), the GET recorder has one too and they agree, Content-Length aside. -/
theorem runHead_snap (acts : List Act) (r0 : Rec) (h0 : r0.snap = none) (s : Hdr)
    (hs : (runHead acts 0 false r0).snap = some s) :
    ∃ s', (runGet acts r0).snap = some s' ∧ s.del hContentLength = s'.del hContentLength := by
  rcases snapSim_run acts 0 false r0 r0 (headSim_init r0) (.inl h0) with h | ⟨_, s1, s', h1, h2, h3⟩
  · rw [h] at hs; cases hs
  · rw [h1] at hs; cases hs; exact ⟨s', h2, h3⟩

/-! ## Content-Length -/

theorem runHead_length_gen (acts : List Act) (sz : Nat) (wr : Bool) (r : Rec)
    (hclean : ∀ a ∈ acts, a.key ≠ some hContentLength)
    (hw : (∃ a ∈ acts, a.isWrite = true) ∨ r.hdr.get hContentLength = natToBytes sz) :
    (runHead acts sz wr r).hdr.get hContentLength = natToBytes (sz + written acts) := by
  induction acts generalizing sz wr r with
  | nil =>
    rcases hw with ⟨a, ha, _⟩ | hw
    · cases ha
    · simpa [runHead, written] using hw
  | cons a as ih =>
    have hclean' : ∀ a ∈ as, a.key ≠ some hContentLength := fun a ha => hclean a (List.mem_cons_of_mem _ ha)
    have hk := hclean a (List.mem_cons_self ..)
    have hw' : ∀ r' : Rec, a.isWrite = false → r'.hdr.get hContentLength = r.hdr.get hContentLength →
        ((∃ a ∈ as, a.isWrite = true) ∨ r'.hdr.get hContentLength = natToBytes sz) := by
      intro r' hnw hr'
      rcases hw with ⟨b, hb, hbw⟩ | hw
      · rcases List.mem_cons.1 hb with rfl | hb
        · rw [hnw] at hbw; cases hbw
        · exact .inl ⟨b, hb, hbw⟩
      · exact .inr (hr' ▸ hw)
    cases a with
    | setHeader k v =>
      have hk' : k ≠ hContentLength := by simpa [Act.key] using hk
      simp only [runHead, written]
      exact ih _ _ _ hclean' (hw' _ rfl (Hdr.get_set_ne _ _ hk'))
    | addHeader k v =>
      have hk' : k ≠ hContentLength := by simpa [Act.key] using hk
      simp only [runHead, written]
      exact ih _ _ _ hclean' (hw' _ rfl (Hdr.get_add_ne _ _ hk'))
    | delHeader k =>
      have hk' : k ≠ hContentLength := by simpa [Act.key] using hk
      simp only [runHead, written]
      exact ih _ _ _ hclean' (hw' _ rfl (Hdr.get_del_ne _ hk'))
    | writeHeader c =>
      simp only [runHead, written]
      refine ih _ _ _ hclean' (hw' _ rfl ?_)
      cases wr
      · exact congrArg (fun h => Hdr.get h hContentLength) (Rec.writeHeader_hdr r c)
      · rfl
    | write n =>
      simp only [runHead, written]
      rw [ih _ _ _ hclean' (.inr (Hdr.get_set_self _ _ _)), Nat.add_assoc]

/-- Without a FINAL `WriteHeader` (informational ones are allowed) nothing has been sent when the handler returns:
the live header map (with the accumulated Content-Length) is what `net/http` sends. -/
theorem runHead_unsent_final (acts : List Act) (sz : Nat) (wr : Bool) (r : Rec)
    (hnw : ∀ a ∈ acts, a.isFinalHeader = false) :
    (runHead acts sz wr r).code = r.code ∧ (runHead acts sz wr r).snap = r.snap := by
  induction acts generalizing sz wr r with
  | nil => exact ⟨rfl, rfl⟩
  | cons a as ih =>
    have h' : ∀ a ∈ as, a.isFinalHeader = false := fun a ha => hnw a (List.mem_cons_of_mem _ ha)
    have h0 := hnw a (List.mem_cons_self ..)
    cases a with
    | writeHeader c =>
      have hi : informational c = true := by simpa [Act.isFinalHeader] using h0
      simp only [runHead]
      rw [(ih _ _ _ h').1, (ih _ _ _ h').2]
      cases wr
      · show (r.writeHeader c).code = r.code ∧ (r.writeHeader c).snap = r.snap
        rw [Rec.writeHeader_info _ _ hi]; exact ⟨rfl, rfl⟩
      · exact ⟨rfl, rfl⟩
    | _ => simp only [runHead]; exact ih _ _ _ h'

/-- Without an explicit `WriteHeader` nothing has been sent when the handler returns: the live
header map (with the accumulated Content-Length) is what `net/http` sends. -/
theorem runHead_unsent (acts : List Act) (sz : Nat) (wr : Bool) (r : Rec)
    (hnw : ∀ a ∈ acts, a.isWriteHeader = false) :
    (runHead acts sz wr r).code = r.code ∧ (runHead acts sz wr r).snap = r.snap := by
  apply runHead_unsent_final
  intro a ha
  have := hnw a ha
  cases a <;> first | rfl | (simp [Act.isWriteHeader] at this)

/-! ## `runCall`: HEAD runs the script of the GET handler -/

/-- The recorder a handler starts with. -/
def Call.rec0 (c : Call) : Rec := { hdr := c.respHeaders }

/-- The value with which the outermost panicking middleware panics (`wraps` is innermost first). -/
def mwPanic (pc : PanicCfg) (h : Handler) : Option Nat :=
  (h.wraps.reverse.filterMap (fun w => lookupNat pc.mws w.mw)).head?

/-- The handler's own entry in the panic configuration. -/
def basePanic (pc : PanicCfg) : Base → Option Nat
  | .user id => lookupNat pc.handlers id
  | b => lookupNat pc.bases b.code

/-- `node.AllowHeader()` of the matched node (empty without a node). -/
def Call.allow (c : Call) : Bytes :=
  match c.node with
  | some n => n.allow
  | none => []

/-- The script `runCall` runs (or the panic raised before/instead of it).  It does not look at
`c.headWrap`. -/
def callScript (pc : PanicCfg) (scripts : Scripts) (c : Call) : Except PanicVal (List Act) :=
  match mwPanic pc c.handler with
  | some v => .error (.user v)
  | none =>
    match basePanic pc c.handler.base with
    | some v => .error (.user v)
    | none =>
      match c.handler.script scripts c.allow with
      | none => .error .fault
      | some acts => .ok acts

theorem runCall_eq (pc : PanicCfg) (scripts : Scripts) (c : Call) :
    runCall pc scripts c =
      match mwPanic pc c.handler with
      | some v => .error (.user v)
      | none =>
        match basePanic pc c.handler.base with
        | some v => .error (.user v)
        | none =>
          match c.handler.script scripts c.allow with
          | none => .error .fault
          | some acts => .ok (if c.headWrap then runHead acts 0 false c.rec0 else runGet acts c.rec0) := by
  obtain ⟨⟨base, wraps⟩, node, ok, params, routerName, respHeaders, headWrap, path, recover⟩ := c
  cases base <;> rfl

theorem runCall_eq_callScript (pc : PanicCfg) (scripts : Scripts) (c : Call) :
    runCall pc scripts c =
      (callScript pc scripts c).map
        (fun acts => if c.headWrap then runHead acts 0 false c.rec0 else runGet acts c.rec0) := by
  rw [runCall_eq]; unfold callScript
  cases mwPanic pc c.handler with
  | some v => rfl
  | none =>
    cases basePanic pc c.handler.base with
    | some v => rfl
    | none =>
      cases c.handler.script scripts c.allow with
      | none => rfl
      | some acts => rfl

theorem callScript_headWrap (pc : PanicCfg) (scripts : Scripts) (c : Call) (b : Bool) :
    callScript pc scripts { c with headWrap := b } = callScript pc scripts c := rfl

theorem callScript_ok (pc : PanicCfg) (scripts : Scripts) (c : Call) (acts : List Act)
    (h : callScript pc scripts c = .ok acts) :
    c.handler.script scripts c.allow = some acts := by
  unfold callScript at h
  cases h1 : mwPanic pc c.handler with
  | some v => rw [h1] at h; cases h
  | none =>
    rw [h1] at h
    cases h2 : basePanic pc c.handler.base with
    | some v => rw [h2] at h; cases h
    | none =>
      rw [h2] at h
      cases h3 : c.handler.script scripts c.allow with
      | none => rw [h3] at h; cases h
      | some acts' => rw [h3] at h; cases h; rfl

end Mux
