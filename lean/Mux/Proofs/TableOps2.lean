/-
  Mux.Proofs.TableOps2 — `removeAt`, `Node.clean` and `Node.applyMw` on a tree with the invariant `Sh`.
-/
import Mux.Proofs.TableOps
namespace Mux.P11
open Mux

/-! ## `removeAt` -/

/-- `f` touches only `methodIndex`/`handlers`. -/
def KeepsShape (f : Node → Node) : Prop :=
  ∀ m, (f m).seg = m.seg ∧ (f m).pattern = m.pattern ∧ (f m).children = m.children

theorem liveN_empty {c : Node} (h1 : c.size = 0) (h2 : c.children.isEmpty = true) : liveN c = [] := by
  have hh : c.handlers = [] := List.eq_nil_of_length_eq_zero h1
  have hc : c.children = [] := by simpa using h2
  simp [liveN, ent, hh, hc, liveL_nil]

theorem mem_of_map_sublist {cs cs' : List Node} (h : (cs'.map ckey).Sublist (cs.map ckey)) {d : Node}
    (hd : d ∈ cs') : ∃ d0 ∈ cs, ckey d0 = ckey d := by
  have : ckey d ∈ cs.map ckey := h.subset (List.mem_map_of_mem hd)
  rw [List.mem_map] at this
  exact this

/-- The result type of the `removeAt` lemmas. -/
def RemPost (ic : Interceptors) (f : Node → Node) (path : List Nat) : Prop :=
  ∀ (n n' x : Node), Node.All (Sh ic) n → n.getAt path = some x → n.removeAt f path = .ok n' →
    TopOk ic n n' ∧ ∃ A B, liveN n = A ++ ent x ++ B ∧ liveN n' = A ++ ent (f x) ++ B

theorem removeAtL_aux (ic : Interceptors) (f : Node → Node) (path : List Nat) (ih : RemPost ic f path) :
    ∀ (cs cs' : List Node) (d : Bool) (k : Nat) (pp : Bytes) (x : Node), ShL ic pp cs →
      AllL (Sh ic) cs → getAtL cs k path = some x → removeAtL f cs k path = .ok (cs', d) →
      ShL ic pp cs' ∧ AllL (Sh ic) cs' ∧ (cs'.map ckey).Sublist (cs.map ckey) ∧
        ∃ A B, liveL cs = A ++ ent x ++ B ∧ liveL cs' = A ++ ent (f x) ++ B := by
  intro cs
  induction cs with
  | nil => intro cs' d k pp x _ _ hx; simp [getAtL] at hx
  | cons c cs ihc =>
    intro cs' d k pp x hsh hall hx h
    obtain ⟨hco, hkeys, hsho⟩ := ShL_cons.1 hsh
    rw [AllL_cons_iff] at hall
    cases k with
    | zero =>
      rw [getAtL_cons_zero] at hx
      simp only [removeAtL, bind, Except.bind, pure, Except.pure] at h
      split at h
      · cases h
      rename_i c' hc'
      obtain ⟨top, A, B, e1, e2⟩ := ih c c' x hall.1 hx hc'
      split at h
      · rename_i hempty
        simp only [Except.ok.injEq, Prod.mk.injEq] at h
        obtain ⟨rfl, rfl⟩ := h
        refine ⟨hsho, hall.2, List.sublist_cons_self _ _, A, B ++ liveL cs, ?_, ?_⟩
        · rw [liveL_cons, e1]; simp
        · have h0 := liveN_empty hempty.1 hempty.2
          rw [e2] at h0
          simp only [List.append_eq_nil_iff] at h0
          obtain ⟨⟨ha, he⟩, hb⟩ := h0
          rw [ha, he, hb]; simp
      · simp only [Except.ok.injEq, Prod.mk.injEq] at h
        obtain ⟨rfl, rfl⟩ := h
        have hck : ckey c' = ckey c := by unfold ckey; rw [top.seg]
        refine ⟨ShL_cons.2 ⟨ChildOk_congr top.seg top.pat top.leaf hco, ?_, hsho⟩,
          AllL_cons_iff.2 ⟨top.all, hall.2⟩, by simp [hck], A, B ++ liveL cs, ?_, ?_⟩
        · intro d hd; rw [hck]; exact hkeys d hd
        · rw [liveL_cons, e1]; simp
        · rw [liveL_cons, e2]; simp
    | succ k =>
      rw [getAtL_cons_succ] at hx
      simp only [removeAtL, bind, Except.bind, pure, Except.pure] at h
      split at h
      · cases h
      rename_i r hr
      simp only [Except.ok.injEq, Prod.mk.injEq] at h
      obtain ⟨rfl, rfl⟩ := h
      obtain ⟨h1, h2, hk1, A, B, e1, e2⟩ := ihc r.1 r.2 k pp x hsho hall.2 hx hr
      refine ⟨?_, AllL_cons_iff.2 ⟨hall.1, h2⟩, by simpa using hk1.cons_cons (ckey c), liveN c ++ A, B, ?_, ?_⟩
      · refine ShL_cons.2 ⟨hco, ?_, h1⟩
        intro d hd
        obtain ⟨d0, hd0, e⟩ := mem_of_map_sublist hk1 hd
        rw [← e]; exact hkeys d0 hd0
      · rw [liveL_cons, e1]; simp
      · rw [liveL_cons, e2]; simp

/-- `removeAt` along a non-empty path, in terms of the children of the top node. -/
theorem removeAt_cons_aux (ic : Interceptors) (f : Node → Node) (i : Nat) (path : List Nat)
    (ih : RemPost ic f path) (n n' x : Node) (hn : Node.All (Sh ic) n) (hx : n.getAt (i :: path) = some x)
    (h : n.removeAt f (i :: path) = .ok n') :
    TopOk ic n n' ∧ n'.handlers = n.handlers ∧ n'.methodIndex = n.methodIndex ∧
      ∃ A B, liveL n.children = A ++ ent x ++ B ∧ liveL n'.children = A ++ ent (f x) ++ B := by
  cases n with
  | mk s p mi hs idx cs =>
    simp only [Node.getAt] at hx
    simp only [Node.removeAt, bind, Except.bind, pure, Except.pure] at h
    split at h
    · cases h
    rename_i r hr
    obtain ⟨h1, h2, h3, A, B, e1, e2⟩ := removeAtL_aux ic f path ih cs r.1 r.2 i p x hn.1 hn.2 hx hr
    have hleaf : cs = [] → r.1 = [] := by
      intro e; rw [e] at h3; simpa using h3
    have main : ∀ idx', TopOk ic (.mk s p mi hs idx cs) (.mk s p mi hs idx' r.1) ∧
        (Node.mk s p mi hs idx' r.1).handlers = (Node.mk s p mi hs idx cs).handlers ∧
        (Node.mk s p mi hs idx' r.1).methodIndex = (Node.mk s p mi hs idx cs).methodIndex ∧
        ∃ A B, liveL (Node.mk s p mi hs idx cs).children = A ++ ent x ++ B ∧
          liveL (Node.mk s p mi hs idx' r.1).children = A ++ ent (f x) ++ B :=
      fun idx' => ⟨⟨⟨h1, h2⟩, rfl, rfl, hleaf⟩, rfl, rfl, A, B, e1, e2⟩
    split at h
    · split at h
      · cases h
      rename_i idx' _
      simp only [Except.ok.injEq] at h
      subst h
      exact main idx'
    · simp only [Except.ok.injEq] at h
      subst h
      exact main idx

theorem removeAt_sh (ic : Interceptors) (f : Node → Node) (hf : KeepsShape f) :
    ∀ (path : List Nat), RemPost ic f path := by
  intro path
  induction path with
  | nil =>
    intro n n' x hn hx h
    simp only [Node.getAt_nil, Option.some.injEq] at hx
    subst hx
    have h' : f n = n' := by cases n; simpa [Node.removeAt] using h
    subst h'
    obtain ⟨h1, h2, h3⟩ := hf n
    refine ⟨⟨?_, h1, h2, fun e => by rw [h3, e]⟩, [], liveL n.children, by simp [liveN], by simp [liveN, h3]⟩
    rw [Node.All_iff] at hn ⊢
    exact ⟨Sh_congr h2 h3 hn.1, by rw [h3]; exact hn.2⟩
  | cons i path ih =>
    intro n n' x hn hx h
    obtain ⟨top, hhs, _, A, B, e1, e2⟩ := removeAt_cons_aux ic f i path ih n n' x hn hx h
    refine ⟨top, ent n ++ A, B, ?_, ?_⟩
    · simp only [liveN, e1]; simp
    · have : ent n' = ent n := ent_congr top.pat hhs
      simp only [liveN, e2, this]; simp

theorem removeAt_cons_sh (ic : Interceptors) (f : Node → Node) (hf : KeepsShape f) (i : Nat)
    (path : List Nat) (n n' x : Node) (hn : Node.All (Sh ic) n) (hx : n.getAt (i :: path) = some x)
    (h : n.removeAt f (i :: path) = .ok n') :
    TopOk ic n n' ∧ n'.handlers = n.handlers ∧ n'.methodIndex = n.methodIndex ∧
      ∃ A B, liveL n.children = A ++ ent x ++ B ∧ liveL n'.children = A ++ ent (f x) ++ B :=
  removeAt_cons_aux ic f i path (removeAt_sh ic f hf path) n n' x hn hx h

/-! ## `Node.clean` -/

theorem foldl_removeNodes_cons {c : Node} (ds : List Bytes) (h : c.seg.value ∉ ds) (cs : List Node) :
    ds.foldl removeNodes (c :: cs) = c :: ds.foldl removeNodes cs := by
  induction ds generalizing cs with
  | nil => rfl
  | cons d ds ih =>
    simp only [List.mem_cons, not_or] at h
    simp only [List.foldl_cons, removeNodes, h.1, if_false]
    exact ih h.2 _

/-- The deletion loop of `clean` is a filter. -/
theorem foldl_removeNodes_filter (P : Bytes → Bool) (cs : List Node) :
    ((cs.filter (fun c => P c.seg.value)).map (·.seg.value)).foldl removeNodes cs =
      cs.filter (fun c => !(P c.seg.value)) := by
  induction cs with
  | nil => rfl
  | cons c cs ih =>
    by_cases hc : P c.seg.value = true
    · simp only [List.filter_cons, hc, if_true, List.map_cons, List.foldl_cons, removeNodes, Bool.not_true,
        Bool.false_eq_true, if_false]
      exact ih
    · have hc' : P c.seg.value = false := by simpa using hc
      simp only [List.filter_cons, hc', Bool.false_eq_true, if_false, Bool.not_false, if_true]
      rw [foldl_removeNodes_cons, ih]
      intro hm
      rw [List.mem_map] at hm
      obtain ⟨d, hd, e⟩ := hm
      have := (List.mem_filter.1 hd).2
      rw [e] at this
      exact hc this

theorem ent_pattern {c : Node} {e : Bytes × AMap Handler} (h : e ∈ ent c) : e.1 = c.pattern := by
  unfold ent at h
  split at h
  · cases h
  · simp at h; rw [h]

/-- Every entry of a subtree extends the pattern of its top node. -/
theorem liveN_prefix {ic : Interceptors} {c : Node} (hc : Node.All (Sh ic) c) {e : Bytes × AMap Handler}
    (h : e ∈ liveN c) : c.pattern <+: e.1 := by
  unfold liveN at h
  rcases List.mem_append.1 h with h | h
  · rw [ent_pattern h]; exact List.prefix_refl _
  · obtain ⟨x, hx, _, rfl⟩ := mem_liveL.1 h
    obtain ⟨r, _, hr⟩ := below_pattern ic c hc x hx
    exact ⟨r, hr.symm⟩

theorem prefix_append_iff {α} (a b c : List α) : a ++ b <+: a ++ c ↔ b <+: c :=
  List.prefix_append_right_inj a

theorem filter_eq_nil_of {α} {l : List α} {p : α → Bool} (h : ∀ x ∈ l, p x = false) : l.filter p = [] := by
  rw [List.filter_eq_nil_iff]; intro x hx; simp [h x hx]

theorem filter_eq_self_of {α} {l : List α} {p : α → Bool} (h : ∀ x ∈ l, p x = true) : l.filter p = l := by
  rw [List.filter_eq_self]; exact h

/-- The predicate `clean` filters entries with. -/
def keepE (full : Bytes) (e : Bytes × AMap Handler) : Bool := !(hasPrefix e.1 full)

theorem clean_sh (ic : Interceptors) :
    ∀ (n : Node), Node.All (Sh ic) n → ∀ (pre : Bytes) (n' : Node), n.clean pre = .ok n' →
      TopOk ic n n' ∧ n'.handlers = n.handlers ∧
        liveL n'.children = (liveL n.children).filter (keepE (n.pattern ++ pre)) := by
  intro n
  induction n using Node.rec (motive_2 := fun cs => ∀ pp, ShL ic pp cs → AllL (Sh ic) cs → ∀ pre cs1,
      cleanL cs pre = .ok cs1 → ShL ic pp cs1 ∧ AllL (Sh ic) cs1 ∧ cs1.map ckey = cs.map ckey ∧
        liveL (cs1.filter (fun c => !(hasPrefix c.seg.value pre))) = (liveL cs).filter (keepE (pp ++ pre))) with
  | mk s p mi hs idx cs ih =>
    intro hn pre n' h
    simp only [Node.clean] at h
    split at h
    · rename_i hpre
      simp only [Except.ok.injEq] at h
      subst h
      have hp : pre = [] := by simpa using hpre
      subst hp
      refine ⟨⟨⟨ShL_nil _ _, AllL_nil _⟩, rfl, rfl, fun _ => rfl⟩, rfl, ?_⟩
      simp only [Node.children_mk, liveL_nil, Node.pattern_mk, List.append_nil]
      symm
      apply filter_eq_nil_of
      intro e he
      obtain ⟨x, hx, _, rfl⟩ := mem_liveL.1 he
      obtain ⟨r, _, hr⟩ := below_pattern ic _ hn x hx
      simp only [keepE, Bool.not_eq_eq_eq_not, Bool.not_false, hasPrefix_iff]
      exact ⟨r, hr.symm⟩
    · simp only [bind, Except.bind, pure, Except.pure] at h
      split at h
      · cases h
      rename_i cs1 hcs1
      split at h
      · cases h
      rename_i idx' _
      simp only [Except.ok.injEq] at h
      subst h
      obtain ⟨h1, h2, h3, h4⟩ := ih p hn.1 hn.2 pre cs1 hcs1
      have hfl := foldl_removeNodes_filter (fun v => hasPrefix v pre) cs1
      have hsub : (cs1.filter (fun c => !(hasPrefix c.seg.value pre))).Sublist cs1 := List.filter_sublist
      refine ⟨⟨⟨?_, ?_⟩, rfl, rfl, ?_⟩, rfl, ?_⟩
      · show ShL ic p _
        simp only [Node.children_mk]
        rw [hfl]; exact ShL_sublist hsub h1
      · rw [hfl]; exact AllL_sublist hsub h2
      · intro e
        simp only [Node.children_mk] at e ⊢
        rw [e] at h3
        have : cs1 = [] := by simpa using h3
        rw [hfl, this]; rfl
      · simp only [Node.children_mk, Node.pattern_mk]
        rw [hfl]; exact h4
  | nil =>
    rename_i pp _ _ pre cs1 h
    simp only [cleanL, Except.ok.injEq] at h
    subst h
    exact ⟨ShL_nil _ _, AllL_nil _, rfl, by simp [liveL_nil]⟩
  | cons c cs ih1 ih2 =>
    rename_i pp hsh hall pre cs1 h
    obtain ⟨hco, hkeys, hsho⟩ := ShL_cons.1 hsh
    rw [AllL_cons_iff] at hall
    simp only [cleanL, bind, Except.bind, pure, Except.pure] at h
    -- entries of the subtree of `c` all extend `pp ++ c.seg.value`
    have hext : ∀ e ∈ liveN c, ∃ w, e.1 = pp ++ (c.seg.value ++ w) := by
      intro e he
      obtain ⟨w, hw⟩ := liveN_prefix hall.1 he
      exact ⟨w, by rw [← hw, hco.2.2.1, List.append_assoc]⟩
    by_cases hcond : c.seg.value.length < pre.length ∧ hasPrefix pre c.seg.value = true
    · simp only [hcond, and_self, if_true] at h
      split at h
      · cases h
      rename_i c' hc'
      split at h
      · cases h
      rename_i cs2 hcs2
      simp only [Except.ok.injEq] at h
      subst h
      obtain ⟨top, hhs, hlive⟩ := ih1 hall.1 _ c' hc'
      obtain ⟨g1, g2, g3, g4⟩ := ih2 pp hsho hall.2 pre cs2 hcs2
      have hck : ckey c' = ckey c := by unfold ckey; rw [top.seg]
      have hpre : pre = c.seg.value ++ pre.drop c.seg.value.length := by
        obtain ⟨t, ht⟩ := (hasPrefix_iff _ _).1 hcond.2
        rw [← ht]; simp
      have hnot : hasPrefix c'.seg.value pre = false := by
        rw [top.seg]
        cases hh : hasPrefix c.seg.value pre with
        | false => rfl
        | true =>
          have := ((hasPrefix_iff _ _).1 hh).length_le
          omega
      refine ⟨ShL_cons.2 ⟨ChildOk_congr top.seg top.pat top.leaf hco, ?_, g1⟩,
        AllL_cons_iff.2 ⟨top.all, g2⟩, by simp [hck, g3], ?_⟩
      · intro d hd
        have : ckey d ∈ cs2.map ckey := List.mem_map_of_mem hd
        rw [g3, List.mem_map] at this
        obtain ⟨d0, hd0, e⟩ := this
        rw [hck, ← e]; exact hkeys d0 hd0
      · simp only [List.filter_cons, hnot, Bool.not_false, if_true]
        rw [liveL_cons, liveL_cons, List.filter_append, g4]
        congr 1
        unfold liveN
        rw [List.filter_append, hlive, ent_congr top.pat hhs]
        have hfull : c.pattern ++ pre.drop c.seg.value.length = pp ++ pre := by
          rw [hco.2.2.1, List.append_assoc, ← hpre]
        rw [hfull]
        congr 1
        symm
        apply filter_eq_self_of
        intro e he
        simp only [keepE, Bool.not_eq_eq_eq_not, Bool.not_true]
        rw [ent_pattern he, hco.2.2.1]
        cases hh : hasPrefix (pp ++ c.seg.value) (pp ++ pre) with
        | false => rfl
        | true =>
          have := ((hasPrefix_iff _ _).1 hh).length_le
          simp at this; omega
    · simp only [hcond, if_false] at h
      split at h
      · cases h
      rename_i cs2 hcs2
      simp only [Except.ok.injEq] at h
      subst h
      obtain ⟨g1, g2, g3, g4⟩ := ih2 pp hsho hall.2 pre cs2 hcs2
      refine ⟨ShL_cons.2 ⟨hco, ?_, g1⟩, AllL_cons_iff.2 ⟨hall.1, g2⟩, by simp [g3], ?_⟩
      · intro d hd
        have : ckey d ∈ cs2.map ckey := List.mem_map_of_mem hd
        rw [g3, List.mem_map] at this
        obtain ⟨d0, hd0, e⟩ := this
        rw [← e]; exact hkeys d0 hd0
      · by_cases hdel : hasPrefix c.seg.value pre = true
        · -- the whole subtree goes
          simp only [List.filter_cons, hdel, Bool.not_true, Bool.false_eq_true, if_false]
          rw [liveL_cons, List.filter_append, g4]
          have : (liveN c).filter (keepE (pp ++ pre)) = [] := by
            apply filter_eq_nil_of
            intro e he
            obtain ⟨w, hw⟩ := hext e he
            simp only [keepE, Bool.not_eq_eq_eq_not, Bool.not_false, hasPrefix_iff, hw, prefix_append_iff]
            exact ((hasPrefix_iff _ _).1 hdel).trans (List.prefix_append _ _)
          rw [this]; rfl
        · -- the subtree stays as it is
          have hdel' : hasPrefix c.seg.value pre = false := by simpa using hdel
          simp only [List.filter_cons, hdel', Bool.not_false, if_true]
          rw [liveL_cons, liveL_cons, List.filter_append, g4]
          congr 1
          symm
          apply filter_eq_self_of
          intro e he
          obtain ⟨w, hw⟩ := hext e he
          simp only [keepE, Bool.not_eq_eq_eq_not, Bool.not_true]
          cases hh : hasPrefix e.1 (pp ++ pre) with
          | false => rfl
          | true =>
            exfalso
            rw [hasPrefix_iff, hw, prefix_append_iff] at hh
            have p1 : c.seg.value <+: c.seg.value ++ w := List.prefix_append _ _
            by_cases hle : pre.length ≤ c.seg.value.length
            · exact hdel ((hasPrefix_iff _ _).2 (List.prefix_of_prefix_length_le hh p1 hle))
            · exact hcond ⟨by omega, (hasPrefix_iff _ _).2 (List.prefix_of_prefix_length_le p1 hh (by omega))⟩

end Mux.P11
