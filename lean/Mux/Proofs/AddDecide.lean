/-
  Mux.Proofs.AddDecide — the decision logic of the validation in `Tree.add`, at the level of the
  whole operation (used by `Mux/Properties/C17.lean`).
-/
import Mux.Proofs.WfOps
namespace Mux.P9
open Mux

theorem effMethods_of_not_nodup {methods : List Bytes} (h : ¬ methods.Nodup) : effMethods methods = methods := by
  apply effMethods_of_ne
  intro e; subst e; exact h List.nodup_nil

/-- A method occurring twice in the list: never accepted, the tree is unchanged. -/
theorem add_dup_list (t : Tree) (p : Bytes) (h : Handler) (ms : List Nat) (methods : List Bytes)
    (hdup : ¬ methods.Nodup) :
    (∃ e, t.add p h ms methods = .error e) ∧ t.step (.add p h ms methods) = t := by
  cases he : t.add p h ms methods with
  | ok t' =>
    obtain ⟨_, _, _, _, _, h4⟩ := add_ok_stages he
    rw [effMethods_of_not_nodup hdup] at h4
    exact absurd h4 (checkMethods_dup t p methods [] hdup)
  | error e => exact ⟨⟨e, rfl⟩, by simp only [Tree.step, he]⟩

/-- …with the error `dupMethod` when the pattern is acceptable and no entry is reserved or unknown. -/
theorem add_dup_list_class (t : Tree) (p : Bytes) (h : Handler) (ms : List Nat) (methods : List Bytes)
    (hdup : ¬ methods.Nodup) (hgood : ∀ m ∈ methods, ¬ BadMethod t.hasTrace m)
    {a : Option Bool} (hamb : t.root.checkAmb t.ic p false = .ok a) (ha : a ≠ some true)
    {segs : List Seg} (hsp : split t.ic p = .ok segs) :
    t.add p h ms methods = .error .dupMethod := by
  have heff := effMethods_of_not_nodup hdup
  cases hm : t.checkMethods p methods [] with
  | ok u => exact absurd hm (checkMethods_dup t p methods [] hdup)
  | error e =>
    have := checkMethods_error_dup t p methods [] e hgood hm
    subst this
    rw [add_eq, hamb, heff]
    cases a with
    | none => simp only [hsp, hm]
    | some b =>
      cases b with
      | true => exact absurd rfl ha
      | false => simp only [hsp, hm]

/-- The pattern is live with method `m` (the node `findPath` finds for it has `m`) and `m` is in the
list: never accepted, the tree is unchanged. -/
theorem add_dup_live (t : Tree) (p : Bytes) (h : Handler) (ms : List Nat) (methods : List Bytes)
    (path : List Nat) (n : Node) (m : Bytes)
    (hpath : t.root.findPath p = some path) (hn : t.root.getAt path = some n)
    (hm : m ∈ methods) (hlive : n.handlers.contains m = true) :
    (∃ e, t.add p h ms methods = .error e) ∧ t.step (.add p h ms methods) = t := by
  have hne : methods ≠ [] := by intro e; subst e; cases hm
  have hat : t.hasMethodAt p m = true := by simp [Tree.hasMethodAt, hpath, hn, hlive]
  cases he : t.add p h ms methods with
  | ok t' =>
    obtain ⟨_, _, _, _, _, h4⟩ := add_ok_stages he
    rw [effMethods_of_ne hne] at h4
    exact absurd h4 (checkMethods_live t p methods [] hm hat)
  | error e => exact ⟨⟨e, rfl⟩, by simp only [Tree.step, he]⟩

/-- …with the error `dupMethod` when the pattern is acceptable and no entry is reserved or unknown. -/
theorem add_dup_live_class (t : Tree) (p : Bytes) (h : Handler) (ms : List Nat) (methods : List Bytes)
    (path : List Nat) (n : Node) (m : Bytes)
    (hpath : t.root.findPath p = some path) (hn : t.root.getAt path = some n)
    (hm : m ∈ methods) (hlive : n.handlers.contains m = true)
    (hgood : ∀ m ∈ methods, ¬ BadMethod t.hasTrace m)
    {a : Option Bool} (hamb : t.root.checkAmb t.ic p false = .ok a) (ha : a ≠ some true)
    {segs : List Seg} (hsp : split t.ic p = .ok segs) :
    t.add p h ms methods = .error .dupMethod := by
  have hne : methods ≠ [] := by intro e; subst e; cases hm
  have hat : t.hasMethodAt p m = true := by simp [Tree.hasMethodAt, hpath, hn, hlive]
  cases hc : t.checkMethods p methods [] with
  | ok u => exact absurd hc (checkMethods_live t p methods [] hm hat)
  | error e =>
    have := checkMethods_error_dup t p methods [] e hgood hc
    subst this
    rw [add_eq, hamb, effMethods_of_ne hne]
    cases a with
    | none => simp only [hsp, hc]
    | some b =>
      cases b with
      | true => exact absurd rfl ha
      | false => simp only [hsp, hc]

/-- **No false `ambiguous`.** If `Tree.add` answers `ambiguous`, the ambiguity check found a node:
there is a chain of existing nodes from the root to a node WITH HANDLERS such that the new pattern
text is consumed step by step along the chain — each step either because the node's text is a
literal prefix of the remaining pattern, or because the node's segment `isAmbiguous` with the first
segment of the remaining pattern (same kind, rule, suffix, endpoint; different name or `-` flag), or
(D33 repair, `AmbPath.pre`) because the node is the upper half of a split parameter node: the same
token as that first segment up to the name or the `-` flag, its literal suffix a proper prefix of the
segment's suffix (`isAmbiguousPrefix`), the walk going on below it with the rest of that suffix —
and at least one step is of the second or third kind. -/
theorem add_ambiguous_sound (t : Tree) (p : Bytes) (h : Handler) (ms : List Nat) (methods : List Bytes)
    (he : t.add p h ms methods = .error .ambiguous) :
    t.root.checkAmb t.ic p false = .ok (some true) ∧
      ∃ (m : Node) (steps : List (Seg × Bool)),
        AmbPath t.ic t.root p m steps ∧ Chain t.root (steps.map (·.1)) m ∧ m.handlers ≠ [] ∧
        steps.any (·.2) = true := by
  have hamb : t.root.checkAmb t.ic p false = .ok (some true) := by
    rw [add_eq] at he
    cases hc : t.root.checkAmb t.ic p false with
    | error e =>
      rw [hc] at he
      cases he
      have := checkAmb_error _ _ _ _ _ hc
      simp [SynErr] at this
    | ok a =>
      rw [hc] at he
      have key : (match split t.ic p with
          | .error e => .error e
          | .ok _ => match t.checkMethods p (effMethods methods) [] with
            | .error e => .error e
            | .ok _ => addTail t p h ms (effMethods methods)) ≠ Except.error Err.ambiguous := by
        intro he
        cases hs : split t.ic p with
        | error e =>
          rw [hs] at he; cases he
          have := split_error hs
          simp [SynErr] at this
        | ok segs =>
          rw [hs] at he
          simp only [] at he
          cases hm : t.checkMethods p (effMethods methods) [] with
          | error e =>
            rw [hm] at he; cases he
            have := checkMethods_error t p _ _ _ hm
            simp at this
          | ok u =>
            rw [hm] at he
            simp only [] at he
            rcases addTail_error he with (h1 | ⟨k, h1⟩) | h1
            · simp [SynErr] at h1
            · cases h1
            · simp [MethErr] at h1
      cases a with
      | none => exact absurd he key
      | some b =>
        cases b with
        | true => rfl
        | false => exact absurd he key
  refine ⟨hamb, ?_⟩
  obtain ⟨m, steps, hp, hb⟩ := checkAmb_sound t.ic t.root p false true hamb
  exact ⟨m, steps, hp, hp.chain.1, hp.chain.2, by simpa using hb.symm⟩


end Mux.P9
