/-
  Mux.Proofs.Render — `methodBit`, `renderMethods`, `sortBytes`: masks of method sets and their rendering.
-/
import Mux.Model.Tree
namespace Mux

/-! ## Concrete facts about the table -/

theorem methodsTable_unfold :
    methodsTable = [mGET, mPOST, mDELETE, mPUT, mPATCH, mCONNECT, mTRACE, mHEAD, mOPTIONS] := rfl

theorem methodsTable_length : methodsTable.length = 9 := rfl

theorem methodsTable_nodup : methodsTable.Nodup := by decide +kernel

theorem methodBit_notAllowed : methodBit mNotAllowed = 0 := by decide +kernel

theorem idxOf?_eq_none_of_not_mem {l : List Bytes} {m : Bytes} (h : m ∉ l) : l.idxOf? m = none := by
  simpa using h

theorem methodBit_of_not_mem {m : Bytes} (h : m ∉ methodsTable) : methodBit m = 0 := by
  unfold methodBit
  rw [idxOf?_eq_none_of_not_mem h]

theorem methodBit_table :
    methodBit mGET = 1 ∧ methodBit mPOST = 2 ∧ methodBit mDELETE = 4 ∧ methodBit mPUT = 8 ∧
    methodBit mPATCH = 16 ∧ methodBit mCONNECT = 32 ∧ methodBit mTRACE = 64 ∧ methodBit mHEAD = 128 ∧
    methodBit mOPTIONS = 256 := by decide +kernel

theorem idxOf?_table :
    methodsTable.idxOf? mGET = some 0 ∧ methodsTable.idxOf? mPOST = some 1 ∧
    methodsTable.idxOf? mDELETE = some 2 ∧ methodsTable.idxOf? mPUT = some 3 ∧
    methodsTable.idxOf? mPATCH = some 4 ∧ methodsTable.idxOf? mCONNECT = some 5 ∧
    methodsTable.idxOf? mTRACE = some 6 ∧ methodsTable.idxOf? mHEAD = some 7 ∧
    methodsTable.idxOf? mOPTIONS = some 8 := by decide +kernel

theorem mem_methodsTable_iff {m : Bytes} :
    m ∈ methodsTable ↔ m = mGET ∨ m = mPOST ∨ m = mDELETE ∨ m = mPUT ∨ m = mPATCH ∨ m = mCONNECT ∨
      m = mTRACE ∨ m = mHEAD ∨ m = mOPTIONS := by
  simp [methodsTable_unfold]

/-! ## The mask of a set of methods -/

theorem sum_map_filter {α} (l : List α) (p : α → Bool) (f : α → Nat) :
    ((l.filter p).map f).sum = (l.map (fun x => if p x then f x else 0)).sum := by
  induction l with
  | nil => rfl
  | cons x xs ih =>
    by_cases hx : p x <;> simp [hx, ih]

/-- Nine guarded distinct powers of two: bit `j` of the sum is the `j`-th guard. -/
theorem testBit_guards : ∀ b0 b1 b2 b3 b4 b5 b6 b7 b8 : Bool,
    let s := (if b0 then 1 else 0) + ((if b1 then 2 else 0) + ((if b2 then 4 else 0) + ((if b3 then 8 else 0) +
      ((if b4 then 16 else 0) + ((if b5 then 32 else 0) + ((if b6 then 64 else 0) + ((if b7 then 128 else 0) +
      ((if b8 then 256 else 0) + 0))))))))
    Nat.testBit s 0 = b0 ∧ Nat.testBit s 1 = b1 ∧ Nat.testBit s 2 = b2 ∧ Nat.testBit s 3 = b3 ∧
    Nat.testBit s 4 = b4 ∧ Nat.testBit s 5 = b5 ∧ Nat.testBit s 6 = b6 ∧ Nat.testBit s 7 = b7 ∧
    Nat.testBit s 8 = b8 := by decide +kernel

theorem sum_filter_table (p : Bytes → Bool) :
    ((methodsTable.filter p).map methodBit).sum =
      (if p mGET then 1 else 0) + ((if p mPOST then 2 else 0) + ((if p mDELETE then 4 else 0) +
      ((if p mPUT then 8 else 0) + ((if p mPATCH then 16 else 0) + ((if p mCONNECT then 32 else 0) +
      ((if p mTRACE then 64 else 0) + ((if p mHEAD then 128 else 0) + ((if p mOPTIONS then 256 else 0) + 0)))))))) := by
  obtain ⟨h0, h1, h2, h3, h4, h5, h6, h7, h8⟩ := methodBit_table
  rw [sum_map_filter, methodsTable_unfold]
  simp only [List.map_cons, List.map_nil, List.sum_cons, List.sum_nil, h0, h1, h2, h3, h4, h5, h6, h7, h8]

theorem testBit_sum_filter_table (p : Bytes → Bool) (m : Bytes) (hm : m ∈ methodsTable) :
    (((methodsTable.filter p).map methodBit).sum).testBit ((methodsTable.idxOf? m).getD 0) = p m := by
  obtain ⟨i0, i1, i2, i3, i4, i5, i6, i7, i8⟩ := idxOf?_table
  have g := testBit_guards (p mGET) (p mPOST) (p mDELETE) (p mPUT) (p mPATCH) (p mCONNECT) (p mTRACE)
    (p mHEAD) (p mOPTIONS)
  simp only at g
  obtain ⟨g0, g1, g2, g3, g4, g5, g6, g7, g8⟩ := g
  rw [sum_filter_table]
  rcases mem_methodsTable_iff.1 hm with h | h | h | h | h | h | h | h | h <;> subst h
  · rw [i0]; exact g0
  · rw [i1]; exact g1
  · rw [i2]; exact g2
  · rw [i3]; exact g3
  · rw [i4]; exact g4
  · rw [i5]; exact g5
  · rw [i6]; exact g6
  · rw [i7]; exact g7
  · rw [i8]; exact g8

theorem perm_filter_table (ks : List Bytes) (hnd : ks.Nodup) (hsub : ∀ k ∈ ks, k ∈ methodsTable) :
    ks.Perm (methodsTable.filter (fun m => decide (m ∈ ks))) := by
  rw [List.perm_ext_iff_of_nodup hnd (methodsTable_nodup.sublist List.filter_sublist)]
  intro a
  simp only [List.mem_filter, decide_eq_true_eq]
  exact ⟨fun h => ⟨hsub a h, h⟩, fun h => h.2⟩

/-- core: the mask of a duplicate-free list of known methods has exactly those bits -/
theorem testBit_sum_methodBit (ks : List Bytes) (hnd : ks.Nodup) (hsub : ∀ k ∈ ks, k ∈ methodsTable)
    (m : Bytes) (hm : m ∈ methodsTable) :
    ((ks.map methodBit).sum).testBit ((methodsTable.idxOf? m).getD 0) = decide (m ∈ ks) := by
  rw [((perm_filter_table ks hnd hsub).map methodBit).sum_nat]
  exact testBit_sum_filter_table (fun m => decide (m ∈ ks)) m hm

example : ([mPUT, mGET] : List Bytes).Nodup ∧ ∀ k ∈ [mPUT, mGET], k ∈ methodsTable := by decide +kernel

theorem renderMethods_sum (ks : List Bytes) (hnd : ks.Nodup) (hsub : ∀ k ∈ ks, k ∈ methodsTable) :
    renderMethods ((ks.map methodBit).sum) = sortBytes (methodsTable.filter (fun m => decide (m ∈ ks))) := by
  unfold renderMethods
  congr 1
  apply List.filter_congr
  intro m hm
  exact testBit_sum_methodBit ks hnd hsub m hm

/-! ## `sortBytes` -/

theorem insertSorted_perm (m : Bytes) (l : List Bytes) : (insertSorted m l).Perm (m :: l) := by
  induction l with
  | nil => exact .refl _
  | cons x xs ih =>
    unfold insertSorted
    split
    · exact .refl _
    · exact (List.Perm.cons x ih).trans (List.Perm.swap m x xs)

theorem sortBytes_cons (x : Bytes) (xs : List Bytes) : sortBytes (x :: xs) = insertSorted x (sortBytes xs) := rfl

theorem sortBytes_perm (l : List Bytes) : (sortBytes l).Perm l := by
  induction l with
  | nil => exact .refl _
  | cons x xs ih =>
    rw [sortBytes_cons]
    exact (insertSorted_perm x _).trans (List.Perm.cons x ih)

theorem mem_sortBytes {l : List Bytes} {m : Bytes} : m ∈ sortBytes l ↔ m ∈ l :=
  (sortBytes_perm l).mem_iff

/-- `bytesLt` is transitive on the table. -/
theorem bytesLt_trans_table : ∀ a ∈ methodsTable, ∀ b ∈ methodsTable, ∀ c ∈ methodsTable,
    bytesLt a b = true → bytesLt b c = true → bytesLt a c = true := by decide +kernel

/-- `bytesLt` is total on distinct elements of the table. -/
theorem bytesLt_total_table : ∀ a ∈ methodsTable, ∀ b ∈ methodsTable,
    a ≠ b → bytesLt a b ≠ true → bytesLt b a = true := by decide +kernel

theorem insertSorted_sorted (m : Bytes) (l : List Bytes) (hm : m ∈ methodsTable)
    (hsub : ∀ x ∈ l, x ∈ methodsTable) (hnot : m ∉ l)
    (hs : l.Pairwise (fun a b => bytesLt a b = true)) :
    (insertSorted m l).Pairwise (fun a b => bytesLt a b = true) := by
  induction l with
  | nil => simp [insertSorted]
  | cons x xs ih =>
    have hx : x ∈ methodsTable := hsub x (List.mem_cons_self ..)
    have hsub' : ∀ y ∈ xs, y ∈ methodsTable := fun y hy => hsub y (List.mem_cons_of_mem _ hy)
    rw [List.pairwise_cons] at hs
    unfold insertSorted
    split
    next hlt =>
      rw [List.pairwise_cons]
      refine ⟨?_, List.pairwise_cons.2 hs⟩
      intro y hy
      rcases List.mem_cons.1 hy with rfl | hy
      · exact hlt
      · exact bytesLt_trans_table m hm x hx y (hsub' y hy) hlt (hs.1 y hy)
    next hlt =>
      rw [List.pairwise_cons]
      refine ⟨?_, ih hsub' (fun h => hnot (List.mem_cons_of_mem _ h)) hs.2⟩
      intro y hy
      rcases List.mem_cons.1 ((insertSorted_perm m xs).mem_iff.1 hy) with rfl | hy
      · exact bytesLt_total_table y hm x hx (fun h => hnot (h ▸ List.mem_cons_self ..)) hlt
      · exact hs.1 y hy

theorem sortBytes_sorted (l : List Bytes) (hnd : l.Nodup) (hsub : ∀ x ∈ l, x ∈ methodsTable) :
    (sortBytes l).Pairwise (fun a b => bytesLt a b = true) := by
  induction l with
  | nil => exact List.Pairwise.nil
  | cons x xs ih =>
    rw [sortBytes_cons]
    rw [List.nodup_cons] at hnd
    have hsub' : ∀ y ∈ xs, y ∈ methodsTable := fun y hy => hsub y (List.mem_cons_of_mem _ hy)
    exact insertSorted_sorted x _ (hsub x (List.mem_cons_self ..))
      (fun y hy => hsub' y (mem_sortBytes.1 hy)) (fun h => hnd.1 (mem_sortBytes.1 h)) (ih hnd.2 hsub')

/-! ## `renderMethods` for every mask -/

theorem mem_renderMethods (i : Nat) (m : Bytes) :
    m ∈ renderMethods i ↔ m ∈ methodsTable ∧ i.testBit ((methodsTable.idxOf? m).getD 0) = true := by
  unfold renderMethods
  rw [mem_sortBytes, List.mem_filter]

theorem renderMethods_subset (i : Nat) : ∀ m ∈ renderMethods i, m ∈ methodsTable :=
  fun m hm => ((mem_renderMethods i m).1 hm).1

theorem renderMethods_nodup (i : Nat) : (renderMethods i).Nodup := by
  unfold renderMethods
  exact (sortBytes_perm _).nodup_iff.2 (methodsTable_nodup.sublist List.filter_sublist)

theorem renderMethods_sorted (i : Nat) : (renderMethods i).Pairwise (fun a b => bytesLt a b = true) := by
  unfold renderMethods
  exact sortBytes_sorted _ (methodsTable_nodup.sublist List.filter_sublist)
    (fun x hx => (List.mem_filter.1 hx).1)

theorem mem_renderMethods_sum (ks : List Bytes) (hnd : ks.Nodup) (hsub : ∀ k ∈ ks, k ∈ methodsTable) (m : Bytes) :
    m ∈ renderMethods ((ks.map methodBit).sum) ↔ m ∈ ks := by
  rw [renderMethods_sum ks hnd hsub, mem_sortBytes, List.mem_filter]
  simp only [decide_eq_true_eq]
  exact ⟨fun h => h.2, fun h => ⟨hsub m h, h⟩⟩

/-! ## Injectivity on masks below `2^9` -/

theorem table_index_surj : ∀ k < 9, ∃ m ∈ methodsTable, methodsTable.idxOf? m = some k := by
  decide +kernel

/-- injective on masks below 2^9 -/
theorem renderMethods_injective (i j : Nat) (hi : i < 2 ^ methodsTable.length) (hj : j < 2 ^ methodsTable.length)
    (h : renderMethods i = renderMethods j) : i = j := by
  rw [methodsTable_length] at hi hj
  apply Nat.eq_of_testBit_eq
  intro k
  by_cases hk : k < 9
  · obtain ⟨m, hm, hidx⟩ := table_index_surj k hk
    have h1 := mem_renderMethods i m
    have h2 := mem_renderMethods j m
    rw [h, h2, hidx] at h1
    simp only [Option.getD_some, hm, true_and] at h1
    cases hb : i.testBit k <;> cases hc : j.testBit k <;> simp_all
  · have hle : 2 ^ 9 ≤ 2 ^ k := Nat.pow_le_pow_right (by omega) (by omega)
    rw [Nat.testBit_lt_two_pow (Nat.lt_of_lt_of_le hi hle), Nat.testBit_lt_two_pow (Nat.lt_of_lt_of_le hj hle)]

example : (5 : Nat) < 2 ^ methodsTable.length ∧ renderMethods 5 = renderMethods 5 := ⟨by decide, rfl⟩

end Mux
