/-
  Mux.Proofs.UrlInverse — URL building inverts matching, at the level of chains: building from the
  parameters captured along a chain of re-parsable segments with pairwise distinct names and without a
  `-` parameter reproduces the instantiated chain; the chain from a node to one of its descendants is
  unique when patterns are; values captured by dispatch are valid for named and interceptor segments.
-/
import Mux.Proofs.UrlStrict
import Mux.Proofs.UrlToks
import Mux.Proofs.UrlBridge
namespace Mux.P13
open Mux Mux.P9

/-! ## Lookups -/

theorem get?_mid {V : Type} {m post : AMap V} {k : Bytes} {v : V} (h : k ∉ m.keys) :
    (m ++ (k, v) :: post).get? k = some v := by
  rw [AMap.get?_append_fresh h]
  simp [AMap.get?]

/-! ## `Seg.inst` on re-parsable segments -/

theorem newSegment_endpoint {ic : Interceptors} {v : Bytes} {s : Seg} (h : newSegment ic v = .ok s)
    (he : s.endpoint = true) : lastByte v = endByte := by
  have hlen := newSegment_len h
  rw [newSegment_closed, if_neg (by omega)] at h
  have named : ∀ st en hi, (mkNamed v st en hi).endpoint = true → lastByte v = endByte := by
    intro st en hi h'; simpa [mkNamed] using h'
  have ruled : ∀ st en sp, finishRuled ic v st en sp = .ok s → lastByte v = endByte := by
    intro st en sp h'
    unfold finishRuled at h'
    simp only [] at h'
    split at h'
    · cases h'; simpa using he
    · split at h'
      · cases h'
      · split at h'
        · cases h'
        · cases h'; cases he
  split at h
  · rename_i st en _ _
    split at h
    · split at h
      · cases h
      · cases h; exact named _ _ _ he
    · split at h
      · cases h
      split at h
      · cases h; exact named _ _ _ he
      split at h
      · cases h; exact named _ _ _ he
      split at h
      · cases h
      · exact ruled _ _ _ h
  · cases h; cases he

theorem tok_last_ne_end {body suf : Bytes} (hs : NoBrace suf) (hne : suf ≠ []) :
    lastByte (tok body suf) ≠ endByte := by
  have h1 : decide (lastByte (tok body suf) = endByte) = false :=
    lastByte_ne_end (tok_no_end_after hs.2) (by
      rw [tok_length]
      have : 0 < suf.length := List.length_pos_iff.2 hne
      omega)
  simpa using h1

/-- An endpoint segment of a well-formed pattern has no suffix. -/
theorem segOk_suffix_nil_of_endpoint {ic : Interceptors} {s : Seg} (h : SegOk ic s) (he : s.endpoint = true) :
    s.suffix = [] := by
  have hlast := newSegment_endpoint h.seg he
  rcases h.wf with hn | ⟨body, suf, hv, hb, hs⟩
  · rw [h.str_of_noBrace hn.1]
  · have hseg := h.seg
    rw [hv] at hseg hlast
    obtain ⟨_, hsuf, _, _⟩ := newSegment_tok hb hs hseg
    rw [hsuf]
    apply Classical.not_not.1
    intro hne
    exact tok_last_ne_end hs hne hlast

/-- On such a segment, instantiating a parameter is "value followed by the suffix". -/
theorem segOk_inst_eq {ic : Interceptors} {s : Seg} (h : SegOk ic s) (hk : s.kind ≠ .str) (v : Bytes) :
    s.inst v = v ++ s.suffix := by
  unfold Seg.inst
  cases hkind : s.kind with
  | str => exact absurd hkind hk
  | rx => rfl
  | named =>
    simp only []
    split
    · rename_i he; rw [segOk_suffix_nil_of_endpoint h he]; simp
    · rfl
  | icpt =>
    simp only []
    split
    · rename_i he; rw [segOk_suffix_nil_of_endpoint h he]; simp
    · rfl

/-! ## Building from the captured parameters -/

theorem chainNames_cons_str {s : Seg} {segs : List Seg} (hk : s.kind = .str) :
    chainNames (s :: segs) = chainNames segs := by simp [chainNames, hk]

theorem chainNames_cons_param {s : Seg} {segs : List Seg} (hk : s.kind ≠ .str) :
    chainNames (s :: segs) = s.name :: chainNames segs := by simp [chainNames, hk]

theorem mem_chainNames {s : Seg} {segs : List Seg} (hs : s ∈ segs) (hk : s.kind ≠ .str) : s.name ∈ chainNames segs := by
  unfold chainNames
  exact List.mem_map_of_mem (List.mem_filter.2 ⟨hs, by simpa using hk⟩)

/-- The hypotheses on a chain of `(segment, captured value)` pairs: every segment re-parses from its
own well-formed text, parameter names are pairwise distinct, no parameter is ignored (`-`). -/
structure ChainOk (ic : Interceptors) (chain : List (Seg × Bytes)) : Prop where
  segOk : ∀ sv ∈ chain, SegOk ic sv.1
  names : (chainNames (chain.map (·.1))).Nodup
  noIgnore : ∀ sv ∈ chain, sv.1.kind ≠ .str → sv.1.ignoreName = false

theorem ChainOk.tail {ic : Interceptors} {sv : Seg × Bytes} {chain : List (Seg × Bytes)}
    (h : ChainOk ic (sv :: chain)) : ChainOk ic chain := by
  refine ⟨fun x hx => h.segOk x (by simp [hx]), ?_, fun x hx => h.noIgnore x (by simp [hx])⟩
  have := h.names
  simp only [List.map_cons] at this
  by_cases hk : sv.1.kind = .str
  · rwa [chainNames_cons_str hk] at this
  · rw [chainNames_cons_param hk] at this
    exact (List.nodup_cons.1 this).2

/-- **Building inverts instantiation.** From the parameters captured along the chain (behind any
parameters `pre` whose keys are not names of the chain), the non-strict loop over the chain's segments
writes exactly the instantiated chain. -/
theorem urlLoop_captures {ic : Interceptors} (chain : List (Seg × Bytes)) (hc : ChainOk ic chain) :
    ∀ pre : AMap Bytes, (∀ sv ∈ chain, sv.1.kind ≠ .str → sv.1.name ∉ pre.keys) →
      urlLoop (pre ++ captures chain) (chain.map (·.1)) = .ok (instChain chain) := by
  induction chain with
  | nil => intro pre _; rfl
  | cons sv chain ih =>
    intro pre hpre
    obtain ⟨s, v⟩ := sv
    have ih' := ih hc.tail
    simp only [List.map_cons, urlLoop, instChain, bind, Except.bind, pure, Except.pure]
    by_cases hk : s.kind = .str
    · have hcap : captures ((s, v) :: chain) = captures chain := by simp [captures, hk]
      rw [hcap, ih' pre (fun x hx => hpre x (by simp [hx]))]
      simp [hk, Seg.inst]
    · have hig : s.ignoreName = false := hc.noIgnore (s, v) (by simp) hk
      have hcap : captures ((s, v) :: chain) = (s.name, v) :: captures chain := by simp [captures, hk, hig]
      have hfresh : s.name ∉ pre.keys := hpre (s, v) (by simp) hk
      rw [hcap, get?_mid hfresh]
      simp only [hk, if_false]
      have e : pre ++ (s.name, v) :: captures chain = (pre ++ [(s.name, v)]) ++ captures chain := by simp
      rw [e, ih' (pre ++ [(s.name, v)]) ?_]
      · simp [segOk_inst_eq (hc.segOk (s, v) (by simp)) hk v]
      · intro x hx hxk hmem
        rw [AMap.keys_append] at hmem
        rcases List.mem_append.1 hmem with hmem | hmem
        · exact hpre x (by simp [hx]) hxk hmem
        · simp only [AMap.keys, List.map_cons, List.map_nil, List.mem_singleton] at hmem
          have hn := hc.names
          simp only [List.map_cons] at hn
          rw [chainNames_cons_param hk] at hn
          exact (List.nodup_cons.1 hn).1 (hmem ▸ mem_chainNames (List.mem_map_of_mem (f := (·.1)) hx) hxk)

theorem urlLoop_captures' {ic : Interceptors} (chain : List (Seg × Bytes)) (hc : ChainOk ic chain) :
    urlLoop (captures chain) (chain.map (·.1)) = .ok (instChain chain) := by
  have := urlLoop_captures chain hc [] (by simp [AMap.keys])
  simpa using this

/-- Every parameter of the chain finds its own captured value. -/
theorem captures_get? {ic : Interceptors} (chain : List (Seg × Bytes)) (hc : ChainOk ic chain) :
    ∀ pre : AMap Bytes, (∀ sv ∈ chain, sv.1.kind ≠ .str → sv.1.name ∉ pre.keys) →
      ∀ sv ∈ chain, sv.1.kind ≠ .str → (pre ++ captures chain).get? sv.1.name = some sv.2 := by
  induction chain with
  | nil => intro _ _ sv hsv; cases hsv
  | cons sv0 chain ih =>
    intro pre hpre sv hsv hk
    obtain ⟨s, v⟩ := sv0
    have ih' := ih hc.tail
    by_cases hk0 : s.kind = .str
    · have hcap : captures ((s, v) :: chain) = captures chain := by simp [captures, hk0]
      rw [hcap]
      rcases List.mem_cons.1 hsv with rfl | hsv
      · exact absurd hk0 hk
      · exact ih' pre (fun x hx => hpre x (by simp [hx])) sv hsv hk
    · have hig : s.ignoreName = false := hc.noIgnore (s, v) (by simp) hk0
      have hcap : captures ((s, v) :: chain) = (s.name, v) :: captures chain := by simp [captures, hk0, hig]
      have hfresh : s.name ∉ pre.keys := hpre (s, v) (by simp) hk0
      rw [hcap]
      rcases List.mem_cons.1 hsv with rfl | hsv
      · exact get?_mid hfresh
      · have e : pre ++ (s.name, v) :: captures chain = (pre ++ [(s.name, v)]) ++ captures chain := by simp
        rw [e]
        refine ih' (pre ++ [(s.name, v)]) ?_ sv hsv hk
        intro x hx hxk hmem
        rw [AMap.keys_append] at hmem
        rcases List.mem_append.1 hmem with hmem | hmem
        · exact hpre x (by simp [hx]) hxk hmem
        · simp only [AMap.keys, List.map_cons, List.map_nil, List.mem_singleton] at hmem
          have hn := hc.names
          simp only [List.map_cons] at hn
          rw [chainNames_cons_param hk0] at hn
          exact (List.nodup_cons.1 hn).1 (hmem ▸ mem_chainNames (List.mem_map_of_mem (f := (·.1)) hx) hxk)

/-! ## Values captured by dispatch are valid -/

/-- A value that satisfies the constraint of a named or interceptor segment passes `Segment.Valid`;
for a regexp segment `Valid` asks more than the denotation (that the leftmost-first match of
`value ++ suffix` captures the whole value, `C10_valid_rx_iff_match`), so it is a hypothesis here. -/
theorem valid_of_satisfies {env : Env} {ic : Interceptors} {s : Seg} {v : Bytes} (hs : s.Satisfies env ic v)
    (hrx : s.kind = .rx → s.valid env ic v = some true) : s.valid env ic v = some true := by
  cases hk : s.kind with
  | rx => exact hrx hk
  | str => exact Seg.valid_str env ic s v hk
  | named => exact Seg.valid_named env ic s v hk
  | icpt =>
    rw [Seg.valid_icpt env ic s v hk]
    simp only [Seg.Satisfies, hk] at hs
    rw [hs]

theorem allValid_captures {env : Env} {ic : Interceptors} (chain : List (Seg × Bytes)) (hc : ChainOk ic chain)
    (hsat : ∀ sv ∈ chain, sv.1.Satisfies env ic sv.2)
    (hrx : ∀ sv ∈ chain, sv.1.kind = .rx → sv.1.valid env ic sv.2 = some true) :
    AllValid env ic (captures chain) (chain.map (·.1)) := by
  intro s hs hk
  obtain ⟨sv, hsv, rfl⟩ := List.mem_map.1 hs
  have := captures_get? chain hc [] (by simp [AMap.keys]) sv hsv hk
  simp only [List.nil_append] at this
  exact ⟨sv.2, this, valid_of_satisfies (hsat sv hsv) (hrx sv hsv)⟩

/-! ## Chains: segments satisfy what all nodes satisfy; the chain to a node is unique -/

theorem chain_mem_nodes' {n m : Node} {segs : List Seg} (h : Chain n segs m) : m ∈ n.nodes := by
  induction h with
  | nil n => rw [Node.nodes_eq]; exact List.mem_cons_self
  | cons hc _ ih => rw [Node.nodes_eq]; exact List.mem_cons_of_mem _ (Mux.P11.mem_nodesL.2 ⟨_, hc, ih⟩)

theorem chain_mem_below' {n m : Node} {segs : List Seg} (h : Chain n segs m) (hne : segs ≠ []) :
    m ∈ nodesL n.children := by
  cases h with
  | nil => exact absurd rfl hne
  | cons hc hrest => exact Mux.P11.mem_nodesL.2 ⟨_, hc, chain_mem_nodes' hrest⟩

theorem chain_forall {P : Node → Prop} {n m : Node} {segs : List Seg} (hc : Chain n segs m) (h : AllL P n.children) :
    ∀ s ∈ segs, ∃ c, P c ∧ c.seg = s := by
  induction hc with
  | nil => intro s hs; cases hs
  | @cons n c m segs hmem _ ih =>
    intro s hs
    have hall := AllL_mem h hmem
    rcases List.mem_cons.1 hs with rfl | hs
    · exact ⟨c, Node.All_self hall, rfl⟩
    · exact ih (Node.All_children hall) s hs

/-- Two different children have disjoint subtrees when no node occurs twice below the parent. -/
theorem nodes_disjoint {cs : List Node} (hnd : (nodesL cs).Nodup) {c c' x : Node} (hc : c ∈ cs) (hc' : c' ∈ cs)
    (hne : c ≠ c') (hx : x ∈ c.nodes) (hx' : x ∈ c'.nodes) : False := by
  induction cs with
  | nil => cases hc
  | cons d cs ih =>
    simp only [nodesL] at hnd
    obtain ⟨_, h2, h3⟩ := List.nodup_append.1 hnd
    rcases List.mem_cons.1 hc with e1 | m1 <;> rcases List.mem_cons.1 hc' with e2 | m2
    · exact hne (e1.trans e2.symm)
    · subst e1; exact h3 x hx x (Mux.P11.mem_nodesL.2 ⟨c', m2, hx'⟩) rfl
    · subst e2; exact h3 x hx' x (Mux.P11.mem_nodesL.2 ⟨c, m1, hx⟩) rfl
    · exact ih h2 m1 m2

theorem nodesL_children_sublist {cs : List Node} {c : Node} (hc : c ∈ cs) : (nodesL c.children).Sublist (nodesL cs) := by
  induction cs with
  | nil => cases hc
  | cons d cs ih =>
    simp only [nodesL]
    rcases List.mem_cons.1 hc with rfl | hc
    · rw [Node.nodes_eq]
      exact (List.sublist_cons_self _ _).trans (List.sublist_append_left _ _)
    · exact (ih hc).trans (List.sublist_append_right _ _)

/-- What makes chains unique below a node: patterns are parent pattern ++ segment text, texts are not
empty, and no node occurs twice. -/
structure UniqHyp (n : Node) : Prop where
  pat : Node.PatternOk n
  ne : AllL (fun c => c.seg.value ≠ []) n.children
  nodup : (nodesL n.children).Nodup

theorem UniqHyp.child {n c : Node} (h : UniqHyp n) (hc : c ∈ n.children) : UniqHyp c :=
  ⟨(PatternOkL_mem ((Node.patternOk_iff n).1 h.pat) hc).2, Node.All_children (AllL_mem h.ne hc),
    h.nodup.sublist (nodesL_children_sublist hc)⟩

/-- A non-empty chain does not come back to its start. -/
theorem chain_cons_ne {n c : Node} {segs : List Seg} (h : UniqHyp n) (hc : c ∈ n.children) (hch : Chain c segs n) :
    False := by
  have hcp := PatternOkL_mem ((Node.patternOk_iff n).1 h.pat) hc
  obtain ⟨e, _⟩ := chain_pattern hch hcp.2
  rw [hcp.1, List.append_assoc] at e
  have : c.seg.value ++ (segs.map (·.value)).flatten = [] := by
    have := congrArg List.length e
    simp only [List.length_append] at this
    apply List.eq_nil_of_length_eq_zero
    simp only [List.length_append]
    omega
  exact Node.All_self (AllL_mem h.ne hc) (List.append_eq_nil_iff.1 this).1

/-- **The chain from a node to one of its descendants is unique.** -/
theorem chain_unique {n x : Node} {segs1 segs2 : List Seg} (h1 : Chain n segs1 x) (h2 : Chain n segs2 x)
    (h : UniqHyp n) : segs1 = segs2 := by
  induction h1 generalizing segs2 with
  | nil n =>
    cases h2 with
    | nil => rfl
    | cons hc hch => exact (chain_cons_ne h hc hch).elim
  | @cons n c m segs hc hch ih =>
    cases h2 with
    | nil => exact (chain_cons_ne h hc hch).elim
    | @cons _ c' _ segs' hc' hch' =>
      have hcc : c = c' := by
        apply Classical.not_not.1
        intro hne
        exact nodes_disjoint h.nodup hc hc' hne (chain_mem_nodes' hch) (chain_mem_nodes' hch')
      subst hcc
      rw [ih hch' (h.child hc)]

end Mux.P13
