/-
  Mux.Proofs.TreeGood — the node invariant `Good` (I-meth: method index, key shape, HEAD follows
  GET) and its preservation by the handler-map operations `addMethodsNode`, `removeMethods`,
  `applyMw`.
-/
import Mux.Proofs.TreeOps
import Mux.Proofs.Render
namespace Mux

/-! ## Method constants -/

theorem method_consts_ne :
    mGET ≠ mHEAD ∧ mGET ≠ mOPTIONS ∧ mGET ≠ mNotAllowed ∧ mGET ≠ mTRACE ∧
    mHEAD ≠ mOPTIONS ∧ mHEAD ≠ mNotAllowed ∧ mHEAD ≠ mTRACE ∧
    mOPTIONS ≠ mNotAllowed ∧ mOPTIONS ≠ mTRACE ∧ mTRACE ≠ mNotAllowed := by decide +kernel

theorem mem_table_consts :
    mGET ∈ methodsTable ∧ mHEAD ∈ methodsTable ∧ mOPTIONS ∈ methodsTable ∧ mTRACE ∈ methodsTable ∧
    mNotAllowed ∉ methodsTable := by decide +kernel

theorem isKnownMethod_iff (m : Bytes) : isKnownMethod m = true ↔ m ∈ methodsTable := by
  unfold isKnownMethod; simp

/-! ## The predicate -/

/-- A key is admissible: the 405 key, or a known method that is not TRACE when TRACE is configured. -/
def KeyAdm (hasTrace : Bool) (k : Bytes) : Prop :=
  k = mNotAllowed ∨ (k ∈ methodsTable ∧ (hasTrace = true → k ≠ mTRACE))

/-- HEAD's stored handler has the same base as GET's. -/
def HeadBase (hs : AMap Handler) : Prop :=
  ∀ hg hh, hs.get? mGET = some hg → hs.get? mHEAD = some hh → hh.base = hg.base

/-- What holds of a handler map at every point of `addMethods`/`Remove`. -/
structure KeyPre (hasTrace : Bool) (hs : AMap Handler) : Prop where
  nodup : hs.keys.Nodup
  head_iff : mHEAD ∈ hs.keys ↔ mGET ∈ hs.keys
  adm : ∀ k ∈ hs.keys, KeyAdm hasTrace k
  headBase : HeadBase hs

/-- Key shape of a node that has handlers. -/
structure KeyShape (hasTrace : Bool) (hs : AMap Handler) : Prop extends KeyPre hasTrace hs where
  options : mOPTIONS ∈ hs.keys
  notAllowed : mNotAllowed ∈ hs.keys

/-- The `(methodIndex, handlers)` part of `Good`. -/
def GoodQ (hasTrace : Bool) (mi : Nat) (hs : AMap Handler) : Prop :=
  mi = nodeMethodIndex hasTrace hs ∧ (hs = [] ∨ KeyShape hasTrace hs)

/-- The node invariant: I-meth (a), key shape (b), HEAD base (c), index range (d). -/
def Good (hasTrace : Bool) : Node → Prop := NodeOk (GoodQ hasTrace)

theorem GoodQ_empty (ht : Bool) : GoodQ ht 0 [] := by
  refine ⟨?_, .inl rfl⟩
  simp [nodeMethodIndex]

theorem KeyPre_nil (ht : Bool) : KeyPre ht [] :=
  ⟨by simp [AMap.keys], by simp [AMap.keys], by simp [AMap.keys], by intro hg hh h; simp [AMap.get?] at h⟩

/-! ## `set` -/

theorem nodup_set_keys {ks : List Bytes} (k : Bytes) (h : ks.Nodup) :
    (if k ∈ ks then ks else ks ++ [k]).Nodup := by
  split
  · exact h
  · rename_i hk
    rw [List.nodup_append]
    refine ⟨h, by simp, ?_⟩
    intro a ha b hb
    simp at hb; subst hb
    intro hab; subst hab; exact hk ha

theorem mem_set_keys {ks : List Bytes} {k x : Bytes} :
    x ∈ (if k ∈ ks then ks else ks ++ [k]) ↔ x ∈ ks ∨ x = k := by
  split
  · rename_i hk
    constructor
    · exact .inl
    · rintro (h | h); exact h; exact h ▸ hk
  · simp

theorem AMap.mem_keys_set {V : Type} (hs : AMap V) (k a : Bytes) (v : V) :
    a ∈ (hs.set k v).keys ↔ a ∈ hs.keys ∨ a = k := by
  rw [AMap.keys_setT]; exact mem_set_keys

theorem AMap.nodup_keys_setT {V : Type} (hs : AMap V) (k : Bytes) (v : V) (h : hs.keys.Nodup) :
    (hs.set k v).keys.Nodup := by
  rw [AMap.keys_setT]; exact nodup_set_keys k h

/-- Setting a key other than GET/HEAD. -/
theorem KeyPre.set_other {ht : Bool} {hs : AMap Handler} (h : KeyPre ht hs) {k : Bytes} (v : Handler)
    (hg : k ≠ mGET) (hh : k ≠ mHEAD) (hadm : KeyAdm ht k) : KeyPre ht (hs.set k v) := by
  refine ⟨?_, ?_, ?_, ?_⟩
  · rw [AMap.keys_setT]; exact nodup_set_keys k h.nodup
  · rw [AMap.keys_setT]
    simp only [mem_set_keys]
    have h1 : ¬ mHEAD = k := fun e => hh e.symm
    have h2 : ¬ mGET = k := fun e => hg e.symm
    simp only [h1, h2, or_false]
    exact h.head_iff
  · rw [AMap.keys_setT]
    intro x hx
    rw [mem_set_keys] at hx
    rcases hx with hx | hx
    · exact h.adm x hx
    · exact hx ▸ hadm
  · intro a b ha hb
    rw [AMap.get?_setT] at ha hb
    have h1 : ¬ mHEAD = k := fun e => hh e.symm
    have h2 : ¬ mGET = k := fun e => hg e.symm
    simp only [h1, h2, if_false] at ha hb
    exact h.headBase a b ha hb

/-- Setting HEAD and GET together from handlers with the same base. -/
theorem KeyPre.set_get {ht : Bool} {hs : AMap Handler} (h : KeyPre ht hs) (x y : Handler)
    (hxy : x.base = y.base) : KeyPre ht ((hs.set mHEAD x).set mGET y) := by
  obtain ⟨c1, c2, c3, c4, c5, c6, c7, c8, c9, c10⟩ := method_consts_ne
  obtain ⟨t1, t2, t3, t4, t5⟩ := mem_table_consts
  refine ⟨?_, ?_, ?_, ?_⟩
  · exact AMap.nodup_keys_setT _ _ _ (AMap.nodup_keys_setT _ _ _ h.nodup)
  · simp only [AMap.mem_keys_set]
    simp
  · intro k hk
    simp only [AMap.mem_keys_set] at hk
    rcases hk with (hk | hk) | hk
    · exact h.adm k hk
    · subst hk; exact .inr ⟨t2, fun _ => c7⟩
    · subst hk; exact .inr ⟨t1, fun _ => c4⟩
  · intro a b ha hb
    rw [AMap.get?_setT] at ha hb
    simp only [if_true] at ha
    have : ¬ mHEAD = mGET := fun e => c1 e.symm
    simp only [this, if_false] at hb
    rw [AMap.get?_setT] at hb
    simp only [if_true] at hb
    cases ha; cases hb; exact hxy

/-! ## `addMethodsLoop` and `addMethodsNode` -/

@[simp] theorem wrapWith_base (h : Handler) (m p r : Bytes) (ms : List Nat) : (wrapWith h m p r ms).base = h.base := rfl

theorem addMethodsLoop_pre (t : Tree) (h : Handler) (pattern : Bytes) (ms : List Nat) :
    ∀ (methods : List Bytes) (hs hs' : AMap Handler), KeyPre t.hasTrace hs →
      addMethodsLoop t h pattern ms methods hs = .ok hs' → KeyPre t.hasTrace hs' := by
  intro methods
  induction methods with
  | nil => intro hs hs' hp he; simp [addMethodsLoop] at he; exact he ▸ hp
  | cons m rest ih =>
    intro hs hs' hp he
    simp only [addMethodsLoop, bind, Except.bind] at he
    by_cases hres : m = mOPTIONS ∨ m = mHEAD ∨ (t.hasTrace = true ∧ m = mTRACE)
    · simp [hres, throw, throwThe, MonadExceptOf.throw] at he
    simp only [hres, if_false] at he
    by_cases hkn : isKnownMethod m = true
    · simp only [hkn, not_true_eq_false, if_false] at he
      by_cases hcon : AMap.contains hs m = true
      · simp [hcon, throw, throwThe, MonadExceptOf.throw] at he
      simp only [hcon, Bool.false_eq_true, if_false] at he
      refine ih _ hs' ?_ he
      have hmt := (isKnownMethod_iff m).1 hkn
      by_cases hg : m = mGET
      · subst hg
        simp only [if_true]
        exact hp.set_get _ _ rfl
      · simp only [hg, if_false]
        refine hp.set_other _ hg (fun e => hres (.inr (.inl e))) (.inr ⟨hmt, ?_⟩)
        intro htr e
        exact hres (.inr (.inr ⟨htr, e⟩))
    · simp [hkn, throw, throwThe, MonadExceptOf.throw] at he

theorem nodeMethodIndex_congr (ht : Bool) {hs hs' : AMap Handler} (h : hs'.keys = hs.keys) :
    nodeMethodIndex ht hs' = nodeMethodIndex ht hs := by
  unfold nodeMethodIndex
  have h1 : hs'.map (fun e => methodBit e.1) = hs.map (fun e => methodBit e.1) := by
    have : ∀ l : AMap Handler, l.map (fun e => methodBit e.1) = l.keys.map methodBit := by
      intro l; simp [AMap.keys, List.map_map, Function.comp_def]
    rw [this, this, h]
  have h2 : hs'.length = hs.length := by
    have := congrArg List.length h
    simpa [AMap.keys] using this
  rw [h1, h2]

theorem addMethodsNode_good (t : Tree) (h : Handler) (pattern : Bytes) (ms : List Nat) (methods : List Bytes)
    (n n' : Node) (hn : Node.All (Good t.hasTrace) n)
    (he : t.addMethodsNode h pattern ms methods n = .ok n') : Node.All (Good t.hasTrace) n' := by
  obtain ⟨c1, c2, c3, c4, c5, c6, c7, c8, c9, c10⟩ := method_consts_ne
  obtain ⟨t1, t2, t3, t4, t5⟩ := mem_table_consts
  unfold Tree.addMethodsNode at he
  simp only [bind, Except.bind, pure, Except.pure] at he
  split at he
  · simp at he
  rename_i hs1 hloop
  simp only [Except.ok.injEq] at he
  subst he
  have hpre0 : KeyPre t.hasTrace n.handlers := by
    rcases hn.head.1.2 with h0 | h0
    · rw [h0]; exact KeyPre_nil _
    · exact h0.toKeyPre
  have hpre1 := addMethodsLoop_pre t h pattern ms methods _ _ hpre0 hloop
  -- add OPTIONS
  have hpre2 : ∀ v, KeyPre t.hasTrace (if AMap.contains hs1 mOPTIONS = true then hs1 else hs1.set mOPTIONS v) := by
    intro v
    split
    · exact hpre1
    · exact hpre1.set_other v (fun e => c2 e.symm) (fun e => c5 e.symm) (.inr ⟨t3, fun _ => c9⟩)
  have hopt2 : ∀ v, mOPTIONS ∈ (if AMap.contains hs1 mOPTIONS = true then hs1 else hs1.set mOPTIONS v).keys := by
    intro v
    split
    · rename_i hc; exact (AMap.contains_iff _ _).1 hc
    · rw [AMap.keys_setT, mem_set_keys]; exact .inr rfl
  generalize hhs2 : (if AMap.contains hs1 mOPTIONS = true then hs1 else
    hs1.set mOPTIONS (wrapWith { base := t.optionsBase } mOPTIONS pattern t.name ms)) = hs2
  have hp2 := hpre2 (wrapWith { base := t.optionsBase } mOPTIONS pattern t.name ms)
  have ho2 := hopt2 (wrapWith { base := t.optionsBase } mOPTIONS pattern t.name ms)
  rw [hhs2] at hp2 ho2
  have hshape : ∀ v, KeyShape t.hasTrace (if AMap.contains hs2 mNotAllowed = true then hs2 else hs2.set mNotAllowed v) := by
    intro v
    split
    · rename_i hc; exact ⟨hp2, ho2, (AMap.contains_iff _ _).1 hc⟩
    · refine ⟨hp2.set_other v (fun e => c3 e.symm) (fun e => c6 e.symm) (.inl rfl), ?_, ?_⟩
      · rw [AMap.keys_setT, mem_set_keys]; exact .inl ho2
      · rw [AMap.keys_setT, mem_set_keys]; exact .inr rfl
  rw [Node.All_iff]
  refine ⟨⟨⟨?_, .inr ?_⟩, ?_⟩, ?_⟩
  · simp [Node.setHandlers]
  · simpa [Node.setHandlers] using hshape _
  · have := hn.head.2
    intro e he
    simpa [Node.setHandlers] using this e he
  · simpa [Node.setHandlers] using hn.tail

/-! ## `removeMethods` -/

theorem AMap.get?_erase_self {V : Type} (m : AMap V) (k : Bytes) : (m.erase k).get? k = none := by
  unfold AMap.erase AMap.get?
  simp only [Option.map_eq_none_iff, List.find?_eq_none]
  intro e he
  simp only [List.mem_filter] at he
  simpa using he.2

theorem KeyShape.erase_other {ht : Bool} {hs : AMap Handler} (h : KeyShape ht hs) {k : Bytes}
    (hg : k ≠ mGET) (hh : k ≠ mHEAD) (ho : k ≠ mOPTIONS) (hn : k ≠ mNotAllowed) :
    KeyShape ht (hs.erase k) := by
  refine ⟨⟨?_, ?_, ?_, ?_⟩, ?_, ?_⟩
  · rw [AMap.keys_eraseT]; exact h.nodup.filter _
  · rw [AMap.keys_eraseT]
    simp only [List.mem_filter, ne_eq, decide_eq_true_eq]
    have h1 : ¬ mHEAD = k := fun e => hh e.symm
    have h2 : ¬ mGET = k := fun e => hg e.symm
    simp only [h1, h2, not_false_eq_true, and_true]
    exact h.head_iff
  · rw [AMap.keys_eraseT]
    intro x hx
    exact h.adm x (List.mem_filter.1 hx).1
  · intro a b ha hb
    rw [AMap.get?_erase_ne _ _ _ (fun e => hg e.symm)] at ha
    rw [AMap.get?_erase_ne _ _ _ (fun e => hh e.symm)] at hb
    exact h.headBase a b ha hb
  · rw [AMap.keys_eraseT]
    exact List.mem_filter.2 ⟨h.options, by simpa using fun e => ho e.symm⟩
  · rw [AMap.keys_eraseT]
    exact List.mem_filter.2 ⟨h.notAllowed, by simpa using fun e => hn e.symm⟩

theorem KeyShape.erase_get {ht : Bool} {hs : AMap Handler} (h : KeyShape ht hs) :
    KeyShape ht ((hs.erase mHEAD).erase mGET) := by
  obtain ⟨c1, c2, c3, c4, c5, c6, c7, c8, c9, c10⟩ := method_consts_ne
  refine ⟨⟨?_, ?_, ?_, ?_⟩, ?_, ?_⟩
  · rw [AMap.keys_eraseT, AMap.keys_eraseT]; exact (h.nodup.filter _).filter _
  · rw [AMap.keys_eraseT, AMap.keys_eraseT]
    simp [List.mem_filter]
  · rw [AMap.keys_eraseT, AMap.keys_eraseT]
    intro x hx
    exact h.adm x (List.mem_filter.1 (List.mem_filter.1 hx).1).1
  · intro a b ha hb
    rw [AMap.get?_erase_self] at ha
    simp at ha
  · rw [AMap.keys_eraseT, AMap.keys_eraseT]
    simp only [List.mem_filter, ne_eq, decide_eq_true_eq]
    exact ⟨⟨h.options, fun e => c5 e.symm⟩, fun e => c2 e.symm⟩
  · rw [AMap.keys_eraseT, AMap.keys_eraseT]
    simp only [List.mem_filter, ne_eq, decide_eq_true_eq]
    exact ⟨⟨h.notAllowed, fun e => c6 e.symm⟩, fun e => c3 e.symm⟩

/-- The fold of `removeMethods`. -/
def rmStep (hs : AMap Handler) (m : Bytes) : AMap Handler :=
  if m = mOPTIONS ∨ m = mHEAD ∨ m = mNotAllowed then hs
  else if m = mGET then (hs.erase mHEAD).erase mGET
  else hs.erase m

theorem rmStep_shape {ht : Bool} {hs : AMap Handler} (m : Bytes) (h : hs = [] ∨ KeyShape ht hs) :
    rmStep hs m = [] ∨ KeyShape ht (rmStep hs m) := by
  rcases h with h | h
  · subst h; left
    unfold rmStep; split
    · rfl
    · split <;> simp [AMap.erase]
  · right
    unfold rmStep
    split
    · exact h
    · rename_i hne
      split
      · exact h.erase_get
      · rename_i hg
        exact h.erase_other hg (fun e => hne (.inr (.inl e))) (fun e => hne (.inl e))
          (fun e => hne (.inr (.inr e)))

theorem foldl_rmStep_shape {ht : Bool} (ms : List Bytes) {hs : AMap Handler} (h : hs = [] ∨ KeyShape ht hs) :
    ms.foldl rmStep hs = [] ∨ KeyShape ht (ms.foldl rmStep hs) := by
  induction ms generalizing hs with
  | nil => exact h
  | cons m ms ih => exact ih (rmStep_shape m h)

theorem removeMethods_handlers (ht : Bool) (methods : List Bytes) (n : Node) :
    (removeMethods ht methods n).handlers =
      (if methods.isEmpty then []
       else if (methods.foldl rmStep n.handlers).length = 2 ∧
          AMap.contains (methods.foldl rmStep n.handlers) mOPTIONS = true ∧
          AMap.contains (methods.foldl rmStep n.handlers) mNotAllowed = true then []
        else methods.foldl rmStep n.handlers) := by
  unfold removeMethods
  simp only [Node.setHandlers, Node.handlers_mk]
  rfl

theorem removeMethods_good (ht : Bool) (methods : List Bytes) (n : Node)
    (hn : Node.All (Good ht) n) : Node.All (Good ht) (removeMethods ht methods n) := by
  rw [Node.All_iff] at hn ⊢
  obtain ⟨⟨⟨_, hshape⟩, hidx⟩, hall⟩ := hn
  have hfields : (removeMethods ht methods n).indexes = n.indexes ∧
      (removeMethods ht methods n).children = n.children ∧
      (removeMethods ht methods n).methodIndex = nodeMethodIndex ht (removeMethods ht methods n).handlers := by
    unfold removeMethods; simp [Node.setHandlers]
  refine ⟨⟨⟨hfields.2.2, ?_⟩, ?_⟩, ?_⟩
  · rw [removeMethods_handlers]
    split
    · exact .inl rfl
    · split
      · exact .inl rfl
      · exact foldl_rmStep_shape methods hshape
  · intro e he
    rw [hfields.1] at he; rw [hfields.2.1]; exact hidx e he
  · rw [hfields.2.1]; exact hall

/-! ## `applyMw` -/

theorem AMap.keys_mapVals {V : Type} (hs : AMap V) (φ : Bytes → V → V) :
    AMap.keys (hs.map (fun e => (e.1, φ e.1 e.2))) = hs.keys := by
  simp [AMap.keys, List.map_map, Function.comp_def]

theorem AMap.get?_mapVals {V : Type} (hs : AMap V) (φ : Bytes → V → V) (k : Bytes) :
    AMap.get? (hs.map (fun e => (e.1, φ e.1 e.2))) k = (hs.get? k).map (φ k) := by
  unfold AMap.get?
  induction hs with
  | nil => rfl
  | cons e hs ih =>
    simp only [List.map_cons, List.find?_cons]
    by_cases hek : e.1 = k
    · simp [hek]
    · simp only [hek, decide_false]
      exact ih

theorem GoodQ_applyMw (ht : Bool) (router : Bytes) (ms : List Nat) (mi : Nat) (hs : AMap Handler) (p : Bytes)
    (h : GoodQ ht mi hs) : GoodQ ht mi (hs.map (fun e => (e.1, wrapWith e.2 e.1 p router ms))) := by
  have hk := AMap.keys_mapVals hs (fun k v => wrapWith v k p router ms)
  refine ⟨?_, ?_⟩
  · rw [h.1]; exact (nodeMethodIndex_congr ht hk).symm
  · rcases h.2 with h0 | h0
    · subst h0; exact .inl rfl
    · right
      refine ⟨⟨?_, ?_, ?_, ?_⟩, ?_, ?_⟩
      · rw [hk]; exact h0.nodup
      · rw [hk]; exact h0.head_iff
      · rw [hk]; exact h0.adm
      · intro a b ha hb
        rw [AMap.get?_mapVals hs (fun k v => wrapWith v k p router ms)] at ha hb
        simp only [Option.map_eq_some_iff] at ha hb
        obtain ⟨a0, ha0, rfl⟩ := ha
        obtain ⟨b0, hb0, rfl⟩ := hb
        simpa using h0.headBase a0 b0 ha0 hb0
      · rw [hk]; exact h0.options
      · rw [hk]; exact h0.notAllowed

end Mux
