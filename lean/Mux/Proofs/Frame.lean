/-
  Mux.Proofs.Frame — C03_frame for ALL trees of well-formed histories (first-byte indexes included):
  `Remove` and `Clean` do not change the answer for a request that was dispatched to a node they
  did not touch.  The index fast path is reduced to the linear scan (`P8.matchChildren_eq_scan`,
  the content of `C02_index_is_scan_tidy`) before AND after the operation; the scan argument is the
  one of `Mux.Proofs.TableFrame`/`TableFrame2` (first success in child order is unchanged when a
  subtree that did not produce it is deleted or a node that was not the result loses handlers).
-/
import Mux.Proofs.ReachAll
import Mux.Proofs.TableFrame2
namespace Mux.P14
open Mux Mux.P11

/-! ## `matchChildren` is the scan on nodes satisfying `SOk2` -/

theorem mc_scan {ic0 : Interceptors} (env : Env) (ic : Interceptors) {n : Node} (h : Node.All (P8.SOk2 ic0) n)
    {rp : Bytes} {ps : Params} {used : List Bytes} (hN : Node.NamesOk used n) (hk : ∀ k ∈ ps.keys, k ∈ used) :
    n.matchChildren env ic rp ps =
      match matchFrom env ic n.children 0 rp ps with
      | .miss ps2 => if rp.isEmpty ∧ n.handlers.length > 0 then .hit n ps2 else .miss ps2
      | r => r := by
  rw [P8.matchChildren_eq_scan env ic (P8.SOk2.all_SOk _ h) h.head.2.distinct ((Node.namesOk_iff used n).1 hN) hk]
  unfold P8.selfStep
  cases matchFrom env ic n.children 0 rp ps <;> rfl

theorem allS2_idxLit {ic0 : Interceptors} {n : Node} (h : Node.All (P8.SOk2 ic0) n) : Node.All IdxLit n :=
  P8.All_idxLit_of_SOk _ (P8.SOk2.all_SOk _ h)

theorem allS2L_idxLit {ic0 : Interceptors} {cs : List Node} (h : AllL (P8.SOk2 ic0) cs) : AllL IdxLit cs :=
  P8.AllL_idxLit_of_SOk _ ((AllL_mono (fun _ h => h.1)).2 _ h)

theorem frameF_keeps {f : Node → Node} (hf : FrameF f) : P8.KeepsShape f :=
  fun m => ⟨hf.seg m, hf.pat m, hf.indexes m, hf.children m⟩

/-- A node without children satisfying `SOk` has no index. -/
theorem sok_leaf_noidx {ic0 : Interceptors} {c : Node} (h : P8.SOk ic0 c) (hc : c.children = []) : c.indexes = [] := by
  have := h.index
  rw [hc] at this
  simpa [buildIndexes, indexesSize] using this.symm

/-- An emptied leaf misses every request. -/
theorem mc_empty_leaf' {ic0 : Interceptors} (env : Env) (ic : Interceptors) (c : Node) (h : P8.SOk ic0 c)
    (hs : c.size = 0) (hc : c.children.isEmpty = true) (rp : Bytes) (ps : Params) :
    c.matchChildren env ic rp ps = .miss ps :=
  mc_empty_leaf env ic c (sok_leaf_noidx h (by simpa using hc)) hs hc rp ps

/-! ## `removeAt`: what stays -/

theorem removeAt_top (f : Node → Node) (hf : FrameF f) (path : List Nat) (n n' : Node)
    (h : n.removeAt f path = .ok n') :
    n'.seg = n.seg ∧ n'.pattern = n.pattern ∧ (path ≠ [] → n'.handlers = n.handlers) ∧
      (path = [] → n'.children = n.children) ∧
      (∀ i p, path = i :: p → ∃ d, removeAtL f n.children i p = .ok (n'.children, d)) := by
  cases path with
  | nil =>
    have h' : f n = n' := by cases n; simpa [Node.removeAt] using h
    subst h'
    exact ⟨hf.seg n, hf.pat n, fun h => absurd rfl h, fun _ => hf.children n, fun i p e => by cases e⟩
  | cons i path =>
    cases n with
    | mk s p mi hs idx cs =>
      simp only [Node.removeAt, bind, Except.bind, pure, Except.pure] at h
      split at h
      · cases h
      rename_i r hr
      split at h
      · split at h
        · cases h
        simp only [Except.ok.injEq] at h
        subst h
        refine ⟨rfl, rfl, fun _ => rfl, fun e => (List.cons_ne_nil _ _ e).elim, fun i' p' e => ?_⟩
        cases e
        exact ⟨r.2, hr⟩
      · simp only [Except.ok.injEq] at h
        subst h
        refine ⟨rfl, rfl, fun _ => rfl, fun e => (List.cons_ne_nil _ _ e).elim, fun i' p' e => ?_⟩
        cases e
        exact ⟨r.2, hr⟩

/-- `removeAt` keeps the parameter-name discipline. -/
theorem namesOk_removeAt (f : Node → Node) (hf : FrameF f) :
    ∀ (path : List Nat) (n n' : Node) (used : List Bytes), Node.NamesOk used n → n.removeAt f path = .ok n' →
      Node.NamesOk used n' := by
  intro path
  induction path with
  | nil =>
    intro n n' used hn h
    obtain ⟨_, _, _, hc, _⟩ := removeAt_top f hf [] n n' h
    rw [Node.namesOk_iff] at hn ⊢
    rw [hc rfl]; exact hn
  | cons i path ih =>
    have hL : ∀ (cs cs' : List Node) (d : Bool) (k : Nat) (used : List Bytes), NamesOkL used cs →
        removeAtL f cs k path = .ok (cs', d) → NamesOkL used cs' := by
      intro cs
      induction cs with
      | nil => intro cs' d k used _ h; simp [removeAtL] at h
      | cons c cs ihc =>
        intro cs' d k used hn h
        rw [NamesOkL] at hn
        cases k with
        | zero =>
          simp only [removeAtL, bind, Except.bind, pure, Except.pure] at h
          split at h
          · cases h
          rename_i c' hc'
          have hseg := (removeAt_top f hf path c c' hc').1
          split at h
          · simp only [Except.ok.injEq, Prod.mk.injEq] at h
            obtain ⟨rfl, rfl⟩ := h
            exact hn.2.2
          · simp only [Except.ok.injEq, Prod.mk.injEq] at h
            obtain ⟨rfl, rfl⟩ := h
            rw [NamesOkL, hseg]
            exact ⟨hn.1, ih c c' _ hn.2.1 hc', hn.2.2⟩
        | succ k =>
          simp only [removeAtL, bind, Except.bind, pure, Except.pure] at h
          split at h
          · cases h
          rename_i r hr
          simp only [Except.ok.injEq, Prod.mk.injEq] at h
          obtain ⟨rfl, rfl⟩ := h
          rw [NamesOkL]
          exact ⟨hn.1, hn.2.1, ihc r.1 r.2 k used hn.2.2 hr⟩
    intro n n' used hn h
    obtain ⟨_, _, _, _, hcs⟩ := removeAt_top f hf (i :: path) n n' h
    obtain ⟨d, hrem⟩ := hcs i path rfl
    rw [Node.namesOk_iff] at hn ⊢
    exact hL _ _ d i used hn hrem

/-! ## The frame property of `removeAt` for the matcher, indexes included -/

theorem frame_removeAt' {ic0 : Interceptors} (env : Env) (ic : Interceptors) (f : Node → Node) (hf : FrameF f) :
    ∀ (path : List Nat) (n n' x : Node), Node.All (P8.SOk2 ic0) n → n.getAt path = some x →
      n.removeAt f path = .ok n' → ∀ (rp : Bytes) (ps : Params) (used : List Bytes),
      Node.NamesOk used n → (∀ k ∈ ps.keys, k ∈ used) →
      FrameMR x.pattern (n.matchChildren env ic rp ps) (n'.matchChildren env ic rp ps) := by
  intro path
  induction path with
  | nil =>
    intro n n' x hn hx h rp ps used hnames hkeys
    simp only [Node.getAt_nil, Option.some.injEq] at hx
    subst hx
    have h' : f n = n' := by cases n; simpa [Node.removeAt] using h
    subst h'
    have hn' : Node.All (P8.SOk2 ic0) (f n) := (P8.All_of_shape (P8.SOk2.closed ic0) hn ((frameF_keeps hf) n)).2
    have hnames' : Node.NamesOk used (f n) := by
      rw [Node.namesOk_iff] at hnames ⊢; rw [hf.children]; exact hnames
    rw [mc_scan env ic hn hnames hkeys, mc_scan env ic hn' hnames' hkeys, hf.children]
    cases hr : matchFrom env ic n.children 0 rp ps with
    | hit q ps1 => exact fun _ => ⟨q, rfl, rfl, rfl⟩
    | fault s => trivial
    | unsupported => trivial
    | miss ps2 =>
      simp only
      by_cases hc : rp.isEmpty = true ∧ n.handlers.length > 0
      · simp only [hc, and_self, if_true]
        exact fun hne => absurd rfl hne
      · simp only [hc, if_false]
        have hc' : ¬ (rp.isEmpty = true ∧ (f n).handlers.length > 0) := by
          rintro ⟨h1, h2⟩
          apply hc
          refine ⟨h1, ?_⟩
          cases hh : n.handlers with
          | nil => rw [hf.empty n hh] at h2; simp at h2
          | cons a l => simp
        simp only [hc', if_false]
        rfl
  | cons i path ih =>
    -- the list level
    have hL : ∀ (cs cs' : List Node) (d : Bool) (k : Nat) (x : Node), AllL (P8.SOk2 ic0) cs →
        getAtL cs k path = some x → removeAtL f cs k path = .ok (cs', d) →
        ∀ (rp : Bytes) (ps : Params) (used : List Bytes), NamesOkL used cs → (∀ k ∈ ps.keys, k ∈ used) →
        FrameMR x.pattern (matchFrom env ic cs 0 rp ps) (matchFrom env ic cs' 0 rp ps) := by
      intro cs
      induction cs with
      | nil => intro cs' d k x _ hx; simp [getAtL] at hx
      | cons c cs ihc =>
        intro cs' d k x hall hx h rp ps used hnames hkeys
        rw [AllL_cons_iff] at hall
        have htrack : TrackL used (c :: cs) ps :=
          ⟨hnames, AllL_cons_iff.2 ⟨allS2_idxLit hall.1, allS2L_idxLit hall.2⟩, hkeys⟩
        cases k with
        | succ k =>
          rw [getAtL_cons_succ] at hx
          simp only [removeAtL, bind, Except.bind, pure, Except.pure] at h
          split at h
          · cases h
          rename_i r hr
          simp only [Except.ok.injEq, Prod.mk.injEq] at h
          obtain ⟨rfl, rfl⟩ := h
          rw [matchFrom_cons_zero, matchFrom_cons_zero]
          cases ht : tryChild env ic c rp ps with
          | miss ps' =>
            have e := tryChild_miss List.mem_cons_self htrack ht
            subst e
            exact ihc r.1 r.2 k x hall.2 hx hr rp ps' used hnames.2.2 hkeys
          | hit q ps1 => exact fun _ => ⟨q, rfl, rfl, rfl⟩
          | fault s => trivial
          | unsupported => trivial
        | zero =>
          rw [getAtL_cons_zero] at hx
          simp only [removeAtL, bind, Except.bind, pure, Except.pure] at h
          split at h
          · cases h
          rename_i c' hc'
          have hseg := (removeAt_top f hf path c c' hc').1
          have hc'all : Node.All (P8.SOk2 ic0) c' :=
            (P8.removeAt_SOk (P8.SOk2.closed ic0) f (frameF_keeps hf) path c c' hall.1 hc').2
          obtain ⟨hfresh, hok⟩ := NamesOkL_mem hnames (c := c) List.mem_cons_self
          -- what the child does, before and after
          have hchild : ∀ cap rs, FrameMR x.pattern (c.matchChildren env ic rs (c.seg.record cap ps))
              (c'.matchChildren env ic rs (c.seg.record cap ps)) := by
            intro cap rs
            obtain ⟨_, r2, _⟩ := record_spec (s := c.seg) cap hfresh hkeys
            exact ih c c' x hall.1 hx hc' rs _ _ hok r2
          rw [matchFrom_cons_zero]
          split at h
          · -- the emptied leaf is deleted
            rename_i hempty
            simp only [Except.ok.injEq, Prod.mk.injEq] at h
            obtain ⟨rfl, rfl⟩ := h
            have hleaf := mc_empty_leaf' env ic c' hc'all.head.1 hempty.1 hempty.2
            unfold tryChild
            cases hm : c.seg.match env ic rp with
            | no => exact FrameMR.refl _ _
            | unsupported => trivial
            | yes cap rs =>
              simp only
              have hch := hchild cap rs
              rw [hleaf] at hch
              cases hr : c.matchChildren env ic rs (c.seg.record cap ps) with
              | hit q ps1 =>
                rw [hr] at hch
                intro hne
                obtain ⟨q', e, _⟩ := hch hne
                cases e
              | miss ps2 =>
                simp only
                have ht : tryChild env ic c rp ps = .miss (restoreParam ps ps2 c.seg.name) := by
                  unfold tryChild; rw [hm]; simp only [hr]
                rw [tryChild_miss List.mem_cons_self htrack ht]
                exact FrameMR.refl _ _
              | fault s => trivial
              | unsupported => trivial
          · simp only [Except.ok.injEq, Prod.mk.injEq] at h
            obtain ⟨rfl, rfl⟩ := h
            rw [matchFrom_cons_zero]
            unfold tryChild
            rw [hseg]
            cases hm : c.seg.match env ic rp with
            | no => exact FrameMR.refl _ _
            | unsupported => trivial
            | yes cap rs =>
              simp only
              have hch := hchild cap rs
              cases hr : c.matchChildren env ic rs (c.seg.record cap ps) with
              | hit q ps1 =>
                rw [hr] at hch
                intro hne
                obtain ⟨q', e, h1, h2⟩ := hch hne
                rw [e]
                exact ⟨q', rfl, h1, h2⟩
              | miss ps2 =>
                rw [hr] at hch
                rw [hch]
                exact FrameMR.refl _ _
              | fault s => trivial
              | unsupported => trivial
    intro n n' x hn hx h rp ps used hnames hkeys
    obtain ⟨_, hpat, hhs, _, hcs⟩ := removeAt_top f hf (i :: path) n n' h
    have hhs' := hhs (by simp)
    have hn' : Node.All (P8.SOk2 ic0) n' := (P8.removeAt_SOk (P8.SOk2.closed ic0) f (frameF_keeps hf) _ n n' hn h).2
    have hnames' : Node.NamesOk used n' := namesOk_removeAt f hf _ n n' used hnames h
    rw [mc_scan env ic hn hnames hkeys, mc_scan env ic hn' hnames' hkeys, hhs']
    obtain ⟨d, hrem⟩ := hcs i path rfl
    have hx' : getAtL n.children i path = some x := by rw [← Node.getAt_cons']; exact hx
    have hfr := hL n.children n'.children d i x hn.tail hx' hrem rp ps used
      ((Node.namesOk_iff used n).1 hnames) hkeys
    cases hr : matchFrom env ic n.children 0 rp ps with
    | hit q ps1 =>
      rw [hr] at hfr
      intro hne
      obtain ⟨q', e, h1, h2⟩ := hfr hne
      rw [e]
      exact ⟨q', rfl, h1, h2⟩
    | miss ps2 =>
      rw [hr] at hfr
      rw [hfr]
      simp only
      split
      · exact fun _ => ⟨n', rfl, hpat, hhs'⟩
      · rfl
    | fault s => trivial
    | unsupported => trivial

/-- Changing only the method index of a node does not change what it matches (whatever its index). -/
theorem frame_setMi' (env : Env) (ic : Interceptors) (E : Bytes → Prop) (n : Node) (mi : Nat)
    (rp : Bytes) (ps : Params) :
    FrameP E (n.matchChildren env ic rp ps) ((n.setHandlers n.handlers mi).matchChildren env ic rp ps) := by
  cases n with
  | mk s p mi0 hs idx cs =>
    simp only [Node.setHandlers, Node.seg_mk, Node.pattern_mk, Node.handlers_mk, Node.indexes_mk, Node.children_mk]
    rw [Node.matchChildren_eq, Node.matchChildren_eq]
    cases fastPath env ic idx cs rp ps with
    | hit q ps1 => exact fun _ => ⟨q, rfl, rfl, rfl⟩
    | fault s => trivial
    | unsupported => trivial
    | miss ps1 =>
      simp only
      cases matchFrom env ic cs idx.length rp ps1 with
      | hit q ps1 => exact fun _ => ⟨q, rfl, rfl, rfl⟩
      | fault s => trivial
      | unsupported => trivial
      | miss ps2 =>
        simp only
        by_cases hc : rp.isEmpty = true ∧ hs.length > 0
        · simp only [hc, and_self, if_true]
          exact fun _ => ⟨_, rfl, rfl, rfl⟩
        · simp only [hc, if_false]
          rfl

/-- **`C03_frame` for `Remove`**, for every tree satisfying the invariants of well-formed histories. -/
theorem frame_remove' {t t' : Tree} (hinv : AllInv t) {p : Bytes} {methods : List Bytes}
    (he : t.remove p methods = .ok t') {env : Env} {rp method : Bytes} {f : Found} {q : Node}
    (hres : t.handler env rp [] method = .res f) (hq : f.node = some q) (hne : q.pattern ≠ p) :
    ∃ f', t'.handler env rp [] method = .res f' ∧ SameAnswer f f' := by
  rcases remove_inv he with ⟨rfl, _⟩ | ⟨path, root1, hpath, hrem, rfl⟩
  · exact ⟨f, hres, rfl, rfl, rfl, fun q0 h0 => ⟨q0, h0, rfl, rfl⟩⟩
  · obtain ⟨x, hx, hxp, hpne⟩ := findPath_sound t.ic t.root hinv.ti.sh p path hpath
    rw [hinv.rootPat, List.nil_append] at hxp
    have hF := removeMethods_frameF t.hasTrace methods
    obtain ⟨_, hpat1, hhs1, _, _⟩ := removeAt_top _ hF path t.root root1 hrem
    have hhs1' := hhs1 hpne
    refine handler_frame (t := t) (E := fun pt => pt = p) rfl ?_ ?_ ?_ hres hq hne
    · unfold Tree.matched
      by_cases hsp : rp = [42] ∨ rp = []
      · simp only [hsp, if_true]
        intro _
        exact ⟨_, rfl, by simp [Tree.recount, Node.setHandlers, hpat1], by simp [Tree.recount, Node.setHandlers, hhs1']⟩
      · simp only [hsp, if_false]
        have h1 := frame_removeAt' env t.ic _ hF path t.root root1 x hinv.s2.all hx
          hrem rp [] [] hinv.namesRoot (by simp [AMap.keys])
        rw [hxp] at h1
        exact h1.trans (frame_setMi' env t.ic _ root1 _ rp [])
    · simp [Tree.recount, Node.setHandlers, hpat1]
    · simp [Tree.recount, Node.setHandlers, hhs1']

/-! ## `Clean` -/

theorem idxOk_of_SOk {ic0 : Interceptors} {n : Node} (h : P8.SOk ic0 n) : IdxOk n := by
  intro e he
  rcases P8.IndexExact.spec (n := n) h.index with ⟨_, h0⟩ | ⟨_, h1, _⟩
  · rw [h0] at he; cases he
  · obtain ⟨c, hc, _⟩ := h1 e he
    exact (List.getElem?_eq_some_iff.1 hc).1

/-- A hit below a node extends the node's pattern (indexes allowed). -/
theorem hit_prefix' (env : Env) (ic ic' ic0 : Interceptors) {n q : Node} (hn : Node.All (Sh ic') n)
    (hs : Node.All (P8.SOk ic0) n) {rp : Bytes} {ps ps1 : Params}
    (h : n.matchChildren env ic rp ps = .hit q ps1) : n.pattern <+: q.pattern := by
  have hall : Node.All (fun m => IdxOk m ∧ n.pattern <+: m.pattern) n := by
    rw [(All_iff_nodes _).1]
    intro m hm
    refine ⟨idxOk_of_SOk (((All_iff_nodes _).1 n).1 hs m hm), ?_⟩
    rcases subtree_pattern hn hm with rfl | ⟨_, r, _, hr⟩
    · exact List.prefix_refl _
    · exact ⟨r, hr.symm⟩
  have := match_ok env ic _ n hall rp ps
  rw [h] at this
  exact this

theorem namesOkL_filter (p : Node → Bool) : ∀ (cs : List Node) (used : List Bytes), NamesOkL used cs →
    NamesOkL used (cs.filter p) := by
  intro cs
  induction cs with
  | nil => intro used h; exact h
  | cons c cs ih =>
    intro used h
    rw [NamesOkL] at h
    rw [List.filter_cons]
    split
    · rw [NamesOkL]; exact ⟨h.1, h.2.1, ih used h.2.2⟩
    · exact ih used h.2.2

/-- `clean` keeps the parameter-name discipline. -/
theorem namesOk_clean : ∀ (n : Node) (used : List Bytes) (rem : Bytes) (n' : Node), Node.NamesOk used n →
    n.clean rem = .ok n' → Node.NamesOk used n' ∧ n'.seg = n.seg := by
  intro n
  induction n using Node.rec (motive_2 := fun cs => ∀ (used : List Bytes) (rem : Bytes) (cs1 : List Node),
      NamesOkL used cs → cleanL cs rem = .ok cs1 → NamesOkL used cs1) with
  | mk s p mi hs idx cs ih =>
    intro used rem n' hn h
    simp only [Node.clean] at h
    split at h
    · simp only [Except.ok.injEq] at h; subst h
      exact ⟨by simp [Node.NamesOk, NamesOkL], rfl⟩
    · simp only [bind, Except.bind, pure, Except.pure] at h
      split at h
      · cases h
      rename_i cs1 hcs1
      rw [foldl_removeNodes_filter (fun v => hasPrefix v rem) cs1] at h
      split at h
      · cases h
      simp only [Except.ok.injEq] at h; subst h
      refine ⟨?_, rfl⟩
      rw [Node.namesOk_iff] at hn ⊢
      exact namesOkL_filter _ _ _ (ih used rem cs1 hn hcs1)
  | nil =>
    rename_i used rem cs1 _ h
    simp only [cleanL, Except.ok.injEq] at h
    subst h; trivial
  | cons c cs ih1 ih2 =>
    rename_i used rem cs1 hn h
    rw [NamesOkL] at hn
    simp only [cleanL, bind, Except.bind, pure, Except.pure] at h
    by_cases hcond : c.seg.value.length < rem.length ∧ hasPrefix rem c.seg.value = true
    · simp only [hcond, and_self, if_true] at h
      split at h
      · cases h
      rename_i c' hc'
      split at h
      · cases h
      rename_i cs2 hcs2
      simp only [Except.ok.injEq] at h
      subst h
      obtain ⟨hok, hseg⟩ := ih1 _ _ c' hn.2.1 hc'
      rw [NamesOkL, hseg]
      exact ⟨hn.1, hok, ih2 used rem cs2 hn.2.2 hcs2⟩
    · simp only [hcond, if_false] at h
      split at h
      · cases h
      rename_i cs2 hcs2
      simp only [Except.ok.injEq] at h
      subst h
      rw [NamesOkL]
      exact ⟨hn.1, hn.2.1, ih2 used rem cs2 hn.2.2 hcs2⟩

/-- The frame property of `Node.clean` for the matcher, indexes included. -/
theorem frame_clean' {ic0 : Interceptors} (env : Env) (ic ic' : Interceptors) :
    ∀ (n : Node), Node.All (Sh ic') n → Node.All (P8.SOk2 ic0) n → ∀ (rem : Bytes) (n' : Node), n.clean rem = .ok n' →
      ∀ (rp : Bytes) (ps : Params) (used : List Bytes), Node.NamesOk used n → (∀ k ∈ ps.keys, k ∈ used) →
      FrameP (fun pt => (n.pattern ++ rem) <+: pt) (n.matchChildren env ic rp ps) (n'.matchChildren env ic rp ps) := by
  intro n
  induction n using Node.rec (motive_2 := fun cs => ∀ pp, ShL ic' pp cs → AllL (Sh ic') cs → AllL (P8.SOk2 ic0) cs →
      ∀ (rem : Bytes) (cs1 : List Node), cleanL cs rem = .ok cs1 →
      ∀ (rp : Bytes) (ps : Params) (used : List Bytes), NamesOkL used cs → (∀ k ∈ ps.keys, k ∈ used) →
      FrameP (fun pt => (pp ++ rem) <+: pt) (matchFrom env ic cs 0 rp ps)
        (matchFrom env ic (cs1.filter (fun c => !(hasPrefix c.seg.value rem))) 0 rp ps)) with
  | mk s p mi hs idx cs ih =>
    intro hn hs2 rem n' h rp ps used hnames hkeys
    have h0 := h
    have htrack : TrackL used cs ps := ⟨hnames, allS2L_idxLit hs2.2, hkeys⟩
    simp only [Node.clean] at h
    split at h
    · -- everything below goes
      rename_i hrem
      have hr : rem = [] := by simpa using hrem
      subst hr
      simp only [Except.ok.injEq] at h
      subst h
      cases hm : (Node.mk s p mi hs idx cs).matchChildren env ic rp ps with
      | hit q ps1 =>
        intro hne
        exact absurd (by simpa using hit_prefix' env ic ic' ic0 hn (P8.SOk2.all_SOk _ hs2) hm) hne
      | miss ps1 =>
        rw [mc_scan env ic hs2 hnames hkeys] at hm
        show (Node.mk s p mi hs [] []).matchChildren env ic rp ps = .miss ps1
        rw [mc_noidx env ic _ rfl]
        simp only [Node.children_mk, Node.handlers_mk] at hm ⊢
        rw [matchFrom]
        cases hr : matchFrom env ic cs 0 rp ps with
        | miss ps2 =>
          rw [hr] at hm
          have e := matchFrom_miss hr htrack.1 htrack.2.1 htrack.2.2
          subst e
          simp only at hm ⊢
          by_cases hc : rp.isEmpty = true ∧ hs.length > 0
          · simp only [hc, and_self, if_true] at hm
            cases hm
          · simp only [hc, if_false] at hm ⊢
            cases hm
            rfl
        | hit q ps2 => rw [hr] at hm; cases hm
        | fault s => rw [hr] at hm; cases hm
        | unsupported => rw [hr] at hm; cases hm
      | fault s => trivial
      | unsupported => trivial
    · simp only [bind, Except.bind, pure, Except.pure] at h
      split at h
      · cases h
      rename_i cs1 hcs1
      have hfl := foldl_removeNodes_filter (fun v => hasPrefix v rem) cs1
      rw [hfl] at h
      split at h
      · cases h
      rename_i idx' hidx'
      simp only [Except.ok.injEq] at h
      subst h
      have hs2' := (P8.clean_SOk (P8.SOk2.closed ic0) _ rem _ hs2 h0).2
      have hnames' := (namesOk_clean _ used rem _ hnames h0).1
      have hfr := ih p hn.1 hn.2 hs2.2 rem cs1 hcs1 rp ps used hnames hkeys
      rw [mc_scan env ic hs2 hnames hkeys, mc_scan env ic hs2' hnames' hkeys]
      simp only [Node.children_mk, Node.handlers_mk, Node.pattern_mk]
      cases hr : matchFrom env ic cs 0 rp ps with
      | hit q ps1 =>
        rw [hr] at hfr
        intro hne
        obtain ⟨q', e, h1, h2⟩ := hfr hne
        rw [e]
        exact ⟨q', rfl, h1, h2⟩
      | miss ps2 =>
        rw [hr] at hfr
        rw [hfr]
        simp only
        by_cases hc : rp.isEmpty = true ∧ hs.length > 0
        · simp only [hc, and_self, if_true]
          exact fun _ => ⟨_, rfl, rfl, rfl⟩
        · simp only [hc, if_false]
          rfl
      | fault s => trivial
      | unsupported => trivial
  | nil =>
    rename_i pp _ _ _ rem cs1 h rp ps used _ _
    simp only [cleanL, Except.ok.injEq] at h
    subst h
    exact FrameP.refl _ _
  | cons c cs ih1 ih2 =>
    rename_i pp hsh hall hs2 rem cs1 h rp ps used hnames hkeys
    obtain ⟨hco, _, hsho⟩ := ShL_cons.1 hsh
    rw [AllL_cons_iff] at hall hs2
    have htrack : TrackL used (c :: cs) ps :=
      ⟨hnames, AllL_cons_iff.2 ⟨allS2_idxLit hs2.1, allS2L_idxLit hs2.2⟩, hkeys⟩
    obtain ⟨hfresh, hok⟩ := NamesOkL_mem hnames (c := c) List.mem_cons_self
    simp only [cleanL, bind, Except.bind, pure, Except.pure] at h
    have htail : ∀ cs2, cleanL cs rem = .ok cs2 →
        FrameP (fun pt => (pp ++ rem) <+: pt) (matchFrom env ic cs 0 rp ps)
          (matchFrom env ic (cs2.filter (fun c => !(hasPrefix c.seg.value rem))) 0 rp ps) :=
      fun cs2 hcs2 => ih2 pp hsho hall.2 hs2.2 rem cs2 hcs2 rp ps used hnames.2.2 hkeys
    by_cases hcond : c.seg.value.length < rem.length ∧ hasPrefix rem c.seg.value = true
    · -- the child is cleaned recursively and stays
      simp only [hcond, and_self, if_true] at h
      split at h
      · cases h
      rename_i c' hc'
      split at h
      · cases h
      rename_i cs2 hcs2
      simp only [Except.ok.injEq] at h
      subst h
      obtain ⟨top, _, _⟩ := clean_sh ic' c hall.1 _ c' hc'
      have hnot : hasPrefix c'.seg.value rem = false := by
        rw [top.seg]
        cases hh : hasPrefix c.seg.value rem with
        | false => rfl
        | true =>
          have := ((hasPrefix_iff _ _).1 hh).length_le
          omega
      have hfull : c.pattern ++ rem.drop c.seg.value.length = pp ++ rem := by
        obtain ⟨t, ht⟩ := (hasPrefix_iff _ _).1 hcond.2
        rw [hco.2.2.1, List.append_assoc, ← ht]; simp
      simp only [List.filter_cons, hnot, Bool.not_false, if_true]
      rw [matchFrom_cons_zero, matchFrom_cons_zero]
      unfold tryChild
      rw [top.seg]
      cases hm : c.seg.match env ic rp with
      | no => exact htail cs2 hcs2
      | unsupported => trivial
      | yes cap rs =>
        simp only
        obtain ⟨_, r2, _⟩ := record_spec (s := c.seg) cap hfresh hkeys
        have hch := ih1 hall.1 hs2.1 _ c' hc' rs (c.seg.record cap ps) _ hok r2
        rw [hfull] at hch
        cases hr : c.matchChildren env ic rs (c.seg.record cap ps) with
        | hit q ps1 =>
          rw [hr] at hch
          intro hne
          obtain ⟨q', e, h1, h2⟩ := hch hne
          rw [e]
          exact ⟨q', rfl, h1, h2⟩
        | miss ps2 =>
          rw [hr] at hch
          rw [hch]
          simp only
          have ht : tryChild env ic c rp ps = .miss (restoreParam ps ps2 c.seg.name) := by
            unfold tryChild; rw [hm]; simp only [hr]
          rw [tryChild_miss List.mem_cons_self htrack ht]
          exact htail cs2 hcs2
        | fault s => trivial
        | unsupported => trivial
    · simp only [hcond, if_false] at h
      split at h
      · cases h
      rename_i cs2 hcs2
      simp only [Except.ok.injEq] at h
      subst h
      rw [matchFrom_cons_zero]
      by_cases hdel : hasPrefix c.seg.value rem = true
      · -- the whole subtree goes
        simp only [List.filter_cons, hdel, Bool.not_true, Bool.false_eq_true, if_false]
        cases ht : tryChild env ic c rp ps with
        | miss ps' =>
          rw [tryChild_miss List.mem_cons_self htrack ht]
          exact htail cs2 hcs2
        | hit q ps1 =>
          intro hne
          exfalso
          apply hne
          -- the hit lies below `c`, whose pattern has the prefix
          have hq : c.pattern <+: q.pattern := by
            unfold tryChild at ht
            cases hm : c.seg.match env ic rp with
            | no => rw [hm] at ht; cases ht
            | unsupported => rw [hm] at ht; cases ht
            | yes cap rs =>
              rw [hm] at ht
              simp only at ht
              cases hr : c.matchChildren env ic rs (c.seg.record cap ps) with
              | hit q2 ps2 =>
                rw [hr] at ht
                simp only [MR.hit.injEq] at ht
                obtain ⟨rfl, _⟩ := ht
                exact hit_prefix' env ic ic' ic0 hall.1 (P8.SOk2.all_SOk _ hs2.1) hr
              | miss ps2 => rw [hr] at ht; cases ht
              | fault s => rw [hr] at ht; cases ht
              | unsupported => rw [hr] at ht; cases ht
          refine List.IsPrefix.trans ?_ hq
          rw [hco.2.2.1, prefix_append_iff]
          exact (hasPrefix_iff _ _).1 hdel
        | fault s => trivial
        | unsupported => trivial
      · -- the subtree stays as it is
        have hdel' : hasPrefix c.seg.value rem = false := by simpa using hdel
        simp only [List.filter_cons, hdel', Bool.not_false, if_true]
        rw [matchFrom_cons_zero]
        cases ht : tryChild env ic c rp ps with
        | miss ps' =>
          rw [tryChild_miss List.mem_cons_self htrack ht]
          exact htail cs2 hcs2
        | hit q ps1 => exact fun _ => ⟨q, rfl, rfl, rfl⟩
        | fault s => trivial
        | unsupported => trivial

/-- **`C03_frame` for `Clean`**, for every tree satisfying the invariants of well-formed histories. -/
theorem frame_clean_tree {t t' : Tree} (hinv : AllInv t) {pre : Bytes} (he : t.clean pre = .ok t')
    {env : Env} {rp method : Bytes} {f : Found} {q : Node}
    (hres : t.handler env rp [] method = .res f) (hq : f.node = some q) (hne : ¬ pre <+: q.pattern) :
    ∃ f', t'.handler env rp [] method = .res f' ∧ SameAnswer f f' := by
  obtain ⟨root1, hclean, rfl⟩ := Tree.clean_ok he
  obtain ⟨top, hhs, _⟩ := clean_sh t.ic t.root hinv.ti.sh pre root1 hclean
  refine handler_frame (t := t) (E := fun pt => pre <+: pt) rfl ?_ ?_ ?_ hres hq hne
  · unfold Tree.matched
    by_cases hsp : rp = [42] ∨ rp = []
    · simp only [hsp, if_true]
      intro _
      exact ⟨_, rfl, by simp [Tree.recount, Node.setHandlers, top.pat], by simp [Tree.recount, Node.setHandlers, hhs]⟩
    · simp only [hsp, if_false]
      have h1 := frame_clean' env t.ic t.ic t.root hinv.ti.sh hinv.s2.all pre root1 hclean rp [] []
        hinv.namesRoot (by simp [AMap.keys])
      rw [hinv.rootPat, List.nil_append] at h1
      exact h1.trans (frame_setMi' env t.ic _ root1 _ rp [])
  · simp [Tree.recount, Node.setHandlers, top.pat]
  · simp [Tree.recount, Node.setHandlers, hhs]

end Mux.P14
