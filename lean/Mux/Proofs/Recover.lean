/-
  Mux.Proofs.Recover — the `defer recover()` control flow of `Router.serveContext` and
  `Group.ServeHTTP` (property C16).
-/
import Mux.Proofs.Head
namespace Mux

/-! ## Which panic `runCall` raises -/

theorem mwPanic_none_iff (pc : PanicCfg) (h : Handler) :
    mwPanic pc h = none ↔ ∀ w ∈ h.wraps, lookupNat pc.mws w.mw = none := by
  unfold mwPanic
  rw [List.head?_eq_none_iff, List.filterMap_eq_nil_iff]
  simp only [List.mem_reverse]

/-- The outermost panicking middleware wins: `wraps` is stored innermost first, so it is the
last element of the list that panics. -/
theorem mwPanic_outermost (pc : PanicCfg) (h : Handler) (pre post : List Wrap) (w : Wrap) (v : Nat)
    (hw : h.wraps = pre ++ w :: post) (hv : lookupNat pc.mws w.mw = some v)
    (hpost : ∀ w' ∈ post, lookupNat pc.mws w'.mw = none) : mwPanic pc h = some v := by
  unfold mwPanic
  rw [hw, List.reverse_append, List.reverse_cons, List.append_assoc, List.filterMap_append]
  have : post.reverse.filterMap (fun w => lookupNat pc.mws w.mw) = [] := by
    rw [List.filterMap_eq_nil_iff]; intro a ha; exact hpost a (List.mem_reverse.1 ha)
  rw [this, List.nil_append, List.filterMap_append, List.filterMap_cons, hv]
  rfl

theorem head_filterMap_some {α β : Type} (f : α → Option β) (l : List α) (v : β)
    (h : (l.filterMap f).head? = some v) :
    ∃ a x b, l = a ++ x :: b ∧ f x = some v ∧ ∀ y ∈ a, f y = none := by
  induction l with
  | nil => simp at h
  | cons x l ih =>
    cases hx : f x with
    | some v' =>
      rw [List.filterMap_cons, hx] at h
      simp only [List.head?_cons, Option.some.injEq] at h
      exact ⟨[], x, l, rfl, h ▸ hx, by simp⟩
    | none =>
      rw [List.filterMap_cons, hx] at h
      obtain ⟨a, y, b, h1, h2, h3⟩ := ih h
      refine ⟨x :: a, y, b, by rw [h1]; rfl, h2, ?_⟩
      intro z hz
      rcases List.mem_cons.1 hz with rfl | hz
      · exact hx
      · exact h3 z hz

/-- Conversely, a middleware panic value always comes from such a decomposition. -/
theorem mwPanic_some (pc : PanicCfg) (h : Handler) (v : Nat) (hm : mwPanic pc h = some v) :
    ∃ pre w post, h.wraps = pre ++ w :: post ∧ lookupNat pc.mws w.mw = some v ∧
      ∀ w' ∈ post, lookupNat pc.mws w'.mw = none := by
  obtain ⟨a, x, b, h1, h2, h3⟩ := head_filterMap_some _ _ _ hm
  refine ⟨b.reverse, x, a.reverse, ?_, h2, fun w' hw' => h3 w' (List.mem_reverse.1 hw')⟩
  have := congrArg List.reverse h1
  rw [List.reverse_reverse] at this
  rw [this]; simp

theorem runCall_mw (pc : PanicCfg) (scripts : Scripts) (c : Call) (v : Nat)
    (h : mwPanic pc c.handler = some v) : runCall pc scripts c = .error (.user v) := by
  rw [runCall_eq, h]

theorem runCall_base (pc : PanicCfg) (scripts : Scripts) (c : Call) (v : Nat)
    (h1 : mwPanic pc c.handler = none) (h2 : basePanic pc c.handler.base = some v) :
    runCall pc scripts c = .error (.user v) := by
  rw [runCall_eq, h1, h2]

theorem runCall_nopanic (pc : PanicCfg) (scripts : Scripts) (c : Call)
    (h1 : mwPanic pc c.handler = none) (h2 : basePanic pc c.handler.base = none) :
    runCall pc scripts c =
      match c.handler.script scripts c.allow with
      | none => .error .fault
      | some acts => .ok (if c.headWrap then runHead acts 0 false c.rec0 else runGet acts c.rec0) := by
  rw [runCall_eq, h1, h2]
  cases c.handler.script scripts c.allow <;> rfl

/-- A user panic value raised by `runCall` is the middleware's or the handler's own. -/
theorem runCall_user (pc : PanicCfg) (scripts : Scripts) (c : Call) (v : Nat)
    (h : runCall pc scripts c = .error (.user v)) :
    mwPanic pc c.handler = some v ∨
      (mwPanic pc c.handler = none ∧ basePanic pc c.handler.base = some v) := by
  rw [runCall_eq] at h
  cases h1 : mwPanic pc c.handler with
  | some v' => rw [h1] at h; cases h; exact .inl rfl
  | none =>
    rw [h1] at h
    cases h2 : basePanic pc c.handler.base with
    | some v' => rw [h2] at h; cases h; exact .inr ⟨rfl, rfl⟩
    | none =>
      rw [h2] at h
      cases h3 : c.handler.script scripts c.allow with
      | none => rw [h3] at h; cases h
      | some acts => rw [h3] at h; cases h

/-! ## `withRecover` -/

theorem withRecover_true (hs : Hdr) (x : Except PanicVal Rec) :
    withRecover true hs x =
      match x with
      | .ok r => .normal r
      | .error v => .recovered v (({ hdr := hs } : Rec).writeHeader 500) := by
  cases x <;> rfl

theorem withRecover_false (hs : Hdr) (x : Except PanicVal Rec) :
    withRecover false hs x =
      match x with
      | .ok r => .normal r
      | .error v => .panicked v := by
  cases x <;> rfl

theorem withRecover_true_ne_panicked (hs : Hdr) (x : Except PanicVal Rec) (v : PanicVal)
    (acts : List Act := defaultRecActs) (hw : Bool := false) :
    withRecover true hs x acts hw ≠ .panicked v := by
  cases x <;> simp [withRecover]

/-! ## `Router.serveContext` sets the recover flag from the router -/

theorem serveContext_call_recover (env : Env) (r : Router) (req : Req) (ps : Params) (c : Call)
    (h : r.serveContext env req ps = .call c) : c.recover = r.recover := by
  unfold Router.serveContext at h
  split at h
  · cases h
  · cases h
  · cases h; rfl

theorem serveContext_fault_recover (env : Env) (r : Router) (req : Req) (ps : Params) (s : Nat) (rc : Bool)
    (h : r.serveContext env req ps = .fault s rc) : rc = r.recover := by
  unfold Router.serveContext at h
  split at h
  · cases h; rfl
  · cases h
  · cases h

/-- Every result of `finish` whose recover flag is set is not a panic. -/
theorem finish_not_panicked (pc : PanicCfg) (scripts : Scripts) (s : ServeRes)
    (hc : ∀ c, s = .call c → c.recover = true) (hf : ∀ n rc, s = .fault n rc → rc = true)
    (v : PanicVal) : (s.finish pc scripts).2 ≠ .panicked v := by
  cases s with
  | unsupported => simp [ServeRes.finish]
  | fault n rc =>
    rw [hf n rc rfl]; simp [ServeRes.finish, withRecover]
  | call c =>
    simp only [ServeRes.finish, hc c rfl]
    exact withRecover_true_ne_panicked _ _ _ _ _

/-! ## `Group.ServeHTTP` -/

/-- The request path after every matcher of the list has rejected (`none`: some matcher did not
reject). -/
def rejectPath (env : Env) (hostsTab : Nat → Option Hosts) (req : Req) : List (Nat × Matcher) → Bytes → Option Bytes
  | [], path => some path
  | (_, m) :: rest, path =>
    match m.run env hostsTab req path [] with
    | .reject p _ => rejectPath env hostsTab req rest p
    | _ => none

theorem go_append (env : Env) (hostsTab : Nat → Option Hosts) (rt : RTab) (g : Group) (req : Req)
    (pre rest : List (Nat × Matcher)) (path p0 : Bytes)
    (h : rejectPath env hostsTab req pre path = some p0) :
    Group.serve.go env hostsTab rt g req (pre ++ rest) path = Group.serve.go env hostsTab rt g req rest p0 := by
  induction pre generalizing path with
  | nil => simp only [rejectPath] at h; cases h; rfl
  | cons e pre ih =>
    obtain ⟨rid, m⟩ := e
    simp only [rejectPath] at h
    rw [List.cons_append, Group.serve.go.eq_2]
    cases hm : m.run env hostsTab req path [] with
    | reject p ps => rw [hm] at h; exact ih p h
    | accept p ps => rw [hm] at h; cases h
    | fault s => rw [hm] at h; cases h
    | unsupported => rw [hm] at h; cases h

/-- The general shape of a call made by `Group.ServeHTTP`: either the group's not-found call, covered
by the group's recover flag, or the call of an accepting router of the group, covered by that
router's flag. -/
theorem go_call (env : Env) (hostsTab : Nat → Option Hosts) (rt : RTab) (g : Group) (req : Req)
    (l : List (Nat × Matcher)) (path : Bytes) (c : Call)
    (h : Group.serve.go env hostsTab rt g req l path = .call c) :
    (c.handler = g.notFound ∧ c.node = none ∧ c.recover = g.recover ∧
        ∃ p, rejectPath env hostsTab req l path = some p ∧ c.path = p) ∨
      (∃ pre rid m post p0 p ps r, l = pre ++ (rid, m) :: post ∧
        rejectPath env hostsTab req pre path = some p0 ∧
        m.run env hostsTab req p0 [] = .accept p ps ∧ rt.get? rid = some r ∧
        r.serveContext env { req with path := p } ps = .call c ∧ c.recover = r.recover) := by
  induction l generalizing path with
  | nil =>
    rw [Group.serve.go.eq_1] at h; cases h
    exact .inl ⟨rfl, rfl, rfl, _, rfl, rfl⟩
  | cons e l ih =>
    obtain ⟨rid, m⟩ := e
    rw [Group.serve.go.eq_2] at h
    cases hm : m.run env hostsTab req path [] with
    | fault s => rw [hm] at h; cases h
    | unsupported => rw [hm] at h; cases h
    | accept p ps =>
      rw [hm] at h
      cases hr : rt.get? rid with
      | none => rw [hr] at h; cases h
      | some r =>
        rw [hr] at h
        exact .inr ⟨[], rid, m, l, path, p, ps, r, rfl, rfl, hm, hr, h,
          serveContext_call_recover _ _ _ _ _ h⟩
    | reject p ps =>
      rw [hm] at h
      rcases ih p h with ⟨h1, h2, h3, p', h4, h5⟩ | ⟨pre, rid', m', post, p0, p', ps', r, h1, h2, h3, h4, h5, h6⟩
      · exact .inl ⟨h1, h2, h3, p', by simp only [rejectPath, hm]; exact h4, h5⟩
      · exact .inr ⟨(rid, m) :: pre, rid', m', post, p0, p', ps', r, by rw [h1]; rfl,
          by simp only [rejectPath, hm]; exact h2, h3, h4, h5, h6⟩

/-- A fault result of the group loop either comes from outside every recover (flag `false`) or
from an accepted router (its flag). -/
theorem go_fault (env : Env) (hostsTab : Nat → Option Hosts) (rt : RTab) (g : Group) (req : Req)
    (l : List (Nat × Matcher)) (path : Bytes) (s : Nat) (rc : Bool)
    (h : Group.serve.go env hostsTab rt g req l path = .fault s rc) :
    rc = false ∨ ∃ e ∈ l, ∃ r, rt.get? e.1 = some r ∧ rc = r.recover := by
  induction l generalizing path with
  | nil => rw [Group.serve.go.eq_1] at h; cases h
  | cons e l ih =>
    obtain ⟨rid, m⟩ := e
    rw [Group.serve.go.eq_2] at h
    cases hm : m.run env hostsTab req path [] with
    | fault s => rw [hm] at h; cases h; exact .inl rfl
    | unsupported => rw [hm] at h; cases h
    | accept p ps =>
      rw [hm] at h
      cases hr : rt.get? rid with
      | none => rw [hr] at h; cases h; exact .inl rfl
      | some r =>
        rw [hr] at h
        exact .inr ⟨(rid, m), List.mem_cons_self .., r, hr, serveContext_fault_recover _ _ _ _ _ _ h⟩
    | reject p ps =>
      rw [hm] at h
      rcases ih p h with h1 | ⟨e, he, r, h1, h2⟩
      · exact .inl h1
      · exact .inr ⟨e, List.mem_cons_of_mem _ he, r, h1, h2⟩

end Mux
