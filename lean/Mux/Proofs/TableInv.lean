/-
  Mux.Proofs.TableInv — `applyMw` on the invariant `Sh`; the handler-map invariant `GQ` (`Good` plus
  "a node with handlers has a hand-registered method"); the tree invariant `TInv` of C03 and its
  preservation by every operation of a history whose registered patterns are well-formed.
-/
import Mux.Proofs.TableOps2
namespace Mux.P11
open Mux

/-! ## `applyMw` -/

/-- What `applyMiddleware` does to an entry. -/
def mwE (router : Bytes) (ms : List Nat) (e : Bytes × AMap Handler) : Bytes × AMap Handler :=
  (e.1, e.2.map (fun h => (h.1, wrapWith h.2 h.1 e.1 router ms)))

theorem ent_applyMw (router : Bytes) (ms : List Nat) (c : Node) :
    ent (c.applyMw router ms) = (ent c).map (mwE router ms) := by
  obtain ⟨_, hp, _, hh, _, _⟩ := applyMw_fields router ms c
  unfold ent
  rw [hp, hh]
  cases h : c.handlers with
  | nil => simp
  | cons a l => simp [mwE]

theorem applyMw_sh (ic : Interceptors) (router : Bytes) (ms : List Nat) :
    ∀ n : Node, Node.All (Sh ic) n → Node.All (Sh ic) (n.applyMw router ms) ∧
      liveL (n.applyMw router ms).children = (liveL n.children).map (mwE router ms) := by
  intro n
  induction n using Node.rec (motive_2 := fun cs => ∀ pp, ShL ic pp cs → AllL (Sh ic) cs →
      ShL ic pp (applyMwL router ms cs) ∧ AllL (Sh ic) (applyMwL router ms cs) ∧
      (applyMwL router ms cs).map ckey = cs.map ckey ∧
      liveL (applyMwL router ms cs) = (liveL cs).map (mwE router ms)) with
  | mk s p mi hs idx cs ih =>
    intro hn
    obtain ⟨h1, h2, _, h4⟩ := ih p hn.1 hn.2
    simp only [Node.applyMw, Node.children_mk]
    exact ⟨⟨h1, h2⟩, h4⟩
  | nil =>
    rename_i pp _ _
    simp only [applyMwL]
    exact ⟨ShL_nil _ _, AllL_nil _, by simp, by simp [liveL_nil]⟩
  | cons c cs ih1 ih2 =>
    rename_i pp hsh hall
    obtain ⟨hco, hkeys, hsho⟩ := ShL_cons.1 hsh
    rw [AllL_cons_iff] at hall
    obtain ⟨g1, g2, g3, g4⟩ := ih2 pp hsho hall.2
    obtain ⟨f1, f2⟩ := ih1 hall.1
    obtain ⟨hs, hp, _, _, _, hc⟩ := applyMw_fields router ms c
    have hck : ckey (c.applyMw router ms) = ckey c := by unfold ckey; rw [hs]
    have hleaf : c.children = [] → (c.applyMw router ms).children = [] := by
      intro e; rw [hc, e]; rfl
    simp only [applyMwL]
    refine ⟨ShL_cons.2 ⟨ChildOk_congr hs hp hleaf hco, ?_, g1⟩, AllL_cons_iff.2 ⟨f1, g2⟩, by simp [hck, g3], ?_⟩
    · intro d hd
      have : ckey d ∈ (applyMwL router ms cs).map ckey := List.mem_map_of_mem hd
      rw [g3, List.mem_map] at this
      obtain ⟨d0, hd0, e⟩ := this
      rw [hck, ← e]; exact hkeys d0 hd0
    · rw [liveL_cons, liveL_cons, List.map_append, g4]
      congr 1
      unfold liveN
      rw [List.map_append, f2, ent_applyMw]

/-! ## A node with handlers has a hand-registered method -/

/-- A key registered by hand. -/
def IsReg (k : Bytes) : Prop := k ≠ mHEAD ∧ k ≠ mOPTIONS ∧ k ≠ mNotAllowed

def RegQ (hs : AMap Handler) : Prop := hs = [] ∨ ∃ k ∈ hs.keys, IsReg k

/-- `Good` plus `RegQ`. -/
def GQ (ht : Bool) (mi : Nat) (hs : AMap Handler) : Prop := GoodQ ht mi hs ∧ RegQ hs

theorem GQ_empty (ht : Bool) : GQ ht 0 [] := ⟨GoodQ_empty ht, .inl rfl⟩

theorem mem_regKeys {hs : AMap Handler} {k : Bytes} : k ∈ regKeys hs ↔ k ∈ hs.keys ∧ IsReg k := by
  unfold regKeys IsReg
  simp [List.mem_filter]

theorem allGQ_good {ht : Bool} {cs : List Node} (h : AllL (NodeOk (GQ ht)) cs) : AllL (Good ht) cs :=
  (AllL_mono (fun _ hn => ⟨hn.1.1, hn.2⟩)).2 cs h

theorem allGQ_good_node {ht : Bool} {n : Node} (h : Node.All (NodeOk (GQ ht)) n) : Node.All (Good ht) n :=
  (AllL_mono (fun _ hn => ⟨hn.1.1, hn.2⟩)).1 n h

/-- The keys `addMethodsLoop` produces. -/
theorem addMethodsLoop_keys (t : Tree) (h : Handler) (pattern : Bytes) (ms : List Nat) :
    ∀ (methods : List Bytes) (hs hs' : AMap Handler), addMethodsLoop t h pattern ms methods hs = .ok hs' →
      (∀ k, k ∈ hs'.keys ↔ k ∈ hs.keys ∨ k ∈ methods ∨ (k = mHEAD ∧ mGET ∈ methods)) ∧
      (∀ m ∈ methods, IsReg m ∧ m ∉ hs.keys) := by
  intro methods
  induction methods with
  | nil =>
    intro hs hs' he
    simp only [addMethodsLoop, Except.ok.injEq] at he
    subst he; simp
  | cons m rest ih =>
    intro hs hs' he
    simp only [addMethodsLoop, bind, Except.bind] at he
    by_cases hres : m = mOPTIONS ∨ m = mHEAD ∨ (t.hasTrace = true ∧ m = mTRACE)
    · simp [hres, throw, throwThe, MonadExceptOf.throw] at he
    simp only [hres, if_false] at he
    by_cases hkn : isKnownMethod m = true
    · simp only [hkn, not_true_eq_false, if_false] at he
      by_cases hcon : AMap.contains hs m = true
      · simp [hcon, throw, throwThe, MonadExceptOf.throw] at he
      simp only [hcon, Bool.false_eq_true, if_false] at he
      obtain ⟨ih1, ih2⟩ := ih _ hs' he
      have hmreg : IsReg m := by
        refine ⟨fun e => hres (.inr (.inl e)), fun e => hres (.inl e), fun e => ?_⟩
        rw [e] at hkn
        exact mem_table_consts.2.2.2.2 ((isKnownMethod_iff _).1 hkn)
      have hmnot : m ∉ hs.keys := fun hm => hcon ((AMap.contains_iff _ _).2 hm)
      constructor
      · intro k
        rw [ih1 k]
        by_cases hg : m = mGET
        · subst hg
          simp only [if_true, AMap.mem_keys_set, List.mem_cons]
          grind
        · simp only [hg, if_false, AMap.mem_keys_set, List.mem_cons]
          have hg' : ¬ mGET = m := fun e => hg e.symm
          simp only [hg', false_or]
          grind
      · intro x hx
        rcases List.mem_cons.1 hx with rfl | hx
        · exact ⟨hmreg, hmnot⟩
        · obtain ⟨g1, g2⟩ := ih2 x hx
          refine ⟨g1, fun hk => g2 ?_⟩
          split
          · simp only [AMap.mem_keys_set]; exact .inl (.inl hk)
          · simp only [AMap.mem_keys_set]; exact .inl hk
    · simp [hkn, throw, throwThe, MonadExceptOf.throw] at he

/-- The keys of the node `addMethodsNode` produces. -/
theorem addMethodsNode_keys {t : Tree} {h : Handler} {pattern : Bytes} {ms : List Nat} {methods : List Bytes}
    {n n' : Node} (he : t.addMethodsNode h pattern ms methods n = .ok n') :
    n'.seg = n.seg ∧ n'.pattern = n.pattern ∧ n'.children = n.children ∧ n'.indexes = n.indexes ∧
    (∀ k, k ∈ n'.handlers.keys ↔ k ∈ n.handlers.keys ∨ k ∈ methods ∨ (k = mHEAD ∧ mGET ∈ methods) ∨
      k = mOPTIONS ∨ k = mNotAllowed) ∧
    (∀ m ∈ methods, IsReg m ∧ m ∉ n.handlers.keys) := by
  unfold Tree.addMethodsNode at he
  simp only [bind, Except.bind, pure, Except.pure] at he
  split at he
  · cases he
  rename_i hs1 hloop
  simp only [Except.ok.injEq] at he
  subst he
  obtain ⟨h1, h2⟩ := addMethodsLoop_keys t h pattern ms methods _ _ hloop
  refine ⟨rfl, rfl, rfl, rfl, ?_, h2⟩
  intro k
  simp only [Node.setHandlers, Node.handlers_mk]
  have e1 : ∀ (hs : AMap Handler) (v : Handler) (a : Bytes),
      k ∈ (if hs.contains a = true then hs else hs.set a v).keys ↔ k ∈ hs.keys ∨ k = a := by
    intro hs v a
    split
    · rename_i hc
      constructor
      · exact .inl
      · rintro (h | rfl); exact h; exact (AMap.contains_iff _ _).1 hc
    · exact AMap.mem_keys_set _ _ _ _
  rw [e1, e1, h1 k]
  grind

theorem addMethodsNode_keeps (t : Tree) (h : Handler) (pattern : Bytes) (ms : List Nat) (methods : List Bytes) :
    KeepsShapeE (t.addMethodsNode h pattern ms methods) := by
  intro m m' he
  obtain ⟨h1, h2, h3, _⟩ := addMethodsNode_keys he
  exact ⟨h1, h2, h3⟩

theorem addMethodsNode_gq (t : Tree) (h : Handler) (pattern : Bytes) (ms : List Nat) (methods : List Bytes)
    (hne : methods ≠ []) (n n' : Node) (hn : Node.All (NodeOk (GQ t.hasTrace)) n)
    (he : t.addMethodsNode h pattern ms methods n = .ok n') : Node.All (NodeOk (GQ t.hasTrace)) n' := by
  have hgood := addMethodsNode_good t h pattern ms methods n n' (allGQ_good_node hn) he
  obtain ⟨_, _, hc, _, hk, hm⟩ := addMethodsNode_keys he
  rw [Node.All_iff] at hn hgood ⊢
  refine ⟨⟨⟨hgood.1.1, .inr ?_⟩, hgood.1.2⟩, by rw [hc]; exact hn.2⟩
  cases methods with
  | nil => exact absurd rfl hne
  | cons m rest => exact ⟨m, (hk m).2 (.inr (.inl (by simp))), (hm m (by simp)).1⟩

theorem removeMethods_keeps (ht : Bool) (methods : List Bytes) : KeepsShape (removeMethods ht methods) := by
  intro m; unfold removeMethods; simp [Node.setHandlers]

theorem removeMethods_gq (ht : Bool) (methods : List Bytes) (n : Node)
    (hn : Node.All (NodeOk (GQ ht)) n) : Node.All (NodeOk (GQ ht)) (removeMethods ht methods n) := by
  obtain ⟨c1, c2, c3, c4, c5, c6, c7, c8, c9, c10⟩ := method_consts_ne
  have hgood := removeMethods_good ht methods n (allGQ_good_node hn)
  have hc : (removeMethods ht methods n).children = n.children := (removeMethods_keeps ht methods n).2.2
  rw [Node.All_iff] at hn hgood ⊢
  refine ⟨⟨⟨hgood.1.1, ?_⟩, hgood.1.2⟩, by rw [hc]; exact hn.2⟩
  rcases hgood.1.1.2 with h0 | hshape
  · exact .inl h0
  · right
    -- the handler map is the fold, and the `length = 2` test failed
    have hhs := removeMethods_handlers ht methods n
    have hne : (removeMethods ht methods n).handlers ≠ [] := by
      intro e
      have := hshape.options
      rw [e] at this; simp [AMap.keys] at this
    rw [hhs] at hne
    split at hne
    · exact absurd rfl hne
    split at hne
    · exact absurd rfl hne
    rename_i hempty htest
    have heq : (removeMethods ht methods n).handlers = methods.foldl rmStep n.handlers := by
      rw [hhs, if_neg hempty, if_neg htest]
    rw [heq] at hshape ⊢
    generalize methods.foldl rmStep n.handlers = hs1 at hshape htest ⊢
    refine Classical.byContradiction fun hno => htest ⟨?_, (AMap.contains_iff _ _).2 hshape.options,
      (AMap.contains_iff _ _).2 hshape.notAllowed⟩
    have hsub : ∀ k ∈ hs1.keys, k ∈ [mOPTIONS, mNotAllowed] := by
      intro k hk
      by_cases ho : k = mOPTIONS
      · simp [ho]
      by_cases hna : k = mNotAllowed
      · simp [hna]
      exfalso
      by_cases hh : k = mHEAD
      · subst hh
        exact hno ⟨mGET, hshape.head_iff.1 hk, c1, c2, c3⟩
      · exact hno ⟨k, hk, hh, ho, hna⟩
    have hle := hshape.nodup.length_le_of_subset hsub
    have hnd2 : [mOPTIONS, mNotAllowed].Nodup := by simp [c8]
    have hsub2 : ∀ k ∈ [mOPTIONS, mNotAllowed], k ∈ hs1.keys := by
      intro k hk
      simp only [List.mem_cons, List.not_mem_nil, or_false] at hk
      rcases hk with rfl | rfl
      · exact hshape.options
      · exact hshape.notAllowed
    have hge := hnd2.length_le_of_subset hsub2
    have : hs1.keys.length = hs1.length := by simp [AMap.keys]
    simp only [List.length_cons, List.length_nil] at hle hge
    omega

theorem GQ_applyMw (ht : Bool) (router : Bytes) (ms : List Nat) (mi : Nat) (hs : AMap Handler) (p : Bytes)
    (h : GQ ht mi hs) : GQ ht mi (hs.map (fun e => (e.1, wrapWith e.2 e.1 p router ms))) := by
  refine ⟨GoodQ_applyMw ht router ms mi hs p h.1, ?_⟩
  have hk := AMap.keys_mapVals hs (fun k v => wrapWith v k p router ms)
  rcases h.2 with h0 | h0
  · subst h0; exact .inl rfl
  · right; rw [hk]; exact h0

end Mux.P11
