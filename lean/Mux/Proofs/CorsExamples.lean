/-
  Mux.Proofs.CorsExamples — concrete configurations, requests and a router used by the
  non-vacuity `example`s of C11 / C12.
-/
import Mux.Proofs.CorsConfig
import Mux.Proofs.CorsRouter
namespace Mux

deriving instance DecidableEq for Cors

namespace CorsEx

def origin : Bytes := bytesOfString "https://a.example"
def evil : Bytes := bytesOfString "https://evil.example"
def xId : Bytes := bytesOfString "X-Id"
def path : Bytes := bytesOfString "/a"
/-- `node.Methods()` / `node.AllowHeader()` of a node with a GET handler. -/
def nodeMethods : List Bytes := [mGET, mHEAD, mOPTIONS]
def nodeAllow : Bytes := bytesOfString "GET, HEAD, OPTIONS"

/-- `WithCORS([origin], ["Content-Type","X-Id"], ["X-Id"], 3600, true)` after `sanitize`. -/
def cfg : Cors :=
  { origins := [origin], anyOrigins := false, deny := false, allowHeaders := [hContentType, xId],
    allowHeadersString := bytesOfString "Content-Type,X-Id", anyHeaders := false,
    exposedHeadersString := xId, maxAgeString := bytesOfString "3600", allowCredentials := true }

/-- `WithCORS(["*"], ["*"], [], -1, false)` after `sanitize`. -/
def cfgStar : Cors :=
  { origins := [[42]], anyOrigins := true, deny := false, allowHeaders := [[42]],
    allowHeadersString := bytesOfString "*,Authorization", anyHeaders := true,
    exposedHeadersString := [], maxAgeString := bytesOfString "-1", allowCredentials := false }

/-- No `WithCORS` origins. -/
def cfgDeny : Cors := { deny := true }

/-- A browser-style preflight: lower-case header names, odd spacing. -/
def preflight : Hdr :=
  [(hOrigin, [origin]), (hACRM, [mGET]), (hACRH, [bytesOfString " content-type , x-id"])]
/-- Preflight for a method the node does not serve. -/
def preflightDelete : Hdr := [(hOrigin, [origin]), (hACRM, [mDELETE])]
/-- Preflight asking for a header outside the allowed list. -/
def preflightEvilHeader : Hdr :=
  [(hOrigin, [origin]), (hACRM, [mGET]), (hACRH, [bytesOfString "content-type,x-evil"])]
/-- A simple (non-preflight) request from the listed origin / from another origin. -/
def simple : Hdr := [(hOrigin, [origin])]
def simpleEvil : Hdr := [(hOrigin, [evil])]

def env : Env := ⟨fun _ _ => true⟩

/-- The tree of `NewRouter("r", WithCORS(…))` after `Handle("/a", h1, GET)`: the value the model's
`Router.new` / `Router.handle` compute (checked with `#eval` during development; written out
because `decide` cannot unfold the well-founded `getNode` used by `Tree.add`). -/
def tree : Tree :=
  { root := .mk { value := [], kind := .str, name := [], ignoreName := false, rule := [], suffix := [],
                  endpoint := false, re := .eps } [] 257
      [(mOPTIONS, { base := .options, wraps := [] }), (mNotAllowed, { base := .notAllowed, wraps := [] })] []
      [.mk { value := path, kind := .str, name := [], ignoreName := false, rule := [], suffix := [],
             endpoint := false, re := .eps } path 385
        [(mHEAD, { base := .user 1, wraps := [] }), (mGET, { base := .user 1, wraps := [] }),
         (mOPTIONS, { base := .options, wraps := [] }), (mNotAllowed, { base := .notAllowed, wraps := [] })] [] []],
    counts := [(mGET, 1)], ic := [], name := bytesOfString "r",
    notFound := { base := .notFound, wraps := [] }, trace := none,
    optionsBase := .options, notAllowedBase := .notAllowed }

def router : Router := { tree := tree, cors := cfg }

/-- `serveContext` ends in a call with `ok = true`, a node, and exactly these response headers. -/
def servedOK (r : Router) (req : Req) (want : Hdr) : Bool :=
  match r.serveContext env req [] with
  | .call c => c.ok && c.node.isSome && (c.respHeaders == want)
  | _ => false

/-- `serveContext` ends in a call with `ok = false` (404 / 405). -/
def servedNotOK (r : Router) (req : Req) : Bool :=
  match r.serveContext env req [] with
  | .call c => !c.ok
  | _ => false

end CorsEx
end Mux
