/-
  Mux.Proofs.RemoveNoFault — `Tree.remove` and `Tree.clean` cannot fail (their only error sites are
  faults: `buildIndexes` on an empty literal text, and an index path that leaves the tree) on a tree
  whose nodes below the root have non-empty texts: paths returned by `findPath` are valid.
-/
import Mux.Proofs.Names
namespace Mux.P9
open Mux

/-- Every node below the root has a non-empty segment text. -/
def ValsNonEmpty (t : Tree) : Prop := AllL (fun c => c.seg.value ≠ []) t.root.children

/-! ## `findPath` returns valid index paths -/

mutual
theorem findPath_valid : (n : Node) → (pat : Bytes) → (p : List Nat) → n.findPath pat = some p →
    (n.getAt p).isSome = true
  | .mk _ _ _ _ _ cs, pat, p, h => by
    simp only [Node.findPath] at h
    obtain ⟨j, p', c, rfl, hc, hg⟩ := findIn_valid cs 0 pat p h
    simp only [Nat.zero_add, Node.getAt_cons, Node.children_mk, hc, Option.bind_some]
    exact hg
theorem findIn_valid : (cs : List Node) → (i : Nat) → (pat : Bytes) → (p : List Nat) → findIn cs i pat = some p →
    ∃ j p' c, p = (i + j) :: p' ∧ cs[j]? = some c ∧ (c.getAt p').isSome = true
  | [], _, _, _, h => by simp [findIn] at h
  | c :: cs, i, pat, p, h => by
    have shift : (∃ j p' d, p = (i + 1 + j) :: p' ∧ cs[j]? = some d ∧ (d.getAt p').isSome = true) →
        ∃ j p' d, p = (i + j) :: p' ∧ (c :: cs)[j]? = some d ∧ (d.getAt p').isSome = true := by
      rintro ⟨j, p', d, rfl, h1, h2⟩
      exact ⟨j + 1, p', d, by congr 1; omega, by simpa using h1, h2⟩
    simp only [findIn] at h
    split at h
    · simp only [Option.some.injEq] at h
      subst h
      exact ⟨0, [], c, rfl, rfl, by simp⟩
    · split at h
      · split at h
        · rename_i p' hp'
          simp only [Option.some.injEq] at h
          subst h
          exact ⟨0, p', c, rfl, rfl, findPath_valid c _ p' hp'⟩
        · exact shift (findIn_valid cs (i + 1) pat p h)
      · exact shift (findIn_valid cs (i + 1) pat p h)
end

/-! ## `removeAt` along a valid path -/

theorem AllL_mem_val {cs : List Node} (h : AllL (fun c => c.seg.value ≠ []) cs) : ∀ c ∈ cs, c.seg.value ≠ [] :=
  fun _ hc => (AllL_mem h hc).head

theorem removeAt_ok (f : Node → Node) (hf : ∀ m, (f m).seg = m.seg ∧ (f m).children = m.children) :
    ∀ (path : List Nat) (n : Node), (n.getAt path).isSome = true → AllL (fun c => c.seg.value ≠ []) n.children →
      ∃ n', n.removeAt f path = .ok n' := by
  intro path
  induction path with
  | nil => intro n _ _; cases n; exact ⟨_, rfl⟩
  | cons i path ih =>
    intro n hg hne
    rw [Node.getAt_cons] at hg
    cases hc : n.children[i]? with
    | none => rw [hc] at hg; cases hg
    | some c =>
      rw [hc] at hg
      simp only [Option.bind_some] at hg
      have hcall := AllL_getElem? hne hc
      obtain ⟨c', hc'⟩ := ih c hg hcall.tail
      have hseg : c'.seg = c.seg := (removeAt_keeps [] f hf path c c' hc').1
      cases n with
      | mk s p mi hs idx cs =>
        simp only [Node.children_mk] at hc hne
        have hL : ∀ (cs : List Node) (i : Nat), cs[i]? = some c → (∀ x ∈ cs, x.seg.value ≠ []) →
            ∃ cs' d, removeAtL f cs i path = .ok (cs', d) ∧ ∀ x ∈ cs', x.seg.value ≠ [] := by
          intro cs
          induction cs with
          | nil => intro i h; simp at h
          | cons x cs ihc =>
            intro i h hv
            cases i with
            | zero =>
              simp only [List.getElem?_cons_zero, Option.some.injEq] at h
              subst h
              simp only [removeAtL, bind, Except.bind, hc', pure, Except.pure]
              split
              · exact ⟨_, _, rfl, fun y hy => hv y (by simp [hy])⟩
              · refine ⟨_, _, rfl, fun y hy => ?_⟩
                rcases List.mem_cons.1 hy with rfl | hy
                · rw [hseg]; exact hv _ (by simp)
                · exact hv y (by simp [hy])
            | succ i =>
              simp only [List.getElem?_cons_succ] at h
              obtain ⟨cs', d, h1, h2⟩ := ihc i h (fun y hy => hv y (by simp [hy]))
              simp only [removeAtL, bind, Except.bind, h1, pure, Except.pure]
              refine ⟨_, _, rfl, fun y hy => ?_⟩
              rcases List.mem_cons.1 hy with rfl | hy
              · exact hv _ (by simp)
              · exact h2 y hy
        obtain ⟨cs', d, h1, h2⟩ := hL cs i hc (AllL_mem_val hne)
        simp only [Node.removeAt, bind, Except.bind, h1, pure, Except.pure]
        cases d with
        | false => exact ⟨_, rfl⟩
        | true =>
          obtain ⟨idx', hidx'⟩ := buildIndexes_ok h2
          simp [hidx']

/-- `Tree.Remove` always succeeds on a tree whose nodes have non-empty texts. -/
theorem remove_ok {t : Tree} (hne : ValsNonEmpty t) (p : Bytes) (methods : List Bytes) :
    ∃ t', t.remove p methods = .ok t' := by
  unfold Tree.remove
  split
  · exact ⟨t, rfl⟩
  · rename_i path hpath
    obtain ⟨root1, h1⟩ := removeAt_ok (removeMethods t.hasTrace methods) (removeMethods_fields t.hasTrace methods)
      path t.root (findPath_valid t.root p path hpath) hne
    simp [bind, Except.bind, h1, pure, Except.pure]

/-! ## `clean` -/

theorem clean_ok : ∀ (n : Node) (pre : Bytes), AllL (fun c => c.seg.value ≠ []) n.children →
    ∃ n', n.clean pre = .ok n' := by
  intro n
  induction n using Node.rec (motive_2 := fun cs => ∀ pre, AllL (fun c => c.seg.value ≠ []) cs →
      ∃ cs', cleanL cs pre = .ok cs' ∧ ∀ x ∈ cs', x.seg.value ≠ []) with
  | mk s p mi hs idx cs ih =>
    intro pre hne
    simp only [Node.clean]
    split
    · exact ⟨_, rfl⟩
    · obtain ⟨cs1, h1, h2⟩ := ih pre hne
      simp only [bind, Except.bind, h1, pure, Except.pure]
      obtain ⟨idx', hidx'⟩ := buildIndexes_ok (cs := List.foldl removeNodes cs1
        (List.map (fun x => x.seg.value) (List.filter (fun c => hasPrefix c.seg.value pre) cs1)))
        (fun x hx => h2 x ((foldl_removeNodes_sublist _ _).subset hx))
      simp [hidx']
  | nil => rename_i pre _; exact ⟨[], rfl, by simp⟩
  | cons c cs ih1 ih2 =>
    rename_i pre hne
    unfold AllL at hne
    obtain ⟨cs1, h1, h2⟩ := ih2 pre hne.2
    simp only [cleanL, bind, Except.bind, pure, Except.pure]
    by_cases hcond : c.seg.value.length < pre.length ∧ hasPrefix pre c.seg.value = true
    · simp only [hcond, and_self, if_true]
      obtain ⟨c', hc'⟩ := ih1 (pre.drop c.seg.value.length) hne.1.tail
      have hseg : c'.seg = c.seg := (clean_keeps [] c _ c' hc').1
      simp only [hc', h1]
      refine ⟨_, rfl, fun y hy => ?_⟩
      rcases List.mem_cons.1 hy with rfl | hy
      · rw [hseg]; exact hne.1.head
      · exact h2 y hy
    · simp only [hcond, if_false, h1]
      refine ⟨_, rfl, fun y hy => ?_⟩
      rcases List.mem_cons.1 hy with rfl | hy
      · exact hne.1.head
      · exact h2 y hy

/-- `Tree.Clean` always succeeds on a tree whose nodes have non-empty texts. -/
theorem treeClean_ok {t : Tree} (hne : ValsNonEmpty t) (pre : Bytes) : ∃ t', t.clean pre = .ok t' := by
  obtain ⟨root1, h1⟩ := clean_ok t.root pre hne
  unfold Tree.clean
  simp [bind, Except.bind, h1, pure, Except.pure]

/-! ## Well-formed trees have non-empty texts -/

theorem valsNonEmpty_of_wf {t : Tree} (h : WellFormedTree t) : ValsNonEmpty t := by
  have := wfL_all_segOk t.root [] h
  exact (AllL_mono (fun n (hn : SegOk t.ic n.seg) => hn.ne)).2 _ this

end Mux.P9
