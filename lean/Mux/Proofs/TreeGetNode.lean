/-
  Mux.Proofs.TreeGetNode — the generic preservation lemma for `getNode` (`addSegment`/`splitNode`):
  every node predicate of the form `NodeOk Q` (a property of `(methodIndex, handlers)` that holds for
  `(0, [])`, plus "stored index positions are in range") survives the restructuring, the node the
  function was called on keeps its `seg/pattern/methodIndex/handlers`, and the returned index path
  is non-empty and valid.
-/
import Mux.Proofs.TreeBasic
namespace Mux

/-! ## `getAt` along lists -/

theorem getAtL_eq (cs : List Node) (i : Nat) (p : List Nat) :
    getAtL cs i p = (cs[i]?).bind (fun c => c.getAt p) := by
  induction cs generalizing i with
  | nil => simp [getAtL]
  | cons c cs ih =>
    cases i with
    | zero => simp [getAtL]
    | succ i => simp [getAtL, ih]

theorem Node.getAt_cons (n : Node) (i : Nat) (p : List Nat) :
    n.getAt (i :: p) = (n.children[i]?).bind (fun c => c.getAt p) := by
  cases n; simp [Node.getAt, getAtL_eq]

@[simp] theorem Node.getAt_nil (n : Node) : n.getAt [] = some n := by
  cases n; simp [Node.getAt]

/-- A node reached by a non-empty index path below children that all satisfy `P` satisfies `P`. -/
theorem AllL_getAt {P : Node → Prop} :
    ∀ (p : List Nat) (n m : Node), Node.All P n → n.getAt p = some m → Node.All P m := by
  intro p
  induction p with
  | nil => intro n m h hm; simp at hm; exact hm ▸ h
  | cons i p ih =>
    intro n m h hm
    rw [Node.getAt_cons] at hm
    cases hc : n.children[i]? with
    | none => simp [hc] at hm
    | some c =>
      simp only [hc, Option.bind_some] at hm
      exact ih c m (AllL_getElem? h.tail hc) hm

/-! ## The postcondition of `getNode` -/

/-- What `getNode ic n v rest = .ok r` guarantees about `r = (n', path)`. -/
def GNPost (Q : Nat → AMap Handler → Prop) (n : Node) (r : Node × List Nat) : Prop :=
  IdxOk r.1 ∧ AllL (NodeOk Q) r.1.children ∧ r.1.handlers = n.handlers ∧
    r.1.methodIndex = n.methodIndex ∧ r.1.seg = n.seg ∧ r.1.pattern = n.pattern ∧
    r.2 ≠ [] ∧ (r.1.getAt r.2).isSome = true

/-- The situation just before `getNode` descends: `n1` is the restructured `n`, `parent` sits (or
is about to be put) at position `j`. -/
structure GNBase (Q : Nat → AMap Handler → Prop) (n n1 parent : Node) (j : Nat) : Prop where
  idx1 : IdxOk n1
  all1 : AllL (NodeOk Q) n1.children
  hs1 : n1.handlers = n.handlers
  mi1 : n1.methodIndex = n.methodIndex
  seg1 : n1.seg = n.seg
  pat1 : n1.pattern = n.pattern
  hj : j < n1.children.length
  idxp : IdxOk parent
  allp : AllL (NodeOk Q) parent.children
  qp : Q parent.methodIndex parent.handlers

theorem GNBase.leaf {Q n n1 parent j} (b : GNBase Q n n1 parent j) : GNPost Q n (n1, [j]) := by
  refine ⟨b.idx1, b.all1, b.hs1, b.mi1, b.seg1, b.pat1, by simp, ?_⟩
  simp only [Node.getAt_cons]
  have := b.hj
  simp [List.getElem?_eq_getElem this]

theorem GNBase.descend {Q n n1 parent j} (b : GNBase Q n n1 parent j) {res : Node × List Nat}
    (hp : GNPost Q parent res) :
    GNPost Q n (n1.setChildren (n1.children.set j res.1) n1.indexes, j :: res.2) := by
  obtain ⟨hi, ha, hh, hm, _, _, _, hg⟩ := hp
  have hres : Node.All (NodeOk Q) res.1 := by
    rw [Node.All_iff]
    exact ⟨⟨by rw [hm, hh]; exact b.qp, hi⟩, ha⟩
  refine ⟨?_, ?_, ?_, ?_, ?_, ?_, by simp, ?_⟩
  · intro e he
    have := b.idx1 e he
    simpa [Node.setChildren] using this
  · simpa [Node.setChildren] using AllL_set b.all1 hres
  · simpa [Node.setChildren] using b.hs1
  · simpa [Node.setChildren] using b.mi1
  · simpa [Node.setChildren] using b.seg1
  · simpa [Node.setChildren] using b.pat1
  · simp only [Node.getAt_cons, Node.setChildren, Node.children_mk]
    have := b.hj
    simp [this, hg]

theorem childPos_lt {cs : List Node} {v : Bytes} {j : Nat} (h : childPos cs v = some j) : j < cs.length := by
  unfold childPos at h
  rw [List.findIdx?_eq_some_iff_getElem] at h
  exact h.1

/-- `sortNode` after replacing the children: the base situation for the new position `j`. -/
theorem GNBase.ofSort {Q n n1 parent j} {cs : List Node} (hall : AllL (NodeOk Q) cs)
    (hs : sortNode (n.setChildren cs n.indexes) = .ok n1) (hj : j < n1.children.length)
    (idxp : IdxOk parent) (allp : AllL (NodeOk Q) parent.children)
    (qp : Q parent.methodIndex parent.handlers) : GNBase Q n n1 parent j := by
  have hidx := sortNode_IdxOk hs
  obtain ⟨idx, _, rfl⟩ := sortNode_ok hs
  refine ⟨hidx, ?_, rfl, rfl, rfl, rfl, hj, idxp, allp, qp⟩
  simpa [Node.setChildren] using (AllL_sortChildren).2 hall

set_option hygiene false in
/-- The common tail of the "similar child" branch of `getNode` (used twice). -/
local macro "gn_tail" parent:term : tactic => `(tactic|
  (split at h
   · split at h
     · simp only [pure, Except.pure, Except.ok.injEq] at h
       subst h; exact b.leaf
     · have ih := ih1 $parent
       simp only at ih
       split at h
       · simp at h
       rename_i res hres
       simp only [pure, Except.pure, Except.ok.injEq] at h
       subst h
       exact b.descend (ih res b.idxp b.allp hres)
   · rename_i hvl
     split at h
     · simp at h
     rename_i res hres
     simp only [pure, Except.pure, Except.ok.injEq] at h
     subst h
     exact b.descend (ih3 l hl $parent hvl res b.idxp b.allp hres)))

theorem getNode_post (ic : Interceptors) (Q : Nat → AMap Handler → Prop) (hQ0 : Q 0 [])
    (n : Node) (v : Bytes) (rest : List Bytes) :
    ∀ r, IdxOk n → AllL (NodeOk Q) n.children → getNode ic n v rest = .ok r → GNPost Q n r := by
  induction n, v, rest using getNode.induct with
  | _ n v rest ih1 ih2 ih3 =>
    intro r hidx hall h
    rw [getNode] at h
    simp only [bind, Except.bind] at h
    split at h
    · simp at h
    rename_i seg hseg
    split at h
    · -- an identical child exists
      rename_i i _
      split at h
      · simp [throw, throwThe, MonadExceptOf.throw] at h
      rename_i c hc
      have hcAll := AllL_getElem? hall hc
      have b : GNBase Q n n c i :=
        ⟨hidx, hall, rfl, rfl, rfl, rfl, (List.getElem?_eq_some_iff.1 hc).1,
          hcAll.head.2, hcAll.tail, hcAll.head.1⟩
      split at h
      · simp only [pure, Except.pure, Except.ok.injEq] at h
        subst h; exact b.leaf
      · rename_i v' rest'
        have ih := ih1 c
        simp only at ih
        split at h
        · simp at h
        rename_i res hres
        simp only [pure, Except.pure, Except.ok.injEq] at h
        subst h
        exact b.descend (ih res b.idxp b.allp hres)
    · rename_i l i _
      split at h
      · -- a new leaf
        split at h
        · simp at h
        rename_i n1 hn1
        split at h
        · simp [throw, throwThe, MonadExceptOf.throw] at h
        rename_i j hj
        have hleaf : Node.All (NodeOk Q) (newLeaf n.pattern seg) := by
          simp only [newLeaf, Node.All, AllL, and_true]
          exact ⟨hQ0, by intro e he; simp at he⟩
        have b : GNBase Q n n1 (newLeaf n.pattern seg) j :=
          GNBase.ofSort (AllL_append.2 ⟨hall, by simp only [AllL, and_true]; exact hleaf⟩) hn1
            (childPos_lt hj) hleaf.head.2 hleaf.tail hleaf.head.1
        split at h
        · simp only [pure, Except.pure, Except.ok.injEq] at h
          subst h; exact b.leaf
        · rename_i v' rest'
          have ih := ih2 seg
          simp only at ih
          split at h
          · simp at h
          rename_i res hres
          simp only [pure, Except.pure, Except.ok.injEq] at h
          subst h
          exact b.descend (ih res b.idxp b.allp hres)
      · -- a similar child: split it if necessary, then descend
        rename_i hl
        split at h
        · simp [throw, throwThe, MonadExceptOf.throw] at h
        rename_i c hc
        have hcAll := AllL_getElem? hall hc
        split at h
        · -- no split needed
          simp only [pure, Except.pure] at h
          have b : GNBase Q n n c i :=
            ⟨hidx, hall, rfl, rfl, rfl, rfl, (List.getElem?_eq_some_iff.1 hc).1,
              hcAll.head.2, hcAll.tail, hcAll.head.1⟩
          gn_tail c
        · split at h
          · simp at h
          rename_i ss hss
          split at h
          · simp at h
          rename_i ret hret
          split at h
          · simp at h
          rename_i n1 hn1
          split at h
          · simp [throw, throwThe, MonadExceptOf.throw] at h
          rename_i j hj
          simp only [pure, Except.pure] at h
          -- the lower half keeps `c`'s handlers, indexes and children
          have hlower : Node.All (NodeOk Q) (c.setSeg ss.2) := by
            rw [Node.All_iff] at hcAll ⊢
            exact hcAll
          have hret' := sortNode_ok hret
          obtain ⟨idxr, hidxr, hreteq⟩ := hret'
          have hretIdx := sortNode_IdxOk hret
          have hretAll : AllL (NodeOk Q) ret.children := by
            rw [hreteq]
            simp only [Node.setChildren, Node.children_mk]
            rw [AllL_sortChildren]
            simp only [AllL, and_true]; exact hlower
          have hretQ : Q ret.methodIndex ret.handlers := by
            rw [hreteq]; exact hQ0
          have hretN : Node.All (NodeOk Q) ret := by
            rw [Node.All_iff]; exact ⟨⟨hretQ, hretIdx⟩, hretAll⟩
          have b : GNBase Q n n1 ret j :=
            GNBase.ofSort
              (AllL_append.2 ⟨AllL_removeNodes _ hall, by simp only [AllL, and_true]; exact hretN⟩)
              hn1 (childPos_lt hj) hretIdx hretAll hretQ
          gn_tail ret
