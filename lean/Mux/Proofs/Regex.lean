/-
  Mux.Proofs.Regex — the backtracking engine `Re.m` is sound and complete with respect to the
  denotational semantics `Re.Denotes`; consequences for `rxMatch`.
-/
import Mux.Spec.Defs
namespace Mux

/-! ## `starM` -/

theorem starM_sound {α : Type} (c : Cls) (s : Bytes) (k : Bytes → Option α) (x : α)
    (h : starM c s k = some x) :
    ∃ s1 s2, s = s1 ++ s2 ∧ Re.Denotes (.star c) s1 ∧ k s2 = some x := by
  induction s with
  | nil =>
    simp only [starM] at h
    exact ⟨[], [], rfl, .starNil, h⟩
  | cons b s ih =>
    simp only [starM] at h
    split at h
    · rename_i hb
      split at h
      · rename_i y hy
        cases h
        obtain ⟨s1, s2, rfl, hd, hk⟩ := ih hy
        exact ⟨b :: s1, s2, rfl, .starCons hb hd, hk⟩
      · exact ⟨[], b :: s, rfl, .starNil, h⟩
    · exact ⟨[], b :: s, rfl, .starNil, h⟩

/-- If the continuation accepts the whole input, `starM` succeeds (possibly with a longer match). -/
theorem starM_isSome_of_k {α : Type} (c : Cls) (s : Bytes) (k : Bytes → Option α)
    (h : (k s).isSome) : (starM c s k).isSome := by
  cases s with
  | nil => simpa [starM] using h
  | cons b s =>
    simp only [starM]
    split
    · split
      · rfl
      · exact h
    · exact h

theorem starM_complete {α : Type} (c : Cls) (s1 s2 : Bytes) (k : Bytes → Option α)
    (hd : Re.Denotes (.star c) s1) (hk : (k s2).isSome) : (starM c (s1 ++ s2) k).isSome := by
  induction s1 with
  | nil => exact starM_isSome_of_k c _ k hk
  | cons b s ih =>
    cases hd with
    | starCons hb hs =>
      have := ih hs
      simp only [List.cons_append, starM, hb, if_true]
      split
      · rfl
      · rename_i hn
        rw [hn] at this
        cases this

/-! ## `Re.m` -/

theorem Re.m_sound {α : Type} (r : Re) (s : Bytes) (k : Bytes → Option α) (x : α)
    (h : r.m s k = some x) :
    ∃ s1 s2, s = s1 ++ s2 ∧ Re.Denotes r s1 ∧ k s2 = some x := by
  induction r generalizing s k with
  | eps => exact ⟨[], s, rfl, .eps, h⟩
  | cls c =>
    cases s with
    | nil => simp [Re.m] at h
    | cons b s' =>
      simp only [Re.m] at h
      split at h
      · rename_i hb
        exact ⟨[b], s', rfl, .cls hb, h⟩
      · cases h
  | seq a b iha ihb =>
    simp only [Re.m] at h
    obtain ⟨s1, s2, rfl, hda, hk⟩ := iha _ _ h
    obtain ⟨t1, t2, rfl, hdb, hk'⟩ := ihb _ _ hk
    exact ⟨s1 ++ t1, t2, by simp, .seq hda hdb, hk'⟩
  | alt a b iha ihb =>
    simp only [Re.m] at h
    split at h
    · rename_i y hy
      cases h
      obtain ⟨s1, s2, rfl, hd, hk⟩ := iha _ _ hy
      exact ⟨s1, s2, rfl, .altL hd, hk⟩
    · obtain ⟨s1, s2, rfl, hd, hk⟩ := ihb _ _ h
      exact ⟨s1, s2, rfl, .altR hd, hk⟩
  | star c => exact starM_sound c s k x h
  | plus c =>
    cases s with
    | nil => simp [Re.m] at h
    | cons b s' =>
      simp only [Re.m] at h
      split at h
      · rename_i hb
        obtain ⟨s1, s2, rfl, hd, hk⟩ := starM_sound c s' k x h
        exact ⟨b :: s1, s2, rfl, .plus hb hd, hk⟩
      · cases h
  | opt r ih =>
    simp only [Re.m] at h
    split at h
    · rename_i y hy
      cases h
      obtain ⟨s1, s2, rfl, hd, hk⟩ := ih _ _ hy
      exact ⟨s1, s2, rfl, .optSome hd, hk⟩
    · exact ⟨[], s, rfl, .optNone, h⟩

private theorem isSome_match_or {α : Type} (o p : Option α) (h : o.isSome ∨ p.isSome) :
    (match o with | some x => some x | none => p).isSome := by
  cases o with
  | some x => rfl
  | none => simpa using h

/-- Completeness: if `r` denotes `s1` and the continuation accepts `s2`, the engine finds *some*
split of `s1 ++ s2` (not necessarily this one: it returns the first in priority order). -/
theorem Re.m_complete {α : Type} (r : Re) (s1 s2 : Bytes) (k : Bytes → Option α)
    (hd : Re.Denotes r s1) (hk : (k s2).isSome) : (r.m (s1 ++ s2) k).isSome := by
  induction hd generalizing s2 k with
  | eps => exact hk
  | cls hb => simpa [Re.m, hb] using hk
  | @seq a b s t _ _ iha ihb =>
    simp only [Re.m, List.append_assoc]
    exact iha (t ++ s2) _ (ihb s2 k hk)
  | altL _ ih =>
    simp only [Re.m]
    exact isSome_match_or _ _ (.inl (ih s2 k hk))
  | altR _ ih =>
    simp only [Re.m]
    exact isSome_match_or _ _ (.inr (ih s2 k hk))
  | starNil => exact starM_isSome_of_k _ _ k hk
  | starCons hb hs _ =>
    exact starM_complete _ _ _ k (.starCons hb hs) hk
  | plus hb hs _ =>
    simp only [List.cons_append, Re.m, hb, if_true]
    exact starM_complete _ _ _ k hs hk
  | optNone =>
    simp only [Re.m]
    exact isSome_match_or _ _ (.inr hk)
  | optSome _ ih =>
    simp only [Re.m]
    exact isSome_match_or _ _ (.inl (ih s2 k hk))

/-- The engine fails exactly when no split is accepted. -/
theorem Re.m_eq_none_iff {α : Type} (r : Re) (s : Bytes) (k : Bytes → Option α) :
    r.m s k = none ↔ ∀ s1 s2, s = s1 ++ s2 → Re.Denotes r s1 → k s2 = none := by
  constructor
  · intro h s1 s2 hs hd
    cases hk : k s2 with
    | none => rfl
    | some y =>
      have := Re.m_complete r s1 s2 k hd (by simp [hk])
      rw [← hs, h] at this
      cases this
  · intro h
    cases hm : r.m s k with
    | none => rfl
    | some x =>
      obtain ⟨s1, s2, hs, hd, hk⟩ := Re.m_sound r s k x hm
      rw [h s1 s2 hs hd] at hk
      cases hk

/-! ## `rxMatch` -/

theorem isPrefixOf_eq_append {l p : Bytes} (h : p.isPrefixOf l = true) : l = p ++ l.drop p.length := by
  rw [List.isPrefixOf_iff_prefix] at h
  obtain ⟨t, rfl⟩ := h
  simp

theorem rxMatch_sound (re : Re) (suffix path cap rest : Bytes)
    (h : rxMatch re suffix path = some (cap, rest)) :
    path = cap ++ suffix ++ rest ∧ Re.Denotes re cap := by
  unfold rxMatch at h
  obtain ⟨s1, s2, hs, hd, hk⟩ := Re.m_sound _ _ _ _ h
  split at hk
  · rename_i hp
    simp only [Option.some.injEq, Prod.mk.injEq] at hk
    obtain ⟨hc, hr⟩ := hk
    have hcap : cap = s1 := by
      rw [← hc, hs]; simp
    subst hcap
    refine ⟨?_, hd⟩
    rw [hs, List.append_assoc, ← hr, ← isPrefixOf_eq_append hp]
  · cases hk

theorem rxMatch_complete (re : Re) (suffix v rest : Bytes) (h : Re.Denotes re v) :
    (rxMatch re suffix (v ++ suffix ++ rest)).isSome := by
  unfold rxMatch
  rw [List.append_assoc]
  apply Re.m_complete _ _ _ _ h
  simp

/-- `rxMatch` fails exactly when no prefix denoted by the rule is followed by the suffix. -/
theorem rxMatch_eq_none_iff (re : Re) (suffix path : Bytes) :
    rxMatch re suffix path = none ↔
      ∀ v rest, path = v ++ suffix ++ rest → ¬ Re.Denotes re v := by
  constructor
  · intro h v rest hp hd
    have := rxMatch_complete re suffix v rest hd
    rw [← hp, h] at this
    cases this
  · intro h
    cases hm : rxMatch re suffix path with
    | none => rfl
    | some x =>
      obtain ⟨cap, rest⟩ := x
      obtain ⟨hp, hd⟩ := rxMatch_sound _ _ _ _ _ hm
      exact absurd hd (h cap rest hp)

/-- `rxMatch` is a function of its arguments and its result splits the path (the `RxSem`
interface of DESIGN §4.1). -/
theorem rxMatch_cap_prefix (re : Re) (suffix path cap rest : Bytes)
    (h : rxMatch re suffix path = some (cap, rest)) : cap <+: path := by
  obtain ⟨hp, _⟩ := rxMatch_sound _ _ _ _ _ h
  exact ⟨suffix ++ rest, by rw [hp]; simp⟩

/-! ## Non-vacuity / regression examples -/

section Examples
private def d : Cls := ⟨false, clsDigit⟩

-- `\d+` followed by `/` on `12/x`: captures `12`, rest `x`.
example : rxMatch (.plus d) [47] [49, 50, 47, 120] = some ([49, 50], [120]) := by decide
-- the engine backtracks: `\d*` followed by the suffix `1` on `111`
example : rxMatch (.star d) [49] [49, 49, 49] = some ([49, 49], []) := by decide
-- priority order: `(1|12)` followed by `` on `12` takes the first alternative
example : rxMatch (.alt (.cls ⟨false, [(49, 49)]⟩) (.seq (.cls ⟨false, [(49, 49)]⟩) (.cls ⟨false, [(50, 50)]⟩)))
    [] [49, 50] = some ([49], [50]) := by decide
example : Re.Denotes (.plus d) [49, 50] := .plus (by decide) (.starCons (by decide) .starNil)
end Examples

end Mux
