/-
  Mux.Proofs.RestoreGroup — the exact parameter law of `Tree.handler` / `Router.serveContext` for ARBITRARY incoming
  parameters with one entry per key, after the D30 repair (no disjointness between the incoming keys and the names of
  the tree): a found route reports `setAll ps (captures chain)`, a 404 reports `ps`.
-/
import Mux.Proofs.RestoreMatch
import Mux.Proofs.GroupLiftServe
import Mux.Proofs.GroupLiftReach
namespace Mux.P19
open Mux Mux.P18

theorem setCaps_eq_setAll (ps : Params) (caps : List (Bytes × Bytes)) : setCaps ps caps = setAll ps caps := rfl

/-- **Found, arbitrary incoming parameters, exact.**  Only `IdxLit` and "one entry per key" are needed for the
equation; with the names hypothesis of the tree (`NamesOkL []`, distinct names along each chain) the capture names are
pairwise distinct, so every capture can be looked up, every other key has its incoming value, and when no incoming key
is a name of the tree the fold is the concatenation. -/
theorem found_exact (env : Env) (t : Tree) (hI : Node.All IdxLit t.root)
    (path method : Bytes) (ps : Params) (hnd : ps.keys.Nodup) (f : Found) (n : Node)
    (hp : path ≠ []) (hs : path ≠ [42]) (htr : t.trace = none ∨ method ≠ mTRACE)
    (h : t.handler env path ps method = .res f) (hf : f.node = some n) :
    ∃ chain : List (Seg × Bytes),
      chain ≠ [] ∧ Chain t.root (chain.map (·.1)) n ∧ path = instChain chain ∧
      (∀ sv ∈ chain, sv.1.Satisfies env t.ic sv.2) ∧ n.handlers ≠ [] ∧ HandlerAgrees n method f ∧
      f.params = setAll ps (captures chain) ∧
      (∀ k, k ∉ (captures chain).map (·.1) → f.params.get? k = ps.get? k) ∧
      (NamesOkL [] t.root.children →
        ((captures chain).map (·.1)).Nodup ∧
        (∀ k v, (k, v) ∈ captures chain → f.params.get? k = some v) ∧
        ((∀ k ∈ ps.keys, k ∉ treeNames t) → f.params = ps ++ captures chain)) := by
  obtain ⟨chain, c1, c2, c3, c4, c5, c6, c7⟩ := handler_found_restore hI hnd hp hs htr h hf
  rw [setCaps_eq_setAll] at c5
  refine ⟨chain, c1, c2, c3, c4, c6, c7, c5, ?_, ?_⟩
  · intro k hk
    rw [c5]; exact get?_setAll_other _ _ hk
  · intro hN
    obtain ⟨hcn, _⟩ := chain_names ((Node.namesOk_iff [] t.root).2 hN) c2
    refine ⟨hcn, ?_, ?_⟩
    · intro k v hkv
      rw [c5]; exact get?_setAll_mem _ _ hcn hkv
    · intro hd
      rw [c5]
      refine setAll_fresh _ _ hcn ?_
      intro k hk hmem
      exact hd k hmem (captures_keys_treeNames c2 k hk)

/-- **404, arbitrary incoming parameters, exact**: the router's own not-found handler and exactly `ps`. -/
theorem notFound_exact (env : Env) (t : Tree) (hI : Node.All IdxLit t.root)
    (path method : Bytes) (ps : Params) (hnd : ps.keys.Nodup) (f : Found)
    (h : t.handler env path ps method = .res f) (hf : f.node = none) :
    f.params = ps ∧ f.handler = t.notFound ∧ f.ok = false :=
  handler_404_restore hI hnd h hf

/-- The call of `Router.serveContext` on a reachable tree, any incoming parameters with one entry per key. -/
theorem router_call_exact (env : Env) (r : Router) (hr : P14.ReachAll r.tree) (req : Req) (ps : Params)
    (hnd : ps.keys.Nodup) (c : Call) (h : r.serveContext env req ps = .call c) :
    (∀ n, c.node = some n → req.path ≠ [] → req.path ≠ [42] → (r.tree.trace = none ∨ req.method ≠ mTRACE) →
      ∃ chain : List (Seg × Bytes), chain ≠ [] ∧ Chain r.tree.root (chain.map (·.1)) n ∧ req.path = instChain chain ∧
        (∀ sv ∈ chain, sv.1.Satisfies env r.tree.ic sv.2) ∧
        c.params = setAll ps (captures chain) ∧ ((captures chain).map (·.1)).Nodup ∧
        (∀ k v, (k, v) ∈ captures chain → c.params.get? k = some v) ∧
        (∀ k, k ∉ (captures chain).map (·.1) → c.params.get? k = ps.get? k) ∧
        ((∀ k ∈ ps.keys, k ∉ treeNames r.tree) → c.params = ps ++ captures chain) ∧
        n.pattern = (chain.map (·.1.value)).flatten ∧ HandlerAgrees n req.method (Call.found c)) ∧
    (c.node = none → c.params = ps ∧ c.handler = r.tree.notFound ∧ c.ok = false) := by
  obtain ⟨hf, _, _, _, _⟩ := serveContext_call_found env r req ps c h
  refine ⟨fun n hn hp hs htr => ?_, fun hn => ?_⟩
  · obtain ⟨chain, c1, c2, c3, c4, _, c6, c7, c8, c9⟩ :=
      found_exact env r.tree hr.inv.idxLit req.path req.method ps hnd (Call.found c) n hp hs htr hf hn
    obtain ⟨d1, d2, d3⟩ := c9 hr.inv.names
    refine ⟨chain, c1, c2, c3, c4, c7, d1, d2, c8, d3, ?_, c6⟩
    have := (chain_pattern c2 hr.inv.patternOk).1
    rw [hr.inv.rootPat, List.nil_append] at this
    simpa [List.map_map, Function.comp_def] using this
  · exact notFound_exact env r.tree hr.inv.idxLit req.path req.method ps hnd (Call.found c) hf hn

end Mux.P19
