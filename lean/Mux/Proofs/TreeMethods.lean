/-
  Mux.Proofs.TreeMethods — what a `Good` node's method index renders to.
-/
import Mux.Proofs.TreeVals
namespace Mux

/-- The methods registered by hand on a node: its keys without HEAD, OPTIONS and the 405 key. -/
def Node.registered (n : Node) : List Bytes :=
  n.handlers.keys.filter (fun k => k ≠ mHEAD ∧ k ≠ mOPTIONS ∧ k ≠ mNotAllowed)

/-- The list whose bits make up the method index of a node with handlers. -/
def maskKeys (ht : Bool) (hs : AMap Handler) : List Bytes :=
  hs.keys.filter (· ≠ mNotAllowed) ++ (if ht then [mTRACE] else [])

theorem sum_map_filter_zero {α} (l : List α) (p : α → Bool) (f : α → Nat) (h : ∀ x ∈ l, p x = false → f x = 0) :
    ((l.filter p).map f).sum = (l.map f).sum := by
  induction l with
  | nil => rfl
  | cons x xs ih =>
    have ih' := ih (fun y hy => h y (by simp [hy]))
    by_cases hx : p x = true
    · simp [hx, ih']
    · have := h x (by simp) (by simpa using hx)
      simp [hx, ih', this]

theorem nodeMethodIndex_eq_mask (ht : Bool) (hs : AMap Handler) (hne : hs ≠ []) :
    nodeMethodIndex ht hs = ((maskKeys ht hs).map methodBit).sum := by
  unfold nodeMethodIndex maskKeys
  have h1 : hs.map (fun e => methodBit e.1) = hs.keys.map methodBit := by
    simp [AMap.keys, List.map_map, Function.comp_def]
  have h2 : ((hs.keys.filter (· ≠ mNotAllowed)).map methodBit).sum = (hs.keys.map methodBit).sum := by
    apply sum_map_filter_zero
    intro x _ hx
    have : x = mNotAllowed := by simpa using hx
    rw [this]; exact methodBit_notAllowed
  have hlen : hs.length > 0 := by
    cases hs with
    | nil => exact absurd rfl hne
    | cons _ _ => simp
  rw [h1, List.map_append, List.sum_append, h2]
  cases ht <;> simp [hlen]

theorem maskKeys_nodup {ht : Bool} {hs : AMap Handler} (h : KeyShape ht hs) : (maskKeys ht hs).Nodup := by
  unfold maskKeys
  rw [List.nodup_append]
  refine ⟨h.nodup.filter _, by cases ht <;> simp, ?_⟩
  intro a ha b hb
  cases ht with
  | false => simp at hb
  | true =>
    simp at hb; subst hb
    intro hab; subst hab
    rcases h.adm _ (List.mem_filter.1 ha).1 with h0 | h0
    · exact method_consts_ne.2.2.2.2.2.2.2.2.2 h0
    · exact h0.2 rfl rfl

theorem maskKeys_subset {ht : Bool} {hs : AMap Handler} (h : KeyShape ht hs) :
    ∀ k ∈ maskKeys ht hs, k ∈ methodsTable := by
  intro k hk
  unfold maskKeys at hk
  rw [List.mem_append] at hk
  rcases hk with hk | hk
  · have hk' := List.mem_filter.1 hk
    rcases h.adm _ hk'.1 with h0 | h0
    · simp [h0] at hk'
    · exact h0.1
  · cases ht with
    | false => simp at hk
    | true => simp at hk; subst hk; exact mem_table_consts.2.2.2.1

theorem mem_maskKeys {ht : Bool} {hs : AMap Handler} {m : Bytes} :
    m ∈ maskKeys ht hs ↔ (m ∈ hs.keys ∧ m ≠ mNotAllowed) ∨ (ht = true ∧ m = mTRACE) := by
  unfold maskKeys
  cases ht <;> simp [List.mem_filter]

/-- The rendering of a `Good` node's method index. -/
theorem good_methods {ht : Bool} {n : Node} (hg : Good ht n) (hne : n.handlers ≠ []) :
    n.methods = sortBytes (methodsTable.filter (fun m => decide (m ∈ maskKeys ht n.handlers))) ∧
    (∀ m, m ∈ n.methods ↔ (m ∈ n.handlers.keys ∧ m ≠ mNotAllowed) ∨ (ht = true ∧ m = mTRACE)) := by
  have hshape : KeyShape ht n.handlers := by
    rcases hg.1.2 with h0 | h0
    · exact absurd h0 hne
    · exact h0
  have hmi : n.methodIndex = ((maskKeys ht n.handlers).map methodBit).sum := by
    rw [hg.1.1]; exact nodeMethodIndex_eq_mask ht _ hne
  unfold Node.methods
  rw [hmi]
  refine ⟨renderMethods_sum _ (maskKeys_nodup hshape) (maskKeys_subset hshape), ?_⟩
  intro m
  rw [mem_renderMethods_sum _ (maskKeys_nodup hshape) (maskKeys_subset hshape), mem_maskKeys]

/-- Keys other than `""` are: hand-registered methods, HEAD when GET is registered, OPTIONS. -/
theorem keys_registered {ht : Bool} {n : Node} (h : KeyShape ht n.handlers) (m : Bytes) :
    (m ∈ n.handlers.keys ∧ m ≠ mNotAllowed) ↔
      m ∈ n.registered ∨ (m = mHEAD ∧ mGET ∈ n.registered) ∨ m = mOPTIONS := by
  obtain ⟨c1, c2, c3, c4, c5, c6, c7, c8, c9, c10⟩ := method_consts_ne
  have hget : mGET ∈ n.registered ↔ mGET ∈ n.handlers.keys := by
    unfold Node.registered
    simp [List.mem_filter, c1, c2, c3]
  unfold Node.registered at *
  simp only [List.mem_filter, decide_eq_true_eq] at *
  constructor
  · rintro ⟨hk, hna⟩
    by_cases hh : m = mHEAD
    · subst hh; exact .inr (.inl ⟨rfl, hget.2 (h.head_iff.1 hk)⟩)
    · by_cases ho : m = mOPTIONS
      · exact .inr (.inr ho)
      · exact .inl ⟨hk, by simp [hh, ho, hna]⟩
  · rintro (⟨hk, hx⟩ | ⟨rfl, hg⟩ | rfl)
    · exact ⟨hk, hx.2.2⟩
    · exact ⟨h.head_iff.2 (hget.1 hg), c6⟩
    · exact ⟨h.options, c8⟩


/-! ## `Routes()` -/

theorem mem_routes_iff (x : Bytes × List Bytes) :
    (∀ n : Node, x ∈ n.routes ↔ ∃ m ∈ n.nodes, m.methodIndex > 0 ∧ x = (m.pattern, m.methods)) ∧
    (∀ cs : List Node, x ∈ routesL cs ↔ ∃ m ∈ nodesL cs, m.methodIndex > 0 ∧ x = (m.pattern, m.methods)) := by
  have hN : ∀ n : Node, x ∈ n.routes ↔ ∃ m ∈ n.nodes, m.methodIndex > 0 ∧ x = (m.pattern, m.methods) := by
    intro n
    induction n using Node.rec (motive_2 := fun cs => x ∈ routesL cs ↔
        ∃ m ∈ nodesL cs, m.methodIndex > 0 ∧ x = (m.pattern, m.methods)) with
    | mk s p mi hs idx cs ih =>
      simp only [Node.routes, Node.nodes, List.mem_append, List.mem_cons, ih]
      constructor
      · rintro (h | ⟨m, hm, h⟩)
        · split at h
          · rename_i hmi
            simp at h
            exact ⟨_, .inl rfl, hmi, by simpa [Node.methods] using h⟩
          · simp at h
        · exact ⟨m, .inr hm, h⟩
      · rintro ⟨m, (rfl | hm), hmi, hx⟩
        · left
          simp only [Node.methodIndex_mk] at hmi
          simp [hmi, hx, Node.methods]
        · exact .inr ⟨m, hm, hmi, hx⟩
    | nil => simp [routesL, nodesL]
    | cons c cs ih1 ih2 =>
      simp only [routesL, nodesL, List.mem_append, ih1, ih2]
      constructor
      · rintro (⟨m, hm, h⟩ | ⟨m, hm, h⟩)
        · exact ⟨m, .inl hm, h⟩
        · exact ⟨m, .inr hm, h⟩
      · rintro ⟨m, (hm | hm), h⟩
        · exact .inl ⟨m, hm, h⟩
        · exact .inr ⟨m, hm, h⟩
  refine ⟨hN, ?_⟩
  intro cs
  induction cs with
  | nil => simp [routesL, nodesL]
  | cons c cs ih =>
    simp only [routesL, nodesL, List.mem_append, hN, ih]
    constructor
    · rintro (⟨m, hm, h⟩ | ⟨m, hm, h⟩)
      · exact ⟨m, .inl hm, h⟩
      · exact ⟨m, .inr hm, h⟩
    · rintro ⟨m, (hm | hm), h⟩
      · exact .inl ⟨m, hm, h⟩
      · exact .inr ⟨m, hm, h⟩

theorem le_sum_of_mem {l : List Nat} {x : Nat} (h : x ∈ l) : x ≤ l.sum := by
  induction l with
  | nil => simp at h
  | cons y ys ih =>
    rcases List.mem_cons.1 h with rfl | h
    · simp
    · have := ih h
      simp only [List.sum_cons]; omega

/-- A `Good` node has a positive method index exactly when it has handlers. -/
theorem good_mi_pos {ht : Bool} {n : Node} (hg : Good ht n) : n.methodIndex > 0 ↔ n.handlers ≠ [] := by
  constructor
  · intro h h0
    rw [hg.1.1, h0] at h
    simp [nodeMethodIndex] at h
  · intro hne
    rcases hg.1.2 with h0 | h0
    · exact absurd h0 hne
    · rw [hg.1.1, nodeMethodIndex_eq_mask ht _ hne]
      have hmem : mOPTIONS ∈ maskKeys ht n.handlers :=
        mem_maskKeys.2 (.inl ⟨h0.options, method_consts_ne.2.2.2.2.2.2.2.1⟩)
      have hle : methodBit mOPTIONS ≤ ((maskKeys ht n.handlers).map methodBit).sum :=
        le_sum_of_mem (List.mem_map_of_mem hmem)
      have : methodBit mOPTIONS = 256 := methodBit_table.2.2.2.2.2.2.2.2
      omega

end Mux
