/-
  Mux.Proofs.StructGetNode — `getNode` (`addSegment`/`splitNode`) preserves the structural
  invariant `SOk` on the whole subtree, keeps the `seg`/`pattern` of the node it is called on.
-/
import Mux.Proofs.StructBasic
namespace Mux.P8
open Mux

/-- What `getNode ic n v rest = .ok r` guarantees (structural part). -/
def GP (ic : Interceptors) (n : Node) (r : Node × List Nat) : Prop :=
  r.1.seg = n.seg ∧ r.1.pattern = n.pattern ∧ Node.All (SOk ic) r.1

/-- The situation just before `getNode` descends: `n1` is the restructured `n`; at position `j`
sits a child that looks like `parent` to `n1`. -/
structure GB (ic : Interceptors) (n n1 parent : Node) (j : Nat) : Prop where
  ok1 : Node.All (SOk ic) n1
  seg1 : n1.seg = n.seg
  pat1 : n1.pattern = n.pattern
  pos : ∃ d, n1.children[j]? = some d ∧ sigc d = sigc parent
  okp : Node.All (SOk ic) parent

theorem GB.leaf {ic n n1 parent j} (b : GB ic n n1 parent j) : GP ic n (n1, [j]) :=
  ⟨b.seg1, b.pat1, b.ok1⟩

theorem GB.descend {ic n n1 parent j} (b : GB ic n n1 parent j) {res : Node × List Nat} (hp : GP ic parent res) :
    GP ic n (n1.setChildren (n1.children.set j res.1) n1.indexes, j :: res.2) := by
  obtain ⟨hs, hpat, hall⟩ := hp
  obtain ⟨d, hd, hsd⟩ := b.pos
  refine ⟨b.seg1, b.pat1, ?_⟩
  rw [Node.All_iff]
  refine ⟨?_, ?_⟩
  · refine b.ok1.head.congr rfl rfl ?_
    simp only [Node.setChildren, Node.children_mk]
    refine map_sigc_set hd ?_
    rw [hsd]
    simp only [sigc, hs, hpat]
  · simpa [Node.setChildren] using AllL_set b.ok1.tail hall

theorem childPos_spec {cs : List Node} {v : Bytes} {j : Nat} (h : childPos cs v = some j) :
    ∃ d, cs[j]? = some d ∧ d.seg.value = v := by
  unfold childPos at h
  rw [List.findIdx?_eq_some_iff_getElem] at h
  obtain ⟨hlt, hv, _⟩ := h
  exact ⟨cs[j], by simp [hlt], by simpa using hv⟩

theorem SOk.leaf (ic : Interceptors) (pp : Bytes) (s : Seg) : Node.All (SOk ic) (newLeaf pp s) := by
  simp only [newLeaf, Node.All, AllL, and_true]
  exact ⟨by intro c hc; simp at hc, by simp [RankSorted], by simp [buildIndexes, indexesSize]⟩

theorem setSeg_All {ic : Interceptors} {c : Node} (s : Seg) (h : Node.All (SOk ic) c) : Node.All (SOk ic) (c.setSeg s) := by
  rw [Node.All_iff] at h ⊢
  exact ⟨h.1.congr rfl rfl rfl, h.2⟩

/-- After `sortNode` of `n` with the children `cs` (all admissible, all `SOk` below): the base
situation for the position `j` of the first child with text `w`, for any admissible `parent` with
that text. -/
theorem GB.ofSort {ic : Interceptors} {n n1 parent : Node} {cs : List Node} {w : Bytes} {j : Nat}
    (hc : ∀ c ∈ cs, ChildOk ic n.pattern c) (hall : AllL (SOk ic) cs)
    (hs : sortNode (n.setChildren cs n.indexes) = .ok n1) (hj : childPos n1.children w = some j)
    (hpc : ChildOk ic n.pattern parent) (hpw : parent.seg.value = w) (hp : Node.All (SOk ic) parent) :
    GB ic n n1 parent j := by
  obtain ⟨hok, hseg, hpat, hch⟩ := SOk.of_sortNode (ic := ic) (m := n.setChildren cs n.indexes)
    (by simpa [Node.setChildren] using hc) hs
  simp only [Node.setChildren, Node.seg_mk, Node.pattern_mk, Node.children_mk] at hseg hpat hch
  obtain ⟨d, hd, hdv⟩ := childPos_spec hj
  refine ⟨?_, hseg, hpat, ⟨d, hd, ?_⟩, hp⟩
  · rw [Node.All_iff]
    exact ⟨hok, by rw [hch]; exact AllL_sortChildren.2 hall⟩
  · have hdc : ChildOk ic n.pattern d := by
      have := hok.child d (List.mem_of_getElem? hd)
      rwa [hpat] at this
    exact hdc.sig_eq hpc (by rw [hdv, hpw])

set_option hygiene false in
/-- The common tail of the "similar child" branch of `getNode` (used twice). -/
local macro "gs_tail" parent:term : tactic => `(tactic|
  (split at h
   · split at h
     · simp only [pure, Except.pure, Except.ok.injEq] at h
       subst h; exact b.leaf
     · have ih := ih1 $parent
       simp only at ih
       split at h
       · simp at h
       rename_i res hres
       simp only [pure, Except.pure, Except.ok.injEq] at h
       subst h
       exact b.descend (ih res b.okp (hrest _ (by simp)) (fun x hx => hrest x (by simp [hx])) hres)
   · rename_i hvl
     split at h
     · simp at h
     rename_i res hres
     simp only [pure, Except.pure, Except.ok.injEq] at h
     subst h
     exact b.descend (ih3 l hl $parent hvl res b.okp
       (by intro hnil; have := congrArg List.length hnil; simp at this; omega) hrest hres)))

theorem getNode_struct (ic : Interceptors) (n : Node) (v : Bytes) (rest : List Bytes) :
    ∀ r, Node.All (SOk ic) n → v ≠ [] → (∀ x ∈ rest, x ≠ []) → getNode ic n v rest = .ok r → GP ic n r := by
  induction n, v, rest using getNode.induct with
  | _ n v rest ih1 ih2 ih3 =>
    intro r hn hv hrest h
    rw [getNode] at h
    simp only [bind, Except.bind] at h
    split at h
    · simp at h
    rename_i seg hseg
    have hsv : seg.value = v := newSegment_value _ _ _ hseg
    split at h
    · -- an identical child exists
      rename_i i _
      split at h
      · simp [throw, throwThe, MonadExceptOf.throw] at h
      rename_i c hc
      have b : GB ic n n c i := ⟨hn, rfl, rfl, ⟨c, hc, rfl⟩, AllL_getElem? hn.tail hc⟩
      split at h
      · simp only [pure, Except.pure, Except.ok.injEq] at h
        subst h; exact b.leaf
      · rename_i v' rest'
        have ih := ih1 c
        simp only at ih
        split at h
        · simp at h
        rename_i res hres
        simp only [pure, Except.pure, Except.ok.injEq] at h
        subst h
        exact b.descend (ih res b.okp (hrest _ (by simp)) (fun x hx => hrest x (by simp [hx])) hres)
    · rename_i l i _
      split at h
      · -- a new leaf
        split at h
        · simp at h
        rename_i n1 hn1
        split at h
        · simp [throw, throwThe, MonadExceptOf.throw] at h
        rename_i j hj
        have hleafC : ChildOk ic n.pattern (newLeaf n.pattern seg) :=
          ⟨rfl, by simp only [newLeaf, Node.seg_mk]; rw [hsv]; exact hv,
            by simp only [newLeaf, Node.seg_mk]; rw [hsv]; exact hseg⟩
        have b : GB ic n n1 (newLeaf n.pattern seg) j := by
          refine GB.ofSort (cs := n.children ++ [newLeaf n.pattern seg]) ?_ ?_ hn1 hj hleafC
            (by simp only [newLeaf, Node.seg_mk]; exact hsv) (SOk.leaf ic _ _)
          · intro c hc
            rcases List.mem_append.1 hc with hc | hc
            · exact hn.head.child c hc
            · simp only [List.mem_singleton] at hc; subst hc; exact hleafC
          · exact AllL_append.2 ⟨hn.tail, by simp only [AllL, and_true]; exact SOk.leaf ic _ _⟩
        split at h
        · simp only [pure, Except.pure, Except.ok.injEq] at h
          subst h; exact b.leaf
        · rename_i v' rest'
          have ih := ih2 seg
          simp only at ih
          split at h
          · simp at h
          rename_i res hres
          simp only [pure, Except.pure, Except.ok.injEq] at h
          subst h
          exact b.descend (ih res b.okp (hrest _ (by simp)) (fun x hx => hrest x (by simp [hx])) hres)
      · -- a similar child: split it if necessary, then descend
        rename_i hl
        split at h
        · simp [throw, throwThe, MonadExceptOf.throw] at h
        rename_i c hc
        have hcAll := AllL_getElem? hn.tail hc
        have hcC : ChildOk ic n.pattern c := hn.head.child c (List.mem_of_getElem? hc)
        split at h
        · -- no split needed
          simp only [pure, Except.pure] at h
          have b : GB ic n n c i := ⟨hn, rfl, rfl, ⟨c, hc, rfl⟩, hcAll⟩
          gs_tail c
        · rename_i hlen
          split at h
          · simp at h
          rename_i ss hss
          split at h
          · simp at h
          rename_i ret hret
          split at h
          · simp at h
          rename_i n1 hn1
          split at h
          · simp [throw, throwThe, MonadExceptOf.throw] at h
          rename_i j hj
          simp only [pure, Except.pure] at h
          obtain ⟨s1, s2⟩ := ss
          obtain ⟨hle, hns1, hns2, hv1, hv2⟩ := splitAt_ok hss
          have hlpos : 0 < l.toNat := by omega
          have hv1ne : s1.value ≠ [] := by
            rw [hv1]; intro hnil
            have := congrArg List.length hnil
            rw [List.length_take, List.length_nil] at this; omega
          have hv2ne : s2.value ≠ [] := by
            rw [hv2]; intro hnil
            have := congrArg List.length hnil
            rw [List.length_drop, List.length_nil] at this; omega
          have hcat : c.seg.value = s1.value ++ s2.value := by rw [hv1, hv2, List.take_append_drop]
          -- the lower half keeps `c`'s pattern, indexes and children
          have hlower : Node.All (SOk ic) (c.setSeg s2) := setSeg_All s2 hcAll
          have hlowerC : ChildOk ic (n.pattern ++ s1.value) (c.setSeg s2) := by
            refine ⟨?_, hv2ne, by rw [show (c.setSeg s2).seg = s2 from rfl, hv2]; exact hns2⟩
            show c.pattern = (n.pattern ++ s1.value) ++ s2.value
            rw [hcC.1, hcat, List.append_assoc]
          obtain ⟨hretOk, hretSeg, hretPat, hretCh⟩ := SOk.of_sortNode (ic := ic)
            (m := .mk s1 (n.pattern ++ s1.value) 0 [] [] [c.setSeg s2])
            (by intro x hx; simp only [Node.children_mk, List.mem_singleton] at hx; subst hx; exact hlowerC) hret
          simp only [Node.seg_mk, Node.pattern_mk, Node.children_mk] at hretSeg hretPat hretCh
          have hretAll : Node.All (SOk ic) ret := by
            rw [Node.All_iff]
            refine ⟨hretOk, ?_⟩
            rw [hretCh, AllL_sortChildren]
            simp only [AllL, and_true]; exact hlower
          have hretC : ChildOk ic n.pattern ret :=
            ⟨by rw [hretPat, hretSeg], by rw [hretSeg]; exact hv1ne, by rw [hretSeg, hv1]; exact hns1⟩
          have b : GB ic n n1 ret j := by
            refine GB.ofSort (cs := removeNodes n.children c.seg.value ++ [ret]) ?_ ?_ hn1 hj hretC
              (by rw [hretSeg]) hretAll
            · intro x hx
              rcases List.mem_append.1 hx with hx | hx
              · exact hn.head.child x ((removeNodes_sublist _ _).subset hx)
              · simp only [List.mem_singleton] at hx; subst hx; exact hretC
            · exact AllL_append.2 ⟨AllL_removeNodes _ hn.tail, by simp only [AllL, and_true]; exact hretAll⟩
          gs_tail ret

/-- `getNode` on a whole subtree. -/
theorem getNode_SOk {ic : Interceptors} {n n' : Node} {v : Bytes} {rest : List Bytes} {path : List Nat}
    (hn : Node.All (SOk ic) n) (hv : v ≠ []) (hrest : ∀ x ∈ rest, x ≠ [])
    (h : getNode ic n v rest = .ok (n', path)) :
    n'.seg = n.seg ∧ n'.pattern = n.pattern ∧ Node.All (SOk ic) n' :=
  getNode_struct ic n v rest _ hn hv hrest h

end Mux.P8
